(* C17 deep - the invariants hold for the initial tableau of `_solve_master_lp`, survive drive_out_artificials, and the
   phase-2 objective row built by the code (costs, then elimination of the basic columns) satisfies O1 and O2. *)
From Coq Require Import List ZArith QArith Qabs Qround Bool Arith Lia Lqa Setoid.
From SV Require Import C17.Cg C17.CgSpec C17.GateProofs C17.PoolProofs C17.DeepSum C17.DeepInv C17.DeepPhase.
Import ListNotations.
Open Scope Q_scope.

(* the pieces of master_lp, named *)
Definition m_rows (columns : list pattern) (demands : list Z) : list row :=
  let m := length demands in
  mapi (fun i d => map (fun c : pattern => z2q (getz c i)) columns ++ unitq m i (-(1)) ++ unitq m i 1 ++ [z2q d]) demands.

Definition obj2_step (eps : Q) (n : nat) (basis : list nat) (st : list Q * nat) (r : row) : list Q * nat :=
  let b := nth (snd st) basis O in
  let cost := if Nat.ltb b n then 1 else 0 in
  ((if Qltb eps (Qabs cost) then vsubmul cost (fst st) r else fst st), S (snd st)).

Definition m_obj2 (eps : Q) (n m : nat) (basis : list nat) (rows : list row) : row :=
  fst (fold_left (obj2_step eps n basis) rows (repeat 1 n ++ repeat 0 (S (m + m)), O)).

Definition colA (columns : list pattern) (j i : nat) : Q := z2q (getz (nth j columns []) i).
Definition demD (demands : list Z) (i : nat) : Q := z2q (getz demands i).

Lemma getq_repeat0 : forall k j, getq (repeat 0 k) j = 0.
Proof.
  induction k as [|k IH]; intros j; [destruct j; reflexivity|]. destruct j as [|j]; [reflexivity|].
  unfold getq in *. simpl. apply IH.
Qed.

Lemma unitq_length : forall k i v, length (unitq k i v) = k.
Proof. intros. unfold unitq. rewrite map_length, seq_length. reflexivity. Qed.

Lemma getq_unitq : forall k i v j, (j < k)%nat -> getq (unitq k i v) j = if Nat.eqb j i then v else 0.
Proof. intros k i v j Hj. unfold unitq. apply (getq_tab (fun j => if Nat.eqb j i then v else 0)). exact Hj. Qed.

Lemma getz_nil : forall i, getz [] i = 0%Z.
Proof. intros [|i]; reflexivity. Qed.

Section Init.
Variables (columns : list pattern) (demands : list Z).
Notation n := (length columns).
Notation m := (length demands).
Notation A := (colA columns).
Notation D := (demD demands).

Lemma m_rows_length : length (m_rows columns demands) = m.
Proof. unfold m_rows. rewrite mapi_length. reflexivity. Qed.

Lemma m_rows_nth : forall i, (i < m)%nat ->
  nth i (m_rows columns demands) [] =
  map (fun c : pattern => z2q (getz c i)) columns ++ unitq m i (-(1)) ++ unitq m i 1 ++ [z2q (getz demands i)].
Proof.
  intros i Hi. unfold m_rows. rewrite (nth_mapi _ demands i 0%Z (@nil Q)) by exact Hi. reflexivity.
Qed.

Lemma row0_x : forall i j, (i < m)%nat -> (j < n)%nat -> ent (m_rows columns demands) i j = A j i.
Proof.
  intros i j Hi Hj. unfold ent. rewrite m_rows_nth by exact Hi.
  rewrite getq_app1 by (rewrite map_length; exact Hj).
  unfold getq, colA. rewrite (nth_indep _ 0 (z2q (getz [] i))) by (rewrite map_length; exact Hj).
  rewrite (map_nth (fun c : pattern => z2q (getz c i))). reflexivity.
Qed.

Lemma row0_s : forall i i', (i < m)%nat -> (i' < m)%nat ->
  ent (m_rows columns demands) i (n + i') = if Nat.eqb i' i then -(1) else 0.
Proof.
  intros i i' Hi Hi'. unfold ent. rewrite m_rows_nth by exact Hi.
  rewrite getq_app2 by (rewrite map_length; lia). rewrite map_length.
  replace (n + i' - n)%nat with i' by lia.
  rewrite getq_app1 by (rewrite unitq_length; exact Hi'). apply getq_unitq. exact Hi'.
Qed.

Lemma row0_a : forall i i', (i < m)%nat -> (i' < m)%nat ->
  ent (m_rows columns demands) i (n + m + i') = if Nat.eqb i' i then 1 else 0.
Proof.
  intros i i' Hi Hi'. unfold ent. rewrite m_rows_nth by exact Hi.
  rewrite getq_app2 by (rewrite map_length; lia). rewrite map_length.
  rewrite getq_app2 by (rewrite unitq_length; lia). rewrite unitq_length.
  replace (n + m + i' - n - m)%nat with i' by lia.
  rewrite getq_app1 by (rewrite unitq_length; exact Hi'). apply getq_unitq. exact Hi'.
Qed.

Lemma row0_d : forall i, (i < m)%nat -> ent (m_rows columns demands) i (n + m + m) = D i.
Proof.
  intros i Hi. unfold ent. rewrite m_rows_nth by exact Hi.
  rewrite getq_app2 by (rewrite map_length; lia). rewrite map_length.
  rewrite getq_app2 by (rewrite unitq_length; lia). rewrite unitq_length.
  rewrite getq_app2 by (rewrite unitq_length; lia). rewrite unitq_length.
  replace (n + m + m - n - m - m)%nat with O by lia. reflexivity.
Qed.

Lemma row0_len : forall i, (i < m)%nat -> length (nth i (m_rows columns demands) []) = S (NN n m).
Proof.
  intros i Hi. rewrite m_rows_nth by exact Hi. rewrite !app_length, map_length, !unitq_length. simpl. unfold NN. lia.
Qed.

Lemma sum_delta_mul : forall (c : Q) (W : nat -> Q) i, (i < m)%nat ->
  sumN (fun i' => (if Nat.eqb i' i then c else 0) * W i') 0 m == c * W i.
Proof.
  intros c W i Hi. rewrite (sumN_ext _ (fun i' => if Nat.eqb i' i then c * W i else 0)).
  - apply sumN_delta. lia.
  - intros i' _. destruct (Nat.eqb i' i) eqn:E; [apply Nat.eqb_eq in E; subst; reflexivity | ring].
Qed.

Lemma row0_Lin : forall i, (i < m)%nat -> Lin n m A D (nth i (m_rows columns demands) []).
Proof.
  intros i Hi.
  assert (Hmu : forall i', (i' < m)%nat -> mu n m (nth i (m_rows columns demands) []) i' = if Nat.eqb i' i then 1 else 0).
  { intros i' Hi'. unfold mu. apply (row0_a i i' Hi Hi'). }
  assert (Hs : forall W, sumN (fun i' => mu n m (nth i (m_rows columns demands) []) i' * W i') 0 m == W i).
  { intros W. rewrite (sumN_ext _ (fun i' => (if Nat.eqb i' i then 1 else 0) * W i')).
    - rewrite sum_delta_mul by exact Hi. ring.
    - intros i' Hi'. rewrite Hmu by lia. reflexivity. }
  split; [apply row0_len; exact Hi|]. split; [|split].
  - intros j Hj. rewrite Hs. fold (ent (m_rows columns demands) i j). rewrite row0_x by assumption. reflexivity.
  - intros i' Hi'. rewrite Hmu by exact Hi'. fold (ent (m_rows columns demands) i (n + i')).
    rewrite row0_s by assumption. destruct (Nat.eqb i' i); ring.
  - rewrite Hs. unfold NN. fold (ent (m_rows columns demands) i (n + m + m)). rewrite row0_d by exact Hi. reflexivity.
Qed.

Lemma rows0_inv : rowsInv n m A D (m_rows columns demands) (seq (n + m) m).
Proof.
  split; [apply m_rows_length|]. split; [apply seq_length|]. split.
  - apply Forall_nth. intros i d Hi. rewrite m_rows_length in Hi.
    rewrite (nth_indep _ d []) by (rewrite m_rows_length; exact Hi). apply row0_Lin. exact Hi.
  - intros k k' Hk Hk'. rewrite seq_nth by exact Hk. rewrite row0_a by assumption. reflexivity.
Qed.

End Init.

(* ---------------------------------------------------------------- phase-2 objective row *)
Section Obj2.
Variables (n m : nat) (A : nat -> nat -> Q) (D : nat -> Q).

Lemma obj20_get : forall j, getq (repeat 1 n ++ repeat 0 (S (m + m))) j = c0 n j.
Proof.
  intros j. unfold c0. destruct (Nat.ltb j n) eqn:E.
  - apply Nat.ltb_lt in E. rewrite getq_app1 by (rewrite repeat_length; exact E). apply getq_repeat. exact E.
  - apply Nat.ltb_ge in E. rewrite getq_app2 by (rewrite repeat_length; exact E). apply getq_repeat0.
Qed.

Lemma obj20_ObjInv : ObjInv n m A D (repeat 1 n ++ repeat 0 (S (m + m))).
Proof.
  assert (Hmu : forall i, mu n m (repeat 1 n ++ repeat 0 (S (m + m))) i = 0).
  { intros i. unfold mu. rewrite obj20_get. unfold c0. replace (Nat.ltb (n + m + i) n) with false; [reflexivity|].
    symmetry. apply Nat.ltb_ge. lia. }
  assert (Hs : forall W, sumN (fun i => mu n m (repeat 1 n ++ repeat 0 (S (m + m))) i * W i) 0 m == 0).
  { intros W. rewrite (sumN_ext _ (fun _ => 0)); [apply sumN_zero|]. intros i _. rewrite Hmu. ring. }
  split; [rewrite app_length, !repeat_length; unfold NN; lia|]. split; [|split].
  - intros j Hj. rewrite Hs, obj20_get. unfold c0. apply Nat.ltb_lt in Hj. rewrite Hj. ring.
  - intros i Hi. rewrite Hmu, obj20_get. unfold c0. replace (Nat.ltb (n + i) n) with false; [ring|].
    symmetry. apply Nat.ltb_ge. lia.
  - rewrite Hs, obj20_get. unfold c0, NN. replace (Nat.ltb (n + m + m) n) with false; [reflexivity|].
    symmetry. apply Nat.ltb_ge. lia.
Qed.

Lemma obj2_step_comb : forall basis acc s r, length r = length acc ->
  comb (fst (obj2_step 0 n basis (acc, s) r)) acc (c0 n (nth s basis O)) r.
Proof.
  intros basis acc s r Hl. unfold obj2_step, c0. cbn [fst snd].
  destruct (Nat.ltb (nth s basis O) n).
  - change (Qltb 0 (Qabs 1)) with true. cbv iota. apply comb_vsubmul. exact Hl.
  - change (Qltb 0 (Qabs 0)) with false. cbv iota. split; [reflexivity|]. intros j. ring.
Qed.

Lemma fold_obj2 : forall basis l s acc,
  Forall (Lin n m A D) l -> ObjInv n m A D acc ->
  ObjInv n m A D (fst (fold_left (obj2_step 0 n basis) l (acc, s))) /\
  forall j, getq (fst (fold_left (obj2_step 0 n basis) l (acc, s))) j ==
            getq acc j - sumN (fun k => c0 n (nth k basis O) * getq (nth (k - s) l []) j) s (length l).
Proof.
  intros basis l. induction l as [|r l IH]; intros s acc HL HO.
  - simpl. split; [exact HO|]. intros j. ring.
  - apply Forall_cons_iff in HL. destruct HL as [Hr HL].
    assert (Hlen : length r = length acc) by (destruct Hr as [L1 _]; destruct HO as [L2 _]; lia).
    pose proof (obj2_step_comb basis acc s r Hlen) as Hc.
    cbn [fold_left].
    assert (Est : obj2_step 0 n basis (acc, s) r = (fst (obj2_step 0 n basis (acc, s) r), S s)) by reflexivity.
    rewrite Est.
    assert (HO' : ObjInv n m A D (fst (obj2_step 0 n basis (acc, s) r))) by (apply (ObjInv_comb n m A D _ acc (c0 n (nth s basis O)) r); assumption).
    destruct (IH (S s) _ HL HO') as [H1 H2]. split; [exact H1|].
    intros j. rewrite H2. destruct Hc as [_ Hc]. rewrite Hc. cbn [length sumN].
    rewrite Nat.sub_diag. cbn [nth].
    rewrite (sumN_ext (fun k => c0 n (nth k basis O) * getq (nth (k - s) (r :: l) []) j)
                      (fun k => c0 n (nth k basis O) * getq (nth (k - S s) l []) j) (length l) (S s)).
    + ring.
    + intros k Hk. replace (k - s)%nat with (S (k - S s)) by lia. reflexivity.
Qed.

Lemma m_obj2_inv : forall rows basis, rowsInv n m A D rows basis ->
  ObjInv n m A D (m_obj2 0 n m basis rows) /\ objInv2 n m rows basis (m_obj2 0 n m basis rows).
Proof.
  intros rows basis [Hlen [Hbl [HL Hc]]]. unfold m_obj2.
  destruct (fold_obj2 basis rows 0 _ HL obj20_ObjInv) as [H1 H2]. split; [exact H1|].
  intros j. rewrite H2, obj20_get, Hlen. apply Qplus_comp; [reflexivity|]. apply Qopp_comp.
  apply sumN_ext. intros k _. rewrite Nat.sub_0_r. reflexivity.
Qed.

(* ---------------------------------------------------------------- drive_out_artificials keeps R1, R2 *)
Lemma argmax_abs_spec : forall basis k r j best e ax,
  argmax_abs basis k j r best = Some (e, ax) ->
  best = Some (e, ax) \/ ((j <= e)%nat /\ ax = Qabs (nth (e - j) r 0)).
Proof.
  intros basis k. induction k as [|k IH]; intros r j best e ax H; simpl in H; [left; exact H|].
  destruct r as [|x r]; [left; exact H|].
  apply IH in H. destruct H as [H|[H1 H2]].
  - destruct (mem_nat j basis); [left; exact H|].
    destruct best as [[bj bx]|].
    + destruct (Qltb bx (Qabs x)); [|left; exact H].
      inversion H; subst. right. split; [lia|]. rewrite Nat.sub_diag. reflexivity.
    + inversion H; subst. right. split; [lia|]. rewrite Nat.sub_diag. reflexivity.
  - right. split; [lia|]. replace (e - j)%nat with (S (e - S j)) by lia. exact H2.
Qed.

Lemma drive_step_rows : forall T basis i, (i < m)%nat ->
  rowsInv n m A D (t_rows T) basis ->
  rowsInv n m A D (t_rows (fst (drive_step 0 (n + m) (T, basis) i))) (snd (drive_step 0 (n + m) (T, basis) i)).
Proof.
  intros T basis i Hi HR. unfold drive_step.
  destruct (Nat.ltb (nth i basis O) (n + m)); [exact HR|].
  destruct (argmax_abs basis (n + m) 0 (nth i (t_rows T) []) None) as [[e ax]|] eqn:Ea; [|exact HR].
  destruct (Qltb 0 ax) eqn:Eq; [|exact HR].
  destruct (argmax_abs_spec _ _ _ _ _ _ _ Ea) as [Hb|[_ Hax]]; [discriminate|].
  rewrite Nat.sub_0_r in Hax. apply Qltb_lt in Eq.
  destruct T as [rows obj]. apply pivot_rows; [exact HR | exact Hi |].
  cbn [t_rows]. unfold ent, getq. intros Hz. rewrite Hax, Hz in Eq. apply (Qlt_irrefl 0). exact Eq.
Qed.

Lemma drive_rows : forall T basis,
  rowsInv n m A D (t_rows T) basis ->
  rowsInv n m A D (t_rows (fst (drive_out_artificials 0 (n + m) m T basis)))
                  (snd (drive_out_artificials 0 (n + m) m T basis)).
Proof.
  intros T basis HR. unfold drive_out_artificials.
  assert (Hgen : forall l st, (forall i, In i l -> (i < m)%nat) -> rowsInv n m A D (t_rows (fst st)) (snd st) ->
            rowsInv n m A D (t_rows (fst (fold_left (drive_step 0 (n + m)) l st))) (snd (fold_left (drive_step 0 (n + m)) l st))).
  { induction l as [|i l IH]; intros st Hl Hst; [exact Hst|]. cbn [fold_left]. apply IH.
    - intros i' Hi'. apply Hl. right. exact Hi'.
    - destruct st as [T0 b0]. apply drive_step_rows; [apply Hl; left; reflexivity | exact Hst]. }
  apply Hgen; [|exact HR]. intros i Hi. apply in_seq in Hi. lia.
Qed.

End Obj2.
