(* C17 deep - primal side, result: when master_lp returns a finite objective for non-negative demands, the final tableau is
   primal feasible (all right-hand sides >= 0), and the primal vector x the model reads off it is non-negative and sums to
   the reported LP objective. *)
From Coq Require Import List ZArith QArith Qabs Qround Bool Arith Lia Lqa Setoid.
From SV Require Import C17.Cg C17.CgSpec C17.GateProofs C17.PoolProofs C17.DeepSum C17.DeepInv C17.DeepPhase C17.DeepInit
                       C17.DeepMaster C17.DeepPrimal C17.DeepPrimal1.
Import ListNotations.
Open Scope Q_scope.

(* ---------------------------------------------------------------- the final tableau *)
Lemma master_final_tableau : forall drive (cols : list pattern) demands x y lp,
  master_lp drive 0 cols demands = Some (x, y, Some lp) ->
  forallb (Z.leb 0) demands = true ->
  exists T2 b2,
    rowsInv (length cols) (length demands) (colA cols) (demD demands) (t_rows T2) b2 /\
    primal (length cols) (length demands) (t_rows T2) /\
    objInv2 (length cols) (length demands) (t_rows T2) b2 (t_obj T2) /\
    length (t_obj T2) = S (NN (length cols) (length demands)) /\
    x = m_x (length cols) b2 T2 /\ lp = Qred (- lastq (t_obj T2)).
Proof.
  intros drive cols demands x y lp H Hd.
  destruct cols as [|c cs] eqn:Ec; [cbn in H; discriminate|].
  rewrite <- Ec in *. rewrite master_lp_eq in H by (rewrite Ec; discriminate). cbv zeta in H.
  set (n := length cols) in *. set (m := length demands) in *.
  pose proof (rows0_inv cols demands) as HR0. fold n m in HR0.
  pose proof (rows0_primal cols demands Hd) as HP0. fold n m in HP0.
  pose proof (basis0_bound cols demands) as HB0. fold n m in HB0.
  destruct (m_obj1_spec cols demands) as [Lo1 HO1]. fold n m in Lo1, HO1.
  destruct (simplex_phase 0 simplex_fuel (n + m) (mkT (m_rows cols demands) (m_obj1 n m (m_rows cols demands))) (seq (n + m) m))
    as [[T1 b1] ok1] eqn:E1.
  destruct (phase_inv n m (colA cols) (demD demands) _ (mkT (m_rows cols demands) (m_obj1 n m (m_rows cols demands))) _ _ _ _ HR0 E1) as [HR1 _].
  destruct (phase_primal n m (colA cols) (demD demands) (c1g n m) _ (mkT (m_rows cols demands) (m_obj1 n m (m_rows cols demands))) _ _ _ _ HR0 HP0 HB0 E1)
    as [HP1 [HB1 HO1f]].
  destruct (HO1f Lo1 HO1) as [Lo1' HO1']. clear HO1f.
  destruct ok1; cbn [negb] in H; [|discriminate].
  destruct (Qltb (lastq (t_obj T1)) (- 0)) eqn:Einf; [discriminate|].
  assert (HD1 : DInv n m (colA cols) (demD demands) (t_rows T1) b1).
  { split; [exact HR1|]. split; [exact HP1|]. split; [exact HB1|].
    apply (art_zero n m (t_rows T1) b1 (t_obj T1) HP1 HB1 HO1').
    apply Qltb_false in Einf. rewrite (lastq_getq _ _ Lo1') in Einf. intros Hneg.
    apply (Qlt_irrefl 0). eapply Qle_lt_trans; [|exact Hneg]. assert (E0 : - 0 == 0) by ring. rewrite E0 in Einf. exact Einf. }
  assert (HD1d : DInv n m (colA cols) (demD demands)
                     (t_rows (fst (if drive then drive_out_artificials 0 (n + m) m T1 b1 else (T1, b1))))
                     (snd (if drive then drive_out_artificials 0 (n + m) m T1 b1 else (T1, b1)))).
  { destruct drive; [apply drive_DInv; exact HD1 | exact HD1]. }
  destruct (if drive then drive_out_artificials 0 (n + m) m T1 b1 else (T1, b1)) as [T1d b1d]. cbn [fst snd] in HD1d.
  destruct HD1d as [HR1d [HP1d [HB1d _]]].
  destruct (m_obj2_inv n m (colA cols) (demD demands) _ _ HR1d) as [HOa HOb].
  destruct (simplex_phase 0 simplex_fuel (n + m) (mkT (t_rows T1d) (m_obj2 0 n m b1d (t_rows T1d))) b1d)
    as [[T2 b2] ok2] eqn:E2.
  destruct (phase_inv n m (colA cols) (demD demands) _ (mkT (t_rows T1d) (m_obj2 0 n m b1d (t_rows T1d))) _ _ _ _ HR1d E2) as [HR2 HOf].
  cbn [t_rows t_obj] in HOf.
  destruct (phase_primal n m (colA cols) (demD demands) (c0 n) _ (mkT (t_rows T1d) (m_obj2 0 n m b1d (t_rows T1d))) _ _ _ _ HR1d HP1d HB1d E2)
    as [HP2 _].
  destruct ok2; cbn [negb] in H; [|discriminate].
  destruct (HOf HOa HOb) as [[Lo2 _] [HO2' _]].
  exists T2, b2. split; [exact HR2|]. split; [exact HP2|]. split; [exact HO2'|]. split; [exact Lo2|].
  split; congruence.
Qed.

(* ---------------------------------------------------------------- reading x off the tableau *)
Lemma getq_set_nth : forall p v l j, (p < length l)%nat -> getq (set_nth p v l) j = if Nat.eqb j p then v else getq l j.
Proof.
  intros p v l j Hp. unfold getq. destruct (Nat.eqb j p) eqn:E.
  - apply Nat.eqb_eq in E. subst j. apply set_nth_same. exact Hp.
  - apply Nat.eqb_neq in E. apply set_nth_other. exact E.
Qed.

Lemma qmax0_nonneg : forall v, 0 <= v -> qmax 0 v = v.
Proof. intros v Hv. unfold qmax. apply Qleb_le in Hv. rewrite Hv. reflexivity. Qed.

Section ReadX.
Variables (n m : nat) (A : nat -> nat -> Q) (D : nat -> Q).
Variables (rows : list row) (basis : list nat).
Hypothesis HR : rowsInv n m A D rows basis.
Hypothesis HP : primal n m rows.

Definition xstep (st : list Q * nat) (r : row) : list Q * nat :=
  let b := nth (snd st) basis O in
  ((if Nat.ltb b n then set_nth b (Qred (qmax 0 (lastq r))) (fst st) else fst st), S (snd st)).

Lemma basis_distinct : forall k k', (k < m)%nat -> (k' < m)%nat -> k <> k' -> nth k basis O <> nth k' basis O.
Proof.
  intros k k' Hk Hk' Hne Heq. destruct HR as [_ [_ [_ Hc]]].
  pose proof (Hc k k' Hk Hk') as E1. pose proof (Hc k' k' Hk' Hk') as E2.
  rewrite Heq in E1. rewrite E1 in E2. rewrite Nat.eqb_refl in E2.
  apply Nat.eqb_neq in Hne. rewrite Hne in E2. lra.
Qed.

Lemma readx_prefix : forall t, (t <= m)%nat ->
  let st := fold_left xstep (firstn t rows) (repeat 0 n, O) in
  snd st = t /\ length (fst st) = n /\
  (forall p, (forall k, (k < t)%nat -> nth k basis O <> p) -> getq (fst st) p == 0) /\
  (forall p, 0 <= getq (fst st) p) /\
  sumN (getq (fst st)) 0 n == sumN (fun k => c0 n (nth k basis O) * ent rows k (NN n m)) 0 t.
Proof.
  pose proof HR as [Hlen [Hbl [HL Hc]]].
  induction t as [|t IH]; intros Ht; cbn zeta.
  - cbn [firstn fold_left fst snd sumN]. split; [reflexivity|]. split; [apply repeat_length|].
    split; [intros p _; rewrite getq_repeat0; reflexivity|]. split; [intros p; rewrite getq_repeat0; apply Qle_refl|].
    rewrite (sumN_ext _ (fun _ => 0)) by (intros i _; rewrite getq_repeat0; reflexivity). apply sumN_zero.
  - destruct IH as [Hs [Hl [Hz [Hnn Hsum]]]]; [lia|].
    rewrite (firstn_snoc rows t []) by lia. rewrite fold_left_app.
    set (st := fold_left xstep (firstn t rows) (repeat 0 n, O)) in *.
    cbn [fold_left]. unfold xstep at 1 2 3 4 5. cbn [fst snd]. rewrite Hs.
    assert (Er : lastq (nth t rows []) = ent rows t (NN n m)) by (apply (Lin_lastq n m A D); [exact HL | lia]).
    assert (Hrt : 0 <= ent rows t (NN n m)) by (apply HP; lia).
    rewrite sumN_snoc. cbn [Nat.add]. unfold c0 at 2.
    destruct (Nat.ltb (nth t basis O) n) eqn:Eb.
    + apply Nat.ltb_lt in Eb.
      assert (Ev : Qred (qmax 0 (lastq (nth t rows []))) == ent rows t (NN n m)).
      { rewrite Qred_correct, Er, qmax0_nonneg by exact Hrt. reflexivity. }
      assert (Hzb : getq (fst st) (nth t basis O) == 0).
      { apply Hz. intros k Hk. apply basis_distinct; lia. }
      split; [reflexivity|]. split; [rewrite set_nth_length; exact Hl|]. split; [|split].
      * intros p Hp. rewrite getq_set_nth by lia.
        destruct (Nat.eqb p (nth t basis O)) eqn:Ep.
        -- apply Nat.eqb_eq in Ep. exfalso. apply (Hp t); [lia | symmetry; exact Ep].
        -- apply Hz. intros k Hk. apply Hp. lia.
      * intros p. rewrite getq_set_nth by lia. destruct (Nat.eqb p (nth t basis O)); [rewrite Ev; exact Hrt | apply Hnn].
      * rewrite (sumN_ext _ (fun p => getq (fst st) p + (if Nat.eqb p (nth t basis O) then ent rows t (NN n m) else 0))).
        -- rewrite sumN_plus, sumN_delta by lia. rewrite Hsum. ring.
        -- intros p Hp. rewrite getq_set_nth by lia. destruct (Nat.eqb p (nth t basis O)) eqn:Ep.
           ++ apply Nat.eqb_eq in Ep. subst p. rewrite Ev, Hzb. ring.
           ++ ring.
    + split; [reflexivity|]. split; [exact Hl|]. split; [|split].
      * intros p Hp. apply Hz. intros k Hk. apply Hp. lia.
      * exact Hnn.
      * rewrite Hsum. ring.
Qed.

Lemma readx_spec : forall obj,
  length (m_x n basis (mkT rows obj)) = n /\
  (forall p, 0 <= getq (m_x n basis (mkT rows obj)) p) /\
  sumN (getq (m_x n basis (mkT rows obj))) 0 n == sumN (fun k => c0 n (nth k basis O) * ent rows k (NN n m)) 0 m.
Proof.
  intros obj. pose proof HR as [Hlen _].
  destruct (readx_prefix m (le_n _)) as [_ [Hl [_ [Hnn Hsum]]]].
  assert (Ef : firstn m rows = rows) by (apply firstn_all2; lia). rewrite Ef in Hl, Hnn, Hsum.
  unfold m_x. cbn [t_rows]. change (fold_left _ rows (repeat 0 n, O)) with (fold_left xstep rows (repeat 0 n, O)).
  split; [exact Hl|]. split; [exact Hnn | exact Hsum].
Qed.

End ReadX.

(* ---------------------------------------------------------------- x is non-negative and sums to the LP objective *)
Theorem master_lp_primal_ok : forall drive (cols : list pattern) demands x y lp,
  master_lp drive 0 cols demands = Some (x, y, Some lp) ->
  forallb (Z.leb 0) demands = true ->
  length x = length cols /\ (forall p, 0 <= getq x p) /\ sumN (getq x) 0 (length cols) == lp.
Proof.
  intros drive cols demands x y lp H Hd.
  destruct (master_final_tableau drive cols demands x y lp H Hd) as [T2 [b2 [HR [HP [HO2 [Lo [Ex Elp]]]]]]].
  destruct T2 as [rows obj]. cbn [t_rows t_obj] in *.
  destruct (readx_spec _ _ _ _ rows b2 HR HP obj) as [Hl [Hnn Hsum]].
  subst x lp. split; [exact Hl|]. split; [exact Hnn|].
  rewrite Hsum. rewrite Qred_correct. rewrite (lastq_getq _ _ Lo). rewrite (HO2 (NN (length cols) (length demands))).
  assert (Ec : c0 (length cols) (NN (length cols) (length demands)) = 0).
  { unfold c0. replace (Nat.ltb (NN (length cols) (length demands)) (length cols)) with false; [reflexivity|].
    symmetry. apply Nat.ltb_ge. unfold NN. lia. }
  rewrite Ec. ring.
Qed.
