(* C17 - list lemmas for the knapsack DP: updating one entry of a pattern and its effect on dot products. *)
From Coq Require Import List ZArith QArith Qabs Qround Bool Arith Lia.
From SV Require Import C17.Cg C17.CgSpec C17.GateProofs C17.PoolProofs.
Import ListNotations.

Definition upd_at (g : Z -> Z) (i : nat) (p : pattern) : pattern := mapi (fun k x => if Nat.eqb k i then g x else x) p.

Lemma incr_at_upd : forall i p, incr_at i p = upd_at (fun x => (x + 1)%Z) i p.
Proof. reflexivity. Qed.

Lemma upd_at_length : forall g i p, length (upd_at g i p) = length p.
Proof. intros. unfold upd_at. apply mapi_length. Qed.

Lemma nth_mapi_from : forall (f : nat -> Z -> Z) l k j, (j < length l)%nat ->
  nth j (mapi_from k f l) 0%Z = f (k + j)%nat (nth j l 0%Z).
Proof.
  induction l as [|x l IH]; intros k j Hj; simpl in *; [lia|].
  destruct j as [|j]; [rewrite Nat.add_0_r; reflexivity|].
  rewrite IH by lia. f_equal. lia.
Qed.

Lemma getz_upd_at : forall g i p j, (j < length p)%nat ->
  getz (upd_at g i p) j = if Nat.eqb j i then g (getz p j) else getz p j.
Proof.
  intros g i p j Hj. unfold getz, upd_at, mapi. rewrite nth_mapi_from by exact Hj. reflexivity.
Qed.

(* dot products: general offset form *)
Lemma dotz_mapi_from : forall g i s p k, length p = length s ->
  dotz s (mapi_from k (fun k' x => if Nat.eqb k' i then g x else x) p) =
  (dotz s p + (if (Nat.leb k i && Nat.ltb i (k + length p))%bool
               then getz s (i - k) * (g (getz p (i - k)) - getz p (i - k)) else 0))%Z.
Proof.
  intros g i. induction s as [|sv s IH]; intros p k Hl; destruct p as [|x p]; try discriminate; simpl.
  - destruct (Nat.leb k i && Nat.ltb i (k + 0))%bool eqn:E; [|reflexivity].
    apply andb_true_iff in E. destruct E as [E1 E2]. apply Nat.leb_le in E1. apply Nat.ltb_lt in E2. lia.
  - simpl in Hl. injection Hl as Hl. rewrite IH by exact Hl.
    destruct (Nat.eqb k i) eqn:Ek.
    + apply Nat.eqb_eq in Ek. subst k.
      replace (Nat.leb (S i) i) with false by (symmetry; apply Nat.leb_gt; lia). simpl.
      replace (Nat.leb i i) with true by (symmetry; apply Nat.leb_le; lia).
      replace (Nat.ltb i (i + S (length p))) with true by (symmetry; apply Nat.ltb_lt; lia). simpl.
      rewrite Nat.sub_diag. unfold getz. simpl. lia.
    + apply Nat.eqb_neq in Ek.
      destruct (Nat.leb (S k) i && Nat.ltb i (S k + length p))%bool eqn:E.
      * apply andb_true_iff in E. destruct E as [E1 E2]. apply Nat.leb_le in E1. apply Nat.ltb_lt in E2.
        replace (Nat.leb k i) with true by (symmetry; apply Nat.leb_le; lia).
        replace (Nat.ltb i (k + S (length p))) with true by (symmetry; apply Nat.ltb_lt; lia). simpl.
        replace (i - k)%nat with (S (i - S k)) by lia. unfold getz. simpl. lia.
      * assert (Hn : ~ (k <= i < k + S (length p))%nat).
        { intros [H1 H2]. apply andb_false_iff in E. destruct E as [E|E].
          - apply Nat.leb_gt in E. lia.
          - apply Nat.ltb_ge in E. lia. }
        destruct (Nat.leb k i && Nat.ltb i (k + S (length p)))%bool eqn:E'; [|lia].
        apply andb_true_iff in E'. destruct E' as [E1 E2]. apply Nat.leb_le in E1. apply Nat.ltb_lt in E2. lia.
Qed.

Lemma dotz_upd_at : forall g i s p, length p = length s -> (i < length p)%nat ->
  dotz s (upd_at g i p) = (dotz s p + getz s i * (g (getz p i) - getz p i))%Z.
Proof.
  intros g i s p Hl Hi. unfold upd_at, mapi. rewrite dotz_mapi_from by exact Hl.
  replace (Nat.leb 0 i) with true by reflexivity.
  replace (Nat.ltb i (0 + length p)) with true by (symmetry; apply Nat.ltb_lt; lia).
  simpl. rewrite Nat.sub_0_r. reflexivity.
Qed.

Lemma dotq_mapi_from : forall g i y p k, length p = length y ->
  (dotq y (mapi_from k (fun k' x => if Nat.eqb k' i then g x else x) p) ==
   dotq y p + (if (Nat.leb k i && Nat.ltb i (k + length p))%bool
               then getq y (i - k) * z2q (g (getz p (i - k)) - getz p (i - k)) else 0))%Q.
Proof.
  intros g i. induction y as [|yv y IH]; intros p k Hl; destruct p as [|x p]; try discriminate; simpl.
  - destruct (Nat.leb k i && Nat.ltb i (k + 0))%bool eqn:E; [|ring].
    apply andb_true_iff in E. destruct E as [E1 E2]. apply Nat.leb_le in E1. apply Nat.ltb_lt in E2. lia.
  - simpl in Hl. injection Hl as Hl. rewrite IH by exact Hl.
    destruct (Nat.eqb k i) eqn:Ek.
    + apply Nat.eqb_eq in Ek. subst k.
      replace (Nat.leb (S i) i) with false by (symmetry; apply Nat.leb_gt; lia). simpl.
      replace (Nat.leb i i) with true by (symmetry; apply Nat.leb_le; lia).
      replace (Nat.ltb i (i + S (length p))) with true by (symmetry; apply Nat.ltb_lt; lia). simpl.
      rewrite Nat.sub_diag. unfold getz, getq, z2q. simpl. unfold Zminus. rewrite inject_Z_plus, inject_Z_opp. ring.
    + apply Nat.eqb_neq in Ek.
      destruct (Nat.leb (S k) i && Nat.ltb i (S k + length p))%bool eqn:E.
      * apply andb_true_iff in E. destruct E as [E1 E2]. apply Nat.leb_le in E1. apply Nat.ltb_lt in E2.
        replace (Nat.leb k i) with true by (symmetry; apply Nat.leb_le; lia).
        replace (Nat.ltb i (k + S (length p))) with true by (symmetry; apply Nat.ltb_lt; lia). simpl.
        replace (i - k)%nat with (S (i - S k)) by lia. unfold getz, getq. simpl. ring.
      * assert (Hn : ~ (k <= i < k + S (length p))%nat).
        { intros [H1 H2]. apply andb_false_iff in E. destruct E as [E|E].
          - apply Nat.leb_gt in E. lia.
          - apply Nat.ltb_ge in E. lia. }
        destruct (Nat.leb k i && Nat.ltb i (k + S (length p)))%bool eqn:E'; [|ring].
        apply andb_true_iff in E'. destruct E' as [E1 E2]. apply Nat.leb_le in E1. apply Nat.ltb_lt in E2. lia.
Qed.

Lemma dotq_upd_at : forall g i y p, length p = length y -> (i < length p)%nat ->
  (dotq y (upd_at g i p) == dotq y p + getq y i * z2q (g (getz p i) - getz p i))%Q.
Proof.
  intros g i y p Hl Hi. unfold upd_at, mapi. rewrite dotq_mapi_from by exact Hl.
  replace (Nat.leb 0 i) with true by reflexivity.
  replace (Nat.ltb i (0 + length p)) with true by (symmetry; apply Nat.ltb_lt; lia).
  simpl. rewrite Nat.sub_0_r. reflexivity.
Qed.

(* non-negative data *)
Lemma dotz_nonneg : forall s a, Forall (fun x => (0 <= x)%Z) s -> Forall (fun x => (0 <= x)%Z) a -> (0 <= dotz s a)%Z.
Proof.
  induction s as [|sv s IH]; intros a Hs Ha; simpl; [lia|]. destruct a as [|x a]; [lia|].
  inversion Hs; subst. inversion Ha; subst. specialize (IH a H2 H4). nia.
Qed.

Lemma dotz_ge_term : forall s a i, Forall (fun x => (0 <= x)%Z) s -> Forall (fun x => (0 <= x)%Z) a ->
  (getz s i * getz a i <= dotz s a)%Z.
Proof.
  induction s as [|sv s IH]; intros a i Hs Ha; simpl.
  - unfold getz. destruct i; simpl; lia.
  - destruct a as [|x a].
    + unfold getz. destruct i; simpl; lia.
    + inversion Hs; subst. inversion Ha; subst. destruct i as [|i]; unfold getz; simpl.
      * pose proof (dotz_nonneg s a H2 H4). lia.
      * specialize (IH a i H2 H4). unfold getz in IH. nia.
Qed.

Lemma dotz_zeros : forall s n, dotz s (repeat 0%Z n) = 0%Z.
Proof.
  induction s as [|sv s IH]; intros n; simpl; [reflexivity|]. destruct n; simpl; [reflexivity|]. rewrite IH. lia.
Qed.

Lemma dotq_zeros : forall y n, (dotq y (repeat 0%Z n) == 0)%Q.
Proof.
  induction y as [|yv y IH]; intros n; simpl; [reflexivity|]. destruct n; simpl; [reflexivity|]. rewrite IH. unfold z2q. simpl. ring.
Qed.

(* scaling the sizes *)
Lemma dotz_scale : forall s a k, dotz (map (fun x => (x * k)%Z) s) a = (dotz s a * k)%Z.
Proof.
  induction s as [|sv s IH]; intros a k; simpl; [reflexivity|]. destruct a as [|x a]; [reflexivity|]. rewrite IH. lia.
Qed.
