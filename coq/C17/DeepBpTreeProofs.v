(* C17 deep, second round - the whole-tree model of solve_bp (DeepBpTree.v):
   * without column bounds the bounded master LP / node LP are the ones of the root model (Bp.v);
   * the column pool stays a duplicate-free list of fitting patterns through every node LP;
   * invariant of the tree search: the incumbent is only ever replaced by a plan that passed `covers` (and came out of
     `_build_solution` over pool columns) or is the rounded root plan, so every answer with a usable status passes the gate
     `plan_ok`; an answer OPTIMAL produced by the loop satisfies `proven` against the root bound. *)
From Coq Require Import List ZArith QArith Qabs Qround Bool Arith Lia.
From SV Require Import C17.Cg C17.CgSpec C17.Bp C17.GateProofs C17.PoolProofs C17.CgGateProofs C17.BpGateProofs C17.DeepBpTree.
Import ListNotations.

(* ---------------------------------------------------------------- no bounds = the root model *)
Lemma bounded_master_nil : forall eps columns demands,
  bounded_master_lp eps columns demands [] = master_lp true eps columns demands.
Proof.
  intros eps columns demands. unfold bounded_master_lp, master_lp.
  destruct columns as [|c cs]; [reflexivity|].
  cbn [filter]. change (length (@nil cbound)) with O. change (repeat 0%Q 0) with (@nil Q).
  cbn [app mapi mapi_from]. rewrite !Nat.add_0_r. rewrite !app_nil_r. reflexivity.
Qed.

Lemma bnode_loop_nil : forall eps is_cs pricing demands fuel it cols,
  bnode_loop eps is_cs pricing demands [] fuel it cols = node_loop eps is_cs pricing demands fuel it cols.
Proof.
  intros eps is_cs pricing demands fuel. induction fuel as [|fuel IH]; intros it cols; cbn [bnode_loop node_loop]; [reflexivity|].
  rewrite bounded_master_nil.
  destruct (master_lp true eps cols demands) as [[[x duals] [lp|]]|]; try reflexivity.
  destruct (pricing duals) as [[nc v]|]; [|reflexivity].
  destruct (if is_cs then Qleb v (1 + eps) else match nc with None => true | Some _ => Qleb (- eps) v end); [reflexivity|].
  apply IH.
Qed.

Lemma bsolve_node_nil : forall eps is_cs pricing demands mi cols,
  bsolve_node_lp eps is_cs pricing demands [] mi cols = solve_node_lp eps is_cs pricing demands mi cols.
Proof.
  intros. unfold bsolve_node_lp, solve_node_lp. rewrite bnode_loop_nil.
  destruct (node_loop eps is_cs pricing demands mi 0 cols) as [[r|[[c i] b]]|]; try reflexivity.
  rewrite bounded_master_nil. reflexivity.
Qed.

(* ---------------------------------------------------------------- the pool through a node LP with bounds *)
Lemma bnode_loop_pool_ok : forall eps sizes width demands cb fuel it cols res,
  (0 <= eps)%Q -> (eps < 1)%Q -> (0 <= width)%Z ->
  pool_ok sizes width cols ->
  bnode_loop eps true (cs_pricing eps sizes width) demands cb fuel it cols = Some res ->
  match res with
  | inl (cols', _, _, _, _, _) => pool_ok sizes width cols'
  | inr (cols', _, _) => pool_ok sizes width cols'
  end.
Proof.
  intros eps sizes width demands cb fuel. induction fuel as [|fuel IH]; intros it cols res He0 He1 Hw Hp H; cbn [bnode_loop] in H.
  - inversion H; subst. exact Hp.
  - destruct (bounded_master_lp eps cols demands cb) as [[[x duals] [lp|]]|]; [| |discriminate].
    + unfold cs_pricing in H at 1.
      destruct (knapsack_pricing eps sizes width duals) as [[np pv]|] eqn:Ek; [|discriminate].
      destruct (Qleb pv (1 + eps)).
      * inversion H; subst. exact Hp.
      * apply (IH _ _ _ He0 He1 Hw) in H; [exact H|].
        apply pool_ok_add; [exact Hp|]. apply (knapsack_pricing_fits eps sizes width duals np pv); assumption.
    + inversion H; subst. exact Hp.
Qed.

Lemma bsolve_node_lp_pool_ok : forall eps sizes width demands cb max_iter cols cols' x duals lp it conv,
  (0 <= eps)%Q -> (eps < 1)%Q -> (0 <= width)%Z ->
  pool_ok sizes width cols ->
  bsolve_node_lp eps true (cs_pricing eps sizes width) demands cb max_iter cols = Some (cols', x, duals, lp, it, conv) ->
  pool_ok sizes width cols'.
Proof.
  intros eps sizes width demands cb max_iter cols cols' x duals lp it conv He0 He1 Hw Hp H. unfold bsolve_node_lp in H.
  destruct (bnode_loop eps true (cs_pricing eps sizes width) demands cb max_iter 0 cols) as [res|] eqn:En; [|discriminate].
  pose proof (bnode_loop_pool_ok _ _ _ _ _ _ _ _ _ He0 He1 Hw Hp En) as Hres.
  destruct res as [[[[[[c1 x1] d1] l1] i1] b1]|[[c2 i2] b2]].
  - inversion H; subst. exact Hres.
  - destruct (bounded_master_lp eps c2 demands cb) as [[[x2 d2] l2]|]; [|discriminate].
    inversion H; subst. exact Hres.
Qed.

(* ---------------------------------------------------------------- the invariant of the tree search *)
Definition best_ok (sizes : list Z) (width : Z) (demands : list Z) (best : option (plan * Z)) : Prop :=
  match best with None => True | Some (sol, obj) => plan_ok sizes width demands sol obj = true end.

(* a usable answer carries a plan that passes the gate; OPTIMAL additionally passed `proven` against the root bound;
   INFEASIBLE carries no plan *)
Definition ans_ok (sizes : list Z) (width : Z) (demands : list Z) (gap : Q) (rb : option Z) (a : bp_ans) : Prop :=
  match ba_status a with
  | INFEASIBLE => ba_sol a = None /\ ba_obj a = None
  | st => exists sol obj, ba_sol a = Some sol /\ ba_obj a = Some obj /\ plan_ok sizes width demands sol obj = true /\
                          (st = OPTIMAL -> proven gap rb (inject_Z obj) = true)
  end.

Lemma tree_finish_ok : forall sizes width demands gap rb cols best nodes total trace,
  best_ok sizes width demands best ->
  ans_ok sizes width demands gap rb (to_ans (tree_finish gap rb cols best nodes total trace)) /\
  to_pool (tree_finish gap rb cols best nodes total trace) = cols.
Proof.
  intros sizes width demands gap rb cols best nodes total trace Hb. unfold tree_finish.
  destruct best as [[sol obj]|]; cbn [to_ans to_pool]; (split; [|reflexivity]); unfold ans_ok; cbn [ba_status ba_sol ba_obj].
  - simpl in Hb. destruct (proven gap rb (inject_Z obj)) eqn:Ep; exists sol, obj; (split; [reflexivity|]); (split; [reflexivity|]);
      (split; [exact Hb|]); intros E; [exact Ep | discriminate E].
  - split; reflexivity.
Qed.

Lemma build_plan_ok : forall eps sizes width demands cols x,
  pool_ok sizes width cols -> covers (build_solution eps cols x) demands = true ->
  plan_ok sizes width demands (build_solution eps cols x) (plan_total (build_solution eps cols x)) = true.
Proof.
  intros eps sizes width demands cols x [Hf _] Hc. apply plan_ok_intro; [|exact Hc | reflexivity].
  apply build_solution_ok. exact Hf.
Qed.

Lemma tree_loop_inv : forall eps gap sizes width demands mi mn rb,
  (0 <= eps)%Q -> (eps < 1)%Q -> (0 <= width)%Z ->
  forall fuel cols best heap counter nodes total trace o,
  pool_ok sizes width cols -> best_ok sizes width demands best ->
  tree_loop eps gap true (cs_pricing eps sizes width) demands mi mn rb fuel cols best heap counter nodes total trace = Some o ->
  ans_ok sizes width demands gap rb (to_ans o) /\ pool_ok sizes width (to_pool o).
Proof.
  intros eps gap sizes width demands mi mn rb He0 He1 Hw fuel.
  induction fuel as [|fuel IH]; intros cols best heap counter nodes total trace o Hp Hb H; cbn [tree_loop] in H; [discriminate|].
  assert (Hfin : Some (tree_finish gap rb cols best nodes total trace) = Some o ->
                 ans_ok sizes width demands gap rb (to_ans o) /\ pool_ok sizes width (to_pool o)).
  { intros E. inversion E; subst o. destruct (tree_finish_ok sizes width demands gap rb cols best nodes total trace Hb) as [H1 H2].
    split; [exact H1 | rewrite H2; exact Hp]. }
  destruct heap as [|e0 rest]; [apply Hfin; exact H|].
  destruct (Nat.leb mn nodes); [apply Hfin; exact H|].
  set (e := heap_min e0 rest) in H.
  destruct (dominated eps best (h_key e)); [apply (IH _ _ _ _ _ _ _ _ Hp Hb H)|].
  destruct (bsolve_node_lp eps true (cs_pricing eps sizes width) demands (cb_dict (h_nb e)) mi cols)
    as [[[[[[cols' x] du] lp] it] cv]|] eqn:En; [|discriminate].
  pose proof (bsolve_node_lp_pool_ok _ _ _ _ _ _ _ _ _ _ _ _ _ He0 He1 Hw Hp En) as Hp'.
  destruct lp as [lpv|]; [|apply (IH _ _ _ _ _ _ _ _ Hp' Hb H)].
  destruct (dominated eps best lpv); [apply (IH _ _ _ _ _ _ _ _ Hp' Hb H)|].
  destruct (most_fractional eps 0 x (None, 0%Q)) as [fi|]; [apply (IH _ _ _ _ _ _ _ _ Hp' Hb H)|].
  destruct (improves eps best (plan_total (build_solution eps cols' x)) && covers (build_solution eps cols' x) demands) eqn:Ei;
    [|apply (IH _ _ _ _ _ _ _ _ Hp' Hb H)].
  apply andb_true_iff in Ei. destruct Ei as [_ Hc].
  pose proof (build_plan_ok eps sizes width demands cols' x Hp' Hc) as Hok.
  destruct (proven gap rb (inject_Z (plan_total (build_solution eps cols' x)))) eqn:Ep.
  - inversion H; subst o. cbn [to_ans to_pool]. split; [|exact Hp'].
    unfold ans_ok. cbn [ba_status ba_sol ba_obj]. eexists _, _. repeat split; [exact Hok | intros _; exact Ep].
  - apply (IH _ (Some (build_solution eps cols' x, plan_total (build_solution eps cols' x))) _ _ _ _ _ _ Hp' Hok H).
Qed.

(* ---------------------------------------------------------------- the gate *)
Definition ans_gate (sizes : list Z) (width : Z) (demands : list Z) (a : bp_ans) : Prop :=
  match ba_status a with
  | INFEASIBLE => ba_sol a = None /\ ba_obj a = None
  | _ => exists sol obj, ba_sol a = Some sol /\ ba_obj a = Some obj /\ plan_ok sizes width demands sol obj = true
  end.

Lemma ans_ok_gate : forall sizes width demands gap rb a, ans_ok sizes width demands gap rb a -> ans_gate sizes width demands a.
Proof.
  intros sizes width demands gap rb a H. unfold ans_ok, ans_gate in *.
  destruct (ba_status a); [| |exact H]; destruct H as [sol [obj [H1 [H2 [H3 _]]]]]; exists sol, obj; repeat split; assumption.
Qed.

Lemma branch_and_price_gate : forall eps gap sizes width demands cols0 mi mn o,
  (0 <= eps)%Q -> (eps < 1)%Q -> (0 <= width)%Z -> pool_ok sizes width cols0 ->
  branch_and_price eps gap true (cs_pricing eps sizes width) demands cols0 mi mn = Some o ->
  ans_gate sizes width demands (to_ans o).
Proof.
  intros eps gap sizes width demands cols0 mi mn o He0 He1 Hw Hp0 H. unfold branch_and_price in H.
  destruct (bsolve_node_lp eps true (cs_pricing eps sizes width) demands [] mi cols0)
    as [[[[[[cols x] du] lp] it] cv]|] eqn:En; [|discriminate].
  pose proof (bsolve_node_lp_pool_ok _ _ _ _ _ _ _ _ _ _ _ _ _ He0 He1 Hw Hp0 En) as Hp.
  destruct lp as [lp_obj|].
  2:{ inversion H; subst o. unfold ans_gate. cbn. split; reflexivity. }
  set (rb := if cv then Some (Qceil (lp_obj - eps)) else None) in H.
  assert (Hafter : match round_solution eps cols x demands with
                   | Some (sol, total) =>
                       if proven gap rb (inject_Z total)
                       then Some (mkTO (mkBA OPTIMAL (Some sol) (Some total) 0 it) cols [])
                       else tree_loop eps gap true (cs_pricing eps sizes width) demands mi mn rb (tree_fuel mn)
                                      cols (Some (sol, total)) [(lp_obj, O, [])] 1 0 it []
                   | None => tree_loop eps gap true (cs_pricing eps sizes width) demands mi mn rb (tree_fuel mn)
                                       cols None [(lp_obj, O, [])] 1 0 it []
                   end = Some o -> ans_gate sizes width demands (to_ans o)).
  { intros Ha. destruct (round_solution eps cols x demands) as [[sol total]|] eqn:Er.
    - pose proof (round_solution_ok eps sizes width cols x demands sol total Hp Er) as Hok.
      destruct (proven gap rb (inject_Z total)).
      + inversion Ha; subst o. unfold ans_gate. cbn. exists sol, total. repeat split. exact Hok.
      + apply (ans_ok_gate _ _ _ gap rb). apply (tree_loop_inv eps gap sizes width demands mi mn rb He0 He1 Hw _ _ (Some (sol, total)) _ _ _ _ _ _ Hp Hok Ha).
    - apply (ans_ok_gate _ _ _ gap rb). apply (tree_loop_inv eps gap sizes width demands mi mn rb He0 He1 Hw _ _ None _ _ _ _ _ _ Hp I Ha). }
  destruct (most_fractional eps 0 x (None, 0%Q)) as [fi|]; [apply Hafter; exact H|].
  destruct (covers (build_solution eps cols x) demands) eqn:Ec; [|apply Hafter; exact H].
  inversion H; subst o. unfold ans_gate. cbn [to_ans ba_status ba_sol ba_obj].
  pose proof (build_plan_ok eps sizes width demands cols x Hp Ec) as Hok.
  destruct (proven gap rb lp_obj); eexists _, _; repeat split; exact Hok.
Qed.

Theorem bp_tree_gate_full : forall eps gap sizes width demands mi mn o,
  (0 <= eps)%Q -> (eps < 1)%Q ->
  solve_bp_tree eps gap sizes width demands mi mn = TAns o ->
  ans_gate sizes width demands (to_ans o).
Proof.
  intros eps gap sizes width demands mi mn o He0 He1 H. unfold solve_bp_tree in H.
  assert (Htriv : forallb (Z.eqb 0) demands = true -> TAns tree_trivial = TAns o -> ans_gate sizes width demands (to_ans o)).
  { intros Hz E. inversion E; subst o. unfold ans_gate. cbn. exists [], 0%Z. repeat split.
    apply plan_ok_intro; [constructor | apply covers_nil_zero; exact Hz | reflexivity]. }
  destruct demands as [|d0 demands'] eqn:Ed; [apply Htriv; [reflexivity | exact H]|]. rewrite <- Ed in *.
  destruct (forallb (Z.leb 0) demands); cbn [negb] in H; [|discriminate].
  destruct (forallb (Z.eqb 0) demands) eqn:Ez; [apply Htriv; [reflexivity | exact H]|].
  destruct (Nat.eqb (length sizes) (length demands)) eqn:El; cbn [negb] in H; [|discriminate].
  destruct (valid_sizes sizes width) eqn:Ev; cbn [negb] in H; [|discriminate].
  apply Nat.eqb_eq in El.
  assert (Hw : (0 <= width)%Z).
  { assert (Hj : (0 < length sizes)%nat) by (rewrite El, Ed; simpl; lia).
    pose proof (valid_sizes_nth _ _ _ Ev Hj). lia. }
  destruct (branch_and_price eps gap true (cs_pricing eps sizes width) demands (initial_patterns sizes width demands) mi mn)
    as [r|] eqn:Eb; [|discriminate].
  inversion H; subst o.
  apply (branch_and_price_gate eps gap sizes width demands _ mi mn r He0 He1 Hw (initial_patterns_ok _ _ demands Ev) Eb).
Qed.

(* C17_bp_tree_gate: every plan the tree model returns with OPTIMAL / FEASIBLE passes the gate *)
Theorem bp_tree_gate : forall eps gap sizes width demands mi mn o,
  (0 <= eps)%Q -> (eps < 1)%Q ->
  solve_bp_tree eps gap sizes width demands mi mn = TAns o ->
  ba_status (to_ans o) <> INFEASIBLE ->
  exists sol obj, ba_sol (to_ans o) = Some sol /\ ba_obj (to_ans o) = Some obj /\ plan_ok sizes width demands sol obj = true.
Proof.
  intros eps gap sizes width demands mi mn o He0 He1 H Hs.
  pose proof (bp_tree_gate_full eps gap sizes width demands mi mn o He0 He1 H) as Hg. unfold ans_gate in Hg.
  destruct (ba_status (to_ans o)); [exact Hg | exact Hg | exfalso; apply Hs; reflexivity].
Qed.

(* INFEASIBLE never comes with a plan *)
Theorem bp_tree_infeasible_no_plan : forall eps gap sizes width demands mi mn o,
  (0 <= eps)%Q -> (eps < 1)%Q ->
  solve_bp_tree eps gap sizes width demands mi mn = TAns o ->
  ba_status (to_ans o) = INFEASIBLE -> ba_sol (to_ans o) = None /\ ba_obj (to_ans o) = None.
Proof.
  intros eps gap sizes width demands mi mn o He0 He1 H Hs.
  pose proof (bp_tree_gate_full eps gap sizes width demands mi mn o He0 He1 H) as Hg. unfold ans_gate in Hg.
  rewrite Hs in Hg. exact Hg.
Qed.

(* C17_bp_tree_never_below: the objective of a returned plan is never below the true minimum *)
Theorem bp_tree_never_below : forall eps gap sizes width demands mi mn o obj r,
  (0 <= eps)%Q -> (eps < 1)%Q ->
  solve_bp_tree eps gap sizes width demands mi mn = TAns o ->
  ba_status (to_ans o) <> INFEASIBLE -> ba_obj (to_ans o) = Some obj ->
  is_min (fits sizes width) demands r -> (r <= obj)%Z.
Proof.
  intros eps gap sizes width demands mi mn o obj r He0 He1 H Hs Ho [_ Hmin].
  destruct (bp_tree_gate eps gap sizes width demands mi mn o He0 He1 H Hs) as [sol [obj' [E1 [E2 Hok]]]].
  rewrite Ho in E2. inversion E2; subst obj'.
  destruct (plan_ok_sound _ _ _ _ _ Hok) as [Hcov Hr]. rewrite Hr. apply Hmin. exact Hcov.
Qed.

(* the gate unfolded: a covering plan of fitting patterns whose number of rolls is the objective *)
Theorem bp_tree_plan_covers : forall eps gap sizes width demands mi mn o,
  (0 <= eps)%Q -> (eps < 1)%Q ->
  solve_bp_tree eps gap sizes width demands mi mn = TAns o ->
  ba_status (to_ans o) <> INFEASIBLE ->
  exists sol obj, ba_sol (to_ans o) = Some sol /\ ba_obj (to_ans o) = Some obj /\
                  covering (fits sizes width) demands sol /\ obj = rolls sol.
Proof.
  intros eps gap sizes width demands mi mn o He0 He1 H Hs.
  destruct (bp_tree_gate eps gap sizes width demands mi mn o He0 He1 H Hs) as [sol [obj [E1 [E2 Hok]]]].
  exists sol, obj. split; [exact E1|]. split; [exact E2|]. apply (plan_ok_sound _ _ _ _ _ Hok).
Qed.
