(* C17 deep - primal side of the master simplex (eps = 0): the ratio test picks a minimum ratio, so a pivot chosen by
   simplex_phase keeps all right-hand sides non-negative; the objective-row identity O2 for an arbitrary cost row c
   (needed for the phase-1 objective) is preserved by pivots. *)
From Coq Require Import List ZArith QArith Qabs Qround Bool Arith Lia Lqa Setoid.
From SV Require Import C17.Cg C17.CgSpec C17.GateProofs C17.PoolProofs C17.DeepSum C17.DeepInv C17.DeepPhase.
Import ListNotations.
Open Scope Q_scope.

(* ---------------------------------------------------------------- the ratio test returns a minimum ratio *)
Section Ratio.
Variables (basis : list nat) (e : nat) (rows : list row).
Let Ae (t : nat) : Q := getq (nth t rows []) e.
Let Re (t : nat) : Q := lastq (nth t rows []) / Ae t.

Definition RInv (i : nat) (st : option nat * option Q) : Prop :=
  match st with
  | (Some l, Some mr) => (l < i)%nat /\ 0 < Ae l /\ mr == Re l /\ forall t, (t < i)%nat -> 0 < Ae t -> mr <= Re t
  | (None, None) => forall t, (t < i)%nat -> ~ 0 < Ae t
  | _ => False
  end.

Lemma Qabs_le0 : forall d, Qleb (Qabs d) 0 = true -> d == 0.
Proof.
  intros d H. apply Qleb_le in H. destruct (Qabs_Qle_condition d 0) as [H2 _]. specialize (H2 H). lra.
Qed.

Lemma ratio_step_RInv : forall i st, RInv i st -> RInv (S i) (ratio_step 0 basis e i (nth i rows []) st).
Proof.
  intros i [ol omr] H. unfold ratio_step. cbn [fst snd]. fold (Ae i).
  assert (Hlt : forall t, (t < S i)%nat -> t = i \/ (t < i)%nat) by (intros; lia).
  destruct (Qltb 0 (Ae i)) eqn:Ea.
  - apply Qltb_lt in Ea.
    assert (Er : Qred (lastq (nth i rows []) / Ae i) == Re i) by (unfold Re; apply Qred_correct).
    destruct omr as [mr|].
    + destruct ol as [l|]; [|contradiction]. destruct H as [Hl [Hal [Hmr Hmin]]].
      destruct (Qltb (Qred (lastq (nth i rows []) / Ae i)) (mr - 0)) eqn:E1.
      * apply Qltb_lt in E1. cbn [RInv]. split; [lia|]. split; [exact Ea|]. split; [exact Er|].
        intros t Ht Hat. destruct (Hlt t Ht) as [->|Ht']; [rewrite Er; apply Qle_refl|].
        specialize (Hmin t Ht' Hat). lra.
      * apply Qltb_false in E1.
        destruct (Qleb (Qabs (Qred (lastq (nth i rows []) / Ae i) - mr)) 0) eqn:E2.
        -- apply Qabs_le0 in E2.
           assert (Hmi : mr == Re i) by (rewrite <- Er; lra).
           assert (Hmin' : forall t, (t < S i)%nat -> 0 < Ae t -> mr <= Re t).
           { intros t Ht Hat. destruct (Hlt t Ht) as [->|Ht']; [rewrite Hmi; apply Qle_refl | apply Hmin; assumption]. }
           destruct (Nat.ltb (nth i basis O) (nth l basis O)); cbn [RInv snd].
           ++ split; [lia|]. split; [exact Ea|]. split; [exact Hmi | exact Hmin'].
           ++ split; [lia|]. split; [exact Hal|]. split; [exact Hmr | exact Hmin'].
        -- cbn [RInv]. split; [lia|]. split; [exact Hal|]. split; [exact Hmr|].
           intros t Ht Hat. destruct (Hlt t Ht) as [->|Ht']; [rewrite <- Er; lra | apply Hmin; assumption].
    + destruct ol as [l|]; [contradiction|]. cbn [RInv]. split; [lia|]. split; [exact Ea|]. split; [exact Er|].
      intros t Ht Hat. destruct (Hlt t Ht) as [->|Ht']; [rewrite Er; apply Qle_refl | exfalso; apply (H t Ht' Hat)].
  - apply Qltb_false in Ea.
    destruct ol as [l|]; destruct omr as [mr|]; cbn [RInv] in *; try contradiction.
    + destruct H as [Hl [Hal [Hmr Hmin]]]. split; [lia|]. split; [exact Hal|]. split; [exact Hmr|].
      intros t Ht Hat. destruct (Hlt t Ht) as [->|Ht']; [exfalso; lra | apply Hmin; assumption].
    + intros t Ht Hat. destruct (Hlt t Ht) as [->|Ht']; [lra | apply (H t Ht' Hat)].
Qed.

Lemma ratio_loop_RInv : forall rs i st,
  (forall t, (t < length rs)%nat -> nth t rs [] = nth (i + t) rows []) ->
  RInv i st -> RInv (i + length rs) (ratio_loop 0 basis e i rs st).
Proof.
  intros rs. induction rs as [|r rs IH]; intros i st Hrs H; cbn [ratio_loop length].
  - rewrite Nat.add_0_r. exact H.
  - replace (i + S (length rs))%nat with (S i + length rs)%nat by lia. apply IH.
    + intros t Ht. replace (S i + t)%nat with (i + S t)%nat by lia. rewrite <- (Hrs (S t)) by (simpl; lia). reflexivity.
    + assert (Er : r = nth i rows []) by (rewrite <- (Nat.add_0_r i); rewrite <- (Hrs O) by (simpl; lia); reflexivity).
      rewrite Er. apply ratio_step_RInv. exact H.
Qed.

Lemma find_leave_min : forall obj l, find_leave 0 basis (mkT rows obj) e = Some l ->
  forall t, (t < length rows)%nat -> 0 < Ae t -> Re l <= Re t.
Proof.
  intros obj l H t Ht Hat. unfold find_leave in H. cbn [t_rows] in H.
  pose proof (ratio_loop_RInv rows 0 (None, None)) as HI. cbn [Nat.add] in HI.
  assert (H0 : RInv 0 (None, None)) by (intros t0 Ht0; lia).
  specialize (HI (fun t _ => eq_refl) H0).
  destruct (ratio_loop 0 basis e 0 rows (None, None)) as [ol omr]. cbn [fst] in H. subst ol.
  destruct omr as [mr|]; [|contradiction]. destruct HI as [_ [_ [Hmr Hmin]]]. rewrite <- Hmr. apply Hmin; assumption.
Qed.

End Ratio.

(* ---------------------------------------------------------------- pivots keep the right-hand sides non-negative *)
Section Primal.
Variables (n m : nat) (A : nat -> nat -> Q) (D : nat -> Q).
Notation NN := (NN n m).
Notation rowsInv := (rowsInv n m A D).

Definition primal (rows : list row) : Prop := forall k, (k < m)%nat -> 0 <= ent rows k NN.
Definition basisBound (basis : list nat) : Prop := forall k, (k < m)%nat -> (nth k basis O < n + m + m)%nat.

Lemma Lin_lastq : forall rows k, Forall (Lin n m A D) rows -> (k < length rows)%nat -> lastq (nth k rows []) = ent rows k NN.
Proof.
  intros rows k HL Hk. unfold ent. apply lastq_getq. apply (Forall_nth_Lin n m A D rows k HL Hk).
Qed.

Lemma div_nonneg : forall a b, 0 <= a -> 0 < b -> 0 <= a / b.
Proof. intros a b Ha Hb. apply Qle_shift_div_l; [exact Hb | lra]. Qed.

Lemma pivot_primal : forall rows obj basis l e,
  rowsInv rows basis -> primal rows -> (l < m)%nat -> 0 < ent rows l e ->
  (forall k, (k < m)%nat -> 0 < ent rows k e -> ent rows l NN / ent rows l e <= ent rows k NN / ent rows k e) ->
  primal (t_rows (fst (pivot 0 (mkT rows obj) basis l e))).
Proof.
  intros rows obj basis l e [Hlen [Hbl [HL Hc]]] Hp Hl Hpiv Hmin k Hk.
  destruct (pivot_entries n m A D rows obj basis l e Hlen HL Hl) as [Hent _]. cbn zeta in Hent.
  rewrite (Hent k NN Hk).
  assert (Hw : 0 <= ent rows l NN / ent rows l e) by (apply div_nonneg; [apply Hp; exact Hl | exact Hpiv]).
  destruct (Nat.eqb k l); [exact Hw|].
  set (w := ent rows l NN / ent rows l e) in *.
  destruct (Qlt_le_dec 0 (ent rows k e)) as [Hpos|Hneg].
  - specialize (Hmin k Hk Hpos). fold w in Hmin.
    set (q := ent rows k NN / ent rows k e) in *.
    assert (Eq : q * ent rows k e == ent rows k NN) by (unfold q; field; lra).
    assert (Hm : w * ent rows k e <= q * ent rows k e) by (apply Qmult_le_compat_r; lra).
    lra.
  - specialize (Hp k Hk).
    assert (Hm : ent rows k e * w <= 0 * w) by (apply Qmult_le_compat_r; assumption).
    lra.
Qed.

(* a pivot on a row with right-hand side 0 changes no right-hand side *)
Lemma pivot_rhs_zero : forall rows obj basis l e,
  rowsInv rows basis -> (l < m)%nat -> ~ ent rows l e == 0 -> ent rows l NN == 0 ->
  forall k, (k < m)%nat -> ent (t_rows (fst (pivot 0 (mkT rows obj) basis l e))) k NN == ent rows k NN.
Proof.
  intros rows obj basis l e [Hlen [Hbl [HL Hc]]] Hl Hpiv Hz k Hk.
  destruct (pivot_entries n m A D rows obj basis l e Hlen HL Hl) as [Hent _]. cbn zeta in Hent.
  rewrite (Hent k NN Hk). destruct (Nat.eqb k l) eqn:E.
  - apply Nat.eqb_eq in E. subst k. rewrite Hz. field. exact Hpiv.
  - rewrite Hz. field. exact Hpiv.
Qed.

Lemma pivot_basisBound : forall basis l e, basisBound basis -> (e < n + m + m)%nat -> length basis = m ->
  basisBound (set_nth l e basis).
Proof.
  intros basis l e Hb He Hlen k Hk. destruct (Nat.eq_dec k l) as [->|Hne].
  - destruct (Nat.lt_ge_cases l (length basis)) as [Hl|Hl]; [rewrite set_nth_same by exact Hl; exact He | lia].
  - rewrite set_nth_other by exact Hne. apply Hb. exact Hk.
Qed.

(* ---------------------------------------------------------------- O2 for an arbitrary cost row *)
Definition objInv2g (c : nat -> Q) (rows : list row) (basis : list nat) (o : row) : Prop :=
  forall j, getq o j == c j - sumN (fun k => c (nth k basis O) * ent rows k j) 0 m.

Lemma pivot_obj_g : forall c rows obj basis l e,
  rowsInv rows basis -> (l < m)%nat -> ~ ent rows l e == 0 ->
  length obj = S NN -> objInv2g c rows basis obj ->
  length (t_obj (fst (pivot 0 (mkT rows obj) basis l e))) = S NN /\
  objInv2g c (t_rows (fst (pivot 0 (mkT rows obj) basis l e))) (snd (pivot 0 (mkT rows obj) basis l e))
           (t_obj (fst (pivot 0 (mkT rows obj) basis l e))).
Proof.
  intros c rows obj basis l e [Hlen [Hbl [HL Hc]]] Hl Hp Lo HO2.
  destruct (pivot_entries n m A D rows obj basis l e Hlen HL Hl) as [Hent Hobj]. cbn zeta in Hent, Hobj.
  specialize (Hobj Lo).
  split; [unfold pivot; cbn [fst t_obj]; rewrite elim_row_length; exact Lo|].
  rewrite pivot_basis. intros j. rewrite Hobj.
  set (w := ent rows l j / ent rows l e).
  assert (HS : sumN (fun k => c (nth k (set_nth l e basis) O) * ent (t_rows (fst (pivot 0 (mkT rows obj) basis l e))) k j) 0 m
               == sumN (fun k => c (nth k basis O) * ent rows k j) 0 m
                  - w * sumN (fun k => c (nth k basis O) * ent rows k e) 0 m + c e * w).
  { transitivity (sumN (fun k => c (nth k basis O) * ent rows k j) 0 m
                  - w * sumN (fun k => c (nth k basis O) * ent rows k e) 0 m
                  + sumN (fun i => if Nat.eqb i l then c e * w else 0) 0 m);
      [|rewrite (sumN_delta (c e * w) l m 0) by lia; reflexivity].
    rewrite <- sumN_lin. rewrite <- sumN_plus. apply sumN_ext. intros k Hk.
    rewrite (Hent k j) by lia.
    destruct (Nat.eqb k l) eqn:E.
    - apply Nat.eqb_eq in E. subst k. rewrite set_nth_same by lia. unfold w. field. exact Hp.
    - apply Nat.eqb_neq in E. rewrite set_nth_other by exact E. unfold w. field. exact Hp. }
  rewrite HS. rewrite (HO2 j), (HO2 e). ring.
Qed.

(* ---------------------------------------------------------------- the phase *)
Lemma phase_primal : forall c fuel T basis T' basis' ok,
  rowsInv (t_rows T) basis -> primal (t_rows T) -> basisBound basis ->
  simplex_phase 0 fuel (n + m) T basis = (T', basis', ok) ->
  primal (t_rows T') /\ basisBound basis' /\
  (length (t_obj T) = S NN -> objInv2g c (t_rows T) basis (t_obj T) ->
   length (t_obj T') = S NN /\ objInv2g c (t_rows T') basis' (t_obj T')).
Proof.
  intros c. induction fuel as [|fuel IH]; intros T basis T' basis' ok HR HP HB H; cbn [simplex_phase] in H.
  - inversion H; subst. split; [exact HP|]. split; [exact HB|]. intros H1 H2. split; assumption.
  - destruct (find_enter 0 basis (n + m) 0 (t_obj T)) as [e|] eqn:Efe.
    + destruct (find_leave 0 basis T e) as [l|] eqn:Efl.
      * destruct (find_leave_some basis T e l Efl) as [Hl Hpos].
        pose proof HR as [Hlen [Hbl [HL _]]]. rewrite Hlen in Hl.
        assert (Hp : ~ ent (t_rows T) l e == 0) by (intros Hz; rewrite Hz in Hpos; apply (Qlt_irrefl 0); exact Hpos).
        destruct (find_enter_some 0 basis (n + m) (t_obj T) 0 e Efe) as [[_ He] _].
        destruct T as [rows obj]. cbn [t_rows t_obj] in *.
        pose proof (pivot_rows n m A D rows obj basis l e HR Hl Hp) as HR'.
        assert (HP' : primal (t_rows (fst (pivot 0 (mkT rows obj) basis l e)))).
        { apply pivot_primal; try assumption. intros k Hk Hak.
          pose proof (find_leave_min basis e rows obj l Efl k) as Hmin. rewrite Hlen in Hmin. specialize (Hmin Hk Hak).
          rewrite !(Lin_lastq rows) in Hmin by (try exact HL; lia). exact Hmin. }
        assert (HB' : basisBound (snd (pivot 0 (mkT rows obj) basis l e))).
        { rewrite pivot_basis. apply pivot_basisBound; [exact HB | lia | exact Hbl]. }
        pose proof (pivot_obj_g c rows obj basis l e HR Hl Hp) as HO'.
        destruct (pivot 0 (mkT rows obj) basis l e) as [T1 b1] eqn:Ep. cbn [fst snd] in HR', HP', HB', HO'.
        destruct (IH T1 b1 T' basis' ok HR' HP' HB' H) as [HPf [HBf HOf]].
        split; [exact HPf|]. split; [exact HBf|]. intros H1 H2. destruct (HO' H1 H2) as [H1' H2']. apply HOf; assumption.
      * inversion H; subst. split; [exact HP|]. split; [exact HB|]. intros H1 H2. split; assumption.
    + inversion H; subst. split; [exact HP|]. split; [exact HB|]. intros H1 H2. split; assumption.
Qed.

End Primal.
