(* C17 deep - `optimal_sound`: for eps = 0 the status OPTIMAL of the solve_cg model means the true minimum, for every input.
   Composition of master_lp_duals_ok (strong duality at the final master tableau) with optimal_partial_eps0
   (gate + exact pricing + weak duality). *)
From Coq Require Import List ZArith QArith Qabs Qround Bool Arith Lia Lqa.
From SV Require Import C17.Cg C17.CgSpec C17.GateProofs C17.PoolProofs C17.CgGateProofs C17.DualityProofs C17.KnapExact
                       C17.OptimalProofs C17.DeepMaster.
Import ListNotations.

Lemma forallb_Qleb0_intro : forall y, Forall (fun v => (0 <= v)%Q) y -> forallb (Qleb 0) y = true.
Proof.
  intros y H. apply forallb_forall. intros v Hv. rewrite Forall_forall in H. apply Qleb_le. apply H. exact Hv.
Qed.

(* the per-run residue of optimal_partial_eps0 always holds *)
Theorem simplex_residue_holds : forall sizes width demands max_iter r,
  solve_cg 0 sizes width demands max_iter = Done r -> r_status r = OPTIMAL ->
  simplex_residue demands r = true.
Proof.
  intros sizes width demands max_iter r H Hs. unfold solve_cg in H.
  assert (Htriv : forall r', trivial_result = Done r' -> simplex_residue demands r' = true).
  { intros r' Hr'. inversion Hr'; subst. unfold simplex_residue. cbn [r_duals r_lp forallb andb].
    destruct demands; reflexivity. }
  destruct demands as [|d0 demands'] eqn:Ed; [apply Htriv; exact H|]. rewrite <- Ed in *.
  destruct (forallb (Z.leb 0) demands); cbn [negb] in H; [|discriminate].
  destruct (forallb (Z.eqb 0) demands); [apply Htriv; exact H|].
  unfold solve_cutting_stock in H.
  destruct (Nat.eqb (length sizes) (length demands)); cbn [negb] in H; [|discriminate].
  destruct (valid_sizes sizes width); cbn [negb] in H; [|discriminate].
  destruct (cs_loop 0 sizes width demands max_iter 0 (initial_patterns sizes width demands)) as [[[pats it] conv]|];
    [|discriminate].
  destruct (master_lp false 0 pats demands) as [[[x duals] lp]|] eqn:Em; [|discriminate].
  destruct (round_up 0 pats x) as [sol total].
  destruct (covers sol demands); cbn [negb] in H; [|inversion H; subst r; simpl in Hs; discriminate].
  unfold finish in H. destruct lp as [o|]; [|discriminate].
  inversion H; subst r. clear H. unfold simplex_residue. cbn [r_duals r_lp].
  destruct (master_lp_duals_ok false pats demands x duals (Some o) Em) as [Hy [_ Hlp]].
  apply andb_true_iff. split.
  - apply forallb_Qleb0_intro. exact Hy.
  - apply Qleb_le. rewrite (Hlp o eq_refl). apply Qle_refl.
Qed.

Theorem optimal_sound : forall sizes width demands max_iter r,
  solve_cg 0 sizes width demands max_iter = Done r -> r_status r = OPTIMAL ->
  is_min (fits sizes width) demands (r_obj r).
Proof.
  intros sizes width demands max_iter r H Hs.
  apply (optimal_partial_eps0 sizes width demands max_iter r H Hs).
  apply (simplex_residue_holds sizes width demands max_iter r H Hs).
Qed.

(* the Definition kept in OptimalProofs.v is now a theorem *)
Theorem optimal_sound_full : optimal_sound_full_statement.
Proof. exact optimal_sound. Qed.
