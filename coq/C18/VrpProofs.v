(* Invariant I of the VRPTW bookkeeping, split for the proofs into
     J       - the part that never breaks, not even inside sync_aware_insertion (shape, unassigned is a set of
               customers, routes visit customers, never in both, no repeat, single-vehicle customers on <= 1 route),
     covered - never lost,
     arrivals = recomputation,
   and the two primitives: an insertion step preserves J and only moves customers from `unassigned` onto routes
   (`ext`); remove_set re-establishes the whole invariant. *)
From Coq Require Import List ZArith Bool Arith Lia Permutation.
From SV Require Import C18.Vrp C18.VrpSpec C18.VrpLists.
Import ListNotations.

Definition on_nth (c : nat) (rs : list (list nat)) : Prop := exists v, In c (nth v rs []).

Lemma on_route_nth c st : on_route c st <-> on_nth c (routes st).
Proof.
  unfold on_route, on_nth. split.
  - intros [r [Hr Hc]]. destruct (In_nth _ _ [] Hr) as [v [Hv Hn]]. exists v. rewrite Hn. exact Hc.
  - intros [v Hv]. exists (nth v (routes st) []). split; [exact (nth_In_or_nil _ _ _ Hv) | exact Hv].
Qed.

Record J (I : inst) (st : vstate) : Prop := {
  j_shape_r : length (routes st) = nveh I;
  j_shape_a : length (arrivals st) = nveh I;
  j_un_nodup : NoDup (unassigned st);
  j_un_valid : forall c, In c (unassigned st) -> valid_id I c = true;
  j_rt_valid : forall v c, In c (nth v (routes st) []) -> valid_id I c = true;
  j_never_both : forall c v, In c (unassigned st) -> ~ In c (nth v (routes st) []);
  j_no_repeat : forall v, NoDup (nth v (routes st) []);
  j_single : forall c v1 v2, (c_req (cget I c) <= 1)%nat ->
               In c (nth v1 (routes st) []) -> In c (nth v2 (routes st) []) -> v1 = v2
}.

Definition covered (I : inst) (st : vstate) : Prop :=
  forall c, valid_id I c = true -> In c (unassigned st) \/ on_nth c (routes st).

Definition arrivals_ok (I : inst) (st : vstate) : Prop :=
  arrivals st = map (compute_arrivals I) (routes st).

Lemma inv_of_parts I st : J I st -> covered I st -> arrivals_ok I st -> vrp_inv I st.
Proof.
  intros [H1 H2 H3 H4 H5 H6 H7 H8] Hc Ha. constructor.
  - exact H1.
  - exact H2.
  - exact H3.
  - exact H4.
  - intros r c Hr Hcr. destruct (In_nth _ _ [] Hr) as [v [Hv Hn]]. apply (H5 v). rewrite Hn. exact Hcr.
  - intros c Hu Hon. apply on_route_nth in Hon. destruct Hon as [v Hv]. exact (H6 c v Hu Hv).
  - intros c Hv. destruct (Hc c Hv) as [H|H]; [left; exact H | right; apply on_route_nth; exact H].
  - intros r Hr. destruct (In_nth _ _ [] Hr) as [v [Hv Hn]]. rewrite <- Hn. apply H7.
  - exact H8.
  - exact Ha.
Qed.

Lemma parts_of_inv I st : vrp_inv I st -> J I st /\ covered I st /\ arrivals_ok I st.
Proof.
  intros [H1 H2 H3 H4 H5 H6 H7 H8 H9 H10]. split; [|split].
  - constructor.
    + exact H1.
    + exact H2.
    + exact H3.
    + exact H4.
    + intros v c Hc. exact (H5 _ c (nth_In_or_nil _ _ _ Hc) Hc).
    + intros c v Hu Hc. apply (H6 c Hu). apply on_route_nth. exists v. exact Hc.
    + intros v. destruct (Nat.lt_ge_cases v (length (routes st))) as [Hlt|Hge].
      * apply H8. apply nth_In. exact Hlt.
      * rewrite nth_overflow by exact Hge. constructor.
    + exact H9.
  - intros c Hv. destruct (H7 c Hv) as [H|H]; [left; exact H | right; apply on_route_nth; exact H].
  - exact H10.
Qed.

(* st' is st with some customers moved from `unassigned` onto routes *)
Record ext (st st' : vstate) : Prop := {
  e_un : forall x, In x (unassigned st') -> In x (unassigned st);
  e_mono : forall x v, In x (nth v (routes st) []) -> In x (nth v (routes st') []);
  e_new : forall x v, In x (nth v (routes st') []) ->
            In x (nth v (routes st) []) \/ (In x (unassigned st) /\ ~ In x (unassigned st'));
  e_placed : forall x, In x (unassigned st) -> ~ In x (unassigned st') -> on_nth x (routes st')
}.

Lemma ext_refl st : ext st st.
Proof.
  constructor.
  - intros x H. exact H.
  - intros x v H. exact H.
  - intros x v H. left. exact H.
  - intros x H1 H2. contradiction.
Qed.

Lemma ext_trans a b c : ext a b -> ext b c -> ext a c.
Proof.
  intros [A1 A2 A3 A4] [B1 B2 B3 B4]. constructor.
  - intros x H. apply A1, B1. exact H.
  - intros x v H. apply B2, A2. exact H.
  - intros x v H. destruct (B3 x v H) as [Hb|[Hb1 Hb2]].
    + destruct (A3 x v Hb) as [Ha|[Ha1 Ha2]]; [left; exact Ha|].
      right. split; [exact Ha1|]. intros Hc. apply Ha2. apply B1. exact Hc.
    + right. split; [apply A1; exact Hb1 | exact Hb2].
  - intros x H1 H2. destruct (in_dec Nat.eq_dec x (unassigned b)) as [Hb|Hb].
    + exact (B4 x Hb H2).
    + destruct (A4 x H1 Hb) as [v Hv]. exists v. apply B2. exact Hv.
Qed.

Lemma covered_ext I st st' : covered I st -> ext st st' -> covered I st'.
Proof.
  intros Hc [E1 E2 E3 E4] c Hv.
  destruct (in_dec Nat.eq_dec c (unassigned st')) as [Hin|Hnin]; [left; exact Hin|right].
  destruct (Hc c Hv) as [Hu|[v Hon]].
  - exact (E4 c Hu Hnin).
  - exists v. apply E2. exact Hon.
Qed.

Lemma nonempty_fst (pl : list (nat * nat)) : pl <> [] -> exists v, In v (map fst pl).
Proof. destruct pl as [|[v p] rest]; intros H; [contradiction H; reflexivity | exists v; left; reflexivity]. Qed.

Lemma single_fst (pl : list (nat * nat)) v1 v2 :
  length pl = 1%nat -> In v1 (map fst pl) -> In v2 (map fst pl) -> v1 = v2.
Proof.
  destruct pl as [|[v0 p0] [|q rest]]; simpl; intros Hl M1 M2; try discriminate.
  destruct M1 as [M1|[]], M2 as [M2|[]]. congruence.
Qed.

(* ------------------------------------------------------------------ the insertion step *)
Section Place.
  Variable I : inst.
  Variables (c : nat) (pl : list (nat * nat)) (st : vstate) (arr' : list (list Z)).
  Hypothesis HJ : J I st.
  Hypothesis Hg : place_guard I c pl st = true.
  Hypothesis Harr : length arr' = length (arrivals st).

  Let st' := mkSt (place_routes c pl (routes st)) (remove_u c (unassigned st)) arr'.

  Lemma guard_parts :
    In c (unassigned st) /\ pl <> [] /\ NoDup (map fst pl)
    /\ (forall v p, In (v, p) pl -> (v < length (routes st))%nat)
    /\ ((1 < c_req (cget I c))%nat \/ length pl = 1%nat).
  Proof.
    unfold place_guard in Hg.
    apply andb_true_iff in Hg. destruct Hg as [G G5].
    apply andb_true_iff in G. destruct G as [G G4].
    apply andb_true_iff in G. destruct G as [G G3].
    apply andb_true_iff in G. destruct G as [G1 G2].
    split; [apply memb_In; exact G1|].
    split; [intros E; rewrite E in G2; discriminate|].
    split; [apply nodupb_NoDup; exact G3|].
    split.
    - intros v p Hin. rewrite forallb_forall in G4. specialize (G4 (v, p) Hin). simpl in G4.
      apply andb_true_iff in G4. destruct G4 as [G4 _]. apply Nat.ltb_lt. exact G4.
    - apply orb_true_iff in G5. destruct G5 as [G5|G5];
        [left; apply Nat.ltb_lt; exact G5 | right; apply Nat.eqb_eq; exact G5].
  Qed.

  Lemma c_not_routed v : ~ In c (nth v (routes st) []).
  Proof. apply (j_never_both I st HJ). apply guard_parts. Qed.

  (* what is on route v afterwards *)
  Lemma placed_nth v x :
    In x (nth v (routes st') []) <->
    In x (nth v (routes st) []) \/ (x = c /\ In v (map fst pl)).
  Proof.
    destruct guard_parts as [_ [_ [Hnd [Hlt _]]]].
    simpl. rewrite place_routes_nth by exact Hnd.
    destruct (find_place v pl) as [p|] eqn:Ef.
    - assert (Hin : In (v, p) pl) by (apply find_place_some; exact Ef).
      assert (Hv : (v < length (routes st))%nat) by (apply (Hlt v p); exact Hin).
      apply Nat.ltb_lt in Hv. rewrite Hv. rewrite In_ins.
      assert (Hm : In v (map fst pl)) by (apply in_map_iff; exists (v, p); split; [reflexivity | exact Hin]).
      tauto.
    - assert (Hm : ~ In v (map fst pl)).
      { intros Hm. destruct (find_place_in v pl Hm) as [p Hp]. congruence. }
      tauto.
  Qed.

  Lemma place_J : J I st'.
  Proof.
    destruct guard_parts as [Hcu [Hne [Hnd [Hlt Hreq]]]].
    constructor.
    - simpl. rewrite place_routes_length. apply (j_shape_r I st HJ).
    - simpl. rewrite Harr. apply (j_shape_a I st HJ).
    - simpl. apply NoDup_remove_u. apply (j_un_nodup I st HJ).
    - simpl. intros x Hx. apply In_remove_u in Hx. apply (j_un_valid I st HJ). apply Hx.
    - intros v x Hx. apply placed_nth in Hx. destruct Hx as [Hx|[Hx _]].
      + exact (j_rt_valid I st HJ v x Hx).
      + subst x. exact (j_un_valid I st HJ c Hcu).
    - intros x v Hu Hx. simpl in Hu. apply In_remove_u in Hu. destruct Hu as [Hu Hxc].
      apply placed_nth in Hx. destruct Hx as [Hx|[Hx _]].
      + exact (j_never_both I st HJ x v Hu Hx).
      + contradiction.
    - intros v. simpl. rewrite place_routes_nth by exact Hnd.
      destruct (find_place v pl) as [p|]; [|apply (j_no_repeat I st HJ)].
      destruct (v <? length (routes st))%nat; [|apply (j_no_repeat I st HJ)].
      apply NoDup_ins; [apply (j_no_repeat I st HJ) | apply c_not_routed].
    - intros x v1 v2 Hr H1 H2. apply placed_nth in H1. apply placed_nth in H2.
      destruct H1 as [H1|[E1 M1]], H2 as [H2|[E2 M2]].
      + exact (j_single I st HJ x v1 v2 Hr H1 H2).
      + subst x. exfalso. exact (c_not_routed v1 H1).
      + subst x. exfalso. exact (c_not_routed v2 H2).
      + subst x. destruct Hreq as [Hreq|Hone]; [lia|].
        exact (single_fst pl v1 v2 Hone M1 M2).
  Qed.

  Lemma place_ext : ext st st'.
  Proof.
    destruct guard_parts as [Hcu [Hne [Hnd [Hlt Hreq]]]].
    constructor.
    - simpl. intros x Hx. apply In_remove_u in Hx. apply Hx.
    - intros x v Hx. apply placed_nth. left. exact Hx.
    - intros x v Hx. apply placed_nth in Hx. destruct Hx as [Hx|[Hx _]]; [left; exact Hx|right].
      subst x. split; [exact Hcu|]. simpl. rewrite In_remove_u. intros [_ Hcc]. apply Hcc. reflexivity.
    - simpl. intros x Hu Hn. rewrite In_remove_u in Hn.
      assert (Hx : x = c).
      { destruct (Nat.eq_dec x c) as [E|N]; [exact E | exfalso; apply Hn; split; assumption]. }
      subst x. destruct (nonempty_fst pl Hne) as [v0 Hv0].
      exists v0. apply placed_nth. right. split; [reflexivity | exact Hv0].
  Qed.

  (* customers other than c stay where they are in `unassigned` *)
  Lemma place_un_keep x : In x (unassigned st) -> x <> c -> In x (unassigned st').
  Proof. intros Hx Hn. simpl. apply In_remove_u. split; assumption. Qed.
End Place.

(* ------------------------------------------------------------------ place_one / place_multi / event lists *)
Lemma place_one_J_ext I c v pos st st' :
  J I st -> place_one I c v pos st = Some st' -> J I st' /\ ext st st'.
Proof.
  unfold place_one. intros HJ H. destruct (place_guard I c [(v, pos)] st) eqn:Hg; [|discriminate].
  inversion H; subst; clear H. split.
  - exact (place_J I c [(v, pos)] st _ HJ Hg (upd_length _ _ _)).
  - exact (place_ext I c [(v, pos)] st _ Hg).
Qed.

Lemma place_one_arrivals I c v pos st st' :
  J I st -> arrivals_ok I st -> place_one I c v pos st = Some st' -> arrivals_ok I st'.
Proof.
  unfold place_one, arrivals_ok. intros HJ Ha H. destruct (place_guard I c [(v, pos)] st) eqn:Hg; [|discriminate].
  inversion H; subst; clear H. simpl.
  destruct (guard_parts I c [(v, pos)] st Hg) as [_ [_ [_ [Hlt _]]]].
  specialize (Hlt v pos (or_introl eq_refl)).
  rewrite Ha. apply map_upd. exact Hlt.
Qed.

Lemma place_multi_J_ext I c pl st st' :
  J I st -> place_multi I c pl st = Some st' ->
  J I st' /\ ext st st' /\ (forall x, In x (unassigned st) -> (c_req (cget I x) <= 1)%nat -> In x (unassigned st')).
Proof.
  unfold place_multi. intros HJ H.
  destruct (place_guard I c pl st) eqn:Hg; simpl in H; [|discriminate].
  destruct (1 <? c_req (cget I c))%nat eqn:Hreq; simpl in H; [|discriminate].
  destruct (length pl =? c_req (cget I c))%nat; [|discriminate].
  inversion H; subst; clear H. split; [|split].
  - exact (place_J I c pl st _ HJ Hg eq_refl).
  - exact (place_ext I c pl st _ Hg).
  - intros x Hx Hr. apply (place_un_keep c pl st (arrivals st)); [exact Hx|]. intros E. subst x. apply Nat.ltb_lt in Hreq. lia.
Qed.

Lemma ins_events_J_ext I evs : forall st st',
  J I st -> ins_events I evs st = Some st' -> J I st' /\ ext st st'.
Proof.
  induction evs as [|[[c v] pos] rest IH]; intros st st' HJ H; simpl in H.
  - inversion H; subst. split; [exact HJ | apply ext_refl].
  - destruct (place_one I c v pos st) as [s1|] eqn:E1; [|discriminate].
    destruct (place_one_J_ext I c v pos st s1 HJ E1) as [HJ1 He1].
    destruct (IH s1 st' HJ1 H) as [HJ2 He2]. split; [exact HJ2 | exact (ext_trans _ _ _ He1 He2)].
Qed.

Lemma ins_events_arrivals I evs : forall st st',
  J I st -> arrivals_ok I st -> ins_events I evs st = Some st' -> arrivals_ok I st'.
Proof.
  induction evs as [|[[c v] pos] rest IH]; intros st st' HJ Ha H; simpl in H.
  - inversion H; subst. exact Ha.
  - destruct (place_one I c v pos st) as [s1|] eqn:E1; [|discriminate].
    destruct (place_one_J_ext I c v pos st s1 HJ E1) as [HJ1 _].
    apply (IH s1 st' HJ1); [exact (place_one_arrivals I c v pos st s1 HJ Ha E1) | exact H].
Qed.

Lemma multi_events_J_ext I mevs : forall st st',
  J I st -> multi_events I mevs st = Some st' ->
  J I st' /\ ext st st' /\ (forall x, In x (unassigned st) -> (c_req (cget I x) <= 1)%nat -> In x (unassigned st')).
Proof.
  induction mevs as [|[c pl] rest IH]; intros st st' HJ H; simpl in H.
  - inversion H; subst. split; [exact HJ | split; [apply ext_refl | intros x Hx _; exact Hx]].
  - destruct (place_multi I c pl st) as [s1|] eqn:E1; [|discriminate].
    destruct (place_multi_J_ext I c pl st s1 HJ E1) as [HJ1 [He1 Hk1]].
    destruct (IH s1 st' HJ1 H) as [HJ2 [He2 Hk2]].
    split; [exact HJ2 | split; [exact (ext_trans _ _ _ He1 He2)|]].
    intros x Hx Hr. apply Hk2; [apply Hk1; assumption | exact Hr].
Qed.

(* ------------------------------------------------------------------ remove_set *)
Lemma refresh_arrivals_ok I st : arrivals_ok I (refresh I st).
Proof. reflexivity. Qed.

Lemma remove_set_inv I S st :
  J I st -> covered I st -> (forall x, In x S -> valid_id I x = true) -> vrp_inv I (remove_set I S st).
Proof.
  intros HJ Hc HS. apply inv_of_parts; [| |apply refresh_arrivals_ok].
  - constructor; unfold remove_set, refresh; simpl.
    + rewrite map_length. apply (j_shape_r I st HJ).
    + rewrite !map_length. apply (j_shape_r I st HJ).
    + apply NoDup_union_u. apply (j_un_nodup I st HJ).
    + intros c Hcu. apply In_union_u in Hcu. destruct Hcu as [H|H]; [exact (j_un_valid I st HJ c H) | exact (HS c H)].
    + intros v c Hcr. rewrite nth_map_strip in Hcr. apply In_strip in Hcr. exact (j_rt_valid I st HJ v c (proj1 Hcr)).
    + intros c v Hcu Hcr. rewrite nth_map_strip in Hcr. apply In_strip in Hcr. destruct Hcr as [Hcr HnS].
      apply In_union_u in Hcu. destruct Hcu as [H|H]; [exact (j_never_both I st HJ c v H Hcr) | exact (HnS H)].
    + intros v. rewrite nth_map_strip. apply NoDup_strip. apply (j_no_repeat I st HJ).
    + intros c v1 v2 Hr H1 H2. rewrite nth_map_strip in H1, H2. apply In_strip in H1. apply In_strip in H2.
      exact (j_single I st HJ c v1 v2 Hr (proj1 H1) (proj1 H2)).
  - intros c Hv. unfold remove_set, refresh; simpl.
    destruct (in_dec Nat.eq_dec c S) as [HiS|HnS].
    + left. apply In_union_u. right. exact HiS.
    + destruct (Hc c Hv) as [H|[v H]].
      * left. apply In_union_u. left. exact H.
      * right. exists v. rewrite nth_map_strip. apply In_strip. split; assumption.
Qed.
