(* Specification of property C18 (VRPTW part): the bookkeeping invariant of a VRPState as a Prop and as a boolean
   checker proved sound, and the documented objective as a function of (routes, unassigned) only.  coqc judges the
   IMPLEMENTATION's states with `spec_check` / `obj_check` (Cases/C18/vrp_spec_*.v), independently of the operator
   model. *)
From Coq Require Import List ZArith Bool Arith Lia.
From SV Require Import C18.Vrp.
Import ListNotations.
Open Scope Z_scope.

Definition on_route (c : nat) (st : vstate) : Prop := exists r, In r (routes st) /\ In c r.

(* invariant I of the contract *)
Record vrp_inv (I : inst) (st : vstate) : Prop := {
  (* one route and one arrival list per vehicle *)
  inv_shape_r : length (routes st) = nveh I;
  inv_shape_a : length (arrivals st) = nveh I;
  (* unassigned is a set of customers; routes visit customers (never the depot, never an unknown id) *)
  inv_un_nodup : NoDup (unassigned st);
  inv_un_valid : forall c, In c (unassigned st) -> valid_id I c = true;
  inv_rt_valid : forall r c, In r (routes st) -> In c r -> valid_id I c = true;
  (* never in both *)
  inv_never_both : forall c, In c (unassigned st) -> ~ on_route c st;
  (* never lost *)
  inv_never_lost : forall c, valid_id I c = true -> In c (unassigned st) \/ on_route c st;
  (* never twice on the same route *)
  inv_no_repeat : forall r, In r (routes st) -> NoDup r;
  (* a single-vehicle customer is on at most one route (hence, when not unassigned, on exactly one) *)
  inv_single : forall c v1 v2, (c_req (cget I c) <= 1)%nat ->
                 In c (nth v1 (routes st) []) -> In c (nth v2 (routes st) []) -> v1 = v2;
  (* arrival times are the recomputation from the routes: travel, waiting, service *)
  inv_arrivals : arrivals st = map (compute_arrivals I) (routes st)
}.

(* the documented weighted sum, as a function of the routes and the unassigned set only *)
Definition objective_spec (W : weights) (I : inst) (rs : list (list nat)) (un : list nat) : Z :=
  objective W I (mkSt rs un (map (compute_arrivals I) rs)).

Definition vrp_spec (W : weights) (I : inst) (st : vstate) (obj : Z) : Prop :=
  vrp_inv I st /\ obj = objective_spec W I (routes st) (unassigned st).

(* ------------------------------------------------------------------ boolean checker *)
Definition on_routeb (c : nat) (st : vstate) : bool := existsb (memb c) (routes st).
Definition count_routes (c : nat) (rs : list (list nat)) : nat := length (filter (memb c) rs).
Definition all_ids (I : inst) : list nat := seq 1 (ncust I - 1).

Definition spec_check (I : inst) (st : vstate) : bool :=
  (length (routes st) =? nveh I)%nat
  && (length (arrivals st) =? nveh I)%nat
  && nodupb (unassigned st)
  && forallb (valid_id I) (unassigned st)
  && forallb (forallb (valid_id I)) (routes st)
  && forallb (fun c => negb (on_routeb c st)) (unassigned st)
  && forallb (fun c => memb c (unassigned st) || on_routeb c st) (all_ids I)
  && forallb nodupb (routes st)
  && forallb (fun c => (1 <? c_req (cget I c))%nat || (count_routes c (routes st) <=? 1)%nat) (all_ids I)
  && ll_z_eqb (arrivals st) (map (compute_arrivals I) (routes st)).

Definition obj_check (W : weights) (I : inst) (st : vstate) (obj : Z) : bool :=
  objective_spec W I (routes st) (unassigned st) =? obj.

Definition spec_case : Type := weights * inst * vstate * Z.
Definition spec_chk (c : spec_case) : bool :=
  match c with (W, ins0, st, obj) => spec_check ins0 st && obj_check W ins0 st obj end.

(* ------------------------------------------------------------------ soundness *)
Lemma memb_In c l : memb c l = true <-> In c l.
Proof.
  unfold memb. rewrite existsb_exists. split.
  - intros [x [Hx He]]. apply Nat.eqb_eq in He. subst. exact Hx.
  - intros H. exists c. split; [exact H | apply Nat.eqb_refl].
Qed.

Lemma memb_false c l : memb c l = false <-> ~ In c l.
Proof.
  rewrite <- memb_In. destruct (memb c l); split; intro H.
  - discriminate.
  - exfalso. apply H. reflexivity.
  - intro H'. discriminate.
  - reflexivity.
Qed.

Lemma nodupb_NoDup l : nodupb l = true <-> NoDup l.
Proof.
  induction l as [|x r IH]; simpl.
  - split; [constructor | reflexivity].
  - rewrite andb_true_iff, negb_true_iff, memb_false, IH. split.
    + intros [H1 H2]. constructor; assumption.
    + intros H. inversion H; subst. split; assumption.
Qed.

Lemma list_z_eqb_eq a b : list_z_eqb a b = true -> a = b.
Proof.
  unfold list_z_eqb. revert b. induction a as [|x xs IH]; intros [|y ys] H; simpl in *; try reflexivity;
    try discriminate.
  apply andb_true_iff in H. destruct H as [Hl H]. apply andb_true_iff in H. destruct H as [He H].
  apply Z.eqb_eq in He. subst. f_equal. apply IH. rewrite Hl. exact H.
Qed.

Lemma ll_z_eqb_eq a b : ll_z_eqb a b = true -> a = b.
Proof.
  unfold ll_z_eqb. revert b. induction a as [|x xs IH]; intros [|y ys] H; simpl in *; try reflexivity;
    try discriminate.
  apply andb_true_iff in H. destruct H as [Hl H]. apply andb_true_iff in H. destruct H as [He H].
  apply list_z_eqb_eq in He. subst. f_equal. apply IH. rewrite Hl. exact H.
Qed.

Lemma on_routeb_iff c st : on_routeb c st = true <-> on_route c st.
Proof.
  unfold on_routeb, on_route. rewrite existsb_exists. split; intros [r [H1 H2]]; exists r; split; try exact H1;
    apply memb_In; exact H2.
Qed.

Lemma valid_id_all_ids I c : valid_id I c = true <-> In c (all_ids I).
Proof.
  unfold valid_id, all_ids. rewrite in_seq, andb_true_iff, Nat.leb_le, Nat.ltb_lt. lia.
Qed.

(* a customer on two different routes is counted twice *)
Lemma count_routes_two c rs : forall v1 v2, v1 <> v2 ->
  In c (nth v1 rs []) -> In c (nth v2 rs []) -> (2 <= count_routes c rs)%nat.
Proof.
  unfold count_routes. induction rs as [|r rest IH]; intros v1 v2 Hne H1 H2.
  - destruct v1; simpl in H1; contradiction.
  - assert (Hone : forall v, In c (nth v rest []) -> (1 <= length (filter (memb c) rest))%nat).
    { clear. induction rest as [|r' rest' IH']; intros v Hv.
      - destruct v; simpl in Hv; contradiction.
      - simpl. destruct v as [|v'].
        + simpl in Hv. apply memb_In in Hv. rewrite Hv. simpl. lia.
        + simpl in Hv. specialize (IH' v' Hv). destruct (memb c r'); simpl; lia. }
    simpl. destruct v1 as [|v1'], v2 as [|v2'].
    + contradiction Hne. reflexivity.
    + simpl in H1, H2. apply memb_In in H1. rewrite H1. simpl. specialize (Hone v2' H2). lia.
    + simpl in H1, H2. apply memb_In in H2. rewrite H2. simpl. specialize (Hone v1' H1). lia.
    + simpl in H1, H2. assert (Hne' : v1' <> v2') by (intros E; apply Hne; f_equal; exact E).
      specialize (IH v1' v2' Hne' H1 H2). destruct (memb c r); simpl; lia.
Qed.

Lemma nth_In_or_nil {A} (l : list (list A)) v x : In x (nth v l []) -> In (nth v l []) l.
Proof.
  intros H. destruct (Nat.lt_ge_cases v (length l)) as [Hlt|Hge].
  - apply nth_In. exact Hlt.
  - rewrite nth_overflow in H by exact Hge. contradiction.
Qed.

Theorem spec_check_sound I st : spec_check I st = true -> vrp_inv I st.
Proof.
  unfold spec_check. intros H.
  apply andb_true_iff in H. destruct H as [H Carr].
  apply andb_true_iff in H. destruct H as [H Csingle].
  apply andb_true_iff in H. destruct H as [H Crep].
  apply andb_true_iff in H. destruct H as [H Clost].
  apply andb_true_iff in H. destruct H as [H Cboth].
  apply andb_true_iff in H. destruct H as [H Crv].
  apply andb_true_iff in H. destruct H as [H Cuv].
  apply andb_true_iff in H. destruct H as [H Cnd].
  apply andb_true_iff in H. destruct H as [Clr Cla].
  apply Nat.eqb_eq in Clr. apply Nat.eqb_eq in Cla. apply nodupb_NoDup in Cnd.
  rewrite forallb_forall in Cuv, Crv, Cboth, Clost, Crep, Csingle.
  constructor.
  - exact Clr.
  - exact Cla.
  - exact Cnd.
  - exact Cuv.
  - intros r c Hr Hc. specialize (Crv r Hr). rewrite forallb_forall in Crv. apply Crv. exact Hc.
  - intros c Hc Hon. specialize (Cboth c Hc). apply negb_true_iff in Cboth. apply on_routeb_iff in Hon. congruence.
  - intros c Hv. apply valid_id_all_ids in Hv. specialize (Clost c Hv). apply orb_true_iff in Clost.
    destruct Clost as [Hm|Ho]; [left; apply memb_In; exact Hm | right; apply on_routeb_iff; exact Ho].
  - intros r Hr. apply nodupb_NoDup. apply Crep. exact Hr.
  - intros c v1 v2 Hreq H1 H2. destruct (Nat.eq_dec v1 v2) as [E|Hne]; [exact E|exfalso].
    assert (Hv : valid_id I c = true).
    { specialize (Crv _ (nth_In_or_nil _ _ _ H1)). rewrite forallb_forall in Crv. apply Crv. exact H1. }
    apply valid_id_all_ids in Hv. specialize (Csingle c Hv). apply orb_true_iff in Csingle.
    destruct Csingle as [Hm|Hc].
    + apply Nat.ltb_lt in Hm. lia.
    + apply Nat.leb_le in Hc. pose proof (count_routes_two c (routes st) v1 v2 Hne H1 H2). lia.
  - apply ll_z_eqb_eq. exact Carr.
Qed.

Theorem spec_chk_sound W I st obj : spec_chk (W, I, st, obj) = true -> vrp_spec W I st obj.
Proof.
  unfold spec_chk, vrp_spec, obj_check. intros H. apply andb_true_iff in H. destruct H as [H1 H2].
  split; [apply spec_check_sound; exact H1 | apply Z.eqb_eq in H2; symmetry; exact H2].
Qed.
