(* Totality, continued: sync_aware_insertion's vehicle selection and the removal operators' computed choices pass the
   guards of the oracle-parametrised operators. *)
From Coq Require Import List ZArith Bool Arith Lia Permutation.
From SV Require Import C18.Vrp C18.VrpSpec C18.VrpLists C18.VrpProofs C18.VrpProofs2 C18.VrpChoice C18.VrpChoiceTotal.
Import ListNotations.

(* ------------------------------------------------------------------ sorting permutes; prefixes *)
Lemma insert_by_perm {A} (le : A -> A -> bool) x l : Permutation (x :: l) (insert_by le x l).
Proof.
  induction l as [|y r IH]; simpl; [apply Permutation_refl|].
  destruct (le x y); [apply Permutation_refl|].
  apply perm_trans with (y :: x :: r); [apply perm_swap | apply perm_skip; exact IH].
Qed.

Lemma sort_by_perm {A} (le : A -> A -> bool) l : Permutation l (sort_by le l).
Proof.
  unfold sort_by. induction l as [|x r IH]; simpl; [apply perm_nil|].
  apply perm_trans with (x :: fold_right (insert_by le) [] r); [apply perm_skip; exact IH | apply insert_by_perm].
Qed.

Lemma In_firstn_in {A} n (l : list A) x : In x (firstn n l) -> In x l.
Proof.
  revert n. induction l as [|y r IH]; intros n H; destruct n; simpl in *; try contradiction.
  destruct H as [H|H]; [left; exact H | right; exact (IH n H)].
Qed.

Lemma NoDup_firstn_nd {A} n (l : list A) : NoDup l -> NoDup (firstn n l).
Proof.
  revert n. induction l as [|x r IH]; intros n H; destruct n; simpl; try constructor.
  - inversion H; subst. intros Hin. apply In_firstn_in in Hin. contradiction.
  - inversion H; subst. apply IH. assumption.
Qed.

(* ------------------------------------------------------------------ sync_aware_insertion: vehicle selection *)
Lemma vehicle_best_valid I st cid c v pos :
  In (c, (v, pos)) (vehicle_best I st cid) -> (v < nveh I)%nat /\ (pos <= length (nth v (routes st) []))%nat.
Proof.
  unfold vehicle_best. intros H. apply in_flat_map in H. destruct H as [v' [Hv Hin]]. apply in_seq in Hv.
  destruct (first_min (vehicle_options I st cid v')) as [[c' p']|] eqn:Efm; [|contradiction].
  destruct Hin as [E|[]]. inversion E; subst. apply first_min_In in Efm.
  split; [lia | exact (vehicle_options_pos I st cid v c pos Efm)].
Qed.

Lemma vehicle_best_nodup_from I st cid : forall n a, NoDup (map (fun x => fst (snd x))
  (flat_map (fun v => match first_min (vehicle_options I st cid v) with
                      | Some (c, pos) => [(c, (v, pos))]
                      | None => []
                      end) (seq a n)))
  /\ forall x, In x (flat_map (fun v => match first_min (vehicle_options I st cid v) with
                                        | Some (c, pos) => [(c, (v, pos))]
                                        | None => []
                                        end) (seq a n)) -> (a <= fst (snd x))%nat.
Proof.
  induction n as [|n IH]; intros a; simpl.
  - split; [constructor | intros x []].
  - destruct (IH (S a)) as [Hnd Hge].
    destruct (first_min (vehicle_options I st cid a)) as [[c pos]|]; simpl.
    + split.
      * constructor; [|exact Hnd]. intros Hin. apply in_map_iff in Hin. destruct Hin as [x [Ex Hx]].
        specialize (Hge x Hx). lia.
      * intros x [Hx|Hx]; [subst; simpl; lia | specialize (Hge x Hx); lia].
    + split; [exact Hnd | intros x Hx; specialize (Hge x Hx); lia].
Qed.

Lemma vehicle_best_nodup I st cid : NoDup (map (fun x => fst (snd x)) (vehicle_best I st cid)).
Proof. exact (proj1 (vehicle_best_nodup_from I st cid (nveh I) 0)). Qed.

Lemma places_ok I st cid req :
  (req <= length (vehicle_best I st cid))%nat ->
  let places := map snd (firstn req (sort_by le_cost_v (vehicle_best I st cid))) in
  length places = req /\ NoDup (map fst places)
  /\ forall v p, In (v, p) places -> (v < nveh I)%nat /\ (p <= length (nth v (routes st) []))%nat.
Proof.
  intros Hreq places. unfold places.
  pose proof (sort_by_perm le_cost_v (vehicle_best I st cid)) as Hperm.
  split; [|split].
  - rewrite map_length, firstn_length. rewrite <- (Permutation_length Hperm). lia.
  - rewrite map_map. rewrite <- firstn_map. apply NoDup_firstn_nd.
    apply (Permutation_NoDup (Permutation_map _ Hperm)). apply vehicle_best_nodup.
  - intros v p Hin. apply in_map_iff in Hin. destruct Hin as [[c [v' p']] [E Hin]]. simpl in E. inversion E; subst.
    apply In_firstn_in in Hin. apply (Permutation_in _ (Permutation_sym Hperm)) in Hin.
    exact (vehicle_best_valid I st cid c v p Hin).
Qed.

Lemma place_multi_ok I cid places st :
  J I st -> In cid (unassigned st) -> (1 < c_req (cget I cid))%nat -> length places = c_req (cget I cid) ->
  NoDup (map fst places) ->
  (forall v p, In (v, p) places -> (v < nveh I)%nat /\ (p <= length (nth v (routes st) []))%nat) ->
  exists st', place_multi I cid places st = Some st' /\ unassigned st' = remove_u cid (unassigned st).
Proof.
  intros HJ Hu Hreq Hlen Hnd Hval. unfold place_multi, place_guard.
  apply memb_In in Hu. rewrite Hu. apply nodupb_NoDup in Hnd. rewrite Hnd.
  assert (Hne : (length places =? 0)%nat = false) by (apply Nat.eqb_neq; lia). rewrite Hne.
  assert (Hf : forallb (fun vp => (fst vp <? length (routes st))%nat
                                   && (snd vp <=? length (nth (fst vp) (routes st) []))%nat) places = true).
  { apply forallb_forall. intros [v p] Hin. simpl. destruct (Hval v p Hin) as [Hv Hp].
    rewrite (j_shape_r I st HJ). apply Nat.ltb_lt in Hv. apply Nat.leb_le in Hp. rewrite Hv, Hp. reflexivity. }
  rewrite Hf. apply Nat.ltb_lt in Hreq. rewrite Hreq. apply Nat.eqb_eq in Hlen. rewrite Hlen. simpl.
  eexists. split; reflexivity.
Qed.

Lemma multi_plan_total I order : forall st,
  J I st -> NoDup order -> (forall x, In x order -> In x (unassigned st) /\ (1 < c_req (cget I x))%nat) ->
  exists mevs, multi_plan I order st = Some mevs.
Proof.
  induction order as [|cid rest IH]; intros st HJ Hnd Hsub; simpl.
  - eexists. reflexivity.
  - inversion Hnd as [|y ys Hcid Hrest]; subst.
    destruct (Hsub cid (or_introl eq_refl)) as [Hcu Hreq].
    destruct (Nat.leb_spec (c_req (cget I cid)) (length (vehicle_best I st cid))) as [Hle|Hgt].
    + destruct (places_ok I st cid _ Hle) as [Hlen [Hpnd Hval]].
      destruct (place_multi_ok I cid _ st HJ Hcu Hreq Hlen Hpnd Hval) as [st' [E Hun]].
      rewrite E. destruct (place_multi_J_ext I cid _ st st' HJ E) as [HJ' _].
      destruct (IH st' HJ' Hrest) as [mevs Hm].
      * intros x Hx. destruct (Hsub x (or_intror Hx)) as [Hxu Hxr]. split; [|exact Hxr].
        rewrite Hun. apply In_remove_u. split; [exact Hxu|]. intros Ex. subst x. exact (Hcid Hx).
      * rewrite Hm. eexists. reflexivity.
    + apply IH; [exact HJ | exact Hrest | intros x Hx; apply Hsub; right; exact Hx].
Qed.

Lemma multi_plan_runs I order : forall st mevs,
  multi_plan I order st = Some mevs -> exists st', multi_events I mevs st = Some st'.
Proof.
  induction order as [|cid rest IH]; intros st mevs H; simpl in H.
  - inversion H; subst. eexists. reflexivity.
  - destruct (c_req (cget I cid) <=? length (vehicle_best I st cid))%nat; [|exact (IH st mevs H)].
    destruct (place_multi I cid _ st) as [st1|] eqn:E1; [|discriminate].
    destruct (multi_plan I rest st1) as [m1|] eqn:E2; [|discriminate].
    inversion H; subst. simpl. rewrite E1. exact (IH st1 m1 E2).
Qed.

(* the state regret_insertion is called on inside sync_aware_insertion *)
Lemma sync_aware_mid_J I mevs st st1 :
  J I st -> multi_events I mevs st = Some st1 ->
  J I (mkSt (routes st1) (filter (fun c => (c_req (cget I c) =? 1)%nat) (unassigned st)) (arrivals st1)).
Proof.
  intros HJ E1. destruct (multi_events_J_ext I mevs st st1 HJ E1) as [HJ1 [_ Hk1]].
  assert (Hin : forall x, In x (filter (fun c => (c_req (cget I c) =? 1)%nat) (unassigned st)) -> In x (unassigned st1)).
  { intros x Hx. apply filter_In in Hx. destruct Hx as [Hx Hr]. apply Nat.eqb_eq in Hr. apply Hk1; [exact Hx | lia]. }
  constructor; simpl.
  - apply (j_shape_r I st1 HJ1).
  - apply (j_shape_a I st1 HJ1).
  - apply NoDup_filter. apply (j_un_nodup I st HJ).
  - intros c Hc. apply (j_un_valid I st1 HJ1). apply Hin. exact Hc.
  - apply (j_rt_valid I st1 HJ1).
  - intros c v Hc. apply (j_never_both I st1 HJ1). apply Hin. exact Hc.
  - apply (j_no_repeat I st1 HJ1).
  - apply (j_single I st1 HJ1).
Qed.

Theorem f_sync_aware_total I order orders st :
  vrp_inv I st -> set_eqb order (unassigned st) = true ->
  exists mevs st1,
    multi_plan I (filter (fun c => (1 <? c_req (cget I c))%nat) order) st = Some mevs
    /\ multi_events I mevs st = Some st1
    /\ (orders_ok I 2 orders (mkSt (routes st1) (filter (fun c => (c_req (cget I c) =? 1)%nat) (unassigned st))
                                    (arrivals st1)) = true ->
        exists st', f_sync_aware I order orders st = Some st').
Proof.
  intros Hinv Hs. destruct (parts_of_inv I st Hinv) as [HJ _].
  destruct (set_eqb_parts _ _ Hs) as [_ [Hsub _]].
  assert (Hnd : NoDup order) by exact (set_eqb_NoDup _ _ Hs (j_un_nodup I st HJ)).
  destruct (multi_plan_total I (filter (fun c => (1 <? c_req (cget I c))%nat) order) st HJ) as [mevs Hm].
  - apply NoDup_filter. exact Hnd.
  - intros x Hx. apply filter_In in Hx. destruct Hx as [Hx Hr]. apply Nat.ltb_lt in Hr. split; [exact (Hsub x Hx) | exact Hr].
  - destruct (multi_plan_runs I _ st mevs Hm) as [st1 E1].
    exists mevs, st1. split; [exact Hm | split; [exact E1|]].
    intros Hok. unfold f_sync_aware. rewrite Hs, Hm, E1.
    pose proof (sync_aware_mid_J I mevs st st1 HJ E1) as HJs.
    destruct (regret_plan_total I 2 orders _ HJs Hok) as [evs Hevs]. rewrite Hevs.
    destruct (regret_plan_runs I 2 orders _ evs Hevs) as [st2 E2].
    unfold apply_op, sync_aware_insertion. rewrite E1, E2. eexists. reflexivity.
Qed.

(* ------------------------------------------------------------------ removal operators *)
Lemma worst_candidates_assigned I st x : In x (worst_candidates I st) -> In x (assigned st).
Proof.
  unfold worst_candidates, assigned. intros H. apply in_map_iff in H. destruct H as [[s c] [E Hin]]. simpl in E. subst c.
  apply (Permutation_in _ (Permutation_sym (sort_by_perm ge_zn _))) in Hin.
  apply in_flat_map in Hin. destruct Hin as [route [Hr Hin]]. apply in_map_iff in Hin.
  destruct Hin as [i [E Hi]]. inversion E; subst. apply in_seq in Hi.
  apply in_concat. exists route. split; [exact Hr | apply nth_In; lia].
Qed.

Lemma In_remove_nth {A} (l : list A) : forall i x, In x (remove_nth i l) -> In x l.
Proof.
  induction l as [|y r IH]; intros i x H; destruct i; simpl in *; try contradiction.
  - right. exact H.
  - destruct H as [H|H]; [left; exact H | right; exact (IH i x H)].
Qed.

Lemma pop_all_sub idxs : forall cands rem, pop_all cands idxs = Some rem ->
  (forall x, In x rem -> In x cands) /\ length rem = length idxs.
Proof.
  induction idxs as [|i rest IH]; intros cands rem H; simpl in H.
  - inversion H; subst. split; [intros x [] | reflexivity].
  - destruct (Nat.ltb_spec i (length cands)) as [Hlt|Hge]; [|discriminate].
    destruct (pop_all (remove_nth i cands) rest) as [r1|] eqn:E; [|discriminate].
    inversion H; subst. destruct (IH _ r1 E) as [Hsub Hlen]. split.
    + intros x [Hx|Hx]; [subst; apply nth_In; exact Hlt | exact (In_remove_nth cands i x (Hsub x Hx))].
    + simpl. rewrite Hlen. reflexivity.
Qed.

Theorem f_worst_total I idxs st rem :
  idxs <> [] -> pop_all (worst_candidates I st) idxs = Some rem -> exists st', f_worst I idxs st = Some st'.
Proof.
  intros Hne Hp. unfold f_worst. rewrite Hp. destruct (pop_all_sub idxs _ rem Hp) as [Hsub Hlen].
  unfold apply_op. apply (removal_total I).
  - apply subsetb_spec. intros x Hx. apply (worst_candidates_assigned I). exact (Hsub x Hx).
  - intros E. subst rem. destruct idxs; [contradiction Hne; reflexivity | discriminate].
Qed.

Lemma take_distinct_sub nrem others : forall acc x,
  In x (take_distinct nrem others acc) -> In x acc \/ In x others.
Proof.
  induction others as [|c rest IH]; intros acc x H; simpl in H; [left; exact H|].
  destruct (nrem <=? length acc)%nat; [left; exact H|].
  destruct (IH _ x H) as [Hx|Hx]; [|right; right; exact Hx].
  destruct (memb c acc); [left; exact Hx|]. apply in_app_iff in Hx.
  destruct Hx as [Hx|[Hx|[]]]; [left; exact Hx | right; left; exact Hx].
Qed.

Lemma take_distinct_acc nrem others : forall acc x, In x acc -> In x (take_distinct nrem others acc).
Proof.
  induction others as [|c rest IH]; intros acc x H; simpl; [exact H|].
  destruct (nrem <=? length acc)%nat; [exact H|]. apply IH.
  destruct (memb c acc); [exact H | apply in_app_iff; left; exact H].
Qed.

Theorem f_related_total I nrem seed st :
  In seed (assigned st) -> exists st', f_related I nrem seed st = Some st'.
Proof.
  intros Hseed. unfold f_related. destruct (assigned st) as [|a rest] eqn:Ea; [contradiction|].
  unfold apply_op. apply (removal_total I).
  - apply subsetb_spec. intros x Hx. apply take_distinct_sub in Hx. destruct Hx as [[Hx|[]]|Hx].
    + subst x. rewrite Ea. exact Hseed.
    + apply in_map_iff in Hx. destruct Hx as [[d c] [E Hin]]. simpl in E. subst c.
      apply (Permutation_in _ (Permutation_sym (sort_by_perm le_zn _))) in Hin.
      apply in_map_iff in Hin. destruct Hin as [c [E Hin]]. inversion E; subst.
      apply filter_In in Hin. rewrite Ea. exact (proj1 Hin).
  - intros E. assert (Hin : In seed (take_distinct nrem
        (map snd (sort_by le_zn (map (fun c => (dist I seed c, c)) (filter (fun c => negb (Nat.eqb c seed)) (a :: rest)))))
        [seed])) by (apply take_distinct_acc; left; reflexivity).
    rewrite E in Hin. contradiction.
Qed.

Lemma nodup_length_le (l : list nat) : (length (nodup Nat.eq_dec l) <= length l)%nat.
Proof.
  apply NoDup_incl_length; [apply NoDup_nodup | intros x Hx; apply nodup_In in Hx; exact Hx].
Qed.

Theorem f_sync_removal_total I target sample st :
  match sync_customers I st with
  | [] => sample <> [] /\ (forall x, In x sample -> In x (assigned st)) \/ assigned st = []
  | sc => In target sc
  end -> exists st', f_sync_removal I target sample st = Some st'.
Proof.
  unfold f_sync_removal. destruct (sync_customers I st) as [|a rest] eqn:Es; intros H.
  - destruct H as [[Hne Hsub]|Hnil].
    + destruct sample as [|t nb]; [contradiction Hne; reflexivity|].
      unfold apply_op, sync_removal. rewrite Es. apply (removal_total I); [|discriminate].
      apply subsetb_spec. exact Hsub.
    + destruct sample as [|t nb]; unfold apply_op, sync_removal, removal_from_assigned; rewrite Es, Hnil;
        eexists; reflexivity.
  - unfold apply_op, sync_removal. rewrite Es. apply memb_In in H. rewrite H.
    set (nearby := firstn 3 _).
    assert (Hsub : subsetb (nodup Nat.eq_dec nearby) (assigned st) = true).
    { apply subsetb_spec. intros x Hx. apply nodup_In in Hx. unfold nearby in Hx. apply In_firstn_in in Hx.
      apply in_map_iff in Hx. destruct Hx as [[d c] [E Hin]]. simpl in E. subst c.
      apply (Permutation_in _ (Permutation_sym (sort_by_perm _ _))) in Hin.
      apply in_map_iff in Hin. destruct Hin as [c [E Hin]]. inversion E; subst.
      apply filter_In in Hin. exact (proj1 Hin). }
    rewrite Hsub.
    assert (Hlen : (length (nodup Nat.eq_dec nearby) <=? 3)%nat = true).
    { apply Nat.leb_le. pose proof (nodup_length_le nearby). unfold nearby in *. rewrite firstn_length in H0. lia. }
    rewrite Hlen. simpl. eexists. reflexivity.
Qed.
