(* The PINNED route_removal (before fix 3c6011c: empties only the chosen routes) breaks invariant I on the
   3-customer, 2-vehicle witness of the property text: customer 1 needs two vehicles, routes [[2,3,1],[1]];
   removing vehicle 0's route leaves customer 1 both in `unassigned` and on route 1.  The witness state is reachable
   (sync_aware_insertion from the empty plan) and consistent; the repaired operator keeps it consistent. *)
From Coq Require Import List ZArith Bool Arith Lia.
From SV Require Import C18.Vrp C18.VrpSpec C18.VrpLists C18.VrpProofs C18.VrpProofs2.
Import ListNotations.
Open Scope Z_scope.

(* depot at 0, customers 1, 2, 3 at x = 1, 2, 3 on a line; customer 1 needs two vehicles; capacities 10 *)
Definition wit_inst : inst :=
  mkInst [mkCust 0 0 None 0 1; mkCust 1 0 None 0 2; mkCust 1 0 None 0 1; mkCust 1 0 None 0 1]
         [[0; 1; 2; 3]; [1; 0; 1; 2]; [2; 1; 0; 1]; [3; 2; 1; 0]]
         [Some 10; Some 10].

Definition wit_build : op := SyncAwareInsertion [(1, [(0, 0); (1, 0)])]%nat [(2, 0, 0); (3, 0, 1)]%nat.
Definition wit_state : vstate := mkSt [[2; 3; 1]; [1]]%nat [] [[2; 3; 5]; [1]].
Definition wit_after_pinned : vstate := mkSt [[]; [1]]%nat [2; 3; 1]%nat [[]; [1]].

Lemma wit_reachable : run_ops wit_inst [wit_build] (init_state wit_inst) = Some wit_state.
Proof. vm_compute. reflexivity. Qed.

Lemma wit_consistent : spec_check wit_inst wit_state = true.
Proof. vm_compute. reflexivity. Qed.

Lemma wit_pinned_step : route_removal_pinned wit_inst [0%nat] wit_state = Some wit_after_pinned.
Proof. vm_compute. reflexivity. Qed.

Lemma wit_pinned_broken : ~ vrp_inv wit_inst wit_after_pinned.
Proof.
  intros H. apply (inv_never_both wit_inst wit_after_pinned H 1%nat).
  - simpl. tauto.
  - exists [1%nat]. simpl. tauto.
Qed.

Lemma pinned_refuted :
  exists I vs st st',
    inst_ok I = true /\ run_ops I [wit_build] (init_state I) = Some st /\ vrp_inv I st
    /\ route_removal_pinned I vs st = Some st' /\ ~ vrp_inv I st' /\ spec_check I st' = false.
Proof.
  exists wit_inst, [0%nat], wit_state, wit_after_pinned.
  split; [reflexivity|]. split; [exact wit_reachable|]. split; [exact (spec_check_sound _ _ wit_consistent)|].
  split; [exact wit_pinned_step|]. split; [exact wit_pinned_broken | vm_compute; reflexivity].
Qed.

(* the repaired operator on the same state and the same choice *)
Lemma wit_fixed_step :
  route_removal wit_inst [0%nat] wit_state = Some (mkSt [[]; []]%nat [2; 3; 1]%nat [[]; []]).
Proof. vm_compute. reflexivity. Qed.
