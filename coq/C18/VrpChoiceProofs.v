(* The choice-computing operators of C18/VrpChoice.v preserve invariant I for every rng answer / set iteration order:
   each of them is, by definition, an oracle-parametrised operator of C18/Vrp.v run on computed choices. *)
From Coq Require Import List ZArith Bool Arith Lia.
From SV Require Import C18.Vrp C18.VrpSpec C18.VrpProofs C18.VrpProofs2 C18.VrpChoice.
Import ListNotations.

Theorem apply_fop_inv I o st st' :
  inst_ok I = true -> vrp_inv I st -> apply_fop I o st = Some st' -> vrp_inv I st'.
Proof.
  intros Hok Hinv H. destruct o as [s|idxs|nrem seed|vs|t s|order|k orders|order orders]; unfold apply_fop in H.
  - exact (apply_op_inv I _ st st' Hok Hinv H).
  - unfold f_worst in H. destruct (pop_all (worst_candidates I st) idxs) as [rem|]; [|discriminate].
    exact (apply_op_inv I _ st st' Hok Hinv H).
  - unfold f_related in H. destruct (assigned st) as [|a rest].
    + inversion H; subst. exact Hinv.
    + exact (apply_op_inv I _ st st' Hok Hinv H).
  - exact (apply_op_inv I _ st st' Hok Hinv H).
  - unfold f_sync_removal in H. destruct (sync_customers I st) as [|a rest].
    + destruct s as [|t0 nb]; exact (apply_op_inv I _ st st' Hok Hinv H).
    + exact (apply_op_inv I _ st st' Hok Hinv H).
  - unfold f_greedy in H. destruct (set_eqb order (unassigned st)); [|discriminate].
    destruct (greedy_plan I order st) as [evs|]; [|discriminate].
    exact (apply_op_inv I _ st st' Hok Hinv H).
  - unfold f_regret in H. destruct (regret_plan I k orders st) as [evs|]; [|discriminate].
    exact (apply_op_inv I _ st st' Hok Hinv H).
  - unfold f_sync_aware in H. destruct (set_eqb order (unassigned st)); [|discriminate].
    destruct (multi_plan I _ st) as [mevs|]; [|discriminate].
    destruct (multi_events I mevs st) as [st1|]; [|discriminate].
    destruct (regret_plan I 2 orders _) as [evs|]; [|discriminate].
    exact (apply_op_inv I _ st st' Hok Hinv H).
Qed.

Fixpoint run_fops (I : inst) (ops : list fop) (st : vstate) : option vstate :=
  match ops with
  | [] => Some st
  | o :: rest => match apply_fop I o st with Some st' => run_fops I rest st' | None => None end
  end.

Theorem run_fops_inv I ops : forall st st',
  inst_ok I = true -> vrp_inv I st -> run_fops I ops st = Some st' -> vrp_inv I st'.
Proof.
  induction ops as [|o rest IH]; intros st st' Hok Hinv H; simpl in H.
  - inversion H; subst. exact Hinv.
  - destruct (apply_fop I o st) as [s1|] eqn:E; [|discriminate].
    exact (IH s1 st' Hok (apply_fop_inv I o st s1 Hok Hinv E) H).
Qed.
