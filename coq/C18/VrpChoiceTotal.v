(* The choices vrp.py computes always pass the guards of the oracle-parametrised operators: the choice-computing
   operators of C18/VrpChoice.v do not fail (return None) on consistent states, whatever the random generator answers,
   as long as the answers are of the kind the rng methods give (elements of the population, indices in range,
   a permutation for shuffle / set iteration). *)
From Coq Require Import List ZArith Bool Arith Lia.
From SV Require Import C18.Vrp C18.VrpSpec C18.VrpLists C18.VrpProofs C18.VrpProofs2 C18.VrpChoice.
Import ListNotations.

(* ------------------------------------------------------------------ options are real positions *)
Lemma first_min_In {B} (l : list (Z * B)) x : first_min l = Some x -> In x l.
Proof.
  revert x. induction l as [|y r IH]; intros x H; simpl in H; [discriminate|].
  destruct (first_min r) as [z|].
  - destruct (fst z <? fst y)%Z; inversion H; subst; [right; apply IH; reflexivity | left; reflexivity].
  - inversion H; subst. left. reflexivity.
Qed.

Lemma first_min_some {B} (l : list (Z * B)) : l <> [] -> exists x, first_min l = Some x.
Proof.
  destruct l as [|y r]; intros H; [contradiction H; reflexivity|]. simpl.
  destruct (first_min r) as [z|]; [destruct (fst z <? fst y)%Z|]; eexists; reflexivity.
Qed.

Lemma vehicle_options_pos I st cid v c pos :
  In (c, pos) (vehicle_options I st cid v) -> (pos <= length (nth v (routes st) []))%nat.
Proof.
  unfold vehicle_options. intros H. apply in_flat_map in H. destruct H as [p [Hp Hin]].
  apply in_seq in Hp. destruct (insertion_cost I st v p cid); [|contradiction].
  destruct Hin as [E|[]]. inversion E; subst. lia.
Qed.

Lemma all_options_valid I st cid c v pos :
  In (c, (v, pos)) (all_options I st cid) ->
  (v < nveh I)%nat /\ (pos <= length (nth v (routes st) []))%nat.
Proof.
  unfold all_options. intros H. apply in_flat_map in H. destruct H as [v' [Hv Hin]].
  apply in_seq in Hv. apply in_map_iff in Hin. destruct Hin as [[c' p'] [E Hin]]. simpl in E.
  inversion E; subst. split; [lia | exact (vehicle_options_pos I st cid v c pos Hin)].
Qed.

(* ------------------------------------------------------------------ a single insertion at a real position succeeds *)
Lemma place_one_ok I cid v pos st :
  In cid (unassigned st) -> (v < length (routes st))%nat -> (pos <= length (nth v (routes st) []))%nat ->
  exists st', place_one I cid v pos st = Some st' /\ unassigned st' = remove_u cid (unassigned st).
Proof.
  intros Hu Hv Hp. unfold place_one, place_guard. simpl.
  apply memb_In in Hu. rewrite Hu. apply Nat.ltb_lt in Hv. rewrite Hv. apply Nat.leb_le in Hp. rewrite Hp.
  simpl. rewrite orb_true_r. eexists. split; reflexivity.
Qed.

(* ------------------------------------------------------------------ greedy_insertion never fails *)
Lemma greedy_plan_total I order : forall st,
  J I st -> NoDup order -> (forall x, In x order -> In x (unassigned st)) ->
  exists evs, greedy_plan I order st = Some evs.
Proof.
  induction order as [|cid rest IH]; intros st HJ Hnd Hsub; simpl.
  - eexists. reflexivity.
  - inversion Hnd as [|y ys Hcid Hrest]; subst.
    destruct (first_min (all_options I st cid)) as [[c [v pos]]|] eqn:Efm.
    + apply first_min_In in Efm. apply all_options_valid in Efm. destruct Efm as [Hv Hp].
      rewrite <- (j_shape_r I st HJ) in Hv.
      destruct (place_one_ok I cid v pos st (Hsub cid (or_introl eq_refl)) Hv Hp) as [st' [E Hun]].
      rewrite E. destruct (place_one_J_ext I cid v pos st st' HJ E) as [HJ' _].
      destruct (IH st' HJ' Hrest) as [evs Hevs].
      * intros x Hx. rewrite Hun. apply In_remove_u. split; [apply Hsub; right; exact Hx|].
        intros Ex. subst x. exact (Hcid Hx).
      * rewrite Hevs. eexists. reflexivity.
    + apply IH; [exact HJ | exact Hrest | intros x Hx; apply Hsub; right; exact Hx].
Qed.

Lemma greedy_plan_runs I order : forall st evs,
  greedy_plan I order st = Some evs -> exists st', ins_events I evs st = Some st'.
Proof.
  induction order as [|cid rest IH]; intros st evs H; simpl in H.
  - inversion H; subst. eexists. reflexivity.
  - destruct (first_min (all_options I st cid)) as [[c [v pos]]|]; [|exact (IH st evs H)].
    destruct (place_one I cid v pos st) as [st1|] eqn:E1; [|discriminate].
    destruct (greedy_plan I rest st1) as [evs1|] eqn:E2; [|discriminate].
    inversion H; subst. simpl. rewrite E1. exact (IH st1 evs1 E2).
Qed.

Lemma set_eqb_parts a b :
  set_eqb a b = true -> length a = length b /\ (forall x, In x a -> In x b) /\ (forall x, In x b -> In x a).
Proof.
  unfold set_eqb. intros H. apply andb_true_iff in H. destruct H as [H H3]. apply andb_true_iff in H.
  destruct H as [H1 H2]. apply Nat.eqb_eq in H1. split; [exact H1|].
  split; [exact (proj1 (subsetb_spec _ _) H2) | exact (proj1 (subsetb_spec _ _) H3)].
Qed.

(* an enumeration of a duplicate-free set with the same length has no duplicates either *)
Lemma set_eqb_NoDup a b : set_eqb a b = true -> NoDup b -> NoDup a.
Proof.
  intros H Hb. destruct (set_eqb_parts a b H) as [Hl [_ Hba]].
  apply (@NoDup_incl_NoDup nat b a Hb); [lia | exact Hba].
Qed.

Theorem f_greedy_total I order st :
  vrp_inv I st -> set_eqb order (unassigned st) = true -> exists st', f_greedy I order st = Some st'.
Proof.
  intros Hinv Hs. destruct (parts_of_inv I st Hinv) as [HJ _]. unfold f_greedy. rewrite Hs.
  destruct (set_eqb_parts _ _ Hs) as [_ [Hsub _]].
  destruct (greedy_plan_total I order st HJ (set_eqb_NoDup _ _ Hs (j_un_nodup I st HJ)) Hsub) as [evs Hevs].
  rewrite Hevs. simpl. exact (greedy_plan_runs I order st evs Hevs).
Qed.

(* ------------------------------------------------------------------ regret_insertion: the customer it picks can be placed *)
Lemma pick_regret_src I st k order : forall best r cid vp,
  pick_regret I st k order best = Some (r, (cid, vp)) ->
  best = Some (r, (cid, vp)) \/ (In cid order /\ exists r' , regret_of I st k cid = Some (r', vp)).
Proof.
  induction order as [|c rest IH]; intros best r cid vp H; simpl in H.
  - left. exact H.
  - destruct (regret_of I st k c) as [[rg vp0]|] eqn:Er.
    + destruct best as [[brg bx]|].
      * destruct (brg <? rg)%Z.
        -- destruct (IH _ r cid vp H) as [E|[Hin Hex]].
           ++ inversion E; subst. right. split; [left; reflexivity | exists r; exact Er].
           ++ right. split; [right; exact Hin | exact Hex].
        -- destruct (IH _ r cid vp H) as [E|[Hin Hex]]; [left; exact E | right; split; [right; exact Hin | exact Hex]].
      * destruct (IH _ r cid vp H) as [E|[Hin Hex]].
        -- inversion E; subst. right. split; [left; reflexivity | exists r; exact Er].
        -- right. split; [right; exact Hin | exact Hex].
    + destruct (IH _ r cid vp H) as [E|[Hin Hex]]; [left; exact E | right; split; [right; exact Hin | exact Hex]].
Qed.

Lemma regret_of_valid I st k cid r v pos :
  regret_of I st k cid = Some (r, (v, pos)) ->
  (v < nveh I)%nat /\ (pos <= length (nth v (routes st) []))%nat.
Proof.
  unfold regret_of. intros H. destruct (first_min (all_options I st cid)) as [[c0 vp]|] eqn:Efm; [|discriminate].
  inversion H; subst. apply first_min_In in Efm. exact (all_options_valid I st cid c0 v pos Efm).
Qed.

(* positive form: when every pass is given an enumeration of the current `unassigned`, the plan exists *)
Fixpoint orders_ok (I : inst) (k : nat) (orders : list (list nat)) (st : vstate) : bool :=
  match unassigned st with
  | [] => true
  | _ =>
      match orders with
      | [] => false
      | order :: more =>
          set_eqb order (unassigned st) &&
          match pick_regret I st k order None with
          | None => true
          | Some (_, (cid, (v, pos))) =>
              match place_one I cid v pos st with
              | Some st' => orders_ok I k more st'
              | None => true     (* excluded by regret_plan_total *)
              end
          end
      end
  end.

Lemma regret_plan_total I k orders : forall st,
  J I st -> orders_ok I k orders st = true -> exists evs, regret_plan I k orders st = Some evs.
Proof.
  induction orders as [|order more IH]; intros st HJ Hok; simpl in *.
  - destruct (unassigned st); [eexists; reflexivity | discriminate].
  - destruct (unassigned st) as [|u0 us] eqn:Eu; [eexists; reflexivity|].
    apply andb_true_iff in Hok. destruct Hok as [Hs Hok]. rewrite Hs.
    destruct (pick_regret I st k order None) as [[r [cid [v pos]]]|] eqn:Ep; [|eexists; reflexivity].
    destruct (pick_regret_src I st k order None r cid (v, pos) Ep) as [E|[Hin [r' Hr]]]; [discriminate|].
    destruct (regret_of_valid I st k cid r' v pos Hr) as [Hv Hp].
    rewrite <- (j_shape_r I st HJ) in Hv.
    assert (Hcu : In cid (unassigned st)).
    { rewrite Eu. destruct (set_eqb_parts _ _ Hs) as [_ [Hsub _]]. exact (Hsub cid Hin). }
    destruct (place_one_ok I cid v pos st Hcu Hv Hp) as [st' [E _]].
    rewrite E in *. destruct (place_one_J_ext I cid v pos st st' HJ E) as [HJ' _].
    destruct (IH st' HJ' Hok) as [evs Hevs]. rewrite Hevs. eexists. reflexivity.
Qed.

Lemma regret_plan_runs I k orders : forall st evs,
  regret_plan I k orders st = Some evs -> exists st', ins_events I evs st = Some st'.
Proof.
  induction orders as [|order more IH]; intros st evs H; simpl in H.
  - destruct (unassigned st); [|discriminate]. inversion H; subst. eexists. reflexivity.
  - destruct (unassigned st) as [|u0 us]; [inversion H; subst; eexists; reflexivity|].
    destruct (set_eqb order (u0 :: us)); [|discriminate].
    destruct (pick_regret I st k order None) as [[r [cid [v pos]]]|]; [|inversion H; subst; eexists; reflexivity].
    destruct (place_one I cid v pos st) as [st1|] eqn:E1; [|discriminate].
    destruct (regret_plan I k more st1) as [evs1|] eqn:E2; [|discriminate].
    inversion H; subst. simpl. rewrite E1. exact (IH st1 evs1 E2).
Qed.

Theorem f_regret_total I k orders st :
  vrp_inv I st -> orders_ok I k orders st = true -> exists st', f_regret I k orders st = Some st'.
Proof.
  intros Hinv Hok. destruct (parts_of_inv I st Hinv) as [HJ _]. unfold f_regret.
  destruct (regret_plan_total I k orders st HJ Hok) as [evs Hevs]. rewrite Hevs. simpl.
  exact (regret_plan_runs I k orders st evs Hevs).
Qed.
