(* Second, closer model of the eight exported operators of solvor/vrp.py: here the CHOICES are computed as the code
   computes them (cost ranking of worst_removal, nearest neighbours of related_removal / sync_removal, _insertion_cost
   with its capacity and time-window tests - including its reading of stale arrival times inside sync_aware_insertion -,
   cheapest position of greedy_insertion, regret order of regret_insertion, vehicle selection of sync_aware_insertion);
   only what the code gets from outside stays an oracle: the answers of rng.sample / rng.choice / rng.shuffle /
   rng.random (as the index they select), the iteration order of the Python set `unassigned`, and
   n_remove = max(1, int(len(assigned) * degree)) (float arithmetic on an arbitrary float `degree`).
   Every operator here is DEFINED as: compute the choices, then run the oracle-parametrised operator of C18/Vrp.v on
   them - so the invariant theorems of C18/VrpProofs2.v apply verbatim (C18/VrpChoiceProofs.v).  Definitions only. *)
From Coq Require Import List ZArith Bool Arith Lia.
From SV Require Import C18.Vrp.
Import ListNotations.
Open Scope Z_scope.

(* ------------------------------------------------------------------ sorting (list.sort / sorted are stable) *)
Fixpoint insert_by {A} (le : A -> A -> bool) (x : A) (l : list A) : list A :=
  match l with
  | [] => [x]
  | y :: r => if le x y then x :: l else y :: insert_by le x r
  end.
Definition sort_by {A} (le : A -> A -> bool) (l : list A) : list A := fold_right (insert_by le) [] l.

Definition le_zn (a b : Z * nat) : bool := (fst a <? fst b) || ((fst a =? fst b) && (snd a <=? snd b)%nat).
Definition ge_zn (a b : Z * nat) : bool := le_zn b a.

(* ------------------------------------------------------------------ _insertion_cost *)
(* the `else` branch of the arrival estimate (arrival_times[v] shorter than pos) *)
Definition fallback_arrival (I : inst) (route : list nat) (pos cid : nat) : Z :=
  fold_left (fun arrival i =>
               let c := nth i route 0%nat in
               let nxt := if (i <? pos - 1)%nat then nth (i + 1) route 0%nat else cid in
               Z.max arrival (c_tws (cget I c)) + c_svc (cget I c) + dist I c nxt)
            (seq 0 pos) (dist I 0 cid).

Definition insertion_cost (I : inst) (st : vstate) (v pos cid : nat) : option Z :=
  let route := nth v (routes st) [] in
  let cu := cget I cid in
  let n := length route in
  let over_cap := match nth v (caps I) None with
                  | Some cap => cap <? route_load I route + c_dem cu
                  | None => false
                  end in
  if over_cap then None else
  let cost :=
    if (n =? 0)%nat then dist I 0 cid + dist I cid 0
    else if (pos =? 0)%nat then dist I 0 cid + dist I cid (nth 0 route 0%nat) - dist I 0 (nth 0 route 0%nat)
    else if (pos =? n)%nat then
      dist I (nth (n - 1) route 0%nat) cid + dist I cid 0 - dist I (nth (n - 1) route 0%nat) 0
    else dist I (nth (pos - 1) route 0%nat) cid + dist I cid (nth pos route 0%nat)
         - dist I (nth (pos - 1) route 0%nat) (nth pos route 0%nat) in
  let arr := nth v (arrivals st) [] in
  let arrival :=
    if (n =? 0)%nat || (pos =? 0)%nat then dist I 0 cid
    else if (pos - 1 <? length arr)%nat then
      nth (pos - 1) arr 0 + c_svc (cget I (nth (pos - 1) route 0%nat)) + dist I (nth (pos - 1) route 0%nat) cid
    else fallback_arrival I route pos cid in
  let arrival := Z.max arrival (c_tws cu) in
  match c_twe cu with
  | Some e => if e <? arrival then None else Some cost
  | None => Some cost
  end.

(* feasible (cost, pos) of one vehicle, in position order *)
Definition vehicle_options (I : inst) (st : vstate) (cid v : nat) : list (Z * nat) :=
  flat_map (fun pos => match insertion_cost I st v pos cid with Some c => [(c, pos)] | None => [] end)
           (seq 0 (length (nth v (routes st) []) + 1)).

(* feasible (cost, v, pos) over all vehicles, in scan order (v ascending, pos ascending) *)
Definition all_options (I : inst) (st : vstate) (cid : nat) : list (Z * (nat * nat)) :=
  flat_map (fun v => map (fun cp => (fst cp, (v, snd cp))) (vehicle_options I st cid v)) (seq 0 (nveh I)).

(* first option of minimal cost (`cost < best_cost`; = options.sort()[0] for (cost, v, pos) tuples in scan order) *)
Fixpoint first_min {B} (l : list (Z * B)) : option (Z * B) :=
  match l with
  | [] => None
  | x :: r => match first_min r with
              | Some y => if fst y <? fst x then Some y else Some x
              | None => Some x
              end
  end.

(* ------------------------------------------------------------------ greedy_insertion *)
(* `order` = the shuffled list(state.unassigned) *)
Fixpoint greedy_plan (I : inst) (order : list nat) (st : vstate) : option (list (nat * nat * nat)) :=
  match order with
  | [] => Some []
  | cid :: rest =>
      match first_min (all_options I st cid) with
      | None => greedy_plan I rest st
      | Some (_, (v, pos)) =>
          match place_one I cid v pos st with
          | None => None
          | Some st' => match greedy_plan I rest st' with
                        | Some evs => Some ((cid, v, pos) :: evs)
                        | None => None
                        end
          end
      end
  end.

Definition f_greedy (I : inst) (order : list nat) (st : vstate) : option vstate :=
  if set_eqb order (unassigned st) then
    match greedy_plan I order st with
    | Some evs => apply_op I (GreedyInsertion evs) st
    | None => None
    end
  else None.

(* ------------------------------------------------------------------ regret_insertion *)
Definition zsort (l : list Z) : list Z := sort_by Z.leb l.
(* (regret, best position) of one customer; None = no feasible insertion *)
Definition regret_of (I : inst) (st : vstate) (k cid : nat) : option (Z * (nat * nat)) :=
  let opts := all_options I st cid in
  match first_min opts with
  | None => None
  | Some (c0, vp) =>
      let costs := zsort (map fst opts) in
      Some (if (k <=? length opts)%nat then nth (k - 1) costs 0 - c0 else 10000, vp)
  end.

(* first customer, in the set's iteration order, of maximal regret (`regret > best_regret`) *)
Fixpoint pick_regret (I : inst) (st : vstate) (k : nat) (order : list nat) (best : option (Z * (nat * (nat * nat))))
    : option (Z * (nat * (nat * nat))) :=
  match order with
  | [] => best
  | cid :: rest =>
      match regret_of I st k cid with
      | None => pick_regret I st k rest best
      | Some (rg, vp) =>
          match best with
          | Some (brg, _) => if brg <? rg then pick_regret I st k rest (Some (rg, (cid, vp)))
                             else pick_regret I st k rest best
          | None => pick_regret I st k rest (Some (rg, (cid, vp)))
          end
      end
  end.

(* `orders`: one iteration order of the set `unassigned` per pass of the while loop *)
Fixpoint regret_plan (I : inst) (k : nat) (orders : list (list nat)) (st : vstate) : option (list (nat * nat * nat)) :=
  match unassigned st with
  | [] => Some []
  | _ =>
      match orders with
      | [] => None
      | order :: more =>
          if set_eqb order (unassigned st) then
            match pick_regret I st k order None with
            | None => Some []       (* `break`: nobody can be inserted *)
            | Some (_, (cid, (v, pos))) =>
                match place_one I cid v pos st with
                | None => None
                | Some st' => match regret_plan I k more st' with
                              | Some evs => Some ((cid, v, pos) :: evs)
                              | None => None
                              end
                end
            end
          else None
      end
  end.

Definition f_regret (I : inst) (k : nat) (orders : list (list nat)) (st : vstate) : option vstate :=
  match regret_plan I k orders st with
  | Some evs => apply_op I (RegretInsertion evs) st
  | None => None
  end.

(* ------------------------------------------------------------------ sync_aware_insertion *)
(* vehicles with at least one feasible position, with their cheapest (cost, pos) *)
Definition vehicle_best (I : inst) (st : vstate) (cid : nat) : list (Z * (nat * nat)) :=
  flat_map (fun v => match first_min (vehicle_options I st cid v) with
                     | Some (c, pos) => [(c, (v, pos))]
                     | None => []
                     end) (seq 0 (nveh I)).
Definition le_cost_v (a b : Z * (nat * nat)) : bool :=
  (fst a <? fst b) || ((fst a =? fst b) && (fst (snd a) <=? fst (snd b))%nat).

Fixpoint multi_plan (I : inst) (order : list nat) (st : vstate) : option (list (nat * list (nat * nat))) :=
  match order with
  | [] => Some []
  | cid :: rest =>
      let req := c_req (cget I cid) in
      let avail := vehicle_best I st cid in
      if (req <=? length avail)%nat then
        let places := map snd (firstn req (sort_by le_cost_v avail)) in
        match place_multi I cid places st with
        | None => None
        | Some st' => match multi_plan I rest st' with
                      | Some mevs => Some ((cid, places) :: mevs)
                      | None => None
                      end
        end
      else multi_plan I rest st
  end.

(* `order` = iteration order of `unassigned` (the two list comprehensions); `orders` = those of the inner regret_insertion *)
Definition f_sync_aware (I : inst) (order : list nat) (orders : list (list nat)) (st : vstate) : option vstate :=
  if set_eqb order (unassigned st) then
    let single := filter (fun c => (c_req (cget I c) =? 1)%nat) (unassigned st) in
    let multi := filter (fun c => (1 <? c_req (cget I c))%nat) order in
    match multi_plan I multi st with
    | None => None
    | Some mevs =>
        match multi_events I mevs st with
        | None => None
        | Some st1 =>
            match regret_plan I 2 orders (mkSt (routes st1) single (arrivals st1)) with
            | None => None
            | Some evs => apply_op I (SyncAwareInsertion mevs evs) st
            end
        end
    end
  else None.

(* ------------------------------------------------------------------ removal operators *)
(* worst_removal: (saving, cid) for every visit, sorted descending; candidates.pop(idx) for each rng.random() *)
Definition saving (I : inst) (route : list nat) (i : nat) : Z :=
  let cid := nth i route 0%nat in
  let n := length route in
  if (n =? 1)%nat then dist I 0 cid + dist I cid 0
  else if (i =? 0)%nat then dist I 0 cid + dist I cid (nth 1 route 0%nat) - dist I 0 (nth 1 route 0%nat)
  else if (i =? n - 1)%nat then
    dist I (nth (n - 2) route 0%nat) cid + dist I cid 0 - dist I (nth (n - 2) route 0%nat) 0
  else dist I (nth (i - 1) route 0%nat) cid + dist I cid (nth (i + 1) route 0%nat)
       - dist I (nth (i - 1) route 0%nat) (nth (i + 1) route 0%nat).

Definition worst_candidates (I : inst) (st : vstate) : list nat :=
  map snd (sort_by ge_zn
             (flat_map (fun route => map (fun i => (saving I route i, nth i route 0%nat)) (seq 0 (length route)))
                       (routes st))).

Fixpoint remove_nth {A} (i : nat) (l : list A) : list A :=
  match l, i with
  | [], _ => []
  | _ :: r, O => r
  | x :: r, S i' => x :: remove_nth i' r
  end.

Fixpoint pop_all (cands : list nat) (idxs : list nat) : option (list nat) :=
  match idxs with
  | [] => Some []
  | i :: rest =>
      if (i <? length cands)%nat then
        match pop_all (remove_nth i cands) rest with
        | Some rem => Some (nth i cands 0%nat :: rem)
        | None => None
        end
      else None
  end.

Definition f_worst (I : inst) (idxs : list nat) (st : vstate) : option vstate :=
  match pop_all (worst_candidates I st) idxs with
  | Some rem => apply_op I (WorstRemoval rem) st
  | None => None
  end.

(* related_removal: seed = rng.choice(assigned); the other assigned customers by (distance to seed, id) until
   n_remove distinct customers are collected *)
Fixpoint take_distinct (nrem : nat) (others : list nat) (acc : list nat) : list nat :=
  match others with
  | [] => acc
  | c :: rest => if (nrem <=? length acc)%nat then acc
                 else take_distinct nrem rest (if memb c acc then acc else acc ++ [c])
  end.

Definition f_related (I : inst) (nrem seed : nat) (st : vstate) : option vstate :=
  match assigned st with
  | [] => Some st
  | _ =>
      let others := map snd (sort_by le_zn (map (fun c => (dist I seed c, c))
                                                 (filter (fun c => negb (Nat.eqb c seed)) (assigned st)))) in
      apply_op I (RelatedRemoval (take_distinct nrem others [seed])) st
  end.

(* sync_removal: target = rng.choice(sync_customers); the 3 nearest visits (stable sort by distance) *)
Definition f_sync_removal (I : inst) (target : nat) (sample : list nat) (st : vstate) : option vstate :=
  match sync_customers I st with
  | [] => match sample with
          | [] => apply_op I (SyncRemoval 0%nat []) st
          | t :: nb => apply_op I (SyncRemoval t nb) st
          end
  | _ =>
      let others := filter (fun c => negb (Nat.eqb c target)) (assigned st) in
      let nearby := firstn 3 (map snd (sort_by (fun a b => fst a <=? fst b)
                                                (map (fun c => (dist I target c, c)) others))) in
      apply_op I (SyncRemoval target (nodup Nat.eq_dec nearby)) st
  end.

Inductive fop :=
| FRandomRemoval (sample : list nat)
| FWorstRemoval (idxs : list nat)
| FRelatedRemoval (nrem seed : nat)
| FRouteRemoval (vs : list nat)
| FSyncRemoval (target : nat) (sample : list nat)
| FGreedyInsertion (order : list nat)
| FRegretInsertion (k : nat) (orders : list (list nat))
| FSyncAwareInsertion (order : list nat) (orders : list (list nat)).

Definition apply_fop (I : inst) (o : fop) (st : vstate) : option vstate :=
  match o with
  | FRandomRemoval s => apply_op I (RandomRemoval s) st
  | FWorstRemoval idxs => f_worst I idxs st
  | FRelatedRemoval nrem seed => f_related I nrem seed st
  | FRouteRemoval vs => apply_op I (RouteRemoval vs) st
  | FSyncRemoval t s => f_sync_removal I t s st
  | FGreedyInsertion order => f_greedy I order st
  | FRegretInsertion k orders => f_regret I k orders st
  | FSyncAwareInsertion order orders => f_sync_aware I order orders st
  end.

Fixpoint ftrace_ok (I : inst) (steps : list (fop * vstate)) (st : vstate) : bool :=
  match steps with
  | [] => true
  | (o, expect) :: rest =>
      match apply_fop I o st with
      | Some st' => st_eqb st' expect && ftrace_ok I rest expect
      | None => false
      end
  end.
Definition ftrace_case : Type := inst * vstate * list (fop * vstate).
Definition ftrace_chk (c : ftrace_case) : bool := ftrace_ok (fst (fst c)) (snd c) (snd (fst c)).
