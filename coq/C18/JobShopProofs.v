(* C18, job-shop part: the list-scheduling kernel produces a valid schedule for EVERY `choose`.
   Invariant on the clocks: every scheduled operation of job j ends <= job_free[j], every scheduled operation on
   machine m ends <= machine_free[m]; the keys of the schedule are exactly {(j, k) | k < next_op[j]}. *)
From Coq Require Import List ZArith Bool Arith Lia FinFun.
From SV Require Import C18.JobShop C18.JobShopSpec.
Import ListNotations.
Open Scope Z_scope.

(* ------------------------------------------------------------------ list helpers *)
Lemma length_set_nth : forall A (l : list A) i v, length (set_nth i v l) = length l.
Proof. induction l as [|x xs IH]; intros [|i] v; cbn; auto. Qed.

Lemma nth_set_nth_eq : forall A (l : list A) i v d, (i < length l)%nat -> nth i (set_nth i v l) d = v.
Proof.
  induction l as [|x xs IH]; intros [|i] v d H; cbn in *; try lia; auto. apply IH. lia.
Qed.

Lemma nth_set_nth_neq : forall A (l : list A) i i' v d, i' <> i -> nth i' (set_nth i v l) d = nth i' l d.
Proof.
  induction l as [|x xs IH]; intros [|i] [|i'] v d H; cbn; auto; try congruence.
Qed.

Lemma nth_repeat' : forall A (a : A) n i, nth i (repeat a n) a = a.
Proof. induction n as [|n IH]; intros [|i]; cbn; auto. Qed.

Lemma NoDup_app' : forall A (l1 l2 : list A),
  NoDup l1 -> NoDup l2 -> (forall x, In x l1 -> ~ In x l2) -> NoDup (l1 ++ l2).
Proof.
  induction l1 as [|a l1 IH]; intros l2 H1 H2 H; cbn; auto.
  inversion H1 as [|a' l' Hna Hnd]; subst. constructor.
  - rewrite in_app_iff. intros [Hi|Hi]; [contradiction|]. apply (H a); [left; reflexivity | exact Hi].
  - apply IH; auto. intros x Hx. apply H. right. exact Hx.
Qed.

(* ------------------------------------------------------------------ all_ops / op_at *)
Lemma In_all_ops_from : forall jobs j0 j k,
  In (j, k) (all_ops_from j0 jobs) <->
  (j0 <= j)%nat /\ exists jb, nth_error jobs (j - j0) = Some jb /\ (k < length jb)%nat.
Proof.
  induction jobs as [|jb r IH]; intros j0 j k; cbn [all_ops_from].
  - split; [intros []|]. intros [_ [jb [H _]]]. destruct (j - j0)%nat; discriminate.
  - rewrite in_app_iff, in_map_iff, IH. split.
    + intros [[x [Hx Hin]] | [Hle [jb' [Hn Hk]]]].
      * inversion Hx; subst. apply in_seq in Hin. split; [lia|]. exists jb.
        rewrite Nat.sub_diag. cbn. split; [reflexivity | lia].
      * split; [lia|]. exists jb'. replace (j - j0)%nat with (S (j - S j0)) by lia. cbn. auto.
    + intros [Hle [jb' [Hn Hk]]]. destruct (Nat.eq_dec j j0) as [->|Hne].
      * left. rewrite Nat.sub_diag in Hn. cbn in Hn. inversion Hn; subst.
        exists k. split; [reflexivity|]. apply in_seq. lia.
      * right. split; [lia|]. exists jb'.
        replace (j - j0)%nat with (S (j - S j0)) in Hn by lia. cbn in Hn. auto.
Qed.

Lemma In_all_ops_nth : forall jobs j k,
  In (j, k) (all_ops jobs) <-> exists jb, nth_error jobs j = Some jb /\ (k < length jb)%nat.
Proof.
  intros jobs j k. unfold all_ops. rewrite In_all_ops_from, Nat.sub_0_r. split.
  - intros [_ H]. exact H.
  - intros H. split; [lia | exact H].
Qed.

Lemma In_all_ops : forall jobs id, In id (all_ops jobs) <-> exists o, op_at jobs id = Some o.
Proof.
  intros jobs [j k]. rewrite In_all_ops_nth. unfold op_at. cbn [fst snd]. split.
  - intros [jb [Hj Hk]]. rewrite Hj. destruct (nth_error jb k) as [o|] eqn:E; [eauto|].
    apply nth_error_None in E. lia.
  - intros [o Ho]. destruct (nth_error jobs j) as [jb|]; [|discriminate].
    exists jb. split; [reflexivity|]. apply nth_error_Some. congruence.
Qed.

Lemma NoDup_all_ops_from : forall jobs j0, NoDup (all_ops_from j0 jobs).
Proof.
  induction jobs as [|jb r IH]; intros j0; cbn [all_ops_from]; [constructor|].
  apply NoDup_app'.
  - apply Injective_map_NoDup; [|apply seq_NoDup]. intros x y H. inversion H. reflexivity.
  - apply IH.
  - intros [j k] H1 H2. apply in_map_iff in H1. destruct H1 as [x [Hx _]]. inversion Hx; subst.
    apply In_all_ops_from in H2. destruct H2 as [Hle _]. lia.
Qed.

Lemma length_all_ops : forall jobs, length (all_ops jobs) = total_ops jobs.
Proof.
  intros jobs. unfold all_ops, total_ops. generalize 0%nat.
  induction jobs as [|jb r IH]; intros j0; cbn [all_ops_from concat]; [reflexivity|].
  rewrite !app_length, map_length, seq_length, IH. reflexivity.
Qed.

(* ------------------------------------------------------------------ the ready list *)
Lemma ready_from_In : forall jobs nx j0 r, In r (ready_from j0 jobs nx) ->
  (j0 <= rjob r)%nat /\ nth_error nx (rjob r - j0) = Some (ridx r) /\
  exists jb, nth_error jobs (rjob r - j0) = Some jb /\ nth_error jb (ridx r) = Some (rmach r, rdur r).
Proof.
  induction jobs as [|jb js IH]; intros nx j0 r H; cbn [ready_from] in H; [contradiction|].
  destruct nx as [|n ns]; [contradiction|].
  assert (Hrec : In r (ready_from (S j0) js ns) ->
    (j0 <= rjob r)%nat /\ nth_error (n :: ns) (rjob r - j0) = Some (ridx r) /\
    exists jb0, nth_error (jb :: js) (rjob r - j0) = Some jb0 /\ nth_error jb0 (ridx r) = Some (rmach r, rdur r)).
  { intros Hin. destruct (IH _ _ _ Hin) as [Hle [Hn [jb' [Hj Ho]]]]. split; [lia|].
    replace (rjob r - j0)%nat with (S (rjob r - S j0)) by lia. cbn. eauto. }
  destruct (nth_error jb n) as [[m d]|] eqn:E; [|auto].
  destruct H as [<-|H]; [|auto].
  unfold rjob, ridx, rmach, rdur; cbn [fst snd]. rewrite Nat.sub_diag. cbn.
  split; [lia|]. split; [reflexivity|]. exists jb. auto.
Qed.

Lemma ready_from_nil : forall jobs nx j0, length nx = length jobs -> ready_from j0 jobs nx = [] ->
  forall i jb, nth_error jobs i = Some jb -> (length jb <= nth i nx 0)%nat.
Proof.
  induction jobs as [|jb0 js IH]; intros nx j0 Hlen H i jb Hi.
  - destruct i; discriminate.
  - destruct nx as [|n ns]; [discriminate Hlen|]. cbn [ready_from] in H.
    destruct (nth_error jb0 n) as [[m d]|] eqn:E; [discriminate|].
    destruct i as [|i]; cbn in *.
    + inversion Hi; subst. apply nth_error_None. exact E.
    + eapply IH; eauto.
Qed.

(* ------------------------------------------------------------------ the invariant *)
(* hypothesis on the input of the kernel: machine indices inside the clock vector, durations non-negative *)
Definition jobs_okP (jobs : list job) (nm : nat) : Prop :=
  forall id m d, op_at jobs id = Some (m, d) -> (Z.to_nat m < nm)%nat /\ 0 <= d.

Record kinv (jobs : list job) (nm : nat) (s : kst) : Prop := {
  ki_lnx : length (next_op s) = length jobs;
  ki_ljf : length (jfree s) = length jobs;
  ki_lmf : length (mfree s) = nm;
  ki_keys : forall j k, In (j, k) (map fst (sch s)) <-> (k < nth j (next_op s) 0)%nat;
  ki_bound : forall j, (nth j (next_op s) 0 <= length (nth j jobs []))%nat;
  ki_nodup : NoDup (map fst (sch s));
  ki_entry : forall j k st en, In ((j, k), (st, en)) (sch s) ->
      exists m d, op_at jobs (j, k) = Some (m, d) /\ en = st + d /\
                  en <= nth j (jfree s) 0 /\ en <= nth (Z.to_nat m) (mfree s) 0;
  ki_job : forall j k k' s1 e1 s2 e2, In ((j, k), (s1, e1)) (sch s) -> In ((j, k'), (s2, e2)) (sch s) ->
      (k < k')%nat -> e1 <= s2;
  ki_mach : forall id1 id2 s1 e1 s2 e2 m d1 d2, In (id1, (s1, e1)) (sch s) -> In (id2, (s2, e2)) (sch s) ->
      id1 <> id2 -> op_at jobs id1 = Some (m, d1) -> op_at jobs id2 = Some (m, d2) ->
      e1 <= s2 \/ e2 <= s1
}.

Lemma kinv_init : forall jobs nm, kinv jobs nm (init_kst jobs nm).
Proof.
  intros jobs nm. unfold init_kst. constructor; cbn [next_op mfree jfree sch map].
  - apply repeat_length.
  - apply repeat_length.
  - apply repeat_length.
  - intros j k. rewrite nth_repeat'. split; [intros [] | lia].
  - intros j. rewrite nth_repeat'. lia.
  - constructor.
  - intros j k st en [].
  - intros j k k' s1 e1 s2 e2 [].
  - intros id1 id2 s1 e1 s2 e2 m d1 d2 [].
Qed.

Lemma kinv_step : forall jobs nm s r,
  jobs_okP jobs nm -> kinv jobs nm s -> In r (ready_from 0 jobs (next_op s)) ->
  kinv jobs nm (sched_op s r).
Proof.
  intros jobs nm s r Hok I Hr.
  destruct (ready_from_In _ _ _ _ Hr) as [_ [Hnx [jb [Hjb Hop]]]].
  rewrite Nat.sub_0_r in Hnx, Hjb.
  destruct r as [[[j k] m] d]. unfold sched_op, rjob, ridx, rmach, rdur in *. cbn [fst snd] in *.
  assert (Hopat : op_at jobs (j, k) = Some (m, d)).
  { unfold op_at. cbn [fst snd]. rewrite Hjb. exact Hop. }
  destruct (Hok _ _ _ Hopat) as [Hm Hd].
  assert (Hj : (j < length jobs)%nat) by (apply nth_error_Some; congruence).
  assert (Hk : nth j (next_op s) 0%nat = k) by (apply nth_error_nth; exact Hnx).
  assert (Hkb : (k < length jb)%nat) by (apply nth_error_Some; congruence).
  assert (Hjbn : nth j jobs [] = jb) by (apply nth_error_nth; exact Hjb).
  destruct I as [I1 I2 I3 I4 I5 I6 I7 I8 I9].
  remember (Z.max (nth (Z.to_nat m) (mfree s) 0) (nth j (jfree s) 0)) as st eqn:Hst.
  assert (Hst1 : nth (Z.to_nat m) (mfree s) 0 <= st) by lia.
  assert (Hst2 : nth j (jfree s) 0 <= st) by lia.
  clear Hst.
  constructor; cbn [next_op mfree jfree sch].
  - rewrite length_set_nth. exact I1.
  - rewrite length_set_nth. exact I2.
  - rewrite length_set_nth. exact I3.
  - intros j' k'. rewrite map_app, in_app_iff. cbn [map fst In].
    destruct (Nat.eq_dec j' j) as [->|Hne].
    + rewrite nth_set_nth_eq by lia. rewrite I4, Hk. split.
      * intros [H|[H|[]]]; [lia | inversion H; lia].
      * intros H. destruct (Nat.eq_dec k' k) as [->|Hnk]; [right; left; reflexivity | left; lia].
    + rewrite nth_set_nth_neq by exact Hne. rewrite I4. split.
      * intros [H|[H|[]]]; [exact H | inversion H; congruence].
      * intros H. left. exact H.
  - intros j'. destruct (Nat.eq_dec j' j) as [->|Hne].
    + rewrite nth_set_nth_eq by lia. rewrite Hjbn. lia.
    + rewrite nth_set_nth_neq by exact Hne. apply I5.
  - rewrite map_app. cbn [map fst]. apply NoDup_app'; [exact I6 | constructor; [intros [] | constructor] |].
    intros x Hx [Hxe|[]]. subst x. apply I4 in Hx. lia.
  - intros j' k' st' en' Hin. apply in_app_iff in Hin. destruct Hin as [Hin|[Heq|[]]].
    + destruct (I7 _ _ _ _ Hin) as [m' [d' [Ho [He [Hjf Hmf]]]]]. exists m', d'.
      split; [exact Ho|]. split; [exact He|]. split.
      * destruct (Nat.eq_dec j' j) as [->|Hne];
          [rewrite nth_set_nth_eq by lia; lia | rewrite nth_set_nth_neq by exact Hne; exact Hjf].
      * destruct (Nat.eq_dec (Z.to_nat m') (Z.to_nat m)) as [Hme|Hne].
        -- rewrite Hme in *. rewrite nth_set_nth_eq by lia. lia.
        -- rewrite nth_set_nth_neq by exact Hne. exact Hmf.
    + injection Heq as E1 E2 E3 E4. subst j' k' st' en'. exists m, d.
      split; [exact Hopat|]. split; [reflexivity|]. rewrite !nth_set_nth_eq by lia. lia.
  - intros j' k1 k2 s1 e1 s2 e2 H1 H2 Hlt. apply in_app_iff in H1, H2.
    destruct H1 as [H1|[H1|[]]]; destruct H2 as [H2|[H2|[]]].
    + eapply I8; eauto.
    + injection H2 as E1 E2 E3 E4. subst j' k2 s2 e2.
      destruct (I7 _ _ _ _ H1) as [m' [d' [_ [_ [Hjf _]]]]]. lia.
    + injection H1 as E1 E2 E3 E4. subst j' k1 s1 e1.
      assert (Hin : In (j, k2) (map fst (sch s))).
      { apply in_map_iff. exists ((j, k2), (s2, e2)). auto. }
      apply I4 in Hin. lia.
    + injection H1 as E1 E2 E3 E4. injection H2 as F1 F2 F3 F4. lia.
  - intros id1 id2 s1 e1 s2 e2 m0 d1 d2 H1 H2 Hne Ho1 Ho2. apply in_app_iff in H1, H2.
    destruct H1 as [H1|[H1|[]]]; destruct H2 as [H2|[H2|[]]].
    + eapply I9; eauto.
    + injection H2 as E1 E3 E4. subst id2 s2 e2. destruct id1 as [j1 k1].
      destruct (I7 _ _ _ _ H1) as [m' [d' [Ho [_ [_ Hmf]]]]].
      rewrite Ho1 in Ho. rewrite Hopat in Ho2. injection Ho as Ea Eb. injection Ho2 as Ec Ed. subst.
      left. lia.
    + injection H1 as E1 E3 E4. subst id1 s1 e1. destruct id2 as [j2 k2].
      destruct (I7 _ _ _ _ H2) as [m' [d' [Ho [_ [_ Hmf]]]]].
      rewrite Ho2 in Ho. rewrite Hopat in Ho1. injection Ho as Ea Eb. injection Ho1 as Ec Ed. subst.
      right. lia.
    + injection H1 as E1 E3 E4. injection H2 as F1 F3 F4. congruence.
Qed.

Lemma kinv_keys_incl : forall jobs nm s, kinv jobs nm s -> incl (map fst (sch s)) (all_ops jobs).
Proof.
  intros jobs nm s I [j k] Hin. apply (ki_keys _ _ _ I) in Hin.
  pose proof (ki_bound _ _ _ I j) as Hb.
  apply In_all_ops_nth. destruct (nth_error jobs j) as [jb|] eqn:E.
  - exists jb. split; [reflexivity|]. rewrite (nth_error_nth _ _ _ E) in Hb. lia.
  - apply nth_error_None in E. rewrite (nth_overflow _ _ E) in Hb. cbn in Hb. lia.
Qed.

Lemma schedule_with_inv : forall A (choose : A -> kst -> list rop -> option (nat * A)) jobs nm,
  jobs_okP jobs nm ->
  forall fuel a s a' s', kinv jobs nm s -> (length (sch s) + fuel = total_ops jobs)%nat ->
  schedule_with choose jobs fuel a s = Some (a', s') ->
  kinv jobs nm s' /\ incl (all_ops jobs) (map fst (sch s')).
Proof.
  intros A choose jobs nm Hok. induction fuel as [|f IH]; intros a s a' s' I Hlen H.
  - cbn in H. injection H as Ha Hs. subst a' s'. split; [exact I|].
    apply NoDup_length_incl.
    + exact (ki_nodup _ _ _ I).
    + rewrite map_length, length_all_ops. lia.
    + exact (kinv_keys_incl _ _ _ I).
  - cbn [schedule_with] in H. destruct (ready_from 0 jobs (next_op s)) as [|r0 rest] eqn:Hrd.
    + injection H as Ha Hs. subst a' s'. split; [exact I|].
      intros [j k] Hin. apply In_all_ops_nth in Hin. destruct Hin as [jb [Hj Hk]].
      apply (ki_keys _ _ _ I).
      pose proof (ready_from_nil jobs (next_op s) 0%nat (ki_lnx _ _ _ I) Hrd j jb Hj). lia.
    + destruct (choose a s (r0 :: rest)) as [[i a1]|]; [|discriminate].
      destruct (nth_error (r0 :: rest) i) as [r|] eqn:Hn; [|discriminate].
      apply IH in H; [exact H | |].
      * apply kinv_step; [exact Hok | exact I |]. rewrite Hrd. eapply nth_error_In; eauto.
      * unfold sched_op. cbn [sch]. rewrite app_length. cbn [length]. lia.
Qed.

Lemma kinv_valid : forall jobs nm s,
  kinv jobs nm s -> incl (all_ops jobs) (map fst (sch s)) -> valid_schedule jobs (sch s).
Proof.
  intros jobs nm s I Hc. constructor.
  - exact (ki_nodup _ _ _ I).
  - intros id. split; [apply (kinv_keys_incl _ _ _ I) | apply Hc].
  - intros [j k] st en Hin. destruct (ki_entry _ _ _ I _ _ _ _ Hin) as [m [d [Ho [He _]]]].
    exists m, d. split; [exact Ho | lia].
  - exact (ki_job _ _ _ I).
  - intros id1 id2 s1 e1 s2 e2 m d1 d2 H1 H2 Hne Ho1 Ho2.
    pose proof (ki_mach _ _ _ I _ _ _ _ _ _ _ _ _ H1 H2 Hne Ho1 Ho2). unfold overlap. lia.
Qed.

(* the stronger machine condition the kernel really ensures: operations on a machine are SEQUENTIAL, also the
   zero-length ones *)
Definition machine_sequential (jobs : list job) (s : sched) : Prop :=
  forall id1 id2 s1 e1 s2 e2 m d1 d2, In (id1, (s1, e1)) s -> In (id2, (s2, e2)) s ->
    id1 <> id2 -> op_at jobs id1 = Some (m, d1) -> op_at jobs id2 = Some (m, d2) -> e1 <= s2 \/ e2 <= s1.

(* boolean form of the input hypothesis *)
Definition jobs_ok (jobs : list job) (nm : nat) : bool :=
  forallb (forallb (fun o : op => (Z.to_nat (fst o) <? nm)%nat && (0 <=? snd o))) jobs.

Lemma jobs_ok_P : forall jobs nm, jobs_ok jobs nm = true -> jobs_okP jobs nm.
Proof.
  intros jobs nm H [j k] m d Ho. unfold op_at in Ho. cbn [fst snd] in Ho.
  destruct (nth_error jobs j) as [jb|] eqn:Ej; [|discriminate].
  unfold jobs_ok in H. rewrite forallb_forall in H.
  specialize (H jb (nth_error_In _ _ Ej)). rewrite forallb_forall in H.
  specialize (H (m, d) (nth_error_In _ _ Ho)). cbn [fst snd] in H.
  apply andb_true_iff in H. destruct H as [H1 H2].
  apply Nat.ltb_lt in H1. apply Z.leb_le in H2. split; assumption.
Qed.

Theorem kernel_valid : forall (A : Type) (choose : A -> kst -> list rop -> option (nat * A)) jobs nm a a' s,
  jobs_ok jobs nm = true ->
  schedule_with choose jobs (total_ops jobs) a (init_kst jobs nm) = Some (a', s) ->
  valid_schedule jobs (sch s) /\ machine_sequential jobs (sch s).
Proof.
  intros A choose jobs nm a a' s Hok H.
  destruct (schedule_with_inv A choose jobs nm (jobs_ok_P _ _ Hok) _ _ _ _ _ (kinv_init jobs nm) eq_refl H)
    as [I Hc].
  split; [exact (kinv_valid _ _ _ I Hc) | exact (ki_mach _ _ _ I)].
Qed.
