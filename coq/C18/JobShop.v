(* Model of solvor/job_shop.py (solve_job_shop, _dispatch, _compute_makespan, _try_swap,
   _rebuild_schedule).  Definitions only.

   Numbers: durations / clocks / start / end are Python ints -> Z.  Machine numbers are Z in the input
   (negative ones are rejected by the validation loop, as in the code); list indices are Z.to_nat of them.
   Job numbers, operation indices, iteration counters are nat.
   dict {(job, op): (start, end)} = association list in insertion order (keys are never re-inserted:
   proved in JobShopProofs, `kernel_inv`).
   Random: `rng.choice(ready)` and `rng.randrange(n_machines)` answers are an ORACLE list of nat (the index of
   the chosen ready entry / the drawn machine), recorded by the harness from the real run, consumed in call order.
   on_progress: an optional call-back `cb : nat -> bool` (iteration -> "returned True") + progress_interval.

   One list-scheduling kernel `schedule_with choose`; `_dispatch` and `_rebuild_schedule` are the instances
   `dispatch` and `rebuild`.  In `_rebuild_schedule` the set `scheduled` is prefix-closed in every job (an
   operation becomes ready only when its predecessor is in the set), so it is represented, as in `_dispatch`,
   by the vector next_op; its `ready` list (all_ops order, filtered) is then the same list as in `_dispatch`:
   the next operation of every unfinished job, by job index.
   List reads `l[i]` are `nth i l 0` (the proofs show every index is in range; Python would raise IndexError).
   A missing dict key (KeyError) and an exhausted oracle are the explicit failure value None / Fail.

   The code modelled is the FIXED one: `iteration = 0` before the local-search loop (on the snapshot
   `max_iter <= 0` with local_search=True raised UnboundLocalError); iteration counters are not observable here. *)
From Coq Require Import List ZArith Bool Arith.
Import ListNotations.
Open Scope Z_scope.

Definition op := (Z * Z)%type.            (* (machine, duration) *)
Definition job := list op.
Definition opid := (nat * nat)%type.      (* (job index, operation index) *)
Definition sched := list (opid * (Z * Z)).  (* (job, op) -> (start, end), insertion order *)
Definition rop := (nat * nat * Z * Z)%type. (* ready entry (j, next_op[j], machine, duration) *)

Definition rjob (r : rop) : nat := fst (fst (fst r)).
Definition ridx (r : rop) : nat := snd (fst (fst r)).
Definition rmach (r : rop) : Z := snd (fst r).
Definition rdur (r : rop) : Z := snd r.

Definition opid_eqb (a b : opid) : bool := Nat.eqb (fst a) (fst b) && Nat.eqb (snd a) (snd b).

Fixpoint lookup (k : opid) (s : sched) : option (Z * Z) :=
  match s with
  | [] => None
  | (k', v) :: r => if opid_eqb k' k then Some v else lookup k r
  end.

Fixpoint set_nth {A} (i : nat) (v : A) (l : list A) : list A :=
  match l, i with
  | [], _ => []
  | _ :: xs, O => v :: xs
  | x :: xs, S j => x :: set_nth j v xs
  end.

(* all (j, op_idx) in the order `for j, job in enumerate(jobs): for op_idx in range(len(job))` *)
Fixpoint all_ops_from (j : nat) (jobs : list job) : list opid :=
  match jobs with
  | [] => []
  | jb :: r => map (pair j) (seq 0 (length jb)) ++ all_ops_from (S j) r
  end.
Definition all_ops (jobs : list job) : list opid := all_ops_from 0 jobs.

Definition op_at (jobs : list job) (id : opid) : option op :=
  match nth_error jobs (fst id) with
  | Some jb => nth_error jb (snd id)
  | None => None
  end.

Definition total_ops (jobs : list job) : nat := length (concat jobs).

(* ------------------------------------------------------------------ the kernel *)
Record kst := { next_op : list nat; mfree : list Z; jfree : list Z; sch : sched }.

Definition init_kst (jobs : list job) (nm : nat) : kst :=
  {| next_op := repeat 0%nat (length jobs); mfree := repeat 0 nm;
     jfree := repeat 0 (length jobs); sch := [] |}.

(* ready = [(j, next_op[j], machine, duration) for j in range(n_jobs) if next_op[j] < len(jobs[j])] *)
Fixpoint ready_from (j : nat) (jobs : list job) (nx : list nat) : list rop :=
  match jobs, nx with
  | jb :: js, n :: ns =>
      match nth_error jb n with
      | Some (m, d) => (j, n, m, d) :: ready_from (S j) js ns
      | None => ready_from (S j) js ns
      end
  | _, _ => []
  end.

(* start = max(machine_free[machine], job_free[j]); end = start + duration; schedule[(j, op)] = (start, end);
   machine_free[machine] = end; job_free[j] = end; next_op[j] += 1 *)
Definition sched_op (s : kst) (r : rop) : kst :=
  let j := rjob r in
  let mi := Z.to_nat (rmach r) in
  let st := Z.max (nth mi (mfree s) 0) (nth j (jfree s) 0) in
  let en := st + rdur r in
  {| next_op := set_nth j (S (ridx r)) (next_op s);
     mfree := set_nth mi en (mfree s);
     jfree := set_nth j en (jfree s);
     sch := sch s ++ [((j, ridx r), (st, en))] |}.

(* `choose` sees its own auxiliary state, the clocks and the ready list and answers with the INDEX of the ready
   entry to schedule (so whatever it answers is a ready operation, or the run fails with None). *)
Fixpoint schedule_with {A : Type} (choose : A -> kst -> list rop -> option (nat * A))
    (jobs : list job) (fuel : nat) (a : A) (s : kst) : option (A * kst) :=
  match fuel with
  | O => Some (a, s)
  | S f =>
      let rd := ready_from 0 jobs (next_op s) in
      match rd with
      | [] => Some (a, s)                              (* if not ready: break *)
      | _ :: _ =>
          match choose a s rd with
          | None => None
          | Some (i, a') =>
              match nth_error rd i with
              | None => None
              | Some r => schedule_with choose jobs f a' (sched_op s r)
              end
          end
      end
  end.

(* ------------------------------------------------------------------ min / max with a key, first winner *)
Fixpoint argbest {K : Type} (better : K -> K -> bool) (keys : list K) (i bi : nat) (bk : K) : nat :=
  match keys with
  | [] => bi
  | k :: r => if better k bk then argbest better r (S i) i k else argbest better r (S i) bi bk
  end.
Definition first_best {K : Type} (better : K -> K -> bool) (keys : list K) : nat :=
  match keys with
  | [] => 0%nat
  | k :: r => argbest better r 1 0 k
  end.
Definition first_min (keys : list Z) : nat := first_best Z.ltb keys.   (* min(): replaced only when strictly smaller *)
Definition first_max (keys : list Z) : nat := first_best Z.gtb keys.   (* max(): replaced only when strictly larger *)

(* ------------------------------------------------------------------ _dispatch *)
Inductive rule := Fifo | Spt | Lpt | Mwkr | Rnd | BadRule.

(* aux state = (remaining_work, oracle) *)
Definition dispatch_choose (rl : rule) (a : list Z * list nat) (s : kst) (rd : list rop)
  : option (nat * (list Z * list nat)) :=
  let '(rem, orc) := a in
  let pick : option (nat * list nat) :=
    match rl with
    | Fifo => Some (0%nat, orc)
    | Spt => Some (first_min (map rdur rd), orc)
    | Lpt => Some (first_max (map rdur rd), orc)
    | Mwkr => Some (first_max (map (fun r => nth (rjob r) rem 0) rd), orc)
    | Rnd => match orc with [] => None | x :: o' => Some (x, o') end
    | BadRule => None      (* raise ValueError: handled in solve *)
    end in
  match pick with
  | None => None
  | Some (i, orc') =>
      match nth_error rd i with
      | None => None
      | Some r => Some (i, (set_nth (rjob r) (nth (rjob r) rem 0 - rdur r) rem, orc'))
      end
  end.

Definition sumZ (l : list Z) : Z := fold_left Z.add l 0.

Definition dispatch (jobs : list job) (nm : nat) (rl : rule) (orc : list nat) : option (sched * list nat) :=
  let rem := map (fun jb => sumZ (map snd jb)) jobs in
  match schedule_with (dispatch_choose rl) jobs (total_ops jobs) (rem, orc) (init_kst jobs nm) with
  | Some ((_, orc'), s) => Some (sch s, orc')
  | None => None
  end.

(* max(end for _, end in schedule.values()) if schedule else 0 *)
Definition makespan (s : sched) : Z :=
  match map (fun e => snd (snd e)) s with
  | [] => 0
  | x :: r => fold_left Z.max r x
  end.

(* ------------------------------------------------------------------ _rebuild_schedule *)
Definition ord := list (nat * nat * Z).     (* machine_order: (j, op, old start) *)

(* machine_order_map = {(j, op): i ...}; .get(key, 0): last index wins, 0 when absent *)
Fixpoint order_pos_from (i : nat) (id : opid) (l : ord) (acc : nat) : nat :=
  match l with
  | [] => acc
  | (j, k, _) :: r => order_pos_from (S i) id r (if opid_eqb (j, k) id then i else acc)
  end.
Definition order_pos (id : opid) (l : ord) : nat := order_pos_from 0 id l 0.

Definition rb_key (old : sched) (target : Z) (order : ord) (r : rop) : option (Z * Z) :=
  let id := (rjob r, ridx r) in
  if rmach r =? target then Some (Z.of_nat (ridx r), Z.of_nat (order_pos id order))
  else match lookup id old with
       | Some (st, _) => Some (Z.of_nat (ridx r), st)
       | None => None                       (* KeyError *)
       end.

Definition key_lt (a b : Z * Z) : bool := (fst a <? fst b) || ((fst a =? fst b) && (snd a <? snd b)).

Fixpoint all_some {A} (l : list (option A)) : option (list A) :=
  match l with
  | [] => Some []
  | None :: _ => None
  | Some x :: r => match all_some r with Some xs => Some (x :: xs) | None => None end
  end.

(* ready.sort(key=op_priority); ready[0]  =  first entry with the smallest key (the sort is stable) *)
Definition rb_choose (old : sched) (target : Z) (order : ord) (a : unit) (s : kst) (rd : list rop)
  : option (nat * unit) :=
  match all_some (map (rb_key old target order) rd) with
  | None => None
  | Some keys => Some (first_best key_lt keys, tt)
  end.

(* n_machines = max(jobs[j][op][0] for ...) + 1 *)
Definition n_machines_rb (jobs : list job) : option nat :=
  match map fst (concat jobs) with
  | [] => None                               (* max() of an empty sequence: ValueError *)
  | m :: r => Some (Z.to_nat (fold_left Z.max r m + 1))
  end.

Definition rebuild (jobs : list job) (old : sched) (target : Z) (order : ord) : option sched :=
  match n_machines_rb jobs with
  | None => None
  | Some nm =>
      match schedule_with (rb_choose old target order) jobs (total_ops jobs) tt (init_kst jobs nm) with
      | Some (_, s) => Some (sch s)
      | None => None
      end
  end.

(* ------------------------------------------------------------------ _try_swap *)
Fixpoint insert_by {A} (key : A -> Z) (x : A) (l : list A) : list A :=
  match l with
  | [] => [x]
  | y :: r => if key x <=? key y then x :: y :: r else y :: insert_by key x r
  end.
(* list.sort(key=...) is stable: insertion from the right, before the first not-smaller element *)
Definition sort_by {A} (key : A -> Z) (l : list A) : list A := fold_right (insert_by key) [] l.

Definition machine_of (jobs : list job) (id : opid) : Z :=
  match op_at jobs id with Some (m, _) => m | None => -1 end.

Definition ops_on_machine (jobs : list job) (m : Z) : list opid :=
  filter (fun id => machine_of jobs id =? m) (all_ops jobs).

(* [(j, op_idx, schedule[(j, op_idx)][0]) ...] sorted by x[2] *)
Definition ops_with_start (s : sched) (ops : list opid) : option ord :=
  match all_some (map (fun id => match lookup id s with
                                 | Some (st, _) => Some (fst id, snd id, st)
                                 | None => None end) ops) with
  | Some l => Some (sort_by (fun x => snd x) l)
  | None => None
  end.

(* the position loop has no break: the last match wins; None = -1 *)
Fixpoint find_pos_from (i : nat) (id : opid) (l : ord) (acc : option nat) : option nat :=
  match l with
  | [] => acc
  | (j, k, _) :: r => find_pos_from (S i) id r (if opid_eqb (j, k) id then Some i else acc)
  end.

Definition swap_at {A} (p1 p2 : nat) (l : list A) : list A :=
  match nth_error l p1, nth_error l p2 with
  | Some x1, Some x2 => set_nth p2 x1 (set_nth p1 x2 l)
  | _, _ => l
  end.

(* result: None = failure of the model (KeyError); Some None = the code's `return None` *)
Definition try_swap (jobs : list job) (s : sched) (id1 id2 : opid) : option (option sched) :=
  let machine := machine_of jobs id1 in
  match ops_with_start s (ops_on_machine jobs machine) with
  | None => None
  | Some order =>
      match find_pos_from 0 id1 order None, find_pos_from 0 id2 order None with
      | Some p1, Some p2 =>
          if ((p1 =? S p2) || (p2 =? S p1))%nat then
            match rebuild jobs s machine (swap_at p1 p2 order) with
            | Some ns => Some (Some ns)
            | None => None
            end
          else Some None
      | _, _ => Some None
      end
  end.

(* ------------------------------------------------------------------ local search *)
(* for i in range(len(ops) - 1): first improving adjacent swap, if any *)
Fixpoint try_pairs (jobs : list job) (s : sched) (mk : Z) (ops : list opid) (is : list nat)
  : option (option (sched * Z)) :=
  match is with
  | [] => Some None
  | i :: r =>
      match nth_error ops i, nth_error ops (S i) with
      | Some id1, Some id2 =>
          match try_swap jobs s id1 id2 with
          | None => None
          | Some None => try_pairs jobs s mk ops r
          | Some (Some ns) =>
              let nmk := makespan ns in
              if nmk <? mk then Some (Some (ns, nmk)) else try_pairs jobs s mk ops r
          end
      | _, _ => None
      end
  end.

Record ls_st := { cur : sched; cur_mk : Z; best : sched; best_mk : Z; no_imp : nat }.

(* ops_on_machine.sort(key=lambda x: schedule[x][0]) *)
Definition sort_ops (s : sched) (ops : list opid) : option (list opid) :=
  match ops_with_start s ops with
  | Some l => Some (map (fun x => (fst (fst x), snd (fst x))) l)
  | None => None
  end.

Definition progress_stop (cb : option (nat -> bool)) (interval : Z) (it : nat) : bool :=
  match cb with
  | None => false
  | Some f => if (0 <? interval) && (Z.of_nat it mod interval =? 0) then f it else false
  end.

Definition ls_step_state (st : ls_st) (res : option (sched * Z)) : ls_st :=
  match res with
  | Some (ns, nmk) =>
      {| cur := ns; cur_mk := nmk;
         best := if nmk <? best_mk st then ns else best st;
         best_mk := if nmk <? best_mk st then nmk else best_mk st;
         no_imp := 0 |}
  | None => {| cur := cur st; cur_mk := cur_mk st; best := best st; best_mk := best_mk st;
               no_imp := S (no_imp st) |}
  end.

(* `it` = the value of `iteration` in the pass about to run *)
Fixpoint ls_loop (jobs : list job) (cb : option (nat -> bool)) (interval : Z)
    (fuel : nat) (it : nat) (st : ls_st) (orc : list nat) : option (ls_st * list nat) :=
  match fuel with
  | O => Some (st, orc)
  | S f =>
      match orc with
      | [] => None
      | mch :: orc' =>
          let ops := ops_on_machine jobs (Z.of_nat mch) in
          if (length ops <? 2)%nat then ls_loop jobs cb interval f (S it) st orc'     (* continue *)
          else
            match sort_ops (cur st) ops with
            | None => None
            | Some sorted =>
                match try_pairs jobs (cur st) (cur_mk st) sorted (seq 0 (length sorted - 1)) with
                | None => None
                | Some res =>
                    let st' := ls_step_state st res in
                    if (100 <=? no_imp st')%nat then Some (st', orc')                (* break *)
                    else if progress_stop cb interval it then Some (st', orc')       (* return *)
                    else ls_loop jobs cb interval f (S it) st' orc'
                end
            end
      end
  end.

(* ------------------------------------------------------------------ solve_job_shop *)
Inductive status := Optimal | Feasible.
Inductive outcome :=
| Ok (s : sched) (obj : Z) (st : status)
| ErrValue                  (* ValueError *)
| Fail.                     (* the model cannot follow (oracle exhausted / KeyError): never equal to a real run *)

Definition valid_jobs (jobs : list job) : bool :=
  forallb (fun jb : job => match jb with [] => false | _ => true end
                           && forallb (fun o : op => (0 <=? fst o) && (0 <=? snd o)) jb) jobs.

(* n_machines = max(n_machines, machine + 1) over all operations, from 0 *)
Definition n_machines (jobs : list job) : nat :=
  Z.to_nat (fold_left (fun acc (o : op) => Z.max acc (fst o + 1)) (concat jobs) 0).

(* the part after the validation loop *)
Definition solve_valid (jobs : list job) (rl : rule) (local_search : bool) (max_iter : Z)
    (cb : option (nat -> bool)) (interval : Z) (orc : list nat) : outcome * list nat :=
  match dispatch jobs (n_machines jobs) rl orc with
  | None => (Fail, orc)
  | Some (s0, orc1) =>
      let mk0 := makespan s0 in
      if negb local_search then (Ok s0 mk0 Feasible, orc1)
      else
        match ls_loop jobs cb interval (Z.to_nat max_iter) 1
                {| cur := s0; cur_mk := mk0; best := s0; best_mk := mk0; no_imp := 0 |} orc1 with
        | None => (Fail, orc1)
        | Some (st, orc2) => (Ok (best st) (best_mk st) Feasible, orc2)
        end
  end.

Definition solve (jobs : list job) (rl : rule) (local_search : bool) (max_iter : Z)
    (cb : option (nat -> bool)) (interval : Z) (orc : list nat) : outcome * list nat :=
  match jobs with
  | [] => (Ok [] 0 Optimal, orc)
  | _ :: _ =>
      if negb (valid_jobs jobs) then (ErrValue, orc)
      else match rl with
           | BadRule => (ErrValue, orc)   (* every job is non-empty, so the first dispatch pass reaches the raise *)
           | _ => solve_valid jobs rl local_search max_iter cb interval orc
           end
  end.

(* ------------------------------------------------------------------ observables for the correspondence *)
Definition zz_eqb (a b : Z * Z) : bool := (fst a =? fst b) && (snd a =? snd b).

Fixpoint sched_eqb (a b : sched) : bool :=
  match a, b with
  | [], [] => true
  | (k1, v1) :: r1, (k2, v2) :: r2 => opid_eqb k1 k2 && zz_eqb v1 v2 && sched_eqb r1 r2
  | _, _ => false
  end.

(* the schedule as the list of its values in all_ops order (None = key absent) + its number of keys *)
Definition canon (jobs : list job) (s : sched) : list (option (Z * Z)) * nat :=
  (map (fun id => lookup id s) (all_ops jobs), length s).

Fixpoint optzz_list_eqb (a b : list (option (Z * Z))) : bool :=
  match a, b with
  | [], [] => true
  | Some x :: r1, Some y :: r2 => zz_eqb x y && optzz_list_eqb r1 r2
  | None :: r1, None :: r2 => optzz_list_eqb r1 r2
  | _, _ => false
  end.

Definition status_eqb (a b : status) : bool :=
  match a, b with Optimal, Optimal | Feasible, Feasible => true | _, _ => false end.

(* implementation observable: IOk (schedule sorted by key) objective status | IErrValue | IOther *)
Inductive iobs := IOk (s : sched) (obj : Z) (st : status) | IErrValue | IOther.

Definition obs_eqb (jobs : list job) (m : outcome * list nat) (i : iobs) : bool :=
  match fst m, i with
  | Ok s obj st, IOk s' obj' st' =>
      optzz_list_eqb (fst (canon jobs s)) (fst (canon jobs s')) && Nat.eqb (length s) (length s')
      && (obj =? obj') && status_eqb st st'
      && match snd m with [] => true | _ => false end      (* every recorded random answer was consumed *)
  | ErrValue, IErrValue => true
  | _, _ => false
  end.

(* ------------------------------------------------------------------ entry points used by the generated case files *)
(* (jobs, rule, local_search, max_iter, call-back threshold K (on_progress = lambda p: p.iteration >= K), progress_interval,
    recorded random answers, implementation observable) *)
Definition jcase := (list job * rule * bool * Z * option nat * Z * list nat * iobs)%type.

Definition run_case (c : jcase) : outcome * list nat :=
  let '(jobs, rl, ls, mi, k, iv, orc, _) := c in
  solve jobs rl ls mi (option_map (fun k it => (k <=? it)%nat) k) iv orc.

Definition corr_chk (c : jcase) : bool :=
  let '(jobs, _, _, _, _, _, _, o) := c in obs_eqb jobs (run_case c) o.
