(* List lemmas for the VRPTW proofs: upd, ins, strip, union_u, remove_u, place_routes. *)
From Coq Require Import List ZArith Bool Arith Lia Permutation.
From SV Require Import C18.Vrp C18.VrpSpec.
Import ListNotations.

(* ------------------------------------------------------------------ upd *)
Lemma upd_length {A} (f : A -> A) l : forall v, length (upd v f l) = length l.
Proof.
  induction l as [|x xs IH]; intros v; simpl; [reflexivity|].
  destruct v; simpl; [reflexivity | rewrite IH; reflexivity].
Qed.

Lemma nth_upd_same {A} (f : A -> A) d l : forall v, (v < length l)%nat -> nth v (upd v f l) d = f (nth v l d).
Proof.
  induction l as [|x xs IH]; intros v Hv; simpl in *; [lia|].
  destruct v; simpl; [reflexivity | apply IH; lia].
Qed.

Lemma nth_upd_other {A} (f : A -> A) d l : forall v v', v' <> v -> nth v' (upd v f l) d = nth v' l d.
Proof.
  induction l as [|x xs IH]; intros v v' Hne; simpl; [reflexivity|].
  destruct v, v'; simpl; try reflexivity; try (exfalso; apply Hne; reflexivity).
  apply IH. intros E. apply Hne. f_equal. exact E.
Qed.

Lemma upd_overflow {A} (f : A -> A) l : forall v, (length l <= v)%nat -> upd v f l = l.
Proof.
  induction l as [|x xs IH]; intros v Hv; simpl in *; [reflexivity|].
  destruct v; [lia|]. rewrite IH by lia. reflexivity.
Qed.

(* refreshing entry v of `map g l` with g of the new entry v = mapping g over the updated list *)
Lemma map_upd {A B} (g : A -> B) (h : A -> A) (d : A) l : forall v,
  (v < length l)%nat ->
  upd v (fun _ => g (nth v (upd v h l) d)) (map g l) = map g (upd v h l).
Proof.
  induction l as [|x xs IH]; intros v Hv; simpl in *; [lia|].
  destruct v; simpl; [reflexivity|]. f_equal. apply IH. lia.
Qed.

(* ------------------------------------------------------------------ ins *)
Lemma ins_perm p c r : Permutation (c :: r) (ins p c r).
Proof.
  unfold ins. rewrite <- (firstn_skipn p r) at 1. apply Permutation_middle.
Qed.

Lemma In_ins p c r x : In x (ins p c r) <-> x = c \/ In x r.
Proof.
  split.
  - intros H. apply (Permutation_in _ (Permutation_sym (ins_perm p c r))) in H. simpl in H.
    destruct H as [H|H]; [left; symmetry; exact H | right; exact H].
  - intros H. apply (Permutation_in _ (ins_perm p c r)). simpl.
    destruct H as [H|H]; [left; symmetry; exact H | right; exact H].
Qed.

Lemma NoDup_ins p c r : NoDup r -> ~ In c r -> NoDup (ins p c r).
Proof.
  intros Hn Hc. apply (Permutation_NoDup (ins_perm p c r)). constructor; assumption.
Qed.

(* ------------------------------------------------------------------ strip / union_u / remove_u *)
Lemma In_strip S r x : In x (strip S r) <-> In x r /\ ~ In x S.
Proof.
  unfold strip. rewrite filter_In, negb_true_iff, memb_false. reflexivity.
Qed.

Lemma NoDup_strip S r : NoDup r -> NoDup (strip S r).
Proof. apply NoDup_filter. Qed.

Lemma nth_map_strip S rs v : nth v (map (strip S) rs) [] = strip S (nth v rs []).
Proof. change (@nil nat) with (strip S []) at 1. apply map_nth. Qed.

Lemma In_union_u u S x : In x (union_u u S) <-> In x u \/ In x S.
Proof.
  unfold union_u. rewrite in_app_iff, filter_In, nodup_In, negb_true_iff, memb_false.
  destruct (in_dec Nat.eq_dec x u) as [Hi|Hn]; tauto.
Qed.

Lemma NoDup_app_disj {A} (a b : list A) :
  NoDup a -> NoDup b -> (forall x, In x a -> ~ In x b) -> NoDup (a ++ b).
Proof.
  induction a as [|x xs IH]; intros Ha Hb Hd; simpl; [exact Hb|].
  inversion Ha as [|y ys Hx Hxs]; subst. constructor.
  - rewrite in_app_iff. intros [H|H]; [exact (Hx H) | exact (Hd x (or_introl eq_refl) H)].
  - apply IH; [exact Hxs | exact Hb | intros z Hz; apply Hd; right; exact Hz].
Qed.

Lemma NoDup_union_u u S : NoDup u -> NoDup (union_u u S).
Proof.
  intros Hu. unfold union_u. apply NoDup_app_disj.
  - exact Hu.
  - apply NoDup_filter. apply NoDup_nodup.
  - intros x Hx Hf. apply filter_In in Hf. destruct Hf as [_ Hf].
    apply negb_true_iff, memb_false in Hf. exact (Hf Hx).
Qed.

Lemma In_remove_u c u x : In x (remove_u c u) <-> In x u /\ x <> c.
Proof.
  unfold remove_u. rewrite filter_In, negb_true_iff, Nat.eqb_neq. reflexivity.
Qed.

Lemma NoDup_remove_u c u : NoDup u -> NoDup (remove_u c u).
Proof. apply NoDup_filter. Qed.

Lemma subsetb_spec a b : subsetb a b = true <-> forall x, In x a -> In x b.
Proof.
  unfold subsetb. rewrite forallb_forall. split; intros H x Hx.
  - apply memb_In. exact (H x Hx).
  - apply memb_In. exact (H x Hx).
Qed.

(* ------------------------------------------------------------------ place_routes *)
Lemma place_routes_length c pl : forall rs, length (place_routes c pl rs) = length rs.
Proof.
  unfold place_routes. induction pl as [|[v p] pl IH]; intros rs; simpl; [reflexivity|].
  rewrite IH. apply upd_length.
Qed.

Fixpoint find_place (v : nat) (pl : list (nat * nat)) : option nat :=
  match pl with
  | [] => None
  | (v', p) :: rest => if Nat.eqb v' v then Some p else find_place v rest
  end.

Lemma find_place_none v pl : ~ In v (map fst pl) -> find_place v pl = None.
Proof.
  induction pl as [|[v' p] pl IH]; intros H; simpl in *; [reflexivity|].
  destruct (Nat.eqb_spec v' v) as [E|N]; [exfalso; apply H; left; exact E|].
  apply IH. intros Hin. apply H. right. exact Hin.
Qed.

Lemma find_place_some v pl p : find_place v pl = Some p -> In (v, p) pl.
Proof.
  induction pl as [|[v' p'] pl IH]; intros H; simpl in *; [discriminate|].
  destruct (Nat.eqb_spec v' v) as [E|N].
  - inversion H; subst. left. reflexivity.
  - right. apply IH. exact H.
Qed.

Lemma find_place_in v pl : In v (map fst pl) -> exists p, find_place v pl = Some p.
Proof.
  induction pl as [|[v' p'] pl IH]; intros H; simpl in *; [contradiction|].
  destruct (Nat.eqb_spec v' v) as [E|N]; [exists p'; reflexivity|].
  destruct H as [H|H]; [contradiction|]. apply IH. exact H.
Qed.

(* each route is either untouched or got the customer inserted once *)
Lemma place_routes_nth c pl : forall rs v,
  NoDup (map fst pl) ->
  nth v (place_routes c pl rs) [] =
    match find_place v pl with
    | Some p => if (v <? length rs)%nat then ins p c (nth v rs []) else nth v rs []
    | None => nth v rs []
    end.
Proof.
  unfold place_routes. induction pl as [|[v0 p0] pl IH]; intros rs v Hnd; simpl; [reflexivity|].
  simpl in Hnd. inversion Hnd as [|y ys Hv0 Hpl]; subst.
  rewrite IH by exact Hpl. rewrite upd_length.
  destruct (Nat.eqb_spec v0 v) as [E|N].
  - subst v. rewrite (find_place_none v0 pl Hv0).
    destruct (Nat.ltb_spec v0 (length rs)) as [Hlt|Hge].
    + apply nth_upd_same. exact Hlt.
    + rewrite upd_overflow by exact Hge. reflexivity.
  - rewrite nth_upd_other by (intros E; apply N; symmetry; exact E). reflexivity.
Qed.
