(* Invariant I is established by from_problem and preserved by each of the eight exported operators for every
   choice (oracle), hence by every operator sequence, by the ALNS loop and by solve_vrptw. *)
From Coq Require Import List ZArith Bool Arith Lia.
From SV Require Import C18.Vrp C18.VrpSpec C18.VrpLists C18.VrpProofs.
Import ListNotations.

(* the depot is an ordinary single-vehicle location (solve_vrptw builds it as Customer(0, x, y)) *)
Definition inst_ok (I : inst) : bool := (c_req (cget I 0) <=? 1)%nat.

(* ------------------------------------------------------------------ initial state *)
Lemma nth_repeat_nil {A} n v : nth v (repeat (@nil A) n) [] = [].
Proof.
  revert v. induction n as [|n IH]; intros v; simpl; destruct v; try reflexivity. apply IH.
Qed.

Lemma init_inv I : vrp_inv I (init_state I).
Proof.
  apply inv_of_parts.
  - constructor; unfold init_state; simpl.
    + apply repeat_length.
    + apply repeat_length.
    + apply seq_NoDup.
    + intros c Hc. apply valid_id_all_ids. exact Hc.
    + intros v c Hc. rewrite nth_repeat_nil in Hc. contradiction.
    + intros c v _ Hc. rewrite nth_repeat_nil in Hc. contradiction.
    + intros v. rewrite nth_repeat_nil. constructor.
    + intros c v1 v2 _ Hc. rewrite nth_repeat_nil in Hc. contradiction.
  - intros c Hv. left. unfold init_state; simpl. apply valid_id_all_ids in Hv. exact Hv.
  - unfold arrivals_ok, init_state; simpl. generalize (nveh I). intros n.
    induction n as [|n IH]; simpl; [reflexivity | f_equal; exact IH].
Qed.

(* ------------------------------------------------------------------ removal operators *)
Lemma assigned_valid I st : J I st -> forall x, In x (assigned st) -> valid_id I x = true.
Proof.
  intros HJ x Hx. unfold assigned in Hx. apply in_concat in Hx. destruct Hx as [r [Hr Hxr]].
  destruct (In_nth _ _ [] Hr) as [v [_ Hn]]. apply (j_rt_valid I st HJ v). rewrite Hn. exact Hxr.
Qed.

Lemma removal_from_assigned_inv I S st st' :
  vrp_inv I st -> removal_from_assigned I S st = Some st' -> vrp_inv I st'.
Proof.
  intros Hinv H. destruct (parts_of_inv I st Hinv) as [HJ [Hc _]].
  unfold removal_from_assigned in H. destruct (assigned st) as [|a rest] eqn:Ea.
  - inversion H; subst. exact Hinv.
  - destruct (subsetb S (a :: rest) && negb (length S =? 0)%nat) eqn:G; [|discriminate].
    inversion H; subst; clear H. apply andb_true_iff in G. destruct G as [G _].
    apply remove_set_inv; [exact HJ | exact Hc|].
    intros x Hx. apply (assigned_valid I st HJ). rewrite Ea. exact (proj1 (subsetb_spec _ _) G x Hx).
Qed.

Lemma route_removal_inv I vs st st' :
  vrp_inv I st -> route_removal I vs st = Some st' -> vrp_inv I st'.
Proof.
  intros Hinv H. destruct (parts_of_inv I st Hinv) as [HJ [Hc _]].
  unfold route_removal in H. destruct (non_empty_routes st) as [|a rest].
  - inversion H; subst. exact Hinv.
  - destruct (subsetb vs (a :: rest) && nodupb vs && negb (length vs =? 0)%nat); [|discriminate].
    inversion H; subst; clear H. apply remove_set_inv; [exact HJ | exact Hc|].
    intros x Hx. apply in_concat in Hx. destruct Hx as [r [Hr Hxr]].
    apply in_map_iff in Hr. destruct Hr as [v [Hv _]]. subst r.
    exact (j_rt_valid I st HJ v x Hxr).
Qed.

Lemma sync_removal_inv I t nb st st' :
  inst_ok I = true -> vrp_inv I st -> sync_removal I t nb st = Some st' -> vrp_inv I st'.
Proof.
  intros Hok Hinv H. destruct (parts_of_inv I st Hinv) as [HJ [Hc _]].
  unfold sync_removal in H. destruct (sync_customers I st) as [|a rest] eqn:Es.
  - exact (removal_from_assigned_inv I _ st st' Hinv H).
  - destruct (memb t (a :: rest) && subsetb nb (assigned st) && (length nb <=? 3)%nat) eqn:G; [|discriminate].
    inversion H; subst; clear H.
    apply andb_true_iff in G. destruct G as [G _]. apply andb_true_iff in G. destruct G as [Gt Gn].
    apply remove_set_inv; [exact HJ | exact Hc|].
    intros x [Hx|Hx].
    + subst x. apply memb_In in Gt. rewrite <- Es in Gt. unfold sync_customers in Gt.
      apply filter_In in Gt. destruct Gt as [Hseq Hreq]. apply andb_true_iff in Hreq. destruct Hreq as [Hreq _].
      apply Nat.ltb_lt in Hreq. apply in_seq in Hseq.
      unfold valid_id. apply andb_true_iff. split; [apply Nat.leb_le | apply Nat.ltb_lt; lia].
      destruct t as [|t']; [|lia]. unfold inst_ok in Hok. apply Nat.leb_le in Hok. lia.
    + apply (assigned_valid I st HJ). exact (proj1 (subsetb_spec _ _) Gn x Hx).
Qed.

(* ------------------------------------------------------------------ insertion operators *)
Lemma ins_events_inv I evs st st' :
  vrp_inv I st -> ins_events I evs st = Some st' -> vrp_inv I st'.
Proof.
  intros Hinv H. destruct (parts_of_inv I st Hinv) as [HJ [Hc Ha]].
  destruct (ins_events_J_ext I evs st st' HJ H) as [HJ' He].
  apply inv_of_parts; [exact HJ' | exact (covered_ext I st st' Hc He) | exact (ins_events_arrivals I evs st st' HJ Ha H)].
Qed.

Lemma sync_aware_insertion_inv I mevs evs st st' :
  vrp_inv I st -> sync_aware_insertion I mevs evs st = Some st' -> vrp_inv I st'.
Proof.
  intros Hinv H. destruct (parts_of_inv I st Hinv) as [HJ [Hc _]].
  unfold sync_aware_insertion in H.
  set (single := filter (fun c => (c_req (cget I c) =? 1)%nat) (unassigned st)) in *.
  destruct (multi_events I mevs st) as [st1|] eqn:E1; [|discriminate].
  destruct (multi_events_J_ext I mevs st st1 HJ E1) as [HJ1 [He1 Hk1]].
  set (s1 := mkSt (routes st1) single (arrivals st1)) in *.
  destruct (ins_events I evs s1) as [st2|] eqn:E2; [|discriminate].
  inversion H; subst; clear H.
  assert (Hc1 : covered I st1) by exact (covered_ext I st st1 Hc He1).
  assert (Hsingle_in : forall x, In x single -> In x (unassigned st1)).
  { intros x Hx. unfold single in Hx. apply filter_In in Hx. destruct Hx as [Hx Hr]. apply Nat.eqb_eq in Hr.
    apply Hk1; [exact Hx | lia]. }
  assert (HJs1 : J I s1).
  { constructor; unfold s1; simpl.
    - apply (j_shape_r I st1 HJ1).
    - apply (j_shape_a I st1 HJ1).
    - unfold single. apply NoDup_filter. apply (j_un_nodup I st HJ).
    - intros c Hcs. apply (j_un_valid I st1 HJ1). apply Hsingle_in. exact Hcs.
    - apply (j_rt_valid I st1 HJ1).
    - intros c v Hcs. apply (j_never_both I st1 HJ1). apply Hsingle_in. exact Hcs.
    - apply (j_no_repeat I st1 HJ1).
    - apply (j_single I st1 HJ1). }
  destruct (ins_events_J_ext I evs s1 st2 HJs1 E2) as [HJ2 He2].
  set (unplaced := filter (fun c => negb (memb c single)) (unassigned st1)) in *.
  assert (Hunpl : forall x, In x unplaced <-> In x (unassigned st1) /\ ~ In x single).
  { intros x. unfold unplaced. rewrite filter_In, negb_true_iff, memb_false. reflexivity. }
  apply inv_of_parts; [| |apply refresh_arrivals_ok].
  - constructor; unfold refresh; simpl.
    + apply (j_shape_r I st2 HJ2).
    + rewrite map_length. apply (j_shape_r I st2 HJ2).
    + apply NoDup_union_u. apply (j_un_nodup I st2 HJ2).
    + intros c Hcu. apply In_union_u in Hcu. destruct Hcu as [Hcu|Hcu].
      * exact (j_un_valid I st2 HJ2 c Hcu).
      * apply Hunpl in Hcu. exact (j_un_valid I st1 HJ1 c (proj1 Hcu)).
    + apply (j_rt_valid I st2 HJ2).
    + intros c v Hcu Hcr. apply In_union_u in Hcu. destruct Hcu as [Hcu|Hcu].
      * exact (j_never_both I st2 HJ2 c v Hcu Hcr).
      * apply Hunpl in Hcu. destruct Hcu as [Hu1 Hns].
        destruct (e_new s1 st2 He2 c v Hcr) as [Hold|[Hs _]].
        -- exact (j_never_both I st1 HJ1 c v Hu1 Hold).
        -- exact (Hns Hs).
    + apply (j_no_repeat I st2 HJ2).
    + apply (j_single I st2 HJ2).
  - intros c Hv. unfold refresh; simpl.
    destruct (in_dec Nat.eq_dec c (unassigned st1)) as [Hu1|Hn1].
    + destruct (in_dec Nat.eq_dec c single) as [Hs|Hns].
      * destruct (in_dec Nat.eq_dec c (unassigned st2)) as [Hu2|Hn2].
        -- left. apply In_union_u. left. exact Hu2.
        -- right. exact (e_placed s1 st2 He2 c Hs Hn2).
      * left. apply In_union_u. right. apply Hunpl. split; assumption.
    + destruct (Hc1 c Hv) as [Hu|[v Hon]]; [contradiction|].
      right. exists v. exact (e_mono s1 st2 He2 c v Hon).
Qed.

(* the two primitives, stated on the full invariant *)
Lemma remove_set_inv_full I S st :
  vrp_inv I st -> (forall x, In x S -> valid_id I x = true) -> vrp_inv I (remove_set I S st).
Proof.
  intros H HS. destruct (parts_of_inv I st H) as [HJ [Hc _]]. exact (remove_set_inv I S st HJ Hc HS).
Qed.

Lemma place_one_inv I c v pos st st' :
  vrp_inv I st -> place_one I c v pos st = Some st' -> vrp_inv I st'.
Proof.
  intros H E. apply (ins_events_inv I [(c, v, pos)] st st' H). simpl. rewrite E. reflexivity.
Qed.

(* ------------------------------------------------------------------ every operator, every operator sequence *)
Theorem apply_op_inv I o st st' :
  inst_ok I = true -> vrp_inv I st -> apply_op I o st = Some st' -> vrp_inv I st'.
Proof.
  intros Hok Hinv H. destruct o as [S|S|S|vs|t nb|evs|evs|mevs evs]; simpl in H.
  - exact (removal_from_assigned_inv I S st st' Hinv H).
  - exact (removal_from_assigned_inv I S st st' Hinv H).
  - exact (removal_from_assigned_inv I S st st' Hinv H).
  - exact (route_removal_inv I vs st st' Hinv H).
  - exact (sync_removal_inv I t nb st st' Hok Hinv H).
  - exact (ins_events_inv I evs st st' Hinv H).
  - exact (ins_events_inv I evs st st' Hinv H).
  - exact (sync_aware_insertion_inv I mevs evs st st' Hinv H).
Qed.

Theorem run_ops_inv I ops : forall st st',
  inst_ok I = true -> vrp_inv I st -> run_ops I ops st = Some st' -> vrp_inv I st'.
Proof.
  induction ops as [|o rest IH]; intros st st' Hok Hinv H; simpl in H.
  - inversion H; subst. exact Hinv.
  - destruct (apply_op I o st) as [s1|] eqn:E; [|discriminate].
    exact (IH s1 st' Hok (apply_op_inv I o st s1 Hok Hinv E) H).
Qed.

(* ------------------------------------------------------------------ ALNS and solve_vrptw *)
Definition alns_inv (W : weights) (I : inst) (a : alns_st) : Prop :=
  vrp_inv I (a_cur a) /\ vrp_inv I (a_best a) /\ a_best_obj a = objective W I (a_best a)
  /\ a_cur_obj a = objective W I (a_cur a).

Lemma mk_alns_inv W I cur co best bo :
  vrp_inv I cur -> vrp_inv I best -> bo = objective W I best -> co = objective W I cur ->
  alns_inv W I (mkA cur co best bo).
Proof. intros H1 H2 H3 H4. unfold alns_inv. simpl. tauto. Qed.

Lemma alns_loop_inv W I its : forall a a',
  inst_ok I = true -> alns_inv W I a -> alns_loop W I its a = Some a' -> alns_inv W I a'.
Proof.
  induction its as [|[[d r] acc] rest IH]; intros a a' Hok Ha H; simpl in H.
  - inversion H; subst. exact Ha.
  - destruct Ha as [Hcur [Hbest [Hbo Hco]]].
    destruct (apply_op I d (a_cur a)) as [partial|] eqn:Ed; [|discriminate].
    destruct (apply_op I r partial) as [cand|] eqn:Er; [|discriminate].
    assert (Hcand : vrp_inv I cand).
    { apply (apply_op_inv I r partial cand Hok); [|exact Er].
      exact (apply_op_inv I d (a_cur a) partial Hok Hcur Ed). }
    destruct (objective W I cand <? a_best_obj a)%Z.
    + eapply IH; [exact Hok | | exact H]. apply mk_alns_inv; solve [assumption | reflexivity].
    + destruct (objective W I cand <? a_cur_obj a)%Z.
      * eapply IH; [exact Hok | | exact H]. apply mk_alns_inv; solve [assumption | reflexivity].
      * destruct acc.
        -- eapply IH; [exact Hok | | exact H]. apply mk_alns_inv; solve [assumption | reflexivity].
        -- eapply IH; [exact Hok | | exact H]. unfold alns_inv. tauto.
Qed.

Theorem solve_inv W I evs0 its st obj :
  inst_ok I = true -> solve W I evs0 its = Some (st, obj) ->
  vrp_inv I st /\ obj = objective W I st.
Proof.
  intros Hok H. unfold solve in H.
  destruct (ins_events I evs0 (init_state I)) as [s0|] eqn:E0; [|discriminate].
  assert (H0 : vrp_inv I s0) by exact (ins_events_inv I evs0 _ s0 (init_inv I) E0).
  destruct (alns_loop W I its _) as [a|] eqn:Ea; [|discriminate].
  inversion H; subst; clear H.
  assert (Hi : alns_inv W I (mkA s0 (objective W I s0) s0 (objective W I s0))).
  { apply mk_alns_inv; solve [assumption | reflexivity]. }
  destruct (alns_loop_inv W I its _ a Hok Hi Ea) as [_ [Hb [Hbo _]]].
  split; [exact Hb | exact Hbo].
Qed.

(* ------------------------------------------------------------------ guards are satisfiable: the operators do not fail
   on choices of the kind the code makes *)
Lemma removal_total I S st :
  subsetb S (assigned st) = true -> S <> [] -> exists st', removal_from_assigned I S st = Some st'.
Proof.
  intros Hs Hne. unfold removal_from_assigned. destruct (assigned st) as [|a rest] eqn:Ea.
  - eexists. reflexivity.
  - rewrite Hs. destruct S; [contradiction Hne; reflexivity|]. simpl. eexists. reflexivity.
Qed.

Lemma ins_events_nil I st : ins_events I [] st = Some st.
Proof. reflexivity. Qed.
