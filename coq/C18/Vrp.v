(* Model of the VRPTW part of solvor/vrp.py and of the ALNS driver solvor/lns.py:alns (definitions only).

   Shape O (oracle-parametrised).  What the operators DO to a state is modelled as in the code, through two
   primitives:
     remove_set  - the four lines shared by all five removal operators
                     for v: routes[v] = [c for c in routes[v] if c not in to_remove]
                     unassigned.update(to_remove); update_arrival_times()
     place_one / place_multi - `routes[v].insert(pos, cid)` (on one vehicle: greedy_insertion, regret_insertion,
                   followed by `arrival_times[v] = compute_arrival_times(v)`; on required_vehicles vehicles at once:
                   sync_aware_insertion, which refreshes arrival times only at its end), `unassigned.remove(cid)`.
   WHICH customers an operator removes and WHERE it inserts (rng.sample / rng.choice / rng.random answers, cost
   ranking of worst_removal, nearest neighbours of related_removal / sync_removal, cheapest feasible position of
   _insertion_cost, regret order, set iteration order) is the oracle: each operator takes its choices as an argument
   recorded from the real run, and CHECKS the guards the code establishes for them (removed customers come from the
   routes, an inserted customer comes from `unassigned`, ...).  A choice that fails its guard gives `None` (an explicit
   failure value, never a state).

   Numbers: distances, time windows, service times, demands are Z (the harness feeds instances whose Euclidean
   distances are integers, so every float operation of the code is exact); `inf` (default tw_end, default capacity)
   is `None`.  Customer ids are indices into the customer list; index 0 is the depot (as solve_vrptw builds it). *)
From Coq Require Import List ZArith Bool Arith Lia.
Import ListNotations.
Open Scope Z_scope.

(* ------------------------------------------------------------------ instance *)
Record cust := mkCust {
  c_dem : Z;            (* demand *)
  c_tws : Z;            (* tw_start *)
  c_twe : option Z;     (* tw_end, None = inf *)
  c_svc : Z;            (* service_time *)
  c_req : nat           (* required_vehicles *)
}.

Record inst := mkInst {
  custs : list cust;          (* index = customer id, entry 0 = depot *)
  dmat : list (list Z);       (* VRPState._dist *)
  caps : list (option Z)      (* vehicle capacities (None = inf); length = number of vehicles *)
}.

Definition depot_cust : cust := mkCust 0 0 None 0 1.
Definition cget (I : inst) (c : nat) : cust := nth c (custs I) depot_cust.
Definition dist (I : inst) (i j : nat) : Z := nth j (nth i (dmat I) []) 0.
Definition nveh (I : inst) : nat := length (caps I).
Definition ncust (I : inst) : nat := length (custs I).
(* a customer id that may sit on a route / in unassigned: 1 .. n *)
Definition valid_id (I : inst) (c : nat) : bool := (1 <=? c)%nat && (c <? ncust I)%nat.

(* ------------------------------------------------------------------ state *)
Record vstate := mkSt {
  routes : list (list nat);
  unassigned : list nat;       (* a Python set: duplicate-free list, order irrelevant *)
  arrivals : list (list Z)
}.

Definition memb (c : nat) (l : list nat) : bool := existsb (Nat.eqb c) l.

(* compute_arrival_times: leave the depot at 0; arrival = max(previous departure + travel, tw_start);
   departure = arrival + service_time.  `t` is the departure time from `prev`. *)
Fixpoint arrive (I : inst) (prev : nat) (t : Z) (route : list nat) : list Z :=
  match route with
  | [] => []
  | c :: rest =>
      let a := Z.max (t + dist I prev c) (c_tws (cget I c)) in
      a :: arrive I c (a + c_svc (cget I c)) rest
  end.
Definition compute_arrivals (I : inst) (route : list nat) : list Z := arrive I 0%nat 0 route.

(* update_arrival_times *)
Definition refresh (I : inst) (st : vstate) : vstate :=
  mkSt (routes st) (unassigned st) (map (compute_arrivals I) (routes st)).

(* VRPState.from_problem *)
Definition init_state (I : inst) : vstate :=
  mkSt (repeat [] (nveh I)) (seq 1 (ncust I - 1)) (repeat [] (nveh I)).

(* ------------------------------------------------------------------ primitive 1: remove_set *)
Definition strip (S : list nat) (r : list nat) : list nat := filter (fun c => negb (memb c S)) r.
(* set.update *)
Definition union_u (u S : list nat) : list nat :=
  u ++ filter (fun c => negb (memb c u)) (nodup Nat.eq_dec S).

Definition remove_set (I : inst) (S : list nat) (st : vstate) : vstate :=
  refresh I (mkSt (map (strip S) (routes st)) (union_u (unassigned st) S) (arrivals st)).

(* ------------------------------------------------------------------ primitive 2: insertion *)
Fixpoint upd {A} (v : nat) (f : A -> A) (l : list A) {struct l} : list A :=
  match l, v with
  | [], _ => []
  | x :: xs, O => f x :: xs
  | x :: xs, S v' => x :: upd v' f xs
  end.

(* list.insert(pos, c) *)
Definition ins (pos c : nat) (r : list nat) : list nat := firstn pos r ++ c :: skipn pos r.
(* set.remove *)
Definition remove_u (c : nat) (u : list nat) : list nat := filter (fun x => negb (Nat.eqb x c)) u.

Fixpoint nodupb (l : list nat) : bool :=
  match l with
  | [] => true
  | x :: r => negb (memb x r) && nodupb r
  end.

Definition place_routes (c : nat) (places : list (nat * nat)) (rs : list (list nat)) : list (list nat) :=
  fold_left (fun acc vp => upd (fst vp) (ins (snd vp) c) acc) places rs.

(* guards every insertion of the code establishes: the customer is taken from `unassigned`; the vehicles are
   distinct existing vehicles; the position is inside the route; a single-vehicle customer gets one vehicle *)
Definition place_guard (I : inst) (c : nat) (places : list (nat * nat)) (st : vstate) : bool :=
  memb c (unassigned st)
  && negb (length places =? 0)%nat
  && nodupb (map fst places)
  && forallb (fun vp => (fst vp <? length (routes st))%nat
                        && (snd vp <=? length (nth (fst vp) (routes st) []))%nat) places
  && ((1 <? c_req (cget I c))%nat || (length places =? 1)%nat).

(* greedy_insertion / regret_insertion step: routes[v].insert(pos, cid); unassigned.remove(cid);
   arrival_times[v] = compute_arrival_times(v) *)
Definition place_one (I : inst) (c v pos : nat) (st : vstate) : option vstate :=
  if place_guard I c [(v, pos)] st then
    let rs := place_routes c [(v, pos)] (routes st) in
    Some (mkSt rs (remove_u c (unassigned st))
               (upd v (fun _ => compute_arrivals I (nth v rs [])) (arrivals st)))
  else None.

(* sync_aware_insertion, one multi-resource customer: inserted on required_vehicles distinct vehicles,
   unassigned.remove(cid); arrival times are NOT refreshed here *)
Definition place_multi (I : inst) (c : nat) (places : list (nat * nat)) (st : vstate) : option vstate :=
  if place_guard I c places st && (1 <? c_req (cget I c))%nat && (length places =? c_req (cget I c))%nat then
    Some (mkSt (place_routes c places (routes st)) (remove_u c (unassigned st)) (arrivals st))
  else None.

(* a sequence of single insertions (the loops of greedy_insertion / regret_insertion): (customer, vehicle, pos) *)
Fixpoint ins_events (I : inst) (evs : list (nat * nat * nat)) (st : vstate) : option vstate :=
  match evs with
  | [] => Some st
  | (c, v, pos) :: rest =>
      match place_one I c v pos st with
      | Some st' => ins_events I rest st'
      | None => None
      end
  end.

Fixpoint multi_events (I : inst) (mevs : list (nat * list (nat * nat))) (st : vstate) : option vstate :=
  match mevs with
  | [] => Some st
  | (c, places) :: rest =>
      match place_multi I c places st with
      | Some st' => multi_events I rest st'
      | None => None
      end
  end.

(* ------------------------------------------------------------------ the eight exported operators *)
Definition assigned (st : vstate) : list nat := concat (routes st).
Definition subsetb (a b : list nat) : bool := forallb (fun c => memb c b) a.

(* random_removal / worst_removal / related_removal: `if not assigned: return state`; to_remove is a non-empty
   set of customers taken from the routes (rng.sample(assigned, k >= 1); pops from the ranked candidate list;
   seed = rng.choice(assigned) plus its nearest assigned customers) *)
Definition removal_from_assigned (I : inst) (S : list nat) (st : vstate) : option vstate :=
  match assigned st with
  | [] => Some st
  | _ => if subsetb S (assigned st) && negb (length S =? 0)%nat then Some (remove_set I S st) else None
  end.

(* route_removal: vehicles sampled among the non-empty routes; everything on them is removed from EVERY route *)
Definition non_empty_routes (st : vstate) : list nat :=
  filter (fun v => negb (length (nth v (routes st) []) =? 0)%nat) (seq 0 (length (routes st))).

Definition route_removal (I : inst) (vs : list nat) (st : vstate) : option vstate :=
  match non_empty_routes st with
  | [] => Some st
  | ne => if subsetb vs ne && nodupb vs && negb (length vs =? 0)%nat
          then Some (remove_set I (concat (map (fun v => nth v (routes st) []) vs)) st)
          else None
  end.

(* sync_removal: target = rng.choice(multi-resource customers not in unassigned) plus up to 3 nearest assigned
   customers; without such a customer it IS random_removal *)
Definition sync_customers (I : inst) (st : vstate) : list nat :=
  filter (fun c => (1 <? c_req (cget I c))%nat && negb (memb c (unassigned st))) (seq 0 (ncust I)).

Definition sync_removal (I : inst) (target : nat) (nearby : list nat) (st : vstate) : option vstate :=
  match sync_customers I st with
  | [] => removal_from_assigned I (target :: nearby) st
  | sc => if memb target sc && subsetb nearby (assigned st) && (length nearby <=? 3)%nat
          then Some (remove_set I (target :: nearby) st) else None
  end.

(* sync_aware_insertion *)
Definition sync_aware_insertion (I : inst) (mevs : list (nat * list (nat * nat))) (evs : list (nat * nat * nat))
    (st : vstate) : option vstate :=
  let single := filter (fun c => (c_req (cget I c) =? 1)%nat) (unassigned st) in
  match multi_events I mevs st with
  | None => None
  | Some st1 =>
      let unplaced := filter (fun c => negb (memb c single)) (unassigned st1) in
      match ins_events I evs (mkSt (routes st1) single (arrivals st1)) with
      | None => None
      | Some st2 => Some (refresh I (mkSt (routes st2) (union_u (unassigned st2) unplaced) (arrivals st2)))
      end
  end.

Inductive op :=
| RandomRemoval (rem : list nat)
| WorstRemoval (rem : list nat)
| RelatedRemoval (rem : list nat)
| RouteRemoval (vs : list nat)
| SyncRemoval (target : nat) (nearby : list nat)
| GreedyInsertion (evs : list (nat * nat * nat))
| RegretInsertion (evs : list (nat * nat * nat))
| SyncAwareInsertion (mevs : list (nat * list (nat * nat))) (evs : list (nat * nat * nat)).

Definition apply_op (I : inst) (o : op) (st : vstate) : option vstate :=
  match o with
  | RandomRemoval rem | WorstRemoval rem | RelatedRemoval rem => removal_from_assigned I rem st
  | RouteRemoval vs => route_removal I vs st
  | SyncRemoval t nb => sync_removal I t nb st
  | GreedyInsertion evs | RegretInsertion evs => ins_events I evs st
  | SyncAwareInsertion mevs evs => sync_aware_insertion I mevs evs st
  end.

Fixpoint run_ops (I : inst) (ops : list op) (st : vstate) : option vstate :=
  match ops with
  | [] => Some st
  | o :: rest => match apply_op I o st with Some st' => run_ops I rest st' | None => None end
  end.

(* ------------------------------------------------------------------ vrp_objective *)
Record weights := mkW { w_dist : Z; w_veh : Z; w_tw : Z; w_cap : Z; w_sync : Z; w_un : Z }.
Definition default_weights : weights := mkW 1 0 1000 1000 10000 100000.

Fixpoint path_len (I : inst) (prev : nat) (r : list nat) : Z :=
  match r with
  | [] => dist I prev 0
  | c :: rest => dist I prev c + path_len I c rest
  end.
Definition route_distance (I : inst) (r : list nat) : Z :=
  match r with [] => 0 | _ => path_len I 0%nat r end.
Definition zsum (l : list Z) : Z := fold_right Z.add 0 l.
(* total_distance: `for v in range(len(self.vehicles))` *)
Definition total_distance (I : inst) (st : vstate) : Z :=
  zsum (map (route_distance I) (firstn (nveh I) (routes st))).
Definition vehicles_used (st : vstate) : Z :=
  Z.of_nat (length (filter (fun r => negb (length r =? 0)%nat) (routes st))).

Definition late (I : inst) (ca : nat * Z) : Z :=
  match c_twe (cget I (fst ca)) with
  | Some e => if e <? snd ca then snd ca - e else 0
  | None => 0
  end.
(* time_window_violation: reads the STORED arrival times (`if i < len(self.arrival_times[v])`) *)
Definition tw_violation (I : inst) (st : vstate) : Z :=
  zsum (map (fun ra => zsum (map (late I) (combine (fst ra) (snd ra)))) (combine (routes st) (arrivals st))).

Definition route_load (I : inst) (r : list nat) : Z := zsum (map (fun c => c_dem (cget I c)) r).
Definition over (I : inst) (cr : option Z * list nat) : Z :=
  match fst cr with
  | Some cap => if cap <? route_load I (snd cr) then route_load I (snd cr) - cap else 0
  | None => 0
  end.
Definition cap_violation (I : inst) (st : vstate) : Z :=
  zsum (map (over I) (combine (caps I) (routes st))).

(* route.index(cid) *)
Fixpoint index_of (c : nat) (r : list nat) : nat :=
  match r with
  | [] => 0
  | x :: xs => if Nat.eqb x c then 0 else S (index_of c xs)
  end.
(* (v, arrival) pairs of sync_violation, arrival only *)
Definition visit_times (c : nat) (st : vstate) : list Z :=
  flat_map (fun ra => if memb c (fst ra)
                      then match nth_error (snd ra) (index_of c (fst ra)) with Some t => [t] | None => [] end
                      else []) (combine (routes st) (arrivals st)).
Definition zmax_list (l : list Z) : Z := match l with [] => 0 | x :: r => fold_left Z.max r x end.
Definition zmin_list (l : list Z) : Z := match l with [] => 0 | x :: r => fold_left Z.min r x end.
Definition sync_term (I : inst) (st : vstate) (c : nat) : Z :=
  let req := c_req (cget I c) in
  if (req <=? 1)%nat then 0
  else let ts := visit_times c st in
       if (length ts <? req)%nat then Z.of_nat (req - length ts) * 1000
       else if (1 <? length ts)%nat then zmax_list ts - zmin_list ts else 0.
Definition sync_violation (I : inst) (st : vstate) : Z :=
  zsum (map (sync_term I st) (seq 0 (ncust I))).

Definition objective (W : weights) (I : inst) (st : vstate) : Z :=
  w_dist W * total_distance I st
  + w_veh W * vehicles_used st
  + w_tw W * tw_violation I st
  + w_cap W * cap_violation I st
  + w_sync W * sync_violation I st
  + w_un W * Z.of_nat (length (unassigned st)).

(* ------------------------------------------------------------------ alns (solvor/lns.py), as driven by solve_vrptw *)
(* one iteration = (destroy operator with its choices, repair operator with its choices, answer of the
   acceptance function when the candidate is neither a new best nor better than the current state).
   The list holds the iterations that were run (max_iter, max_no_improve and on_progress only cut it short). *)
Record alns_st := mkA { a_cur : vstate; a_cur_obj : Z; a_best : vstate; a_best_obj : Z }.

Fixpoint alns_loop (W : weights) (I : inst) (its : list (op * op * bool)) (a : alns_st) : option alns_st :=
  match its with
  | [] => Some a
  | (d, r, acc) :: rest =>
      match apply_op I d (a_cur a) with
      | None => None
      | Some partial =>
          match apply_op I r partial with
          | None => None
          | Some cand =>
              let co := objective W I cand in
              if co <? a_best_obj a then alns_loop W I rest (mkA cand co cand co)
              else if co <? a_cur_obj a then alns_loop W I rest (mkA cand co (a_best a) (a_best_obj a))
              else if acc then alns_loop W I rest (mkA cand co (a_best a) (a_best_obj a))
              else alns_loop W I rest a
          end
      end
  end.

(* solve_vrptw: initial = greedy_insertion(from_problem(...)); result = (best state, its objective) *)
Definition solve (W : weights) (I : inst) (evs0 : list (nat * nat * nat)) (its : list (op * op * bool))
    : option (vstate * Z) :=
  match ins_events I evs0 (init_state I) with
  | None => None
  | Some s0 =>
      let o0 := objective W I s0 in
      match alns_loop W I its (mkA s0 o0 s0 o0) with
      | None => None
      | Some a => Some (a_best a, a_best_obj a)
      end
  end.

(* ------------------------------------------------------------------ the PINNED route_removal (before fix 3c6011c) *)
(*   for v in to_remove_vehicles: unassigned.update(routes[v]); routes[v] = []; arrival_times[v] = []   *)
Definition route_removal_pinned (I : inst) (vs : list nat) (st : vstate) : option vstate :=
  match non_empty_routes st with
  | [] => Some st
  | ne => if subsetb vs ne && nodupb vs && negb (length vs =? 0)%nat
          then Some (fold_left (fun s v => mkSt (upd v (fun _ => []) (routes s))
                                                (union_u (unassigned s) (nth v (routes s) []))
                                                (upd v (fun _ => []) (arrivals s))) vs st)
          else None
  end.

(* ------------------------------------------------------------------ observables for the correspondence *)
Definition list_nat_eqb (a b : list nat) : bool := (length a =? length b)%nat && forallb (fun p => Nat.eqb (fst p) (snd p)) (combine a b).
Definition list_z_eqb (a b : list Z) : bool := (length a =? length b)%nat && forallb (fun p => Z.eqb (fst p) (snd p)) (combine a b).
Definition ll_nat_eqb (a b : list (list nat)) : bool := (length a =? length b)%nat && forallb (fun p => list_nat_eqb (fst p) (snd p)) (combine a b).
Definition ll_z_eqb (a b : list (list Z)) : bool := (length a =? length b)%nat && forallb (fun p => list_z_eqb (fst p) (snd p)) (combine a b).
(* unassigned is a set: same elements, same cardinality *)
Definition set_eqb (a b : list nat) : bool := (length a =? length b)%nat && subsetb a b && subsetb b a.
Definition st_eqb (a b : vstate) : bool :=
  ll_nat_eqb (routes a) (routes b) && set_eqb (unassigned a) (unassigned b) && ll_z_eqb (arrivals a) (arrivals b).

(* operator sequence: after every operator the model's state equals the implementation's *)
Fixpoint trace_ok (I : inst) (steps : list (op * vstate)) (st : vstate) : bool :=
  match steps with
  | [] => true
  | (o, expect) :: rest =>
      match apply_op I o st with
      | Some st' => st_eqb st' expect && trace_ok I rest expect
      | None => false
      end
  end.
Definition trace_case : Type := inst * vstate * list (op * vstate).
Definition trace_chk (c : trace_case) : bool := trace_ok (fst (fst c)) (snd c) (snd (fst c)).

(* solve_vrptw end to end: result state and objective *)
Definition solve_case : Type := weights * inst * list (nat * nat * nat) * list (op * op * bool) * vstate * Z.
Definition solve_chk (c : solve_case) : bool :=
  match c with
  | (W, ins0, evs0, its, st, obj) =>
      match solve W ins0 evs0 its with
      | Some (s, o) => st_eqb s st && (o =? obj)
      | None => false
      end
  end.
