(* Specification of property C18 (job-shop part): what a valid, honestly scored schedule is, as a Prop and
   as a boolean checker proved sound (so that coqc can judge the IMPLEMENTATION's outputs with the same
   definition, independently of the model). *)
From Coq Require Import List ZArith Bool Arith Lia.
From SV Require Import C18.JobShop.
Import ListNotations.
Open Scope Z_scope.

(* two operations overlap when their OPEN intervals intersect (a zero-length operation overlaps nothing) *)
Definition overlap (s1 e1 s2 e2 : Z) : Prop := Z.max s1 s2 < Z.min e1 e2.

Record valid_schedule (jobs : list job) (s : sched) : Prop := {
  (* every operation exactly once *)
  vs_nodup : NoDup (map fst s);
  vs_complete : forall id, In id (map fst s) <-> In id (all_ops jobs);
  (* end - start = duration *)
  vs_dur : forall id st en, In (id, (st, en)) s ->
             exists m d, op_at jobs id = Some (m, d) /\ en - st = d;
  (* operations of a job in order, without overlap *)
  vs_job : forall j k k' s1 e1 s2 e2, In ((j, k), (s1, e1)) s -> In ((j, k'), (s2, e2)) s ->
             (k < k')%nat -> e1 <= s2;
  (* no two operations overlap on a machine *)
  vs_mach : forall id1 id2 s1 e1 s2 e2 m d1 d2, In (id1, (s1, e1)) s -> In (id2, (s2, e2)) s ->
             id1 <> id2 -> op_at jobs id1 = Some (m, d1) -> op_at jobs id2 = Some (m, d2) ->
             ~ overlap s1 e1 s2 e2
}.

(* objective = latest end time (0 for the empty schedule) *)
Definition is_makespan (s : sched) (obj : Z) : Prop :=
  (s = [] /\ obj = 0) \/
  ((exists id st, In (id, (st, obj)) s) /\ forall id st en, In (id, (st, en)) s -> en <= obj).

Definition status_sane (jobs : list job) (st : status) : Prop :=
  match st with Feasible => jobs <> [] | Optimal => jobs = [] end.

Definition js_spec (jobs : list job) (s : sched) (obj : Z) (st : status) : Prop :=
  valid_schedule jobs s /\ is_makespan s obj /\ status_sane jobs st.

(* ------------------------------------------------------------------ boolean checker *)
Definition mem_opid (id : opid) (l : list opid) : bool := existsb (opid_eqb id) l.

Fixpoint nodupb (l : list opid) : bool :=
  match l with
  | [] => true
  | x :: r => negb (mem_opid x r) && nodupb r
  end.

Definition entry_ok (jobs : list job) (e : opid * (Z * Z)) : bool :=
  match op_at jobs (fst e) with
  | Some (_, d) => snd (snd e) - fst (snd e) =? d
  | None => false
  end.

Definition job_ok (e1 e2 : opid * (Z * Z)) : bool :=
  if ((fst (fst e1) =? fst (fst e2)) && (snd (fst e1) <? snd (fst e2)))%nat
  then snd (snd e1) <=? fst (snd e2) else true.

Definition mach_ok (jobs : list job) (e1 e2 : opid * (Z * Z)) : bool :=
  if opid_eqb (fst e1) (fst e2) then true
  else match op_at jobs (fst e1), op_at jobs (fst e2) with
       | Some (m1, _), Some (m2, _) =>
           if m1 =? m2
           then negb (Z.max (fst (snd e1)) (fst (snd e2)) <? Z.min (snd (snd e1)) (snd (snd e2)))
           else true
       | _, _ => true
       end.

Definition all_pairs {A} (f : A -> A -> bool) (l : list A) : bool :=
  forallb (fun a => forallb (f a) l) l.

Definition valid_check (jobs : list job) (s : sched) : bool :=
  let keys := map fst s in
  nodupb keys
  && forallb (fun id => mem_opid id keys) (all_ops jobs)
  && forallb (fun id => mem_opid id (all_ops jobs)) keys
  && forallb (entry_ok jobs) s
  && all_pairs job_ok s
  && all_pairs (mach_ok jobs) s.

Definition makespan_check (s : sched) (obj : Z) : bool :=
  match s with
  | [] => obj =? 0
  | _ => existsb (fun e => snd (snd e) =? obj) s && forallb (fun e => snd (snd e) <=? obj) s
  end.

Definition status_check (jobs : list job) (st : status) : bool :=
  match st, jobs with
  | Feasible, _ :: _ => true
  | Optimal, [] => true
  | _, _ => false
  end.

Definition spec_check (jobs : list job) (o : iobs) : bool :=
  match o with
  | IOk s obj st => valid_check jobs s && makespan_check s obj && status_check jobs st
  | _ => false
  end.

(* ------------------------------------------------------------------ soundness *)
Lemma opid_eqb_eq : forall a b, opid_eqb a b = true <-> a = b.
Proof.
  intros [a1 a2] [b1 b2]. unfold opid_eqb. cbn [fst snd].
  rewrite andb_true_iff, !Nat.eqb_eq. split.
  - intros [H1 H2]. subst. reflexivity.
  - intros H. inversion H. split; reflexivity.
Qed.

Lemma mem_opid_In : forall id l, mem_opid id l = true <-> In id l.
Proof.
  intros id l. unfold mem_opid. rewrite existsb_exists. split.
  - intros [x [Hin Heq]]. apply opid_eqb_eq in Heq. subst. exact Hin.
  - intros Hin. exists id. split; [exact Hin | apply opid_eqb_eq; reflexivity].
Qed.

Lemma nodupb_NoDup : forall l, nodupb l = true -> NoDup l.
Proof.
  induction l as [|x r IH]; intros H.
  - constructor.
  - cbn [nodupb] in H. apply andb_true_iff in H. destruct H as [H1 H2].
    constructor.
    + intros Hin. apply mem_opid_In in Hin. rewrite Hin in H1. discriminate.
    + apply IH. exact H2.
Qed.

Lemma all_pairs_spec : forall {A} (f : A -> A -> bool) l,
  all_pairs f l = true -> forall a b, In a l -> In b l -> f a b = true.
Proof.
  intros A f l H a b Ha Hb. unfold all_pairs in H.
  rewrite forallb_forall in H. specialize (H a Ha). rewrite forallb_forall in H. exact (H b Hb).
Qed.

Lemma valid_check_sound : forall jobs s, valid_check jobs s = true -> valid_schedule jobs s.
Proof.
  intros jobs s H. unfold valid_check in H.
  repeat (apply andb_true_iff in H; let H' := fresh "H" in destruct H as [H H']).
  rename H into Hnd, H4 into Hc1, H3 into Hc2, H2 into Hent, H1 into Hjob, H0 into Hmach.
  rewrite forallb_forall in Hc1, Hc2, Hent.
  constructor.
  - apply nodupb_NoDup. exact Hnd.
  - intros id. split.
    + intros Hin. apply mem_opid_In. apply Hc2. exact Hin.
    + intros Hin. apply mem_opid_In. apply Hc1. exact Hin.
  - intros id st en Hin. specialize (Hent _ Hin). unfold entry_ok in Hent. cbn [fst snd] in Hent.
    destruct (op_at jobs id) as [[m d]|]; [|discriminate].
    exists m, d. split; [reflexivity|]. apply Z.eqb_eq. exact Hent.
  - intros j k k' s1 e1 s2 e2 H1 H2 Hlt.
    pose proof (all_pairs_spec _ _ Hjob _ _ H1 H2) as Hp. unfold job_ok in Hp. cbn [fst snd] in Hp.
    rewrite Nat.eqb_refl in Hp. apply Nat.ltb_lt in Hlt. rewrite Hlt in Hp. cbn [andb] in Hp.
    apply Z.leb_le. exact Hp.
  - intros id1 id2 s1 e1 s2 e2 m d1 d2 H1 H2 Hne Ho1 Ho2.
    pose proof (all_pairs_spec _ _ Hmach _ _ H1 H2) as Hp. unfold mach_ok in Hp. cbn [fst snd] in Hp.
    destruct (opid_eqb id1 id2) eqn:E.
    + apply opid_eqb_eq in E. contradiction.
    + rewrite Ho1, Ho2, Z.eqb_refl in Hp. unfold overlap.
      apply negb_true_iff in Hp. apply Z.ltb_ge in Hp. lia.
Qed.

Lemma makespan_check_sound : forall s obj, makespan_check s obj = true -> is_makespan s obj.
Proof.
  intros s obj H. unfold makespan_check in H. destruct s as [|e0 r].
  - left. split; [reflexivity | apply Z.eqb_eq; exact H].
  - right. apply andb_true_iff in H. destruct H as [H1 H2]. split.
    + apply existsb_exists in H1. destruct H1 as [[id [st en]] [Hin Heq]]. cbn [fst snd] in Heq.
      apply Z.eqb_eq in Heq. subst. exists id, st. exact Hin.
    + intros id st en Hin. rewrite forallb_forall in H2. specialize (H2 _ Hin). cbn [fst snd] in H2.
      apply Z.leb_le. exact H2.
Qed.

Lemma status_check_sound : forall jobs st, status_check jobs st = true -> status_sane jobs st.
Proof.
  intros jobs st H. unfold status_check in H. destruct st, jobs; try discriminate; cbn; congruence.
Qed.

Lemma spec_check_sound : forall jobs s obj st,
  spec_check jobs (IOk s obj st) = true -> js_spec jobs s obj st.
Proof.
  intros jobs s obj st H. cbn [spec_check] in H.
  apply andb_true_iff in H. destruct H as [H H3]. apply andb_true_iff in H. destruct H as [H1 H2].
  split; [apply valid_check_sound; exact H1|].
  split; [apply makespan_check_sound; exact H2 | apply status_check_sound; exact H3].
Qed.
