(* C18, job-shop part: solve_job_shop as a whole.  _dispatch and _rebuild_schedule are kernel instances, local
   search only ever replaces the incumbent by a kernel output together with that output's own makespan, and only
   when the makespan strictly decreases. *)
From Coq Require Import List ZArith Bool Arith Lia.
From SV Require Import C18.JobShop C18.JobShopSpec C18.JobShopProofs.
Import ListNotations.
Open Scope Z_scope.

(* ------------------------------------------------------------------ the clock vector is long enough *)
Lemma valid_jobs_ops : forall jobs o, valid_jobs jobs = true -> In o (concat jobs) -> 0 <= fst o /\ 0 <= snd o.
Proof.
  intros jobs o Hv Hin. apply in_concat in Hin. destruct Hin as [jb [Hjb Ho]].
  unfold valid_jobs in Hv. rewrite forallb_forall in Hv. specialize (Hv jb Hjb).
  apply andb_true_iff in Hv. destruct Hv as [_ Hv]. rewrite forallb_forall in Hv.
  specialize (Hv o Ho). apply andb_true_iff in Hv. destruct Hv as [H1 H2].
  apply Z.leb_le in H1. apply Z.leb_le in H2. split; assumption.
Qed.

Lemma jobs_ok_intro : forall jobs nm,
  (forall o, In o (concat jobs) -> (Z.to_nat (fst o) < nm)%nat /\ 0 <= snd o) -> jobs_ok jobs nm = true.
Proof.
  intros jobs nm H. unfold jobs_ok. apply forallb_forall. intros jb Hjb.
  apply forallb_forall. intros o Ho.
  destruct (H o) as [H1 H2]; [apply in_concat; eauto|].
  apply andb_true_iff. split; [apply Nat.ltb_lt; exact H1 | apply Z.leb_le; exact H2].
Qed.

Lemma fold_nm_ge : forall (l : list op) a,
  a <= fold_left (fun acc (o : op) => Z.max acc (fst o + 1)) l a /\
  forall o, In o l -> fst o + 1 <= fold_left (fun acc (o : op) => Z.max acc (fst o + 1)) l a.
Proof.
  induction l as [|x l IH]; intros a; cbn [fold_left].
  - split; [lia | intros o []].
  - destruct (IH (Z.max a (fst x + 1))) as [H1 H2]. split; [lia|].
    intros o [<-|Hin]; [lia | apply H2; exact Hin].
Qed.

Lemma fold_max_ge : forall l a,
  a <= fold_left Z.max l a /\ forall x, In x l -> x <= fold_left Z.max l a.
Proof.
  induction l as [|y l IH]; intros a; cbn [fold_left].
  - split; [lia | intros x []].
  - destruct (IH (Z.max a y)) as [H1 H2]. split; [lia|].
    intros x [<-|Hin]; [lia | apply H2; exact Hin].
Qed.

Lemma jobs_ok_n_machines : forall jobs, valid_jobs jobs = true -> jobs_ok jobs (n_machines jobs) = true.
Proof.
  intros jobs Hv. apply jobs_ok_intro. intros o Ho.
  destruct (valid_jobs_ops _ _ Hv Ho) as [H1 H2]. split; [|exact H2].
  unfold n_machines. destruct (fold_nm_ge (concat jobs) 0) as [_ H]. specialize (H o Ho). lia.
Qed.

Lemma jobs_ok_n_machines_rb : forall jobs nm,
  valid_jobs jobs = true -> n_machines_rb jobs = Some nm -> jobs_ok jobs nm = true.
Proof.
  intros jobs nm Hv Hn. apply jobs_ok_intro. intros o Ho.
  destruct (valid_jobs_ops _ _ Hv Ho) as [H1 H2]. split; [|exact H2].
  unfold n_machines_rb in Hn.
  destruct (map fst (concat jobs)) as [|m0 r] eqn:E; [discriminate|].
  assert (Hin : In (fst o) (m0 :: r)) by (rewrite <- E; apply in_map; exact Ho).
  injection Hn as Hn. subst nm.
  destruct (fold_max_ge r m0) as [Ha Hb].
  destruct Hin as [Hin|Hin]; [subst m0; lia | specialize (Hb _ Hin); lia].
Qed.

(* ------------------------------------------------------------------ kernel instances *)
Definition good (jobs : list job) (s : sched) : Prop := valid_schedule jobs s /\ machine_sequential jobs s.

Lemma dispatch_good : forall jobs rl orc s orc',
  valid_jobs jobs = true -> dispatch jobs (n_machines jobs) rl orc = Some (s, orc') -> good jobs s.
Proof.
  intros jobs rl orc s orc' Hv H. unfold dispatch in H.
  destruct (schedule_with (dispatch_choose rl) jobs (total_ops jobs)
              (map (fun jb : list (Z * Z) => sumZ (map snd jb)) jobs, orc) (init_kst jobs (n_machines jobs)))
    as [[[rem o2] ks]|] eqn:E; [|discriminate].
  injection H as Hs Ho. subst s orc'.
  exact (kernel_valid _ _ _ _ _ _ _ (jobs_ok_n_machines _ Hv) E).
Qed.

Lemma rebuild_good : forall jobs old target order ns,
  valid_jobs jobs = true -> rebuild jobs old target order = Some ns -> good jobs ns.
Proof.
  intros jobs old target order ns Hv H. unfold rebuild in H.
  destruct (n_machines_rb jobs) as [nm|] eqn:En; [|discriminate].
  destruct (schedule_with (rb_choose old target order) jobs (total_ops jobs) tt (init_kst jobs nm))
    as [[u ks]|] eqn:E; [|discriminate].
  injection H as Hs. subst ns.
  exact (kernel_valid _ _ _ _ _ _ _ (jobs_ok_n_machines_rb _ _ Hv En) E).
Qed.

Lemma try_swap_good : forall jobs s id1 id2 ns,
  valid_jobs jobs = true -> try_swap jobs s id1 id2 = Some (Some ns) -> good jobs ns.
Proof.
  intros jobs s id1 id2 ns Hv H. unfold try_swap in H.
  destruct (ops_with_start s (ops_on_machine jobs (machine_of jobs id1))) as [order|]; [|discriminate].
  destruct (find_pos_from 0 id1 order None) as [p1|]; [|discriminate].
  destruct (find_pos_from 0 id2 order None) as [p2|]; [|discriminate].
  destruct ((p1 =? S p2)%nat || (p2 =? S p1)%nat); [|discriminate].
  destruct (rebuild jobs s (machine_of jobs id1) (swap_at p1 p2 order)) as [ns'|] eqn:E; [|discriminate].
  injection H as Hs. subst ns'. exact (rebuild_good _ _ _ _ _ Hv E).
Qed.

Lemma try_pairs_some : forall jobs s mk ops is ns nmk,
  valid_jobs jobs = true -> try_pairs jobs s mk ops is = Some (Some (ns, nmk)) ->
  good jobs ns /\ nmk = makespan ns /\ nmk < mk.
Proof.
  intros jobs s mk ops is ns nmk Hv. induction is as [|i r IH]; intros H; cbn [try_pairs] in H.
  - discriminate.
  - destruct (nth_error ops i) as [id1|]; [|discriminate].
    destruct (nth_error ops (S i)) as [id2|]; [|discriminate].
    destruct (try_swap jobs s id1 id2) as [[ns'|]|] eqn:E; [| exact (IH H) | discriminate].
    destruct (makespan ns' <? mk) eqn:Elt; [|exact (IH H)].
    injection H as H1 H2. subst ns' nmk. apply Z.ltb_lt in Elt.
    split; [exact (try_swap_good _ _ _ _ _ Hv E) | split; [reflexivity | exact Elt]].
Qed.

(* ------------------------------------------------------------------ local search *)
Definition ls_inv (jobs : list job) (st : ls_st) : Prop :=
  good jobs (cur st) /\ good jobs (best st) /\
  cur_mk st = makespan (cur st) /\ best_mk st = makespan (best st).

Lemma ls_step_inv : forall jobs st res,
  ls_inv jobs st ->
  (forall ns nmk, res = Some (ns, nmk) -> good jobs ns /\ nmk = makespan ns /\ nmk < cur_mk st) ->
  ls_inv jobs (ls_step_state st res) /\
  best_mk (ls_step_state st res) <= best_mk st /\ cur_mk (ls_step_state st res) <= cur_mk st.
Proof.
  intros jobs st res [Hc [Hb [Hcm Hbm]]] Hres. destruct res as [[ns nmk]|]; cbn [ls_step_state].
  - destruct (Hres ns nmk eq_refl) as [Hg [Hm Hlt]]. unfold ls_inv. cbn [cur cur_mk best best_mk].
    destruct (nmk <? best_mk st) eqn:E.
    + apply Z.ltb_lt in E. (split; [split; [|split; [|split]] | split]); try assumption; lia.
    + apply Z.ltb_ge in E. (split; [split; [|split; [|split]] | split]); try assumption; lia.
  - unfold ls_inv. cbn [cur cur_mk best best_mk]. (split; [split; [|split; [|split]] | split]); try assumption; lia.
Qed.

Lemma ls_loop_inv : forall jobs cb iv, valid_jobs jobs = true ->
  forall fuel it st orc st' orc',
  ls_inv jobs st -> ls_loop jobs cb iv fuel it st orc = Some (st', orc') ->
  ls_inv jobs st' /\ best_mk st' <= best_mk st /\ cur_mk st' <= cur_mk st.
Proof.
  intros jobs cb iv Hv. induction fuel as [|f IH]; intros it st orc st' orc' I H; cbn [ls_loop] in H.
  - injection H as H1 H2. subst st' orc'. split; [exact I | lia].
  - destruct orc as [|mch orc1]; [discriminate|].
    destruct (length (ops_on_machine jobs (Z.of_nat mch)) <? 2)%nat.
    + exact (IH _ _ _ _ _ I H).
    + destruct (sort_ops (cur st) (ops_on_machine jobs (Z.of_nat mch))) as [sorted|]; [|discriminate].
      destruct (try_pairs jobs (cur st) (cur_mk st) sorted (seq 0 (length sorted - 1))) as [res|] eqn:E;
        [|discriminate].
      assert (Hres : forall ns nmk, res = Some (ns, nmk) ->
                good jobs ns /\ nmk = makespan ns /\ nmk < cur_mk st).
      { intros ns nmk Heq. subst res. exact (try_pairs_some _ _ _ _ _ _ _ Hv E). }
      destruct (ls_step_inv jobs st res I Hres) as [I' [Hb Hc]].
      destruct (100 <=? no_imp (ls_step_state st res))%nat.
      * injection H as H1 H2. subst st' orc'. auto.
      * destruct (progress_stop cb iv it).
        -- injection H as H1 H2. subst st' orc'. auto.
        -- destruct (IH _ _ _ _ _ I' H) as [I'' [Hb' Hc']]. split; [exact I'' | lia].
Qed.

(* ------------------------------------------------------------------ makespan = latest end time *)
Lemma fold_max_in : forall l a, fold_left Z.max l a = a \/ In (fold_left Z.max l a) l.
Proof.
  induction l as [|y l IH]; intros a; cbn [fold_left]; [left; reflexivity|].
  destruct (IH (Z.max a y)) as [H|H].
  - rewrite H. destruct (Z.max_spec a y) as [[_ E]|[_ E]]; rewrite E; [right; left; reflexivity | left; reflexivity].
  - right. right. exact H.
Qed.

Lemma makespan_spec : forall s, is_makespan s (makespan s).
Proof.
  intros s. unfold is_makespan, makespan. destruct s as [|[id0 [st0 en0]] r]; [left; auto|].
  right. cbn [map fst snd].
  set (ends := map (fun e : opid * (Z * Z) => snd (snd e)) r).
  destruct (fold_max_ge ends en0) as [Ha Hb]. split.
  - destruct (fold_max_in ends en0) as [H|H].
    + rewrite H. exists id0, st0. left. reflexivity.
    + unfold ends in H at 2. apply in_map_iff in H. destruct H as [[id [st en]] [Heq Hin]].
      cbn [snd] in Heq. exists id, st. right. rewrite <- Heq. exact Hin.
  - intros id st en [Heq|Hin].
    + injection Heq as E1 E2 E3. subst. exact Ha.
    + apply Hb. unfold ends. apply in_map_iff. exists (id, (st, en)). split; [reflexivity | exact Hin].
Qed.

(* ------------------------------------------------------------------ solve *)
Lemma solve_ok_inv : forall jobs rl ls mi cb iv orc s obj st orc',
  solve jobs rl ls mi cb iv orc = (Ok s obj st, orc') ->
  (jobs = [] /\ s = [] /\ obj = 0 /\ st = Optimal) \/
  (jobs <> [] /\ valid_jobs jobs = true /\ solve_valid jobs rl ls mi cb iv orc = (Ok s obj st, orc')).
Proof.
  intros jobs rl ls mi cb iv orc s obj st orc' H. unfold solve in H. destruct jobs as [|jb js].
  - left. injection H as H1 H2 H3 H4. auto.
  - right. split; [discriminate|]. destruct (valid_jobs (jb :: js)); cbn [negb] in H; [|discriminate].
    split; [reflexivity|]. destruct rl; try exact H; discriminate.
Qed.

Lemma solve_valid_inv : forall jobs rl ls mi cb iv orc s obj st orc',
  solve_valid jobs rl ls mi cb iv orc = (Ok s obj st, orc') ->
  st = Feasible /\
  exists s0 orc1, dispatch jobs (n_machines jobs) rl orc = Some (s0, orc1) /\
    ((ls = false /\ s = s0 /\ obj = makespan s0) \/
     (ls = true /\ exists stf,
        ls_loop jobs cb iv (Z.to_nat mi) 1
          {| cur := s0; cur_mk := makespan s0; best := s0; best_mk := makespan s0; no_imp := 0 |} orc1
          = Some (stf, orc') /\ s = best stf /\ obj = best_mk stf)).
Proof.
  intros jobs rl ls mi cb iv orc s obj st orc' H. unfold solve_valid in H.
  destruct (dispatch jobs (n_machines jobs) rl orc) as [[s0 orc1]|]; [|discriminate].
  destruct ls; cbn [negb] in H.
  - destruct (ls_loop jobs cb iv (Z.to_nat mi) 1
                {| cur := s0; cur_mk := makespan s0; best := s0; best_mk := makespan s0; no_imp := 0 |} orc1)
      as [[stf orc2]|] eqn:E; [|discriminate].
    injection H as H1 H2 H3 H4. subst s obj st orc'. split; [reflexivity|]. exists s0, orc1. split; [reflexivity|].
    right. split; [reflexivity|]. exists stf. auto.
  - injection H as H1 H2 H3 H4. subst s obj st orc'. split; [reflexivity|]. exists s0, orc1. split; [reflexivity|].
    left. auto.
Qed.

Lemma valid_schedule_nil : valid_schedule [] [].
Proof.
  constructor; cbn.
  - constructor.
  - intros id. split; intros [].
  - intros id st en [].
  - intros j k k' s1 e1 s2 e2 [].
  - intros id1 id2 s1 e1 s2 e2 m d1 d2 [].
Qed.

(* whatever solve returns is a kernel output scored by its own makespan *)
Lemma solve_good : forall jobs rl ls mi cb iv orc s obj st orc',
  solve jobs rl ls mi cb iv orc = (Ok s obj st, orc') ->
  good jobs s /\ obj = makespan s /\ status_sane jobs st.
Proof.
  intros jobs rl ls mi cb iv orc s obj st orc' H.
  destruct (solve_ok_inv _ _ _ _ _ _ _ _ _ _ _ H) as [[Hj [Hs [Ho Hst]]] | [Hne [Hv Hsv]]].
  - subst. split; [split; [exact valid_schedule_nil | intros id1 id2 s1 e1 s2 e2 m d1 d2 []]|].
    split; reflexivity.
  - destruct (solve_valid_inv _ _ _ _ _ _ _ _ _ _ _ Hsv) as [Hst [s0 [orc1 [Hd Hcase]]]].
    pose proof (dispatch_good _ _ _ _ _ Hv Hd) as Hg0. subst st.
    destruct Hcase as [[_ [Hs Ho]] | [_ [stf [Hl [Hs Ho]]]]].
    + subst. split; [exact Hg0|]. split; [reflexivity | exact Hne].
    + assert (I0 : ls_inv jobs {| cur := s0; cur_mk := makespan s0; best := s0; best_mk := makespan s0; no_imp := 0 |}).
      { unfold ls_inv. cbn [cur cur_mk best best_mk]. auto. }
      destruct (ls_loop_inv jobs cb iv Hv _ _ _ _ _ _ I0 Hl) as [[_ [Hb [_ Hbm]]] _].
      subst. split; [exact Hb|]. split; [exact Hbm | exact Hne].
Qed.

Theorem solve_valid_schedule : forall jobs rl ls mi cb iv orc s obj st orc',
  solve jobs rl ls mi cb iv orc = (Ok s obj st, orc') -> js_spec jobs s obj st.
Proof.
  intros jobs rl ls mi cb iv orc s obj st orc' H.
  destruct (solve_good _ _ _ _ _ _ _ _ _ _ _ H) as [[Hv _] [Ho Hst]].
  split; [exact Hv|]. split; [rewrite Ho; apply makespan_spec | exact Hst].
Qed.

Theorem solve_objective : forall jobs rl ls mi cb iv orc s obj st orc',
  solve jobs rl ls mi cb iv orc = (Ok s obj st, orc') -> obj = makespan s /\ is_makespan s obj.
Proof.
  intros jobs rl ls mi cb iv orc s obj st orc' H.
  destruct (solve_good _ _ _ _ _ _ _ _ _ _ _ H) as [_ [Ho _]].
  split; [exact Ho | rewrite Ho; apply makespan_spec].
Qed.

(* local search never worsens the makespan: neither inside the loop (incumbent and best are non-increasing from
   every state) nor end to end (same call without local search) *)
Theorem ls_loop_monotone : forall jobs cb iv fuel it st orc st' orc',
  valid_jobs jobs = true -> ls_inv jobs st ->
  ls_loop jobs cb iv fuel it st orc = Some (st', orc') ->
  best_mk st' <= best_mk st /\ cur_mk st' <= cur_mk st.
Proof.
  intros jobs cb iv fuel it st orc st' orc' Hv I H.
  destruct (ls_loop_inv jobs cb iv Hv _ _ _ _ _ _ I H) as [_ Hm]. exact Hm.
Qed.

Theorem solve_ls_monotone : forall jobs rl mi cb iv orc s0 o0 st0 r0 s1 o1 st1 r1,
  solve jobs rl false mi cb iv orc = (Ok s0 o0 st0, r0) ->
  solve jobs rl true mi cb iv orc = (Ok s1 o1 st1, r1) ->
  o1 <= o0.
Proof.
  intros jobs rl mi cb iv orc s0 o0 st0 r0 s1 o1 st1 r1 H0 H1.
  destruct (solve_ok_inv _ _ _ _ _ _ _ _ _ _ _ H0) as [[Hj [_ [Ho _]]] | [Hne [Hv Hsv0]]].
  - subst jobs. cbn in H1. injection H1 as E1 E2 E3 E4. lia.
  - destruct (solve_ok_inv _ _ _ _ _ _ _ _ _ _ _ H1) as [[Hj _] | [_ [_ Hsv1]]].
    + exfalso. exact (Hne Hj).
    + destruct (solve_valid_inv _ _ _ _ _ _ _ _ _ _ _ Hsv0) as [_ [sa [oa [Hda Hca]]]].
      destruct (solve_valid_inv _ _ _ _ _ _ _ _ _ _ _ Hsv1) as [_ [sb [ob [Hdb Hcb]]]].
      rewrite Hda in Hdb. injection Hdb as E1 E2. subst sb ob.
      destruct Hca as [[_ [_ Ho0]] | [Hf _]]; [|discriminate].
      destruct Hcb as [[Hf _] | [_ [stf [Hl [_ Ho1]]]]]; [discriminate|].
      assert (I0 : ls_inv jobs {| cur := sa; cur_mk := makespan sa; best := sa; best_mk := makespan sa; no_imp := 0 |}).
      { pose proof (dispatch_good _ _ _ _ _ Hv Hda). unfold ls_inv. cbn [cur cur_mk best best_mk]. auto. }
      destruct (ls_loop_inv jobs cb iv Hv _ _ _ _ _ _ I0 Hl) as [_ [Hm _]].
      cbn [best_mk] in Hm. lia.
Qed.

(* _rebuild_schedule for every machine-order input (and every old schedule / target machine) *)
Theorem rebuild_valid : forall jobs old target order ns,
  valid_jobs jobs = true -> rebuild jobs old target order = Some ns -> valid_schedule jobs ns.
Proof.
  intros jobs old target order ns Hv H. exact (proj1 (rebuild_good _ _ _ _ _ Hv H)).
Qed.
