(* C18, job-shop part: the model never fails (value Fail / None) on valid input for the deterministic dispatch
   rules when the oracle holds one machine draw per local-search pass - so the conditional theorems of
   JobShopProofs2 are about every such run, not about an empty set. *)
From Coq Require Import List ZArith Bool Arith Lia.
From SV Require Import C18.JobShop C18.JobShopSpec C18.JobShopProofs C18.JobShopProofs2.
Import ListNotations.
Open Scope Z_scope.

Lemma argbest_lt : forall K (better : K -> K -> bool) r i bi bk,
  (bi < i)%nat -> (argbest better r i bi bk < i + length r)%nat.
Proof.
  induction r as [|k r IH]; intros i bi bk H; cbn [argbest length]; [lia|].
  destruct (better k bk).
  - pose proof (IH (S i) i k (Nat.lt_succ_diag_r i)). lia.
  - assert (Hlt : (bi < S i)%nat) by lia. pose proof (IH (S i) bi bk Hlt). lia.
Qed.

Lemma first_best_lt : forall K (better : K -> K -> bool) keys,
  keys <> [] -> (first_best better keys < length keys)%nat.
Proof.
  intros K better [|k r] H; [congruence|]. unfold first_best. cbn [length].
  pose proof (argbest_lt K better r 1 0 k Nat.lt_0_1). lia.
Qed.

Lemma schedule_with_total : forall A (choose : A -> kst -> list rop -> option (nat * A)) jobs,
  (forall a s, ready_from 0 jobs (next_op s) <> [] ->
     exists i a', choose a s (ready_from 0 jobs (next_op s)) = Some (i, a') /\
                  (i < length (ready_from 0 jobs (next_op s)))%nat) ->
  forall fuel a s, exists a' s', schedule_with choose jobs fuel a s = Some (a', s').
Proof.
  intros A choose jobs H. induction fuel as [|f IH]; intros a s; cbn [schedule_with]; [eauto|].
  specialize (H a s). destruct (ready_from 0 jobs (next_op s)) as [|r0 rest]; [eauto|].
  destruct H as [i [a1 [Hc Hi]]]; [discriminate|]. rewrite Hc.
  destruct (nth_error (r0 :: rest) i) as [r|] eqn:En; [apply IH|].
  apply nth_error_None in En. lia.
Qed.

(* a property of the auxiliary state preserved by choose is preserved by the kernel *)
Lemma schedule_with_aux : forall A (choose : A -> kst -> list rop -> option (nat * A)) jobs (Q : A -> Prop),
  (forall a s rd i a', choose a s rd = Some (i, a') -> Q a -> Q a') ->
  forall fuel a s a' s', Q a -> schedule_with choose jobs fuel a s = Some (a', s') -> Q a'.
Proof.
  intros A choose jobs Q HQ. induction fuel as [|f IH]; intros a s a' s' Ha H; cbn [schedule_with] in H.
  - injection H as H1 H2. subst. exact Ha.
  - destruct (ready_from 0 jobs (next_op s)) as [|r0 rest]; [injection H as H1 H2; subst; exact Ha|].
    destruct (choose a s (r0 :: rest)) as [[i a1]|] eqn:Ec; [|discriminate].
    destruct (nth_error (r0 :: rest) i) as [r|]; [|discriminate].
    exact (IH _ _ _ _ (HQ _ _ _ _ _ Ec Ha) H).
Qed.

(* ------------------------------------------------------------------ _dispatch, deterministic rules *)
Definition deterministic (rl : rule) : bool :=
  match rl with Fifo | Spt | Lpt | Mwkr => true | Rnd | BadRule => false end.

Lemma pick_ok : forall (rd : list rop) (rem : list Z) (orc : list nat) i, (i < length rd)%nat ->
  exists a', match nth_error rd i with
             | None => None
             | Some r => Some (i, (set_nth (rjob r) (nth (rjob r) rem 0 - rdur r) rem, orc))
             end = Some (i, a') /\ snd a' = orc.
Proof.
  intros rd rem orc i H. destruct (nth_error rd i) as [r|] eqn:E; [eexists; split; reflexivity|].
  apply nth_error_None in E. lia.
Qed.

Lemma dispatch_choose_total : forall rl a s rd, rd <> [] -> deterministic rl = true ->
  exists i a', dispatch_choose rl a s rd = Some (i, a') /\ (i < length rd)%nat /\ snd a' = snd a.
Proof.
  intros rl [rem orc] s rd Hrd Hdet.
  assert (H0 : (0 < length rd)%nat) by (destruct rd; [congruence | cbn; lia]).
  assert (Hmap : forall (f : rop -> Z), map f rd <> []) by (intros f; destruct rd; [congruence | discriminate]).
  unfold dispatch_choose. destruct rl; try discriminate; cbv beta iota zeta.
  - destruct (pick_ok rd rem orc 0%nat H0) as [a' [Ha Hs]]. exists 0%nat, a'. auto.
  - assert (Hi : (first_min (map rdur rd) < length rd)%nat).
    { rewrite <- (map_length rdur rd). apply first_best_lt. apply Hmap. }
    destruct (pick_ok rd rem orc _ Hi) as [a' [Ha Hs]]. eexists; exists a'. eauto.
  - assert (Hi : (first_max (map rdur rd) < length rd)%nat).
    { rewrite <- (map_length rdur rd). apply first_best_lt. apply Hmap. }
    destruct (pick_ok rd rem orc _ Hi) as [a' [Ha Hs]]. eexists; exists a'. eauto.
  - assert (Hi : (first_max (map (fun r => nth (rjob r) rem 0%Z) rd) < length rd)%nat).
    { rewrite <- (map_length (fun r => nth (rjob r) rem 0) rd). apply first_best_lt. apply Hmap. }
    destruct (pick_ok rd rem orc _ Hi) as [a' [Ha Hs]]. eexists; exists a'. eauto.
Qed.

Lemma dispatch_choose_orc : forall rl a s rd i a', deterministic rl = true ->
  dispatch_choose rl a s rd = Some (i, a') -> snd a' = snd a.
Proof.
  intros rl [rem orc] s rd i a' Hdet H. unfold dispatch_choose in H.
  destruct rl; try discriminate; cbv beta iota zeta in H;
    match type of H with context [nth_error rd ?j] => destruct (nth_error rd j) end;
    try discriminate; injection H as H1 H2; subst a'; reflexivity.
Qed.

Lemma dispatch_total : forall jobs nm rl orc, deterministic rl = true ->
  exists s, dispatch jobs nm rl orc = Some (s, orc).
Proof.
  intros jobs nm rl orc Hdet. unfold dispatch.
  set (a0 := (map (fun jb : list (Z * Z) => sumZ (map snd jb)) jobs, orc)).
  destruct (schedule_with_total _ (dispatch_choose rl) jobs) with (fuel := total_ops jobs) (a := a0)
    (s := init_kst jobs nm) as [a' [s' E]].
  { intros a s Hrd. destruct (dispatch_choose_total rl a s _ Hrd Hdet) as [i [a' [H1 [H2 _]]]]. eauto. }
  rewrite E.
  assert (Hq : snd a' = orc).
  { apply (schedule_with_aux _ (dispatch_choose rl) jobs (fun a => snd a = orc)) with (fuel := total_ops jobs)
      (a := a0) (s := init_kst jobs nm) (s' := s'); [|reflexivity|exact E].
    intros a s rd i a1 Hc Ha. rewrite (dispatch_choose_orc _ _ _ _ _ _ Hdet Hc). exact Ha. }
  destruct a' as [rem o2]. cbn [snd] in Hq. subst o2. eauto.
Qed.

(* ------------------------------------------------------------------ _rebuild_schedule on a complete old schedule *)
Definition complete (jobs : list job) (s : sched) : Prop := incl (all_ops jobs) (map fst s).

Lemma all_some_total : forall A (l : list (option A)),
  (forall x, In x l -> x <> None) -> exists xs, all_some l = Some xs /\ length xs = length l.
Proof.
  induction l as [|a l IH]; intros H; cbn [all_some].
  - exists []. split; reflexivity.
  - destruct a as [x|].
    + destruct IH as [xs [E L]]; [intros y Hy; apply H; right; exact Hy|].
      rewrite E. exists (x :: xs). cbn [length]. split; [reflexivity | lia].
    + exfalso. apply (H None); [left; reflexivity | reflexivity].
Qed.

Lemma lookup_in : forall id (s : sched), In id (map fst s) -> exists v, lookup id s = Some v.
Proof.
  intros id s. induction s as [|[k v] r IH]; intros H; cbn [lookup map fst In] in *; [contradiction|].
  destruct (opid_eqb k id) eqn:E; [eauto|].
  destruct H as [H|H]; [|exact (IH H)].
  subst k. assert (opid_eqb id id = true) by (apply opid_eqb_eq; reflexivity). congruence.
Qed.

Lemma ready_in_all_ops : forall jobs nx r, In r (ready_from 0 jobs nx) -> In (rjob r, ridx r) (all_ops jobs).
Proof.
  intros jobs nx r H. destruct (ready_from_In _ _ _ _ H) as [_ [_ [jb [Hj Ho]]]].
  rewrite Nat.sub_0_r in Hj. apply In_all_ops_nth. exists jb. split; [exact Hj|].
  apply nth_error_Some. congruence.
Qed.

Lemma rb_choose_total : forall jobs old target order a s,
  complete jobs old -> ready_from 0 jobs (next_op s) <> [] ->
  exists i a', rb_choose old target order a s (ready_from 0 jobs (next_op s)) = Some (i, a') /\
               (i < length (ready_from 0 jobs (next_op s)))%nat.
Proof.
  intros jobs old target order a s Hc Hrd. unfold rb_choose.
  remember (ready_from 0 jobs (next_op s)) as rd eqn:Erd.
  destruct (all_some_total _ (map (rb_key old target order) rd)) as [keys [E L]].
  { intros x Hin. apply in_map_iff in Hin. destruct Hin as [r [Hr Hin]]. subst x. unfold rb_key.
    destruct (rmach r =? target); [discriminate|].
    subst rd. destruct (lookup_in _ old (Hc _ (ready_in_all_ops _ _ _ Hin))) as [[st en] Hl].
    rewrite Hl. discriminate. }
  rewrite E. eexists. eexists. split; [reflexivity|]. rewrite map_length in L. rewrite <- L.
  apply first_best_lt. destruct keys; [|discriminate]. destruct rd; [congruence | discriminate L].
Qed.

Lemma n_machines_rb_some : forall jobs, jobs <> [] -> valid_jobs jobs = true -> n_machines_rb jobs <> None.
Proof.
  intros [|jb js] Hne Hv; [congruence|]. cbn [valid_jobs forallb] in Hv. apply andb_true_iff in Hv.
  destruct Hv as [Hv _]. destruct jb as [|o jb]; [discriminate|]. unfold n_machines_rb. cbn. discriminate.
Qed.

Lemma rebuild_total : forall jobs old target order,
  jobs <> [] -> valid_jobs jobs = true -> complete jobs old -> rebuild jobs old target order <> None.
Proof.
  intros jobs old target order Hne Hv Hc. unfold rebuild.
  pose proof (n_machines_rb_some _ Hne Hv) as Hn. destruct (n_machines_rb jobs) as [nm|]; [|congruence].
  destruct (schedule_with_total _ (rb_choose old target order) jobs) with (fuel := total_ops jobs) (a := tt)
    (s := init_kst jobs nm) as [a' [s' E]].
  { intros a s Hrd. exact (rb_choose_total jobs old target order a s Hc Hrd). }
  rewrite E. destruct a'. discriminate.
Qed.

(* ------------------------------------------------------------------ _try_swap, local search *)
Lemma ops_with_start_total : forall jobs s ops,
  complete jobs s -> incl ops (all_ops jobs) -> ops_with_start s ops <> None.
Proof.
  intros jobs s ops Hc Hi. unfold ops_with_start.
  destruct (all_some_total _ (map (fun id : opid => match lookup id s with
                                       | Some (st, _) => Some (fst id, snd id, st)
                                       | None => None end) ops)) as [l [E _]].
  { intros x Hin. apply in_map_iff in Hin. destruct Hin as [id [Hx Hin]]. subst x.
    destruct (lookup_in _ s (Hc _ (Hi _ Hin))) as [[st en] Hl]. rewrite Hl. discriminate. }
  rewrite E. discriminate.
Qed.

Lemma ops_on_machine_incl : forall jobs m, incl (ops_on_machine jobs m) (all_ops jobs).
Proof. intros jobs m id H. unfold ops_on_machine in H. apply filter_In in H. exact (proj1 H). Qed.

Lemma try_swap_total : forall jobs s id1 id2,
  jobs <> [] -> valid_jobs jobs = true -> complete jobs s -> try_swap jobs s id1 id2 <> None.
Proof.
  intros jobs s id1 id2 Hne Hv Hc. unfold try_swap.
  pose proof (ops_with_start_total jobs s _ Hc (ops_on_machine_incl jobs (machine_of jobs id1))) as Ho.
  destruct (ops_with_start s (ops_on_machine jobs (machine_of jobs id1))) as [order|]; [|congruence].
  destruct (find_pos_from 0 id1 order None) as [p1|]; [|discriminate].
  destruct (find_pos_from 0 id2 order None) as [p2|]; [|discriminate].
  destruct ((p1 =? S p2)%nat || (p2 =? S p1)%nat); [|discriminate].
  pose proof (rebuild_total jobs s (machine_of jobs id1) (swap_at p1 p2 order) Hne Hv Hc) as Hr.
  destruct (rebuild jobs s (machine_of jobs id1) (swap_at p1 p2 order)); [discriminate | congruence].
Qed.

Lemma try_pairs_total : forall jobs s mk ops is,
  jobs <> [] -> valid_jobs jobs = true -> complete jobs s ->
  (forall i, In i is -> (S i < length ops)%nat) -> try_pairs jobs s mk ops is <> None.
Proof.
  intros jobs s mk ops is Hne Hv Hc. induction is as [|i r IH]; intros Hi; cbn [try_pairs]; [discriminate|].
  assert (Hlt : (S i < length ops)%nat) by (apply Hi; left; reflexivity).
  assert (IH' : try_pairs jobs s mk ops r <> None) by (apply IH; intros j Hj; apply Hi; right; exact Hj).
  destruct (nth_error ops i) as [id1|] eqn:E1; [|apply nth_error_None in E1; lia].
  destruct (nth_error ops (S i)) as [id2|] eqn:E2; [|apply nth_error_None in E2; lia].
  pose proof (try_swap_total jobs s id1 id2 Hne Hv Hc) as Hs.
  destruct (try_swap jobs s id1 id2) as [[ns|]|]; [| exact IH' | congruence].
  destruct (makespan ns <? mk); [discriminate | exact IH'].
Qed.

Lemma good_complete : forall jobs s, good jobs s -> complete jobs s.
Proof. intros jobs s [Hv _] id Hin. apply (vs_complete _ _ Hv). exact Hin. Qed.

Lemma ls_loop_total : forall jobs cb iv, jobs <> [] -> valid_jobs jobs = true ->
  forall fuel it st orc, (fuel <= length orc)%nat -> ls_inv jobs st ->
  ls_loop jobs cb iv fuel it st orc <> None.
Proof.
  intros jobs cb iv Hne Hv. induction fuel as [|f IH]; intros it st orc Hlen I; cbn [ls_loop]; [discriminate|].
  destruct orc as [|mch orc1]; [cbn in Hlen; lia|]. cbn [length] in Hlen.
  assert (Hl1 : (f <= length orc1)%nat) by lia.
  destruct (length (ops_on_machine jobs (Z.of_nat mch)) <? 2)%nat; [exact (IH _ _ _ Hl1 I)|].
  pose proof (good_complete _ _ (proj1 I)) as Hc.
  pose proof (ops_with_start_total jobs (cur st) _ Hc (ops_on_machine_incl jobs (Z.of_nat mch))) as Ho.
  unfold sort_ops. destruct (ops_with_start (cur st) (ops_on_machine jobs (Z.of_nat mch))) as [l|]; [|congruence].
  cbv beta iota zeta.
  match goal with |- context [try_pairs ?a ?b ?c ?d ?e] =>
    assert (Hp : try_pairs a b c d e <> None);
    [ apply try_pairs_total; auto; intros i Hi; apply in_seq in Hi; unfold opid in *; lia
    | destruct (try_pairs a b c d e) as [res|] eqn:E; [|congruence] ]
  end.
  cbv beta iota zeta.
  assert (Hres : forall ns nmk, res = Some (ns, nmk) -> good jobs ns /\ nmk = makespan ns /\ nmk < cur_mk st).
  { intros ns nmk Heq. subst res. exact (try_pairs_some _ _ _ _ _ _ _ Hv E). }
  destruct (ls_step_inv jobs st res I Hres) as [I' _].
  destruct (100 <=? no_imp (ls_step_state st res))%nat; [discriminate|].
  destruct (progress_stop cb iv it); [discriminate|]. exact (IH _ _ _ Hl1 I').
Qed.

Theorem solve_total : forall jobs rl ls mi cb iv orc,
  deterministic rl = true -> (Z.to_nat mi <= length orc)%nat ->
  fst (solve jobs rl ls mi cb iv orc) <> Fail.
Proof.
  intros jobs rl ls mi cb iv orc Hdet Hlen. unfold solve. destruct jobs as [|jb js]; [discriminate|].
  destruct (valid_jobs (jb :: js)) eqn:Hv; cbn [negb]; [|discriminate].
  assert (Hsv : fst (solve_valid (jb :: js) rl ls mi cb iv orc) <> Fail).
  { unfold solve_valid. destruct (dispatch_total (jb :: js) (n_machines (jb :: js)) rl orc Hdet) as [s0 Hd].
    rewrite Hd. destruct ls; cbn [negb]; [|discriminate].
    assert (I0 : ls_inv (jb :: js) {| cur := s0; cur_mk := makespan s0; best := s0; best_mk := makespan s0; no_imp := 0 |}).
    { pose proof (dispatch_good _ _ _ _ _ Hv Hd). unfold ls_inv. cbn [cur cur_mk best best_mk]. auto. }
    pose proof (ls_loop_total (jb :: js) cb iv ltac:(discriminate) Hv (Z.to_nat mi) 1%nat _ orc Hlen I0) as Hl.
    destruct (ls_loop (jb :: js) cb iv (Z.to_nat mi) 1
                {| cur := s0; cur_mk := makespan s0; best := s0; best_mk := makespan s0; no_imp := 0 |} orc)
      as [[stf o2]|]; [discriminate | congruence]. }
  destruct rl; try discriminate; exact Hsv.
Qed.
