(* vrp_objective: the weighted sum is a function of (routes, unassigned) on consistent states; every penalty term is
   non-negative and is zero exactly when the corresponding violation is absent. *)
From Coq Require Import List ZArith Bool Arith Lia.
From SV Require Import C18.Vrp C18.VrpSpec.
Import ListNotations.
Open Scope Z_scope.

(* ------------------------------------------------------------------ depends only on (routes, unassigned) *)
Theorem objective_depends_on_routes_unassigned W I st :
  vrp_inv I st -> objective W I st = objective_spec W I (routes st) (unassigned st).
Proof.
  intros H. unfold objective_spec. rewrite <- (inv_arrivals I st H). destruct st; reflexivity.
Qed.

(* two consistent states with the same routes and the same number of unassigned customers score the same *)
Theorem objective_ext W I st1 st2 :
  vrp_inv I st1 -> vrp_inv I st2 -> routes st1 = routes st2 ->
  length (unassigned st1) = length (unassigned st2) -> objective W I st1 = objective W I st2.
Proof.
  intros H1 H2 Hr Hu. rewrite (objective_depends_on_routes_unassigned W I st1 H1),
    (objective_depends_on_routes_unassigned W I st2 H2), Hr.
  unfold objective_spec, objective, total_distance, vehicles_used, tw_violation, cap_violation, sync_violation,
    sync_term, visit_times. simpl. rewrite Hu. reflexivity.
Qed.

(* ------------------------------------------------------------------ sums of non-negative terms *)
Lemma zsum_nonneg l : (forall x, In x l -> 0 <= x) -> 0 <= zsum l.
Proof.
  induction l as [|y ys IH]; intros H; simpl; [lia|].
  assert (0 <= y) by (apply H; left; reflexivity).
  assert (0 <= zsum ys) by (apply IH; intros x Hx; apply H; right; exact Hx). lia.
Qed.

Lemma zsum_zero l : (forall x, In x l -> 0 <= x) -> (zsum l = 0 <-> forall x, In x l -> x = 0).
Proof.
  induction l as [|y ys IH]; intros H; simpl.
  - split; [intros _ x [] | reflexivity].
  - assert (Hy : 0 <= y) by (apply H; left; reflexivity).
    assert (Hys : forall x, In x ys -> 0 <= x) by (intros x Hx; apply H; right; exact Hx).
    pose proof (zsum_nonneg ys Hys) as Hs. specialize (IH Hys). split.
    + intros E x [Hx|Hx]; [subst; lia | apply IH; [lia | exact Hx]].
    + intros E. assert (y = 0) by (apply E; left; reflexivity).
      assert (zsum ys = 0) by (apply IH; intros x Hx; apply E; right; exact Hx). lia.
Qed.

Lemma zsum_map_nonneg {A} (f : A -> Z) l : (forall x, In x l -> 0 <= f x) -> 0 <= zsum (map f l).
Proof.
  intros H. apply zsum_nonneg. intros y Hy. apply in_map_iff in Hy. destruct Hy as [x [E Hx]]. subst. apply H. exact Hx.
Qed.

Lemma zsum_map_zero {A} (f : A -> Z) l :
  (forall x, In x l -> 0 <= f x) -> (zsum (map f l) = 0 <-> forall x, In x l -> f x = 0).
Proof.
  intros H. rewrite zsum_zero.
  - split.
    + intros E x Hx. apply E. apply in_map. exact Hx.
    + intros E y Hy. apply in_map_iff in Hy. destruct Hy as [x [Ex Hx]]. subst. apply E. exact Hx.
  - intros y Hy. apply in_map_iff in Hy. destruct Hy as [x [E Hx]]. subst. apply H. exact Hx.
Qed.

(* ------------------------------------------------------------------ time windows *)
Definition on_time (I : inst) (st : vstate) : Prop :=
  forall r a c t e, In (r, a) (combine (routes st) (arrivals st)) -> In (c, t) (combine r a) ->
    c_twe (cget I c) = Some e -> t <= e.

Lemma late_nonneg I ca : 0 <= late I ca.
Proof. unfold late. destruct (c_twe (cget I (fst ca))) as [e|]; [|lia]. destruct (Z.ltb_spec e (snd ca)); lia. Qed.

Lemma late_zero I c t : late I (c, t) = 0 <-> (forall e, c_twe (cget I c) = Some e -> t <= e).
Proof.
  unfold late. simpl. destruct (c_twe (cget I c)) as [e|].
  - destruct (Z.ltb_spec e t) as [Hlt|Hge]; split.
    + lia.
    + intros H. specialize (H e eq_refl). lia.
    + intros _ e' E. inversion E; subst. exact Hge.
    + reflexivity.
  - split; [intros _ e E; discriminate | reflexivity].
Qed.

Lemma tw_violation_nonneg I st : 0 <= tw_violation I st.
Proof.
  unfold tw_violation. apply zsum_map_nonneg. intros ra _. apply zsum_map_nonneg. intros ca _. apply late_nonneg.
Qed.

Theorem tw_violation_zero I st : tw_violation I st = 0 <-> on_time I st.
Proof.
  unfold tw_violation, on_time. rewrite zsum_map_zero.
  - split.
    + intros H r a c t e Hra Hct Htw. specialize (H (r, a) Hra). simpl in H.
      rewrite zsum_map_zero in H by (intros ca _; apply late_nonneg).
      specialize (H (c, t) Hct). exact (proj1 (late_zero I c t) H e Htw).
    + intros H [r a] Hra. simpl. rewrite zsum_map_zero by (intros ca _; apply late_nonneg).
      intros [c t] Hct. apply late_zero. intros e Htw. exact (H r a c t e Hra Hct Htw).
  - intros ra _. apply zsum_map_nonneg. intros ca _. apply late_nonneg.
Qed.

(* ------------------------------------------------------------------ capacity *)
Definition within_capacity (I : inst) (st : vstate) : Prop :=
  forall cap r k, In (cap, r) (combine (caps I) (routes st)) -> cap = Some k -> route_load I r <= k.

Lemma over_nonneg I cr : 0 <= over I cr.
Proof. unfold over. destruct (fst cr) as [k|]; [|lia]. destruct (Z.ltb_spec k (route_load I (snd cr))); lia. Qed.

Lemma cap_violation_nonneg I st : 0 <= cap_violation I st.
Proof. unfold cap_violation. apply zsum_map_nonneg. intros cr _. apply over_nonneg. Qed.

Theorem cap_violation_zero I st : cap_violation I st = 0 <-> within_capacity I st.
Proof.
  unfold cap_violation, within_capacity. rewrite zsum_map_zero by (intros cr _; apply over_nonneg). split.
  - intros H cap r k Hin E. specialize (H (cap, r) Hin). unfold over in H. simpl in H. subst cap.
    destruct (Z.ltb_spec k (route_load I r)); lia.
  - intros H [cap r] Hin. unfold over. simpl. destruct cap as [k|]; [|reflexivity].
    specialize (H (Some k) r k Hin eq_refl). destruct (Z.ltb_spec k (route_load I r)); lia.
Qed.

(* ------------------------------------------------------------------ synchronisation *)
Definition synced (I : inst) (st : vstate) : Prop :=
  forall c, (c < ncust I)%nat -> (1 < c_req (cget I c))%nat ->
    (c_req (cget I c) <= length (visit_times c st))%nat
    /\ forall t1 t2, In t1 (visit_times c st) -> In t2 (visit_times c st) -> t1 = t2.

Lemma fold_max_ge r : forall x, x <= fold_left Z.max r x /\ forall y, In y r -> y <= fold_left Z.max r x.
Proof.
  induction r as [|z zs IH]; intros x; simpl.
  - split; [lia | intros y []].
  - destruct (IH (Z.max x z)) as [H1 H2]. split; [lia|].
    intros y [Hy|Hy]; [subst; lia | apply H2; exact Hy].
Qed.

Lemma fold_min_le r : forall x, fold_left Z.min r x <= x /\ forall y, In y r -> fold_left Z.min r x <= y.
Proof.
  induction r as [|z zs IH]; intros x; simpl.
  - split; [lia | intros y []].
  - destruct (IH (Z.min x z)) as [H1 H2]. split; [lia|].
    intros y [Hy|Hy]; [subst; lia | apply H2; exact Hy].
Qed.

Lemma fold_max_const r : forall x, (forall y, In y r -> y = x) -> fold_left Z.max r x = x.
Proof.
  induction r as [|z zs IH]; intros x H; simpl; [reflexivity|].
  assert (z = x) by (apply H; left; reflexivity). subst z. rewrite Z.max_id.
  apply IH. intros y Hy. apply H. right. exact Hy.
Qed.

Lemma fold_min_const r : forall x, (forall y, In y r -> y = x) -> fold_left Z.min r x = x.
Proof.
  induction r as [|z zs IH]; intros x H; simpl; [reflexivity|].
  assert (z = x) by (apply H; left; reflexivity). subst z. rewrite Z.min_id.
  apply IH. intros y Hy. apply H. right. exact Hy.
Qed.

Lemma spread_nonneg l : 0 <= zmax_list l - zmin_list l.
Proof.
  destruct l as [|x r]; simpl; [lia|]. pose proof (proj1 (fold_max_ge r x)). pose proof (proj1 (fold_min_le r x)). lia.
Qed.

Lemma spread_zero l : zmax_list l - zmin_list l = 0 <-> forall t1 t2, In t1 l -> In t2 l -> t1 = t2.
Proof.
  destruct l as [|x r]; simpl.
  - split; [intros _ t1 t2 [] | reflexivity].
  - destruct (fold_max_ge r x) as [M1 M2]. destruct (fold_min_le r x) as [N1 N2]. split.
    + intros E.
      assert (Hall : forall t, x = t \/ In t r -> t = fold_left Z.max r x).
      { intros t [Ht|Ht]; [subst t; lia | specialize (M2 t Ht); specialize (N2 t Ht); lia]. }
      intros t1 t2 H1 H2. rewrite (Hall t1 H1), (Hall t2 H2). reflexivity.
    + intros H. assert (Hc : forall y, In y r -> y = x).
      { intros y Hy. apply H; [right; exact Hy | left; reflexivity]. }
      rewrite (fold_max_const r x Hc), (fold_min_const r x Hc). lia.
Qed.

Lemma sync_term_nonneg I st c : 0 <= sync_term I st c.
Proof.
  unfold sync_term. destruct (c_req (cget I c) <=? 1)%nat; [lia|].
  destruct (Nat.ltb_spec (length (visit_times c st)) (c_req (cget I c))); [lia|].
  destruct (1 <? length (visit_times c st))%nat; [apply spread_nonneg | lia].
Qed.

Lemma sync_term_zero I st c :
  sync_term I st c = 0 <->
  ((1 < c_req (cget I c))%nat ->
     (c_req (cget I c) <= length (visit_times c st))%nat
     /\ forall t1 t2, In t1 (visit_times c st) -> In t2 (visit_times c st) -> t1 = t2).
Proof.
  unfold sync_term. destruct (Nat.leb_spec (c_req (cget I c)) 1) as [Hle|Hgt].
  - split; [intros _ H; lia | reflexivity].
  - destruct (Nat.ltb_spec (length (visit_times c st)) (c_req (cget I c))) as [Hlt|Hge].
    + split; [lia | intros H; specialize (H Hgt); lia].
    + destruct (Nat.ltb_spec 1 (length (visit_times c st))) as [H1|H1]; [|lia].
      rewrite spread_zero. split; [intros H _; split; [exact Hge | exact H] | intros H; apply H; exact Hgt].
Qed.

Lemma sync_violation_nonneg I st : 0 <= sync_violation I st.
Proof. unfold sync_violation. apply zsum_map_nonneg. intros c _. apply sync_term_nonneg. Qed.

Theorem sync_violation_zero I st : sync_violation I st = 0 <-> synced I st.
Proof.
  unfold sync_violation, synced. rewrite zsum_map_zero by (intros c _; apply sync_term_nonneg). split.
  - intros H c Hc Hreq. assert (Hin : In c (seq 0 (ncust I))) by (apply in_seq; lia).
    exact (proj1 (sync_term_zero I st c) (H c Hin) Hreq).
  - intros H c Hin. apply in_seq in Hin. apply sync_term_zero. intros Hreq. apply H; [lia | exact Hreq].
Qed.

(* ------------------------------------------------------------------ the whole sum *)
Definition pos_penalties (W : weights) : bool :=
  (0 <? w_tw W) && (0 <? w_cap W) && (0 <? w_sync W) && (0 <? w_un W).

(* with positive penalty weights the objective is the plain routing cost exactly when nothing is violated,
   and is larger otherwise *)
Theorem objective_no_penalty_iff W I st :
  pos_penalties W = true ->
  w_dist W * total_distance I st + w_veh W * vehicles_used st <= objective W I st
  /\ (objective W I st = w_dist W * total_distance I st + w_veh W * vehicles_used st
      <-> unassigned st = [] /\ on_time I st /\ within_capacity I st /\ synced I st).
Proof.
  unfold pos_penalties. intros H.
  apply andb_true_iff in H. destruct H as [H H4]. apply andb_true_iff in H. destruct H as [H H3].
  apply andb_true_iff in H. destruct H as [H1 H2].
  apply Z.ltb_lt in H1, H2, H3, H4.
  pose proof (tw_violation_nonneg I st) as P1. pose proof (cap_violation_nonneg I st) as P2.
  pose proof (sync_violation_nonneg I st) as P3.
  assert (P4 : 0 <= Z.of_nat (length (unassigned st))) by lia.
  rewrite <- tw_violation_zero, <- cap_violation_zero, <- sync_violation_zero.
  assert (Hun : unassigned st = [] <-> Z.of_nat (length (unassigned st)) = 0).
  { destruct (unassigned st); simpl; split; intros E; try reflexivity; try discriminate; lia. }
  rewrite Hun. unfold objective.
  set (a := tw_violation I st) in *. set (b := cap_violation I st) in *. set (s := sync_violation I st) in *.
  set (u := Z.of_nat (length (unassigned st))) in *.
  set (base := w_dist W * total_distance I st + w_veh W * vehicles_used st).
  split; [nia|]. split.
  - intros E. assert (w_tw W * a = 0 /\ w_cap W * b = 0 /\ w_sync W * s = 0 /\ w_un W * u = 0) by nia.
    nia.
  - intros [Eu [Ea [Eb Es]]]. rewrite Eu, Ea, Eb, Es. lia.
Qed.
