(* Shared helpers for the generated correspondence files (coq/Cases/<id>/*.v).
   Definitions only; nothing here is specific to one property. *)
From Coq Require Import List ZArith Bool Arith.
Import ListNotations.

(* indices (from 0) of the cases on which the boolean check fails *)
Fixpoint failing_from {A} (i : nat) (f : A -> bool) (l : list A) : list nat :=
  match l with
  | [] => []
  | x :: xs => if f x then failing_from (S i) f xs else i :: failing_from (S i) f xs
  end.
Definition failing {A} (f : A -> bool) (l : list A) : list nat := failing_from 0 f l.

Lemma failing_from_nil_forallb {A} (f : A -> bool) l : forall i,
  failing_from i f l = [] -> forallb f l = true.
Proof.
  induction l as [|x xs IH]; intros i H; simpl in *; [reflexivity|].
  destruct (f x); [apply (IH (S i)); exact H | discriminate].
Qed.

Lemma failing_nil_forall {A} (f : A -> bool) l :
  failing f l = [] -> forall x, In x l -> f x = true.
Proof.
  intros H. apply forallb_forall. exact (failing_from_nil_forallb f l 0 H).
Qed.

(* list equality helpers used by observable comparison *)
Fixpoint list_eqb {A} (eqb : A -> A -> bool) (a b : list A) : bool :=
  match a, b with
  | [], [] => true
  | x :: xs, y :: ys => eqb x y && list_eqb eqb xs ys
  | _, _ => false
  end.

Definition option_eqb {A} (eqb : A -> A -> bool) (a b : option A) : bool :=
  match a, b with
  | None, None => true
  | Some x, Some y => eqb x y
  | _, _ => false
  end.

Definition pair_eqb {A B} (ea : A -> A -> bool) (eb : B -> B -> bool) (a b : A * B) : bool :=
  ea (fst a) (fst b) && eb (snd a) (snd b).
