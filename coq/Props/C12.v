(* C12 - Rust and Python back-ends are observably equivalent: property theorems.
   Rust-side models: SV.C12.Rs* (kernel of rust/src/algorithms/*.rs composed with its adapter in
   solvor/rust/adapters.py).  Python-side models: SV.C11 (floyd_warshall, bellman_ford), SV.C13 (kruskal),
   SV.C14 (topological_sort_edges).  Every theorem quantifies over all valid inputs (node indices in range),
   validity being the boolean predicate of the Python-side model (what the Python code accepts without ValueError). *)
From Coq Require Import List ZArith Bool Arith.
From SV Require Import C11.Paths C11.FloydWarshall C11.BellmanFord C13.Mst C14.Scc C14.SccSpec.
From SV Require Import C11.Bfs C12.RsSearch.
From SV Require Import C12.RsShortest C12.RsKruskal C12.RsScc C12.FwEquiv C12.BfEquiv C12.KruskalEquiv C12.TopoEquiv C12.BfsEquiv.
Import ListNotations.

(* (1) floyd_warshall: same status (UNBOUNDED rule included) and the same distance matrix, directed and undirected *)
Theorem C12_fw : forall n edges directed, FW.valid_input n edges = true ->
  RsFW.floyd_warshall n edges directed = FW.floyd_warshall n edges directed.
Proof. exact fw_equiv. Qed.
Print Assumptions C12_fw.

(* (2) bellman_ford: same status, same distances, same path and objective, with and without target *)
Theorem C12_bf : forall start edges n target, BF.valid_input start edges n target = true ->
  RsBF.bellman_ford start edges n target = BF.bellman_ford start edges n target.
Proof. exact bf_equiv. Qed.
Print Assumptions C12_bf.

(* (3) topological_sort_edges: both back-ends return valid topological orders of the same graph (Rust pops a stack,
   Python a FIFO queue: the orders differ) or both report INFEASIBLE (a cycle exists); no fuel exhaustion *)
Theorem C12_topo : forall n edges, evalidb n edges = true ->
  exists out_rs out_py,
    RsScc.topo_edges n edges = Some out_rs /\ Scc.topo_edges n edges = Some out_py /\
    topo_spec (graph_of_edges n edges) (seq 0 n) out_rs /\
    topo_spec (graph_of_edges n edges) (seq 0 n) out_py /\
    (out_rs = None <-> out_py = None).
Proof. exact topo_equiv. Qed.
Print Assumptions C12_topo.

(* (4) kruskal: same status, the same edge list and the same total weight (stronger than equal weight), for both
   values of allow_forest; the union-find models never run out of fuel *)
Theorem C12_kruskal_weight : forall n edges allow_forest, kruskal_valid n edges = true ->
  RsKruskal.kruskal n edges allow_forest = RsKruskal.py_kruskal n edges allow_forest /\
  exists o, RsKruskal.py_kruskal n edges allow_forest = Some o.
Proof. exact kruskal_equiv. Qed.
Print Assumptions C12_kruskal_weight.

(* (5) bfs_edges.  Full statement (all targets): identical result, in particular the identical shortest path.
   (bfs() has an iteration cap; since dd63c7e bfs_edges passes max(1_000_000, n + |edges| + 1), which the model
   carries and which is never reached, so no size bound is needed.)  Not finished: the case target = Some t
   needs, in addition to the lock-step simulation proved in BfsEquiv.v, the agreement of the two path
   reconstructions (Rust walks the predecessor array until it meets the source, Python walks the parent dict until
   a node without parent). *)
Definition C12_bfs_full_statement : Prop :=
  forall n edges source target, ES.valid_input n edges source target = true ->
  RsSearch.bfs_edges n edges source target = PyEdges.bfs_edges n edges source target /\
  exists r, PyEdges.bfs_edges n edges source target = Some r.

(* proved part: target = None - the same sorted list of reachable nodes, no fuel exhaustion *)
Theorem C12_bfs_partial : forall n edges source,
  ES.valid_input n edges source None = true ->
  RsSearch.bfs_edges n edges source None = PyEdges.bfs_edges n edges source None /\
  exists l, PyEdges.bfs_edges n edges source None = Some (ES.Reach l).
Proof. exact bfs_reach_equiv. Qed.
Print Assumptions C12_bfs_partial.

(* ---------------------------------------------------------------- non-vacuity *)
(* the witness of the fixed adapter defect: undirected, anti-parallel arcs of different weight *)
Example C12_fw_witness_example :
  FW.valid_input 2 [(0%nat, 1%nat, 5%Z); (1%nat, 0%nat, 2%Z)] = true /\
  RsFW.floyd_warshall 2 [(0%nat, 1%nat, 5%Z); (1%nat, 0%nat, 2%Z)] false
  = FW.Dist [[Some 0%Z; Some 2%Z]; [Some 2%Z; Some 0%Z]].
Proof. vm_compute. split; reflexivity. Qed.

Example C12_fw_unbounded_example :
  FW.valid_input 3 [(0%nat, 1%nat, 1%Z); (1%nat, 2%nat, (-1)%Z); (2%nat, 0%nat, (-1)%Z)] = true /\
  RsFW.floyd_warshall 3 [(0%nat, 1%nat, 1%Z); (1%nat, 2%nat, (-1)%Z); (2%nat, 0%nat, (-1)%Z)] true = FW.Unbounded.
Proof. vm_compute. split; reflexivity. Qed.

Example C12_bf_example :
  BF.valid_input 0 [(0%nat, 1%nat, 4%Z); (0%nat, 2%nat, 5%Z); (1%nat, 2%nat, (-3)%Z)] 3 (Some 2%nat) = true /\
  RsBF.bellman_ford 0 [(0%nat, 1%nat, 4%Z); (0%nat, 2%nat, 5%Z); (1%nat, 2%nat, (-3)%Z)] 3 (Some 2%nat)
  = BF.Path [0%nat; 1%nat; 2%nat] 1%Z.
Proof. vm_compute. split; reflexivity. Qed.

Local Open Scope nat_scope.
(* the two back-ends give DIFFERENT valid orders here *)
Example C12_topo_example :
  evalidb 4 [(3, 1); (2, 1); (0, 2); (0, 3)] = true /\
  RsScc.topo_edges 4 [(3, 1); (2, 1); (0, 2); (0, 3)] = Some (Some [0; 3; 2; 1]) /\
  Scc.topo_edges 4 [(3, 1); (2, 1); (0, 2); (0, 3)] = Some (Some [0; 2; 3; 1]).
Proof. vm_compute. repeat split; reflexivity. Qed.

Example C12_topo_cycle_example :
  RsScc.topo_edges 3 [(0, 1); (1, 2); (2, 0)] = Some None /\ Scc.topo_edges 3 [(0, 1); (1, 2); (2, 0)] = Some None.
Proof. vm_compute. split; reflexivity. Qed.

Example C12_kruskal_example :
  kruskal_valid 3 [(1%nat, 0%nat, 2%Z); (2%nat, 0%nat, 1%Z); (2%nat, 0%nat, 3%Z)] = true /\
  RsKruskal.kruskal 3 [(1%nat, 0%nat, 2%Z); (2%nat, 0%nat, 1%Z); (2%nat, 0%nat, 3%Z)] false
  = Some (OPTIMAL, Some [(2%nat, 0%nat, 1%Z); (1%nat, 0%nat, 2%Z)], Some 3%Z).
Proof. vm_compute. split; reflexivity. Qed.

Example C12_bfs_example :
  ES.valid_input 4 [(0, 2); (0, 1); (2, 3)] 0 None = true /\
  RsSearch.bfs_edges 4 [(0, 2); (0, 1); (2, 3)] 0 None = Some (ES.Reach [0; 1; 2; 3]) /\
  RsSearch.bfs_edges 4 [(0, 2); (0, 1); (2, 3)] 0 (Some 3) = PyEdges.bfs_edges 4 [(0, 2); (0, 1); (2, 3)] 0 (Some 3).
Proof. vm_compute. repeat split; reflexivity. Qed.
