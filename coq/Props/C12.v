(* C12 - property theorems (filled in as proofs land) *)
From Coq Require Import List ZArith Bool Arith.
From SV Require Import C11.Paths C11.FloydWarshall C12.RsShortest.
Import ListNotations.

Example C12_fw_witness_example :
  RsFW.floyd_warshall 2 [(0%nat, 1%nat, 5%Z); (1%nat, 0%nat, 2%Z)] false = FW.floyd_warshall 2 [(0%nat, 1%nat, 5%Z); (1%nat, 0%nat, 2%Z)] false.
Proof. vm_compute. reflexivity. Qed.
