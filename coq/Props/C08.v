(* Property C08: max_flow (solvor/flow.py) returns a feasible flow whose value is the maximum.
   Only statements + `exact <lemma>`; the proofs are in C08/MaxFlow{Sums,Maps,Aug,Bfs,Duality,Proofs,Pinned}.v.
   Model: C08/MaxFlow.v (max_flow = the code after commit f2b9028; max_flow_pinned = the code before it).
   Specification: C08/MaxFlowSpec.v (DESIGN.md Appendix A: cap_of, net_out, feasible_flow, flow_value, is_max_flow).
   valid_input g s t = source <> sink and all capacities >= 0 (max_flow(g, s, s) does not return). *)
From Coq Require Import List ZArith Bool.
Import ListNotations.
From SV Require Import C08.MaxFlow C08.MaxFlowSpec.
From SV Require C08.MaxFlowAug C08.MaxFlowBfs C08.MaxFlowDuality C08.MaxFlowProofs C08.MaxFlowPinned.
Open Scope Z_scope.

(* (1) one augmentation along a simple path of positive residual capacity, with the cancel-reverse-flow-first
   rule, keeps 0 <= flow <= capacity and conservation, moves `path_flow > 0` units from s to t *)
Theorem aug_preserves : forall cap V s t flow total p d,
  NoDup V -> (forall x, In x p -> In x V) -> s <> t ->
  MaxFlowAug.flow_inv cap V s t flow total -> MaxFlowAug.aug_path cap flow s t p ->
  path_flow cap flow p = Some d ->
  0 < d /\ MaxFlowAug.flow_inv cap V s t (augment flow d p) (total + d).
Proof. exact MaxFlowAug.aug_preserves. Qed.
Print Assumptions aug_preserves.

(* (2) the returned dictionary is a feasible flow ... *)
Theorem C08_feasible : forall g s t, valid_input g s t = true -> forall r, max_flow g s t = Some r ->
  feasible_flow (nodes_of (arcs g) s t) (arcs g) s t (fmap_of (solution r)).
Proof. exact MaxFlowProofs.max_flow_feasible. Qed.
Print Assumptions C08_feasible.

(* ... whose net flow into the sink (and out of the source) is the reported objective *)
Theorem C08_value : forall g s t, valid_input g s t = true -> forall r, max_flow g s t = Some r ->
  flow_value (nodes_of (arcs g) s t) (fmap_of (solution r)) t = objective r
  /\ net_out (nodes_of (arcs g) s t) (fmap_of (solution r)) s = objective r.
Proof. exact MaxFlowProofs.max_flow_value. Qed.
Print Assumptions C08_value.

(* (3) when BFS returns None the visited set contains the source, not the sink, and is closed under ALL arcs
   of positive residual capacity - because after f2b9028 every residual arc is a key of capacity[node] *)
Theorem bfs_closed : forall g s t flow vis,
  MaxFlowAug.bounded (build_capacity true g) flow ->
  bfs (build_capacity true g) flow s t = Some (inr vis) ->
  In s vis /\ ~ In t vis
  /\ forall u v, In u vis -> 0 < residual (build_capacity true g) flow u v -> In v vis.
Proof. exact MaxFlowProofs.bfs_closed. Qed.
Print Assumptions bfs_closed.

(* a returned path is a simple s-t path inside the visited set with positive residual capacity on every arc *)
Theorem bfs_path : forall cap flow s t (P : nat -> Prop), P s -> (forall u x, In x (keys (nget cap u)) -> P x) ->
  forall r, bfs cap flow s t = Some r -> MaxFlowBfs.bfs_post cap flow s t P r.
Proof. exact MaxFlowBfs.bfs_spec. Qed.
Print Assumptions bfs_path.

(* (4) weak duality: any feasible flow, any s-t cut *)
Theorem weak_duality : forall V s t inS, NoDup V -> In t V -> inS s = true -> inS t = false ->
  forall g f, feasible_flow V g s t f -> flow_value V f t <= cut_cap V g inS.
Proof. exact MaxFlowDuality.weak_duality_cut. Qed.
Print Assumptions weak_duality.

(* (5) maximality, no augmenting path, objective = capacity of a minimum cut *)
Theorem C08_max : forall g s t, valid_input g s t = true -> forall r, max_flow g s t = Some r ->
  is_max_flow (nodes_of (arcs g) s t) (arcs g) s t (fmap_of (solution r)).
Proof. exact MaxFlowProofs.max_flow_max. Qed.
Print Assumptions C08_max.

Theorem C08_no_augmenting_path : forall g s t, valid_input g s t = true -> forall r, max_flow g s t = Some r ->
  no_augmenting_path (nodes_of (arcs g) s t) (arcs g) s t (fmap_of (solution r)).
Proof. exact MaxFlowProofs.max_flow_no_augmenting_path. Qed.
Print Assumptions C08_no_augmenting_path.

Theorem C08_min_cut : forall g s t, valid_input g s t = true -> forall r, max_flow g s t = Some r ->
  exists inS, inS s = true /\ inS t = false
    /\ cut_cap (nodes_of (arcs g) s t) (arcs g) inS = objective r
    /\ forall inS', inS' s = true -> inS' t = false -> objective r <= cut_cap (nodes_of (arcs g) s t) (arcs g) inS'.
Proof. exact MaxFlowProofs.max_flow_min_cut. Qed.
Print Assumptions C08_min_cut.

(* the whole property in the form of MaxFlowSpec.Spec (maximum + value + no augmenting path) *)
Theorem C08_spec : forall g s t, valid_input g s t = true -> forall r, max_flow g s t = Some r ->
  Spec (arcs g) s t (solution r) (objective r).
Proof. exact MaxFlowProofs.max_flow_spec. Qed.
Print Assumptions C08_spec.

(* fuel: the model never runs out of fuel on a valid input (BFS fuel and outer-loop fuel) *)
Theorem C08_terminates : forall g s t, valid_input g s t = true -> max_flow g s t <> None.
Proof. exact MaxFlowProofs.max_flow_terminates. Qed.
Print Assumptions C08_terminates.

(* the boolean checker evaluated by the harness on the IMPLEMENTATION's outputs is sound *)
Theorem C08_spec_check_sound : forall g s t sol obj, spec_check g s t sol obj = true -> Spec g s t sol obj.
Proof. exact MaxFlowDuality.spec_check_sound. Qed.
Print Assumptions C08_spec_check_sound.

(* (6) the pinned code (without `capacity[v][u] += 0`) returns 1 on the witness; a feasible flow of value 2 exists *)
Theorem C08_pinned_refuted :
  exists g s t r,
    valid_input g s t = true /\ max_flow_pinned g s t = Some r /\ objective r = 1
    /\ flow_value (nodes_of (arcs g) s t) (fmap_of (solution r)) t = 1
    /\ (exists f', feasible_flow (nodes_of (arcs g) s t) (arcs g) s t f'
                   /\ flow_value (nodes_of (arcs g) s t) f' t = 2)
    /\ ~ is_max_flow (nodes_of (arcs g) s t) (arcs g) s t (fmap_of (solution r)).
Proof. exact MaxFlowPinned.pinned_refuted. Qed.
Print Assumptions C08_pinned_refuted.

(* non-vacuity *)
Example C08_nonvacuous : exists r, max_flow witness_graph 0 5 = Some r /\ objective r = 2
  /\ valid_input witness_graph 0 5 = true /\ spec_check (arcs witness_graph) 0 5 (solution r) (objective r) = true.
Proof. eexists. split; [vm_compute; reflexivity|]. vm_compute. auto. Qed.

Example C08_nonvacuous_pinned : exists r, max_flow_pinned witness_graph 0 5 = Some r /\ objective r = 1
  /\ spec_check (arcs witness_graph) 0 5 (solution r) (objective r) = false.
Proof. eexists. split; [vm_compute; reflexivity|]. vm_compute. auto. Qed.
