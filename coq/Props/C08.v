(* Property C08 (work in progress: theorems are added as they are proved). *)
From Coq Require Import List ZArith.
Import ListNotations.
From SV Require Import C08.MaxFlow C08.MaxFlowSpec.

Example C08_nonvacuous : exists r, max_flow witness_graph 0 5 = Some r /\ objective r = 2%Z.
Proof. vm_compute. eauto. Qed.
