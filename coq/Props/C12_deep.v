(* C12 (deepening) - Rust and Python back-ends are observably equivalent: bfs_edges with a target, dijkstra_edges,
   strongly_connected_components_edges, dfs_edges, pagerank_edges.  Models: SV.C12.Rs* (Rust kernel + adapter),
   SV.C12.PyDijkstra / RsSearch.PyEdges / RsPageRank (Python wrappers) on top of SV.C11 / C14 / C15.
   Every hypothesis is a boolean predicate on the inputs (indices in range; non-negative weights for dijkstra);
   fuel exhaustion of either model is excluded by each theorem (both sides return `Some _`). *)
From Coq Require Import List ZArith Bool Arith QArith.
From SV Require Import C11.Paths C11.Bfs C12.RsSearch C12.BfsEquiv C12.RsShortest C12.PyDijkstra C12.RsScc C12.RsPageRank.
From SV Require Import C14.Scc C14.SccSpec C15.Graph C15.PageRank C12.TopoEquiv.
From SV Require Import C12.DeepBfs C12.DeepDij1 C12.DeepDij4 C12.DeepScc C12.DeepDfs3 C12.DeepPageRank.
Import ListNotations.
Local Open Scope nat_scope.

(* (1) bfs_edges with a target: the two back-ends return the IDENTICAL result (status, path, objective = hop count);
   the path is a walk source -> target in the graph of the edge list and no walk is shorter; INFEASIBLE on both
   sides iff the target is unreachable.  (successor function of the edge list: BfsEquiv.out_of) *)
Theorem C12_bfs : forall n edges source t,
  ES.valid_input n edges source (Some t) = true ->
  RsSearch.bfs_edges n edges source (Some t) = PyEdges.bfs_edges n edges source (Some t) /\
  ((exists p, PyEdges.bfs_edges n edges source (Some t)
              = Some (ES.Found ES.OPTIMAL p (Z.of_nat (length p) - 1)) /\
              Paths.is_path (BfsEquiv.out_of edges) source t p /\
              forall q, Paths.is_path (BfsEquiv.out_of edges) source t q -> length p <= length q)
   \/ (PyEdges.bfs_edges n edges source (Some t) = Some (ES.NotFound ES.INFEASIBLE) /\
       ~ Paths.reach (BfsEquiv.out_of edges) source t)).
Proof. exact bfs_target_equiv. Qed.
Print Assumptions C12_bfs.

(* the statement kept as `C12_bfs_full_statement` in Props/C12.v, now closed: identical results for every target *)
Theorem C12_bfs_full : forall n edges source target, ES.valid_input n edges source target = true ->
  RsSearch.bfs_edges n edges source target = PyEdges.bfs_edges n edges source target /\
  exists r, PyEdges.bfs_edges n edges source target = Some r.
Proof. exact bfs_full_equiv. Qed.
Print Assumptions C12_bfs_full.

(* (2) dijkstra_edges, non-negative weights.  With a target: same status; when reachable both return a path that is
   a walk source -> target of the edge list whose weight is the common reported distance d, and d is the
   shortest-walk distance; otherwise both INFEASIBLE.  (The two paths may differ: ties are broken differently.) *)
Theorem C12_dijkstra : forall n edges source t, dij_valid n edges source (Some t) = true ->
  (exists p q d, RsDij.dijkstra n edges source (Some t) = Some (RsDij.Path p d) /\
                 PyDij.dijkstra_edges n edges source (Some t) = Some (RsDij.Path q d) /\
                 walk edges source t p d /\ walk edges source t q d /\ is_dist edges source t d)
  \/ (RsDij.dijkstra n edges source (Some t) = Some RsDij.Infeasible /\
      PyDij.dijkstra_edges n edges source (Some t) = Some RsDij.Infeasible /\
      ~ reachable edges source t).
Proof. exact dijkstra_equiv_target. Qed.
Print Assumptions C12_dijkstra.

(* without a target: the same distance vector, which holds the shortest-walk distance of every reachable node
   and inf (None) for the others *)
Theorem C12_dijkstra_dists : forall n edges source, dij_valid n edges source None = true ->
  exists dv, RsDij.dijkstra n edges source None = Some (RsDij.Dists dv) /\
             PyDij.dijkstra_edges n edges source None = Some (RsDij.Dists dv) /\
             length dv = n /\
             forall v, v < n -> match nth v dv None with
                                | Some d => is_dist edges source v d
                                | None => ~ reachable edges source v
                                end.
Proof. exact dijkstra_equiv_dists. Qed.
Print Assumptions C12_dijkstra_dists.

(* (3) strongly_connected_components_edges: the same component list (same order), a partition of 0..n-1 into the
   classes of mutual reachability *)
Theorem C12_scc : forall n edges, evalidb n edges = true ->
  exists cs, RsScc.scc_edges n edges = Some cs /\ Scc.scc_edges n edges = Some cs /\
             is_partition (seq 0 n) cs /\
             forall x y, x < n -> y < n ->
               ((exists c, In c cs /\ In x c /\ In y c) <->
                (SccSpec.reach (graph_of_edges n edges) (seq 0 n) x y /\
                 SccSpec.reach (graph_of_edges n edges) (seq 0 n) y x)).
Proof. exact scc_both_classes. Qed.
Print Assumptions C12_scc.

(* (4) dfs_edges.  With a target: reachable -> both FEASIBLE with valid paths (they may differ), unreachable -> both
   INFEASIBLE.  Without: the same sorted list, exactly the reachable nodes. *)
Theorem C12_dfs : forall n edges source t, ES.valid_input n edges source (Some t) = true ->
  (Paths.reach (BfsEquiv.out_of edges) source t /\
     exists p q, RsSearch.dfs_edges n edges source (Some t) = Some (ES.Found ES.FEASIBLE p (Z.of_nat (length p) - 1)) /\
                 PyEdges.dfs_edges n edges source (Some t) = Some (ES.Found ES.FEASIBLE q (Z.of_nat (length q) - 1)) /\
                 Paths.is_path (BfsEquiv.out_of edges) source t p /\ Paths.is_path (BfsEquiv.out_of edges) source t q)
  \/ (~ Paths.reach (BfsEquiv.out_of edges) source t /\
      RsSearch.dfs_edges n edges source (Some t) = Some (ES.NotFound ES.INFEASIBLE) /\
      PyEdges.dfs_edges n edges source (Some t) = Some (ES.NotFound ES.INFEASIBLE)).
Proof. exact dfs_equiv_target. Qed.
Print Assumptions C12_dfs.

Theorem C12_dfs_reach : forall n edges source, ES.valid_input n edges source None = true ->
  exists l, RsSearch.dfs_edges n edges source None = Some (ES.Reach l) /\
            PyEdges.dfs_edges n edges source None = Some (ES.Reach l) /\
            (forall v, In v l <-> Paths.reach (BfsEquiv.out_of edges) source v).
Proof. exact dfs_equiv_reach. Qed.
Print Assumptions C12_dfs_reach.

(* (5) pagerank_edges over Q with the stopping rule max |delta| < tol on both sides: identical sweeps, hence the same
   scores (Leibniz-equal reduced rationals), the same converged flag / status and the same iteration count *)
Theorem C12_pagerank : forall n edges d tol max_iter, forallb (RsPR.edge_ok n) edges = true ->
  let '(s, it, cv) := RsPR.pagerank_edges n edges d tol max_iter in
  RsPR.py_obs n (RsPR.py_pagerank_edges n edges d tol max_iter) = Some (s, cv) /\
  match RsPR.py_pagerank_edges n edges d tol max_iter with
  | PR_ok r => p_iterations r = it
  | PR_noiter _ => it = 0%nat
  | PR_empty => it = 0%nat
  end.
Proof. exact pagerank_equiv. Qed.
Print Assumptions C12_pagerank.

(* ---------------------------------------------------------------- non-vacuity *)
Example C12_bfs_target_example :
  ES.valid_input 5 [(0,2);(0,1);(1,3);(2,3)] 0 (Some 3) = true /\
  RsSearch.bfs_edges 5 [(0,2);(0,1);(1,3);(2,3)] 0 (Some 3) = Some (ES.Found ES.OPTIMAL [0;2;3] 2) /\
  PyEdges.bfs_edges 5 [(0,2);(0,1);(1,3);(2,3)] 0 (Some 3) = Some (ES.Found ES.OPTIMAL [0;2;3] 2) /\
  ES.valid_input 5 [(0,2);(0,1);(1,3);(2,3)] 0 (Some 4) = true /\
  RsSearch.bfs_edges 5 [(0,2);(0,1);(1,3);(2,3)] 0 (Some 4) = Some (ES.NotFound ES.INFEASIBLE).
Proof. vm_compute. repeat split; reflexivity. Qed.

Definition dij_ex : wgraph := [(0,2,1%Z);(0,1,1%Z);(1,3,1%Z);(2,3,1%Z);(3,4,0%Z);(0,3,5%Z)].
Example C12_dijkstra_example :
  dij_valid 6 dij_ex 0 (Some 4) = true /\
  RsDij.dijkstra 6 dij_ex 0 (Some 4) = Some (RsDij.Path [0;2;3;4] 2) /\
  PyDij.dijkstra_edges 6 dij_ex 0 (Some 4) = Some (RsDij.Path [0;2;3;4] 2) /\
  dij_valid 6 dij_ex 0 (Some 5) = true /\
  RsDij.dijkstra 6 dij_ex 0 (Some 5) = Some RsDij.Infeasible /\
  dij_valid 6 dij_ex 0 None = true /\
  RsDij.dijkstra 6 dij_ex 0 None = Some (RsDij.Dists [Some 0%Z; Some 1%Z; Some 1%Z; Some 2%Z; Some 2%Z; None]) /\
  dij_valid 6 [(0,1,(-1)%Z)] 0 None = false.
Proof. vm_compute. repeat split; reflexivity. Qed.

Example C12_scc_example :
  evalidb 5 [(0,1);(1,2);(2,0);(2,3);(3,4);(4,3)] = true /\
  RsScc.scc_edges 5 [(0,1);(1,2);(2,0);(2,3);(3,4);(4,3)] = Some [[4;3];[2;1;0]] /\
  Scc.scc_edges 5 [(0,1);(1,2);(2,0);(2,3);(3,4);(4,3)] = Some [[4;3];[2;1;0]].
Proof. vm_compute. repeat split; reflexivity. Qed.

(* the two back-ends return DIFFERENT valid paths here *)
Example C12_dfs_example :
  ES.valid_input 5 [(0,1);(0,2);(1,3);(2,3);(3,1)] 0 (Some 3) = true /\
  RsSearch.dfs_edges 5 [(0,1);(0,2);(1,3);(2,3);(3,1)] 0 (Some 3) = Some (ES.Found ES.FEASIBLE [0;1;3] 2) /\
  PyEdges.dfs_edges 5 [(0,1);(0,2);(1,3);(2,3);(3,1)] 0 (Some 3) = Some (ES.Found ES.FEASIBLE [0;2;3] 2) /\
  RsSearch.dfs_edges 5 [(0,1);(0,2);(1,3);(2,3);(3,1)] 0 (Some 4) = Some (ES.NotFound ES.INFEASIBLE) /\
  RsSearch.dfs_edges 5 [(0,1);(0,2);(1,3);(2,3);(3,1)] 0 None = Some (ES.Reach [0;1;2;3]).
Proof. vm_compute. repeat split; reflexivity. Qed.

Example C12_pagerank_example :
  let n := 3%nat in
  let edges := [(0, 1); (1, 2); (2, 0); (0, 2)]%nat in
  let r := RsPR.pagerank_edges n edges (85 # 100) (1 # 1000) 5 in
  forallb (RsPR.edge_ok n) edges = true
  /\ RsPR.py_obs n (RsPR.py_pagerank_edges n edges (85 # 100) (1 # 1000) 5) = Some (fst (fst r), snd r)
  /\ snd (fst r) = 5%nat
  /\ length (fst (fst r)) = 3%nat.
Proof. vm_compute. repeat split. Qed.
