(* Property C09, deepening: the stretch statements of Props/C09.v (min_cost_flow answers OPTIMAL only with a
   minimum-cost flow, and terminates, on every input without a negative-cost cycle of positive capacity) are now
   theorems.  Only statements + `exact <lemma>`; proofs are in C09/Deep*.v:
     DeepWalk (residual walks, loop erasure)   DeepBF (exactness of the in-place Bellman-Ford)
     DeepPar  (parent table, the model's call) DeepPot (potentials <-> no negative cycle, boolean test)
     DeepSSP  (augmentation keeps it)          DeepOpt (optimality)          DeepTerm (termination)
     DeepAssign (solve_assignment, unconditional)   DeepNS (network_simplex: exit condition of the pricing rule). *)
From Coq Require Import List ZArith.
Import ListNotations.
From SV Require Import C09.Mcf C09.McfSpec.
From SV Require C09.McfAug C09.McfBF C09.McfProofs.
From SV Require C09.DeepWalk C09.DeepBF C09.DeepPar C09.DeepPot C09.DeepSSP C09.DeepOpt C09.DeepTerm.
From SV Require Import C09.NetSimplex C09.AssignSpec.
From SV Require C09.DeepAssign C09.DeepNS.
From SV Require Props.C09.
Import Mcf McfSpec.
Import DeepWalk.
Open Scope Z_scope.

(* Vocabulary (DeepWalk.v): redge arcs res e = edge e of the 2m-edge residual list has positive residual capacity;
   rwalk arcs res a p b = p is a chain of such edges from a to b; pcost = sum of their costs;
   NoNegCycle arcs res = every closed rwalk has cost >= 0. *)

(* (1) Bellman-Ford as the model runs it (in place, edges in list order, at most n-1 rounds, early exit when a round
   changes nothing) is exact on a residual graph without negative cycle: dist[v] = Some dv iff dv is the minimum cost of
   a residual walk source ~> v; None iff no residual walk reaches v; and the labels are feasible potentials:
   dist[head] <= dist[tail] + cost on every residual edge whose tail is reached. *)
Theorem C09_bf_exact : forall n arcs res s dist par,
  valid_arcs n arcs = true -> length res = length arcs -> (s < n)%nat ->
  NoNegCycle arcs res ->
  bf_rounds (n - 1) (res_edges 0 arcs res) (upd (repeat None n) s (Some 0)) (repeat None n) = (dist, par) ->
  (forall v dv, nth v dist None = Some dv <->
     (exists p, rwalk arcs res s p v /\ pcost arcs p = dv) /\
     (forall p, rwalk arcs res s p v -> dv <= pcost arcs p)) /\
  (forall v, nth v dist None = None <-> ~ exists p, rwalk arcs res s p v) /\
  (forall e du, redge arcs res e -> nth (e_tail arcs e) dist None = Some du ->
     exists dv, nth (e_head arcs e) dist None = Some dv /\ dv <= du + e_cost arcs e).
Proof. exact DeepPar.bf_exact. Qed.
Print Assumptions C09_bf_exact.

(* the same for an arbitrary set of sources and arbitrary start labels (used with "every node is a source" to get
   potentials): Lw = every finite label is the cost of a residual walk from a source, Uall = every label is <= the cost
   of every residual walk from a source, FP = feasible potentials *)
Theorem C09_bf_exact_general : forall arcs res n (Src : nat -> Prop) es,
  (forall x, In x es -> McfBF.edge_ok arcs res x) ->
  (forall e, (fst e < length arcs)%nat -> In (e, e_tail arcs e, e_head arcs e, e_cost arcs e, e_res res e) es) ->
  (forall e, (fst e < length arcs)%nat -> (e_head arcs e < n)%nat) ->
  forall dist0 par0 d' p',
  NoNegCycle arcs res -> (forall a, Src a -> (a < n)%nat) ->
  length dist0 = n -> DeepBF.Lw arcs res Src dist0 -> DeepBF.Uw arcs res Src 0 dist0 ->
  bf_rounds (n - 1) es dist0 par0 = (d', p') ->
  length d' = n /\ DeepBF.Lw arcs res Src d' /\ DeepBF.Uall arcs res Src d' /\ DeepBF.FP arcs res d' /\
  DeepBF.le_lab dist0 d'.
Proof. exact DeepBF.bf_final. Qed.
Print Assumptions C09_bf_exact_general.

(* (2) augmenting, by any amount, along the path Bellman-Ford returns keeps the residual graph free of negative cycles *)
Theorem C09_ssp_invariant : forall n arcs res s t path d pf tc,
  valid_arcs n arcs = true -> length res = length arcs -> (s < n)%nat ->
  NoNegCycle arcs res ->
  bellman_ford n arcs res s t = BFPath path d ->
  NoNegCycle arcs (fst (augment arcs res path pf tc)).
Proof. exact DeepSSP.ssp_invariant. Qed.
Print Assumptions C09_ssp_invariant.

(* "no negative cycle" is equivalent to the existence of feasible node potentials, and is decided by the boolean test
   DeepPot.no_neg_cycle_b (n-1 rounds of the same relaxation from all-zero labels, then test the labels) *)
Theorem C09_nnc_potentials : forall n arcs res,
  valid_arcs n arcs = true -> length res = length arcs -> NoNegCycle arcs res ->
  exists pi, DeepPot.pot_ok arcs res pi.
Proof. exact DeepPot.nnc_potentials. Qed.
Print Assumptions C09_nnc_potentials.

Theorem C09_potentials_nnc : forall arcs res pi, DeepPot.pot_ok arcs res pi -> NoNegCycle arcs res.
Proof. exact DeepPot.pot_ok_nnc. Qed.
Print Assumptions C09_potentials_nnc.

Theorem C09_no_neg_cycle_b_sound : forall n arcs res, length res = length arcs ->
  DeepPot.no_neg_cycle_b n arcs res = true -> NoNegCycle arcs res.
Proof. exact DeepPot.no_neg_cycle_b_sound. Qed.
Print Assumptions C09_no_neg_cycle_b_sound.

Theorem C09_no_neg_cycle_b_complete : forall n arcs res, valid_arcs n arcs = true -> length res = length arcs ->
  NoNegCycle arcs res -> DeepPot.no_neg_cycle_b n arcs res = true.
Proof. exact DeepPot.no_neg_cycle_b_complete. Qed.
Print Assumptions C09_no_neg_cycle_b_complete.

(* (3) for every valid input whose network (all arcs at their full capacity, no reverse edges) has no negative-cost
   cycle of positive capacity: status OPTIMAL => the final per-arc flow is feasible for `demand` and of minimum cost among
   ALL feasible flows shipping `demand` *)
Theorem C09_mcf_optimal : forall n arcs s t d k,
  valid_input n arcs s t d = true ->
  DeepPot.no_neg_cycle_b n arcs (init_res arcs) = true ->
  mcf_run n arcs s t d = Some k -> k_status k = OPTIMAL ->
  min_cost n arcs (demand_b s t d) (McfAug.flows (k_res k)).
Proof. exact DeepOpt.mcf_optimal_b. Qed.
Print Assumptions C09_mcf_optimal.

(* the hypothesis as a Prop *)
Theorem C09_mcf_optimal_nnc : forall n arcs s t d k,
  valid_input n arcs s t d = true ->
  NoNegCycle arcs (init_res arcs) ->
  mcf_run n arcs s t d = Some k -> k_status k = OPTIMAL ->
  min_cost n arcs (demand_b s t d) (McfAug.flows (k_res k)).
Proof. exact DeepOpt.mcf_optimal_nnc. Qed.
Print Assumptions C09_mcf_optimal_nnc.

(* the statement that Props/C09.v keeps as a Definition (hypothesis: potentials pi0 passing the reduced-cost test on the
   zero flow) *)
Theorem C09_mcf_optimal_full : Props.C09.C09_mcf_optimal_full_statement.
Proof. exact DeepOpt.mcf_optimal_full. Qed.
Print Assumptions C09_mcf_optimal_full.

(* the public Result: dictionary and objective are those of a minimum-cost flow *)
Theorem C09_mcf_public_optimal : forall n arcs s t d r,
  valid_input n arcs s t d = true ->
  DeepPot.no_neg_cycle_b n arcs (init_res arcs) = true ->
  mcf n arcs s t d = Some r -> r_status r = OPTIMAL ->
  optimal_answer n arcs (demand_b s t d) (r_flows r) (r_cost r).
Proof. exact DeepOpt.mcf_public_optimal. Qed.
Print Assumptions C09_mcf_public_optimal.

(* (4) under the same hypothesis the model never runs out of fuel: the parent pointers never close a cycle, so the
   path reconstruction ends within its n steps (BFHang impossible), and every augmentation ships >= 1 unit, so at most
   `demand` augmentations happen *)
Theorem C09_bf_no_hang : forall n arcs res s t,
  valid_arcs n arcs = true -> length res = length arcs -> (s < n)%nat -> (t < n)%nat ->
  NoNegCycle arcs res -> bellman_ford n arcs res s t <> BFHang.
Proof. exact DeepTerm.bf_no_hang. Qed.
Print Assumptions C09_bf_no_hang.

Theorem C09_mcf_terminates : forall n arcs s t d,
  valid_input n arcs s t d = true -> DeepPot.no_neg_cycle_b n arcs (init_res arcs) = true ->
  mcf_run n arcs s t d <> None.
Proof. exact DeepTerm.mcf_terminates_b. Qed.
Print Assumptions C09_mcf_terminates.

Theorem C09_mcf_terminates_nnc : forall n arcs s t d,
  valid_input n arcs s t d = true -> NoNegCycle arcs (init_res arcs) ->
  mcf_run n arcs s t d <> None.
Proof. exact DeepTerm.mcf_terminates_nnc. Qed.
Print Assumptions C09_mcf_terminates_nnc.

Theorem C09_mcf_terminates_full : Props.C09.C09_mcf_terminates_full_statement.
Proof. exact DeepTerm.mcf_terminates_full. Qed.
Print Assumptions C09_mcf_terminates_full.

Theorem C09_mcf_public_terminates : forall n arcs s t d,
  valid_input n arcs s t d = true -> DeepPot.no_neg_cycle_b n arcs (init_res arcs) = true ->
  mcf n arcs s t d <> None.
Proof. exact DeepTerm.mcf_public_terminates. Qed.
Print Assumptions C09_mcf_public_terminates.

(* ================= solve_assignment: unconditional ================= *)
(* the assignment network is layered (source -> L_i -> R_j -> sink), hence has no cycle of positive capacity whatever the
   cost matrix (negative entries included): solve_assignment never runs out of fuel ... *)
Theorem C09_assignment_terminates : forall M, solve_assignment M <> None.
Proof. exact DeepAssign.assignment_terminates. Qed.
Print Assumptions C09_assignment_terminates.

(* ... and an OPTIMAL answer is read off (Mcf.extract) the pooled dictionary of a MINIMUM-COST flow of min(n,m) units on
   that network, whose cost is the reported objective (with Props/C09.v C09_assignment: it is a matching) *)
Theorem C09_assignment_optimal : forall M r,
  solve_assignment M = Some r -> s_status r = OPTIMAL ->
  exists f d,
    min_cost (2 + AssignSpec.rows M + AssignSpec.cols M) (assign_arcs (AssignSpec.rows M) (AssignSpec.cols M) M)
             (AssignSpec.assign_b (AssignSpec.rows M) (AssignSpec.cols M)) f /\
    pooled (assign_arcs (AssignSpec.rows M) (AssignSpec.cols M) M) f d /\
    s_assign r = extract (AssignSpec.rows M) (AssignSpec.cols M) d /\
    s_cost r = flow_cost (assign_arcs (AssignSpec.rows M) (AssignSpec.cols M) M) f.
Proof. exact DeepAssign.assignment_optimal. Qed.
Print Assumptions C09_assignment_optimal.

(* ================= network_simplex: (5), partial ================= *)
(* the exit condition of the pricing rule: when the main loop answers OPTIMAL, every arc (original or artificial) in
   state 1 has reduced cost >= 0 and every arc in state -1 has reduced cost <= 0, for the final potentials *)
Theorem C09_ns_exit_signs : forall n arcs sup fuel mi s it,
  NetSimplex.loop (NetSimplex.mk_consts n arcs sup) fuel mi (NetSimplex.init_st n arcs sup) 0
    = Some (NetSimplex.OPTIMAL, s, it) ->
  forall arc, (arc < length arcs + n)%nat ->
    (NetSimplex.nz (NetSimplex.state s) arc = 1 -> 0 <= NetSimplex.redcost (NetSimplex.mk_consts n arcs sup) s arc) /\
    (NetSimplex.nz (NetSimplex.state s) arc = -1 -> NetSimplex.redcost (NetSimplex.mk_consts n arcs sup) s arc <= 0).
Proof. exact DeepNS.ns_exit_signs. Qed.
Print Assumptions C09_ns_exit_signs.

(* hence the final flow on the original arcs is a minimum-cost flow for the supplies as soon as the FINAL state passes the
   boolean test DeepNS.ns_final_ok_b (flows of the original arcs feasible; state 1 => flow 0, state -1 => flow = cap,
   state 0 => reduced cost 0): the negated final potentials are the certificate of McfCert.cert_optimal *)
Theorem C09_ns_optimal_partial : forall n arcs sup fuel mi s it,
  NetSimplex.loop (NetSimplex.mk_consts n arcs sup) fuel mi (NetSimplex.init_st n arcs sup) 0
    = Some (NetSimplex.OPTIMAL, s, it) ->
  DeepNS.ns_final_ok_b n arcs sup s = true ->
  min_cost n arcs (supply_b sup) (firstn (length arcs) (NetSimplex.flow s)).
Proof. exact DeepNS.ns_optimal_partial. Qed.
Print Assumptions C09_ns_optimal_partial.

(* NOT proved (kept as a statement): the test always passes, i.e. it is an invariant of the pivots together with the
   feasibility of the flow once no artificial arc carries flow.  Missing: the spanning-tree invariants of
   parent / pred / depth / tree_adj through find_join, the ratio test, push and the re-hang traversal (tree arcs = state 0
   arcs = pred arcs, pi[v] = pi[parent v] +- cost[pred v], flow conservation of a push around the cycle). *)
Definition C09_ns_optimal_full_statement : Prop :=
  forall n arcs sup max_iter fl it,
    valid_arcs n arcs = true -> length sup = n ->
    NetSimplex.ns_run n arcs sup max_iter = Some (NetSimplex.OPTIMAL, fl, it) ->
    (forall x, In x (skipn (length arcs) fl) -> x <= 0) ->
    min_cost n arcs (supply_b sup) (firstn (length arcs) fl).

(* ================= non-vacuity ================= *)
(* the network of Props/C09.v: it has an arc of negative cost (3 -> 2, cost -1) and no negative cycle *)
Example C09_deep_nonvacuous_ex1 :
  valid_input 4 Props.C09.ex_arcs 0 1 2 = true /\
  DeepPot.no_neg_cycle_b 4 Props.C09.ex_arcs (init_res Props.C09.ex_arcs) = true /\
  exists k, mcf_run 4 Props.C09.ex_arcs 0 1 2 = Some k /\ k_status k = OPTIMAL /\ k_cost k = 8.
Proof. split; [reflexivity|]. split; [vm_compute; reflexivity|]. eexists. vm_compute. repeat split. Qed.

(* the test rejects a network with a negative cycle 2 -> 3 -> 2 of cost -4 ... *)
Definition neg_arcs : list arc := [(0%nat, 1%nat, 1, 0); (2%nat, 3%nat, 1, -5); (3%nat, 2%nat, 1, 1)].

Example C09_deep_nonvacuous_ex2 :
  valid_input 4 neg_arcs 0 1 1 = true /\ DeepPot.no_neg_cycle_b 4 neg_arcs (init_res neg_arcs) = false.
Proof. split; vm_compute; reflexivity. Qed.

(* ... and the hypothesis is needed: on that network the model answers OPTIMAL with cost 0 although the feasible flow
   that also saturates the cycle costs -4 *)
Example C09_deep_negcycle_witness :
  exists k, mcf_run 4 neg_arcs 0 1 1 = Some k /\ k_status k = OPTIMAL /\ k_cost k = 0 /\
            feasible_b 4 neg_arcs (demand_b 0 1 1) [1; 1; 1] = true /\ flow_cost neg_arcs [1; 1; 1] = -4.
Proof. eexists. vm_compute. repeat split. Qed.

(* ... and when the negative cycle is reachable from the source the parent pointers close a cycle and the path
   reconstruction never ends (fuel exhausted = None; the real code loops forever) *)
Definition hang_arcs : list arc := [(0%nat, 2%nat, 1, 0); (2%nat, 3%nat, 1, -5); (2%nat, 1%nat, 1, 0); (3%nat, 2%nat, 1, 1)].

Example C09_deep_hang_witness :
  valid_input 4 hang_arcs 0 1 1 = true /\ DeepPot.no_neg_cycle_b 4 hang_arcs (init_res hang_arcs) = false /\
  mcf_run 4 hang_arcs 0 1 1 = None.
Proof. repeat split; vm_compute; reflexivity. Qed.

(* the final state of network_simplex on the network of Props/C09.v passes the test of C09_ns_optimal_partial *)
Example C09_deep_ns_partial_nonvacuous_ex3 :
  match NetSimplex.loop (NetSimplex.mk_consts 4 Props.C09.ex_arcs [2; -2; 0; 0]) 5000 1000000
                        (NetSimplex.init_st 4 Props.C09.ex_arcs [2; -2; 0; 0]) 0 with
  | Some (NetSimplex.OPTIMAL, s, it) => (DeepNS.ns_final_ok_b 4 Props.C09.ex_arcs [2; -2; 0; 0] s && (it =? 6))%bool
  | _ => false
  end = true.
Proof. vm_compute. reflexivity. Qed.

(* solve_assignment with negative entries *)
Example C09_deep_assignment_nonvacuous_ex4 :
  exists r, solve_assignment [[4; -2; 8]; [-4; 3; 7]] = Some r /\ s_status r = OPTIMAL /\
            s_assign r = [1; 0] /\ s_cost r = -6.
Proof. eexists. vm_compute. repeat split. Qed.
