(* C11 part A property theorems: bfs, dfs, bellman_ford, floyd_warshall (solvor/bfs.py, bellman_ford.py,
   floyd_warshall.py, utils/helpers.py reconstruct_path).  Part B (dijkstra, astar, astar_grid): Props/C11_bestfirst.v.
   Models: C11/Bfs.v, C11/BellmanFord.v, C11/FloydWarshall.v; shared spec: C11/Paths.v. *)
From Coq Require Import List ZArith Bool Arith.
From SV Require Import C11.Paths C11.PathsSimple C11.DistCert C11.Bfs C11.BellmanFord C11.FloydWarshall
  C11.BfsSpec C11.BellmanFordSpec C11.BfsProofs1 C11.BfsProofs2 C11.BfsTheorems C11.BfsSpecProofs
  C11.BellmanFordProofs1 C11.BellmanFordProofs2 C11.BellmanFordProofs3 C11.BellmanFordSpecProofs
  C11.FloydWarshallProofs1 C11.FloydWarshallProofs2 C11.Agree C11.Decide.
Import ListNotations.
Local Open Scope Z_scope.

(* ------------------------------------------------------------------ bfs / dfs *)
(* the model never runs out of fuel: every call has a result *)
Theorem C11_search_total : forall m adj start goal max_iter,
  exists r, Bfs.search m adj start goal max_iter = Some r.
Proof. exact (fun m adj start goal max_iter => search_some adj start m goal max_iter). Qed.
Print Assumptions C11_search_total.

(* (1) any path returned by bfs or dfs is a genuine path from the start to a goal node and the objective is its
   number of edges; reconstruct_path always terminates (Hang is never returned: see C11_search_spec) *)
Theorem C11_path_valid_bfs : forall adj start goal max_iter s p obj,
  Bfs.bfs adj start goal max_iter = Some (Bfs.Found s p obj) ->
  exists t, is_path (Bfs.succ_of adj) start t p /\ goal_test goal t = true /\ obj = Z.of_nat (length p) - 1.
Proof. exact (search_path_valid Bfs.Queue). Qed.
Print Assumptions C11_path_valid_bfs.

Theorem C11_path_valid_dfs : forall adj start goal max_iter s p obj,
  Bfs.dfs adj start goal max_iter = Some (Bfs.Found s p obj) ->
  exists t, is_path (Bfs.succ_of adj) start t p /\ goal_test goal t = true /\ obj = Z.of_nat (length p) - 1.
Proof. exact (search_path_valid Bfs.Stack). Qed.
Print Assumptions C11_path_valid_dfs.

(* complete description of every result of bfs / dfs (status, never Hang, MAX_ITER only when max_iter distinct
   reachable nodes exist, goal None: visited = reachable set unless the limit was hit) *)
Theorem C11_search_spec : forall m adj start goal max_iter r,
  Bfs.search m adj start goal max_iter = Some r -> result_spec (Bfs.succ_of adj) start goal m max_iter r.
Proof. exact search_spec. Qed.
Print Assumptions C11_search_spec.

(* (2) bfs returns a path with the fewest edges among all paths to all goal nodes *)
Theorem C11_bfs_shortest : forall adj start goal max_iter s p obj,
  Bfs.bfs adj start goal max_iter = Some (Bfs.Found s p obj) ->
  forall t q, is_path (Bfs.succ_of adj) start t q -> goal_test goal t = true -> obj <= Z.of_nat (length q) - 1.
Proof. exact bfs_shortest. Qed.
Print Assumptions C11_bfs_shortest.

Theorem C11_bfs_infeasible_iff : forall adj start isg max_iter r,
  Bfs.bfs adj start (Some isg) max_iter = Some r -> r <> Bfs.NotFound Bfs.MAX_ITER ->
  (r = Bfs.NotFound Bfs.INFEASIBLE <-> ~ goal_reachable (Bfs.succ_of adj) start isg).
Proof. exact (search_infeasible_iff Bfs.Queue). Qed.
Print Assumptions C11_bfs_infeasible_iff.

Theorem C11_dfs_finds_iff_reachable : forall adj start isg max_iter r,
  Bfs.dfs adj start (Some isg) max_iter = Some r -> r <> Bfs.NotFound Bfs.MAX_ITER ->
  ((exists p obj, r = Bfs.Found Bfs.FEASIBLE p obj) <-> goal_reachable (Bfs.succ_of adj) start isg).
Proof. exact (search_finds_iff_reachable Bfs.Stack). Qed.
Print Assumptions C11_dfs_finds_iff_reachable.

Theorem C11_search_max_iter_real : forall m adj start goal max_iter,
  Bfs.search m adj start goal max_iter = Some (Bfs.NotFound Bfs.MAX_ITER) ->
  exists vs, NoDup vs /\ (forall v, In v vs -> reach (Bfs.succ_of adj) start v) /\ max_iter <= Z.of_nat (length vs).
Proof. exact search_max_iter_real. Qed.
Print Assumptions C11_search_max_iter_real.

(* ------------------------------------------------------------------ bellman_ford *)
(* (1)+(3) whenever bellman_ford does not answer UNBOUNDED (and the input is accepted): no negative cycle is
   reachable, the distance vector is exact (None iff unreachable), a returned path is a walk of the graph from the
   source to the target whose weight is the reported objective, which is the distance; INFEASIBLE only if the
   target is unreachable *)
Theorem C11_bf_sound : forall start g n target,
  bf_result_spec start g target (BF.bellman_ford start g n target).
Proof. exact bellman_ford_sound. Qed.
Print Assumptions C11_bf_sound.

Theorem C11_path_valid_bf : forall start g n target p x,
  BF.bellman_ford start g n target = BF.Path p x ->
  exists t, target = Some t /\ walk g start t p x /\ is_dist g start t x.
Proof.
  exact (fun start g n target p x H =>
    proj2 (eq_ind _ (bf_result_spec start g target) (bellman_ford_sound start g n target) _ H)).
Qed.
Print Assumptions C11_path_valid_bf.

Theorem C11_bf_dist : forall start g n d,
  BF.bellman_ford start g n None = BF.Dists d ->
  forall v, match nth v d None with Some x => is_dist g start v x | None => ~ reachable g start v end.
Proof.
  exact (fun start g n d H =>
    proj2 (proj2 (eq_ind _ (bf_result_spec start g None) (bellman_ford_sound start g n None) _ H))).
Qed.
Print Assumptions C11_bf_dist.

(* without a reachable negative closed walk the answer is never UNBOUNDED (n-1 rounds suffice), with one it always is *)
Theorem C11_bf_unbounded_iff : forall start g n target, BF.valid_input start g n target = true ->
  (BF.bellman_ford start g n target = BF.Unbounded <-> ~ no_neg_from g start).
Proof. exact bf_unbounded_iff. Qed.
Print Assumptions C11_bf_unbounded_iff.

Theorem C11_bf_neg_cycle_unbounded : forall start g n target, BF.valid_input start g n target = true ->
  neg_cycle_reachable g start -> BF.bellman_ford start g n target = BF.Unbounded.
Proof. exact bf_neg_cycle_unbounded. Qed.
Print Assumptions C11_bf_neg_cycle_unbounded.

(* the textbook form: reachability of a negative cycle is decidable (constructively, by running the verified models:
   bellman_ford on the zero-weight copy decides reachability, floyd_warshall on the reachable part decides the cycle) *)
Theorem C11_bf_unbounded_iff_neg_cycle : forall start g n target, BF.valid_input start g n target = true ->
  (BF.bellman_ford start g n target = BF.Unbounded <-> neg_cycle_reachable g start).
Proof. exact bf_unbounded_iff_neg_cycle. Qed.
Print Assumptions C11_bf_unbounded_iff_neg_cycle.

(* _reconstruct_indexed always terminates: the parent pointers of finite nodes form a forest at every moment *)
Theorem C11_bf_no_hang : forall start g n target, BF.bellman_ford start g n target <> BF.Hang.
Proof. exact bellman_ford_no_hang. Qed.
Print Assumptions C11_bf_no_hang.

(* ------------------------------------------------------------------ floyd_warshall *)
(* (4) k-outermost in-place triple loop: UNBOUNDED exactly when the graph (symmetrised when directed = False) has a
   negative closed walk; otherwise entry [i][j] is the shortest-walk distance, None (inf) iff j is unreachable from i *)
Theorem C11_fw_unbounded_iff : forall n edges directed, FW.valid_input n edges = true ->
  (FW.floyd_warshall n edges directed = FW.Unbounded <-> neg_cycle (FW.graph_of edges directed)).
Proof. exact fw_unbounded_iff. Qed.
Print Assumptions C11_fw_unbounded_iff.

Theorem C11_fw_dist : forall n edges directed mt, FW.floyd_warshall n edges directed = FW.Dist mt ->
  forall i j, (i < n)%nat ->
  match FW.get mt i j with
  | Some x => is_dist (FW.graph_of edges directed) i j x
  | None => ~ reachable (FW.graph_of edges directed) i j
  end.
Proof. exact fw_dist. Qed.
Print Assumptions C11_fw_dist.

(* ------------------------------------------------------------------ (5) agreement on shared inputs *)
Theorem C11_agree_bf_fw : forall s g n d m, (s < n)%nat ->
  BF.bellman_ford s g n None = BF.Dists d -> FW.floyd_warshall n g true = FW.Dist m ->
  forall v, nth v d None = FW.get m s v.
Proof. exact bf_fw_agree. Qed.
Print Assumptions C11_agree_bf_fw.

Theorem C11_agree_bf_fw_target : forall s g n t p x m, (s < n)%nat ->
  BF.bellman_ford s g n (Some t) = BF.Path p x -> FW.floyd_warshall n g true = FW.Dist m ->
  FW.get m s t = Some x.
Proof. exact bf_fw_agree_target. Qed.
Print Assumptions C11_agree_bf_fw_target.

Theorem C11_agree_fw_bf_bounded : forall s g n target m,
  FW.floyd_warshall n g true = FW.Dist m -> BF.bellman_ford s g n target <> BF.Unbounded.
Proof. exact fw_dist_bf_bounded. Qed.
Print Assumptions C11_agree_fw_bf_bounded.

(* bfs's objective is the shortest-walk distance in the unit-weight graph of the successor dictionary, hence equal to
   what bellman_ford reports on that graph *)
Theorem C11_agree_bfs_unit_distance : forall adj s t max_iter st p obj,
  Bfs.bfs adj s (Bfs.goal_val t) max_iter = Some (Bfs.Found st p obj) -> is_dist (adj_graph adj) s t obj.
Proof. exact bfs_is_unit_distance. Qed.
Print Assumptions C11_agree_bfs_unit_distance.

Theorem C11_agree_bfs_bf : forall adj s t max_iter st p obj n p' x,
  Bfs.bfs adj s (Bfs.goal_val t) max_iter = Some (Bfs.Found st p obj) ->
  BF.bellman_ford s (adj_graph adj) n (Some t) = BF.Path p' x -> x = obj.
Proof. exact bfs_bf_agree. Qed.
Print Assumptions C11_agree_bfs_bf.

Theorem C11_agree_bfs_dfs : forall adj s isg mi mi' r r',
  Bfs.bfs adj s (Some isg) mi = Some r -> Bfs.dfs adj s (Some isg) mi' = Some r' ->
  r <> Bfs.NotFound Bfs.MAX_ITER -> r' <> Bfs.NotFound Bfs.MAX_ITER ->
  ((exists p o, r = Bfs.Found Bfs.OPTIMAL p o) <-> (exists p o, r' = Bfs.Found Bfs.FEASIBLE p o)).
Proof. exact bfs_dfs_agree. Qed.
Print Assumptions C11_agree_bfs_dfs.

(* ------------------------------------------------------------------ boolean checkers run on implementation outputs *)
Theorem C11_search_spec_check_sound : forall adj s goal max_iter r, BfsSpec.spec_check adj s goal max_iter r = true ->
  match r with
  | Bfs.Found _ p obj => exists isg, goal = Some isg /\ BfsSpec.found_spec (Bfs.succ_of adj) s isg p obj
  | Bfs.Visited vs obj => goal = None /\ In s vs /\ obj = Z.of_nat (length vs) /\
      (Z.of_nat (length vs) < max_iter -> BfsSpec.visited_complete (Bfs.succ_of adj) s vs)
  | Bfs.NotFound _ => True
  | Bfs.Hang => False
  end.
Proof. exact BfsSpecProofs.spec_check_sound. Qed.
Print Assumptions C11_search_spec_check_sound.

Theorem C11_dist_cert_sound : forall g s d n, BFSpec.cert_check g s d n = true ->
  dist_vector g s d /\ ~ neg_cycle_reachable g s.
Proof. exact cert_check_sound. Qed.
Print Assumptions C11_dist_cert_sound.

Theorem C11_bf_spec_check_sound : forall s g n d qs, BFSpec.spec_check s g n d qs = true ->
  dist_vector g s d /\ ~ neg_cycle_reachable g s /\
  forall t r, In (t, r) qs ->
    match r with
    | BF.Path p x => walk g s t p x /\ is_dist g s t x
    | BF.Infeasible => ~ reachable g s t
    | _ => False
    end.
Proof. exact BellmanFordSpecProofs.spec_check_sound. Qed.
Print Assumptions C11_bf_spec_check_sound.

Theorem C11_fw_spec_check_sound : forall n edges directed m, BFSpec.fw_spec_check n edges directed m = true ->
  forall i, (i < n)%nat -> dist_vector (fw_graph edges directed) i (nth i m []) /\
                           ~ neg_cycle_reachable (fw_graph edges directed) i.
Proof. exact fw_spec_check_sound. Qed.
Print Assumptions C11_fw_spec_check_sound.

(* ------------------------------------------------------------------ non-vacuity *)
Definition ex_adj : Bfs.adjl := [(0, [1; 2]); (1, [3]); (2, [3; 0]); (3, [4]); (4, [])]%nat.

Example C11_bfs_nonvacuous :
  Bfs.bfs ex_adj 0%nat (Bfs.goal_val 4%nat) 1000000 = Some (Bfs.Found Bfs.OPTIMAL [0; 1; 3; 4]%nat 3).
Proof. vm_compute. reflexivity. Qed.

Example C11_dfs_nonvacuous :
  Bfs.dfs ex_adj 0%nat (Bfs.goal_val 4%nat) 1000000 = Some (Bfs.Found Bfs.FEASIBLE [0; 2; 3; 4]%nat 3)
  /\ Bfs.dfs ex_adj 3%nat (Bfs.goal_val 0%nat) 1000000 = Some (Bfs.NotFound Bfs.INFEASIBLE)
  /\ Bfs.bfs ex_adj 0%nat (Bfs.goal_val 4%nat) 3 = Some (Bfs.NotFound Bfs.MAX_ITER).
Proof. vm_compute. auto. Qed.

Definition E (u v : nat) (w : Z) : nat * nat * Z := (u, v, w).
Definition ex_g : wgraph := [E 0 1 4; E 0 2 1; E 2 1 2; E 1 3 (-5); E 3 1 5; E 0 1 7; E 2 2 0].
Definition ex_gneg : wgraph := [E 0 1 1; E 1 2 1; E 2 3 1; E 3 1 (-3)].

Example C11_bf_nonvacuous :
  BF.valid_input 0 ex_g 5 (Some 3%nat) = true
  /\ BF.bellman_ford 0 ex_g 5 (Some 3%nat) = BF.Path [0; 2; 1; 3]%nat (-2)
  /\ BF.bellman_ford 0 ex_g 5 None = BF.Dists [Some 0; Some 3; Some 1; Some (-2); None]
  /\ BF.bellman_ford 0 ex_g 5 (Some 4%nat) = BF.Infeasible
  /\ BF.bellman_ford 0 ex_gneg 4 None = BF.Unbounded.
Proof. vm_compute. auto. Qed.

Example C11_cert_nonvacuous :
  BFSpec.spec_check 0 ex_g 5 [Some 0; Some 3; Some 1; Some (-2); None]
    [(3%nat, BF.Path [0; 2; 1; 3]%nat (-2)); (4%nat, BF.Infeasible)] = true
  /\ BFSpec.cert_check ex_g 0 [Some 0; Some 4; Some 1; Some (-1); None] 5 = false.
Proof. vm_compute. auto. Qed.

Example C11_fw_nonvacuous :
  FW.valid_input 4 ex_g = true
  /\ FW.floyd_warshall 4 ex_g true =
       FW.Dist [[Some 0; Some 3; Some 1; Some (-2)]; [None; Some 0; None; Some (-5)];
                [None; Some 2; Some 0; Some (-3)]; [None; Some 5; None; Some 0]]
  /\ FW.floyd_warshall 4 ex_gneg true = FW.Unbounded
  /\ FW.floyd_warshall 4 ex_g false = FW.Unbounded
  /\ FW.floyd_warshall 3 [E 0 1 5; E 1 0 2; E 1 2 1] false =
       FW.Dist [[Some 0; Some 2; Some 3]; [Some 2; Some 0; Some 1]; [Some 3; Some 1; Some 0]].
Proof. vm_compute. auto. Qed.
