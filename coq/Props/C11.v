(* C11 part A property theorems (bellman_ford, floyd_warshall, bfs, dfs).  Filled in as proofs land. *)
From Coq Require Import List ZArith Bool Arith.
From SV Require Import C11.Paths C11.Bfs C11.BellmanFord C11.FloydWarshall C11.BfsSpec C11.BellmanFordSpec.
Import ListNotations.
