(* Property C02 on the FAITHFUL model of solve_sat (coq/C01/DeepCdcl.v, tied to the implementation run by run through the exact
   trace + Result equality of harness/props/C01_deep.py): SAT verdicts are correct.  What was "explored only" for the guarded
   machine (completeness of the search) is a theorem about the algorithm here - for every formula, every option value, every
   decision oracle and every fuel.  `solve_sat ... = Done evs r` excludes exactly the explicit error values of the model
   (fuel exhausted, oracle exhausted / invalid) - see C02_deep_terminates for the fuel.
   Only statements + `exact <lemma>`; proofs in coq/C01/Deep2*.v. *)
From Coq Require Import List ZArith Bool Arith.
Import ListNotations.
From SV Require Import C01.SatSpec C01.Machine C01.DeepCdcl.
From SV Require C01.DeepRun C01.DeepReason C01.DeepReasonProp C01.Deep2Sem C01.Deep2Run C01.Deep2Verdict C01.Deep2Frame C01.Deep2Total C01.Deep2Rank
  C01.Deep2Terminates.
Import DeepRun DeepReason DeepReasonProp DeepTrailProp Deep2Rank Deep2Terminates.

(* (1) INFEASIBLE only when clauses + assumptions have no model: level-0 conflict, assumption conflict, contradictory units,
   empty clause.  Engine: a fixed model m of clauses + assumptions (made to agree with the asserted pure literals by `pure_ok`)
   keeps satisfying the clause database (learned clauses are entailed - deep_learned_entailed) and every level-0 literal until
   it is recorded as a solution; a falsified clause at level 0 or a false assumption contradicts that. *)
Theorem C02_deep_infeasible_sound : forall fuel cls A mc mr limit lf orc evs r, valid_input cls A = true ->
  solve_sat fuel cls A mc mr limit lf orc = Done evs r -> d_status r = INFEASIBLE ->
  ~ exists m, models m cls /\ agrees m A.
Proof. exact Deep2Verdict.infeasible_sound. Qed.
Print Assumptions C02_deep_infeasible_sound.

(* ... and after k solutions with their blocking clauses: an enumeration (solution_limit >= 2) that stops with fewer than
   solution_limit models has reported ALL models (every model of clauses + assumptions coincides with a reported one on the
   variables 1..n_vars) *)
Theorem C02_deep_enumeration_complete : forall fuel cls A mc mr limit lf orc evs r ms, valid_input cls A = true -> (1 < limit)%Z ->
  solve_sat fuel cls A mc mr limit lf orc = Done evs r -> d_status r = OPTIMAL -> d_solutions r = Some ms ->
  (Z.of_nat (length ms) < limit)%Z ->
  forall m, models m cls -> agrees m A ->
    exists sol, In sol ms /\ forall v, (1 <= v <= n_vars_of cls)%nat -> m (zvar v) = asg_of sol (zvar v).
Proof. exact Deep2Verdict.enumeration_complete. Qed.
Print Assumptions C02_deep_enumeration_complete.

(* (2) never a model for an unsatisfiable formula (corollary of C01_algorithm_result) *)
Theorem C02_deep_no_false_model : forall fuel cls A mc mr limit lf orc evs r, valid_input cls A = true ->
  solve_sat fuel cls A mc mr limit lf orc = Done evs r -> (~ exists m, models m cls /\ agrees m A) ->
  d_solution r = None /\ forall ms, d_solutions r = Some ms -> ms = [].
Proof. exact Deep2Verdict.no_false_model. Qed.
Print Assumptions C02_deep_no_false_model.

(* (3) the status is OPTIMAL, INFEASIBLE or MAX_ITER (by type); if clauses + assumptions are satisfiable and no budget ran out
   (status <> MAX_ITER) the status is OPTIMAL and `solution` is a model *)
Theorem C02_deep_verdict_complete : forall fuel cls A mc mr limit lf orc evs r, valid_input cls A = true ->
  solve_sat fuel cls A mc mr limit lf orc = Done evs r -> (exists m, models m cls /\ agrees m A) -> d_status r <> MAX_ITER ->
  d_status r = OPTIMAL /\ exists m, d_solution r = Some m /\ models (asg_of m) cls /\ agrees (asg_of m) A.
Proof. exact Deep2Verdict.verdict_complete. Qed.
Print Assumptions C02_deep_verdict_complete.

(* (4) every call returns after work bounded by its budgets.
   term_fuel cls max_conflicts solution_limit =
       2 * (n_clauses + R + 3) + n_vars + 1,   R = ((limit * (max_conflicts + 1) + max_conflicts) * 2 + 1) * (n_vars + 1) + n_vars
   (limit, max_conflicts truncated at 0; max_restarts and luby_factor do not enter: restarts only stop a run earlier).
   With at least that much fuel the model never returns the out-of-fuel error (nor the Luby one): it returns a Result or one of
   the two oracle errors (decision list exhausted / names an assigned variable), for every decision oracle. *)
Theorem C02_deep_terminates : forall fuel cls A mc mr limit lf orc, valid_input cls A = true -> (term_fuel cls mc limit <= fuel)%nat ->
  (exists evs r, solve_sat fuel cls A mc mr limit lf orc = Done evs r)
  \/ (exists evs, solve_sat fuel cls A mc mr limit lf orc = Err EOracleEmpty evs)
  \/ (exists v evs, solve_sat fuel cls A mc mr limit lf orc = Err (EOracleBad v) evs).
Proof. exact Deep2Terminates.solve_sat_returns. Qed.
Print Assumptions C02_deep_terminates.

(* the ingredients: (i) the rank - lexicographic (solution_limit - #solutions, max_conflicts - conflicts, conflict pending,
   decision level | #unassigned variables), flattened - strictly decreases at every iteration of `while True:`;
   the conflicts counter is tested only after a decision, but a chain of conflicts without decision lowers the level each time;
   (ii) one iteration adds at most one clause; (iii) propagate() needs fuel > n_vars and > 2 * number of clauses only *)
Theorem C02_deep_measure_decreases : forall fuel P L L', LI P L -> LT L -> main_step fuel P L = Cont L' ->
  (rank P L' < rank P L)%nat /\ (n_clauses (l_st L') <= S (n_clauses (l_st L)))%nat /\ LI P L' /\ LT L'.
Proof. exact Deep2Terminates.measure_decreases. Qed.
Print Assumptions C02_deep_measure_decreases.

Theorem C02_deep_propagate_total : forall n fuel A s, BI s -> assum_ok (nv s) A -> nv s = S n ->
  (2 * n_clauses s < fuel)%nat -> (n < fuel)%nat -> exists res, propagate fuel A s = Some res.
Proof. exact Deep2Total.propagate_total. Qed.
Print Assumptions C02_deep_propagate_total.

(* ---- non-vacuity: an unsatisfiable input (INFEASIBLE after learning), and a complete enumeration, on the model ---- *)
Definition c2_unsat : cnf := [[1; 2]; [-1; 2]; [1; -2]; [-1; -2]]%Z.
Example C02_deep_nonvacuous_infeasible :
  valid_input c2_unsat [] = true
  /\ exists evs r, solve_sat 40 c2_unsat [] 100000%Z 10000%Z 1%Z 100%Z [1]%nat = Done evs r /\ d_status r = INFEASIBLE.
Proof. vm_compute. split; [reflexivity|]. eexists. eexists. split; reflexivity. Qed.

Definition c2_enum : cnf := [[1; 2]; [-1; -2]]%Z.
Example C02_deep_nonvacuous_enumeration :
  valid_input c2_enum [] = true
  /\ exists evs r, solve_sat 40 c2_enum [] 100000%Z 10000%Z 10%Z 100%Z [1; 1]%nat = Done evs r /\ d_status r = OPTIMAL
       /\ d_solutions r = Some [[1; -2]; [-1; 2]]%Z.
Proof. vm_compute. split; [reflexivity|]. eexists. eexists. repeat split. Qed.

(* the fuel bound of (4) on a small instance, and the run with exactly that fuel *)
Example C02_deep_nonvacuous_fuel :
  term_fuel c2_enum 5%Z 3%Z = 299%nat
  /\ exists evs r, solve_sat (term_fuel c2_enum 5%Z 3%Z) c2_enum [] 5%Z 10000%Z 3%Z 100%Z [1; 1]%nat = Done evs r /\ d_status r = OPTIMAL.
Proof. vm_compute. split; [reflexivity|]. eexists. eexists. split; reflexivity. Qed.
