(* C17 - cutting-stock plans of solve_cg / solve_bp meet every demand; OPTIMAL is minimal.
   Property theorems: each is `exact` of a lemma proved under coq/C17/.  See coq/C17/CgSpec.v for the specification
   (fits, covering, is_min, plan_ok, dual_cert_check) and coq/C17/Cg.v, Bp.v for the models. *)
From Coq Require Import List ZArith QArith Qround Bool.
From SV Require Import C17.Cg C17.CgSpec C17.Bp C17.GateProofs C17.PoolProofs C17.CgGateProofs C17.BpGateProofs
                       C17.DualityProofs C17.KnapExact C17.OptimalProofs C17.Witness.
Import ListNotations.

(* (1) The gate.  (a) A plan accepted by the boolean gate fits the roll, covers every demand, and its objective is the number
   of rolls.  (b) Every plan the solve_cg model returns with status OPTIMAL / FEASIBLE passes the gate (any eps in [0,1),
   any max_iter, all inputs).  (c) The same for every answer the solve_bp model gives before entering the tree search. *)
Theorem C17_gate : forall sizes width demands P obj,
  plan_ok sizes width demands P obj = true ->
  covering (fits sizes width) demands P /\ obj = rolls P.
Proof. exact plan_ok_sound. Qed.
Print Assumptions C17_gate.

Theorem C17_gate_custom : forall cols demands P obj,
  plan_ok_custom cols demands P obj = true ->
  covering (fun a => In a cols) demands P /\ obj = rolls P.
Proof. exact plan_ok_custom_sound. Qed.
Print Assumptions C17_gate_custom.

Theorem C17_gate_model_cg : forall eps sizes width demands max_iter r,
  (0 <= eps)%Q -> (eps < 1)%Q ->
  solve_cg eps sizes width demands max_iter = Done r ->
  usable_status (r_status r) = true ->
  plan_ok sizes width demands (r_plan r) (r_obj r) = true.
Proof. exact solve_cg_gate. Qed.
Print Assumptions C17_gate_model_cg.

Theorem C17_gate_model_bp_root : forall eps gap sizes width demands max_iter st sol obj it,
  (0 <= eps)%Q -> (eps < 1)%Q ->
  b_out (solve_bp_root eps gap sizes width demands max_iter) = BpDone st (Some sol) (Some obj) it ->
  plan_ok sizes width demands sol obj = true.
Proof. exact solve_bp_root_gate. Qed.
Print Assumptions C17_gate_model_bp_root.

(* (2) Weak duality: a dual vector y >= 0 with y.a <= 1 for every admissible pattern bounds every covering plan - fractional
   or integer - from below; hence ceil(y.d) <= true minimum. *)
Theorem C17_weak_duality_frac : forall (feas : pattern -> Prop) y d P,
  dual_feasible feas y -> length d = length y -> fcovering feas d P ->
  (dotq y d <= frolls P)%Q.
Proof. exact weak_duality_frac. Qed.
Print Assumptions C17_weak_duality_frac.

Theorem C17_weak_duality : forall (feas : pattern -> Prop) y d P,
  dual_feasible feas y -> length d = length y -> covering feas d P ->
  (Qceiling (dotq y d) <= rolls P)%Z.
Proof. exact dual_bound_ceil. Qed.
Print Assumptions C17_weak_duality.

(* (3) Pricing is exact (eps = 0, positive integer sizes <= width): knapsack_pricing never takes the unmodelled greedy
   fallback, returns a fitting pattern with its exact value, and no fitting pattern has a larger value.  So "no column with
   reduced cost < 0" is dual feasibility for ALL patterns. *)
Theorem C17_pricing_exact : forall sizes cap y,
  valid_sizes sizes cap = true -> length y = length sizes -> (0 <= cap)%Z ->
  exists pat v, knapsack_pricing 0 sizes cap y = Some (pat, v) /\
    fits sizes cap pat /\ (v == dotq y pat)%Q /\
    forall a, fits sizes cap a -> (dotq y a <= v)%Q.
Proof. exact knapsack_pricing_exact. Qed.
Print Assumptions C17_pricing_exact.

(* (4) OPTIMAL is minimal.  Per-run certificate: soundness of dual_cert_check (composes (2) and (3)), and the two forms in
   which it is used: on any plan + dual vector (evaluated in coqc on every OPTIMAL answer of the implementation), and on the
   model's own result. *)
Theorem C17_dual_cert_sound : forall sizes width demands y r,
  dual_cert_check sizes width demands y r = true ->
  forall P, covering (fits sizes width) demands P -> (r <= rolls P)%Z.
Proof. exact dual_cert_sound. Qed.
Print Assumptions C17_dual_cert_sound.

Theorem C17_certified_min : forall sizes width demands P obj y,
  plan_ok sizes width demands P obj = true ->
  dual_cert_check sizes width demands y obj = true ->
  is_min (fits sizes width) demands obj.
Proof. exact certified_min. Qed.
Print Assumptions C17_certified_min.

Theorem C17_certified_min_custom : forall cols demands P obj y,
  plan_ok_custom cols demands P obj = true ->
  dual_cert_custom cols demands y obj = true ->
  is_min (fun a => In a cols) demands obj.
Proof. exact certified_min_custom. Qed.
Print Assumptions C17_certified_min_custom.

(* Full statement (NOT proved; missing: soundness of the master simplex - the dual vector read from the final tableau is
   >= 0 and y.d >= lp_obj): *)
Definition C17_optimal_sound_full_statement : Prop := optimal_sound_full_statement.

Theorem C17_optimal_partial : forall eps sizes width demands max_iter r,
  (0 <= eps)%Q -> (eps < 1)%Q ->
  solve_cg eps sizes width demands max_iter = Done r -> r_status r = OPTIMAL ->
  dual_cert_check sizes width demands (r_duals r) (r_obj r) = true ->
  is_min (fits sizes width) demands (r_obj r).
Proof. exact optimal_partial. Qed.
Print Assumptions C17_optimal_partial.

(* For eps = 0 the knapsack part of the certificate is a theorem about the model; what remains per run is only
   y >= 0 and lp_obj <= y.d for the final master LP. *)
Theorem C17_optimal_partial_eps0 : forall sizes width demands max_iter r,
  solve_cg 0 sizes width demands max_iter = Done r -> r_status r = OPTIMAL ->
  simplex_residue demands r = true ->
  is_min (fits sizes width) demands (r_obj r).
Proof. exact optimal_partial_eps0. Qed.
Print Assumptions C17_optimal_partial_eps0.

(* (5) The pinned status rule of solve_bp (OPTIMAL when the tree runs empty) was unsound: on sizes [2;6;2], width 7, demands
   [4;1;4] it labelled a plan of 5 rolls OPTIMAL.  A covering plan of 4 rolls exists and 4 is the true minimum. *)
Example C17_bp_pinned_refuted :
  covering (fits [2;6;2] 7)%Z [4;1;4]%Z witness_plan /\ rolls witness_plan = 4%Z /\
  is_min (fits [2;6;2] 7)%Z [4;1;4]%Z 4 /\ ~ is_min (fits [2;6;2] 7)%Z [4;1;4]%Z 5.
Proof. exact bp_pinned_refuted. Qed.
Print Assumptions C17_bp_pinned_refuted.

(* ---- non-vacuity *)
Example C17_nonvacuous_optimal :
  exists r, solve_cg eps_default [3;5;4;7]%Z 12%Z [6;5;4;3]%Z 1000 = Done r /\ r_status r = OPTIMAL /\ r_obj r = 7%Z /\
            r_iters r = 2%nat /\ dual_cert_check [3;5;4;7]%Z 12%Z [6;5;4;3]%Z (r_duals r) (r_obj r) = true.
Proof. exact nonvacuous_optimal. Qed.

Example C17_nonvacuous_feasible :
  exists r, solve_cg eps_default [2;6;2]%Z 7%Z [4;1;4]%Z 1000 = Done r /\ r_status r = FEASIBLE /\ r_obj r = 5%Z.
Proof. exact nonvacuous_feasible. Qed.

Example C17_nonvacuous_valid : valid_input [3;5;4;7]%Z 12%Z [6;5;4;3]%Z = true.
Proof. reflexivity. Qed.
