(* C17 - property theorems (placeholder while the proofs are being written). *)
From Coq Require Import List ZArith QArith.
From SV Require Import C17.Cg C17.CgSpec C17.Bp C17.Corr.
