(* C06 - property theorems (under construction: see coq/C06/). *)
From Coq Require Import List ZArith Bool.
From SV Require Import C06.CpAst C06.CpEnc C06.CpCheck.
Import ListNotations.
Open Scope Z_scope.

Example C06_encode_example :
  let x := mkVar 0 0 1 true 1 in let y := mkVar 1 0 1 true 3 in
  fst (encode (mkModel [x; y] [CNeVar x y] 5)) = [[1; 2]; [-1; -2]; [3; 4]; [-3; -4]; [-1; -3]; [-2; -4]].
Proof. vm_compute. reflexivity. Qed.
