(* C06 - the CP->SAT encoding (solvor/cp_encoder.py, model SV.C06.CpEnc) has exactly the models of the CP problem.

   What rests on THEOREMS (all inputs, no size bound): variables (exactly-one, decoding), ==/!= constant,
   ==/!= variable, all_different, no_overlap, linear ==/!= in every shape _linearize accepts (chained
   partial-sum auxiliaries), sum_eq / sum_le / sum_ge, circuit (MTZ positions), cumulative (running literals +
   minimal over-capacity subsets), and whole models built from them - i.e. EVERY kind the encoder accepts
   (`enc_proved` is true of every constructor, EncModel.model_proved_all): C06_sound, C06_complete, C06_equisat,
   C06_projection, for every well-formed model (wf_model: distinct ids, non-empty domains lb <= ub, literals
   numbered consecutively from 1 as IntVar.__init__ does, constraint variables belong to the model, cumulative
   with demands >= 0 and capacity >= 0).
   PER-CASE kernel checks (harness, every explored case of every kind): CpCheck.cnf_projection_ok enumerates all
   models of the CAPTURED clause list inside coqc and compares their projection with holdsb over the domain box.
   The checker itself is proved sound (C06_check_no_extra / C06_check_no_missing / C06_check_none): a case it
   accepts has, for EVERY SAT assignment of the captured clauses, exactly one value per variable forming a CP
   solution, and every CP solution is the projection of some SAT assignment of the captured clauses.
   C06_circuit_pinned_refuted: the circuit encoding of the tree pinned by the property text (before 5a875d8)
   admits two 2-cycles on 4 nodes. *)
From Coq Require Import List ZArith Bool Lia.
From SV Require Import C06.CpAst C06.CpAstProofs C06.CpEnc C06.CpCheck C06.CpPinned C06.EncBasics C06.EncPairwise
                       C06.EncFrame C06.EncLinear C06.EncLinear2 C06.EncSum C06.EncSum2 C06.EncCircuit C06.EncCircuit2 C06.EncCumul C06.EncModel
                       C06.CpCheckProofs C06.CpCheckProofs2.
Import ListNotations.
Open Scope Z_scope.

(* ---- (1) variables *)
Theorem C06_exactly_one_ok : forall b v, 0 < vbase v -> vlb v <= vub v ->
  (models b (exactly_one (lits_of v)) <-> EO b v).
Proof. exact exactly_one_ok. Qed.
Print Assumptions C06_exactly_one_ok.

Theorem C06_decode_in_domain : forall b vs, (forall v, In v vs -> var_ok v) -> models b (enc_vars vs) ->
  forall v, In v vs ->
    exists x, dec_var b v = Some x /\ vlb v <= x <= vub v /\ b (vlit v x) = true
              /\ forall y, vlb v <= y <= vub v -> b (vlit v y) = true -> y = x.
Proof. exact decode_in_domain. Qed.
Print Assumptions C06_decode_in_domain.

(* ---- (2) encodings without auxiliaries: equivalences on the decoded values bv *)
Theorem C06_pairwise : forall b,
  (forall v c, VOK b v -> (models b (enc_eq_const v c) <-> bv b v = c))
  /\ (forall v c, VOK b v -> (models b (enc_ne_const v c) <-> bv b v <> c))
  /\ (forall v w, VOK b v -> VOK b w -> (models b (enc_eq_var v w) <-> bv b v = bv b w))
  /\ (forall v w, VOK b v -> VOK b w -> (models b (enc_ne_var v w) <-> bv b v <> bv b w))
  /\ (forall vs, (forall v, In v vs -> VOK b v) -> (models b (enc_all_different vs) <-> NoDup (map (bv b) vs)))
  /\ (forall ts, (forall p, In p ts -> VOK b (fst p)) ->
        (models b (enc_no_overlap ts) <-> no_overlap_vals (map (fun p => (bv b (fst p), snd p)) ts))).
Proof.
  exact (fun b => conj (enc_eq_const_ok b) (conj (enc_ne_const_ok b) (conj (enc_eq_var_ok b)
           (conj (enc_ne_var_ok b) (conj (enc_all_different_ok b) (enc_no_overlap_ok b)))))).
Qed.
Print Assumptions C06_pairwise.

(* ---- (3) linear ==/!= through the chained partial sums, and the sum constraints *)
Theorem C06_linear_sound : forall b s n l r is_ne, 0 < n ->
  (forall v, In v (expr_vars l ++ expr_vars r) -> VOK b v) ->
  (forall v, In v (expr_vars l ++ expr_vars r) -> aval s v = bv b v) ->
  models b (fst (enc_ne_expr n l r is_ne)) -> holds s (CLin l r is_ne).
Proof. exact (fun b s n l r is_ne => cons_sound b s n (CLin l r is_ne) eq_refl eq_refl). Qed.
Print Assumptions C06_linear_sound.

Theorem C06_linear_complete : forall b s n l r is_ne, 0 < n ->
  (forall v, In v (expr_vars l ++ expr_vars r) -> VOK b v /\ var_below n v) ->
  (forall v, In v (expr_vars l ++ expr_vars r) -> aval s v = bv b v) ->
  holds s (CLin l r is_ne) ->
  exists b', agree_below n b b' /\ models b' (fst (enc_ne_expr n l r is_ne)).
Proof. exact (fun b s n l r is_ne => cons_complete b s n (CLin l r is_ne) eq_refl eq_refl). Qed.
Print Assumptions C06_linear_complete.

Theorem C06_sum_sound : forall b n vs t, 0 < n -> (forall v, In v vs -> VOK b v) ->
  (models b (fst (enc_sum_eq n vs t)) -> bsum b vs = t)
  /\ (models b (fst (enc_sum_le n vs t)) -> bsum b vs <= t)
  /\ (models b (fst (enc_sum_ge n vs t)) -> bsum b vs >= t).
Proof.
  exact (fun b n vs t Hn Hv => conj (enc_sum_eq_sound b n vs t Hn Hv)
           (conj (enc_sum_le_sound b n vs t Hn Hv) (enc_sum_ge_sound b n vs t Hn Hv))).
Qed.
Print Assumptions C06_sum_sound.

Theorem C06_sum_complete : forall b n vs t, 0 < n -> (forall v, In v vs -> VOK b v /\ var_below n v) ->
  (bsum b vs = t -> exists b', agree_below n b b' /\ models b' (fst (enc_sum_eq n vs t)))
  /\ (bsum b vs <= t -> exists b', agree_below n b b' /\ models b' (fst (enc_sum_le n vs t)))
  /\ (bsum b vs >= t -> exists b', agree_below n b b' /\ models b' (fst (enc_sum_ge n vs t))).
Proof.
  exact (fun b n vs t Hn Hv => conj (enc_sum_eq_complete b n vs t Hn Hv)
           (conj (enc_sum_le_complete b n vs t Hn Hv) (enc_sum_ge_complete b n vs t Hn Hv))).
Qed.
Print Assumptions C06_sum_complete.

(* ---- circuit: all_different + range/no-self-loop units + MTZ positions (exactly-one, created fresh) + ordering *)
Theorem C06_circuit_sound : forall b n vs, 0 < n -> (forall v, In v vs -> VOK b v) ->
  models b (fst (enc_circuit n vs)) -> circuit_vals (map (bv b) vs).
Proof. exact enc_circuit_sound. Qed.
Print Assumptions C06_circuit_sound.

Theorem C06_circuit_complete : forall b n vs, 0 < n -> (forall v, In v vs -> VOK b v /\ var_below n v) ->
  circuit_vals (map (bv b) vs) -> exists b', agree_below n b b' /\ models b' (fst (enc_circuit n vs)).
Proof. exact enc_circuit_complete. Qed.
Print Assumptions C06_circuit_complete.

(* ---- cumulative: one "running" literal per task and time point, every minimal over-capacity subset forbidden *)
Theorem C06_cumulative_sound : forall b n ts cap, 0 < n -> (forall p, In p ts -> VOK b (fst (fst p))) ->
  (forall p, In p ts -> 0 <= snd p) -> 0 <= cap ->
  models b (fst (enc_cumulative n ts cap)) -> cumulative_vals (cvals b ts) cap.
Proof. exact enc_cumulative_sound. Qed.
Print Assumptions C06_cumulative_sound.

Theorem C06_cumulative_complete : forall b n ts cap, 0 < n ->
  (forall p, In p ts -> VOK b (fst (fst p)) /\ var_below n (fst (fst p))) ->
  (forall p, In p ts -> 0 <= snd p) -> 0 <= cap ->
  cumulative_vals (cvals b ts) cap ->
  exists b', agree_below n b b' /\ models b' (fst (enc_cumulative n ts cap)).
Proof. exact enc_cumulative_complete. Qed.
Print Assumptions C06_cumulative_complete.

(* ---- (4) whole models.  wf_model: distinct ids, non-empty domains, literals numbered consecutively from 1
   (IntVar.__init__), constraint variables are model variables, cumulative demands/capacity >= 0.  All constraint
   kinds are covered (model_proved_all), so there is no restriction on the kinds. *)
Theorem C06_sound : forall M b, wf_model M = true -> models b (fst (encode M)) ->
  cp_solution M (dec_asgn (m_vars M) b)
  /\ forall v, In v (m_vars M) ->
       exists x, dec_var b v = Some x /\ aval (dec_asgn (m_vars M) b) v = x /\ vlb v <= x <= vub v
                 /\ forall y, vlb v <= y <= vub v -> (b (vlit v y) = true <-> y = x).
Proof. exact (fun M b Hwf => encode_sound M b Hwf (model_proved_all M)). Qed.
Print Assumptions C06_sound.

Theorem C06_complete : forall M s, wf_model M = true -> cp_solution M s ->
  exists b, models b (fst (encode M)) /\ forall v, In v (m_vars M) -> dec_var b v = Some (aval s v).
Proof. exact (fun M s Hwf => encode_complete M s Hwf (model_proved_all M)). Qed.
Print Assumptions C06_complete.

Theorem C06_equisat : forall M, wf_model M = true ->
  ((exists b, models b (fst (encode M))) <-> exists s, cp_solution M s).
Proof. exact (fun M Hwf => encode_equisat M Hwf (model_proved_all M)). Qed.
Print Assumptions C06_equisat.

(* decode_sat_solution of the CNF models = the CP solutions projected on the named variables *)
Theorem C06_projection : forall M, wf_model M = true ->
  forall p : list (nat * option Z),
    (exists b, models b (fst (encode M)) /\ decode M b = p)
    <-> (exists s, cp_solution M s /\ map (fun q => (fst q, Some (snd q))) (project M s) = p).
Proof. exact (fun M Hwf => encode_projection M Hwf (model_proved_all M)). Qed.
Print Assumptions C06_projection.

Theorem C06_empty_clause_infeasible : forall M, wf_model M = true ->
  has_empty (fst (encode M)) = true -> forall s, ~ cp_solution M s.
Proof. exact (fun M Hwf => empty_clause_infeasible M Hwf (model_proved_all M)). Qed.
Print Assumptions C06_empty_clause_infeasible.

(* ---- the per-case checker (run by the harness on the CAPTURED clause list of every explored case, all kinds
   including circuit and cumulative) is sound: nothing extra, nothing missing *)
Theorem C06_check_no_extra : forall M f b,
  wf_model M = true -> cnf_projection_ok M (Some f) = true -> models b f ->
  exists xs,
    Forall2 (fun v x => filter (fun y => b (vlit v y)) (vdom v) = [x]) (m_vars M) xs
    /\ forallb (holdsb (asgn_of (m_vars M) xs)) (m_cons M) = true
    /\ In xs (cp_solutions M).
Proof. exact cnf_projection_ok_no_extra. Qed.
Print Assumptions C06_check_no_extra.

Theorem C06_check_no_missing : forall M f s,
  wf_model M = true -> cnf_projection_ok M (Some f) = true -> cp_solution M s ->
  exists b xs,
    models b f
    /\ Forall2 (fun v x => filter (fun y => b (vlit v y)) (vdom v) = [x]) (m_vars M) xs
    /\ forall i v, nth_error (m_vars M) i = Some v -> vnamed v = true -> nth_error xs i = Some (aval s v).
Proof. exact cnf_projection_ok_no_missing. Qed.
Print Assumptions C06_check_no_missing.

Theorem C06_check_none : forall M, cnf_projection_ok M None = true -> cp_solutions M = [].
Proof. exact cnf_projection_ok_none. Qed.
Print Assumptions C06_check_none.

(* ---- (5) the pinned circuit encoding admits two 2-cycles *)
Theorem C06_circuit_pinned_refuted :
  exists b : asg,
    models b pinned_cnf
    /\ map (dec_var b) pinned_vars = [Some 1; Some 0; Some 3; Some 2]
    /\ (forall v, In v pinned_vars -> length (filter (fun x => b (vlit v x)) (vdom v)) = 1%nat)
    /\ ~ circuit_vals [1; 0; 3; 2].
Proof. exact circuit_pinned_refuted. Qed.
Print Assumptions C06_circuit_pinned_refuted.

(* ---- non-vacuity *)
Definition ex_x := mkVar 0 (-1) 2 true 1.
Definition ex_y := mkVar 1 0 3 true 5.
Definition ex_z := mkVar 2 1 3 true 9.
Definition ex_h := mkVar 3 0 2 false 12.
Definition ex_M : cpmodel :=
  mkModel [ex_x; ex_y; ex_z; ex_h]
    [CLin (EAdd (EMul (EVar ex_x) 2) (EVar ex_y)) (ESub (EAdd (EVar ex_z) (EConst 1)) (EVar ex_h)) false;
     CAllDiff [ex_x; ex_y; ex_z];
     CSumLe [ex_x; ex_y; ex_z; ex_h] 6;
     CNeVar ex_y ex_h;
     CNoOverlap [(ex_y, 1); (ex_z, 2)]]
    15.

(* the hypotheses of C06_sound / C06_complete hold of a model with a 4-term linear equation (auxiliary partial
   sums), a 4-variable sum_le (auxiliaries), all_different, != and no_overlap; it is feasible, not trivially so,
   and the Gallina model counter agrees with the theorem on the model's own encoding *)
Example C06_nonvacuous_hyps :
  wf_model ex_M && model_proved ex_M && negb (has_empty (fst (encode ex_M))) = true
  /\ (0 < length (cp_solutions ex_M) < length (box (m_vars ex_M)))%nat
  /\ (15 < snd (encode ex_M)).
Proof. vm_compute. repeat split; try reflexivity; lia. Qed.

Example C06_nonvacuous_count : cnf_projection_ok ex_M (Some (fst (encode ex_M))) = true.
Proof. vm_compute. reflexivity. Qed.

(* circuit and cumulative: well-formed models (hypothesis of C06_sound / C06_complete) with a 4-node circuit whose
   successor domains reach outside 0..3 (6 Hamiltonian cycles) and a 3-task cumulative; the Gallina model counter
   agrees with the theorems on the model's own encoding *)
Example C06_nonvacuous_circuit_cumulative :
  let s := fun i => mkVar i (-1) 3 true (1 + 5 * Z.of_nat i) in
  let Mc := mkModel [s 0%nat; s 1%nat; s 2%nat; s 3%nat] [CCircuit [s 0%nat; s 1%nat; s 2%nat; s 3%nat]] 21 in
  let t := fun i => mkVar i 0 2 true (1 + 3 * Z.of_nat i) in
  let Mk := mkModel [t 0%nat; t 1%nat; t 2%nat] [CCumulative [(t 0%nat, 2, 2); (t 1%nat, 2, 1); (t 2%nat, 1, 2)] 3] 10 in
  wf_model Mc && cnf_projection_ok Mc (Some (fst (encode Mc))) && (length (cp_solutions Mc) =? 6)%nat
  && wf_model Mk && cnf_projection_ok Mk (Some (fst (encode Mk))) && (0 <? length (cp_solutions Mk))%nat = true.
Proof. vm_compute. reflexivity. Qed.

Example C06_nonvacuous_infeasible :
  let M := mkModel [ex_x; ex_y] [CSumGe [ex_x; ex_y; ex_x] 8] 9 in
  wf_model M && model_proved M = true /\ cp_solutions M = [] /\ cnf_projection_ok M (Some (fst (encode M))) = true.
Proof. vm_compute. repeat split; reflexivity. Qed.
