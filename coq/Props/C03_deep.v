(* C03 (deepening) - the verdicts of solve_lp (simplex) in exact arithmetic (eps = 0) are sound for EVERY input
   accepted by valid_lp (check_matrix_dims), phase 1 included, for any iteration limit.
   These are the statements C03_optimal_sound_full_statement, C03_infeasible_sound_full_statement and
   C03_unbounded_sound_full_statement of Props/C03.v, now proved (no restriction b >= 0, no certificate).
   Property theorems (each is `exact` of a lemma proved in coq/C03/Deep*.v). *)
From Coq Require Import List QArith Qabs Bool.
From SV Require Import C03.Simplex C03.LPSpec C03.PivotProofs C03.Phase2Inv C03.DeepInv C03.DeepAux C03.DeepPhase1
  C03.DeepSolve.
Import ListNotations.
Open Scope Q_scope.

(* ---- (1) OPTIMAL is sound: the returned point is feasible, the reported objective is c.x, no feasible point is
   better (<= for minimize, >= for maximize) *)
Theorem C03_optimal_sound : forall minimize fuel c A b r,
  valid_lp c A b = true ->
  solve_lp 0 minimize fuel c A b = r -> r_status r = OPTIMAL ->
  lp_optimal minimize c A b (r_solution r) /\ r_objective r == dot c (r_solution r).
Proof. exact optimal_sound_all. Qed.
Print Assumptions C03_optimal_sound.

(* ---- (2) INFEASIBLE is sound: no x >= 0 with A x <= b *)
Theorem C03_infeasible_sound : forall minimize fuel c A b r,
  valid_lp c A b = true ->
  solve_lp 0 minimize fuel c A b = r -> r_status r = INFEASIBLE -> lp_infeasible A b.
Proof. exact infeasible_sound_all. Qed.
Print Assumptions C03_infeasible_sound.

(* ---- (3) UNBOUNDED is sound: for every bound M there is a feasible point whose objective is beyond M
   (in particular a feasible point exists) *)
Theorem C03_unbounded_sound : forall minimize fuel c A b r,
  valid_lp c A b = true ->
  solve_lp 0 minimize fuel c A b = r -> r_status r = UNBOUNDED -> lp_unbounded minimize c A b.
Proof. exact unbounded_sound_all. Qed.
Print Assumptions C03_unbounded_sound.

(* ---- (4) a verdict other than MAX_ITER is the true class of the LP *)
Theorem C03_verdicts_exclusive_exact : forall minimize fuel c A b r,
  valid_lp c A b = true ->
  solve_lp 0 minimize fuel c A b = r -> r_status r <> MAX_ITER ->
  (r_status r = OPTIMAL <-> lp_has_optimum minimize c A b)
  /\ (r_status r = INFEASIBLE <-> lp_infeasible A b)
  /\ (r_status r = UNBOUNDED <-> lp_unbounded minimize c A b).
Proof. exact verdicts_exclusive_exact. Qed.
Print Assumptions C03_verdicts_exclusive_exact.

(* ---- the point returned with an OPTIMAL or UNBOUNDED answer is feasible and the objective is c.x *)
Theorem C03_point_feasible : forall minimize fuel c A b r,
  valid_lp c A b = true ->
  solve_lp 0 minimize fuel c A b = r -> r_status r = OPTIMAL \/ r_status r = UNBOUNDED ->
  feasible A b (r_solution r) /\ r_objective r == dot c (r_solution r).
Proof. exact point_feasible_all. Qed.
Print Assumptions C03_point_feasible.

(* ---- the invariant behind it.  _phase1 on a tableau T0 whose basis0 columns are unit columns and that has a
   negative rhs: never UNBOUNDED; OPTIMAL hands _phase2 a tableau satisfying the generalised invariant g_inv
   (p2_inv + all-zero rows for artificials that could not leave the basis) with the same solutions as T0 on
   vectors of the original length (artificial columns deleted); INFEASIBLE means the rows of T0 have no
   non-negative solution *)
Theorem C03_phase1_sound : forall n m T0 basis0,
  tab_wf (n + m) T0 -> length (t_rows T0) = m -> length basis0 = m ->
  (forall i, (i < m)%nat -> (nth i basis0 0 < n + m)%nat) ->
  (forall i k, (i < m)%nat -> (k < m)%nat ->
     get (fst (nth k (t_rows T0) row0)) (nth i basis0 0%nat) == if Nat.eqb k i then 1 else 0) ->
  (exists k, (k < m)%nat /\ snd (nth k (t_rows T0) row0) < 0) ->
  forall fuel st iters T1 basis1 piv1,
  phase1 0 fuel m n T0 basis0 = (st, iters, T1, basis1, piv1) ->
  st <> UNBOUNDED
  /\ (st = OPTIMAL ->
      g_inv (n + m) T1 basis1 /\ forall v z, length v = (n + m)%nat -> (tab_sat v z T0 <-> tab_sat v z T1))
  /\ (st = INFEASIBLE ->
      forall v, length v = (n + m)%nat -> Forall (fun q => 0 <= q) v -> ~ rows_sat v (t_rows T0)).
Proof. exact phase1_spec. Qed.
Print Assumptions C03_phase1_sound.

Theorem C03_phase2_ginv : forall N fuel it T basis piv st it' T' basis' piv',
  g_inv N T basis ->
  phase2 0 fuel it T basis piv = (st, it', T', basis', piv') ->
  g_inv N T' basis'
  /\ (forall v z, tab_sat v z T <-> tab_sat v z T')
  /\ (st = OPTIMAL -> find_enter 0 basis' T' = None)
  /\ (st = UNBOUNDED -> exists e, find_enter 0 basis' T' = Some e /\ find_leave 0 basis' T' e = None)
  /\ (Forall (fun j => (j < N)%nat) basis -> Forall (fun j => (j < N)%nat) basis').
Proof. exact phase2_ginv. Qed.
Print Assumptions C03_phase2_ginv.

(* ---- non-vacuity: valid LPs with a negative right-hand side (phase 1 runs) for each verdict *)
(* min 2x + 3y  s.t.  x + y >= 4, x - y >= 1, x <= 3 *)
Example C03_deep_optimal_nonvacuous :
  valid_lp [2; 3] [[-1; -1]; [-1; 1]; [1; 0]] [-4; -1; 3] = true
  /\ forallb (Qleb 0) [-4; -1; 3] = false
  /\ (let r := solve_lp 0 true 100 [2; 3] [[-1; -1]; [-1; 1]; [1; 0]] [-4; -1; 3] in
      r_status r = OPTIMAL /\ r_solution r = [3; 1] /\ r_objective r = 9
      /\ r_pivots r = [(1, 0); (0, 1); (2, 3)]%nat).
Proof. vm_compute. repeat split. Qed.

(* x + y <= 1, x + y >= 3 *)
Example C03_deep_infeasible_nonvacuous :
  valid_lp [1; 1] [[1; 1]; [-1; -1]] [1; -3] = true
  /\ r_status (solve_lp 0 true 100 [1; 1] [[1; 1]; [-1; -1]] [1; -3]) = INFEASIBLE.
Proof. vm_compute. repeat split. Qed.

(* max x + y  s.t.  x + y >= 1, x - y <= 2 *)
Example C03_deep_unbounded_nonvacuous :
  valid_lp [1; 1] [[-1; -1]; [1; -1]] [-1; 2] = true
  /\ r_status (solve_lp 0 false 100 [1; 1] [[-1; -1]; [1; -1]] [-1; 2]) = UNBOUNDED.
Proof. vm_compute. repeat split. Qed.
