(* Property C10 - Hungarian assignment is a matching of optimal total cost.
   Model: SV.C10.Hungarian (solvor/hungarian.py lines 50-131).  Only statements; proofs are in coq/C10/. *)
From Coq Require Import List Arith ZArith Bool.
From SV Require Import C10.Hungarian C10.HungarianSpec C10.HungarianCert C10.HungarianPad C10.HungarianGlue C10.HungarianMain C10.HungarianOuter.
Import ListNotations.
Open Scope Z_scope.

(* (1) for EVERY matrix (also 0 rows / 0 columns; number of columns = length of the first row): the model
   returns (no fuel / inf error), one entry per row, -1 or an in-range column, no column twice, exactly
   min(rows, cols) rows assigned *)
Theorem C10_matching : forall M minimize,
  exists a c, solve M minimize = Some (a, c) /\ matching_spec M a.
Proof. exact matching_lemma. Qed.
Print Assumptions C10_matching.

(* (2) the reported objective is the sum of the chosen entries of the ORIGINAL matrix *)
Theorem C10_objective : forall M minimize a c,
  solve M minimize = Some (a, c) -> objective_spec M (a, c).
Proof. exact objective_lemma. Qed.
Print Assumptions C10_objective.

(* behaviour pinned BEFORE fix 05cf383 (model variant solve_pinned, early return [] ): r > 0 rows of length 0
   returned [] instead of [-1]*r.  The current code / solve is covered by C10_matching without any guard. *)
Theorem C10_zero_cols_pinned_refuted :
  exists M, wf M = true /\ has_cols M = false /\
            exists a c, solve_pinned M true = Some (a, c) /\ ~ matching_spec M a.
Proof. exact zero_cols_pinned_refuted_lemma. Qed.
Print Assumptions C10_zero_cols_pinned_refuted.

(* (3) LP-duality certificate: feasible potentials that are tight on a perfect matching prove it optimal *)
Theorem cert_assignment : forall n C (u v : nat -> Z) s,
  (forall i j, (i < n)%nat -> (j < n)%nat -> u i + v j <= entry C i j) ->
  perm_list n s ->
  (forall i, (i < n)%nat -> u i + v (nth i s O) = entry C i (nth i s O)) ->
  forall t, perm_list n t -> pcost C s <= pcost C t.
Proof. exact cert_assignment_lemma. Qed.
Print Assumptions cert_assignment.

(* padding with zeros (minimise) *)
Theorem pad_ok : forall M m a,
  represents M m a ->
  (forall m', pmatch (Nat.max (n_rows M) (n_cols M)) m' -> mcost (padded M true) m <= mcost (padded M true) m') ->
  forall b, matching_spec M b -> cost_of M a <= cost_of M b.
Proof. exact pad_ok_lemma. Qed.
Print Assumptions pad_ok.

(* max_val - c and padding with zeros (maximise), entries of any sign *)
Theorem max_ok : forall M m a,
  represents M m a ->
  (forall m', pmatch (Nat.max (n_rows M) (n_cols M)) m' -> mcost (padded M false) m <= mcost (padded M false) m') ->
  forall b, matching_spec M b -> cost_of M b <= cost_of M a.
Proof. exact max_ok_lemma. Qed.
Print Assumptions max_ok.

(* every matching of the original extends to a perfect matching of the padded matrix, same (transformed) cost *)
Theorem pad_extend_ok : forall M mz b, matching_spec M b ->
  exists m', pmatch (Nat.max (n_rows M) (n_cols M)) m' /\ mcost (padded M mz) m' = kappa M mz (cost_of M b).
Proof. exact pad_extend. Qed.
Print Assumptions pad_extend_ok.

(* (4, per-run form) if the boolean certificate check on the model's FINAL potentials succeeds - it is
   evaluated by vm_compute for every correspondence case - the returned assignment is optimal *)
Theorem C10_optimal_partial : forall M minimize, solve_cert M minimize = true ->
  exists a, solve M minimize = Some (a, cost_of M a) /\ matching_spec M a /\ optimal_spec M minimize a.
Proof. exact solve_cert_optimal. Qed.
Print Assumptions C10_optimal_partial.

(* (4) C10_optimal: for EVERY matrix the loop keeps the potentials dual feasible on the inserted rows and
   tight on the matched pairs, so the returned assignment has minimum (minimize = true) resp. maximum
   (minimize = false) total cost among all matchings of size min(rows, cols) *)
Theorem C10_optimal : forall M minimize,
  exists a, solve M minimize = Some (a, cost_of M a) /\ matching_spec M a /\ optimal_spec M minimize a.
Proof. exact solve_optimal. Qed.
Print Assumptions C10_optimal.

(* ---------- non-vacuity *)
Example C10_nonvacuous_input :
  wf [[10;5;13];[3;9;18];[10;6;12]] = true
  /\ solve [[10;5;13];[3;9;18];[10;6;12]] true = Some ([1;0;2], 20)
  /\ solve [[10;5;13];[3;9;18];[10;6;12]] false = Some ([0;2;1], 34).
Proof. vm_compute. repeat split. Qed.

Example C10_nonvacuous_rect :
  solve [[] ; []] true = Some ([-1;-1], 0)
  /\ solve [[-1;-2];[-3;-4];[-5;-6]] true = Some ([-1;0;1], -9)
  /\ solve [[-1;-2];[-3;-4];[-5;-6]] false = Some ([0;1;-1], -5)
  /\ solve_cert [[-1;-2];[-3;-4];[-5;-6]] true = true /\ solve_cert [[-1;-2];[-3;-4];[-5;-6]] false = true
  /\ spec_check [[-1;-2];[-3;-4];[-5;-6]] ([-1;0;1], -9) = true.
Proof. vm_compute. repeat split. Qed.

(* the hypotheses of cert_assignment are satisfiable: 2 x 2 matrix, potentials u = (0,1), v = (1,1),
   the anti-diagonal is tight *)
Example C10_nonvacuous_cert :
  forallb (fun i => forallb (fun j => nth i [0; 1] 0 + nth j [1; 1] 0 <=? entry [[4; 1]; [2; 9]] i j) (seq 0 2)) (seq 0 2) = true
  /\ forallb (fun i => nth i [0; 1] 0 + nth (nth i [1%nat; 0%nat] O) [1; 1] 0 =? entry [[4; 1]; [2; 9]] i (nth i [1%nat; 0%nat] O)) (seq 0 2) = true
  /\ pcost [[4; 1]; [2; 9]] [1%nat; 0%nat] = 3.
Proof. vm_compute. repeat split. Qed.
