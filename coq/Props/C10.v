(* Property C10 - placeholder while the proofs are being written. *)
From Coq Require Import List ZArith Bool.
From SV Require Import C10.Hungarian C10.HungarianSpec.
Import ListNotations.
Open Scope Z_scope.

Example C10_model_example : solve [[10;5;13];[3;9;18];[10;6;12]] true = Some ([1;0;2], 20).
Proof. vm_compute. reflexivity. Qed.
