(* Property C07, deepened: the POINTER-LEVEL model of solvor/dlx.py (SV.C07.DeepLinks: left/right/up/down/column/
   row/size maps indexed by node id, _build_links, _cover, _uncover, search transcribed assignment by assignment)
   refines the pointer-free functional model SV.C07.Dlx, for every input.
     abs  : lst -> active primary columns * active rows     (DeepAbs: header ring from root via `right`; a row =
            the right-ring of its leftmost node; active = linked into the down-ring of a column that is on a header ring)
     LInv : the representation invariant (DeepAbs.LInv / DeepRep.Rep: the two header rings, every active column's
            down/up ring with its size, the static right/left ring of every row, are well-formed doubly linked rings)
     active s c : column c is on the primary or on the secondary header ring. *)
From Coq Require Import List Arith Bool ZArith.
From SV Require Import C07.Dlx C07.DlxSpec C07.DlxTop C07.DlxPrefix.
From SV Require Import C07.DeepLinks C07.DeepAbs C07.DeepBuildAll C07.DeepFinal C07.DeepTop.
Import ListNotations.

(* _cover(col) = "column c leaves its header ring, every row that has c becomes inactive", and the invariant is kept *)
Theorem C07_deep_cover_refines : forall s c,
  LInv s -> active s c = true ->
  exists s', cover (hdr c) s = Some s' /\ LInv s' /\ abs s' = fstep c (abs s).
Proof. exact cover_refines. Qed.
Print Assumptions C07_deep_cover_refines.

(* _uncover(col) restores the state before _cover(col) EXACTLY (every map, every entry) *)
Theorem C07_deep_uncover_inverse : forall s c s',
  LInv s -> active s c = true -> cover (hdr c) s = Some s' -> uncover (hdr c) s' = Some s.
Proof. exact uncover_inverse. Qed.
Print Assumptions C07_deep_uncover_inverse.

(* ... and so do nested covers undone in the reverse order (the LIFO discipline of search) *)
Theorem C07_deep_uncover_inverse_nested : forall s ks,
  LInv s -> NoDup ks -> (forall k, In k ks -> active s k = true) ->
  exists s', cover_all ks s = Some s' /\ LInv s' /\ uncover_all (rev ks) s' = Some s.
Proof. exact uncover_inverse_nested. Qed.
Print Assumptions C07_deep_uncover_inverse_nested.

(* _build_links: unless it raises IndexError, the structure it builds satisfies the invariant and denotes the functional
   model's initial state (rows without any truthy entry have no node; they never matter: DeepTop.search_ne) *)
Theorem C07_deep_build_refines : forall inp,
  rows_in_range (length (col_names inp)) (mk_rows (matrix inp)) = true ->
  exists s, build_links inp = Some s /\ LInv s
            /\ abs s = (prim_cols inp, filter nonemptyb (mk_rows (matrix inp))).
Proof. exact build_refines. Qed.
Print Assumptions C07_deep_build_refines.

Theorem C07_deep_build_index_error : forall inp,
  rows_in_range (length (col_names inp)) (mk_rows (matrix inp)) = false -> build_links inp = None.
Proof. exact DeepBuildAll.build_links_none. Qed.
Print Assumptions C07_deep_build_index_error.

(* search() on any state satisfying the invariant: same return flag, same counters and solutions as the functional
   search on the abstraction, no fuel exhaustion in any pointer loop, links restored exactly when it returns False *)
Theorem C07_deep_search_refines_state : forall fa ms mi f s cur st b st',
  LInv s ->
  search fa ms mi f (fst (abs s)) (snd (abs s)) cur st = Some (b, st') ->
  exists s', psearch fa ms mi f s cur st = Some (b, st', s') /\ (b = false -> s' = s).
Proof. exact search_refines_state. Qed.
Print Assumptions C07_deep_search_refines_state.

(* the whole solver, every input (well-formed or not): identical outcome - ordered selections, objective,
   iterations, evaluations, status, IndexError *)
Theorem C07_deep_search_refines : forall inp, psolve inp = solve inp.
Proof. exact search_refines. Qed.
Print Assumptions C07_deep_search_refines.

(* ---- corollary C07_pointer_sound_complete: the theorems of Props/C07.v about `solve` hold of the pointer-level solver *)
Theorem C07_pointer_sound : forall inp r,
  valid_input inp = true -> psolve inp = Done r -> forall S, In S (selections r) -> is_cover inp S.
Proof. exact psolve_sound. Qed.
Print Assumptions C07_pointer_sound.

Theorem C07_pointer_complete : forall inp r,
  valid_input inp = true -> psolve inp = Done r -> find_all inp = true -> r_status r = OPTIMAL ->
  (exists R, r_sol r = SMany R /\ r_obj r = length R) /\ lists_all_covers inp (selections r).
Proof. exact psolve_complete. Qed.
Print Assumptions C07_pointer_complete.

Theorem C07_pointer_nodup : forall inp r,
  valid_input inp = true -> psolve inp = Done r -> find_all inp = true -> r_status r = OPTIMAL ->
  forall i j, i < j < length (selections r) -> ~ same_set (nth i (selections r) []) (nth j (selections r) []).
Proof. exact psolve_nodup. Qed.
Print Assumptions C07_pointer_nodup.

Theorem C07_pointer_nodup_any : forall inp r,
  valid_input inp = true -> psolve inp = Done r ->
  forall i j, i < j < length (selections r) -> ~ same_set (nth i (selections r) []) (nth j (selections r) []).
Proof. exact psolve_nodup_any. Qed.
Print Assumptions C07_pointer_nodup_any.

Theorem C07_pointer_prefix : forall inp r,
  valid_input inp = true -> psolve inp = Done r -> find_all inp = true ->
  exists R Q, lists_all_covers inp R /\ R = selections r ++ Q.
Proof. exact psolve_prefix. Qed.
Print Assumptions C07_pointer_prefix.

Theorem C07_pointer_find_all_uncut : forall inp r,
  valid_input inp = true -> psolve inp = Done r -> find_all inp = true ->
  r_status r = OPTIMAL \/ r_status r = INFEASIBLE -> lists_all_covers inp (selections r).
Proof. exact psolve_find_all_uncut. Qed.
Print Assumptions C07_pointer_find_all_uncut.

Theorem C07_pointer_infeasible_iff : forall inp r,
  valid_input inp = true -> psolve inp = Done r -> r_status r <> MAX_ITER ->
  (r_status r = INFEASIBLE <-> ~ exists S, is_cover inp S).
Proof. exact psolve_infeasible_iff. Qed.
Print Assumptions C07_pointer_infeasible_iff.

Theorem C07_pointer_first : forall inp r,
  valid_input inp = true -> psolve inp = Done r -> find_all inp = false -> r_status r = OPTIMAL ->
  exists s, r_sol r = SOne s /\ r_obj r = length s /\ is_cover inp s.
Proof. exact psolve_first. Qed.
Print Assumptions C07_pointer_first.

Theorem C07_pointer_status : forall inp r, psolve inp = Done r -> status_facts inp r.
Proof. exact psolve_status. Qed.
Print Assumptions C07_pointer_status.

Theorem C07_pointer_fuel : forall inp, psolve inp <> OutOfFuel.
Proof. exact psolve_fuel_ok. Qed.
Print Assumptions C07_pointer_fuel.

Theorem C07_pointer_index_error : forall inp,
  psolve inp = IndexError <->
  degenerate inp = false /\ rows_in_range (length (col_names inp)) (mk_rows (matrix inp)) = false.
Proof. exact psolve_index_error. Qed.
Print Assumptions C07_pointer_index_error.

(* ---------------------------------------------------------------- non-vacuity *)
Definition T := true.
Definition F := false.
Definition dx_matrix : list (list bool) :=
  [[T;F;T;F]; [F;T;F;F]; [F;F;F;F]; [F;T;F;T]; [T;F;F;F]; [F;F;T;F]; [T;T;F;F]; [F;F;T;T]].
(* named columns, one secondary column, one row without any entry *)
Definition dx_all : input :=
  {| matrix := dx_matrix; columns := Some [10; 11; 12; 13]; secondary := [13];
     find_all := true; max_solutions := None; max_iter := 10000000%Z |}.
Definition dx_state : lst := match build_links dx_all with Some s => s | None => init_links 0 end.

(* the hypothesis of build_refines holds, the built structure has 17 nodes + 6 headers/roots, and `abs` of it is
   the functional model's initial state without the empty row *)
Example C07_deep_nonvacuous_build :
  rows_in_range (length (col_names dx_all)) (mk_rows (matrix dx_all)) = true
  /\ n_ids dx_state = 17
  /\ abs dx_state = ([0; 1; 2], [(0, [0; 2]); (1, [1]); (3, [1; 3]); (4, [0]); (5, [2]); (6, [0; 1]); (7, [2; 3])])
  /\ ascols dx_state = [3].
Proof. vm_compute. repeat split. Qed.

(* covering column 1 (active) removes rows 1, 3, 6; covering then the secondary column 3; uncovering 3 then 1 gives
   back the very same maps *)
Example C07_deep_nonvacuous_cover :
  active dx_state 1 = true /\ active dx_state 3 = true
  /\ option_map abs (cover (hdr 1) dx_state) = Some ([0; 2], [(0, [0; 2]); (4, [0]); (5, [2]); (7, [2; 3])])
  /\ option_map abs (cover_all [1; 3] dx_state) = Some ([0; 2], [(0, [0; 2]); (4, [0]); (5, [2])])
  /\ match cover_all [1; 3] dx_state with Some s' => uncover_all [3; 1] s' | None => None end = Some dx_state
  /\ (match cover_all [1; 3] dx_state with Some s' => uncover_all [1; 3] s' | None => None end = Some dx_state -> False).
Proof. vm_compute. repeat split. intros H. discriminate H. Qed.

(* the whole pointer-level solver on this input: 7 covers, the same outcome as the functional model *)
Example C07_deep_nonvacuous_solve :
  valid_input dx_all = true
  /\ psolve dx_all = Done {| r_sol := SMany [[0; 1]; [0; 3]; [4; 1; 5]; [4; 1; 7]; [4; 3; 5]; [6; 5]; [6; 7]];
                             r_obj := 7; r_iters := 13; r_evals := 12; r_status := OPTIMAL |}.
Proof. vm_compute. repeat split. Qed.
