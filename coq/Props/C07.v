(* Property C07 - exact cover (solvor/dlx.py: solve_exact_cover).
   Model: SV.C07.Dlx.solve (tied to /repo by the correspondence lemmas generated at every run).
   Spec:  SV.C07.DlxSpec (exact_cover, all_covers; is_cover / lists_all_covers read an input's matrix,
          primary and secondary columns).
   `valid_input inp` = the call names every matrix column (columns=None, or as many names as row 0 is long).
   `selections r`    = the selections contained in r.solution whatever its shape (None / tuple / list). *)
From Coq Require Import List Arith Bool ZArith.
From SV Require Import C07.Dlx C07.DlxSpec C07.DlxTop C07.DlxPrefix C07.DlxCheck.
Import ListNotations.

(* (1) every selection returned - any flags, any limits, any status - is an exact cover: no row twice, each
       row covers >= 1 primary column, each primary column exactly once, each secondary at most once *)
Theorem C07_sound : forall inp r,
  valid_input inp = true -> solve inp = Done r ->
  forall S, In S (selections r) -> is_cover inp S.
Proof. exact solve_sound. Qed.
Print Assumptions C07_sound.

(* (2) find_all and status OPTIMAL (i.e. not cut by max_solutions = FEASIBLE, nor by max_iter = MAX_ITER):
       solution is a list, objective its length, and the list contains only exact covers, every exact cover
       up to the order of its rows, and no cover twice *)
Theorem C07_complete : forall inp r,
  valid_input inp = true -> solve inp = Done r -> find_all inp = true -> r_status r = OPTIMAL ->
  (exists R, r_sol r = SMany R /\ r_obj r = length R) /\ lists_all_covers inp (selections r).
Proof. exact solve_complete. Qed.
Print Assumptions C07_complete.

Theorem C07_nodup : forall inp r,
  valid_input inp = true -> solve inp = Done r -> find_all inp = true -> r_status r = OPTIMAL ->
  forall i j, i < j < length (selections r) ->
  ~ same_set (nth i (selections r) []) (nth j (selections r) []).
Proof. exact solve_nodup. Qed.
Print Assumptions C07_nodup.

(* beyond the property text: NO answer (cut by max_solutions / max_iter or not, find_all or not) lists the same
   cover twice, and with find_all the returned list is always an initial segment of a complete duplicate-free
   list of all exact covers *)
Theorem C07_nodup_any : forall inp r,
  valid_input inp = true -> solve inp = Done r ->
  forall i j, i < j < length (selections r) ->
  ~ same_set (nth i (selections r) []) (nth j (selections r) []).
Proof. exact solve_nodup_any. Qed.
Print Assumptions C07_nodup_any.

Theorem C07_prefix : forall inp r,
  valid_input inp = true -> solve inp = Done r -> find_all inp = true ->
  exists R Q, lists_all_covers inp R /\ R = selections r ++ Q.
Proof. exact solve_prefix. Qed.
Print Assumptions C07_prefix.

(* the same as C07_complete, including the empty answer *)
Theorem C07_find_all_uncut : forall inp r,
  valid_input inp = true -> solve inp = Done r -> find_all inp = true ->
  r_status r = OPTIMAL \/ r_status r = INFEASIBLE ->
  lists_all_covers inp (selections r).
Proof. exact solve_find_all_uncut. Qed.
Print Assumptions C07_find_all_uncut.

(* (3) unless the iteration limit was hit, INFEASIBLE is reported exactly when no exact cover exists *)
Theorem C07_infeasible_iff : forall inp r,
  valid_input inp = true -> solve inp = Done r -> r_status r <> MAX_ITER ->
  (r_status r = INFEASIBLE <-> ~ exists S, is_cover inp S).
Proof. exact solve_infeasible_iff. Qed.
Print Assumptions C07_infeasible_iff.

(* find_all=False: OPTIMAL = one selection, an exact cover *)
Theorem C07_first : forall inp r,
  valid_input inp = true -> solve inp = Done r -> find_all inp = false -> r_status r = OPTIMAL ->
  exists s, r_sol r = SOne s /\ r_obj r = length s /\ is_cover inp s.
Proof. exact solve_first. Qed.
Print Assumptions C07_first.

(* (4) status mapping (DlxTop.status_facts): MAX_ITER <-> a search ran and iterations > max_iter; FEASIBLE only
       with find_all and max_solutions reached; solution None <-> no selection, only with INFEASIBLE / MAX_ITER;
       shape of solution / objective per find_all *)
Theorem C07_status : forall inp r, solve inp = Done r -> status_facts inp r.
Proof. exact solve_status. Qed.
Print Assumptions C07_status.

(* (5) fuel = number of primary columns + 1 always suffices; the only other outcome is the IndexError of
       _build_links, raised exactly for a truthy entry beyond the named columns *)
Theorem C07_fuel : forall inp, solve inp <> OutOfFuel.
Proof. exact solve_fuel_ok. Qed.
Print Assumptions C07_fuel.

Theorem C07_index_error : forall inp,
  solve inp = IndexError <->
  degenerate inp = false /\ rows_in_range (length (col_names inp)) (mk_rows (matrix inp)) = false.
Proof. exact solve_index_error. Qed.
Print Assumptions C07_index_error.

(* the boolean checker evaluated on the IMPLEMENTATION's outputs at every run is sound for the Spec *)
Theorem C07_spec_check_sound : forall inp r,
  spec_check inp r = true ->
  (forall S, In S (selections r) -> is_cover inp S)
  /\ (forall i j, i < j < length (selections r) ->
        ~ same_set (nth i (selections r) []) (nth j (selections r) [])).
Proof. exact spec_check_sound. Qed.
Print Assumptions C07_spec_check_sound.

(* ... and so is the completeness checker evaluated on the implementation's find_all outputs (it compares with an
   enumeration that is proved to list every exact cover; the statement mentions only the Spec) *)
Theorem C07_complete_check_sound : forall inp r,
  input_in_range inp = true -> complete_check inp r = true -> lists_all_covers inp (selections r).
Proof. exact complete_check_sound. Qed.
Print Assumptions C07_complete_check_sound.

(* ---------------------------------------------------------------- non-vacuity *)
Definition T := true.
Definition F := false.
Definition ex_matrix : list (list bool) :=
  [[T;F;T;F]; [F;T;F;F]; [F;T;F;T]; [T;F;F;F]; [F;F;T;F]; [T;T;F;F]; [F;F;T;T]].

(* named columns, one secondary column, find_all: 7 covers, hypotheses of C07_sound/complete/nodup hold *)
Definition ex_all : input :=
  {| matrix := ex_matrix; columns := Some [10; 11; 12; 13]; secondary := [13];
     find_all := true; max_solutions := None; max_iter := 10000000%Z |}.
Example C07_nonvacuous_find_all :
  valid_input ex_all = true /\ prim_cols ex_all = [0; 1; 2] /\ sec_cols ex_all = [3]
  /\ solve ex_all = Done {| r_sol := SMany [[0; 1]; [0; 2]; [3; 1; 4]; [3; 1; 6]; [3; 2; 4]; [5; 4]; [5; 6]];
                            r_obj := 7; r_iters := 13; r_evals := 12; r_status := OPTIMAL |}.
Proof. vm_compute. repeat split. Qed.

(* no cover: INFEASIBLE, not MAX_ITER (hypotheses of C07_infeasible_iff) *)
Definition ex_none : input :=
  {| matrix := [[T;T;F]; [F;T;T]; [T;F;T]]; columns := None; secondary := [];
     find_all := false; max_solutions := None; max_iter := 10000000%Z |}.
Example C07_nonvacuous_infeasible :
  valid_input ex_none = true
  /\ solve ex_none = Done {| r_sol := SNone; r_obj := 0; r_iters := 3; r_evals := 3; r_status := INFEASIBLE |}.
Proof. vm_compute. repeat split. Qed.

(* cut by max_solutions -> FEASIBLE; cut by max_iter -> MAX_ITER with the selections found so far *)
Definition ex_ms : input :=
  {| matrix := ex_matrix; columns := None; secondary := [3];
     find_all := true; max_solutions := Some 2%Z; max_iter := 10000000%Z |}.
Definition ex_mi : input :=
  {| matrix := ex_matrix; columns := None; secondary := [3];
     find_all := true; max_solutions := None; max_iter := 4%Z |}.
Example C07_nonvacuous_limits :
  solve ex_ms = Done {| r_sol := SMany [[0; 1]; [0; 2]]; r_obj := 2; r_iters := 4; r_evals := 4; r_status := FEASIBLE |}
  /\ solve ex_mi = Done {| r_sol := SMany [[0; 1]; [0; 2]]; r_obj := 2; r_iters := 6; r_evals := 5; r_status := MAX_ITER |}.
Proof. vm_compute. repeat split. Qed.

(* find_all=False on the same matrix: first cover only *)
Definition ex_first : input :=
  {| matrix := ex_matrix; columns := None; secondary := [3];
     find_all := false; max_solutions := None; max_iter := 10000000%Z |}.
Example C07_nonvacuous_first :
  valid_input ex_first = true
  /\ solve ex_first = Done {| r_sol := SOne [0; 1]; r_obj := 2; r_iters := 3; r_evals := 3; r_status := OPTIMAL |}.
Proof. vm_compute. repeat split. Qed.

(* a ragged row with a truthy entry beyond the named columns: IndexError *)
Example C07_nonvacuous_index_error :
  solve {| matrix := [[T;F]; [F;T;T]]; columns := None; secondary := [];
           find_all := true; max_solutions := None; max_iter := 4%Z |} = IndexError.
Proof. vm_compute. reflexivity. Qed.

(* the checker accepts a real cover and rejects a selection that covers a column twice *)
Example C07_nonvacuous_spec_check :
  cover_check ex_matrix [0; 1; 2] [3] [3; 1; 6] = true /\ cover_check ex_matrix [0; 1; 2] [3] [0; 5] = false.
Proof. vm_compute. split; reflexivity. Qed.

(* the completeness checker accepts the full list in another order / with rows permuted, rejects a list with one
   cover missing *)
Definition res_of (R : list (list nat)) : result :=
  {| r_sol := SMany R; r_obj := length R; r_iters := 13; r_evals := 12; r_status := OPTIMAL |}.
Example C07_nonvacuous_complete_check :
  input_in_range ex_all = true
  /\ complete_check ex_all (res_of [[5; 6]; [4; 5]; [1; 0]; [0; 2]; [3; 1; 4]; [6; 1; 3]; [3; 2; 4]]) = true
  /\ complete_check ex_all (res_of [[0; 1]; [0; 2]; [3; 1; 4]; [3; 1; 6]; [3; 2; 4]; [5; 4]]) = false.
Proof. vm_compute. repeat split. Qed.
