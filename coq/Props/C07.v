(* Property C07 - exact cover (solvor/dlx.py).  Theorems are added as they are proved. *)
From Coq Require Import List Arith Bool ZArith.
From SV Require Import C07.Dlx C07.DlxSpec.
Import ListNotations.

(* The boolean checker evaluated on the implementation's outputs at every run is sound for the Spec. *)
Theorem C07_spec_check_sound : forall inp r,
  spec_check inp r = true ->
  (forall S, In S (selections r) -> is_cover inp S)
  /\ (forall i j, i < j < length (selections r) ->
        ~ same_set (nth i (selections r) []) (nth j (selections r) [])).
Proof. exact spec_check_sound. Qed.
Print Assumptions C07_spec_check_sound.
