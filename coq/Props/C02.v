(* Property C02: SAT verdicts are correct and the solver always comes back.
   Proved (for every trace accepted by the full guarded machine, chk = true): INFEASIBLE only if the
   formula with the assumptions has no model; never a model for an unsatisfiable formula; learned
   clauses are entailed; the enumeration-complete verdict misses no model; the fixed luby() is the
   Luby sequence, total with an explicit iteration bound, and the pinned luby() hangs on 2.
   Explored only (harness): completeness of the search and termination of the real interpreter.
   Only statements + `exact <lemma>`; proofs in C01/*.v. *)
From Coq Require Import List ZArith Bool.
Import ListNotations.
From SV Require Import C01.SatSpec C01.Rup C01.Machine C01.Luby C01.Budget.
From SV Require C01.RupProofs C01.SatLemmas C01.MachineInv C01.MachineThms C01.LubyProofs C01.BudgetProofs.
Open Scope Z_scope.

(* reverse unit propagation is a sound entailment test *)
Theorem rup_sound : forall F c, rup F c = true -> entails F c.
Proof. exact RupProofs.rup_sound. Qed.
Print Assumptions rup_sound.

(* every accepted clause of conflict analysis is entailed by the input, the assumption units, the
   pure-literal units and the blocking clauses accepted so far *)
Theorem learned_entailed : forall N A limit evs s, run true N A limit evs = Some s ->
  forall c, In (c, false) (db s) ->
  entails (units A ++ units (pures s) ++ N ++ blockings (db s)) c.
Proof. exact MachineThms.learned_entailed_thm. Qed.
Print Assumptions learned_entailed.

(* same, "so far" made explicit: db is newest first and each clause only needs the blocking clauses after it in the list *)
Theorem learned_entailed_sofar : forall N A limit evs s, run true N A limit evs = Some s ->
  MachineInv.db_entailed (base N A (pures s)) (db s).
Proof. exact MachineThms.learned_entailed_sofar_thm. Qed.
Print Assumptions learned_entailed_sofar.

(* forcing literals that are pure in N, on variables that are not assumed, keeps N /\ A satisfiable *)
Theorem pure_ok : forall N A P m, pure_okb N A P = true -> models m N -> agrees m A ->
  models (SatLemmas.force P m) N /\ agrees (SatLemmas.force P m) A /\ agrees (SatLemmas.force P m) P.
Proof. exact SatLemmas.pure_ok. Qed.
Print Assumptions pure_ok.

Theorem C02_unsat_sound : forall N A limit evs s, run true N A limit evs = Some s ->
  verdict s = Some RInfeasible -> unsat_under N A.
Proof. exact MachineThms.unsat_sound_thm. Qed.
Print Assumptions C02_unsat_sound.

(* in terms of the returned Result: status INFEASIBLE => no model under the assumptions (and no model returned) *)
Theorem C02_unsat_result : forall N A limit evs s r, run true N A limit evs = Some s ->
  result_of limit s = Some r -> r_status r = INFEASIBLE -> unsat_under N A /\ r_solution r = None.
Proof. exact MachineThms.unsat_result_thm. Qed.
Print Assumptions C02_unsat_result.

Theorem C02_no_false_model : forall chk N A limit evs s, run chk N A limit evs = Some s ->
  unsat_under N A ->
  sols s = [] /\ forall r, result_of limit s = Some r -> r_solution r = None /\ r_solutions r = None.
Proof. exact MachineThms.no_false_model_thm. Qed.
Print Assumptions C02_no_false_model.

(* enumeration ended by a level-0 conflict / a blocking clause without open literal: no model is missing *)
Theorem C02_enum_complete_sound : forall N A limit evs s, run true N A limit evs = Some s ->
  verdict s = Some RExhausted ->
  forall a, models a N -> agrees a A ->
  exists m, In m (sols s) /\ forall l, In l m -> lit_true a l = true.
Proof. exact MachineThms.enum_complete_thm. Qed.
Print Assumptions C02_enum_complete_sound.

(* the fixed luby(i) returns within 2*i loop iterations, its value is the Luby sequence (a functional
   relation) and is >= 1, so restart thresholds luby_factor * luby(i) are positive multiples *)
Theorem luby_spec : forall i, 1 <= i ->
  exists v, luby (luby_fuel i) i = Some v /\ Luby i v /\ 1 <= v /\ forall v', Luby i v' -> v' = v.
Proof. exact LubyProofs.luby_spec. Qed.
Print Assumptions luby_spec.

(* the pinned luby (without the upper bound in the block test) never returns on 2: the first restart hangs *)
Theorem luby_pinned_refuted : forall fuel, luby_pinned fuel 2 = None.
Proof. exact LubyProofs.luby_pinned_refuted. Qed.
Print Assumptions luby_pinned_refuted.

(* stretch: the budget counters recomputed from the trace (C01/Budget.v) never decrease ... *)
Theorem budget_monotone : forall lf mc mr evs1 evs2 b0 b1 b2,
  b_run_from lf mc mr b0 evs1 = Some b1 -> b_run_from lf mc mr b1 evs2 = Some b2 ->
  b_run_from lf mc mr b0 (evs1 ++ evs2) = Some b2 /\ BudgetProofs.b_le b0 b1 /\ BudgetProofs.b_le b1 b2.
Proof. exact BudgetProofs.budget_monotone. Qed.
Print Assumptions budget_monotone.

(* ... and a MAX_ITER verdict is accepted only when max_conflicts <= analysed conflicts + 1, or at a restart
   point with restarts >= max_restarts.  Partial: that `conflicts` is within {L, L+1} of the number L of learn
   events is read off the code, not proved (the machine does not see the counter). *)
Theorem budget_partial : forall lf mc mr evs b,
  b_run lf mc mr (evs ++ [EVerdict MAX_ITER]) = Some b ->
  mc <= b_learns b + 1 \/ (mr <= b_restarts b /\ b_next b <= b_csr b).
Proof. exact BudgetProofs.budget_partial. Qed.
Print Assumptions budget_partial.

(* ---- non-vacuity: real traces of /repo ---- *)
Definition ex_unsat : cnf :=
  [[1; 2; 3]; [-1; -2]; [1; -2; -3]; [-1; 2; -3]; [-1; -2; 3]; [1; 2; -3]; [1; -2; 3]; [-1; 2; 3]].

Example C02_nonvacuous_unsat :
  exists s, run true ex_unsat [] 1 [EInit 3 [] [] []; ELearn [-1] false; ELearn [2; 1] false; EVerdict INFEASIBLE] = Some s
    /\ verdict s = Some RInfeasible /\ length (db s) = 2%nat.
Proof. vm_compute. eexists. repeat split. Qed.

(* a clause that is not RUP is rejected; INFEASIBLE without a refutation is rejected *)
Example C02_nonvacuous_rejects :
  run true [[1; 2]; [-1; 2; 3]] [] 1 [EInit 3 [] [] []; ELearn [-2] false] = None
  /\ run true [[1; 2]] [-1] 1 [EInit 2 [] [] [-1]; EVerdict INFEASIBLE] = None
  /\ run true [[1; 2]] [-1] 1 [EInit 2 [1; 2] [] [-1]; EVerdict INFEASIBLE] = None.
Proof. vm_compute. repeat split. Qed.

Example C02_nonvacuous_enum :
  exists s, run true [[1; 2]; [-1; -2]] [] 10
              [EInit 2 [] [] []; ESolution [1; -2]; ELearn [-1; 2] true; ELearn [-1] false;
               ESolution [-1; 2]; ELearn [1; -2] true; EVerdict OPTIMAL] = Some s
    /\ verdict s = Some RExhausted /\ length (sols s) = 2%nat.
Proof. vm_compute. eexists. repeat split. Qed.

Example C02_luby_prefix_example :
  map (fun i => luby (luby_fuel i) i) [1; 2; 3; 4; 5; 6; 7; 8; 9; 10; 11; 12; 13; 14; 15]
  = map Some [1; 1; 2; 1; 1; 2; 4; 1; 1; 2; 1; 1; 2; 4; 8].
Proof. vm_compute. reflexivity. Qed.

(* max_restarts = 0, luby_factor = 1: the first analysed conflict is a restart point -> MAX_ITER accepted;
   the same verdict without a met budget is rejected *)
Example C02_nonvacuous_budget :
  budget_ok 1 100000 0 [EInit 3 [] [] []; ELearn [-1] false; EVerdict MAX_ITER] = true
  /\ budget_ok 100 100000 10000 [EInit 3 [] [] []; ELearn [-1] false; EVerdict MAX_ITER] = false
  /\ budget_ok 100 2 10000 [EInit 3 [] [] []; ELearn [-1] false; EVerdict MAX_ITER] = true.
Proof. vm_compute. repeat split. Qed.
