(* C17 deep, second round - the WHOLE of solve_bp is inside the model (coq/C17/DeepBpTree.v: root node, best-first tree search,
   node records with column bounds, per-node column generation, bounded master LP with column-bound rows, max_nodes, the
   status rule against ceil(root LP)); harness/props/C17_deep.py ties its full answer (status, ordered plan, objective, nodes
   explored, cg iterations) to /repo on every run.  What is proved of that model, for EVERY input:
   (1) every plan returned with OPTIMAL / FEASIBLE passes the gate `plan_ok` (patterns fit, demands covered, objective = rolls)
       - invariant: the incumbent is only ever replaced by a plan that passed `_covers` / is the rounded root plan;
   (2) status OPTIMAL (wherever it is claimed: at the root or inside the tree) is the true minimum, eps = 0;
   (3) the objective of a returned plan is never below the true minimum;
   plus: without bounds the bounded master LP is the root master LP; the loop fuel of the model is never what stops it.
   Each theorem is `exact` of a lemma of coq/C17/DeepBpTreeProofs.v, DeepBpTreeOptimal.v, DeepBpTreeFuel.v. *)
From Coq Require Import List ZArith QArith Qround Bool.
From SV Require Import C17.Cg C17.CgSpec C17.Bp C17.DeepBp C17.DeepBpTree C17.DeepBpTreeProofs C17.DeepBpTreeOptimal C17.DeepBpTreeFuel
                       C17.DeepBpTreeWitness.
Import ListNotations.

(* (1) the gate, any eps in [0, 1) (the code's default is 1e-9) *)
Theorem C17_bp_tree_gate : forall eps gap sizes width demands max_iter max_nodes o,
  (0 <= eps)%Q -> (eps < 1)%Q ->
  solve_bp_tree eps gap sizes width demands max_iter max_nodes = TAns o ->
  ba_status (to_ans o) <> INFEASIBLE ->
  exists sol obj, ba_sol (to_ans o) = Some sol /\ ba_obj (to_ans o) = Some obj /\ plan_ok sizes width demands sol obj = true.
Proof. exact bp_tree_gate. Qed.
Print Assumptions C17_bp_tree_gate.

(* ... and what the gate means (GateProofs.plan_ok_sound): a covering plan of fitting patterns whose roll count is the objective *)
Theorem C17_bp_tree_plan_covers : forall eps gap sizes width demands max_iter max_nodes o,
  (0 <= eps)%Q -> (eps < 1)%Q ->
  solve_bp_tree eps gap sizes width demands max_iter max_nodes = TAns o ->
  ba_status (to_ans o) <> INFEASIBLE ->
  exists sol obj, ba_sol (to_ans o) = Some sol /\ ba_obj (to_ans o) = Some obj /\
                  covering (fits sizes width) demands sol /\ obj = rolls sol.
Proof. exact bp_tree_plan_covers. Qed.
Print Assumptions C17_bp_tree_plan_covers.

(* INFEASIBLE never comes with a plan *)
Theorem C17_bp_tree_infeasible_no_plan : forall eps gap sizes width demands max_iter max_nodes o,
  (0 <= eps)%Q -> (eps < 1)%Q ->
  solve_bp_tree eps gap sizes width demands max_iter max_nodes = TAns o ->
  ba_status (to_ans o) = INFEASIBLE -> ba_sol (to_ans o) = None /\ ba_obj (to_ans o) = None.
Proof. exact bp_tree_infeasible_no_plan. Qed.
Print Assumptions C17_bp_tree_infeasible_no_plan.

(* (2) OPTIMAL is minimal: eps = 0 (the eps -> 0 limit of the model, see the header of Bp.v), every input, every max_iter
   and max_nodes; gap_ok gap obj := gap * max(|obj|, 1e-10) <= 1: the relative gap tolerance cannot hide a whole roll
   (default gap 1e-6: objectives up to 10^6 rolls). *)
Theorem C17_bp_tree_optimal_sound : forall gap sizes width demands max_iter max_nodes o obj,
  solve_bp_tree 0 gap sizes width demands max_iter max_nodes = TAns o ->
  ba_status (to_ans o) = OPTIMAL -> ba_obj (to_ans o) = Some obj ->
  gap_ok gap obj = true ->
  is_min (fits sizes width) demands obj.
Proof. exact bp_tree_optimal_sound. Qed.
Print Assumptions C17_bp_tree_optimal_sound.

(* (3) never below the true minimum *)
Theorem C17_bp_tree_never_below : forall eps gap sizes width demands max_iter max_nodes o obj r,
  (0 <= eps)%Q -> (eps < 1)%Q ->
  solve_bp_tree eps gap sizes width demands max_iter max_nodes = TAns o ->
  ba_status (to_ans o) <> INFEASIBLE -> ba_obj (to_ans o) = Some obj ->
  is_min (fits sizes width) demands r -> (r <= obj)%Z.
Proof. exact bp_tree_never_below. Qed.
Print Assumptions C17_bp_tree_never_below.

(* the tree model continues the root model of Bp.v: without column bounds `_solve_bounded_master_lp` builds the tableau of the
   root master LP, and an answer of the tree model is the root model's answer or comes out of the loop started from its root *)
Theorem C17_bounded_master_nil : forall eps columns demands,
  bounded_master_lp eps columns demands [] = master_lp true eps columns demands.
Proof. exact bounded_master_nil. Qed.
Print Assumptions C17_bounded_master_nil.

Theorem C17_bp_tree_extends_root : forall eps gap sizes width demands max_iter max_nodes o,
  solve_bp_tree eps gap sizes width demands max_iter max_nodes = TAns o ->
  match b_out (solve_bp_root eps gap sizes width demands max_iter) with
  | BpDone st sol obj it => to_ans o = mkBA st sol obj 0 it
  | BpTree rb inc =>
      exists lp, b_lp (solve_bp_root eps gap sizes width demands max_iter) = Some lp /\
        tree_loop eps gap true (cs_pricing eps sizes width) demands max_iter max_nodes rb (tree_fuel max_nodes)
                  (b_pool (solve_bp_root eps gap sizes width demands max_iter)) inc [(lp, O, [])] 1 0
                  (b_iters (solve_bp_root eps gap sizes width demands max_iter)) [] = Some o
  | _ => False
  end.
Proof. exact solve_bp_tree_link. Qed.
Print Assumptions C17_bp_tree_extends_root.

(* `while tree and nodes_explored < max_nodes` terminates within the model's fuel: more fuel changes nothing, so an answer
   TNoFuel of the model is never caused by the loop (only by a simplex_phase call using up its 100000 iterations) *)
Theorem C17_bp_tree_fuel_enough : forall eps gap is_cs pricing demands max_iter max_nodes rb extra cols best lp it,
  tree_loop eps gap is_cs pricing demands max_iter max_nodes rb (tree_fuel max_nodes + extra) cols best [(lp, O, [])] 1 0 it [] =
  tree_loop eps gap is_cs pricing demands max_iter max_nodes rb (tree_fuel max_nodes) cols best [(lp, O, [])] 1 0 it [].
Proof. exact tree_fuel_enough. Qed.
Print Assumptions C17_bp_tree_fuel_enough.

(* ---- non-vacuity *)
Example C17_deep2_nonvacuous_optimal_in_tree :
  exists o, solve_bp_tree 0 gap_default [5;4;3]%Z 12%Z [3;4;5]%Z 30 20 = TAns o /\
            ba_status (to_ans o) = OPTIMAL /\ ba_obj (to_ans o) = Some 4%Z /\ ba_nodes (to_ans o) = 3%nat /\
            to_trace o = [([(2%nat, 1%Q, None)], Some 4%Q); ([(2%nat, 0%Q, Some 0%Q)], Some 5%Q); ([], Some (23 # 6)%Q)] /\
            gap_ok gap_default 4 = true.
Proof. exact tree_nonvacuous_optimal. Qed.

Example C17_deep2_nonvacuous_feasible_above_min :
  exists o, solve_bp_tree 0 gap_default [6;5;4]%Z 11%Z [2;3;3]%Z 30 20 = TAns o /\
            ba_status (to_ans o) = FEASIBLE /\ ba_obj (to_ans o) = Some 5%Z /\ ba_nodes (to_ans o) = 5%nat /\
            plan_ok [6;5;4]%Z 11%Z [2;3;3]%Z [([1;1;0], 2); ([0;1;1], 1); ([0;0;2], 1)]%Z 4%Z = true.
Proof. exact tree_nonvacuous_feasible. Qed.

Example C17_deep2_nonvacuous_bounded_master :
  cb_dict [(2%nat, 0%Q, Some 0%Q); (3%nat, 2%Q, None); (2%nat, 1%Q, None)] = [(2%nat, 1%Q, None); (3%nat, 2%Q, None)] /\
  bounded_master_lp 0 [[2;0;0];[0;3;0];[0;0;4];[1;1;1]]%Z [3;4;5]%Z [(2%nat, 1%Q, None); (3%nat, 2%Q, None)]
  = Some ([1 # 2; 2 # 3; 1; 2]%Q, [1 # 2; 1 # 3; 0]%Q, Some (25 # 6)%Q) /\
  bounded_master_lp 0 [[2;0;0];[0;3;0];[0;0;4];[1;1;1]]%Z [3;4;5]%Z [(2%nat, 0%Q, Some 0%Q)]
  = Some ([0; 0; 0; 5]%Q, [0; 0; 1]%Q, Some 5%Q).
Proof. exact tree_nonvacuous_bounded_master. Qed.
