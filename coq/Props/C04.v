(* C04 - MILP answers are integer-feasible and OPTIMAL means proven optimal.  (theorems are added below as they are proved) *)
From Coq Require Import List QArith Bool.
From SV Require Import C03.Simplex C03.LPSpec C04.Milp C04.MilpInst.
Import ListNotations.
Open Scope Q_scope.

(* max 5x+4y, 6x+4y<=24, x+2y<=6, x,y<=5 integer: optimum (4,0), 20 *)
Example C04_model_runs_example :
  run_case (mkK [5;4] [[6;4];[1;2];[1;0];[0;1]] [24;6;5;5] [0;1]%nat false milp_eps_default milp_gap_tol_default
                None None None 1 false 0 None S_OPTIMAL None PInf None None)
  = Some (mkM S_OPTIMAL (Some [4;0]) (Fin 20) 5 None).
Proof. vm_compute. reflexivity. Qed.
