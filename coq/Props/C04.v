(* C04 - MILP answers are integer-feasible and OPTIMAL means proven optimal.
   Model: SV.C04.Milp.solve_milp (best-first B&B of solvor/milp.py over Q) with two oracles: the LP kernel `lp`
   (hypothesis lp_sound = the C03 soundness statements; intended instance MilpInst.simplex_kernel) and the LNS pass `lns`
   (hypothesis lns_ok: what it returns passes _is_feasible; checked on every harness run).
   milp_input_ok (boolean): 0 <= eps <= 1/4, well-formed dimensions and sorted integer indices, no non-zero coefficient
   of |.| <= eps.
   `solve_milp ... = Some r` excludes exhausted model fuel (None), which is an error value and never a Result. *)
From Coq Require Import List QArith Qabs Bool.
From SV Require Import C03.Simplex C03.LPSpec C04.Milp C04.MilpInst C04.MilpSpec C04.MilpBBProofs C04.MilpMainProofs
  C04.MilpRoundProofs C04.MilpBinaryProofs C04.MilpTheorems C04.MilpFuelProofs C04.MilpC03Bridge.
Import ListNotations.
Open Scope Q_scope.

(* (1) every returned solution / entry of `solutions` satisfies A x <= b + eps, x >= -eps, is within eps of integers on
   the integer variables, has the right length, and the reported objective is c.x *)
Theorem C04_feasible : forall lp lns eps gap_tol minimize max_iter max_nodes c A b ints
    warm_start solution_limit heuristics lns_iterations r,
  lp_sound lp -> lns_ok lns eps c A b ints -> milp_input_ok eps c A b ints = true ->
  solve_milp lp lns eps gap_tol minimize max_iter max_nodes c A b ints warm_start solution_limit heuristics lns_iterations = Some r ->
  (forall x, m_solution r = Some x -> exists o, m_objective r = Fin o /\ sol_ok eps c A b ints x o)
  /\ (forall ss x, m_solutions r = Some ss -> In x ss -> point_ok eps c A b ints x).
Proof. exact feasible_thm. Qed.
Print Assumptions C04_feasible.

(* (2) OPTIMAL: no integer-feasible point is better than the reported objective by more than
   opt_slack = max(eps, gap_tol * max(1, |best|)) *)
Theorem C04_optimal : forall lp lns eps gap_tol minimize max_iter max_nodes c A b ints
    warm_start solution_limit heuristics lns_iterations r,
  lp_sound lp -> lns_ok lns eps c A b ints -> milp_input_ok eps c A b ints = true ->
  solve_milp lp lns eps gap_tol minimize max_iter max_nodes c A b ints warm_start solution_limit heuristics lns_iterations = Some r ->
  m_status r = S_OPTIMAL ->
  exists x o, m_solution r = Some x /\ m_objective r = Fin o
    /\ forall y, int_feasible c A b ints y -> sgn minimize * o - opt_slack eps gap_tol o <= sgn minimize * dot c y.
Proof. exact optimal_thm. Qed.
Print Assumptions C04_optimal.

(* (3) INFEASIBLE: no integer-feasible point exists *)
Theorem C04_infeasible : forall lp lns eps gap_tol minimize max_iter max_nodes c A b ints
    warm_start solution_limit heuristics lns_iterations r,
  lp_sound lp -> lns_ok lns eps c A b ints -> milp_input_ok eps c A b ints = true ->
  solve_milp lp lns eps gap_tol minimize max_iter max_nodes c A b ints warm_start solution_limit heuristics lns_iterations = Some r ->
  m_status r = S_INFEASIBLE -> forall y, ~ int_feasible c A b ints y.
Proof. exact infeasible_thm. Qed.
Print Assumptions C04_infeasible.

(* UNBOUNDED is reported only when the LP relaxation is unbounded *)
Theorem C04_unbounded_only_if_root_unbounded : forall lp lns eps gap_tol minimize max_iter max_nodes c A b ints
    warm_start solution_limit heuristics lns_iterations r,
  lp_sound lp -> lns_ok lns eps c A b ints -> milp_input_ok eps c A b ints = true ->
  solve_milp lp lns eps gap_tol minimize max_iter max_nodes c A b ints warm_start solution_limit heuristics lns_iterations = Some r ->
  m_status r = S_UNBOUNDED -> lp_unbounded minimize c A b.
Proof. exact unbounded_thm. Qed.
Print Assumptions C04_unbounded_only_if_root_unbounded.

(* (4) the quantification itself: (1)-(3) hold for EVERY warm start, heuristics flag, lns_iterations, solution_limit,
   max_nodes / max_iter, and every LNS oracle satisfying lns_ok (res_ok is the conjunction of the four conclusions) *)
Theorem C04_heuristics_irrelevant : forall lp eps gap_tol minimize max_iter c A b ints,
  lp_sound lp -> milp_input_ok eps c A b ints = true ->
  forall lns, lns_ok lns eps c A b ints ->
  forall warm_start heuristics lns_iterations solution_limit max_nodes r,
    solve_milp lp lns eps gap_tol minimize max_iter max_nodes c A b ints warm_start solution_limit heuristics lns_iterations = Some r ->
    res_ok eps gap_tol minimize c A b ints r.
Proof.
  exact (fun lp eps gap_tol minimize max_iter c A b ints LP OK lns LNS ws h li sl mn r RUN =>
           all_ok lp lns eps gap_tol minimize max_iter mn c A b ints ws sl h li r LP LNS OK RUN).
Qed.
Print Assumptions C04_heuristics_irrelevant.

(* instance: the C03 simplex model as LP kernel, called with the tolerance lp_eps eps = min(eps, 1e-10) as the code does
   (commit cccee4d) - an explicit implication on its soundness (C03's theorems; discharged for eps = 0 in Props/C04_deep.v) *)
Theorem C04_simplex_instance : forall eps gap_tol minimize max_iter c A b ints,
  lp_sound (simplex_kernel (lp_eps eps)) -> milp_input_ok eps c A b ints = true ->
  forall lns, lns_ok lns eps c A b ints ->
  forall warm_start heuristics lns_iterations solution_limit max_nodes r,
    solve_milp (simplex_kernel (lp_eps eps)) lns eps gap_tol minimize max_iter max_nodes c A b ints warm_start solution_limit
      heuristics lns_iterations = Some r ->
    res_ok eps gap_tol minimize c A b ints r.
Proof. exact (fun eps => C04_heuristics_irrelevant (simplex_kernel (lp_eps eps)) eps). Qed.
Print Assumptions C04_simplex_instance.

(* discharging lp_sound: it follows from the three C03 soundness statements (the `_full_statement`s of Props/C03.v,
   restated verbatim as c03_*_sound; C03 has so far proved the OPTIMAL one for LPs without phase 1).  With them, all of the
   above holds for the B&B over the exact simplex model (eps = 0) with no hypothesis on the LP kernel left. *)
Theorem C04_lp_sound_from_C03 :
  c03_optimal_sound -> c03_infeasible_sound -> c03_unbounded_sound -> lp_sound (simplex_kernel 0).
Proof. exact lp_sound_from_C03. Qed.
Print Assumptions C04_lp_sound_from_C03.

Theorem C04_exact_simplex_corollary :
  c03_optimal_sound -> c03_infeasible_sound -> c03_unbounded_sound ->
  forall gap_tol minimize max_iter c A b ints, milp_input_ok 0 c A b ints = true ->
  forall lns, lns_ok lns 0 c A b ints ->
  forall warm_start heuristics lns_iterations solution_limit max_nodes r,
    solve_milp (simplex_kernel 0) lns 0 gap_tol minimize max_iter max_nodes c A b ints warm_start solution_limit
      heuristics lns_iterations = Some r ->
    res_ok 0 gap_tol minimize c A b ints r.
Proof.
  exact (fun HO HI HU gap_tol minimize max_iter c A b ints =>
           C04_simplex_instance 0 gap_tol minimize max_iter c A b ints (lp_sound_from_C03 HO HI HU)).
Qed.
Print Assumptions C04_exact_simplex_corollary.

(* the detect_binary tightening is justified (used inside the theorems above) *)
Theorem C04_detect_binary_sound : forall eps c A b ints,
  0 <= eps -> eps <= 1 # 4 -> valid_lp c A b = true -> tiny_free eps A = true ->
  detect_binary eps A b ints (length c) = true ->
  forall y, int_feasible c A b ints y -> forall j, In j ints -> nth j y 0 <= 1.
Proof. exact detect_binary_sound. Qed.
Print Assumptions C04_detect_binary_sound.

(* the boolean checker used by the harness on the IMPLEMENTATION's results *)
Theorem C04_spec_check_sound : forall eps c A b ints tol r,
  spec_check eps c A b ints tol r = true -> Spec eps c A b ints tol r.
Proof. exact spec_check_sound. Qed.
Print Assumptions C04_spec_check_sound.

(* heuristic incumbents are feasibility-checked: whatever _round_binary (code after 7e63594) returns passes _is_feasible *)
Theorem C04_round_binary_checked : forall eps minimize c A b ints lp_solution rd,
  round_binary eps lp_solution ints c A b minimize = Some (Some rd) ->
  length rd = length lp_solution /\ is_feasible eps rd A b ints = true.
Proof. exact round_binary_feasible. Qed.
Print Assumptions C04_round_binary_checked.

(* the PINNED variant before commit 7e63594 (round_binary_gen false: a swap trial "restores" 0.0 / 1.0 instead of the old
   values) did not have this property: an integer variable within eps of 1 that is no rounding candidate is overwritten
   with exactly 1 and the result fails _is_feasible.  Was replayed on the real code before the fix:
   solve_milp([1,2],[[2000000,0],[0,2]],[1999999,1],[0,1],minimize=False) -> OPTIMAL (1.0, 0.0), row 0 violated. *)
Theorem C04_round_binary_unchecked_pinned_refuted :
  exists eps lp_solution ints c A b minimize rd,
    is_feasible eps lp_solution A b [] = true
    /\ round_binary_gen false eps lp_solution ints c A b minimize = Some (Some rd)
    /\ is_feasible eps rd A b ints = false.
Proof.
  exists milp_eps_default, [1999999 # 2000000; 1 # 2], [0; 1]%nat, [1; 2], [[2000000; 0]; [0; 2]], [1999999; 1], false, [1; 0].
  vm_compute. repeat split.
Qed.

(* the model's error value None can only come from _round_binary's fuel: the B&B loop never exhausts 2*max_nodes+2 *)
Theorem C04_fuel_sufficient : forall lp lns eps gap_tol minimize max_iter max_nodes c A b ints warm_start solution_limit
    heuristics lns_iterations,
  solve_milp lp lns eps gap_tol minimize max_iter max_nodes c A b ints warm_start solution_limit heuristics lns_iterations = None ->
  round_binary eps (n_sol (solve_node lp eps minimize max_iter c A b (repeat 0 (length c)) (repeat None (length c))))
               ints c A b minimize = None.
Proof. exact solve_milp_none. Qed.
Print Assumptions C04_fuel_sufficient.

(* ---------- non-vacuity *)
(* max 5x+4y, 6x+4y<=24, x+2y<=6, x,y<=5 integer: optimum (4,0), 20, five nodes *)
Definition ex_case : milp_case :=
  mkK [5;4] [[6;4];[1;2];[1;0];[0;1]] [24;6;5;5] [0;1]%nat false milp_eps_default milp_gap_tol_default
      None None None 1 false 0 None S_OPTIMAL (Some [4;0]) (Fin 20) (Some 5%nat) None.
Example C04_model_runs_example :
  run_case ex_case = Some (mkM S_OPTIMAL (Some [4;0]) (Fin 20) 5 None) /\ corr_check ex_case = true.
Proof. vm_compute. split; reflexivity. Qed.

(* binary knapsack with explicit x<=1 rows: detect_binary fires, the rounding heuristic gives an incumbent *)
Definition ex_bin : milp_case :=
  mkK [5;4;3] [[2;3;1];[1;0;0];[0;1;0];[0;0;1]] [4;1;1;1] [0;1;2]%nat false milp_eps_default milp_gap_tol_default
      None None None 3 true 0 None S_OPTIMAL (Some [1;0;1]) (Fin 8) None (Some [[1;0;1]]).
Example C04_hypotheses_nonvacuous :
  milp_input_ok milp_eps_default (k_c ex_case) (k_A ex_case) (k_b ex_case) (k_ints ex_case) = true
  /\ milp_input_ok milp_eps_default (k_c ex_bin) (k_A ex_bin) (k_b ex_bin) (k_ints ex_bin) = true
  /\ detect_binary milp_eps_default (k_A ex_bin) (k_b ex_bin) (k_ints ex_bin) 3 = true
  /\ (exists rd, round_binary milp_eps_default [1; 1#3; 1] (k_ints ex_bin) (k_c ex_bin) (k_A ex_bin) (k_b ex_bin) false = Some (Some rd))
  /\ corr_check ex_bin = true.
Proof. vm_compute. repeat split. eexists. reflexivity. Qed.

Example C04_oracle_hypotheses_nonvacuous :
  lp_sound (fun _ _ _ _ _ => (MAX_ITER, [], 0)) /\ (forall eps c A b ints, lns_ok (fun _ => None) eps c A b ints).
Proof. split; [exact lp_sound_trivial|exact lns_ok_none]. Qed.

(* INFEASIBLE and UNBOUNDED verdicts are reached by the model *)
Example C04_verdicts_example :
  (exists r, run_case (mkK [1] [[2];[-2];[1]] [1;-1;3] [0]%nat true milp_eps_default milp_gap_tol_default
                      None None None 1 true 0 None S_INFEASIBLE None PInf None None) = Some r /\ m_status r = S_INFEASIBLE /\ m_nodes r = 3%nat)
  /\ (exists r, run_case (mkK [-1;-1] [[1;-1];[1;0]] [1;2] [0]%nat true milp_eps_default milp_gap_tol_default
                      None None None 1 true 0 None S_UNBOUNDED None NInf None None) = Some r /\ m_status r = S_UNBOUNDED).
Proof. split; eexists; vm_compute; repeat split. Qed.

(* the node limit without incumbent is MAX_ITER (commit 48990b1), not INFEASIBLE *)
Example C04_nodelimit_example :
  exists r, run_case (mkK [1] [[2]] [3] [0]%nat false milp_eps_default milp_gap_tol_default
                      None (Some 1%nat) None 1 true 0 None S_MAX_ITER None NInf None None) = Some r /\ m_status r = S_MAX_ITER.
Proof. eexists; vm_compute; repeat split. Qed.
