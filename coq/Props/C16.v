(* C16 - property theorems (filled in as the proofs are completed). *)
From Coq Require Import List Arith ZArith QArith Bool.
From SV Require Import C16.KnapCore C16.Knapsack C16.BinPack C16.KnapSpec C16.BinSpec.
Import ListNotations.

Example C16_knap_z_example :
  zobs_of (knap_z [3;4;5]%Z [2;3;4]%Z 5%Z false) = Some ([0;1]%nat, 7%Z, OPTIMAL).
Proof. vm_compute. reflexivity. Qed.
