(* C16 - knapsack / bin-packing answers are feasible, scored faithfully, labelled right.
   Models: SV.C16.Knapsack (knap_z, knap_q; solvor/knapsack.py after fix 9cda073), SV.C16.BinPack (bin_pack;
   solvor/bin_pack.py after fix 6898168).  Only `exact lemma` proofs here; the work is in C16/*Proofs.v.
   Not proved (declared): the 11/9 OPT + 6/9 bound of the decreasing heuristics (explored by the harness oracle only). *)
From Coq Require Import List Arith ZArith QArith Bool.
From SV Require Import C16.KnapCore C16.Knapsack C16.BinPack C16.KnapSpec C16.BinSpec
                       C16.KnapZProofs C16.KnapQProofs C16.KnapGridProofs C16.BinProofs C16.BinGridProofs.
Import ListNotations.

(* (1) feasibility + faithful objective of every answer of the rational model, both exits (DP answer that passed the
   code's final check, greedy fallback): strictly increasing (hence distinct) in-range indices, objective = sum of
   the selected values, weight <= capacity + 1e-9 - the code's own tolerance ... *)
Theorem C16_knap_feasible_value : forall values weights capacity minimize r,
  Qle_bool 0 capacity = true ->
  knap_q values weights capacity minimize = Some r ->
  knap_feasible_q tol values weights capacity (qsel r) (qobj r).
Proof. exact knap_q_feasible. Qed.
Print Assumptions C16_knap_feasible_value.

(* ... and weight <= capacity exactly when weights and capacity lie on a grid 1/d coarser than the tolerance
   (integers, dyadic numbers, decimals with up to 8 places), and always on the fallback exit *)
Theorem C16_knap_feasible_value_grid : forall d values weights capacity minimize r,
  Qle_bool 0 capacity = true ->
  (d <? 1000000000)%positive = true -> on_gridb d capacity = true -> forallb (on_gridb d) weights = true ->
  knap_q values weights capacity minimize = Some r ->
  knap_feasible_q 0 values weights capacity (qsel r) (qobj r).
Proof. exact knap_q_feasible_grid. Qed.
Print Assumptions C16_knap_feasible_value_grid.

Theorem C16_knap_feasible_value_fallback : forall values weights capacity minimize r,
  Qle_bool 0 capacity = true ->
  knap_q values weights capacity minimize = Some r -> qstatus r = FEASIBLE ->
  knap_feasible_q 0 values weights capacity (qsel r) (qobj r).
Proof. exact knap_q_feasible_exact_fallback. Qed.
Print Assumptions C16_knap_feasible_value_fallback.

(* the integer instance: exact *)
Theorem C16_knap_feasible_value_int : forall values weights capacity minimize r,
  knap_valid_z values weights capacity = true ->
  knap_z values weights capacity minimize = Some r ->
  knap_feasible_z values weights capacity (zsel r) (zobj r).
Proof. exact knap_z_feasible. Qed.
Print Assumptions C16_knap_feasible_value_int.

(* (2) integer weights and capacity (values of any sign): an answer labelled OPTIMAL cannot be beaten by any
   duplicate-free index list within the capacity (maximize: no larger value; minimize=True: no smaller value) *)
Theorem C16_knap_optimal_int : forall values weights capacity minimize r,
  knap_valid_z values weights capacity = true ->
  knap_z values weights capacity minimize = Some r ->
  zstatus r = OPTIMAL ->
  knap_optimal_z values weights capacity minimize (zobj r).
Proof. exact knap_z_optimal. Qed.
Print Assumptions C16_knap_optimal_int.

(* (3) bin packing, for the code's tolerance eps (any eps >= 0; the code has 1e-9): every item has exactly one bin
   number, all below k = objective, every bin 0..k-1 is used, loads <= capacity + eps, total <= k * (capacity + eps),
   OPTIMAL only if k <= 1 (then k is minimal: BinSpec.bin_optimal_minimal), k >= 1 when there are items *)
Theorem C16_bin_valid : forall eps sizes cap bf dec r,
  0 <= eps ->
  bin_pack eps sizes cap bf dec = Some r ->
  bin_valid eps sizes cap (basg r) (bobj r) (bstatus r).
Proof. exact bin_pack_valid. Qed.
Print Assumptions C16_bin_valid.

(* with an exact fit test (eps = 0) the property's clauses hold without slack *)
Theorem C16_bin_valid_exact_fit : forall sizes cap bf dec r,
  bin_pack 0 sizes cap bf dec = Some r ->
  bin_valid 0 sizes cap (basg r) (bobj r) (bstatus r).
Proof. exact (fun sizes cap bf dec r => bin_pack_valid 0 sizes cap bf dec r (Qle_refl 0)). Qed.
Print Assumptions C16_bin_valid_exact_fit.

(* with the code's eps = 1e-9 and sizes/capacity on a grid 1/d, d < 10^9 (integers, dyadic numbers, decimals with up
   to 8 places) the clauses hold without slack: loads <= capacity, total <= k * capacity (i.e. k >= ceil(total/capacity)) *)
Theorem C16_bin_valid_grid : forall d sizes cap bf dec r,
  (d <? 1000000000)%positive = true -> on_gridb d cap = true -> forallb (on_gridb d) sizes = true ->
  bin_pack tol sizes cap bf dec = Some r ->
  bin_valid 0 sizes cap (basg r) (bobj r) (bstatus r).
Proof. exact bin_pack_valid_grid. Qed.
Print Assumptions C16_bin_valid_grid.

(* the boolean specification checkers used by the harness on IMPLEMENTATION outputs are sound *)
Theorem C16_knap_check_sound : forall values weights capacity o,
  knap_check_q values weights capacity o = true -> knap_spec_q values weights capacity o.
Proof. exact knap_check_q_sound. Qed.
Theorem C16_bin_check_sound : forall slack sizes cap o,
  bin_check slack sizes cap o = true -> bin_spec slack sizes cap o.
Proof. exact bin_check_sound. Qed.
Print Assumptions C16_knap_check_sound.
Print Assumptions C16_bin_check_sound.

(* ---------------------------------------------------------------- non-vacuity *)
Example C16_nonvacuous_knap_int :
  knap_valid_z [3;4;5;6]%Z [2;3;4;5]%Z 5%Z = true /\
  zobs_of (knap_z [3;4;5;6]%Z [2;3;4;5]%Z 5%Z false) = Some ([0;1]%nat, 7%Z, OPTIMAL) /\
  zobs_of (knap_z [5;3]%Z [0;0]%Z 0%Z false) = Some ([0;1]%nat, 8%Z, OPTIMAL) /\
  zobs_of (knap_z [3;(-4);5]%Z [2;3;4]%Z 5%Z true) = Some ([1]%nat, (-4)%Z, OPTIMAL).
Proof. vm_compute. repeat split. Qed.

(* the scaling path with the final check failing -> greedy fallback, status FEASIBLE; inputs on the grid 1/2048 *)
Example C16_nonvacuous_knap_fallback :
  let w := [1537 # 2048; 3 # 4] in
  qobs_eqb (qobs_of (knap_q [3 # 1; 4 # 1] w (3 # 2) false)) (Some ([1]%nat, 4 # 1, FEASIBLE)) = true /\
  Qle_bool 0 (3 # 2) = true /\ (2048 <? 1000000000)%positive = true /\
  on_gridb 2048 (3 # 2) = true /\ forallb (on_gridb 2048) w = true.
Proof. vm_compute. repeat split. Qed.

(* the tolerance is real: off the grid the model (and the code: solve_knapsack([1],[1.5000000005],1.5) -> (0,))
   returns a selection heavier than the capacity by 5e-10 *)
Example C16_knap_tolerance_witness :
  qobs_eqb (qobs_of (knap_q [1] [3000000001 # 2000000000] (3 # 2) false)) (Some ([0]%nat, 1, OPTIMAL)) = true /\
  Qle_bool (3000000001 # 2000000000) (3 # 2) = false.
Proof. vm_compute. repeat split. Qed.

Example C16_nonvacuous_bin :
  bobs_of (bin_pack tol [3 # 1; 0; 5 # 1; 2 # 1; 5 # 1] (5 # 1) false false) = Some ([0;0;1;0;2]%nat, 3%nat, FEASIBLE) /\
  bobs_of (bin_pack tol [11 # 10; 2 # 5] (3 # 2) true true) = Some ([0;0]%nat, 1%nat, OPTIMAL) /\
  bin_check 0 [3 # 1; 0; 5 # 1; 2 # 1; 5 # 1] (5 # 1) (Some ([0;0;1;0;2]%nat, 3%nat, FEASIBLE)) = true /\
  (10 <? 1000000000)%positive = true /\ on_gridb 10 (3 # 2) = true /\ forallb (on_gridb 10) [11 # 10; 2 # 5] = true.
Proof. vm_compute. repeat split. Qed.
