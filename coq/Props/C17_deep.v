(* C17 deep - soundness of the master simplex of column generation (eps = 0) and what it buys: status OPTIMAL of the
   solve_cg model is the true minimum for EVERY input, with no per-run hypothesis left.
   Each theorem is `exact` of a lemma proved under coq/C17/Deep*.v (DeepSum: finite sums and entries of the row operations;
   DeepInv: tableau invariants R1 rows = tracked linear combinations of the original rows, R2 basis columns are unit
   vectors, O1 objective row = c0 - y.(original rows), O2 objective row = c0 - c_B.(current rows), all preserved by
   `pivot`; DeepPhase: simplex_phase keeps them, its silent "no leaving row" exit is impossible; DeepInit: initial tableau,
   phase-2 objective, drive_out_artificials; DeepMaster; DeepOptimal; primal side DeepPrimal, DeepPrimal1, DeepPrimalX:
   the ratio test picks a minimum ratio so right-hand sides stay >= 0, phase 1 ends with the basic artificials at 0,
   x sums to the LP value; DeepBp, DeepIntegral: the root answers of solve_bp). *)
From Coq Require Import List ZArith QArith Qround Bool.
From SV Require Import C17.Cg C17.CgSpec C17.Bp C17.OptimalProofs C17.DeepMaster C17.DeepOptimal C17.DeepPrimalX C17.DeepBp
                       C17.DeepIntegral C17.DeepWitness.
Import ListNotations.

(* (1) Strong duality at the final tableau of the master LP, as the model computes it (`_solve_master_lp` of cg.py,
   drive = false; the root LP of bp.py without column bounds, drive = true): whenever master_lp returns (no simplex_phase
   call ran out of its 100000 iterations), the dual vector y it reads off the objective row satisfies y >= 0, y.a_p <= 1
   for every column p of the pool, and y.d = the reported LP objective.  No hypothesis on columns or demands. *)
Theorem C17_master_lp_duals_ok : forall drive (cols : list pattern) demands x y lp,
  master_lp drive 0 cols demands = Some (x, y, lp) ->
  Forall (fun v => (0 <= v)%Q) y /\
  (forall p, In p cols -> (dotq y p <= 1)%Q) /\
  (forall o, lp = Some o -> (o == dotq y demands)%Q).
Proof. exact master_lp_duals_ok. Qed.
Print Assumptions C17_master_lp_duals_ok.

(* the per-run hypothesis of C17_optimal_partial_eps0 is a theorem *)
Theorem C17_simplex_residue_holds : forall sizes width demands max_iter r,
  solve_cg 0 sizes width demands max_iter = Done r -> r_status r = OPTIMAL ->
  simplex_residue demands r = true.
Proof. exact simplex_residue_holds. Qed.
Print Assumptions C17_simplex_residue_holds.

(* (2) OPTIMAL is minimal: eps = 0, every input (sizes that are not positive integers <= width are answered Invalid by the
   model, so no validity hypothesis is needed). *)
Theorem C17_optimal_sound : forall sizes width demands max_iter r,
  solve_cg 0 sizes width demands max_iter = Done r -> r_status r = OPTIMAL ->
  is_min (fits sizes width) demands (r_obj r).
Proof. exact optimal_sound. Qed.
Print Assumptions C17_optimal_sound.

(* the statement kept as a Definition in OptimalProofs.v / Props/C17.v *)
Theorem C17_optimal_sound_full : optimal_sound_full_statement.
Proof. exact optimal_sound_full. Qed.
Print Assumptions C17_optimal_sound_full.

(* (3) The ROOT answers of the solve_bp model (Bp.v; eps = 0, i.e. the eps -> 0 limit of the model, see the header of Bp.v).
   Primal side of the master simplex: for non-negative demands the primal vector x read off the final tableau is
   non-negative and sums to the reported LP objective (the final tableau is primal feasible). *)
Theorem C17_master_lp_primal_ok : forall drive (cols : list pattern) demands x y lp,
  master_lp drive 0 cols demands = Some (x, y, Some lp) ->
  forallb (Z.leb 0) demands = true ->
  length x = length cols /\ (forall p, (0 <= getq x p)%Q) /\ (DeepSum.sumN (getq x) 0 (length cols) == lp)%Q.
Proof. exact master_lp_primal_ok. Qed.
Print Assumptions C17_master_lp_primal_ok.

(* An answer with status OPTIMAL given before the tree search (trivial instance, integral root LP, or rounded incumbent
   proven against ceil(root LP)) is the true minimum, provided the relative gap tolerance cannot hide a whole roll:
   gap_ok gap obj := gap * max(|obj|, 1e-10) <= 1 (default gap 1e-6: objectives up to 10^6 rolls). *)
Theorem C17_bp_root_optimal_sound : forall gap sizes width demands max_iter sol obj it,
  b_out (solve_bp_root 0 gap sizes width demands max_iter) = BpDone OPTIMAL (Some sol) (Some obj) it ->
  gap_ok gap obj = true ->
  is_min (fits sizes width) demands obj.
Proof. exact bp_root_optimal_sound. Qed.
Print Assumptions C17_bp_root_optimal_sound.

(* ---- non-vacuity *)
Example C17_deep_nonvacuous_optimal :
  exists r, solve_cg 0 [3;5;4;7]%Z 12%Z [6;5;4;3]%Z 1000 = Done r /\ r_status r = OPTIMAL /\ r_obj r = 7%Z /\
            r_duals r = [1 # 4; 5 # 12; 1 # 3; 7 # 12]%Q /\ r_lp r = Some (20 # 3)%Q.
Proof. exact deep_nonvacuous_optimal. Qed.

Example C17_deep_nonvacuous_master :
  master_lp false 0 [[4;0;0;0];[0;2;0;0];[0;0;3;0];[0;0;0;1]]%Z [6;5;4;3]%Z
  = Some ([3 # 2; 5 # 2; 4 # 3; 3]%Q, [1 # 4; 1 # 2; 1 # 3; 1]%Q, Some (25 # 3)%Q).
Proof. exact deep_nonvacuous_master. Qed.

Example C17_deep_nonvacuous_bp_rounded :
  exists sol it, b_out (solve_bp_root 0 gap_default [3;5;4;7]%Z 12%Z [6;5;4;3]%Z 1000) = BpDone OPTIMAL (Some sol) (Some 7%Z) it /\
                 b_lp (solve_bp_root 0 gap_default [3;5;4;7]%Z 12%Z [6;5;4;3]%Z 1000) = Some (20 # 3)%Q /\
                 gap_ok gap_default 7 = true.
Proof. exact deep_nonvacuous_bp_rounded. Qed.

Example C17_deep_nonvacuous_bp_integral :
  exists sol it, b_out (solve_bp_root 0 gap_default [3;4]%Z 12%Z [8;6]%Z 1000) = BpDone OPTIMAL (Some sol) (Some 4%Z) it /\
                 b_x (solve_bp_root 0 gap_default [3;4]%Z 12%Z [8;6]%Z 1000) = [2; 2]%Q /\
                 gap_ok gap_default 4 = true.
Proof. exact deep_nonvacuous_bp_integral. Qed.
