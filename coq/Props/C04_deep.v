(* C04 (deepening) - the C04 theorems for the B&B model over the EXACT simplex model of C03 (eps = 0), with the hypothesis
   on the LP kernel discharged by the C03 deep theorems (Props/C03_deep.v: C03_optimal_sound, C03_infeasible_sound,
   C03_unbounded_sound).  What remains assumed: lns_ok (the LNS pass only returns points passing _is_feasible; checked on
   every harness run) and the boolean input condition milp_input_ok 0 (well-formed dimensions, sorted integer indices).
   `= Some r` excludes the model's fuel error value (only _round_binary's fuel can run out: C04_fuel_sufficient).
   eps = 0 is the exact-arithmetic idealisation; the harness counts on every run how many explored calls give the same
   Result for eps = 0 and eps = 1e-6 (histogram eps0_same_result). *)
From Coq Require Import List QArith Qabs Bool.
From SV Require Import C03.Simplex C03.LPSpec C04.Milp C04.MilpInst C04.MilpSpec C04.MilpBBProofs C04.MilpTheorems
  C04.MilpC03Bridge C04.MilpC03Discharge.
Import ListNotations.
Open Scope Q_scope.

Theorem C04_deep_lp_sound : lp_sound (simplex_kernel 0).
Proof. exact simplex0_sound. Qed.
Print Assumptions C04_deep_lp_sound.

Theorem C04_deep_feasible : forall lns gap_tol minimize max_iter max_nodes c A b ints
    warm_start solution_limit heuristics lns_iterations r,
  lns_ok lns 0 c A b ints -> milp_input_ok 0 c A b ints = true ->
  solve_milp (simplex_kernel 0) lns 0 gap_tol minimize max_iter max_nodes c A b ints warm_start solution_limit heuristics
    lns_iterations = Some r ->
  (forall x, m_solution r = Some x -> exists o, m_objective r = Fin o /\ sol_ok 0 c A b ints x o)
  /\ (forall ss x, m_solutions r = Some ss -> In x ss -> point_ok 0 c A b ints x).
Proof. exact exact_feasible. Qed.
Print Assumptions C04_deep_feasible.

Theorem C04_deep_optimal : forall lns gap_tol minimize max_iter max_nodes c A b ints
    warm_start solution_limit heuristics lns_iterations r,
  lns_ok lns 0 c A b ints -> milp_input_ok 0 c A b ints = true ->
  solve_milp (simplex_kernel 0) lns 0 gap_tol minimize max_iter max_nodes c A b ints warm_start solution_limit heuristics
    lns_iterations = Some r ->
  m_status r = S_OPTIMAL ->
  exists x o, m_solution r = Some x /\ m_objective r = Fin o
    /\ forall y, int_feasible c A b ints y -> sgn minimize * o - opt_slack 0 gap_tol o <= sgn minimize * dot c y.
Proof. exact exact_optimal. Qed.
Print Assumptions C04_deep_optimal.

Theorem C04_deep_infeasible : forall lns gap_tol minimize max_iter max_nodes c A b ints
    warm_start solution_limit heuristics lns_iterations r,
  lns_ok lns 0 c A b ints -> milp_input_ok 0 c A b ints = true ->
  solve_milp (simplex_kernel 0) lns 0 gap_tol minimize max_iter max_nodes c A b ints warm_start solution_limit heuristics
    lns_iterations = Some r ->
  m_status r = S_INFEASIBLE -> forall y, ~ int_feasible c A b ints y.
Proof. exact exact_infeasible. Qed.
Print Assumptions C04_deep_infeasible.

Theorem C04_deep_unbounded_only_if_root_unbounded : forall lns gap_tol minimize max_iter max_nodes c A b ints
    warm_start solution_limit heuristics lns_iterations r,
  lns_ok lns 0 c A b ints -> milp_input_ok 0 c A b ints = true ->
  solve_milp (simplex_kernel 0) lns 0 gap_tol minimize max_iter max_nodes c A b ints warm_start solution_limit heuristics
    lns_iterations = Some r ->
  m_status r = S_UNBOUNDED -> lp_unbounded minimize c A b.
Proof. exact exact_unbounded. Qed.
Print Assumptions C04_deep_unbounded_only_if_root_unbounded.

(* non-vacuity: a run of the eps = 0 instance, hypotheses true, verdict OPTIMAL (4,0) 20 *)
Example C04_deep_nonvacuous :
  milp_input_ok 0 [5;4] [[6;4];[1;2];[1;0];[0;1]] [24;6;5;5] [0;1]%nat = true
  /\ lns_ok (fun _ => None) 0 [5;4] [[6;4];[1;2];[1;0];[0;1]] [24;6;5;5] [0;1]%nat
  /\ solve_milp (simplex_kernel 0) (fun _ => None) 0 milp_gap_tol_default false milp_max_iter_default milp_max_nodes_default
       [5;4] [[6;4];[1;2];[1;0];[0;1]] [24;6;5;5] [0;1]%nat None 1 true 0
     = Some (mkM S_OPTIMAL (Some [4;0]) (Fin 20) 5 None).
Proof. split; [vm_compute; reflexivity|]. split; [intros s x H; discriminate|vm_compute; reflexivity]. Qed.
