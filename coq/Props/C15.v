(* C15 - property theorems (each a one-line `exact`), Print Assumptions, non-vacuity examples. *)
From Coq Require Import List Arith Bool ZArith QArith.
From SV Require Import C15.Graph C15.Artic C15.ArticSpec C15.KCore C15.KCoreSpec C15.PageRank C15.Louvain.
Import ListNotations.
Open Scope nat_scope.

(* two triangles joined by the bridge 2-3, given one way *)
Definition ex_g : graph := [(0, [1; 2]); (1, [2]); (2, [3]); (3, [4; 5]); (4, [5]); (5, [])].

Example C15_artic_example :
  articulation_points ex_g = Some ([3; 2], 2, 6, 6) /\ bridges ex_g = Some ([(2, 3)], 1, 6, 6) /\
  ap_spec_check ex_g [2; 3] = true /\ br_spec_check ex_g [(2, 3)] = true.
Proof. vm_compute. repeat split; reflexivity. Qed.
