(* C15 - cut vertices, bridges, k-cores, PageRank and Louvain obey their definitions.
   Property theorems (each a one-line `exact`), Print Assumptions, non-vacuity examples.
   Models: C15/Graph.v (input representation, symmetrised simple graph), KCore.v, PageRank.v (Q),
   Louvain.v (move choice = oracle), Artic.v (after repository commit 640de1b). *)
From Coq Require Import List Arith Bool ZArith QArith Qabs Permutation.
From SV Require Import C15.Graph C15.Artic C15.ArticSpec C15.KCore C15.KCoreSpec C15.PageRank C15.Louvain.
From SV Require C15.KCoreProofs C15.PageRankProofs C15.LouvainProofs C15.ArticProofs C15.ArticSpecProofs
  C15.ArticExact C15.ArticExactPublic.
Import ListNotations.
Open Scope nat_scope.

(* ------------------------------------------------------------------ (1) k-core *)
(* For every pop order `pick` (buckets[k].pop() takes an arbitrary element): the peeling never runs out
   of fuel, pops every node exactly once, gives each node v the number c such that v lies in a subgraph
   of minimum degree >= c and in none of larger minimum degree (KCoreSpec.core_number), and kcore(k)
   returns exactly the nodes whose core number is >= k. *)
Theorem C15_kcore : forall pick g, valid_graph g = true ->
  (exists r, kcore_decomposition pick g = Some r /\ kcore_spec g (k_solution r) /\
             k_iterations r = length (nodes g) /\ k_evaluations r = length (nodes g)) /\
  (forall k, exists cs it ev, kcore pick g k = Some (cs, length cs, it, ev) /\
     forall v, In v cs <-> exists c, In v (nodes g) /\ core_number g v c /\ k <= c).
Proof. exact KCoreProofs.kcore_full. Qed.
Print Assumptions C15_kcore.

Theorem C15_kcore_pick_independent : forall pick1 pick2 g r1 r2, valid_graph g = true ->
  kcore_decomposition pick1 g = Some r1 -> kcore_decomposition pick2 g = Some r2 ->
  forall v, aget (k_solution r1) v = aget (k_solution r2) v.
Proof. exact KCoreProofs.kcore_pick_independent. Qed.
Print Assumptions C15_kcore_pick_independent.

(* the checker evaluated on the IMPLEMENTATION's answer in every correspondence case ("survives
   repeated deletion of nodes of degree below k") is sound for the specification *)
Theorem C15_kcore_check_sound : forall g sol, kcore_check g sol = true -> kcore_spec g sol.
Proof. exact KCoreProofs.kcore_check_sound. Qed.
Print Assumptions C15_kcore_check_sound.

(* ------------------------------------------------------------------ (2) PageRank over Q *)
Theorem C15_pr_simplex : forall g d tol mi r,
  valid_graph g = true -> (0 <= d)%Q -> (d <= 1)%Q -> pagerank g d tol mi = PR_ok r ->
  (forall v, In v (nodes g) -> (0 <= score (p_scores r) v)%Q)
  /\ (qsum (map (score (p_scores r)) (nodes g)) == 1)%Q.
Proof. exact PageRankProofs.pr_simplex. Qed.
Print Assumptions C15_pr_simplex.

(* ... for every iteration count (no stopping rule), and for max_iter = 0 *)
Theorem C15_pr_simplex_iterate : forall g d k,
  valid_graph g = true -> nodes g <> [] -> (0 <= d)%Q -> (d <= 1)%Q ->
  let s := iterate k g d (init_scores g) in
  (forall v, In v (nodes g) -> (0 <= score s v)%Q) /\ (qsum (map (score s) (nodes g)) == 1)%Q.
Proof. exact PageRankProofs.pr_simplex_iterate. Qed.
Print Assumptions C15_pr_simplex_iterate.

Theorem C15_pr_simplex_noiter : forall g d tol mi s,
  valid_graph g = true -> (0 <= d)%Q -> (d <= 1)%Q -> pagerank g d tol mi = PR_noiter s ->
  (forall v, In v (nodes g) -> (0 <= score s v)%Q) /\ (qsum (map (score s) (nodes g)) == 1)%Q.
Proof. exact PageRankProofs.pr_simplex_noiter. Qed.
Print Assumptions C15_pr_simplex_noiter.

(* when the stopping rule max_v |new v - old v| < tol fires, the L1 residual of the damped equation with
   uniform dangling redistribution, sum_v |s v - F(s) v|, is at most damping * n * tol *)
Theorem C15_pr_residual : forall g d tol mi r,
  valid_graph g = true -> (0 <= d)%Q -> (d <= 1)%Q -> pagerank g d tol mi = PR_ok r ->
  p_status r = P_OPTIMAL ->
  (residual g d (p_scores r) <= d * qn (length (nodes g)) * tol)%Q.
Proof. exact PageRankProofs.pr_residual. Qed.
Print Assumptions C15_pr_residual.

Theorem C15_pr_iterations : forall g d tol mi r, pagerank g d tol mi = PR_ok r ->
  (1 <= p_iterations r <= mi) /\ (p_status r = P_MAX_ITER -> p_iterations r = mi).
Proof. exact PageRankProofs.pr_iterations_bound. Qed.
Print Assumptions C15_pr_iterations.

(* ------------------------------------------------------------------ (3) Louvain *)
(* for EVERY oracle move sequence accepted by the model (each chosen community is the node's own or a
   neighbour's; sweep structure matches `while improved`) the result is a partition of the node set:
   no empty community, and the communities concatenated are a permutation of the (duplicate-free) node
   list *)
Theorem C15_louvain_partition : forall g res passes r, valid_graph g = true ->
  louvain g res passes = Some r ->
  (forall c, In c (l_comms r) -> c <> []) /\ Permutation (concat (l_comms r)) (nodes g).
Proof. exact LouvainProofs.louvain_partition. Qed.
Print Assumptions C15_louvain_partition.

(* node_to_comm / comm_nodes / comm_degree stay consistent (LouvainProofs.lv_consistent) along every
   accepted move sequence *)
Theorem C15_louvain_consistent : forall g passes s' it', valid_graph g = true ->
  sweeps g passes (linit g) 0 = Some (s', it') -> LouvainProofs.lv_consistent g s'.
Proof. exact LouvainProofs.louvain_consistent_run. Qed.
Print Assumptions C15_louvain_consistent.

(* DEFINITIONAL for the model (the model computes the reported value by this formula; Qred only
   normalises): the reported objective is the modularity formula of the returned communities.  The
   independent check of the implementation's number is lv_spec_check below / the Python reference. *)
Theorem C15_louvain_modularity : forall g res passes r, louvain g res passes = Some r ->
  ((total_weight g == 0)%Q \/ length (nodes g) <= 1 -> (l_objective r == 0)%Q) /\
  (~ (total_weight g == 0)%Q -> 2 <= length (nodes g) ->
   (l_objective r == modularity g res (l_comms r))%Q).
Proof. exact LouvainProofs.louvain_modularity. Qed.
Print Assumptions C15_louvain_modularity.

Theorem C15_louvain_check_sound : forall eps g res cs obj, valid_graph g = true ->
  lv_spec_check eps g res cs obj = true ->
  ((forall c, In c cs -> c <> []) /\ NoDup (concat cs) /\ (forall v, In v (concat cs) <-> In v (nodes g))) /\
  (~ (total_weight g == 0)%Q -> (Qabs (modularity g res cs - obj) <= eps)%Q) /\
  ((total_weight g == 0)%Q -> (obj == 0)%Q).
Proof. exact LouvainProofs.lv_spec_check_sound_full. Qed.
Print Assumptions C15_louvain_check_sound.

(* ------------------------------------------------------------------ (4) articulation points / bridges *)
(* bookkeeping facts of the low-link DFS (partial correctness): reported vertices are nodes, reported
   once; reported edges are edges of the symmetrised graph in canonical (min,max) order; every node is
   discovered with low <= disc; one dfs call per node; the recursion never runs out of fuel *)
Theorem C15_artic_sound_partial : forall g s, valid_graph g = true -> run g = Some s ->
  (forall v, In v (aps s) -> In v (nodes g)) /\ NoDup (aps s) /\
  (forall a b, In (a, b) (brs s) -> a < b /\ edge_b g a b = true) /\
  (forall v, In v (nodes g) ->
     exists d l, aget (disc s) v = Some d /\ aget (low s) v = Some l /\ l <= d) /\
  iters s = length (nodes g).
Proof. exact ArticProofs.artic_sound_partial. Qed.
Print Assumptions C15_artic_sound_partial.

Theorem C15_artic_fuel_ok : forall g, valid_graph g = true -> run g <> None.
Proof. exact ArticProofs.run_fuel_ok. Qed.
Print Assumptions C15_artic_fuel_ok.

(* per-run certificate (removal-and-recount in Gallina, evaluated in the kernel on the IMPLEMENTATION's
   answer for every explored case): if it accepts `sol`, then `sol` is EXACTLY the set of vertices /
   canonical edges whose removal increases the number of connected components (ArticSpec.is_cut_vertex,
   is_bridge: reachability-based component count) *)
Theorem C15_cut_vertex_cert_sound : forall g sol,
  valid_graph g = true -> ap_spec_check g sol = true ->
  forall v, In v sol <-> is_cut_vertex g v.
Proof. exact ArticSpecProofs.ap_spec_check_sound_iff. Qed.
Print Assumptions C15_cut_vertex_cert_sound.

Theorem C15_bridge_cert_sound : forall g sol,
  valid_graph g = true -> br_spec_check g sol = true ->
  (forall a b, In (a, b) sol -> a < b /\ is_bridge g a b) /\
  (forall a b, a < b -> is_bridge g a b -> In (a, b) sol).
Proof. exact ArticSpecProofs.br_spec_check_sound. Qed.
Print Assumptions C15_bridge_cert_sound.

Theorem C15_is_cut_vertex_b_sound : forall g v,
  valid_graph g = true -> is_cut_vertex_b g v = true -> is_cut_vertex g v.
Proof. exact ArticSpecProofs.is_cut_vertex_b_sound. Qed.
Print Assumptions C15_is_cut_vertex_b_sound.

Theorem C15_is_bridge_b_sound : forall g e,
  valid_graph g = true -> is_bridge_b g e = true -> is_bridge g (fst e) (snd e).
Proof. exact ArticSpecProofs.is_bridge_b_sound. Qed.
Print Assumptions C15_is_bridge_b_sound.

(* exactness of the low-link DFS model itself, for every valid input: the reported vertices are exactly
   the cut vertices, the reported pairs exactly the canonically ordered bridges of the symmetrised simple
   graph (removal increases the reachability-based component count) *)
Theorem C15_artic_points_exact : forall g s, valid_graph g = true -> run g = Some s ->
  forall v, In v (aps s) <-> is_cut_vertex g v.
Proof. exact ArticExact.artic_points_exact. Qed.
Print Assumptions C15_artic_points_exact.

Theorem C15_artic_bridges_exact : forall g s, valid_graph g = true -> run g = Some s ->
  forall a b, In (a, b) (brs s) <-> (a < b /\ is_bridge g a b).
Proof. exact ArticExact.artic_bridges_exact. Qed.
Print Assumptions C15_artic_bridges_exact.

(* ... and for the two public functions, including the early return for n <= 1, objective = len(solution),
   evaluations = n, and no fuel exhaustion *)
Theorem C15_articulation_points_exact : forall g, valid_graph g = true ->
  exists sol it, articulation_points g = Some (sol, length sol, it, length (nodes g)) /\
    NoDup sol /\ forall v, In v sol <-> is_cut_vertex g v.
Proof. exact ArticExactPublic.articulation_points_exact. Qed.
Print Assumptions C15_articulation_points_exact.

Theorem C15_bridges_exact : forall g, valid_graph g = true ->
  exists sol it, bridges g = Some (sol, length sol, it, length (nodes g)) /\
    forall a b, In (a, b) sol <-> (a < b /\ is_bridge g a b).
Proof. exact ArticExactPublic.bridges_exact. Qed.
Print Assumptions C15_bridges_exact.

(* ------------------------------------------------------------------ non-vacuity *)
(* two triangles joined by the bridge 2-3, every edge given one way *)
Definition ex_g : graph := [(0, [1; 2]); (1, [2]); (2, [3]); (3, [4; 5]); (4, [5]); (5, [])].
(* random node order, duplicate neighbour, label 7 outside the node set, self loop, isolated node 4 *)
Definition ex_h : graph := [(3, [1; 1; 7]); (1, [0]); (0, [3; 0]); (2, [0]); (4, [])].

Example C15_artic_example :
  valid_graph ex_g = true /\ valid_graph ex_h = true /\
  articulation_points ex_g = Some ([3; 2], 2, 6, 6) /\ bridges ex_g = Some ([(2, 3)], 1, 6, 6) /\
  articulation_points ex_h = Some ([0], 1, 5, 5) /\ bridges ex_h = Some ([(0, 2)], 1, 5, 5) /\
  ap_spec_check ex_g [2; 3] = true /\ br_spec_check ex_g [(2, 3)] = true /\
  ap_spec_check ex_h [0] = true /\ br_spec_check ex_h [(0, 2)] = true /\
  ap_spec_check ex_h [] = false /\ br_spec_check ex_g [(2, 3); (0, 1)] = false.
Proof. vm_compute. repeat split; reflexivity. Qed.

Example C15_kcore_example :
  option_map k_solution (kcore_decomposition pick_first ex_h)
    = Some [(4, 0); (2, 1); (0, 2); (3, 2); (1, 2)] /\
  kcore pick_first ex_h 2 = Some ([0; 3; 1], 3, 5, 5) /\
  kcore_check ex_h [(3, 2); (1, 2); (0, 2); (2, 1); (4, 0)] = true /\
  kcore_check ex_h [(3, 2); (1, 2); (0, 2); (2, 2); (4, 0)] = false.
Proof. vm_compute. repeat split; reflexivity. Qed.

Example C15_pagerank_example :
  match pagerank ex_h (17 # 20) (1 # 100) 50 with
  | PR_ok r => p_iterations r = 7 /\ p_status r = P_OPTIMAL /\
               pr_spec_check (1 # 1000000000) ex_h (17 # 20) ((17 # 20) * 5 * (1 # 100)) (p_scores r) = true
  | _ => False
  end.
Proof. vm_compute. repeat split; reflexivity. Qed.

(* move sequence recorded from the real run on ex_g (resolution 1.0) *)
Example C15_louvain_example :
  option_map (fun r => (l_comms r, l_objective r, l_iterations r))
     (louvain ex_g 1%Q [[1; 1; 1; 4; 5; 5]; [1; 1; 1; 5; 5; 5]; [1; 1; 1; 5; 5; 5]])
    = Some ([[0; 1; 2]; [3; 4; 5]], (5 # 14)%Q, 3) /\
  lv_spec_check (1 # 1000000000) ex_g 1%Q [[0; 1; 2]; [3; 4; 5]] (5 # 14)%Q = true /\
  louvain ex_g 1%Q [[3; 1; 1; 4; 5; 5]] = None.
Proof. vm_compute. repeat split; reflexivity. Qed.
