(* Property C09: min-cost flow solvers return feasible flows of minimum cost and agree.
   Only statements + `exact <lemma>`; proofs are in C09/Mcf*.v.
   Models: C09/Mcf.v (min_cost_flow, solve_assignment), C09/NetSimplex.v (network_simplex);
   specification and certificates: C09/McfSpec.v, C09/AssignSpec.v. *)
From Coq Require Import List ZArith.
Import ListNotations.
From SV Require Import C09.Mcf C09.McfSpec C09.NetSimplex.
From SV Require Import C09.AssignSpec.
From SV Require C09.McfCert C09.McfAug C09.McfBF C09.McfProofs C09.McfInfeasible C09.NetSimplexProofs C09.AssignProofs.
Import Mcf McfSpec.
Open Scope Z_scope.

(* ================= min_cost_flow ================= *)

(* (1) whenever the model answers OPTIMAL, the per-arc flow it ends with (flow_k = residual[2k+1]) respects every
   arc's capacity, conserves flow at every inner node, ships exactly `demand` out of the source and into the
   sink, and is integral (Z).  Hypotheses: non-negative capacities, non-negative demand. *)
Theorem C09_mcf_feasible : forall n arcs s t d k,
  McfProofs.caps_ok arcs = true -> 0 <= d ->
  mcf_run n arcs s t d = Some k -> k_status k = OPTIMAL ->
  feasible n arcs (demand_b s t d) (McfAug.flows (k_res k)).
Proof. exact McfProofs.mcf_run_feasible. Qed.
Print Assumptions C09_mcf_feasible.

(* the invariant behind it, for every final state (OPTIMAL or INFEASIBLE):
   residual[2k] + residual[2k^1] = cap_k, both >= 0, cost bookkeeping, conservation with the amount shipped so far *)
Theorem C09_mcf_invariant : forall n arcs s t d k,
  McfProofs.caps_ok arcs = true -> 0 <= d ->
  mcf_run n arcs s t d = Some k ->
  McfAug.ResInv arcs (k_res k) /\
  k_cost k = flow_cost arcs (McfAug.flows (k_res k)) /\
  (forall w, netout arcs (McfAug.flows (k_res k)) w = demand_b s t (k_flow k) w) /\
  0 <= k_flow k <= d /\
  (k_status k = OPTIMAL -> k_flow k = d) /\
  (k_status k = INFEASIBLE -> k_flow k < d /\ bellman_ford n arcs (k_res k) s t = BFNoPath).
Proof. exact McfProofs.mcf_run_sound. Qed.
Print Assumptions C09_mcf_invariant.

(* (2) reported cost = sum over the arcs of cost * flow *)
Theorem C09_mcf_cost : forall n arcs s t d k,
  McfProofs.caps_ok arcs = true -> 0 <= d ->
  mcf_run n arcs s t d = Some k -> k_cost k = flow_cost arcs (McfAug.flows (k_res k)).
Proof. exact McfProofs.mcf_run_cost. Qed.
Print Assumptions C09_mcf_cost.

(* (1)+(2) for the public Result: the returned dictionary is the (u,v)-pooled form of a feasible per-arc flow of
   exactly `demand` units (hence within the pooled capacities), and the objective is that flow's cost *)
Theorem C09_mcf_public : forall n arcs s t d r,
  McfProofs.caps_ok arcs = true -> 0 <= d ->
  mcf n arcs s t d = Some r -> r_status r = OPTIMAL ->
  exists f, feasible n arcs (demand_b s t d) f /\ pooled arcs f (r_flows r) /\ r_cost r = flow_cost arcs f.
Proof. exact McfProofs.mcf_feasible_cost. Qed.
Print Assumptions C09_mcf_public.

(* every augmenting path is a chain of residual edges from source to sink using each arc at most once *)
Theorem C09_mcf_path : forall n arcs res s t path d,
  bellman_ford n arcs res s t = BFPath path d ->
  McfAug.chain arcs s path t /\ NoDup (map fst path) /\ (forall e, In e path -> (fst e < length arcs)%nat).
Proof. exact McfBF.bellman_ford_path. Qed.
Print Assumptions C09_mcf_path.

(* (4) INFEASIBLE is sound: the nodes Bellman-Ford leaves at finite distance form a saturated cut of capacity
   k_flow < demand (n-1 rounds reach everything reachable in the residual graph), so no feasible flow exists.
   Together with (1): OPTIMAL => a feasible flow exists, INFEASIBLE => none does. *)
Theorem C09_mcf_infeasible_sound : forall n arcs s t d k,
  valid_input n arcs s t d = true ->
  mcf_run n arcs s t d = Some k -> k_status k = INFEASIBLE ->
  infeasible n arcs (demand_b s t d).
Proof. exact McfInfeasible.mcf_infeasible_sound. Qed.
Print Assumptions C09_mcf_infeasible_sound.

Theorem C09_mcf_public_infeasible : forall n arcs s t d r,
  valid_input n arcs s t d = true ->
  mcf n arcs s t d = Some r -> r_status r = INFEASIBLE ->
  infeasible n arcs (demand_b s t d).
Proof. exact McfInfeasible.mcf_public_infeasible. Qed.
Print Assumptions C09_mcf_public_infeasible.

(* (5) stretch, NOT proved: successive shortest paths keep "no negative residual cycle", hence OPTIMAL answers are
   minimum-cost flows for every input without negative cycles (pi0 = potentials certifying that the input has none;
   boolean-checkable).  Missing: Bellman-Ford with at most n-1 in-place rounds computes exact shortest distances
   when no negative cycle exists (needs walks / cycle removal), so that the distances are potentials for the next
   residual graph and the parent walk terminates; the rest (closure of the reached set, path edges are residual
   edges, augmentation only adds reverses of path edges) is in McfInfeasible.v / McfBF.v.  Until then optimality is
   established per run: C09_mcf_optimal_partial below + McfSpec.optimal_check evaluated inside coqc on every
   implementation answer (potentials recomputed by the harness, untrusted). *)
Definition C09_mcf_optimal_full_statement : Prop :=
  forall n arcs s t d pi0 k,
    valid_input n arcs s t d = true ->
    reduced_b (pot pi0) arcs (map (fun _ => 0) arcs) = true ->
    mcf_run n arcs s t d = Some k -> k_status k = OPTIMAL ->
    min_cost n arcs (demand_b s t d) (McfAug.flows (k_res k)).

Definition C09_mcf_terminates_full_statement : Prop :=
  forall n arcs s t d pi0,
    valid_input n arcs s t d = true ->
    reduced_b (pot pi0) arcs (map (fun _ => 0) arcs) = true ->
    mcf_run n arcs s t d <> None.

(* what is proved: the model's OPTIMAL answer is a minimum-cost flow as soon as SOME potentials pass the reduced-cost
   test on its final residual graph (feasibility needs no test: theorem (1)) *)
Theorem C09_mcf_optimal_partial : forall n arcs s t d k pi,
  valid_input n arcs s t d = true ->
  mcf_run n arcs s t d = Some k -> k_status k = OPTIMAL ->
  reduced_b (pot pi) arcs (McfAug.flows (k_res k)) = true ->
  min_cost n arcs (demand_b s t d) (McfAug.flows (k_res k)).
Proof. exact McfInfeasible.mcf_optimal_partial. Qed.
Print Assumptions C09_mcf_optimal_partial.

(* ================= solve_assignment ================= *)

(* (6) solve_assignment = min_cost_flow on the bipartite network Mcf.assign_arcs, which has unit capacities; whenever it
   answers OPTIMAL the assignment vector is a matching of min(n,m) pairs: one entry per row, -1 or a column index,
   no column twice, exactly min(n,m) rows assigned *)
Theorem C09_assignment : forall M r,
  solve_assignment M = Some r -> s_status r = OPTIMAL ->
  Forall (fun a => a_cap a = 1) (assign_arcs (AssignSpec.rows M) (AssignSpec.cols M) M) /\
  AssignSpec.matching (AssignSpec.rows M) (AssignSpec.cols M) (s_assign r).
Proof. exact AssignProofs.assignment_matching. Qed.
Print Assumptions C09_assignment.

(* the checker evaluated on every implementation answer: the assignment's flow on that network is a min-cost flow of
   min(n,m) units and the objective is its cost *)
Theorem C09_assignment_check_sound : forall M asg cost pi,
  AssignSpec.assignment_check M asg cost pi = true ->
  length asg = AssignSpec.rows M /\
  min_cost (2 + AssignSpec.rows M + AssignSpec.cols M) (assign_arcs (AssignSpec.rows M) (AssignSpec.cols M) M)
           (AssignSpec.assign_b (AssignSpec.rows M) (AssignSpec.cols M))
           (AssignSpec.asg_flow (AssignSpec.rows M) (AssignSpec.cols M) asg) /\
  cost = flow_cost (assign_arcs (AssignSpec.rows M) (AssignSpec.cols M) M)
                   (AssignSpec.asg_flow (AssignSpec.rows M) (AssignSpec.cols M) asg).
Proof. exact AssignProofs.assignment_check_sound. Qed.
Print Assumptions C09_assignment_check_sound.

(* ================= network_simplex ================= *)

(* (7) the final gate: OPTIMAL => no artificial arc carries flow, the objective is the sum of cost * flow over the
   original arcs, the solution is the pooled dictionary of the original arcs' flows *)
Theorem C09_ns_gate : forall n arcs sup max_iter r,
  NetSimplex.network_simplex n arcs sup max_iter = Some r -> NetSimplex.r_status r = NetSimplex.OPTIMAL ->
  (arcs = [] /\ forallb (fun x => x =? 0) sup = true /\ NetSimplex.r_sol r = Some [] /\ NetSimplex.r_obj r = 0)
  \/ exists fl it,
       NetSimplex.ns_run n arcs sup max_iter = Some (NetSimplex.OPTIMAL, fl, it) /\
       (forall x, In x (skipn (length arcs) fl) -> x <= 0) /\
       NetSimplex.r_sol r = Some (NetSimplex.flow_dict arcs fl []) /\
       NetSimplex.r_obj r = flow_cost arcs fl /\
       (Forall (fun x => 0 <= x) (firstn (length arcs) fl) -> pooled arcs fl (NetSimplex.flow_dict arcs fl [])).
Proof. exact NetSimplexProofs.ns_gate. Qed.
Print Assumptions C09_ns_gate.

(* ================= certificates (both solvers) ================= *)

(* (3) a feasible flow for which node potentials exist with non-negative reduced cost
   cost + pi(tail) - pi(head) on every residual edge of positive residual capacity is of minimum cost among all
   feasible flows for the same supplies / demand *)
Theorem cert_optimal : forall n arcs b f pi,
  valid_arcs n arcs = true ->
  feasible n arcs b f -> reduced_ok pi arcs f ->
  forall f', feasible n arcs b f' -> flow_cost arcs f <= flow_cost arcs f'.
Proof. exact McfCert.cert_optimal. Qed.
Print Assumptions cert_optimal.

Theorem C09_cert_check_sound : forall n arcs b f pi,
  cert_check n arcs b f pi = true -> min_cost n arcs b f.
Proof. exact McfCert.cert_check_sound. Qed.
Print Assumptions C09_cert_check_sound.

(* the checker run on every implementation answer: pooled dictionary + objective are those of a min-cost flow *)
Theorem C09_optimal_check_sound : forall n arcs b d cost f pi,
  optimal_check n arcs b d cost f pi = true -> optimal_answer n arcs b d cost.
Proof. exact McfCert.optimal_check_sound. Qed.
Print Assumptions C09_optimal_check_sound.

(* a node set that must ship out more than its outgoing capacity (or take in more than its incoming capacity):
   no feasible flow exists *)
Theorem C09_cut_check_sound : forall n arcs b S,
  cut_check n arcs b S = true -> infeasible n arcs b.
Proof. exact McfCert.cut_check_sound. Qed.
Print Assumptions C09_cut_check_sound.

(* ================= non-vacuity ================= *)
Definition ex_arcs : list arc :=
  [(0%nat, 2%nat, 1, 1); (0%nat, 3%nat, 1, 3); (2%nat, 3%nat, 1, 1); (2%nat, 1%nat, 1, 3); (3%nat, 1%nat, 1, 1);
   (0%nat, 2%nat, 1, 5); (3%nat, 2%nat, 2, -1)].

Example C09_mcf_nonvacuous_ex1 :
  McfProofs.caps_ok ex_arcs = true /\ valid_input 4 ex_arcs 0 1 2 = true /\
  exists k, mcf_run 4 ex_arcs 0 1 2 = Some k /\ k_status k = OPTIMAL /\ k_cost k = 8 /\ k_iters k = 2.
Proof. split; [reflexivity|]. split; [reflexivity|]. eexists. vm_compute. repeat split. Qed.

Example C09_mcf_nonvacuous_ex2 :
  exists k, mcf_run 4 ex_arcs 0 1 3 = Some k /\ k_status k = INFEASIBLE /\ k_flow k = 2.
Proof. eexists. vm_compute. repeat split. Qed.

Example C09_cert_nonvacuous_ex3 :
  match mcf 4 ex_arcs 0 1 2 with
  | Some r => optimal_check 4 ex_arcs (demand_b 0 1 2) (r_flows r) (r_cost r) [1; 1; 0; 1; 1; 0; 0] [0; 5; 2; 3]
  | None => false
  end = true.
Proof. vm_compute. reflexivity. Qed.

Example C09_cut_nonvacuous_ex4 :
  cut_check 4 ex_arcs (demand_b 0 1 3) [true; false; true; true] = true.
Proof. vm_compute. reflexivity. Qed.

Example C09_ns_nonvacuous_ex5 :
  exists r, NetSimplex.network_simplex 4 ex_arcs [2; -2; 0; 0] 1000000 = Some r /\
            NetSimplex.r_status r = NetSimplex.OPTIMAL /\ NetSimplex.r_obj r = 8 /\ NetSimplex.r_iters r = 6.
Proof. eexists. vm_compute. repeat split. Qed.

Example C09_assignment_nonvacuous_ex6 :
  exists r, solve_assignment [[4; 2; 8]; [4; 3; 7]; [3; 1; 6]] = Some r /\ s_status r = OPTIMAL /\
            s_assign r = [0; 2; 1] /\ s_cost r = 12.
Proof. eexists. vm_compute. repeat split. Qed.

Example C09_mcf_optimal_partial_nonvacuous_ex7 :
  exists k, mcf_run 4 ex_arcs 0 1 2 = Some k /\ valid_input 4 ex_arcs 0 1 2 = true /\
            reduced_b (pot [0; 5; 2; 3]) ex_arcs (McfAug.flows (k_res k)) = true /\
            reduced_b (pot [0; 3; 1; 2]) ex_arcs (map (fun _ => 0) ex_arcs) = true.
Proof. eexists. vm_compute. repeat split. Qed.
