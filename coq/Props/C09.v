(* Property C09 (placeholder while the proofs are being built). *)
From Coq Require Import List ZArith.
From SV Require C09.Mcf C09.McfSpec.
