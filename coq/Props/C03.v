(* C03 - LP verdicts and optima are exact (simplex); interior point is right when its gate says OPTIMAL.
   Property theorems (each is `exact` of a lemma proved under coq/C03/). *)
From Coq Require Import List QArith Qabs Bool.
From SV Require Import C03.Simplex C03.SimplexCorr C03.LPSpec C03.Cert C03.CertProofs C03.LinAlgProofs
  C03.PivotProofs C03.Phase2Entries C03.Phase2Inv C03.ExtractProofs C03.OptimalProofs C03.Ipm C03.IpmProofs.
Import ListNotations.
Open Scope Q_scope.

(* ---- (1) a pivot on a non-zero element keeps the solution set of the tableau (objective row included) *)
Theorem C03_pivot_equiv : forall k T r c v z,
  tab_wf k T -> (r < length (t_rows T))%nat ->
  ~ get (fst (nth r (t_rows T) row0)) c == 0 ->
  (tab_sat v z T <-> tab_sat v z (pivot 0 T r c)).
Proof. exact pivot_equiv. Qed.
Print Assumptions C03_pivot_equiv.

(* ---- phase2_inv: every pivot chosen by _phase2 (exact arithmetic) keeps "basic columns are unit columns,
   reduced cost 0 on basic columns, rhs >= 0" and the solution set; OPTIMAL means no entering column is left,
   UNBOUNDED means an entering column without a leaving row *)
Theorem C03_phase2_inv : forall N fuel it T basis piv st it' T' basis' piv',
  p2_inv N T basis ->
  phase2 0 fuel it T basis piv = (st, it', T', basis', piv') ->
  p2_inv N T' basis'
  /\ (forall v z, tab_sat v z T <-> tab_sat v z T')
  /\ (st = OPTIMAL -> find_enter 0 basis' T' = None)
  /\ (st = UNBOUNDED -> exists e, find_enter 0 basis' T' = Some e /\ find_leave 0 basis' T' e = None).
Proof. exact phase2_inv. Qed.
Print Assumptions C03_phase2_inv.

(* ---- (2) OPTIMAL is sound.  Full statement (every valid LP, exact arithmetic, any iteration limit): *)
Definition C03_optimal_sound_full_statement : Prop :=
  forall minimize fuel c A b r,
    valid_lp c A b = true ->
    solve_lp 0 minimize fuel c A b = r -> r_status r = OPTIMAL ->
    lp_optimal minimize c A b (r_solution r) /\ r_objective r == dot c (r_solution r).
(* Proved below for the LPs that need no phase 1 (b >= 0: the slack basis is feasible).  Missing for the
   general statement: the invariant through _phase1 (artificial columns, driving artificials out, dropping
   their columns, restoring the objective row); for those runs optimality is established per run by the
   certificate theorems C03_cert_..., evaluated inside coqc on every explored case. *)
Theorem C03_optimal_sound_partial : forall minimize fuel c A b r,
  valid_lp c A b = true -> forallb (Qleb 0) b = true ->
  solve_lp 0 minimize fuel c A b = r -> r_status r = OPTIMAL ->
  lp_optimal minimize c A b (r_solution r) /\ r_objective r == dot c (r_solution r).
Proof. exact optimal_sound_nophase1. Qed.
Print Assumptions C03_optimal_sound_partial.

(* for the same LPs, whatever the status (OPTIMAL, UNBOUNDED, MAX_ITER) the returned point is feasible and
   the reported objective is c.x *)
Theorem C03_point_feasible_partial : forall minimize fuel c A b r,
  valid_lp c A b = true -> forallb (Qleb 0) b = true ->
  solve_lp 0 minimize fuel c A b = r ->
  feasible A b (r_solution r) /\ r_objective r == dot c (r_solution r).
Proof. exact point_feasible_nophase1. Qed.
Print Assumptions C03_point_feasible_partial.

(* ---- (3), (4) INFEASIBLE / UNBOUNDED are sound.  Full statements: *)
Definition C03_infeasible_sound_full_statement : Prop :=
  forall minimize fuel c A b r,
    valid_lp c A b = true ->
    solve_lp 0 minimize fuel c A b = r -> r_status r = INFEASIBLE -> lp_infeasible A b.
Definition C03_unbounded_sound_full_statement : Prop :=
  forall minimize fuel c A b r,
    valid_lp c A b = true ->
    solve_lp 0 minimize fuel c A b = r -> r_status r = UNBOUNDED -> lp_unbounded minimize c A b.
(* Not proved in general (same missing phase-1 invariant; for UNBOUNDED the ray construction from
   C03_phase2_inv's last clause).  Partial: whenever the certificate read off the model's final tableau passes
   the boolean checker - which the cert_* lemmas of every check run establish for every explored case - the
   verdict is correct. *)
Theorem C03_infeasible_sound_partial : forall k,
  k_status k = INFEASIBLE -> cert_case_check k = true -> lp_infeasible (k_A k) (k_b k).
Proof. intros k Hs Hc. pose proof (cert_case_sound k Hc) as H. unfold case_claim in H. rewrite Hs in H. exact H. Qed.
Print Assumptions C03_infeasible_sound_partial.

Theorem C03_unbounded_sound_partial : forall k,
  k_status k = UNBOUNDED -> cert_case_check k = true -> lp_unbounded (k_min k) (k_c k) (k_A k) (k_b k).
Proof. intros k Hs Hc. pose proof (cert_case_sound k Hc) as H. unfold case_claim in H. rewrite Hs in H. exact H. Qed.
Print Assumptions C03_unbounded_sound_partial.

(* ---- row equilibration (solve_lp divides every constraint row and its rhs by the row's largest |coefficient|): for sc > 0
   the scaled row with slack s holds iff the original row holds with slack sc * s - the feasible set is unchanged *)
Theorem C03_row_scale_equiv : forall sc ax s b, 0 < sc -> (ax / sc + s == b / sc <-> ax + sc * s == b).
Proof. exact row_scale_equiv. Qed.
Print Assumptions C03_row_scale_equiv.

Theorem C03_row_scale_pos : forall r, 0 < row_scale r.
Proof. exact row_scale_pos. Qed.
Print Assumptions C03_row_scale_pos.

(* ---- per-run certificates: the boolean checkers evaluated by the cert_* lemmas of every check run *)
Theorem C03_cert_optimal_sound : forall tol minimize c A b x obj y,
  cert_optimal_check tol minimize c A b x obj y = true ->
  lp_optimal_tol tol minimize c A b x /\ Qabs (obj - dot c x) <= tol.
Proof. exact cert_optimal_sound. Qed.
Print Assumptions C03_cert_optimal_sound.

Theorem C03_cert_optimal_sound_exact : forall minimize c A b x obj y,
  cert_optimal_check 0 minimize c A b x obj y = true ->
  lp_optimal minimize c A b x /\ obj == dot c x.
Proof. exact cert_optimal_sound_exact. Qed.
Print Assumptions C03_cert_optimal_sound_exact.

Theorem C03_cert_farkas_sound : forall c A b y, farkas_check c A b y = true -> lp_infeasible A b.
Proof. exact farkas_sound. Qed.
Print Assumptions C03_cert_farkas_sound.

Theorem C03_cert_ray_sound : forall minimize c A b x r,
  ray_check minimize c A b x r = true -> lp_unbounded minimize c A b.
Proof. exact ray_sound. Qed.
Print Assumptions C03_cert_ray_sound.

Theorem C03_cert_case_sound : forall k, cert_case_check k = true -> case_claim k.
Proof. exact cert_case_sound. Qed.
Print Assumptions C03_cert_case_sound.

(* ---- interior point: the code's convergence test implies eps-feasibility and an explicit gap bound *)
Theorem C03_ipm_gate : forall eps A b w xs ss y zx zs,
  gate eps A b w xs ss y zx zs = true ->
  feasible_tol eps A b xs /\
  forall xstar, feasible A b xstar ->
    dot w xs - dot w xstar <= gap_bound eps A b xs ss y xstar.
Proof. exact ipm_gate_sound. Qed.
Print Assumptions C03_ipm_gate.

(* ---- non-vacuity *)
Definition ex_T : tableau := mkT [([1; 1; 1; 0], 4); ([1; 3; 0; 1], 6)] ([-3; -2; 0; 0], 0).
Example C03_pivot_equiv_nonvacuous :
  tab_wf 4 ex_T /\ (0 < length (t_rows ex_T))%nat /\ ~ get (fst (nth 0 (t_rows ex_T) row0)) 0 == 0
  /\ pivot 0 ex_T 0 0 = mkT [([1; 1; 1; 0], 4); ([0; 2; -1; 1], 2)] ([0; 1; 3; 0], 12).
Proof.
  split; [split; [repeat constructor | reflexivity]|]. split; [simpl; auto|]. split; [|vm_compute; reflexivity].
  intro H. vm_compute in H. discriminate.
Qed.

Definition ex_opt : lp_case :=
  mkC false None [3; 2] [[1; 1]; [1; 3]; [1; 0]] [4; 6; 3] OPTIMAL [(2, 0); (0, 1)]%nat 2%nat [3; 1] 11.
Definition ex_inf : lp_case :=
  mkC true None [1; 1] [[1; 1]; [-1; -1]] [1; -3] INFEASIBLE [(1, 0)]%nat 1%nat [0; 0] 0.
Definition ex_unb : lp_case :=
  mkC false None [1; 1] [[-1; -1]; [1; -1]] [-1; 2] UNBOUNDED [(0, 0)]%nat 1%nat [0; 0] 0.
Example C03_cert_nonvacuous :
  cert_case_check ex_opt = true /\ cert_case_check ex_inf = true /\ cert_case_check ex_unb = true
  /\ r_status (run_case 0 ex_opt) = OPTIMAL /\ r_status (run_case 0 ex_inf) = INFEASIBLE
  /\ r_status (run_case 0 ex_unb) = UNBOUNDED.
Proof. vm_compute. repeat split. Qed.

(* the hypotheses of C03_optimal_sound_partial hold on a two-pivot maximisation problem *)
Example C03_optimal_sound_nonvacuous :
  valid_lp [3; 2] [[1; 1]; [1; 3]; [1; 0]] [4; 6; 3] = true /\ forallb (Qleb 0) [4; 6; 3] = true
  /\ r_status (solve_lp 0 false 100 [3; 2] [[1; 1]; [1; 3]; [1; 0]] [4; 6; 3]) = OPTIMAL
  /\ r_solution (solve_lp 0 false 100 [3; 2] [[1; 1]; [1; 3]; [1; 0]] [4; 6; 3]) = [3; 1].
Proof. vm_compute. repeat split. Qed.

(* min -x s.t. x <= 1: optimum x = 1, slack 0, multiplier y = -1 (the code's sign), zs = 1 *)
Example C03_ipm_gate_nonvacuous :
  gate (1 # 100000000) [[1]] [1] [-1] [1] [0] [-1] [0] [1] = true.
Proof. vm_compute. reflexivity. Qed.
