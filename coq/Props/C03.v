(* C03 - LP verdicts and optima are exact (simplex); interior point is right when its gate says OPTIMAL.
   Property theorems (each is `exact` of a lemma proved under coq/C03/). *)
From Coq Require Import List QArith Qabs Bool.
From SV Require Import C03.Simplex C03.SimplexCorr C03.LPSpec C03.Cert C03.CertProofs.
Import ListNotations.
Open Scope Q_scope.

(* ---- per-run certificates: the boolean checkers evaluated by the cert_* lemmas of every check run *)
Theorem C03_cert_optimal_sound : forall tol minimize c A b x obj y,
  cert_optimal_check tol minimize c A b x obj y = true ->
  lp_optimal_tol tol minimize c A b x /\ Qabs (obj - dot c x) <= tol.
Proof. exact cert_optimal_sound. Qed.
Print Assumptions C03_cert_optimal_sound.

Theorem C03_cert_optimal_sound_exact : forall minimize c A b x obj y,
  cert_optimal_check 0 minimize c A b x obj y = true ->
  lp_optimal minimize c A b x /\ obj == dot c x.
Proof. exact cert_optimal_sound_exact. Qed.
Print Assumptions C03_cert_optimal_sound_exact.

Theorem C03_cert_farkas_sound : forall c A b y, farkas_check c A b y = true -> lp_infeasible A b.
Proof. exact farkas_sound. Qed.
Print Assumptions C03_cert_farkas_sound.

Theorem C03_cert_ray_sound : forall minimize c A b x r,
  ray_check minimize c A b x r = true -> lp_unbounded minimize c A b.
Proof. exact ray_sound. Qed.
Print Assumptions C03_cert_ray_sound.

Theorem C03_cert_case_sound : forall k, cert_case_check k = true -> case_claim k.
Proof. exact cert_case_sound. Qed.
Print Assumptions C03_cert_case_sound.
