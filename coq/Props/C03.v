(* placeholder while the proofs are being written; replaced below *)
From SV Require Import C03.Simplex.
