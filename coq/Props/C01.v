(* Property C01: SAT models are models - every assignment solve_sat hands back satisfies every input
   clause and every assumption; several solutions are pairwise distinct.
   Shape G: theorems about every event trace accepted by the guarded machine C01/Machine.v (the
   check replays each real call's trace through it inside coqc).  `chk` = whether the RUP guards of
   C02 are evaluated; C01 holds either way.  Only statements + `exact <lemma>`; proofs in C01/*.v. *)
From Coq Require Import List ZArith Bool.
Import ListNotations.
From SV Require Import C01.SatSpec C01.Rup C01.Machine.
From SV Require C01.SatLemmas C01.MachineInv C01.MachineThms.
Open Scope Z_scope.

(* every recorded model satisfies all clauses and all assumptions - whatever restarts, backjumps,
   clause-database reductions or blocking clauses happened (they are invisible to the guards) *)
Theorem C01_models : forall chk N A limit evs s, run chk N A limit evs = Some s ->
  forall m, In m (sols s) -> models (asg_of m) N /\ agrees (asg_of m) A.
Proof. exact MachineThms.models_thm. Qed.
Print Assumptions C01_models.

(* ... and assigns exactly the variables 1..n_vars *)
Theorem C01_total : forall chk N A limit evs s, run chk N A limit evs = Some s ->
  forall m, In m (sols s) -> map Z.abs m = zseq 1 (Z.to_nat (max_var N)).
Proof. exact MachineThms.total_thm. Qed.
Print Assumptions C01_total.

(* pairwise distinct, as dicts and as assignments *)
Theorem C01_distinct : forall chk N A limit evs s, run chk N A limit evs = Some s ->
  NoDup (sols s)
  /\ forall m m', In m (sols s) -> In m' (sols s) -> m <> m' -> exists v, asg_of m v <> asg_of m' v.
Proof. exact MachineThms.distinct_thm. Qed.
Print Assumptions C01_distinct.

(* the Result fields are functions of the accepted trace: `solution` is a recorded model (the last
   one on the solution_limit route, all_solutions[0] otherwise - see Machine.result_of), objective is
   its number of assigned variables, `solutions` is the list of recorded models in order *)
Theorem C01_result_is_trace : forall chk N A limit evs s r, run chk N A limit evs = Some s ->
  result_of limit s = Some r ->
  (forall m, r_solution r = Some m -> In m (sols s) /\ r_objective r = Z.of_nat (length m))
  /\ (r_solution r = None -> sols s = [] /\ r_objective r = 0 /\ r_solutions r = None)
  /\ (forall l, r_solutions r = Some l -> l = rev (sols s) /\ r_solution r <> None).
Proof. exact MachineThms.result_is_trace_thm. Qed.
Print Assumptions C01_result_is_trace.

(* hence everything handed back was checked *)
Theorem C01_result_sound : forall chk N A limit evs s r, run chk N A limit evs = Some s ->
  result_of limit s = Some r ->
  (forall m, r_solution r = Some m -> models (asg_of m) N /\ agrees (asg_of m) A)
  /\ (forall l, r_solutions r = Some l ->
        NoDup l /\ forall m, In m l -> models (asg_of m) N /\ agrees (asg_of m) A).
Proof. exact MachineThms.result_sound_thm. Qed.
Print Assumptions C01_result_sound.

(* the boolean checker applied to implementation results by the harness (machine-independent) *)
Theorem C01_spec_check_sound : forall N A r, spec_check N A r = true ->
  (forall m, r_solution r = Some m -> models (asg_of m) N /\ agrees (asg_of m) A)
  /\ (forall l, r_solutions r = Some l ->
        NoDup l /\ forall m, In m l -> models (asg_of m) N /\ agrees (asg_of m) A).
Proof. exact MachineThms.spec_check_sound. Qed.
Print Assumptions C01_spec_check_sound.

(* ---- non-vacuity: real traces of /repo (solve_sat with assumptions=[-2], solution_limit=3, luby_factor=1) ---- *)
Definition ex_N : cnf := [[1; 2; 3]; [-1; -2]; [-2; -3]; [1; -3; 4]; [-4; 2; 1]; [-1; -4]].
Definition ex_evs : list event :=
  [EInit 4 [] [] [-2]; ESolution [1; -2; 3; -4]; ELearn [-1; 2; -3; 4] true;
   ESolution [1; -2; -3; -4]; ELearn [-1; 2; 3; 4] true; ELearn [-1; 2] false; EVerdict OPTIMAL].

Example C01_nonvacuous_trace :
  valid_input ex_N [-2] = true
  /\ exists s, run true ex_N [-2] 3 ex_evs = Some s /\ length (sols s) = 2%nat
     /\ result_of 3 s = Some (mkResult OPTIMAL (Some [1; -2; 3; -4]) 4 (Some [[1; -2; 3; -4]; [1; -2; -3; -4]])).
Proof. vm_compute. split; [reflexivity|]. eexists. repeat split. Qed.

(* a non-model is rejected, and so is a repeated model *)
Example C01_nonvacuous_rejects :
  run false ex_N [-2] 3 [EInit 4 [] [] [-2]; ESolution [1; -2; 3; 4]] = None
  /\ run false ex_N [-2] 3 [EInit 4 [] [] [-2]; ESolution [1; -2; 3; -4]; ELearn [-1; 2; -3; 4] true;
                           ESolution [1; -2; 3; -4]] = None
  /\ run false ex_N [-2] 3 [EInit 4 [] [] [-2]; ESolution [1; 2; 3; -4]] = None.
Proof. vm_compute. repeat split. Qed.

(* pure literals + solution_limit = 1: Result.solutions stays None *)
Example C01_nonvacuous_limit1 :
  exists s, run true [[1; 2]; [3; -4]] [] 1 [EInit 4 [1; 2; 3; -4] [] []; ESolution [1; 2; 3; -4]; EVerdict OPTIMAL] = Some s
    /\ result_of 1 s = Some (mkResult OPTIMAL (Some [1; 2; 3; -4]) 4 None).
Proof. vm_compute. eexists. split; reflexivity. Qed.
