From SV Require Import C01.SatSpec.
