(* Property C18, job-shop part (solvor/job_shop.py): schedules are structurally valid and honestly scored.
   Model: C18/JobShop.v (tied to /repo on every check run by Cases/C18/js_corr_*.v); specification and boolean
   checker: C18/JobShopSpec.v; proofs: C18/JobShopProofs.v, C18/JobShopProofs2.v.
   The VRPTW part of C18 is in Props/C18_vrp.v. *)
From Coq Require Import List ZArith Bool Arith.
From SV Require Import C18.JobShop C18.JobShopSpec C18.JobShopProofs C18.JobShopProofs2 C18.JobShopProofs3.
Import ListNotations.
Open Scope Z_scope.

(* (1) The list-scheduling kernel, for EVERY `choose` (any auxiliary state, any function: whatever index it
   answers is a ready operation or the run fails) on every input whose machine indices fit the clock vector and
   whose durations are non-negative: every operation exactly once, end - start = duration, job order without
   overlap, no machine overlap (valid_schedule, C18/JobShopSpec.v) - and, stronger, operations of one machine are
   sequential even when some have zero length. *)
Theorem C18_js_valid :
  forall (A : Type) (choose : A -> kst -> list rop -> option (nat * A)) jobs nm a a' s,
  jobs_ok jobs nm = true ->
  schedule_with choose jobs (total_ops jobs) a (init_kst jobs nm) = Some (a', s) ->
  valid_schedule jobs (sch s) /\ machine_sequential jobs (sch s).
Proof. exact kernel_valid. Qed.
Print Assumptions C18_js_valid.

(* _rebuild_schedule: for every old schedule, target machine and machine order on which it completes *)
Theorem C18_js_rebuild_valid : forall jobs old target order ns,
  valid_jobs jobs = true -> rebuild jobs old target order = Some ns -> valid_schedule jobs ns.
Proof. exact rebuild_valid. Qed.
Print Assumptions C18_js_rebuild_valid.

(* solve_job_shop as a whole: every job list, rule, local-search flag and length, call-back, random answers *)
Theorem C18_js_solve_valid : forall jobs rl ls max_iter cb interval orc s obj st orc',
  solve jobs rl ls max_iter cb interval orc = (Ok s obj st, orc') -> js_spec jobs s obj st.
Proof. exact solve_valid_schedule. Qed.
Print Assumptions C18_js_solve_valid.

(* (2) the returned objective is the latest end time of the returned schedule *)
Theorem C18_js_objective : forall jobs rl ls max_iter cb interval orc s obj st orc',
  solve jobs rl ls max_iter cb interval orc = (Ok s obj st, orc') ->
  obj = makespan s /\ is_makespan s obj.
Proof. exact solve_objective. Qed.
Print Assumptions C18_js_objective.

(* (3) local search never worsens the makespan: end to end (the same call without local search) ... *)
Theorem C18_js_ls_monotone : forall jobs rl max_iter cb interval orc s0 o0 st0 r0 s1 o1 st1 r1,
  solve jobs rl false max_iter cb interval orc = (Ok s0 o0 st0, r0) ->
  solve jobs rl true max_iter cb interval orc = (Ok s1 o1 st1, r1) ->
  o1 <= o0.
Proof. exact solve_ls_monotone. Qed.
Print Assumptions C18_js_ls_monotone.

(* ... and from every reachable state of the loop, for the incumbent and for the best *)
Theorem C18_js_ls_loop_monotone : forall jobs cb interval fuel it st orc st' orc',
  valid_jobs jobs = true -> ls_inv jobs st ->
  ls_loop jobs cb interval fuel it st orc = Some (st', orc') ->
  best_mk st' <= best_mk st /\ cur_mk st' <= cur_mk st.
Proof. exact ls_loop_monotone. Qed.
Print Assumptions C18_js_ls_loop_monotone.

(* the theorems above are about every run: for the rules fifo/spt/lpt/mwkr and an oracle holding one machine draw per
   local-search pass the model never takes its failure value (for rule 'random' the choice answers must also be
   indices into the ready list, which the recorded ones are - checked case by case by the correspondence) *)
Theorem C18_js_total : forall jobs rl ls max_iter cb interval orc,
  deterministic rl = true -> (Z.to_nat max_iter <= length orc)%nat ->
  fst (solve jobs rl ls max_iter cb interval orc) <> Fail.
Proof. exact solve_total. Qed.
Print Assumptions C18_js_total.

(* the boolean checker run by coqc on the IMPLEMENTATION's outputs (Cases/C18/js_spec_*.v) is sound *)
Theorem C18_js_spec_check_sound : forall jobs s obj st,
  spec_check jobs (IOk s obj st) = true -> js_spec jobs s obj st.
Proof. exact spec_check_sound. Qed.
Print Assumptions C18_js_spec_check_sound.

(* ------------------------------------------------------------------ non-vacuity *)
Definition ex_jobs : list job :=
  [[(1, 3); (0, 1)]; [(0, 2); (0, 4)]; [(0, 4); (0, 5)]; [(1, 4); (1, 0); (1, 2)]].

Example C18_js_nonvacuous_input : valid_jobs ex_jobs = true /\ jobs_ok ex_jobs (n_machines ex_jobs) = true.
Proof. vm_compute. split; reflexivity. Qed.

(* the kernel completes for an arbitrary (here: "always the last ready operation") choose *)
Example C18_js_nonvacuous_kernel :
  exists s, schedule_with (fun (_ : unit) _ rd => Some ((length rd - 1)%nat, tt)) ex_jobs (total_ops ex_jobs) tt
              (init_kst ex_jobs 2) = Some (tt, s) /\ length (sch s) = 9%nat.
Proof. eexists. vm_compute. split; reflexivity. Qed.

(* solve_job_shop(ex_jobs, rule='spt', seed=480, max_iter=1): dispatch gives 17, one swap on machine 1 gives 16
   (the recorded random answer is [1]); observed on /repo as well *)
Example C18_js_nonvacuous_solve :
  (exists s r, solve ex_jobs Spt false 1 None 0 [1%nat] = (Ok s 17 Feasible, r)) /\
  (exists s r, solve ex_jobs Spt true 1 None 0 [1%nat] = (Ok s 16 Feasible, r)).
Proof. split; eexists; eexists; vm_compute; reflexivity. Qed.

(* random rule: 9 choice answers, then 3 machine draws *)
Example C18_js_nonvacuous_random :
  exists s obj, solve ex_jobs Rnd true 3 None 0 [3; 0; 1; 0; 1; 1; 0; 0; 0; 0; 1; 0]%nat = (Ok s obj Feasible, []).
Proof. eexists. eexists. vm_compute. reflexivity. Qed.

(* the checker accepts a correct output and rejects a machine overlap *)
Example C18_js_nonvacuous_check :
  spec_check [[(0, 2)]; [(0, 3)]] (IOk [((0%nat, 0%nat), (0, 2)); ((1%nat, 0%nat), (2, 5))] 5 Feasible) = true /\
  spec_check [[(0, 2)]; [(0, 3)]] (IOk [((0%nat, 0%nat), (0, 2)); ((1%nat, 0%nat), (1, 4))] 4 Feasible) = false.
Proof. vm_compute. split; reflexivity. Qed.
