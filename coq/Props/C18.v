(* Property C18, job-shop part (solvor/job_shop.py). *)
From Coq Require Import List ZArith Bool Arith.
From SV Require Import C18.JobShop C18.JobShopSpec.
Import ListNotations.
Open Scope Z_scope.

Theorem C18_js_spec_check_sound : forall jobs s obj st,
  spec_check jobs (IOk s obj st) = true -> js_spec jobs s obj st.
Proof. exact spec_check_sound. Qed.
Print Assumptions C18_js_spec_check_sound.
