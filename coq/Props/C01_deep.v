(* Property C01, stretch `C01_algorithm` (shape A/O): invariants of the FAITHFUL model of solve_sat, coq/C01/DeepCdcl.v.
   The model is a transliteration of solvor/sat.py (two-watched-literal propagation with its in-place swaps, binary
   implications, 1-UIP analysis, backjumping, Luby restarts, reduce_db, pure literals, units, blocking clauses, budgets);
   its only oracle is the sequence of variables pick_var() returned.  The check runs the model inside coqc on every
   call's decisions and requires its event trace and Result to be EQUAL to the implementation's (harness/props/C01_deep.py).
   The theorems below hold for every formula, every option value and every decision oracle.
   Only statements + `exact <lemma>`; proofs in coq/C01/Deep*.v. *)
From Coq Require Import List ZArith Bool Arith.
Import ListNotations.
From SV Require Import C01.SatSpec C01.Machine C01.DeepCdcl.
From SV Require C01.DeepBase C01.DeepTrail C01.DeepTrailProp C01.DeepAnalyze C01.DeepWatch C01.DeepReason C01.DeepReasonProp
  C01.DeepRunOps C01.DeepReduce C01.DeepRun C01.DeepInit C01.DeepJ C01.DeepJOps C01.DeepJProp C01.DeepJAttach C01.DeepJLearn
  C01.DeepJReduce C01.DeepJRun C01.DeepSteps C01.DeepAlgo C01.DeepResult.
Import DeepTrail DeepTrailProp DeepAnalyze DeepWatch DeepReason DeepReasonProp DeepRun DeepJ DeepJProp DeepJRun DeepAlgo.

(* ---- (a) deep_trail_inv (T): vals / trail / trail_lim / levels / prop_head are consistent:
   no variable twice on the trail, a variable is assigned iff it is on the trail, prop_head <= len(trail), trail_lim is
   sorted and within the trail, levels[v] = number of decision marks at or below v's trail position.
   TI = trail_inv + every literal stored in the clause database indexes into the arrays. ---- *)
Theorem deep_trail_inv_assign : forall s v b r,
  trail_inv s -> val_of s v = None -> (v < length (s_vals s))%nat -> trail_inv (assign v b r s).
Proof. exact DeepTrail.assign_trail_inv. Qed.
Print Assumptions deep_trail_inv_assign.

Theorem deep_trail_inv_unassign_to : forall s level, trail_inv s -> trail_inv (unassign_to level s).
Proof. exact DeepTrail.unassign_to_trail_inv. Qed.
Print Assumptions deep_trail_inv_unassign_to.

(* decide = trail_lim.append(len(trail)); assign(var, phase[var], -1) *)
Theorem deep_trail_inv_decide : forall s v b,
  trail_inv s -> val_of s v = None -> (v < length (s_vals s))%nat -> trail_inv (assign v b None (push_lim s)).
Proof. exact DeepTrail.decide_trail_inv. Qed.
Print Assumptions deep_trail_inv_decide.

(* propagate(): assumptions at level 0, binary implications, watch lists with clause swaps and watch moves - whatever
   the fuel, whenever it returns *)
Theorem deep_trail_inv_propagate : forall fuel A s s' c,
  Forall (lit_in (nv s)) A -> TI s -> propagate fuel A s = Some (s', c) -> TI s'.
Proof. exact DeepTrailProp.propagate_TI. Qed.
Print Assumptions deep_trail_inv_propagate.

(* ---- (c) deep_learned_entailed: the clause `analyze` builds (resolution of the conflict clause with the reason clauses
   along the trail, 1-UIP) is entailed by the clause database of that moment.  Hypotheses: (T); no literal 0; the conflict
   clause is a falsified clause of the database; reasons are as invariant (b) says. ---- *)
Theorem deep_learned_entailed : forall s ci lc bt lbd,
  trail_inv s -> db_nonzero s -> reason_ok s -> decision_first s ->
  In (get_clause s ci) (db s) -> (forall l, In l (get_clause s ci) -> lit_value s l = Some false) ->
  analyze s ci = Some (lc, bt, lbd) -> entails (db s) lc.
Proof. exact DeepAnalyze.analyze_entailed. Qed.
Print Assumptions deep_learned_entailed.

(* ---- (b) deep_reason_inv: the reason clause of every implied variable (level >= 1) is a clause of the database whose other
   literals are false and were assigned earlier (reason_inv); a reasonless variable of level >= 1 is the first of its level
   (decision_first).  Both live in the bundle BI together with (T), the "at most" half of (W) (watch_le: a clause sits in the
   watch list of l at most as often as l stands on its positions 0/1; big_ok: an implication entry is a binary clause of the
   database) and head_inv (decision marks <= prop_head, unprocessed trail entries lie on the current level). ---- *)
Theorem deep_reason_inv_assign : forall s v b r0,
  trail_inv s -> reason_inv s -> val_of s v = None -> (v < length (s_vals s))%nat ->
  (forall r, r0 = Some r -> (1 <= cur_level s)%nat -> (r < n_clauses s)%nat
     /\ forall l, In l (get_clause s r) -> (lvar l = v /\ lpos l = b) \/ lit_value s l = Some false) ->
  reason_inv (assign v b r0 s).
Proof. exact DeepReason.reason_inv_assign. Qed.
Print Assumptions deep_reason_inv_assign.

Theorem deep_reason_inv_unassign_to : forall s level, trail_inv s -> reason_inv s -> reason_inv (unassign_to level s).
Proof. exact DeepReason.reason_inv_unassign_to. Qed.
Print Assumptions deep_reason_inv_unassign_to.

(* propagate() keeps the whole bundle; a conflict it reports is a falsified clause of the database with a literal of the
   current level; without conflict everything on the trail is processed *)
Theorem deep_reason_inv_propagate : forall fuel A s s' c,
  assum_ok (nv s) A -> BI s -> propagate fuel A s = Some (s', c) ->
  BI s' /\ (forall ci, c = CAt ci -> conflict_ok s' ci) /\ (c = CNone -> s_head s' = length (s_trail s'))
  /\ (c = CAssum -> cur_level s' = 0%nat).
Proof. exact DeepReasonProp.propagate_BI. Qed.
Print Assumptions deep_reason_inv_propagate.

(* the bundle gives `analyze` its hypotheses *)
Theorem deep_reason_inv_discharges : forall s, BI s -> trail_inv s /\ db_nonzero s /\ reason_ok s /\ decision_first s.
Proof. exact DeepReasonProp.BI_analyze_hyps. Qed.
Print Assumptions deep_reason_inv_discharges.

(* ---- the whole run: for every valid input (no literal 0, assumption variables within range), every option value, every
   decision oracle and every fuel, every state the main loop goes through satisfies the loop invariant LI:
   the bundle BI - hence (T), (b) and the "at most" half of (W) - holds, dec_level = len(trail_lim), and a recorded
   conflict is a falsified clause of the database with a literal of the current level (or the level is 0).
   It covers backjumping, learned-clause attachment and assertion, restarts with reduce_db, blocking clauses, decisions. ---- *)
Theorem deep_run_inv : forall fuel cls A mc mr limit lf orc P L0 L, valid_input cls A = true ->
  init_loop fuel cls A mc mr limit lf orc = ILoop P L0 -> reach fuel P L0 L -> LI P L.
Proof. exact DeepInit.run_LI. Qed.
Print Assumptions deep_run_inv.

(* (c) without hypotheses on the state: during any run, the clause analyze() learns is entailed by the clause database of that
   moment - the per-run RUP check of the guarded machine is discharged by proof for the model *)
Theorem deep_learned_entailed_run : forall fuel cls A mc mr limit lf orc P L0 L ci lc bt lbd, valid_input cls A = true ->
  init_loop fuel cls A mc mr limit lf orc = ILoop P L0 -> reach fuel P L0 L ->
  l_conflict L = CAt ci -> l_dec_level L <> 0%nat -> analyze (l_st L) ci = Some (lc, bt, lbd) -> entails (db (l_st L)) lc.
Proof. exact DeepInit.run_learned_entailed. Qed.
Print Assumptions deep_learned_entailed_run.

(* ---- (d) deep_watch_inv (W + J).
   W: every clause of the database is looked after (cov_all): a unit clause is true at level 0; a longer clause stands in
      the watch lists of its literals at positions 0 and 1 at least as often as they occur there - together with watch_le of
      the bundle BI: EXACTLY on positions 0 and 1 - or, if binary, in both implication lists.
   J: no clause has both literals of positions 0/1 false and processed (fp = false and its trail entry before prop_head).
   propagate() keeps W and J; when it reports a conflict J is weakened to JC (a violating clause has a literal of the current
   level - the backjump that follows unassigns it). ---- *)
Theorem deep_watch_inv_propagate : forall fuel A s s' c, assum_ok (nv s) A ->
  BI s /\ arr_len s /\ cov_all s /\ J s -> propagate fuel A s = Some (s', c) ->
  match c with
  | CNone => BI s' /\ arr_len s' /\ cov_all s' /\ J s'
  | CAt _ => BI s' /\ arr_len s' /\ cov_all s' /\ JC s'
  | CAssum => True
  end.
Proof. exact DeepJProp.propagate_PJ. Qed.
Print Assumptions deep_watch_inv_propagate.

(* for every state of every run: LJ = (no conflict pending: W and J) / (conflict pending at level >= 1: W and JC) *)
Theorem deep_watch_inv : forall fuel cls A mc mr limit lf orc P L0 L, valid_input cls A = true ->
  init_loop fuel cls A mc mr limit lf orc = ILoop P L0 -> reach fuel P L0 L -> LI P L /\ LJ L.
Proof. exact DeepJRun.run_LJ. Qed.
Print Assumptions deep_watch_inv.

(* ---- (e) C01_algorithm: for every valid input, every option value, every decision oracle and every fuel: whenever a run of
   the model reaches the point where it records a solution - no conflict pending and every variable assigned, i.e. pick_var()
   returned 0 - the recorded dict satisfies every input clause, every assumption and every clause of the database (all learned
   and all blocking clauses, hence it differs from every model recorded before whose blocking clause is still there).
   From (T) + (W) + (J): all variables are assigned and processed, so by J no clause has both watched literals false, by W
   every clause is watched / implied / a level-0 unit; the input clauses keep their literals (only their order changes) and
   the assumptions stay true at level 0 - both shown via the decomposition of a run into elementary steps. ---- *)
Theorem C01_algorithm : forall fuel cls A mc mr limit lf orc P L0 L, valid_input cls A = true ->
  init_loop fuel cls A mc mr limit lf orc = ILoop P L0 -> reach fuel P L0 L ->
  l_conflict L = CNone -> all_assigned (l_st L) (n_vars_of cls) = true ->
  let m := solution_of (l_st L) (n_vars_of cls) in
  models (asg_of m) cls /\ agrees (asg_of m) A /\ models (asg_of m) (db (l_st L)).
Proof. exact DeepAlgo.C01_algorithm_thm. Qed.
Print Assumptions C01_algorithm.

(* ... and end to end, for the Result the model returns: `solution` and every entry of `solutions` satisfy the input clauses and
   the assumptions, and the entries of `solutions` are pairwise distinct (the blocking clause of a recorded model keeps lbd 0,
   survives reduce_db, and is satisfied by every later model) *)
Theorem C01_algorithm_result : forall fuel cls A mc mr limit lf orc evs r, valid_input cls A = true ->
  solve_sat fuel cls A mc mr limit lf orc = Done evs r ->
  (forall m, d_solution r = Some m -> models (asg_of m) cls /\ agrees (asg_of m) A)
  /\ (forall ms, d_solutions r = Some ms -> NoDup ms /\ forall m, In m ms -> models (asg_of m) cls /\ agrees (asg_of m) A).
Proof. exact DeepResult.solve_sat_sound. Qed.
Print Assumptions C01_algorithm_result.

(* the tie to the implementation: `deep_check` is what the check evaluates inside coqc for every real call (the model, fed with
   the call's decisions, must reproduce the call's event trace and Result).  Whenever it holds, the solutions the IMPLEMENTATION
   returned are models and pairwise distinct - by proof about the algorithm, not by evaluating them *)
Theorem C01_deep_check_sound : forall cls A mc mr limit lf evs impl, valid_input cls A = true ->
  deep_check cls A mc mr limit lf evs impl = true ->
  (forall m, d_solution impl = Some m -> models (asg_of m) cls /\ agrees (asg_of m) A)
  /\ (forall ms, d_solutions impl = Some ms -> NoDup ms /\ forall m, In m ms -> models (asg_of m) cls /\ agrees (asg_of m) A).
Proof. exact DeepResult.deep_check_sound. Qed.
Print Assumptions C01_deep_check_sound.

(* ---- non-vacuity: the model reproduces real runs of /repo (solve_sat under both hooks) ---- *)
Definition dx_N : cnf := [[1; 2; 3]; [-1; -2]; [-2; -3]; [1; -3; 4]; [-4; 2; 1]; [-1; -4]]%Z.
Definition dx_evs : list devent :=
  [DEv (EInit 4 [] [] [-2]); DDecide 1; DDecide 3; DEv (ESolution [1; -2; 3; -4]); DEv (ELearn [-1; 2; -3; 4] true);
   DDecide 1; DEv (ESolution [1; -2; -3; -4]); DEv (ELearn [-1; 2; 3; 4] true); DDecide 1; DEv (ELearn [-1; 2] false);
   DRestart; DEv (EVerdict OPTIMAL)]%Z.

(* solve_sat(dx_N, assumptions=[-2], solution_limit=3, luby_factor=1): decisions 1 3 1 1 *)
Example deep_nonvacuous_run :
  solve_sat 40 dx_N [-2]%Z 100000%Z 10000%Z 3%Z 1%Z [1; 3; 1; 1]%nat
  = Done dx_evs (mkDres OPTIMAL (Some [1; -2; 3; -4]%Z) 4 4 13 (Some [[1; -2; 3; -4]; [1; -2; -3; -4]]%Z)).
Proof. vm_compute. reflexivity. Qed.

Definition dx_N2 : cnf :=
  [[1; 2; 3]; [-1; -2; 3]; [1; -2; -3]; [-1; 2; -3]; [1; 2; -3]; [-1; -2; -3]; [1; -2; 3; 4]; [-1; 2; 3; -4]]%Z.

(* a conflict, a learned clause, a restart, then a model: decisions 1 2 1 *)
Example deep_nonvacuous_learn :
  deep_check dx_N2 [] 100000%Z 10000%Z 1%Z 1%Z
    [DEv (EInit 4 [] [] []); DDecide 1; DDecide 2; DEv (ELearn [-2; -1] false); DRestart; DDecide 1;
     DEv (ESolution [1; -2; -3; -4]); DEv (EVerdict OPTIMAL)]%Z
    (mkDres OPTIMAL (Some [1; -2; -3; -4]%Z) 4 3 8 None) = true.
Proof. vm_compute. reflexivity. Qed.

(* the inputs of the two examples are valid inputs of the theorems *)
Example deep_nonvacuous_valid : valid_input dx_N [-2]%Z = true /\ valid_input dx_N2 [] = true.
Proof. vm_compute. split; reflexivity. Qed.

(* a wrong oracle, exhausted fuel and a tampered trace are not accepted *)
Example deep_nonvacuous_rejects :
  (exists evs, solve_sat 40 dx_N [-2]%Z 100000%Z 10000%Z 3%Z 1%Z [2]%nat = Err (EOracleBad 2) evs)
  /\ (exists evs, solve_sat 3 dx_N [-2]%Z 100000%Z 10000%Z 3%Z 1%Z [1; 3; 1; 1]%nat = Err EFuel evs)
  /\ deep_check dx_N2 [] 100000%Z 10000%Z 1%Z 1%Z
       [DEv (EInit 4 [] [] []); DDecide 1; DDecide 2; DEv (ELearn [-1; -2] false); DRestart; DDecide 1;
        DEv (ESolution [1; -2; -3; -4]); DEv (EVerdict OPTIMAL)]%Z
       (mkDres OPTIMAL (Some [1; -2; -3; -4]%Z) 4 3 8 None) = false.
Proof. vm_compute. repeat split; eexists; reflexivity. Qed.
