(* C19 part A - search heuristics report the best point they evaluated: anneal, lns, alns, tabu_search,
   evolve (part B: Props/C19_b.v).  Shape O: every theorem quantifies over ALL value streams (objective
   values in call order, user sign) and ALL oracle streams (acceptance decisions, stop requests, candidate
   lists / move numberings, numbers of children) of unbounded length.  `<solver> ... = Some r` excludes only
   recordings that are not well-formed (events missing or left over); the machines are tied to /repo on
   every run by the generated correspondence lemmas (harness/props/C19.py).
   This file contains only `exact`-proofs of statements proved in coq/C19/A_*.v. *)
From Coq Require Import List ZArith Bool Arith.
From SV Require Import C19.Common C19.A_Anneal C19.A_Lns C19.A_Tabu C19.A_Evolve C19.A_Check
  C19.A_AnnealProofs C19.A_LnsProofs C19.A_TabuProofs C19.A_EvolveProofs C19.A_Theorems.
Import ListNotations.
Open Scope Z_scope.

(* the boolean specification checker run on implementation outputs is sound *)
Theorem C19_spec_check_sound : forall m us o, obs_spec_check m us o = true -> ObsSpec m us o.
Proof. exact obs_spec_check_sound. Qed.
Print Assumptions C19_spec_check_sound.

(* reading of BestSpec in the user's words *)
Theorem C19_spec_user_words : forall m us r, BestSpec m us r ->
  (m = true -> forall u, In u us -> r_obj r <= u) /\ (m = false -> forall u, In u us -> u <= r_obj r).
Proof. exact spec_user_words. Qed.
Print Assumptions C19_spec_user_words.

(* ------------------------------------------------------------------ anneal *)

Theorem best_is_min_anneal : forall m mi u0 evs r, anneal m mi u0 evs = Some r -> Forall (better_eq m (r_obj r)) (anneal_log u0 evs).
Proof. exact anneal_best_is_min. Qed.
Print Assumptions best_is_min_anneal.

Theorem best_is_f_anneal : forall m mi u0 evs r, anneal m mi u0 evs = Some r -> nth_error (anneal_log u0 evs) (r_id r) = Some (r_obj r).
Proof. exact anneal_best_is_f. Qed.
Print Assumptions best_is_f_anneal.

Theorem evals_count_anneal : forall m mi u0 evs r, anneal m mi u0 evs = Some r -> r_evals r = length (anneal_log u0 evs).
Proof. exact anneal_evals_count. Qed.
Print Assumptions evals_count_anneal.

Theorem C19_anneal_spec : forall m mi u0 evs r, anneal m mi u0 evs = Some r -> BestSpec m (anneal_log u0 evs) r.
Proof. exact anneal_spec. Qed.
Print Assumptions C19_anneal_spec.

Theorem mirror_anneal : forall mi u0 evs, anneal false mi u0 evs = option_map neg_result (anneal true mi (- u0) (map a_neg evs)).
Proof. exact anneal_mirror. Qed.
Print Assumptions mirror_anneal.

Theorem deterministic_anneal : forall m mi u0 evs r1 r2, anneal m mi u0 evs = Some r1 -> anneal m mi u0 evs = Some r2 -> r1 = r2.
Proof. exact anneal_deterministic. Qed.
Print Assumptions deterministic_anneal.

(* ------------------------------------------------------------------ lns *)

Theorem best_is_min_lns : forall m mi mni u0 evs r, lns m mi mni u0 evs = Some r -> Forall (better_eq m (r_obj r)) (lns_log u0 evs).
Proof. exact lns_best_is_min. Qed.
Print Assumptions best_is_min_lns.

Theorem best_is_f_lns : forall m mi mni u0 evs r, lns m mi mni u0 evs = Some r -> nth_error (lns_log u0 evs) (r_id r) = Some (r_obj r).
Proof. exact lns_best_is_f. Qed.
Print Assumptions best_is_f_lns.

Theorem evals_count_lns : forall m mi mni u0 evs r, lns m mi mni u0 evs = Some r -> r_evals r = length (lns_log u0 evs).
Proof. exact lns_evals_count. Qed.
Print Assumptions evals_count_lns.

Theorem C19_lns_spec : forall m mi mni u0 evs r, lns m mi mni u0 evs = Some r -> BestSpec m (lns_log u0 evs) r.
Proof. exact lns_spec. Qed.
Print Assumptions C19_lns_spec.

Theorem mirror_lns : forall mi mni u0 evs, lns false mi mni u0 evs = option_map neg_result (lns true mi mni (- u0) (map l_neg evs)).
Proof. exact lns_mirror. Qed.
Print Assumptions mirror_lns.

Theorem deterministic_lns : forall m mi mni u0 evs r1 r2, lns m mi mni u0 evs = Some r1 -> lns m mi mni u0 evs = Some r2 -> r1 = r2.
Proof. exact lns_deterministic. Qed.
Print Assumptions deterministic_lns.

(* ------------------------------------------------------------------ alns *)

Theorem best_is_min_alns : forall m mi mni u0 evs r, alns m mi mni u0 evs = Some r -> Forall (better_eq m (r_obj r)) (lns_log u0 evs).
Proof. exact alns_best_is_min. Qed.
Print Assumptions best_is_min_alns.

Theorem best_is_f_alns : forall m mi mni u0 evs r, alns m mi mni u0 evs = Some r -> nth_error (lns_log u0 evs) (r_id r) = Some (r_obj r).
Proof. exact alns_best_is_f. Qed.
Print Assumptions best_is_f_alns.

Theorem evals_count_alns : forall m mi mni u0 evs r, alns m mi mni u0 evs = Some r -> r_evals r = length (lns_log u0 evs).
Proof. exact alns_evals_count. Qed.
Print Assumptions evals_count_alns.

Theorem C19_alns_spec : forall m mi mni u0 evs r, alns m mi mni u0 evs = Some r -> BestSpec m (lns_log u0 evs) r.
Proof. exact alns_spec. Qed.
Print Assumptions C19_alns_spec.

Theorem mirror_alns : forall mi mni u0 evs, alns false mi mni u0 evs = option_map neg_result (alns true mi mni (- u0) (map l_neg evs)).
Proof. exact alns_mirror. Qed.
Print Assumptions mirror_alns.

Theorem deterministic_alns : forall m mi mni u0 evs r1 r2, alns m mi mni u0 evs = Some r1 -> alns m mi mni u0 evs = Some r2 -> r1 = r2.
Proof. exact alns_deterministic. Qed.
Print Assumptions deterministic_alns.

(* ------------------------------------------------------------------ tabu *)

Theorem best_is_min_tabu : forall m cd mi mni u0 evs r, tabu m cd mi mni u0 evs = Some r -> Forall (better_eq m (r_obj r)) (tabu_log u0 evs).
Proof. exact tabu_best_is_min. Qed.
Print Assumptions best_is_min_tabu.

Theorem best_is_f_tabu : forall m cd mi mni u0 evs r, tabu m cd mi mni u0 evs = Some r -> nth_error (tabu_log u0 evs) (r_id r) = Some (r_obj r).
Proof. exact tabu_best_is_f. Qed.
Print Assumptions best_is_f_tabu.

Theorem evals_count_tabu : forall m cd mi mni u0 evs r, tabu m cd mi mni u0 evs = Some r -> r_evals r = length (tabu_log u0 evs).
Proof. exact tabu_evals_count. Qed.
Print Assumptions evals_count_tabu.

Theorem C19_tabu_spec : forall m cd mi mni u0 evs r, tabu m cd mi mni u0 evs = Some r -> BestSpec m (tabu_log u0 evs) r.
Proof. exact tabu_spec. Qed.
Print Assumptions C19_tabu_spec.

Theorem mirror_tabu : forall cd mi mni u0 evs, tabu false cd mi mni u0 evs = option_map neg_result (tabu true cd mi mni (- u0) (map t_neg evs)).
Proof. exact tabu_mirror. Qed.
Print Assumptions mirror_tabu.

Theorem deterministic_tabu : forall m cd mi mni u0 evs r1 r2, tabu m cd mi mni u0 evs = Some r1 -> tabu m cd mi mni u0 evs = Some r2 -> r1 = r2.
Proof. exact tabu_deterministic. Qed.
Print Assumptions deterministic_tabu.

(* ------------------------------------------------------------------ evolve *)

Theorem best_is_min_evolve : forall m el mi us0 evs r, evolve m el mi us0 evs = Some r -> Forall (better_eq m (r_obj r)) (evolve_log us0 evs).
Proof. exact evolve_best_is_min. Qed.
Print Assumptions best_is_min_evolve.

Theorem best_is_f_evolve : forall m el mi us0 evs r, evolve m el mi us0 evs = Some r -> nth_error (evolve_log us0 evs) (r_id r) = Some (r_obj r).
Proof. exact evolve_best_is_f. Qed.
Print Assumptions best_is_f_evolve.

Theorem evals_count_evolve : forall m el mi us0 evs r, evolve m el mi us0 evs = Some r -> r_evals r = length (evolve_log us0 evs).
Proof. exact evolve_evals_count. Qed.
Print Assumptions evals_count_evolve.

Theorem C19_evolve_spec : forall m el mi us0 evs r, evolve m el mi us0 evs = Some r -> BestSpec m (evolve_log us0 evs) r.
Proof. exact evolve_spec. Qed.
Print Assumptions C19_evolve_spec.

Theorem mirror_evolve : forall el mi us0 evs, evolve false el mi us0 evs = option_map neg_result (evolve true el mi (map Z.opp us0) (map g_neg evs)).
Proof. exact evolve_mirror. Qed.
Print Assumptions mirror_evolve.

Theorem deterministic_evolve : forall m el mi us0 evs r1 r2, evolve m el mi us0 evs = Some r1 -> evolve m el mi us0 evs = Some r2 -> r1 = r2.
Proof. exact evolve_deterministic. Qed.
Print Assumptions deterministic_evolve.

(* ------------------------------------------------------------------ the lns of the pinned tree *)
(* best updated only inside the accepted branch: best_is_min fails (witness of DESIGN.md C19, replayed on
   the code: corpus/C19/lns_accept_rejects_improvement.json; repaired in /repo by dee0058) *)
Theorem lns_pinned_refuted :
  exists m mi mni u0 evs r,
    lns_pinned m mi mni u0 evs = Some r /\ ~ Forall (better_eq m (r_obj r)) (lns_log u0 evs).
Proof. exact A_LnsProofs.lns_pinned_refuted. Qed.
Print Assumptions lns_pinned_refuted.

(* where accept never rejects a candidate better than the incumbent the pinned step IS the repaired step *)
Theorem lns_pinned_agrees_when_accept_respects_improvement : forall m mni it s e,
  (ev_call m (l_u e) <? l_best_obj s = true -> l_acc e = true) ->
  lns_step_pinned m mni it s e = lns_step m mni it s e.
Proof. exact lns_pinned_step_agrees. Qed.
Print Assumptions lns_pinned_agrees_when_accept_respects_improvement.

(* ------------------------------------------------------------------ transfer to the implementation *)
(* every generated correspondence case that evaluates to true certifies that the implementation's own
   (solution, objective, evaluations) on that run satisfies ObsSpec w.r.t. the recorded log *)
Theorem C19_anneal_corr_transfer : forall m mi u0 evs us o,
  anneal_corr (ACase m mi u0 evs us o) = true -> ObsSpec m us o.
Proof. exact anneal_corr_transfer. Qed.
Print Assumptions C19_anneal_corr_transfer.
Theorem C19_lns_corr_transfer : forall m mi mni u0 evs us o,
  lns_corr (LCase 0 m mi mni u0 evs us o) = true -> ObsSpec m us o.
Proof. exact lns_corr_transfer. Qed.
Print Assumptions C19_lns_corr_transfer.
Theorem C19_alns_corr_transfer : forall m mi mni u0 evs us o,
  lns_corr (LCase 1 m mi mni u0 evs us o) = true -> ObsSpec m us o.
Proof. exact alns_corr_transfer. Qed.
Print Assumptions C19_alns_corr_transfer.
Theorem C19_tabu_corr_transfer : forall m cd mi mni u0 evs us o,
  tabu_corr (TCase m cd mi mni u0 evs us o) = true -> ObsSpec m us o.
Proof. exact tabu_corr_transfer. Qed.
Print Assumptions C19_tabu_corr_transfer.
Theorem C19_evolve_corr_transfer : forall m el mi us0 evs us o,
  evolve_corr (GCase m el mi us0 evs us o) = true -> ObsSpec m us o.
Proof. exact evolve_corr_transfer. Qed.
Print Assumptions C19_evolve_corr_transfer.

(* ------------------------------------------------------------------ non-vacuity *)
(* an uphill move accepted after the best point was seen *)
Example anneal_nonvacuous :
  anneal true 4 5 [AEval 3 false false; AEval 7 true false; AEval 3 false false; AEval 9 false true]
  = Some {| r_id := 1; r_obj := 3; r_evals := 5; r_iters := 4 |}.
Proof. exact anneal_example. Qed.
(* the repaired lns on the witness streams keeps the evaluated 4 although accept said no *)
Example lns_nonvacuous :
  lns true 3 100 5 lns_witness_events = Some {| r_id := 1; r_obj := 4; r_evals := 4; r_iters := 3 |}.
Proof. exact lns_fixed_on_witness. Qed.
Example alns_nonvacuous :
  alns false 5 2 1 [mkL 3 false false; mkL 2 true false; mkL 3 false false]
  = Some {| r_id := 1; r_obj := 3; r_evals := 4; r_iters := 3 |}.
Proof. exact alns_example. Qed.
Example tabu_nonvacuous :
  tabu true 2 10 100 5
    [mkT [(0%nat, 3); (1%nat, 4)] false; mkT [(0%nat, 6); (1%nat, 7)] false;
     mkT [(0%nat, 2); (1%nat, 9)] false; mkT [(0%nat, 8); (1%nat, 8)] false]
  = Some {| r_id := 5; r_obj := 2; r_evals := 9; r_iters := 4 |}.
Proof. exact tabu_example. Qed.
(* no elitism: the best individual leaves the population and survives only in best_solution *)
Example evolve_nonvacuous :
  evolve true 0 2 [4; 1; 3] [mkG [5; 6; 2] false; mkG [1; 7; 7] false]
  = Some {| r_id := 1; r_obj := 1; r_evals := 9; r_iters := 2 |}.
Proof. exact evolve_example. Qed.
