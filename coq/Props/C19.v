(* C19 part A - property theorems (filled in as the proofs land). *)
From Coq Require Import List ZArith Bool Arith.
From SV Require Import C19.Common.
Import ListNotations.

Theorem C19_spec_check_sound : forall m us o, obs_spec_check m us o = true -> ObsSpec m us o.
Proof. exact obs_spec_check_sound. Qed.
Print Assumptions C19_spec_check_sound.
