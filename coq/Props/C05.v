(* C05 - CP Model.solve never returns an assignment that breaks an added constraint (property theorems).

   Model: SV.C05.CpDfs (DFS back-end of solvor/cp.py over the shared syntax SV.C06.CpAst), tied to /repo on
   every run by harness/props/C05.py.  `vo` is the value order (iteration order of a Python set): every theorem
   holds for EVERY value order that lists the values of the domain.  `wf_dfs M` = distinct variable ids and every
   variable of a constraint belongs to the model (what the harness' translation of Model._vars/_constraints
   guarantees); declared domains may be empty (then the answer is INFEASIBLE). *)
From Coq Require Import List ZArith Bool.
From SV Require Import C06.CpAst C06.CpEnc C05.CpDfs C05.CpSpec C05.CpSpecProofs C05.CpLemmas C05.PropSound
  C05.PropMono C05.LeafProofs C05.DfsSound C05.DfsComplete C05.DfsEnum C05.Fuel C05.Hints C05.SatPath C05.Agree C05.CpPinned.
Import ListNotations.
Open Scope Z_scope.

(* (1) no propagator - hence neither a sweep nor the fixpoint - removes a value that occurs in a solution of
   the constraints inside the current domains, and none reports inconsistency when such a solution exists *)
Theorem C05_prop_one_sound : forall (s : asgn) (c : cstr) (ds : doms),
  in_ds s ds -> cvars_in c ds -> holds s c ->
  exists ds', prop_one c ds = Some ds' /\ in_ds s ds'.
Proof. exact prop_one_sound. Qed.
Print Assumptions C05_prop_one_sound.

Theorem C05_prop_sound : forall (s : asgn) (cs : list cstr) (ds : doms),
  in_ds s ds -> (forall c, In c cs -> cvars_in c ds /\ holds s c) ->
  propagate cs ds <> PFail /\ forall ds', propagate cs ds = POk ds' -> in_ds s ds' /\ dkeys ds' = dkeys ds.
Proof. exact prop_sound. Qed.
Print Assumptions C05_prop_sound.

(* (2) when all domains are singletons {s i} and propagation succeeded, every constraint of a kind the DFS
   handles holds under s ("a constraint is always evaluated once fully assigned") *)
Theorem C05_leaf_checked : forall (s : asgn) (cs : list cstr) (ds0 ds : doms),
  propagate cs ds0 = POk ds -> matches s ds ->
  (forall c, In c cs -> cvars_in c ds0 /\ dfs_supported c = true) ->
  forall c, In c cs -> holds s c.
Proof. exact leaf_checked. Qed.
Print Assumptions C05_leaf_checked.

(* (3) every solution the DFS returns - any value order, any solution_limit, any hints - is the projection
   of an assignment inside the declared domains that satisfies every added constraint *)
Theorem C05_dfs_sound : forall (vo : list Z -> list Z) (M : cpmodel) (hints : list (nat * Z)) (limit : Z) (sols : list sol),
  wf_dfs M = true -> (forall d, incl (vo d) d) ->
  solve vo M hints limit = RSols sols -> forall x, In x sols -> answer_valid M x.
Proof. exact dfs_sound. Qed.
Print Assumptions C05_dfs_sound.

(* (4) INFEASIBLE only if no assignment exists (any limit, any hints) ... *)
Theorem C05_dfs_complete_infeasible : forall (vo : list Z -> list Z) (M : cpmodel) (hints : list (nat * Z)) (limit : Z),
  wf_dfs M = true -> (forall d, incl d (vo d)) ->
  solve vo M hints limit = RSols [] -> no_solution M.
Proof. exact dfs_infeasible. Qed.
Print Assumptions C05_dfs_complete_infeasible.

(* ... and when the limit is not reached (solution_limit = "infinity") every solution - projected on the named
   variables - is returned, exactly once; in particular for models whose variables are all named every solution
   is returned exactly once.  Hidden ("_") variables are searched, one completion per answer. *)
Theorem C05_dfs_complete_enum : forall (vo : list Z -> list Z) (M : cpmodel) (limit : Z) (sols : list sol),
  wf_dfs M = true -> (forall d, incl (vo d) d) -> (forall d, incl d (vo d)) -> (forall d, NoDup d -> NoDup (vo d)) ->
  solve vo M [] limit = RSols sols -> Z.of_nat (length sols) < limit ->
  NoDup sols /\ forall a, cp_solution M a -> In (project M a) sols.
Proof. exact dfs_enumerates. Qed.
Print Assumptions C05_dfs_complete_enum.

(* the model never runs out of fuel: on a DFS-supported model the answer is INFEASIBLE or solutions, all of them
   valid, and INFEASIBLE exactly when no assignment exists - for every value order, limit and hint dictionary *)
Theorem C05_dfs_never_out_of_fuel : forall vo M hints limit, wf_dfs M = true -> solve vo M hints limit <> RFuel.
Proof. exact solve_fuel. Qed.
Print Assumptions C05_dfs_never_out_of_fuel.

Theorem C05_dfs_verdict : forall vo M hints limit,
  wf_dfs M = true -> existsb sat_required (m_cons M) = false ->
  (forall d, incl (vo d) d) -> (forall d, incl d (vo d)) ->
  exists sols, solve vo M hints limit = RSols sols
    /\ (forall x, In x sols -> answer_valid M x)
    /\ (sols = [] <-> no_solution M).
Proof. exact dfs_verdict. Qed.
Print Assumptions C05_dfs_verdict.

(* (5) hints only restrict; the retry makes the verdict independent of the hints (and of solution_limit) *)
Theorem C05_hints_restrict : forall vo M hints limit sols,
  wf_dfs M = true -> (forall d, incl (vo d) d) -> has_empty_dom M = false -> NoDup (map fst hints) ->
  solve_dfs vo M hints limit = RSols sols ->
  forall x, In x sols -> exists a, cp_solution M a /\ project M a = x /\
    forall v val, In v (m_vars M) -> In (vid v, val) hints -> in_dom v val = true -> a (vid v) = val.
Proof. exact hints_restrict. Qed.
Print Assumptions C05_hints_restrict.

Theorem C05_hints : forall vo M h1 l1 s1 h2 l2 s2,
  wf_dfs M = true -> (forall d, incl (vo d) d) -> (forall d, incl d (vo d)) ->
  solve vo M h1 l1 = RSols s1 -> solve vo M h2 l2 = RSols s2 -> (s1 = [] <-> s2 = []).
Proof. exact hints_verdict. Qed.
Print Assumptions C05_hints.

(* (6) SAT path = C06 o C01, a closed implication *)
Theorem C05_sat_path : forall (M : cpmodel) (sat_answer : option asg),
  (forall b, models b (fst (encode M)) -> cp_solution M (dec_asgn (m_vars M) b)) ->
  (forall b, sat_answer = Some b -> models b (fst (encode M))) ->
  forall b, sat_answer = Some b -> answer_valid M (project M (dec_asgn (m_vars M) b)).
Proof. exact sat_path_sound. Qed.
Print Assumptions C05_sat_path.

Theorem C05_sat_path_infeasible : forall (M : cpmodel) (sat_answer : option asg),
  (forall a, cp_solution M a -> exists b, models b (fst (encode M))) ->
  (sat_answer = None -> forall b, ~ models b (fst (encode M))) ->
  sat_answer = None -> no_solution M.
Proof. exact sat_path_infeasible. Qed.
Print Assumptions C05_sat_path_infeasible.

(* corollary: the two back-ends agree on satisfiability (DFS side proved, SAT side under the C06 / C01 premises) *)
Theorem C05_backends_agree : forall (vo : list Z -> list Z) (M : cpmodel) (hints : list (nat * Z)) (limit : Z)
    (sat_answer : option asg) (sols : list sol),
  wf_dfs M = true -> (forall d, incl (vo d) d) -> (forall d, incl d (vo d)) ->
  (forall b, models b (fst (encode M)) -> cp_solution M (dec_asgn (m_vars M) b)) ->
  (forall a, cp_solution M a -> exists b, models b (fst (encode M))) ->
  (forall b, sat_answer = Some b -> models b (fst (encode M))) ->
  (sat_answer = None -> forall b, ~ models b (fst (encode M))) ->
  solve vo M hints limit = RSols sols ->
  (sols = [] <-> sat_answer = None).
Proof. exact backends_agree. Qed.
Print Assumptions C05_backends_agree.

(* (6') the same with C06's theorems plugged in (SV.C06.EncModel.encode_sound / encode_complete, every constraint
   kind, under C06's wf_model): only C01's statement about the SAT answer on this clause list remains a premise *)
Theorem C05_sat_path_c06 : forall (M : cpmodel) (sat_answer : option asg),
  wf_model M = true ->
  (forall b, sat_answer = Some b -> models b (fst (encode M))) ->
  (sat_answer = None -> forall b, ~ models b (fst (encode M))) ->
  (forall b, sat_answer = Some b -> answer_valid M (project M (dec_asgn (m_vars M) b)))
  /\ (sat_answer = None -> no_solution M).
Proof. exact sat_path_with_c06. Qed.
Print Assumptions C05_sat_path_c06.

Theorem C05_backends_agree_c06 : forall (vo : list Z -> list Z) (M : cpmodel) (hints : list (nat * Z)) (limit : Z)
    (sat_answer : option asg) (sols : list sol),
  wf_model M = true -> wf_dfs M = true -> (forall d, incl (vo d) d) -> (forall d, incl d (vo d)) ->
  (forall b, sat_answer = Some b -> models b (fst (encode M))) ->
  (sat_answer = None -> forall b, ~ models b (fst (encode M))) ->
  solve vo M hints limit = RSols sols ->
  (sols = [] <-> sat_answer = None).
Proof. exact backends_agree_with_c06. Qed.
Print Assumptions C05_backends_agree_c06.

(* (7) the PINNED dispatcher (unknown shapes fall through as satisfied) breaks the property *)
Theorem C05_dfs_pinned_refuted :
  exists (M : cpmodel) (s : sol), wf_dfs M = true /\ solve_pinned vo_id M [] 1 = RSols [s] /\ ~ answer_valid M s.
Proof.
  exists x_minus_y_eq_2, [(0%nat, 0); (1%nat, 0)].
  split; [vm_compute; reflexivity | split; [exact pinned_answer | exact pinned_answer_invalid]].
Qed.
Print Assumptions C05_dfs_pinned_refuted.

(* the boolean checker that judges every implementation answer inside coqc is sound *)
Theorem C05_spec_check_sound : forall M s, spec_check M s = true -> answer_valid M s.
Proof. exact spec_check_sound. Qed.
Print Assumptions C05_spec_check_sound.

Theorem C05_infeasible_check_sound : forall M, wf_dfs M = true -> infeasible_check M = true -> no_solution M.
Proof. exact infeasible_check_sound. Qed.
Print Assumptions C05_infeasible_check_sound.

(* ---------------------------------------------------------------- non-vacuity *)
Definition ex_x : var := mkVar 0 0 9 true 1.
Definition ex_y : var := mkVar 1 0 9 true 11.
(* the module docstring example: all_different([x, y]); x + y == 10 *)
Definition ex_doc : cpmodel :=
  mkModel [ex_x; ex_y] [CAllDiff [ex_x; ex_y]; CLin (EAdd (EVar ex_x) (EVar ex_y)) (EConst 10) false] 21.

(* the value orders used by the harness (and their reverse) are duplicate-free listings of the domain *)
Example C05_nonvacuous_vo :
  (forall d, incl (vo_id d) d) /\ (forall d, incl d (vo_id d)) /\ (forall d, NoDup d -> NoDup (vo_id d))
  /\ (forall d, incl (vo_rev d) d) /\ (forall d, incl d (vo_rev d)) /\ (forall d, NoDup d -> NoDup (vo_rev d)).
Proof.
  unfold vo_id, vo_rev. repeat split; intros d; try apply incl_refl; try tauto.
  - intros x H. apply in_rev. exact H.
  - intros x H. apply in_rev in H. exact H.
  - apply NoDup_rev.
Qed.

Example C05_nonvacuous_wf : wf_dfs ex_doc = true.
Proof. vm_compute. reflexivity. Qed.

Example C05_nonvacuous_first : solve vo_id ex_doc [] 1 = RSols [[(0%nat, 1); (1%nat, 9)]].
Proof. vm_compute. reflexivity. Qed.

Example C05_nonvacuous_all : exists sols, solve vo_id ex_doc [] 1000 = RSols sols /\ length sols = 8%nat
  /\ forallb (spec_check ex_doc) sols = true.
Proof. eexists. split; [vm_compute; reflexivity | split; vm_compute; reflexivity]. Qed.

Example C05_nonvacuous_infeasible :
  solve vo_rev (mkModel [ex_x] [CAllDiff [ex_x; ex_x]] 11) [(0%nat, 3)] 5 = RSols [].
Proof. vm_compute. reflexivity. Qed.

Example C05_nonvacuous_hint_retry :
  solve vo_id (mkModel [ex_x] [CNeConst ex_x 0] 11) [(0%nat, 0)] 1 = RSols [[(0%nat, 1)]].
Proof. vm_compute. reflexivity. Qed.

(* the pinned dispatcher on the docstring example: x = 0, y = 1 (x + y == 10 ignored), as observed on the pinned tree *)
Example C05_pinned_docstring_example : solve_pinned vo_id ex_doc [] 1 = RSols [[(0%nat, 0); (1%nat, 1)]].
Proof. vm_compute. reflexivity. Qed.

(* a hidden variable: x + _ == 5 over 0..3 has the named answers x = 2 and x = 3, each returned once *)
Example C05_nonvacuous_hidden :
  let x := mkVar 0 0 3 true 1 in let h := mkVar 1 0 3 false 5 in
  solve vo_id (mkModel [x; h] [CLin (EAdd (EVar x) (EVar h)) (EConst 5) false] 9) [] 1000 = RSols [[(0%nat, 2)]; [(0%nat, 3)]].
Proof. vm_compute. reflexivity. Qed.

Example C05_nonvacuous_fixed : solve vo_id x_minus_y_eq_2 [] 1 = RSols [[(0%nat, 2); (1%nat, 0)]].
Proof. exact fixed_answer. Qed.
