(* C14 - property theorems (placeholder while the proofs are being built) *)
From Coq Require Import List Arith.
From SV Require Import C14.Scc C14.SccSpec.
Import ListNotations.

Example C14_model_example :
  scc [(0,[1]);(1,[2]);(2,[0;3]);(3,[4]);(4,[3])] [0;1;2;3;4] = Some [[4;3];[2;1;0]].
Proof. vm_compute. reflexivity. Qed.
