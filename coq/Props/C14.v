(* C14 - SCC, topological order and condensation match their definitions (solvor/scc.py).
   Model: SV.C14.Scc (the code WITH the fix "SCC ignores neighbours outside the given node set").
   Specification: SV.C14.SccSpec (edge / reach / has_cycle over the subgraph induced by the node list).
   Proved for all graphs, node orders, neighbour orders, self loops, duplicate edges, outside neighbours:
     topological_sort (duplicate-free node list): never out of fuel, order sound, INFEASIBLE iff cycle;
     strongly_connected_components (any node list, duplicates allowed): never out of fuel / no exception, the
       components partition the node list, are exactly the classes of mutual reachability, sinks first;
     condense: edge iff some original edge joins two different components, acyclic (no hypothesis left);
     the boolean checkers scc_check / topo_check / cond_check evaluated by the harness are sound, and the Gallina
       transitive closure they use is sound and complete for the inductive reachability. *)
From Coq Require Import List Arith Bool.
From SV Require Import C14.Scc C14.SccSpec C14.Main C14.SccSpecProofs C14.ClosureComplete.
Import ListNotations.

(* ---------------------------------------------------------------- (1) topological_sort *)
Theorem C14_topo_sound : forall g nodes order,
  nodupb nodes = true -> topological_sort g nodes = Some (Some order) ->
  NoDup order /\ (forall x, In x order <-> In x nodes) /\ length order = length nodes /\
  forall u w, edge g nodes u w -> pos u order < pos w order.
Proof. exact topo_sound. Qed.
Print Assumptions C14_topo_sound.

Theorem C14_topo_fuel_ok : forall g nodes, nodupb nodes = true -> topological_sort g nodes <> None.
Proof. exact topo_fuel_ok. Qed.
Print Assumptions C14_topo_fuel_ok.

Theorem C14_topo_iff_acyclic : forall g nodes,
  nodupb nodes = true -> (topological_sort g nodes = Some None <-> has_cycle g nodes).
Proof. exact topo_iff_acyclic. Qed.
Print Assumptions C14_topo_iff_acyclic.

Theorem C14_topo_edges : forall n edges,
  exists out, topo_edges n edges = Some out /\ topo_spec (graph_of_edges n edges) (seq 0 n) out /\
              (out = None <-> has_cycle (graph_of_edges n edges) (seq 0 n)).
Proof. exact topo_edges_spec. Qed.
Print Assumptions C14_topo_edges.

(* ---------------------------------------------------------------- (2) strongly_connected_components *)
Theorem C14_scc_partition : forall g nodes,
  exists cs, scc g nodes = Some cs /\
    Forall (fun c => c <> []) cs /\ NoDup (concat cs) /\ forall x, In x (concat cs) <-> In x nodes.
Proof. exact scc_partition_thm. Qed.
Print Assumptions C14_scc_partition.

Theorem C14_scc_edges_partition : forall n edges,
  exists cs, scc_edges n edges = Some cs /\ is_partition (seq 0 n) cs.
Proof. exact scc_edges_partition. Qed.
Print Assumptions C14_scc_edges_partition.

(* ---------------------------------------------------------------- (3) condense *)
Theorem C14_condense : forall g nodes cs,
  scc g nodes = Some cs -> scc_classes g nodes cs ->
  exists succs, condense g nodes = Some (cs, succs) /\
    cond_edges_spec g nodes cs succs /\ cond_acyclic succs.
Proof. exact condense_thm. Qed.
Print Assumptions C14_condense.

(* ---------------------------------------------------------------- (4) Tarjan: classes and order *)
Theorem C14_scc_classes : forall g nodes cs,
  scc g nodes = Some cs ->
  forall x y, In x nodes -> In y nodes ->
    ((exists c, In c cs /\ In x c /\ In y c) <-> (reach g nodes x y /\ reach g nodes y x)).
Proof. exact scc_classes_holds. Qed.
Print Assumptions C14_scc_classes.

Theorem C14_scc_order : forall g nodes cs,
  scc g nodes = Some cs ->
  forall i j ci cj u w, nth_error cs i = Some ci -> nth_error cs j = Some cj -> i < j ->
                        In u ci -> In w cj -> ~ edge g nodes u w.
Proof. exact scc_order_holds. Qed.
Print Assumptions C14_scc_order.

Theorem C14_scc_spec : forall g nodes, exists cs, scc g nodes = Some cs /\ scc_spec g nodes cs.
Proof. exact scc_spec_holds. Qed.
Print Assumptions C14_scc_spec.

Theorem C14_scc_edges_spec : forall n edges,
  exists cs, scc_edges n edges = Some cs /\ scc_spec (graph_of_edges n edges) (seq 0 n) cs.
Proof. exact scc_edges_spec. Qed.
Print Assumptions C14_scc_edges_spec.

Theorem C14_condense_spec : forall g nodes,
  exists cs succs, scc g nodes = Some cs /\ condense g nodes = Some (cs, succs) /\
                   scc_spec g nodes cs /\ cond_spec g nodes (cs, succs).
Proof. exact condense_spec_holds. Qed.
Print Assumptions C14_condense_spec.

(* ---------------------------------------------------------------- certificates evaluated per run on /repo's outputs *)
Theorem C14_scc_check_sound : forall g nodes cs, scc_check g nodes cs = true -> scc_spec g nodes cs.
Proof. exact scc_check_sound. Qed.
Print Assumptions C14_scc_check_sound.

Theorem C14_topo_check_sound : forall g nodes out, topo_check g nodes out = true -> topo_spec g nodes out.
Proof. exact topo_check_sound. Qed.
Print Assumptions C14_topo_check_sound.

Theorem C14_cond_check_sound : forall g nodes out, cond_check g nodes out = true -> cond_spec g nodes out.
Proof. exact cond_check_sound. Qed.
Print Assumptions C14_cond_check_sound.

(* the Gallina transitive closure used by the certificates is exactly the inductive reachability *)
Theorem C14_reach_closure_correct : forall g nodes s x, reachb g nodes s x = true <-> reach g nodes s x.
Proof. exact reachb_reach. Qed.
Print Assumptions C14_reach_closure_correct.

Theorem C14_has_cycleb_correct : forall g nodes, has_cycleb g nodes = true <-> has_cycle g nodes.
Proof. exact has_cycleb_iff. Qed.
Print Assumptions C14_has_cycleb_correct.

(* ---------------------------------------------------------------- non-vacuity *)
Definition ex_g : graph := [(0,[1]); (1,[2;1]); (2,[0;3;9]); (3,[4;4]); (4,[3]); (5,[3]); (9,[0])].
Definition ex_nodes : list nat := [5;0;1;2;3;4].

Example C14_scc_example : scc ex_g ex_nodes = Some [[4;3]; [5]; [2;1;0]].
Proof. vm_compute. reflexivity. Qed.
Example C14_scc_check_example : scc_check ex_g ex_nodes [[4;3]; [5]; [2;1;0]] = true.
Proof. vm_compute. reflexivity. Qed.
Example C14_scc_check_rejects_example : scc_check ex_g ex_nodes [[5]; [4;3]; [2;1]; [0]] = false.
Proof. vm_compute. reflexivity. Qed.
Example C14_condense_example : condense ex_g ex_nodes = Some ([[4;3]; [5]; [2;1;0]], [[]; [0]; [0]]).
Proof. vm_compute. reflexivity. Qed.
Example C14_topo_infeasible_example : nodupb ex_nodes = true /\ topological_sort ex_g ex_nodes = Some None.
Proof. vm_compute. split; reflexivity. Qed.
Example C14_topo_order_example :
  nodupb [3;2;1;0] = true /\ topological_sort [(0,[1;2;7]); (1,[2;2]); (3,[0])] [3;2;1;0] = Some (Some [3;0;1;2]).
Proof. vm_compute. split; reflexivity. Qed.
Example C14_topo_check_example :
  topo_check [(0,[1;2;7]); (1,[2;2]); (3,[0])] [3;2;1;0] (Some [3;0;1;2]) = true /\
  topo_check [(0,[1;2;7]); (1,[2;2]); (3,[0])] [3;2;1;0] (Some [3;1;0;2]) = false /\
  topo_check ex_g ex_nodes None = true.
Proof. vm_compute. repeat split; reflexivity. Qed.
Example C14_cond_check_example : cond_check ex_g ex_nodes ([[4;3]; [5]; [2;1;0]], [[]; [0]; [0]]) = true.
Proof. vm_compute. reflexivity. Qed.
