(* C11 part B (dijkstra, astar, astar_grid) - property theorems.  Filled in as the proofs land. *)
From Coq Require Import List ZArith Bool.
From SV Require Import C11.BestFirst C11.BestGrid C11.BestSpec.
Import ListNotations.
