(* C11 part B (dijkstra, astar, astar_grid + reconstruct_path) - property theorems.
   Models: C11/BestFirst.v (generic closed-set best-first loop; dijkstra_gen / astar_gen over Z),
           C11/BestGrid.v (astar_grid over exact Z[sqrt 2]).  `fuel` is the explicit loop bound of the model:
   every theorem holds for ANY fuel whenever the model returns a result (Some r); fuel exhaustion is None. *)
From Coq Require Import List ZArith Bool.
From SV Require Import C11.Paths C11.BestFirst C11.BestGrid C11.BestSpec C11.BestGraph
  C11.BestSpecProofs C11.BestOrder C11.BestHyps C11.BestProofs1 C11.BestProofs2 C11.BestProofsInst C11.BestProofs4 C11.BestProofs5 C11.BestZr2 C11.BestGridProofs C11.BestProofs6.
Import ListNotations.
Open Scope Z_scope.

(* (1) A returned path starts at the source, ends at a goal node, uses only existing edges and its weights sum to
   the reported objective; without a path the objective is inf and the status INFEASIBLE / MAX_ITER.
   Any weights (also negative), any heuristic, any weight factor, any limits, goal given as a set of nodes. *)
Theorem C11_best_path_valid :
  (forall fuel adj start goals max_iter max_cost r,
     dijkstra_gen fuel adj start goals max_iter max_cost = Some r -> graph_res_ok adj start goals OPTIMAL r)
  /\ (forall fuel adj start goals htab weight max_iter max_cost r,
     astar_gen fuel adj start goals htab weight max_iter max_cost = Some r ->
     graph_res_ok adj start goals (if weight =? 1 then OPTIMAL else FEASIBLE) r)
  /\ (forall g start goal directions h blocked cost_map weight max_iter r,
     astar_grid_zr g start goal directions h blocked cost_map weight max_iter = Some r ->
     grid_res_ok g start goal directions blocked cost_map weight r).
Proof. exact (conj dijkstra_path_valid (conj astar_path_valid astar_grid_path_valid)). Qed.
Print Assumptions C11_best_path_valid.

(* the same for the generic loop, any node type / cost type / heap key (this is what covers the float twin) *)
Theorem C11_best_path_valid_generic :
  forall (N C K : Type) (neqb : N -> N -> bool), (forall a b, neqb a b = true <-> a = b) ->
  forall czero cadd cltb (kltb : K -> K -> bool) mkkey limit_of found nbrs is_goal max_iter max_cost (start : N) fuel
         (r : result N C),
    best_first neqb czero cadd cltb kltb mkkey limit_of found nbrs is_goal max_iter max_cost fuel start = Some r ->
    res_ok czero cadd found nbrs is_goal start r.
Proof. exact (@best_first_path_valid). Qed.
Print Assumptions C11_best_path_valid_generic.

(* (2) INFEASIBLE (possible only when the heap ran empty before max_iter) with no max_cost limit:
   no goal node is reachable from the start. *)
Theorem C11_best_infeasible_sound :
  (forall fuel adj start goals max_iter r,
     dijkstra_gen fuel adj start goals max_iter None = Some r -> r_status r = INFEASIBLE ->
     no_goal_reachable adj start goals)
  /\ (forall fuel adj start goals htab weight max_iter r,
     astar_gen fuel adj start goals htab weight max_iter None = Some r -> r_status r = INFEASIBLE ->
     no_goal_reachable adj start goals)
  /\ (forall g start goal directions h blocked cost_map weight max_iter r,
     astar_grid_zr g start goal directions h blocked cost_map weight max_iter = Some r -> r_status r = INFEASIBLE ->
     unreachable_goal zr_add (zr_grid_nbrs g directions blocked cost_map) (cell_eqb goal) start).
Proof. exact (conj dijkstra_infeasible_sound (conj astar_infeasible_sound astar_grid_infeasible_sound)). Qed.
Print Assumptions C11_best_infeasible_sound.

(* the boolean checker run on the IMPLEMENTATION's outputs (Cases/C11/best_*_spec_*.v) decides the path spec *)
Theorem C11_best_spec_check_sound :
  forall (N C : Type) (neqb : N -> N -> bool), (forall a b, neqb a b = true -> a = b) ->
  forall cadd nbrs (D : Type) (dok : D -> C -> bool) czero start is_goal (o : obs N D),
    result_check neqb cadd nbrs dok czero start is_goal o = true ->
    result_spec_gen cadd nbrs dok czero start is_goal o.
Proof. exact (@result_check_sound). Qed.
Print Assumptions C11_best_spec_check_sound.

(* (3) Optimality.  Non-negative weights (nonneg_adj, boolean) and - for astar with weight 1 - a heuristic table that
   is consistent on the graph and 0 on the goal nodes (consistent_adj, boolean): the reported objective is <= the
   weight of EVERY walk from the start to ANY goal node whose weight is within max_cost (all walks if no max_cost),
   and INFEASIBLE means no such walk exists.  (Beyond max_cost the code may return a longer path: not claimed.) *)
Theorem C11_bestfirst_optimal :
  (forall fuel adj start goals max_iter max_cost r,
     nonneg_adj adj = true ->
     dijkstra_gen fuel adj start goals max_iter max_cost = Some r -> graph_opt_ok adj start goals max_cost r)
  /\ (forall fuel adj start goals htab max_iter max_cost r,
     nonneg_adj adj = true -> consistent_adj adj goals htab = true ->
     astar_gen fuel adj start goals htab 1 max_iter max_cost = Some r -> graph_opt_ok adj start goals max_cost r).
Proof. exact (conj dijkstra_optimal astar_optimal). Qed.
Print Assumptions C11_bestfirst_optimal.

(* with (1): without max_cost the objective IS the shortest-walk distance (C11.Paths.is_dist) to the goal node
   the returned path ends in, and no goal node is nearer *)
Theorem C11_bestfirst_is_dist : forall adj start goals (r : result nat Z) found,
  graph_res_ok adj start goals found r -> graph_opt_ok adj start goals None r ->
  forall d0, r_obj r = Some d0 ->
  exists t p, r_path r = Some p /\ goal_in goals t = true /\ is_dist (adj_edges adj) start t d0
              /\ forall t' d', goal_in goals t' = true -> is_dist (adj_edges adj) start t' d' -> d0 <= d'.
Proof. exact best_is_dist. Qed.
Print Assumptions C11_bestfirst_is_dist.

(* the generic statement: any node type, any totally ordered cost monoid (ordered_costs), any heap key whose
   order refines the f-values: this is the theorem instantiated above, and for Z[sqrt 2] below *)
Theorem C11_bestfirst_optimal_generic :
  forall (N C : Type) (neqb : N -> N -> bool), (forall a b, neqb a b = true <-> a = b) ->
  forall czero cadd cltb, ordered_costs czero cadd cltb ->
  forall nbrs is_goal max_iter max_cost (start : N),
    (forall u v w, In (v, w) (nbrs u) -> cle cltb czero w) ->
  forall wh : N -> C,
    (forall u v w, In (v, w) (nbrs u) -> cle cltb (wh u) (cadd w (wh v))) ->
    (forall t, is_goal t = true -> wh t = czero) ->
  forall found fuel r, found <> INFEASIBLE ->
    astar_c neqb czero cadd cltb wh found nbrs is_goal max_iter max_cost fuel start = Some r ->
    opt_res czero cadd cltb nbrs is_goal max_cost start r.
Proof. exact (@astar_c_optimal). Qed.
Print Assumptions C11_bestfirst_optimal_generic.

(* (4) The grid.  Z[sqrt 2] with the exact order used by the grid model is a totally ordered commutative monoid
   (needs: sqrt 2 irrational, positives closed under +), the built-in heuristics are consistent on the exact grid
   graph when all terrain costs are >= 1 (costs_ge1, boolean): manhattan with 4 directions, octile and chebyshev
   with 4 and 8 directions (heur_ok, boolean; "auto" resolves to manhattan / octile), hence astar_grid with
   weight 1 returns an objective <= the weight of every walk from start to goal in the grid graph, and INFEASIBLE
   means the goal is unreachable.  (euclidean is not representable in Z[sqrt 2]: harness-only.) *)
Theorem C11_zr2_ordered : ordered_costs zr_zero zr_add zr_ltb.
Proof. exact zr2_ordered_costs. Qed.
Print Assumptions C11_zr2_ordered.

Theorem C11_grid_heuristics_consistent : forall g directions blocked cost_map goal hn x,
  costs_ge1 cost_map = true -> heur_ok directions hn = true ->
  forall u v w, In (v, w) (zr_grid_nbrs g directions blocked cost_map u) ->
    zr_heur hn goal u = Some x ->
    exists y, zr_heur hn goal v = Some y /\ cle zr_ltb x (zr_add w y).
Proof. exact grid_consistent. Qed.
Print Assumptions C11_grid_heuristics_consistent.

Theorem C11_astar_grid_optimal : forall g start goal directions h blocked cost_map max_iter r,
  costs_ge1 cost_map = true -> heur_ok directions (resolve_h directions h) = true ->
  astar_grid_zr g start goal directions h blocked cost_map 1 max_iter = Some r ->
  opt_res zr_zero zr_add zr_ltb (zr_grid_nbrs g directions blocked cost_map) (cell_eqb goal) None start r.
Proof. exact astar_grid_optimal. Qed.
Print Assumptions C11_astar_grid_optimal.

(* (5) Totality of the graph models: with the built-in fuel (2 + number of edges) dijkstra / astar always return a
   result - the loop terminates, g[current] is always bound, reconstruct_path always reaches the root - so the
   theorems above are never vacuous for graph inputs.  (For the grid model the same is checked on every generated
   case by the correspondence lemmas, not proved.) *)
Theorem C11_best_total :
  (forall adj start goals max_iter max_cost, exists r, dijkstra adj start goals max_iter max_cost = Some r)
  /\ (forall adj start goals htab weight max_iter max_cost,
        exists r, astar adj start goals htab weight max_iter max_cost = Some r).
Proof. exact (conj dijkstra_total astar_total). Qed.
Print Assumptions C11_best_total.

(* ---- non-vacuity ---- *)
Definition diamond : adjacency := [[(1%nat, 4); (2%nat, 1)]; [(3%nat, 1)]; [(1%nat, 2); (3%nat, 5)]; []].

Example C11_best_nonvacuous_dijkstra :
  obs_of (dijkstra diamond 0 [3%nat] 1000000 None) = Some (OPTIMAL, Some [0; 2; 1; 3]%nat, Some 4).
Proof. vm_compute. reflexivity. Qed.

Example C11_best_nonvacuous_astar :
  obs_of (astar diamond 0 [3%nat] [3; 1; 2; 0] 1 1000000 (Some 10)) = Some (OPTIMAL, Some [0; 2; 1; 3]%nat, Some 4).
Proof. vm_compute. reflexivity. Qed.

Example C11_best_nonvacuous_infeasible :
  obs_of (dijkstra [[(1%nat, 2)]; []; [(1%nat, 1)]] 0 [2%nat] 1000000 None) = Some (INFEASIBLE, None, None).
Proof. vm_compute. reflexivity. Qed.

Example C11_best_nonvacuous_grid :
  obs_of (astar_grid_zr [[0; 0; 0]; [0; 1; 0]; [0; 0; 0]] (0, 0) (2, 2) 8 Hauto [1] [] 1 1000000)
  = Some (OPTIMAL, Some [(0, 0); (0, 1); (1, 2); (2, 2)], Some (2, 1)).
Proof. vm_compute. reflexivity. Qed.

Example C11_best_nonvacuous_inputs :
  nonneg_adj diamond = true /\ consistent_adj diamond [3%nat] [3; 1; 2; 0] = true
  /\ consistent_adj diamond [3%nat] [0; 9; 0; 0] = false.
Proof. vm_compute. auto. Qed.

Example C11_best_nonvacuous_grid_inputs :
  costs_ge1 [(2, 3); (0, 1)] = true /\ heur_ok 8 (resolve_h 8 Hauto) = true /\ heur_ok 4 (resolve_h 4 Hauto) = true
  /\ heur_ok 8 Hmanhattan = false.
Proof. vm_compute. auto. Qed.

(* why heur_ok excludes manhattan with 8 directions (it overestimates diagonal moves): the model - and the code, see
   corpus/C11/best_note_manhattan8.json - returns 3 + sqrt 2 with status OPTIMAL although 1 + 2 sqrt 2 is possible *)
Example C11_best_grid_manhattan8_witness :
  let g := [[0; 0; 0]; [0; 1; 0]; [1; 0; 0]; [0; 0; 0]] in
  obs_of (astar_grid_zr g (0, 0) (3, 2) 8 Hmanhattan [1] [] 1 1000000)
    = Some (OPTIMAL, Some [(0, 0); (0, 1); (1, 2); (2, 2); (3, 2)], Some (3, 1))
  /\ path_check cell_eqb zr_add (zr_grid_nbrs g 8 [1] []) zr_zero (0, 0) (cell_eqb (3, 2))
       [(0, 0); (1, 0); (2, 1); (3, 2)] (zr_eqb (1, 2)) = true
  /\ zr_ltb (1, 2) (3, 1) = true.
Proof. vm_compute. auto. Qed.
