(* C19 part B - property theorems: differential_evolution, particle_swarm, nelder_mead, bayesian_opt report the
   best point they evaluated (objective in the user's sign, evaluations = objective calls, max f mirrors min -f,
   clipped points in bounds); powell / bfgs / lbfgs report the objective of exactly the point they return.

   Reading guide.  `us` is the list of the user's objective values f(x) in call order; a point's identity is the
   index of the call that evaluated it (the harness matches it by value against the logged copy).  A run of a
   machine returns `Some result` (None = the modelled call raises, or the recorded stream is too short); every
   theorem holds for EVERY stream `us` and every oracle (conv / cb / lens / bt: decisions that depend on float
   arithmetic or on the user's callback), i.e. for every objective function, seed and schedule. *)
From Coq Require Import List ZArith QArith Bool Arith Lia.
From SV Require Import C19.B_Common C19.B_DE C19.B_PSO C19.B_NM C19.B_Bayes C19.B_Flow C19.B_Powell C19.B_Bounds C19.B_Spec
     C19.B_ProofsCommon C19.B_ProofsBounds C19.B_Theorems.
Import ListNotations.
Open Scope Z_scope.

(* ------------------------------------------------------------------ differential_evolution *)
Theorem best_is_min_de : forall minimize population_size max_iter conv cb interval us r,
  de_run minimize population_size max_iter conv cb interval us = Some r ->
  forall k v, (k < r_evals r)%nat -> nth_error us k = Some v -> if minimize then r_obj r <= v else v <= r_obj r.
Proof. exact de_best_is_min. Qed.
Print Assumptions best_is_min_de.

Theorem best_is_f_de : forall minimize population_size max_iter conv cb interval us r,
  de_run minimize population_size max_iter conv cb interval us = Some r ->
  nth_error us (r_sol r) = Some (r_obj r).
Proof. exact de_best_is_f. Qed.
Print Assumptions best_is_f_de.

Theorem evals_count_de : forall minimize population_size max_iter conv cb interval us r st,
  de_run_st minimize population_size max_iter conv cb interval us = Some (r, st) ->
  r_evals r = evals st /\ (r_evals r + length (rest st) = length us)%nat.
Proof. exact de_evals_count. Qed.
Print Assumptions evals_count_de.

Theorem mirror_de : forall population_size max_iter conv cb interval us,
  de_run false population_size max_iter conv cb interval us
  = option_map neg_res (de_run true population_size max_iter conv cb interval (map Z.opp us)).
Proof. exact de_mirror. Qed.
Print Assumptions mirror_de.

(* ------------------------------------------------------------------ particle_swarm *)
Theorem best_is_min_pso : forall minimize n_particles max_iter cb interval us r,
  pso_run minimize n_particles max_iter cb interval us = Some r ->
  forall k v, (k < r_evals r)%nat -> nth_error us k = Some v -> if minimize then r_obj r <= v else v <= r_obj r.
Proof. exact pso_best_is_min. Qed.
Print Assumptions best_is_min_pso.

Theorem best_is_f_pso : forall minimize n_particles max_iter cb interval us r,
  pso_run minimize n_particles max_iter cb interval us = Some r ->
  nth_error us (r_sol r) = Some (r_obj r).
Proof. exact pso_best_is_f. Qed.
Print Assumptions best_is_f_pso.

Theorem evals_count_pso : forall minimize n_particles max_iter cb interval us r st,
  pso_run_st minimize n_particles max_iter cb interval us = Some (r, st) ->
  r_evals r = evals st /\ (r_evals r + length (rest st) = length us)%nat.
Proof. exact pso_evals_count. Qed.
Print Assumptions evals_count_pso.

Theorem mirror_pso : forall n_particles max_iter cb interval us,
  pso_run false n_particles max_iter cb interval us
  = option_map neg_res (pso_run true n_particles max_iter cb interval (map Z.opp us)).
Proof. exact pso_mirror. Qed.
Print Assumptions mirror_pso.

(* ------------------------------------------------------------------ nelder_mead (first argument true = the code
   after `fix: nelder_mead early stop returns the best vertex`; false = the pinned code) *)
Theorem best_is_min_nelder_mead : forall minimize n max_iter tolc cb interval us r,
  nm_run true minimize n max_iter tolc cb interval us = Some r ->
  forall k v, (k < r_evals r)%nat -> nth_error us k = Some v -> if minimize then r_obj r <= v else v <= r_obj r.
Proof. exact nm_best_is_min. Qed.
Print Assumptions best_is_min_nelder_mead.

Theorem best_is_f_nelder_mead : forall minimize n max_iter tolc cb interval us r,
  nm_run true minimize n max_iter tolc cb interval us = Some r ->
  nth_error us (r_sol r) = Some (r_obj r).
Proof. exact nm_best_is_f. Qed.
Print Assumptions best_is_f_nelder_mead.

Theorem evals_count_nelder_mead : forall minimize n max_iter tolc cb interval us r st,
  nm_run_st true minimize n max_iter tolc cb interval us = Some (r, st) ->
  r_evals r = evals st /\ (r_evals r + length (rest st) = length us)%nat.
Proof. exact nm_evals_count. Qed.
Print Assumptions evals_count_nelder_mead.

Theorem mirror_nelder_mead : forall early_best n max_iter tolc cb interval us,
  nm_run early_best false n max_iter tolc cb interval us
  = option_map neg_res (nm_run early_best true n max_iter tolc cb interval (map Z.opp us)).
Proof. exact nm_mirror. Qed.
Print Assumptions mirror_nelder_mead.

(* the pinned early return (simplex[0] before re-sorting) violated best_is_min:
   nelder_mead(lambda x: 100*x[0], [1.0], on_progress=lambda p: True, progress_interval=1) *)
Theorem nelder_mead_pinned_refuted :
  exists minimize n max_iter tolc cb interval us r,
    nm_run false minimize n max_iter tolc cb interval us = Some r /\
    ~ (forall k v, (k < r_evals r)%nat -> nth_error us k = Some v -> if minimize then r_obj r <= v else v <= r_obj r).
Proof. exact nm_pinned_refuted. Qed.
Print Assumptions nelder_mead_pinned_refuted.

(* ------------------------------------------------------------------ bayesian_opt *)
Theorem best_is_min_bayesian : forall minimize n_initial max_iter cb interval us r,
  bo_run minimize n_initial max_iter cb interval us = Some r ->
  forall k v, (k < r_evals r)%nat -> nth_error us k = Some v -> if minimize then r_obj r <= v else v <= r_obj r.
Proof. exact bo_best_is_min. Qed.
Print Assumptions best_is_min_bayesian.

Theorem best_is_f_bayesian : forall minimize n_initial max_iter cb interval us r,
  bo_run minimize n_initial max_iter cb interval us = Some r ->
  nth_error us (r_sol r) = Some (r_obj r).
Proof. exact bo_best_is_f. Qed.
Print Assumptions best_is_f_bayesian.

Theorem evals_count_bayesian : forall minimize n_initial max_iter cb interval us r st,
  bo_run_st minimize n_initial max_iter cb interval us = Some (r, st) ->
  r_evals r = evals st /\ (r_evals r + length (rest st) = length us)%nat.
Proof. exact bo_evals_count. Qed.
Print Assumptions evals_count_bayesian.

Theorem mirror_bayesian : forall n_initial max_iter cb interval us,
  bo_run false n_initial max_iter cb interval us
  = option_map neg_res (bo_run true n_initial max_iter cb interval (map Z.opp us)).
Proof. exact bo_mirror. Qed.
Print Assumptions mirror_bayesian.

(* ------------------------------------------------------------------ powell, bfgs, lbfgs *)
Theorem objective_is_f_powell : forall minimize n max_iter ls conv moved cb interval us r,
  powell_run minimize n max_iter ls conv moved cb interval us = Some r ->
  nth_error us (r_sol r) = Some (r_obj r).
Proof. exact powell_objective_is_f. Qed.
Print Assumptions objective_is_f_powell.

Theorem objective_is_f_bfgs : forall max_iter conv bt cb interval us r,
  bfgs_run max_iter conv bt cb interval us = Some r ->
  nth_error us (r_sol r) = Some (r_obj r).
Proof. exact bfgs_objective_is_f. Qed.
Print Assumptions objective_is_f_bfgs.

Theorem objective_is_f_lbfgs : forall max_iter conv bt cb interval us r,
  lbfgs_run max_iter conv bt cb interval us = Some r ->
  nth_error us (r_sol r) = Some (r_obj r).
Proof. exact lbfgs_objective_is_f. Qed.
Print Assumptions objective_is_f_lbfgs.

(* ------------------------------------------------------------------ in_bounds (DE, PSO, bayesian_opt) *)
Theorem in_bounds : forall bounds x,
  valid_bounds bounds -> bounded_point bounds x -> in_box bounds x.
Proof. exact bounded_point_in_box. Qed.
Print Assumptions in_bounds.

(* ------------------------------------------------------------------ the machines satisfy the specification whose
   boolean checker (B_Spec.spec1_check, sound by spec1_check_sound) judges the implementation's outputs:
   a complete run (all recorded objective calls consumed) returns f(solution), the best of all calls, and
   evaluations = number of calls *)
Theorem spec_de : forall minimize population_size max_iter conv cb interval us r st,
  de_run_st minimize population_size max_iter conv cb interval us = Some (r, st) -> rest st = [] ->
  Spec1 minimize us [r_sol r] (r_obj r) (r_evals r).
Proof. exact de_spec. Qed.
Print Assumptions spec_de.
Theorem spec_pso : forall minimize n_particles max_iter cb interval us r st,
  pso_run_st minimize n_particles max_iter cb interval us = Some (r, st) -> rest st = [] ->
  Spec1 minimize us [r_sol r] (r_obj r) (r_evals r).
Proof. exact pso_spec. Qed.
Print Assumptions spec_pso.
Theorem spec_nelder_mead : forall minimize n max_iter tolc cb interval us r st,
  nm_run_st true minimize n max_iter tolc cb interval us = Some (r, st) -> rest st = [] ->
  Spec1 minimize us [r_sol r] (r_obj r) (r_evals r).
Proof. exact nm_spec. Qed.
Print Assumptions spec_nelder_mead.
Theorem spec_bayesian : forall minimize n_initial max_iter cb interval us r st,
  bo_run_st minimize n_initial max_iter cb interval us = Some (r, st) -> rest st = [] ->
  Spec1 minimize us [r_sol r] (r_obj r) (r_evals r).
Proof. exact bo_spec. Qed.
Print Assumptions spec_bayesian.
Theorem spec_check_sound : forall minimize us ids obj evaluations,
  spec1_check minimize us ids obj evaluations = true -> Spec1 minimize us ids obj evaluations.
Proof. exact spec1_check_sound. Qed.
Print Assumptions spec_check_sound.

(* ------------------------------------------------------------------ non-vacuity *)
(* DE: 4 slots, 2 generations, the best (value 1, call 7) is followed by worse accepted trials *)
Example de_example :
  de_run true 4 2 (fun _ => false) None 0 [5; 3; 4; 6;  7; 2; 9; 1;  0; 8; 8; 1]
  = Some (mkR 8 0 2 12 MAX_ITER).
Proof. vm_compute. reflexivity. Qed.
Example de_example_max :
  de_run false 4 2 (fun _ => false) None 0 [5; 3; 4; 6;  7; 2; 9; 1;  0; 8; 8; 1]
  = Some (mkR 6 9 2 12 MAX_ITER).
Proof. vm_compute. reflexivity. Qed.
Example pso_example :
  pso_run true 3 2 (Some (fun it => (2 <=? it)%nat)) 1 [5; 3; 4;  7; 1; 9;  2; 8; 0]
  = Some (mkR 8 0 2 9 FEASIBLE).
Proof. vm_compute. reflexivity. Qed.
(* Nelder-Mead: expansion produces a new minimum in the last slot, then the callback stops the run:
   the repaired code returns it, the pinned code returned the stale simplex[0] *)
Example nelder_mead_example :
  nm_run true true 1 5 0 (Some (fun _ => true)) 1 [100; 105; 95; 90] = Some (mkR 3 90 1 4 FEASIBLE).
Proof. vm_compute. reflexivity. Qed.
Example nelder_mead_pinned_example :
  nm_run false true 1 5 0 (Some (fun _ => true)) 1 [100; 105; 95; 90] = Some (mkR 0 100 1 4 FEASIBLE).
Proof. vm_compute. reflexivity. Qed.
Example nelder_mead_shrink_example :   (* inside contraction fails -> shrink re-evaluates vertices 1..n *)
  nm_run true true 2 2 0 None 0 [1; 5; 9;  12; 10;  7; 8;  3] = Some (mkR 0 1 2 8 MAX_ITER).
Proof. vm_compute. reflexivity. Qed.
Example bayesian_example :
  bo_run false 2 5 None 0 [3; 8; 2; 9; 4] = Some (mkR 3 9 5 5 MAX_ITER).
Proof. vm_compute. reflexivity. Qed.
Example powell_example :   (* maximise, 1 dimension: a line search (bracket grows once: 4 calls, golden: 2+1+1 calls),
                              then a degenerate one; the value handed back is the user's value of the last call *)
  powell_run false 1 1 (fun j => nth j [(false, 1%nat); (true, 0%nat)] (true, 0%nat)) (fun _ => false) (fun _ => true) None 0
             [2;  3; 5; 6; 4;  5; 6; 7; 8;  8]
  = Some (mkR 9 8 1 10 MAX_ITER).
Proof. vm_compute. reflexivity. Qed.
Example bfgs_example :     (* 2 iterations, line searches with 2 and 1 trial points, fresh evaluation at the end *)
  bfgs_run 2 (fun _ => false) (fun j => nth j [2; 1]%nat 0%nat) None 0 [9; 8; 7; 7;  7; 5; 5;  5]
  = Some (mkR 7 5 2 8 MAX_ITER).
Proof. vm_compute. reflexivity. Qed.
Example in_bounds_example :
  valid_boundsb [(-3 # 1, 3 # 1); (0 # 1, 1 # 2)]%Q = true /\
  in_boxb [(-3 # 1, 3 # 1); (0 # 1, 1 # 2)]%Q
          (mix [true; false] (clip [(-3 # 1, 3 # 1); (0 # 1, 1 # 2)] [7 # 2; -1 # 1]) [1 # 1; 1 # 4])%Q = true.
Proof. vm_compute. split; reflexivity. Qed.
