(* C19 part B - property theorems (filled in as the proofs are finished). *)
From Coq Require Import List ZArith Bool Arith Lia.
From SV Require Import C19.B_Common.
