(* C13 - kruskal and prim return minimum spanning trees (or say why not): property theorems.
   Model: SV.C13.Mst (solvor/mst.py over the C20 UnionFind model); specification: SV.C13.MstSpec. *)
From Coq Require Import List ZArith.
From SV Require Import C20.UFSpec C13.Mst C13.MstSpec C13.GraphLemmas C13.KruskalProofs.
From SV Require Import C13.ForestCount C13.PrimProofs C13.MstSpecProofs C13.Greedy C13.KruskalMin C13.AgreeProofs C13.PrimMin.
Import ListNotations.

(* kruskal, all inputs the validators accept (n_nodes >= 1, end points in range), every allow_forest:
   the call returns a Result (the union-find model never runs out of fuel) which satisfies kruskal_spec:
   OPTIMAL   -> solution t is a spanning forest of the input (edges of the input, every edge a bridge,
                connects exactly what the input connects), n-1 edges, objective = total weight, graph connected;
   FEASIBLE  -> allow_forest, spanning forest with n - #components < n-1 edges, objective = total weight, not connected;
   INFEASIBLE-> not allow_forest, no solution, objective inf, graph not connected. *)
Theorem C13_kruskal_forest : forall n edges allow_forest, kruskal_valid n edges = true ->
  exists r, kruskal n edges allow_forest = Done r /\
            kruskal_spec n edges allow_forest (r_status r, r_solution r, r_objective r).
Proof. exact kruskal_forest. Qed.
Print Assumptions C13_kruskal_forest.

(* the accepted edges themselves (also when the Result hides them behind INFEASIBLE) *)
Theorem C13_kruskal_accepted : forall n edges, kruskal_valid n edges = true ->
  exists acc tot iters,
    kruskal_core n edges = Some (acc, tot, iters) /\
    spanning_forest edges acc /\ incr_forest acc /\ tot = weight acc /\
    num_classes n (connects edges) (n - length acc) /\ length acc <= n - 1 /\
    iters <= length edges /\ greedy [] (sort_edges edges) acc.
Proof. exact kruskal_core_forest. Qed.
Print Assumptions C13_kruskal_accepted.

Example C13_kruskal_nonvacuous :
  kruskal_valid 4 [(0,1,4%Z); (0,2,3%Z); (1,2,2%Z); (1,3,5%Z); (2,3,6%Z); (3,3,1%Z); (2,1,2%Z)] = true /\
  obs_of (kruskal 4 [(0,1,4%Z); (0,2,3%Z); (1,2,2%Z); (1,3,5%Z); (2,3,6%Z); (3,3,1%Z); (2,1,2%Z)] false)
  = ODone (OPTIMAL, Some [(1,2,2%Z); (0,2,3%Z); (1,3,5%Z)], Some 10%Z) 6 7 /\
  obs_of (kruskal 4 [(0,1,1%Z); (2,3,1%Z)] true) = ODone (FEASIBLE, Some [(0,1,1%Z); (2,3,1%Z)], Some 2%Z) 2 2 /\
  obs_of (kruskal 4 [(0,1,1%Z); (2,3,1%Z)] false) = ODone (INFEASIBLE, None, None) 2 2.
Proof. vm_compute. repeat split. Qed.

(* prim, every adjacency dict with distinct keys and every start that is a node (or None): the call returns a
   Result (the loop never runs out of fuel) which satisfies prim_spec:
   OPTIMAL    -> the edges are arcs of the dict, acyclic, connect start to exactly the nodes of the graph,
                 |nodes| - 1 edges, objective = total weight, every node reachable from start;
   INFEASIBLE -> no solution, objective inf, some node is not reachable from start along the adjacency lists. *)
Theorem C13_prim_tree : forall g start, prim_valid g start = true ->
  exists r, prim g start = Done r /\ prim_spec g start (r_status r, r_solution r, r_objective r).
Proof. exact prim_tree. Qed.
Print Assumptions C13_prim_tree.

(* undirected reading (symmetric adjacency dict): OPTIMAL iff every node is connected to start *)
Theorem C13_prim_tree_undirected : forall g start,
  prim_valid g start = true -> symmetricb g = true -> g <> [] ->
  exists r, prim g start = Done r /\
    prim_spec g start (r_status r, r_solution r, r_objective r) /\
    (r_status r = OPTIMAL <-> forall x, is_node g x -> connects (arcs g) (prim_start g start) x) /\
    (r_status r = INFEASIBLE <-> exists x, is_node g x /\ ~ connects (arcs g) (prim_start g start) x).
Proof. exact prim_tree_undirected. Qed.
Print Assumptions C13_prim_tree_undirected.

Example C13_prim_nonvacuous :
  let g := [(0, [(1,4%Z); (2,3%Z)]); (1, [(0,4%Z); (2,2%Z); (3,5%Z)]);
            (2, [(0,3%Z); (1,2%Z); (3,6%Z)]); (3, [(1,5%Z); (2,6%Z)])] in
  prim_valid g (Some 3) = true /\ symmetricb g = true /\
  obs_of (prim g (Some 3)) = ODone (OPTIMAL, Some [(3,1,5%Z); (1,2,2%Z); (2,0,3%Z)], Some 10%Z) 3 5 /\
  obs_of (prim [(0, [(1,1%Z)]); (1, [(0,1%Z)]); (2, [])] None) = ODone (INFEASIBLE, None, None) 1 1.
Proof. vm_compute. repeat split. Qed.

(* the boolean checkers the harness applies to IMPLEMENTATION outputs are sound for the specification *)
Theorem C13_kruskal_check_sound : forall n edges af o,
  kruskal_check n edges af o = true -> kruskal_spec n edges af o.
Proof. exact kruskal_check_sound. Qed.
Print Assumptions C13_kruskal_check_sound.

Theorem C13_prim_check_sound : forall g start o, prim_check g start o = true -> prim_spec g start o.
Proof. exact prim_check_sound. Qed.
Print Assumptions C13_prim_check_sound.

(* kruskal, minimality: the returned edge list has minimum total weight among ALL spanning forests of the
   input multigraph (kruskal_spec_min = kruskal_spec + minimum), for every valid input and allow_forest. *)
Theorem C13_kruskal_min : forall n edges allow_forest, kruskal_valid n edges = true ->
  exists r, kruskal n edges allow_forest = Done r /\
            kruskal_spec_min n edges allow_forest (r_status r, r_solution r, r_objective r).
Proof. exact kruskal_forest_min. Qed.
Print Assumptions C13_kruskal_min.

(* the graph-theoretic core: scanning edges by non-decreasing weight and keeping the bridges is optimal *)
Theorem C13_greedy_min : forall n es acc out, greedy acc es out -> sortedw es -> in_range n (acc ++ es) ->
  exists added, out = acc ++ added /\ forall F, competitor acc es F -> (weight added <= weight F)%Z.
Proof. exact greedy_min. Qed.
Print Assumptions C13_greedy_min.

(* prim, minimality: on an undirected graph (symmetric adjacency dict) the returned tree has minimum total
   weight among all spanning forests of the arc list (cut property along the heap order). *)
Theorem C13_prim_min : forall g start r t, prim_valid g start = true -> symmetricb g = true ->
  prim g start = Done r -> r_solution r = Some t -> minimum (arcs g) t.
Proof. exact prim_min. Qed.
Print Assumptions C13_prim_min.

(* what a returned solution is, structurally (no symmetry needed) *)
Theorem C13_prim_solution : forall g start r t, prim_valid g start = true -> g <> [] ->
  prim g start = Done r -> r_solution r = Some t ->
  r_status r = OPTIMAL /\ r_objective r = Some (weight t) /\ spanning_forest (arcs g) t.
Proof. exact prim_solution_spanning. Qed.
Print Assumptions C13_prim_solution.

(* kruskal and prim agree: the same undirected graph given as an edge list (same edge set as the arcs of the
   symmetric adjacency dict) - whenever prim returns a tree, kruskal's total weight equals prim's objective *)
Theorem C13_agree : forall g start r t n edges acc tot iters,
  prim_valid g start = true -> symmetricb g = true -> g <> [] ->
  prim g start = Done r -> r_solution r = Some t ->
  incl edges (arcs g) -> incl (arcs g) edges ->
  kruskal_valid n edges = true -> kruskal_core n edges = Some (acc, tot, iters) ->
  r_objective r = Some tot /\ tot = weight acc /\ tot = weight t.
Proof. exact agree. Qed.
Print Assumptions C13_agree.

Example C13_agree_nonvacuous :
  let g := [(0, [(1,4%Z); (2,3%Z)]); (1, [(0,4%Z); (2,2%Z); (3,5%Z)]);
            (2, [(0,3%Z); (1,2%Z); (3,6%Z)]); (3, [(1,5%Z); (2,6%Z)])] in
  prim_valid g None = true /\ symmetricb g = true /\ kruskal_valid 4 (arcs g) = true /\
  (exists r t, prim g None = Done r /\ r_solution r = Some t /\ r_objective r = Some 10%Z) /\
  (exists acc it, kruskal_core 4 (arcs g) = Some (acc, 10%Z, it)).
Proof. vm_compute. repeat split; repeat eexists. Qed.
