(* C13 - kruskal and prim: property theorems (filled in as the proofs land). *)
From Coq Require Import List ZArith.
From SV Require Import C13.Mst C13.MstSpec.
Import ListNotations.

Example C13_model_example :
  obs_of (kruskal 4 [(0,1,4%Z); (0,2,3%Z); (1,2,2%Z); (1,3,5%Z); (2,3,6%Z)] false)
  = ODone (OPTIMAL, Some [(1,2,2%Z); (0,2,3%Z); (1,3,5%Z)], Some 10%Z) 4 5.
Proof. vm_compute. reflexivity. Qed.
