(* C13 - kruskal and prim return minimum spanning trees (or say why not): property theorems.
   Model: SV.C13.Mst (solvor/mst.py over the C20 UnionFind model); specification: SV.C13.MstSpec. *)
From Coq Require Import List ZArith.
From SV Require Import C20.UFSpec C13.Mst C13.MstSpec C13.GraphLemmas C13.KruskalProofs.
From SV Require Import C13.ForestCount C13.PrimProofs C13.MstSpecProofs C13.Greedy C13.KruskalMin C13.AgreeProofs.
Import ListNotations.

(* kruskal, all inputs the validators accept (n_nodes >= 1, end points in range), every allow_forest:
   the call returns a Result (the union-find model never runs out of fuel) which satisfies kruskal_spec:
   OPTIMAL   -> solution t is a spanning forest of the input (edges of the input, every edge a bridge,
                connects exactly what the input connects), n-1 edges, objective = total weight, graph connected;
   FEASIBLE  -> allow_forest, spanning forest with n - #components < n-1 edges, objective = total weight, not connected;
   INFEASIBLE-> not allow_forest, no solution, objective inf, graph not connected. *)
Theorem C13_kruskal_forest : forall n edges allow_forest, kruskal_valid n edges = true ->
  exists r, kruskal n edges allow_forest = Done r /\
            kruskal_spec n edges allow_forest (r_status r, r_solution r, r_objective r).
Proof. exact kruskal_forest. Qed.
Print Assumptions C13_kruskal_forest.

(* the accepted edges themselves (also when the Result hides them behind INFEASIBLE) *)
Theorem C13_kruskal_accepted : forall n edges, kruskal_valid n edges = true ->
  exists acc tot iters,
    kruskal_core n edges = Some (acc, tot, iters) /\
    spanning_forest edges acc /\ incr_forest acc /\ tot = weight acc /\
    num_classes n (connects edges) (n - length acc) /\ length acc <= n - 1 /\
    iters <= length edges /\ greedy [] (sort_edges edges) acc.
Proof. exact kruskal_core_forest. Qed.
Print Assumptions C13_kruskal_accepted.

Example C13_kruskal_nonvacuous :
  kruskal_valid 4 [(0,1,4%Z); (0,2,3%Z); (1,2,2%Z); (1,3,5%Z); (2,3,6%Z); (3,3,1%Z); (2,1,2%Z)] = true /\
  obs_of (kruskal 4 [(0,1,4%Z); (0,2,3%Z); (1,2,2%Z); (1,3,5%Z); (2,3,6%Z); (3,3,1%Z); (2,1,2%Z)] false)
  = ODone (OPTIMAL, Some [(1,2,2%Z); (0,2,3%Z); (1,3,5%Z)], Some 10%Z) 6 7 /\
  obs_of (kruskal 4 [(0,1,1%Z); (2,3,1%Z)] true) = ODone (FEASIBLE, Some [(0,1,1%Z); (2,3,1%Z)], Some 2%Z) 2 2 /\
  obs_of (kruskal 4 [(0,1,1%Z); (2,3,1%Z)] false) = ODone (INFEASIBLE, None, None) 2 2.
Proof. vm_compute. repeat split. Qed.

(* prim, every adjacency dict with distinct keys and every start that is a node (or None): the call returns a
   Result (the loop never runs out of fuel) which satisfies prim_spec:
   OPTIMAL    -> the edges are arcs of the dict, acyclic, connect start to exactly the nodes of the graph,
                 |nodes| - 1 edges, objective = total weight, every node reachable from start;
   INFEASIBLE -> no solution, objective inf, some node is not reachable from start along the adjacency lists. *)
Theorem C13_prim_tree : forall g start, prim_valid g start = true ->
  exists r, prim g start = Done r /\ prim_spec g start (r_status r, r_solution r, r_objective r).
Proof. exact prim_tree. Qed.
Print Assumptions C13_prim_tree.

(* undirected reading (symmetric adjacency dict): OPTIMAL iff every node is connected to start *)
Theorem C13_prim_tree_undirected : forall g start,
  prim_valid g start = true -> symmetricb g = true -> g <> [] ->
  exists r, prim g start = Done r /\
    prim_spec g start (r_status r, r_solution r, r_objective r) /\
    (r_status r = OPTIMAL <-> forall x, is_node g x -> connects (arcs g) (prim_start g start) x) /\
    (r_status r = INFEASIBLE <-> exists x, is_node g x /\ ~ connects (arcs g) (prim_start g start) x).
Proof. exact prim_tree_undirected. Qed.
Print Assumptions C13_prim_tree_undirected.

Example C13_prim_nonvacuous :
  let g := [(0, [(1,4%Z); (2,3%Z)]); (1, [(0,4%Z); (2,2%Z); (3,5%Z)]);
            (2, [(0,3%Z); (1,2%Z); (3,6%Z)]); (3, [(1,5%Z); (2,6%Z)])] in
  prim_valid g (Some 3) = true /\ symmetricb g = true /\
  obs_of (prim g (Some 3)) = ODone (OPTIMAL, Some [(3,1,5%Z); (1,2,2%Z); (2,0,3%Z)], Some 10%Z) 3 5 /\
  obs_of (prim [(0, [(1,1%Z)]); (1, [(0,1%Z)]); (2, [])] None) = ODone (INFEASIBLE, None, None) 1 1.
Proof. vm_compute. repeat split. Qed.

(* the boolean checkers the harness applies to IMPLEMENTATION outputs are sound for the specification *)
Theorem C13_kruskal_check_sound : forall n edges af o,
  kruskal_check n edges af o = true -> kruskal_spec n edges af o.
Proof. exact kruskal_check_sound. Qed.
Print Assumptions C13_kruskal_check_sound.

Theorem C13_prim_check_sound : forall g start o, prim_check g start o = true -> prim_spec g start o.
Proof. exact prim_check_sound. Qed.
Print Assumptions C13_prim_check_sound.

(* kruskal, minimality: the returned edge list has minimum total weight among ALL spanning forests of the
   input multigraph (kruskal_spec_min = kruskal_spec + minimum), for every valid input and allow_forest. *)
Theorem C13_kruskal_min : forall n edges allow_forest, kruskal_valid n edges = true ->
  exists r, kruskal n edges allow_forest = Done r /\
            kruskal_spec_min n edges allow_forest (r_status r, r_solution r, r_objective r).
Proof. exact kruskal_forest_min. Qed.
Print Assumptions C13_kruskal_min.

(* the graph-theoretic core: scanning edges by non-decreasing weight and keeping the bridges is optimal *)
Theorem C13_greedy_min : forall n es acc out, greedy acc es out -> sortedw es -> in_range n (acc ++ es) ->
  exists added, out = acc ++ added /\ forall F, competitor acc es F -> (weight added <= weight F)%Z.
Proof. exact greedy_min. Qed.
Print Assumptions C13_greedy_min.

(* prim, minimality and agreement: NOT proved (needs the cut property along prim's heap order: heap sortedness
   invariant + exchange with a crossing edge of a minimum spanning tree).  Full statements kept here; covered by
   the exhaustive spanning-tree oracle of the harness (<= 7 nodes) only. *)
Definition C13_prim_min_full_statement : Prop :=
  forall g start r t, prim_valid g start = true -> symmetricb g = true ->
    prim g start = Done r -> r_solution r = Some t -> minimum (arcs g) t.
Definition C13_agree_full_statement : Prop :=
  forall g start r t n acc tot iters, prim_valid g start = true -> symmetricb g = true -> g <> [] ->
    prim g start = Done r -> r_solution r = Some t ->
    kruskal_valid n (arcs g) = true -> kruskal_core n (arcs g) = Some (acc, tot, iters) ->
    r_objective r = Some tot.

(* proved half of the agreement: prim's tree is a spanning forest of the arc list, hence (kruskal's minimality)
   kruskal's objective on the same edges is <= prim's objective, which is the weight of prim's tree *)
Theorem C13_agree_partial : forall g start r t n acc tot iters,
  prim_valid g start = true -> g <> [] -> prim g start = Done r -> r_solution r = Some t ->
  kruskal_valid n (arcs g) = true -> kruskal_core n (arcs g) = Some (acc, tot, iters) ->
  (tot <= weight t)%Z /\ r_objective r = Some (weight t).
Proof. exact kruskal_le_prim. Qed.
Print Assumptions C13_agree_partial.

Theorem C13_prim_min_partial : forall g start r t, prim_valid g start = true -> g <> [] ->
  prim g start = Done r -> r_solution r = Some t ->
  r_status r = OPTIMAL /\ r_objective r = Some (weight t) /\ spanning_forest (arcs g) t.
Proof. exact prim_solution_spanning. Qed.
Print Assumptions C13_prim_min_partial.
