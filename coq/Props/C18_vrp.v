(* Property C18, VRPTW part (solvor/vrp.py, ALNS driver solvor/lns.py:alns): the bookkeeping of a VRPState survives every
   destroy/repair operator and the objective is the documented weighted sum of the state.
   Model: C18/Vrp.v (oracle-parametrised: the operators' choices are arguments; tied to /repo on every check run by
   Cases/C18/vrp_trace_*.v and vrp_solve_*.v); specification and boolean checker: C18/VrpSpec.v; proofs: C18/VrpLists.v,
   VrpProofs.v, VrpProofs2.v, VrpObj.v, VrpPinned.v; second model with the choices COMPUTED as in the code (only rng answers
   and set iteration orders are oracle): C18/VrpChoice.v (tied to /repo by Cases/C18/vrp_choice_*.v), VrpChoiceProofs.v.
   The job-shop part of C18 is in Props/C18.v. *)
From Coq Require Import List ZArith Bool Arith.
From SV Require Import C18.Vrp C18.VrpSpec C18.VrpProofs C18.VrpProofs2 C18.VrpObj C18.VrpPinned C18.VrpChoice C18.VrpChoiceProofs C18.VrpChoiceTotal C18.VrpChoiceTotal2.
Import ListNotations.
Open Scope Z_scope.

(* (1) Invariant I (vrp_inv, C18/VrpSpec.v: every customer in `unassigned` xor on >= 1 route, no repeat within a route,
   a single-vehicle customer on at most - hence exactly - one route, arrival_times = recomputation from the routes).
   It holds for VRPState.from_problem ... *)
Theorem C18_vrp_inv_init : forall I, vrp_inv I (init_state I).
Proof. exact init_inv. Qed.
Print Assumptions C18_vrp_inv_init.

(* ... is re-established by remove_set (the tail shared by the five removal operators) for ANY set of customers ... *)
Theorem C18_vrp_inv_remove_set : forall I S st,
  vrp_inv I st -> (forall x, In x S -> valid_id I x = true) -> vrp_inv I (remove_set I S st).
Proof. exact remove_set_inv_full. Qed.
Print Assumptions C18_vrp_inv_remove_set.

(* ... is preserved by an insertion step under the guard the code establishes (the customer comes from `unassigned`,
   the position exists; see place_guard) ... *)
Theorem C18_vrp_inv_insert_at : forall I c v pos st st',
  vrp_inv I st -> place_one I c v pos st = Some st' -> vrp_inv I st'.
Proof. exact place_one_inv. Qed.
Print Assumptions C18_vrp_inv_insert_at.

(* ... hence by each of the eight exported operators for EVERY choice (oracle) it can make: whatever the random draws,
   cost rankings and feasibility tests select, if the operator returns a state at all (the choices pass its guards),
   that state satisfies I ... *)
Theorem C18_vrp_inv : forall I o st st',
  inst_ok I = true -> vrp_inv I st -> apply_op I o st = Some st' -> vrp_inv I st'.
Proof. exact apply_op_inv. Qed.
Print Assumptions C18_vrp_inv.

(* ... hence by every operator sequence (induction over the sequence) ... *)
Theorem C18_vrp_inv_sequence : forall I ops st st',
  inst_ok I = true -> vrp_inv I st -> run_ops I ops st = Some st' -> vrp_inv I st'.
Proof. exact run_ops_inv. Qed.
Print Assumptions C18_vrp_inv_sequence.

(* ... in particular by the operators with their choices computed as vrp.py computes them (cost ranking, nearest
   neighbours, _insertion_cost feasibility and cheapest position, regret order, vehicle selection), for every answer of
   the random generator and every iteration order of the set `unassigned` ... *)
Theorem C18_vrp_inv_computed_choices : forall I ops st st',
  inst_ok I = true -> vrp_inv I st -> run_fops I ops st = Some st' -> vrp_inv I st'.
Proof. exact run_fops_inv. Qed.
Print Assumptions C18_vrp_inv_computed_choices.

(* ... and these operators do not fail: the choices vrp.py computes always pass the guards under which (1) is proved,
   provided the random generator answers as its methods promise (shuffle / set iteration: an enumeration of the set;
   choice / sample: elements of the population; worst_removal's indices inside the candidate list) *)
Theorem C18_vrp_greedy_total : forall I order st,
  vrp_inv I st -> set_eqb order (unassigned st) = true -> exists st', f_greedy I order st = Some st'.
Proof. exact f_greedy_total. Qed.
Print Assumptions C18_vrp_greedy_total.

Theorem C18_vrp_regret_total : forall I k orders st,
  vrp_inv I st -> orders_ok I k orders st = true -> exists st', f_regret I k orders st = Some st'.
Proof. exact f_regret_total. Qed.
Print Assumptions C18_vrp_regret_total.

Theorem C18_vrp_sync_aware_total : forall I order orders st,
  vrp_inv I st -> set_eqb order (unassigned st) = true ->
  exists mevs st1,
    multi_plan I (filter (fun c => (1 <? c_req (cget I c))%nat) order) st = Some mevs
    /\ multi_events I mevs st = Some st1
    /\ (orders_ok I 2 orders (mkSt (routes st1) (filter (fun c => (c_req (cget I c) =? 1)%nat) (unassigned st))
                                    (arrivals st1)) = true ->
        exists st', f_sync_aware I order orders st = Some st').
Proof. exact f_sync_aware_total. Qed.
Print Assumptions C18_vrp_sync_aware_total.

Theorem C18_vrp_worst_total : forall I idxs st rem,
  idxs <> [] -> pop_all (worst_candidates I st) idxs = Some rem -> exists st', f_worst I idxs st = Some st'.
Proof. exact f_worst_total. Qed.
Print Assumptions C18_vrp_worst_total.

Theorem C18_vrp_related_total : forall I nrem seed st,
  In seed (assigned st) -> exists st', f_related I nrem seed st = Some st'.
Proof. exact f_related_total. Qed.
Print Assumptions C18_vrp_related_total.

Theorem C18_vrp_sync_removal_total : forall I target sample st,
  match sync_customers I st with
  | [] => sample <> [] /\ (forall x, In x sample -> In x (assigned st)) \/ assigned st = []
  | sc => In target sc
  end -> exists st', f_sync_removal I target sample st = Some st'.
Proof. exact f_sync_removal_total. Qed.
Print Assumptions C18_vrp_sync_removal_total.

(* ... and by solve_vrptw: initial greedy_insertion, then any number of ALNS iterations with any operators, choices
   and acceptance answers; the reported objective is the objective of the returned state *)
Theorem C18_vrp_solve : forall W I evs0 its st obj,
  inst_ok I = true -> solve W I evs0 its = Some (st, obj) -> vrp_inv I st /\ obj = objective W I st.
Proof. exact solve_inv. Qed.
Print Assumptions C18_vrp_solve.

(* (2) The objective.  `objective` transliterates vrp_objective (it reads the stored arrival times); on a consistent
   state it is the documented weighted sum as a function of (routes, unassigned) alone ... *)
Theorem C18_vrp_objective : forall W I st,
  vrp_inv I st -> objective W I st = objective_spec W I (routes st) (unassigned st).
Proof. exact objective_depends_on_routes_unassigned. Qed.
Print Assumptions C18_vrp_objective.

Theorem C18_vrp_objective_ext : forall W I st1 st2,
  vrp_inv I st1 -> vrp_inv I st2 -> routes st1 = routes st2 ->
  length (unassigned st1) = length (unassigned st2) -> objective W I st1 = objective W I st2.
Proof. exact objective_ext. Qed.
Print Assumptions C18_vrp_objective_ext.

(* ... each penalty term vanishes exactly when its violation is absent ... *)
Theorem C18_vrp_tw_term : forall I st, tw_violation I st = 0 <-> on_time I st.
Proof. exact tw_violation_zero. Qed.
Print Assumptions C18_vrp_tw_term.

Theorem C18_vrp_capacity_term : forall I st, cap_violation I st = 0 <-> within_capacity I st.
Proof. exact cap_violation_zero. Qed.
Print Assumptions C18_vrp_capacity_term.

Theorem C18_vrp_sync_term : forall I st, sync_violation I st = 0 <-> synced I st.
Proof. exact sync_violation_zero. Qed.
Print Assumptions C18_vrp_sync_term.

(* ... and with positive penalty weights the objective is the plain routing cost iff nothing is violated, more otherwise *)
Theorem C18_vrp_objective_honest : forall W I st,
  pos_penalties W = true ->
  w_dist W * total_distance I st + w_veh W * vehicles_used st <= objective W I st
  /\ (objective W I st = w_dist W * total_distance I st + w_veh W * vehicles_used st
      <-> unassigned st = [] /\ on_time I st /\ within_capacity I st /\ synced I st).
Proof. exact objective_no_penalty_iff. Qed.
Print Assumptions C18_vrp_objective_honest.

(* the boolean checker coqc runs on the IMPLEMENTATION's states (Cases/C18/vrp_spec_*.v) is sound *)
Theorem C18_vrp_spec_check_sound : forall W I st obj,
  spec_chk (W, I, st, obj) = true -> vrp_inv I st /\ obj = objective_spec W I (routes st) (unassigned st).
Proof. exact spec_chk_sound. Qed.
Print Assumptions C18_vrp_spec_check_sound.

(* (3) the PINNED route_removal (before fix 3c6011c) breaks I on the witness of the property text *)
Theorem C18_vrp_pinned_refuted :
  exists I vs st st',
    inst_ok I = true /\ run_ops I [wit_build] (init_state I) = Some st /\ vrp_inv I st
    /\ route_removal_pinned I vs st = Some st' /\ ~ vrp_inv I st' /\ spec_check I st' = false.
Proof. exact pinned_refuted. Qed.
Print Assumptions C18_vrp_pinned_refuted.

(* ------------------------------------------------------------------ non-vacuity *)
(* 4 customers (2 and 4 need two vehicles), 2 vehicles, time windows, service times; distances on a line *)
Definition ex_inst : inst :=
  mkInst [mkCust 0 0 None 0 1; mkCust 2 0 (Some 9) 1 1; mkCust 3 4 (Some 6) 2 2; mkCust 1 0 None 0 1; mkCust 6 2 (Some 3) 1 2]
         [[0; 2; 5; 3; 1]; [2; 0; 3; 5; 3]; [5; 3; 0; 8; 6]; [3; 5; 8; 0; 2]; [1; 3; 6; 2; 0]]
         [Some 8; None].

Definition ex_ops : list op :=
  [GreedyInsertion [(4, 0, 0); (1, 0, 1); (3, 1, 0)]%nat;
   SyncRemoval 4%nat [1%nat];
   RouteRemoval [1%nat];
   RelatedRemoval [];
   SyncAwareInsertion [(2, [(0, 0); (1, 0)]); (4, [(1, 0); (0, 0)])]%nat [(1, 0, 2); (3, 1, 2)]%nat;
   WorstRemoval [3; 1]%nat;
   RegretInsertion [(1, 0, 0)]%nat;
   RandomRemoval [1%nat];
   GreedyInsertion [(1, 1, 1)]%nat].

Example C18_vrp_nonvacuous_input : inst_ok ex_inst = true /\ pos_penalties default_weights = true.
Proof. vm_compute. split; reflexivity. Qed.

(* the operators' guards accept these choices: the sequence runs through; at the end the multi-resource customers 4
   and 2 are on both routes and customer 3 is unassigned *)
Example C18_vrp_nonvacuous_sequence :
  run_ops ex_inst ex_ops (init_state ex_inst) = Some (mkSt [[4; 2]; [4; 1; 2]]%nat [3%nat] [[2; 9]; [2; 6; 10]])
  /\ spec_check ex_inst (mkSt [[4; 2]; [4; 1; 2]]%nat [3%nat] [[2; 9]; [2; 6; 10]]) = true.
Proof. split; vm_compute; reflexivity. Qed.

(* the result scores 30 (distance) + 1000 * 11 (lateness) + 1000 * 3 (overload of vehicle 0) *)
Example C18_vrp_nonvacuous_solve :
  solve default_weights ex_inst [(4, 0, 0); (1, 0, 1); (3, 1, 0)]%nat
        [(SyncRemoval 4%nat [1%nat],
          SyncAwareInsertion [(2, [(0, 0); (1, 0)]); (4, [(1, 0); (0, 0)])]%nat [(1, 0, 2)]%nat, false);
         (RouteRemoval [1%nat], RegretInsertion [(3, 1, 0)]%nat, true)]
  = Some (mkSt [[4; 2; 1]; [4; 2; 3]]%nat [] [[2; 9; 14]; [2; 9; 19]], 14030)
  /\ spec_chk (default_weights, ex_inst, mkSt [[4; 2; 1]; [4; 2; 3]]%nat [] [[2; 9; 14]; [2; 9; 19]], 14030) = true.
Proof. split; vm_compute; reflexivity. Qed.

(* the choice-computing operators on the same instance: sync_aware_insertion from the empty plan (customer 2 gets its two
   vehicles, customer 4 finds only one feasible vehicle and stays unassigned), worst_removal with candidate indices 0, 1,
   greedy_insertion in the order 4, 2, regret_insertion with nothing left to do *)
Example C18_vrp_nonvacuous_computed :
  run_fops ex_inst [FSyncAwareInsertion [1; 2; 3; 4]%nat [[1; 3]; [3]]%nat; FWorstRemoval [0; 1]%nat;
                    FGreedyInsertion [4; 2]%nat; FRegretInsertion 2 [[4; 2]]%nat] (init_state ex_inst)
  = Some (mkSt [[2; 3; 1]; [4]]%nat [] [[5; 15; 20]; [2]])
  /\ run_fops ex_inst [FSyncAwareInsertion [1; 2; 3; 4]%nat [[1; 3]; [3]]%nat] (init_state ex_inst)
     = Some (mkSt [[3; 1; 2]; [2]]%nat [4%nat] [[3; 8; 12]; [5]]).
Proof. split; vm_compute; reflexivity. Qed.
