(* C11 part B, deepening - totality of the grid model, completeness of the search, agreement of the best-first
   family with floyd_warshall / bellman_ford, bounded suboptimality of weighted A*.
   Models: C11/BestFirst.v, C11/BestGrid.v (unchanged); part A models C11/BellmanFord.v, C11/FloydWarshall.v.
   Proofs: C11/DeepBest*.v. *)
From Coq Require Import List ZArith Bool.
From SV Require Import C11.Paths C11.BellmanFord C11.FloydWarshall C11.BestFirst C11.BestGrid C11.BestSpec C11.BestGraph
  C11.BestOrder C11.BestHyps C11.BestProofs2 C11.DeepBestUniv C11.DeepBestGrid C11.DeepBestComplete C11.DeepBestAgree
  C11.DeepBestWeighted C11.DeepBestWeightedInst.
Import ListNotations.
Open Scope Z_scope.

(* (1) Totality of the grid model.  astar_grid_zr (Z[sqrt 2] costs, built-in fuel grid_fuel g = 2 + 8*(rows*cols + 1))
   returns a result for EVERY input whose heuristic is representable in Z[sqrt 2] (heur_repr: everything but
   "euclidean", for which the exact model is None by definition and the float twin is used) - any grid (also
   ragged or empty), any start / goal (also outside the grid), any blocked set, costs, weight, max_iter.
   So the theorems of Props/C11_bestfirst.v about astar_grid_zr are never vacuous. *)
Theorem C11_grid_total : forall g start goal directions h blocked cost_map weight max_iter,
  heur_repr directions h = true ->
  exists r, astar_grid_zr g start goal directions h blocked cost_map weight max_iter = Some r.
Proof. exact astar_grid_total. Qed.
Print Assumptions C11_grid_total.

(* the explicit bound: astar_grid_zr is astar_grid_zr_fuel at grid_fuel g, and ANY fuel > 1 + 8 * U works, where
   U = rows*cols cells (+1 if the start lies outside the grid): every cell is closed at most once, a closed cell pushes
   at most |dirs| <= 8 entries, every pop closes a cell or discards a stale entry, one more round sees the empty heap *)
Theorem C11_grid_total_bound :
  (forall g start goal directions h blocked cost_map weight max_iter,
     astar_grid_zr g start goal directions h blocked cost_map weight max_iter
     = astar_grid_zr_fuel (grid_fuel g) g start goal directions h blocked cost_map weight max_iter)
  /\ (forall fuel g start goal directions h blocked cost_map weight max_iter,
     heur_repr directions h = true ->
     (1 + 8 * (if in_grid g start then n_cells g else S (n_cells g)) < fuel)%nat ->
     exists r, astar_grid_zr_fuel fuel g start goal directions h blocked cost_map weight max_iter = Some r)
  /\ (forall fuel g start goal directions h blocked cost_map weight max_iter r,
     astar_grid_zr_fuel fuel g start goal directions h blocked cost_map weight max_iter = Some r ->
     r_iters r <= Z.of_nat (if in_grid g start then n_cells g else S (n_cells g)) /\
     (r_status r = MAX_ITER -> max_iter <= Z.of_nat (if in_grid g start then n_cells g else S (n_cells g)))).
Proof. exact (conj astar_grid_zr_fuel_eq (conj astar_grid_total_fuel astar_grid_iters)). Qed.
Print Assumptions C11_grid_total_bound.

(* the statement as asked: well-formed input (rectangular grid, start and goal inside; grid_wf, boolean) *)
Theorem C11_grid_total_wf : forall g start goal directions h blocked cost_map weight max_iter,
  grid_wf g start goal = true -> heur_repr directions h = true ->
  (forall fuel, (1 + 8 * n_cells g < fuel)%nat ->
     exists r, astar_grid_zr_fuel fuel g start goal directions h blocked cost_map weight max_iter = Some r)
  /\ exists r, astar_grid_zr g start goal directions h blocked cost_map weight max_iter = Some r.
Proof. exact astar_grid_total_wf. Qed.
Print Assumptions C11_grid_total_wf.

(* the generic fact behind (1) and (2): the best-first loop on a closed finite universe U of nodes *)
Theorem C11_best_first_total_universe :
  forall (N C K : Type) (neqb : N -> N -> bool), (forall a b, neqb a b = true <-> a = b) ->
  forall (czero : C) cadd cltb (kltb : K -> K -> bool) mkkey limit_of found nbrs is_goal max_iter max_cost (start : N)
         (U : list N),
    NoDup U -> In start U -> (forall u v w, In (v, w) (nbrs u) -> In v U) ->
  forall fuel, (1 + list_sum (map (fun u => length (nbrs u)) U) < fuel)%nat ->
    exists r, best_first neqb czero cadd cltb kltb mkkey limit_of found nbrs is_goal max_iter max_cost fuel start = Some r.
Proof. exact (@best_first_total_U). Qed.
Print Assumptions C11_best_first_total_universe.

(* (2) Completeness of the search (dijkstra / astar with ANY heuristic table, weight, edge weights).
   Without max_cost, for a run that does not stop with MAX_ITER:
       status INFEASIBLE <-> no goal node is reachable,     some goal node reachable <-> a path is returned
   (a walk from start to a goal node whose weight is the objective, status OPTIMAL / FEASIBLE).
   MAX_ITER is excluded by the boolean condition iter_limit_free: max_iter > number of distinct nodes
   (start and edge targets); each node is closed at most once, so iterations <= that number. *)
Theorem C11_best_complete :
  (forall fuel adj start goals max_iter r,
     dijkstra_gen fuel adj start goals max_iter None = Some r -> r_status r <> MAX_ITER ->
     (r_status r = INFEASIBLE <-> no_goal_reachable adj start goals)
     /\ (some_goal_reachable adj start goals <-> graph_found adj start goals OPTIMAL r))
  /\ (forall fuel adj start goals htab weight max_iter r,
     astar_gen fuel adj start goals htab weight max_iter None = Some r -> r_status r <> MAX_ITER ->
     (r_status r = INFEASIBLE <-> no_goal_reachable adj start goals)
     /\ (some_goal_reachable adj start goals <-> graph_found adj start goals (if weight =? 1 then OPTIMAL else FEASIBLE) r)).
Proof. exact (conj dijkstra_complete_cond astar_complete_cond). Qed.
Print Assumptions C11_best_complete.

Theorem C11_best_no_max_iter :
  (forall fuel adj start goals max_iter max_cost r,
     dijkstra_gen fuel adj start goals max_iter max_cost = Some r ->
     r_iters r <= Z.of_nat (length (graph_nodes adj start)) /\
     (r_status r = MAX_ITER -> max_iter <= Z.of_nat (length (graph_nodes adj start))))
  /\ (forall fuel adj start goals htab weight max_iter max_cost r,
     astar_gen fuel adj start goals htab weight max_iter max_cost = Some r ->
     r_iters r <= Z.of_nat (length (graph_nodes adj start)) /\
     (r_status r = MAX_ITER -> max_iter <= Z.of_nat (length (graph_nodes adj start)))).
Proof. exact (conj dijkstra_iters astar_iters). Qed.
Print Assumptions C11_best_no_max_iter.

(* with the built-in fuel and max_iter above the node count the models DECIDE reachability of the goal set *)
Theorem C11_best_decides :
  (forall adj start goals max_iter, iter_limit_free adj start max_iter = true ->
     exists r, dijkstra adj start goals max_iter None = Some r /\ r_status r <> MAX_ITER
       /\ (r_status r = INFEASIBLE <-> no_goal_reachable adj start goals)
       /\ (some_goal_reachable adj start goals <-> graph_found adj start goals OPTIMAL r))
  /\ (forall adj start goals htab weight max_iter, iter_limit_free adj start max_iter = true ->
     exists r, astar adj start goals htab weight max_iter None = Some r /\ r_status r <> MAX_ITER
       /\ (r_status r = INFEASIBLE <-> no_goal_reachable adj start goals)
       /\ (some_goal_reachable adj start goals <-> graph_found adj start goals (if weight =? 1 then OPTIMAL else FEASIBLE) r)).
Proof. exact (conj dijkstra_decides astar_decides). Qed.
Print Assumptions C11_best_decides.

(* the grid: max_iter > rows*cols + 1 excludes MAX_ITER; then INFEASIBLE <-> goal unreachable in the exact grid graph,
   and a reachable goal yields a path *)
Theorem C11_grid_complete : forall g start goal directions h blocked cost_map weight max_iter r,
  astar_grid_zr g start goal directions h blocked cost_map weight max_iter = Some r ->
  (grid_iter_limit_free g max_iter = true -> r_status r <> MAX_ITER)
  /\ (r_status r <> MAX_ITER ->
      (r_status r = INFEASIBLE <-> unreachable_goal zr_add (zr_grid_nbrs g directions blocked cost_map) (cell_eqb goal) start)
      /\ ((exists a q t d, lwalk zr_add (zr_grid_nbrs g directions blocked cost_map) start a q t d /\ cell_eqb goal t = true)
          -> exists p d, r_path r = Some p /\ r_obj r = Some d
                         /\ path_spec zr_add (zr_grid_nbrs g directions blocked cost_map) zr_zero start (cell_eqb goal) p d)).
Proof. exact astar_grid_complete. Qed.
Print Assumptions C11_grid_complete.

(* (3) All solvers agree.  Non-negative weights (nonneg_adj), single goal node t, no max_cost, run not stopped by
   MAX_ITER, n a valid size argument for the part A solvers (BF.valid_input: 0 < n, start, t and all edge ends < n):
   dijkstra's objective (None = inf)  =  floyd_warshall's matrix entry [s][t]  =  bellman_ford's distance vector
   entry [t]  =  bellman_ford's single-target answer (Path _ d / Infeasible) - and the part A solvers do return a
   matrix / vector / answer on such inputs.  It is the shortest-walk distance (is_dist) or unreachability. *)
Theorem C11_dijkstra_all_pairs_agree : forall fuel adj s t max_iter r n,
  nonneg_adj adj = true -> BF.valid_input s (adj_edges adj) n (Some t) = true ->
  dijkstra_gen fuel adj s [t] max_iter None = Some r -> r_status r <> MAX_ITER ->
  match r_obj r with Some d => is_dist (adj_edges adj) s t d | None => ~ reachable (adj_edges adj) s t end
  /\ (exists m, FW.floyd_warshall n (adj_edges adj) true = FW.Dist m /\ FW.get m s t = r_obj r)
  /\ (exists dv, BF.bellman_ford s (adj_edges adj) n None = BF.Dists dv /\ nth t dv None = r_obj r)
  /\ match r_obj r with
     | Some d => exists p, BF.bellman_ford s (adj_edges adj) n (Some t) = BF.Path p d
     | None => BF.bellman_ford s (adj_edges adj) n (Some t) = BF.Infeasible
     end.
Proof. exact dijkstra_all_pairs_agree. Qed.
Print Assumptions C11_dijkstra_all_pairs_agree.

(* the same for astar with weight 1 and a consistent heuristic, hence dijkstra = astar *)
Theorem C11_astar_all_pairs_agree :
  (forall fuel adj s t htab max_iter r n,
     nonneg_adj adj = true -> consistent_adj adj [t] htab = true ->
     BF.valid_input s (adj_edges adj) n (Some t) = true ->
     astar_gen fuel adj s [t] htab 1 max_iter None = Some r -> r_status r <> MAX_ITER ->
     dist_spec (adj_edges adj) s t (r_obj r) /\ agree_with_part_a adj s t n (r_obj r))
  /\ (forall fuel fuel' adj s t htab max_iter max_iter' r r',
     nonneg_adj adj = true -> consistent_adj adj [t] htab = true ->
     dijkstra_gen fuel adj s [t] max_iter None = Some r -> r_status r <> MAX_ITER ->
     astar_gen fuel' adj s [t] htab 1 max_iter' None = Some r' -> r_status r' <> MAX_ITER ->
     r_obj r = r_obj r').
Proof. exact (conj astar_all_pairs_agree dijkstra_astar_agree). Qed.
Print Assumptions C11_astar_all_pairs_agree.

(* unconditional form: built-in fuel, boolean hypotheses only *)
Theorem C11_dijkstra_all_pairs_agree_total : forall adj s t max_iter n,
  nonneg_adj adj = true -> BF.valid_input s (adj_edges adj) n (Some t) = true ->
  iter_limit_free adj s max_iter = true ->
  exists r, dijkstra adj s [t] max_iter None = Some r /\ agree_with_part_a adj s t n (r_obj r).
Proof. exact dijkstra_all_pairs_agree_total. Qed.
Print Assumptions C11_dijkstra_all_pairs_agree_total.

(* (4) Bounded suboptimality of weighted A* (the closed-set, never-reopening loop of the code).  weight >= 1,
   non-negative weights, heuristic table consistent and 0 on the goals, no max_cost:
   objective <= weight * (weight of ANY walk from start to ANY goal node), so <= weight * distance. *)
Theorem C11_astar_weighted_bound : forall fuel adj start goals htab weight max_iter r,
  (1 <=? weight) = true -> nonneg_adj adj = true -> consistent_adj adj goals htab = true ->
  astar_gen fuel adj start goals htab weight max_iter None = Some r ->
  forall d0, r_obj r = Some d0 ->
    (forall t p d, goal_in goals t = true -> walk (adj_edges adj) start t p d -> d0 <= weight * d)
    /\ (forall t dmin, goal_in goals t = true -> is_dist (adj_edges adj) start t dmin -> d0 <= weight * dmin).
Proof. exact astar_weighted_bound. Qed.
Print Assumptions C11_astar_weighted_bound.

(* the grid (exact Z[sqrt 2] costs, terrain costs >= 1, heuristics of heur_ok): objective <= weight * any walk *)
Theorem C11_astar_grid_weighted_bound : forall g start goal directions h blocked cost_map weight max_iter r,
  (1 <=? weight) = true -> costs_ge1 cost_map = true -> heur_ok directions (resolve_h directions h) = true ->
  astar_grid_zr g start goal directions h blocked cost_map weight max_iter = Some r ->
  forall d0, r_obj r = Some d0 ->
  forall t q d, cell_eqb goal t = true ->
    lwalk zr_add (zr_grid_nbrs g directions blocked cost_map) start zr_zero q t d ->
    cle zr_ltb d0 (zr_scale weight d).
Proof. exact astar_grid_weighted_bound. Qed.
Print Assumptions C11_astar_grid_weighted_bound.

(* the generic statement: any node type, ordered cost monoid, additive monotone scaling sc with a <= sc a for a >= 0 *)
Theorem C11_astar_weighted_generic :
  forall (N C : Type) (neqb : N -> N -> bool), (forall a b, neqb a b = true <-> a = b) ->
  forall czero cadd cltb, ordered_costs czero cadd cltb ->
  forall nbrs is_goal max_iter (start : N),
    (forall u v w, In (v, w) (nbrs u) -> cle cltb czero w) ->
  forall (h : N -> C) (sc : C -> C),
    (forall u v w, In (v, w) (nbrs u) -> cle cltb (h u) (cadd w (h v))) ->
    (forall t, is_goal t = true -> h t = czero) ->
    (forall a b, sc (cadd a b) = cadd (sc a) (sc b)) ->
    (forall a b, cle cltb a b -> cle cltb (sc a) (sc b)) ->
    (forall a, cle cltb czero a -> cle cltb a (sc a)) ->
    sc czero = czero ->
  forall found fuel r,
    astar_c neqb czero cadd cltb (fun v => sc (h v)) found nbrs is_goal max_iter None fuel start = Some r ->
    forall d0, r_obj r = Some d0 -> forall t q d, is_goal t = true -> lwalk cadd nbrs start czero q t d -> cle cltb d0 (sc d).
Proof. exact (@astar_c_weighted). Qed.
Print Assumptions C11_astar_weighted_generic.

(* ---- non-vacuity ---- *)
Definition diamond : adjacency := [[(1%nat, 4); (2%nat, 1)]; [(3%nat, 1)]; [(1%nat, 2); (3%nat, 5)]; []].

(* (1) hypotheses hold on real inputs; a walled-in goal: the model terminates with INFEASIBLE *)
Example C11_deep_nonvacuous_grid_inputs :
  heur_repr 8 Hauto = true /\ heur_repr 4 Hchebyshev = true /\ heur_repr 4 Heuclidean = false
  /\ grid_wf [[0; 0; 0]; [0; 1; 0]; [0; 0; 0]] (0, 0) (2, 2) = true
  /\ grid_wf [[0; 0; 0]; [0; 1]] (0, 0) (1, 1) = false
  /\ grid_fuel [[0; 0; 0]; [0; 1; 0]; [0; 0; 0]] = 82%nat.
Proof. vm_compute. repeat split. Qed.

Example C11_deep_nonvacuous_grid_infeasible :
  obs_of (astar_grid_zr [[0; 1; 0]; [1; 1; 0]; [0; 0; 0]] (0, 0) (2, 2) 8 Hauto [1] [] 1 1000000)
  = Some (INFEASIBLE, None, None)
  /\ obs_of (astar_grid_zr [[0; 0]; [0; 0]] (5, 5) (1, 1) 4 Hauto [1] [] 1 1000000) = Some (INFEASIBLE, None, None)
  /\ obs_of (astar_grid_zr [[0; 0]; [0; 0]] (-1, 0) (1, 1) 4 Hauto [1] [] 1 1000000)
     = Some (OPTIMAL, Some [(-1, 0); (0, 0); (0, 1); (1, 1)], Some (3, 0)).
Proof. vm_compute. repeat split. Qed.

(* (2) the no-limit condition holds for the default max_iter; MAX_ITER must be excluded: with max_iter = 2 the reachable
   goal is not found *)
Example C11_deep_nonvacuous_complete :
  iter_limit_free diamond 0 1000000 = true /\ iter_limit_free diamond 0 4 = false
  /\ length (graph_nodes diamond 0) = 4%nat
  /\ obs_of (dijkstra diamond 0 [3%nat] 2 None) = Some (MAX_ITER, None, None)
  /\ obs_of (dijkstra diamond 0 [3%nat] 5 None) = Some (OPTIMAL, Some [0; 2; 1; 3]%nat, Some 4)
  /\ obs_of (dijkstra diamond 3 [0%nat] 5 None) = Some (INFEASIBLE, None, None).
Proof. vm_compute. repeat split. Qed.

(* (3) the three solvers on the same graph *)
Example C11_deep_nonvacuous_agree :
  nonneg_adj diamond = true /\ BF.valid_input 0 (adj_edges diamond) 4 (Some 3%nat) = true
  /\ obs_of (dijkstra diamond 0 [3%nat] 1000000 None) = Some (OPTIMAL, Some [0; 2; 1; 3]%nat, Some 4)
  /\ match FW.floyd_warshall 4 (adj_edges diamond) true with FW.Dist m => FW.get m 0 3 | _ => None end = Some 4
  /\ BF.bellman_ford 0 (adj_edges diamond) 4 (Some 3%nat) = BF.Path [0; 2; 1; 3]%nat 4
  /\ BF.bellman_ford 0 (adj_edges diamond) 4 None = BF.Dists [Some 0; Some 3; Some 1; Some 4]
  /\ BF.bellman_ford 3 (adj_edges diamond) 4 (Some 0%nat) = BF.Infeasible
  /\ obs_of (dijkstra diamond 3 [0%nat] 1000000 None) = Some (INFEASIBLE, None, None).
Proof. vm_compute. repeat split. Qed.

(* (4) weight 3 with a consistent heuristic returns 4 although the distance is 3: suboptimal, within the factor *)
Definition wgraph4 : adjacency := [[(1%nat, 1); (2%nat, 2)]; [(3%nat, 3)]; [(3%nat, 1)]; []].
Example C11_deep_nonvacuous_weighted :
  nonneg_adj wgraph4 = true /\ consistent_adj wgraph4 [3%nat] [1; 0; 1; 0] = true
  /\ obs_of (astar wgraph4 0 [3%nat] [1; 0; 1; 0] 3 1000000 None) = Some (FEASIBLE, Some [0; 1; 3]%nat, Some 4)
  /\ obs_of (astar wgraph4 0 [3%nat] [1; 0; 1; 0] 1 1000000 None) = Some (OPTIMAL, Some [0; 2; 3]%nat, Some 3).
Proof. vm_compute. repeat split. Qed.
