(* Property C09, deepening round 2: network_simplex.  The statement that Props/C09_deep.v keeps as a Definition
   (C09_ns_optimal_full_statement) is now a theorem: for every valid instance, status OPTIMAL of the network_simplex
   model means that the returned flow is feasible (capacities, every node's supply met exactly) and of minimum cost.
   Only statements + `exact <lemma>`; proofs are in C09/DeepNS2*.v:
     DeepNS2Base   the state invariant NSInv, tree chains, "every arc in state 0 is a pred arc"
     DeepNS2Walk   _find_join, the ratio test, the flow push, the pricing rule
     DeepNS2Flow   the flow update keeps bounds and conservation, the leaving arc ends at a bound
     DeepNS2Rehang the re-hang traversal against an abstract target tree
     DeepNS2Tree   the target tree of a basis change (old tree - leaving + entering)
     DeepNS2Step   one pass of the loop keeps NSInv          DeepNS2Init  the big-M start basis satisfies NSInv
     DeepNS2Exit   exit condition + no artificial flow => minimum cost
     DeepNS2Infeas exit condition + artificial flow left => a cut that no feasible flow can cross (big-M is large enough). *)
From Coq Require Import List ZArith.
Import ListNotations.
From SV Require Import C09.Mcf C09.McfSpec C09.NetSimplex.
From SV Require C09.DeepNS C09.DeepNS2Base C09.DeepNS2Step C09.DeepNS2Init C09.DeepNS2Exit C09.DeepNS2Infeas.
From SV Require Props.C09 Props.C09_deep.
Import Mcf McfSpec.
Open Scope Z_scope.

(* NSInv C b s (DeepNS2Base.v), for the arc tables C = mk_consts n arcs sup (original arcs 0..m-1, artificial arc m+i
   between node i and the root n) and a state s of the main loop:
   (a) 0 <= flow <= cap on every arc, artificial ones included; net outflow of every node w over all arcs = b w;
   (b) state in {1,0,-1}; state 1 => flow 0; state -1 => flow = cap; exactly n arcs are in state 0, and pred[v] is in
       state 0 for every node v < n (hence the arcs in state 0 are exactly the pred arcs: DeepNS2Base.inv_tree_arc);
   (c) for every v < n: parent[v] <= n, pred[v] joins v and parent[v], depth[v] = depth[parent[v]] + 1, depth[root] = 0,
       depth >= 0 (so v reaches the root in depth[v] parent steps);
   (d) pi[v] = pi[parent[v]] +- cost[pred[v]] (sign by the arc's direction), pi[root] = 0: reduced cost 0 on tree arcs;
   and tree_adj[w] = the arcs in state 0 touching w, without repetition. *)

(* (2) the initial big-M basis satisfies the invariant; the net outflow it fixes is the supply of every node *)
Theorem C09_ns_init_inv : forall n arcs sup,
  valid_arcs n arcs = true ->
  DeepNS2Base.NSInv (NetSimplex.mk_consts n arcs sup)
    (DeepNS2Base.netx (NetSimplex.mk_consts n arcs sup) (NetSimplex.flow (NetSimplex.init_st n arcs sup)))
    (NetSimplex.init_st n arcs sup).
Proof. exact DeepNS2Init.init_inv. Qed.
Print Assumptions C09_ns_init_inv.

Theorem C09_ns_init_supply : forall n arcs sup w, (w < n)%nat ->
  DeepNS2Base.netx (NetSimplex.mk_consts n arcs sup) (NetSimplex.flow (NetSimplex.init_st n arcs sup)) w
  = NetSimplex.nz sup w.
Proof. exact DeepNS2Init.init_netx. Qed.
Print Assumptions C09_ns_init_supply.

(* (3) one pass of the while body (pricing, join, ratio test, push, state flip or basis change with the re-hang
   traversal) keeps the invariant, for arbitrary arc tables with end points <= n and capacities >= 0 *)
Theorem C09_ns_step_inv : forall C, DeepNS2Base.ConstOK C -> forall b s s',
  DeepNS2Base.NSInv C b s -> NetSimplex.step C s = NetSimplex.Next s' -> DeepNS2Base.NSInv C b s'.
Proof. exact DeepNS2Step.step_inv. Qed.
Print Assumptions C09_ns_step_inv.

(* hence every state the loop stops in satisfies it (whatever the status) *)
Theorem C09_ns_loop_inv : forall n arcs sup, valid_arcs n arcs = true ->
  forall fuel mi stt s it,
  NetSimplex.loop (NetSimplex.mk_consts n arcs sup) fuel mi (NetSimplex.init_st n arcs sup) 0 = Some (stt, s, it) ->
  DeepNS2Base.NSInv (NetSimplex.mk_consts n arcs sup)
    (DeepNS2Base.netx (NetSimplex.mk_consts n arcs sup) (NetSimplex.flow (NetSimplex.init_st n arcs sup))) s.
Proof. exact DeepNS2Exit.loop_state_inv. Qed.
Print Assumptions C09_ns_loop_inv.

(* reduced cost 0 on every arc in state 0 of a state satisfying the invariant *)
Theorem C09_ns_tree_rc : forall C b s, DeepNS2Base.NSInv C b s ->
  forall a, (a < NetSimplex.c_m C + NetSimplex.c_n C)%nat -> NetSimplex.nz (NetSimplex.state s) a = 0 ->
  NetSimplex.redcost C s a = 0.
Proof. exact DeepNS2Base.inv_tree_rc. Qed.
Print Assumptions C09_ns_tree_rc.

(* (4) the statement of Props/C09_deep.v *)
Theorem C09_ns_optimal_full : Props.C09_deep.C09_ns_optimal_full_statement.
Proof. intros n arcs sup max_iter fl it Hv _. exact (DeepNS2Exit.ns_optimal_run n arcs sup Hv max_iter fl it). Qed.
Print Assumptions C09_ns_optimal_full.

(* the public Result: for every valid instance (end points < n, capacities >= 0; integer data = the type Z), status OPTIMAL
   => the returned dictionary is the pooled form of a per-arc flow that is feasible for the supplies (within capacities,
   net outflow of every node = its supply) and of minimum cost among all feasible flows, and the objective is its cost.
   (Balancedness is checked by the code itself: an unbalanced supply vector is answered INFEASIBLE.) *)
Theorem C09_ns_optimal : forall n arcs sup max_iter r,
  valid_arcs n arcs = true ->
  NetSimplex.network_simplex n arcs sup max_iter = Some r -> NetSimplex.r_status r = NetSimplex.OPTIMAL ->
  exists sol, NetSimplex.r_sol r = Some sol /\ optimal_answer n arcs (supply_b sup) sol (NetSimplex.r_obj r).
Proof. exact DeepNS2Exit.ns_optimal. Qed.
Print Assumptions C09_ns_optimal.

(* the boolean test of the previous round (C09_deep.C09_ns_optimal_partial) passes in every state the loop stops in
   without artificial flow *)
Theorem C09_ns_final_ok : forall n arcs sup, valid_arcs n arcs = true ->
  forall fuel mi stt s it,
  NetSimplex.loop (NetSimplex.mk_consts n arcs sup) fuel mi (NetSimplex.init_st n arcs sup) 0 = Some (stt, s, it) ->
  (forall x, In x (skipn (length arcs) (NetSimplex.flow s)) -> x <= 0) ->
  DeepNS.ns_final_ok_b n arcs sup s = true.
Proof. exact DeepNS2Exit.loop_final_ok. Qed.
Print Assumptions C09_ns_final_ok.

(* (4b) INFEASIBLE is sound.  If the pricing rule finds no entering arc while an artificial arc still carries flow, one
   of the two node sets cutP = {w < n : pi[w] > 0}, cutN = {w < n : pi[w] < 0} read off the FINAL potentials passes
   McfSpec.cut_check (supply of cutP > capacity leaving it, or demand of cutN > capacity entering it).
   What is needed of big-M: M >= n * sum|cost| + 1 - every potential is +-M up to (depth-1) * sum|cost| with depth <= n,
   so it stays >= sum|cost| + 1 in absolute value and the sign classes are separated by more than any arc cost; the
   code computes exactly M = n * sum|cost| + 1. *)
Theorem C09_ns_infeasible_cut : forall n arcs sup, valid_arcs n arcs = true ->
  forall s,
  DeepNS2Base.NSInv (NetSimplex.mk_consts n arcs sup)
    (DeepNS2Base.netx (NetSimplex.mk_consts n arcs sup) (NetSimplex.flow (NetSimplex.init_st n arcs sup))) s ->
  NetSimplex.pricing (NetSimplex.mk_consts n arcs sup) s = None ->
  (exists i, (i < n)%nat /\ 0 < NetSimplex.nz (NetSimplex.flow s) (length arcs + i)) ->
  cut_check n arcs (supply_b sup) (DeepNS2Infeas.cutP n s) = true \/
  cut_check n arcs (supply_b sup) (DeepNS2Infeas.cutN n s) = true.
Proof. exact DeepNS2Infeas.final_cut. Qed.
Print Assumptions C09_ns_infeasible_cut.

(* the public Result: for every valid instance with one supply per node, status INFEASIBLE (unbalanced supplies, no arcs
   but a non-zero supply, or artificial flow left at optimality of the big-M problem) => no feasible flow exists *)
Theorem C09_ns_infeasible_sound : forall n arcs sup max_iter r,
  valid_arcs n arcs = true -> length sup = n ->
  NetSimplex.network_simplex n arcs sup max_iter = Some r -> NetSimplex.r_status r = NetSimplex.INFEASIBLE ->
  infeasible n arcs (supply_b sup).
Proof. exact DeepNS2Infeas.ns_infeasible_sound. Qed.
Print Assumptions C09_ns_infeasible_sound.

(* ================= non-vacuity ================= *)
(* the network of Props/C09.v (an arc of negative cost, parallel arcs): 6 passes, 3 basis changes, OPTIMAL *)
Example C09_deep2_nonvacuous_ex1 :
  valid_arcs 4 Props.C09.ex_arcs = true /\
  exists r, NetSimplex.network_simplex 4 Props.C09.ex_arcs [2; -2; 0; 0] 1000000 = Some r /\
            NetSimplex.r_status r = NetSimplex.OPTIMAL /\ NetSimplex.r_obj r = 8 /\ NetSimplex.r_iters r = 6.
Proof. split; [reflexivity|]. eexists. vm_compute. repeat split. Qed.

(* 3 units must go from {0,1} to {2,3} but only 2 can cross: 5 passes, then artificial flow is left; both cuts read off
   the final potentials [33; 32; -32; -33] are accepted by cut_check *)
Definition inf_arcs : list arc := [(0%nat, 1%nat, 2, 1); (1%nat, 2%nat, 1, 1); (0%nat, 2%nat, 1, 5); (2%nat, 3%nat, 3, 1)].

Example C09_deep2_nonvacuous_ex2 :
  valid_arcs 4 inf_arcs = true /\
  (exists r, NetSimplex.network_simplex 4 inf_arcs [3; 0; 0; -3] 1000000 = Some r /\
             NetSimplex.r_status r = NetSimplex.INFEASIBLE /\ NetSimplex.r_iters r = 5) /\
  match NetSimplex.loop (NetSimplex.mk_consts 4 inf_arcs [3; 0; 0; -3]) 5000 1000000
                        (NetSimplex.init_st 4 inf_arcs [3; 0; 0; -3]) 0 with
  | Some (NetSimplex.OPTIMAL, s, _) =>
      DeepNS2Infeas.cutP 4 s = [true; true; false; false] /\
      cut_check 4 inf_arcs (supply_b [3; 0; 0; -3]) (DeepNS2Infeas.cutP 4 s) = true
  | _ => False
  end.
Proof. split; [reflexivity|]. split; [eexists; vm_compute; repeat split|vm_compute; split; reflexivity]. Qed.
