(* C06 - the circuit encoding (_encode_circuit), part 1: structure of the clause list, the position
   variables created by mk_positions, framing (counter / literals below the counter), and the meaning of the
   range / ordering clauses on the decoded values.  Part 2 (EncCircuit2.v): the graph argument, soundness and
   completeness. *)
From Coq Require Import List ZArith Bool Lia Arith.
From SV Require Import C06.CpAst C06.CpAstProofs C06.CpEnc C06.EncBasics C06.EncPairwise C06.EncFrame.
Import ListNotations. Open Scope Z_scope.

(* ------------------------------------------------------------------ the pieces of enc_circuit *)
Definition circ_rng (n : Z) (vs : list var) : cnf :=
  flat_map (fun iv : Z * var =>
     flat_map (fun p : Z * Z =>
                 if (fst p =? fst iv) || negb ((0 <=? fst p) && (fst p <? n)) then [[- snd p]] else [])
              (bool_vars (snd iv))) (indexed 0 vs).

Definition circ_ord (n : Z) (vs t : list var) : cnf :=
  flat_map (fun iv : Z * var =>
     let i := fst iv in let v := snd iv in
     let ti := nth (Z.to_nat i) t dummy_var in
     flat_map (fun j =>
       if negb (j =? i) && in_dom v j then
         let tj := nth (Z.to_nat j) t dummy_var in
         flat_map (fun pi : Z * Z => flat_map (fun pj : Z * Z =>
           if fst pj <=? fst pi then [[- vlit v j; - snd pi; - snd pj]] else []) (bool_vars tj)) (bool_vars ti)
       else []) (zrange 1 (n - 1))) (indexed 0 vs).

Definition circ_pos (n cnt : Z) : list var * cnf * Z := mk_positions n cnt (zrange 0 (n - 1)).
Definition pos_vars (n cnt : Z) : list var := fst (fst (circ_pos n cnt)).
Definition pos_eos (n cnt : Z) : cnf := snd (fst (circ_pos n cnt)).
Definition pos_cnt (n cnt : Z) : Z := snd (circ_pos n cnt).

Lemma enc_circuit_nil cnt : enc_circuit cnt [] = ([], cnt).
Proof. reflexivity. Qed.

Lemma enc_circuit_one cnt v : enc_circuit cnt [v] = (enc_all_different [v] ++ circ_rng 1 [v], cnt).
Proof. reflexivity. Qed.

Lemma enc_circuit_big cnt vs : (2 <= length vs)%nat ->
  enc_circuit cnt vs =
    (enc_all_different vs ++ circ_rng (Z.of_nat (length vs)) vs ++ pos_eos (Z.of_nat (length vs)) cnt
       ++ [[vlit (nth 0 (pos_vars (Z.of_nat (length vs)) cnt) dummy_var) 0]]
       ++ circ_ord (Z.of_nat (length vs)) vs (pos_vars (Z.of_nat (length vs)) cnt),
     pos_cnt (Z.of_nat (length vs)) cnt).
Proof.
  intros H. destruct vs as [|v tl]; [simpl in H; lia|].
  unfold enc_circuit. cbv zeta.
  set (n := Z.of_nat (length (v :: tl))).
  assert (Hn : 2 <= n) by (unfold n; lia).
  destruct (n <=? 1) eqn:E; [apply Z.leb_le in E; lia|].
  unfold pos_eos, pos_vars, pos_cnt, circ_pos.
  destruct (mk_positions n cnt (zrange 0 (n - 1))) as [[t eos] c1]. reflexivity.
Qed.

(* ------------------------------------------------------------------ small helpers *)
Lemma indexed_In {A} (d : A) (l : list A) : forall s i x,
  In (i, x) (indexed s l) <-> exists k, (k < length l)%nat /\ i = s + Z.of_nat k /\ x = nth k l d.
Proof.
  induction l as [|a tl IH]; intros s i x; simpl.
  - split; [tauto | intros [k [Hk _]]; lia].
  - rewrite IH. split.
    + intros [E | [k [Hk [Ei Ex]]]].
      * inversion E; subst. exists 0%nat. split; [lia|]. split; [lia|reflexivity].
      * exists (S k). split; [lia|]. split; [lia|exact Ex].
    + intros [k [Hk [Ei Ex]]]. destruct k as [|k].
      * left. subst. f_equal. lia.
      * right. exists k. split; [lia|]. split; [lia|exact Ex].
Qed.

Lemma zseq_nth len : forall s k, (k < len)%nat -> nth k (zseq s len) 0 = s + Z.of_nat k.
Proof.
  induction len as [|len IH]; intros s k Hk; [lia|].
  destruct k as [|k]; [simpl; lia|].
  change (nth (S k) (zseq s (S len)) 0) with (nth k (zseq (s + 1) len) 0).
  rewrite IH by lia. lia.
Qed.

Lemma zrange0_length n : 0 <= n -> length (zrange 0 (n - 1)) = Z.to_nat n.
Proof. intros H. unfold zrange. rewrite zseq_length. f_equal. lia. Qed.

Lemma zrange0_nth n k : (k < Z.to_nat n)%nat -> nth k (zrange 0 (n - 1)) 0 = Z.of_nat k.
Proof. intros H. unfold zrange. rewrite zseq_nth by lia. lia. Qed.

Lemma bv_dummy b : bv b dummy_var = 0.
Proof. reflexivity. Qed.

Lemma nth_map_bv b vs i : nth i (map (bv b) vs) 0 = bv b (nth i vs dummy_var).
Proof. rewrite <- (bv_dummy b). apply map_nth. Qed.

Lemma circ_var_below_mono n m v : n <= m -> var_below n v -> var_below m v.
Proof. unfold var_below. lia. Qed.

Lemma circ_aux_size_nonneg lb ub : 0 <= aux_size lb ub.
Proof. unfold aux_size. lia. Qed.

Lemma circ_aux_below n lb ub : var_below (n + aux_size lb ub) (mk_aux n lb ub).
Proof. unfold var_below, aux_size, mk_aux. simpl. lia. Qed.

Lemma circ_amo_below n ls : (forall l, In l ls -> Z.abs l < n) -> cnf_below n (amo ls).
Proof.
  induction ls as [|a tl IH]; intros H; simpl; [apply cnf_below_nil|].
  apply cnf_below_app. split.
  - apply cnf_below_map. intros x Hx l Hl.
    pose proof (H a (or_introl eq_refl)) as Ha. pose proof (H x (or_intror Hx)) as Hx'.
    destruct Hl as [<-|[<-|[]]]; lia.
  - apply IH. intros l Hl. apply H. right. exact Hl.
Qed.

Lemma circ_eo_below n v : 0 < vbase v -> var_below n v -> cnf_below n (exactly_one (lits_of v)).
Proof.
  intros Hb Hv.
  assert (H : forall l, In l (lits_of v) -> Z.abs l < n).
  { intros l Hl. rewrite lits_of_eq in Hl. apply in_map_iff in Hl. destruct Hl as [x [<- Hx]].
    apply vdom_In in Hx. apply (vlit_below n v x Hb Hv Hx). }
  unfold exactly_one. destruct (lits_of v) as [|a tl]; [apply cnf_below_nil|].
  intros c [<-|Hc]; [exact H|]. exact (circ_amo_below n (a :: tl) H c Hc).
Qed.

Lemma circ_all_different_below n vs : (forall v, In v vs -> 0 < vbase v /\ var_below n v) ->
  cnf_below n (enc_all_different vs).
Proof.
  intros H. unfold enc_all_different. apply cnf_below_flat_map. intros x _.
  match goal with |- cnf_below n (if ?c then _ else _) => destruct c end; [|apply cnf_below_nil].
  unfold at_most_one. apply circ_amo_below. intros l Hl. apply in_map_iff in Hl. destruct Hl as [v [<- Hv]].
  apply filter_In in Hv. destruct Hv as [Hv D]. apply in_dom_iff in D.
  destruct (H v Hv) as [Hb Hbel]. apply (vlit_below n v x Hb Hbel D).
Qed.

(* ------------------------------------------------------------------ mk_positions *)
Definition lbp (i : Z) : Z := if i =? 0 then 0 else 1.

Lemma mkp_cons n cnt i tl :
  mk_positions n cnt (i :: tl) =
    (mk_aux cnt (lbp i) (n - 1) :: fst (fst (mk_positions n (cnt + aux_size (lbp i) (n - 1)) tl)),
     exactly_one (lits_of (mk_aux cnt (lbp i) (n - 1))) ++ snd (fst (mk_positions n (cnt + aux_size (lbp i) (n - 1)) tl)),
     snd (mk_positions n (cnt + aux_size (lbp i) (n - 1)) tl)).
Proof.
  change (mk_positions n cnt (i :: tl)) with
    (let '(v, eo, c1) := create_int_var cnt (lbp i) (n - 1) in
     let '(vs, cl, c2) := mk_positions n c1 tl in (v :: vs, eo ++ cl, c2)).
  unfold create_int_var. cbv zeta.
  destruct (mk_positions n (cnt + aux_size (lbp i) (n - 1)) tl) as [[vs cl] c2]. reflexivity.
Qed.

Lemma mkp_counter n is : forall cnt, cnt <= snd (mk_positions n cnt is).
Proof.
  induction is as [|i tl IH]; intros cnt; [simpl; lia|].
  rewrite mkp_cons. cbn [snd]. pose proof (IH (cnt + aux_size (lbp i) (n - 1))) as H1.
  pose proof (circ_aux_size_nonneg (lbp i) (n - 1)) as H2. lia.
Qed.

Lemma mkp_length n is : forall cnt, length (fst (fst (mk_positions n cnt is))) = length is.
Proof.
  induction is as [|i tl IH]; intros cnt; [reflexivity|].
  rewrite mkp_cons. cbn [fst snd length]. rewrite IH. reflexivity.
Qed.

Lemma mkp_nth n is : forall cnt k, (k < length is)%nat ->
  cnt <= vbase (nth k (fst (fst (mk_positions n cnt is))) dummy_var)
  /\ var_below (snd (mk_positions n cnt is)) (nth k (fst (fst (mk_positions n cnt is))) dummy_var)
  /\ vlb (nth k (fst (fst (mk_positions n cnt is))) dummy_var) = lbp (nth k is 0)
  /\ vub (nth k (fst (fst (mk_positions n cnt is))) dummy_var) = n - 1.
Proof.
  induction is as [|i tl IH]; intros cnt k Hk; [simpl in Hk; lia|].
  rewrite mkp_cons. cbn [fst snd]. pose proof (circ_aux_size_nonneg (lbp i) (n - 1)) as Hs.
  destruct k as [|k]; cbn [nth].
  - split; [simpl; lia|]. split; [|split; reflexivity].
    apply (circ_var_below_mono (cnt + aux_size (lbp i) (n - 1))); [apply mkp_counter|apply circ_aux_below].
  - simpl in Hk. destruct (IH (cnt + aux_size (lbp i) (n - 1)) k) as (H1 & H2 & H3 & H4); [lia|].
    split; [lia|]. split; [exact H2|]. split; assumption.
Qed.

Lemma mkp_models b n is : forall cnt,
  models b (snd (fst (mk_positions n cnt is)))
  <-> forall v, In v (fst (fst (mk_positions n cnt is))) -> models b (exactly_one (lits_of v)).
Proof.
  induction is as [|i tl IH]; intros cnt.
  - simpl. rewrite models_nil. split; [intros _ v []|auto].
  - rewrite mkp_cons. cbn [fst snd]. rewrite models_app, IH. split.
    + intros [H1 H2] v [<-|Hv]; auto.
    + intros H. split; [apply H; left; reflexivity|]. intros v Hv. apply H. right. exact Hv.
Qed.

Lemma mkp_below n is : forall cnt, 0 < cnt ->
  cnf_below (snd (mk_positions n cnt is)) (snd (fst (mk_positions n cnt is))).
Proof.
  induction is as [|i tl IH]; intros cnt Hc; [simpl; apply cnf_below_nil|].
  rewrite mkp_cons. cbn [fst snd]. pose proof (circ_aux_size_nonneg (lbp i) (n - 1)) as Hs.
  apply cnf_below_app. split.
  - apply (cnf_below_mono (cnt + aux_size (lbp i) (n - 1))); [apply mkp_counter|].
    apply circ_eo_below; [exact Hc|apply circ_aux_below].
  - apply IH. lia.
Qed.

(* the witness for completeness: give the k-th position variable the value pos (k-th index) *)
Lemma mkp_complete (pos : Z -> Z) n is : (forall i, In i is -> lbp i <= pos i <= n - 1) ->
  forall cnt b, 0 < cnt ->
  exists b', agree_below cnt b b'
    /\ forall k, (k < length is)%nat ->
         VOK b' (nth k (fst (fst (mk_positions n cnt is))) dummy_var)
         /\ bv b' (nth k (fst (fst (mk_positions n cnt is))) dummy_var) = pos (nth k is 0).
Proof.
  induction is as [|i tl IH]; intros Hpos cnt b Hc.
  - exists b. split; [apply agree_below_refl|]. intros k Hk. simpl in Hk. lia.
  - rewrite mkp_cons. cbn [fst snd]. pose proof (circ_aux_size_nonneg (lbp i) (n - 1)) as Hs.
    set (v := mk_aux cnt (lbp i) (n - 1)). set (c1 := cnt + aux_size (lbp i) (n - 1)) in *.
    assert (Hq : vlb v <= pos i <= vub v) by (simpl; apply Hpos; left; reflexivity).
    destruct (set_var_EO b v (pos i) Hq) as [He Hb].
    assert (Hpos' : forall j, In j tl -> lbp j <= pos j <= n - 1) by (intros j Hj; apply Hpos; right; exact Hj).
    assert (Hc1 : 0 < c1) by lia.
    destruct (IH Hpos' c1 (set_var b v (pos i)) Hc1) as [b' [Hag Hk']].
    assert (Hvb : var_below c1 v) by apply circ_aux_below.
    exists b'. split.
    + apply (agree_below_trans cnt c1 b (set_var b v (pos i)) b'); [lia| |exact Hag].
      exact (set_var_agree b v (pos i)).
    + intros k Hk. destruct k as [|k]; cbn [nth].
      * split.
        -- apply (VOK_agree c1 (set_var b v (pos i)) b' v Hvb Hag). split; [exact Hc|exact He].
        -- rewrite (bv_agree c1 (set_var b v (pos i)) b' v Hc Hvb Hag He). exact Hb.
      * apply Hk'. simpl in Hk. lia.
Qed.

(* ------------------------------------------------------------------ the position variables of a circuit on N nodes *)
Definition pos_ok (b : asg) (n : Z) (T : list var) (N : nat) : Prop :=
  forall k, (k < N)%nat ->
    VOK b (nth k T dummy_var) /\ vlb (nth k T dummy_var) = lbp (Z.of_nat k) /\ vub (nth k T dummy_var) = n - 1.

Lemma pos_vars_length n cnt : 0 <= n -> length (pos_vars n cnt) = Z.to_nat n.
Proof. intros H. unfold pos_vars, circ_pos. rewrite mkp_length. apply zrange0_length. exact H. Qed.

Lemma pos_vars_nth n cnt k : (k < Z.to_nat n)%nat ->
  cnt <= vbase (nth k (pos_vars n cnt) dummy_var)
  /\ var_below (pos_cnt n cnt) (nth k (pos_vars n cnt) dummy_var)
  /\ vlb (nth k (pos_vars n cnt) dummy_var) = lbp (Z.of_nat k)
  /\ vub (nth k (pos_vars n cnt) dummy_var) = n - 1.
Proof.
  intros Hk. unfold pos_vars, pos_cnt, circ_pos.
  assert (Hl : (k < length (zrange 0 (n - 1)))%nat) by (rewrite zrange0_length by lia; exact Hk).
  destruct (mkp_nth n (zrange 0 (n - 1)) cnt k Hl) as (H1 & H2 & H3 & H4).
  rewrite zrange0_nth in H3 by exact Hk. auto.
Qed.

Lemma pos_cnt_ge n cnt : cnt <= pos_cnt n cnt.
Proof. apply mkp_counter. Qed.

(* under a model of the exactly-one clauses every position variable has a value *)
Lemma pos_eos_ok b n cnt : 0 < cnt -> 2 <= n ->
  (models b (pos_eos n cnt) <-> pos_ok b n (pos_vars n cnt) (Z.to_nat n)).
Proof.
  intros Hc Hn. unfold pos_eos, circ_pos. rewrite mkp_models. fold (circ_pos n cnt). fold (pos_vars n cnt). split.
  - intros H k Hk. destruct (pos_vars_nth n cnt k Hk) as (H1 & H2 & H3 & H4).
    split; [|split; assumption].
    assert (Hin : In (nth k (pos_vars n cnt) dummy_var) (pos_vars n cnt))
      by (apply nth_In; rewrite pos_vars_length by lia; exact Hk).
    split; [lia|]. apply exactly_one_ok; [lia| |apply H; exact Hin].
    rewrite H3, H4. unfold lbp. destruct (Z.of_nat k =? 0); lia.
  - intros H v Hv. destruct (In_nth _ _ dummy_var Hv) as [k [Hk <-]].
    rewrite pos_vars_length in Hk by lia.
    destruct (pos_vars_nth n cnt k Hk) as (H1 & H2 & H3 & H4). destruct (H k Hk) as [[Hb He] _].
    apply exactly_one_ok; [exact Hb| |exact He].
    rewrite H3, H4. unfold lbp. destruct (Z.of_nat k =? 0); lia.
Qed.

(* ------------------------------------------------------------------ range / no-self-loop clauses *)
Lemma circ_rng_ok b n vs : (forall v, In v vs -> VOK b v) ->
  (models b (circ_rng n vs)
   <-> forall i, (i < length vs)%nat ->
         0 <= bv b (nth i vs dummy_var) < n /\ bv b (nth i vs dummy_var) <> Z.of_nat i).
Proof.
  intros Hok. unfold circ_rng. rewrite models_flat_map. split.
  - intros H i Hi.
    assert (Hv : In (nth i vs dummy_var) vs) by (apply nth_In; exact Hi).
    destruct (Hok _ Hv) as [Hb He]. pose proof (EO_bv_dom b _ He) as Hd.
    assert (Hin : In (Z.of_nat i, nth i vs dummy_var) (indexed 0 vs)).
    { apply (indexed_In dummy_var). exists i. split; [exact Hi|]. split; [lia|reflexivity]. }
    specialize (H _ Hin). cbn [fst snd] in H. rewrite models_flat_map in H.
    specialize (H (bv b (nth i vs dummy_var), vlit (nth i vs dummy_var) (bv b (nth i vs dummy_var)))
                  (proj2 (bool_vars_In _ _ _) (conj Hd eq_refl))).
    cbn [fst snd] in H.
    destruct ((bv b (nth i vs dummy_var) =? Z.of_nat i)
              || negb ((0 <=? bv b (nth i vs dummy_var)) && (bv b (nth i vs dummy_var) <? n))) eqn:E.
    + rewrite models_one, ct_n in H by (apply vlit_pos; lia).
      rewrite (EO_lit_b b _ _ He Hd), Z.eqb_refl in H. discriminate.
    + apply orb_false_iff in E. destruct E as [E1 E2]. apply Z.eqb_neq in E1.
      apply negb_false_iff in E2. apply andb_true_iff in E2. destruct E2 as [E2 E3].
      apply Z.leb_le in E2. apply Z.ltb_lt in E3. lia.
  - intros H [i v] Hin. apply (indexed_In dummy_var) in Hin. destruct Hin as [k [Hk [Ei Ev]]].
    cbn [fst snd]. rewrite models_flat_map. intros [x l] Hx. apply bool_vars_In in Hx. destruct Hx as [Hx ->].
    cbn [fst snd].
    destruct ((x =? i) || negb ((0 <=? x) && (x <? n))) eqn:E; [|apply models_nil; exact I].
    assert (Hv : In v vs) by (rewrite Ev; apply nth_In; exact Hk).
    destruct (Hok v Hv) as [Hb He].
    rewrite models_one, ct_n by (apply vlit_pos; lia). rewrite (EO_lit_b b v x He Hx).
    destruct (x =? bv b v) eqn:F; [|reflexivity]. apply Z.eqb_eq in F. exfalso.
    specialize (H k Hk). rewrite <- Ev in H. rewrite <- F in H.
    apply orb_true_iff in E. destruct E as [E|E].
    + apply Z.eqb_eq in E. lia.
    + apply negb_true_iff in E. apply andb_false_iff in E.
      destruct E as [E|E]; [apply Z.leb_gt in E|apply Z.ltb_ge in E]; lia.
Qed.

Lemma circ_rng_below m n vs : (forall v, In v vs -> 0 < vbase v /\ var_below m v) -> cnf_below m (circ_rng n vs).
Proof.
  intros H. unfold circ_rng. apply cnf_below_flat_map. intros [i v] Hin.
  apply (indexed_In dummy_var) in Hin. destruct Hin as [k [Hk [Ei Ev]]].
  assert (Hv : In v vs) by (rewrite Ev; apply nth_In; exact Hk). destruct (H v Hv) as [Hb Hbel].
  cbn [fst snd]. apply cnf_below_flat_map. intros [x l] Hx. apply bool_vars_In in Hx. destruct Hx as [Hx ->].
  cbn [fst snd]. destruct ((x =? i) || negb ((0 <=? x) && (x <? n))); [|apply cnf_below_nil].
  pose proof (vlit_below m v x Hb Hbel Hx) as L. intros c [<-|[]] l [<-|[]]. tauto.
Qed.

(* ------------------------------------------------------------------ ordering clauses *)
Lemma circ_ord_ok b n vs T : n = Z.of_nat (length vs) -> (forall v, In v vs -> VOK b v) ->
  pos_ok b n T (length vs) ->
  (models b (circ_ord n vs T)
   <-> forall i, (i < length vs)%nat ->
         1 <= bv b (nth i vs dummy_var) <= n - 1 -> bv b (nth i vs dummy_var) <> Z.of_nat i ->
         bv b (nth i T dummy_var) < bv b (nth (Z.to_nat (bv b (nth i vs dummy_var))) T dummy_var)).
Proof.
  intros Hn Hok Hpos. unfold circ_ord. rewrite models_flat_map. split.
  - intros H i Hi Hj Hne.
    assert (Hv : In (nth i vs dummy_var) vs) by (apply nth_In; exact Hi).
    destruct (Hok _ Hv) as [Hb He]. pose proof (EO_bv_dom b _ He) as Hd.
    assert (Hin : In (Z.of_nat i, nth i vs dummy_var) (indexed 0 vs)).
    { apply (indexed_In dummy_var). exists i. split; [exact Hi|]. split; [lia|reflexivity]. }
    specialize (H _ Hin). cbv beta zeta in H. cbn [fst snd] in H. rewrite Nat2Z.id in H.
    rewrite models_flat_map in H.
    specialize (H (bv b (nth i vs dummy_var)) (proj2 (zrange_In _ _ _) Hj)).
    destruct (Hpos i Hi) as [[Hbi Hei] [Hli Hui]]. pose proof (EO_bv_dom b _ Hei) as Hdi.
    assert (Hjn : (Z.to_nat (bv b (nth i vs dummy_var)) < length vs)%nat) by lia.
    destruct (Hpos _ Hjn) as [[Hbj Hej] [Hlj Huj]]. pose proof (EO_bv_dom b _ Hej) as Hdj.
    destruct (negb (bv b (nth i vs dummy_var) =? Z.of_nat i) && in_dom (nth i vs dummy_var) (bv b (nth i vs dummy_var))) eqn:C.
    + rewrite models_flat_map in H.
      specialize (H (bv b (nth i T dummy_var), vlit (nth i T dummy_var) (bv b (nth i T dummy_var)))
                    (proj2 (bool_vars_In _ _ _) (conj Hdi eq_refl))).
      rewrite models_flat_map in H.
      specialize (H (_, vlit _ _) (proj2 (bool_vars_In _ _ _) (conj Hdj eq_refl))).
      cbn [fst snd] in H.
      match type of H with models b (if ?c then _ else _) => destruct c eqn:L end;
        [|apply Z.leb_gt in L; exact L].
      exfalso. rewrite models_one, ct_nnn in H by (apply vlit_pos; lia).
      rewrite (EO_lit_b b _ _ He Hd), (EO_lit_b b _ _ Hei Hdi), (EO_lit_b b _ _ Hej Hdj), !Z.eqb_refl in H.
      discriminate.
    + exfalso. apply andb_false_iff in C. destruct C as [C|C].
      * apply negb_false_iff in C. apply Z.eqb_eq in C. contradiction.
      * apply not_in_dom in C. contradiction.
  - intros H [i v] Hin. apply (indexed_In dummy_var) in Hin. destruct Hin as [k [Hk [Ei Ev]]].
    assert (Ei' : i = Z.of_nat k) by lia. clear Ei. subst i.
    cbv beta zeta. cbn [fst snd]. rewrite Nat2Z.id.
    assert (Hv : In v vs) by (rewrite Ev; apply nth_In; exact Hk). destruct (Hok v Hv) as [Hb He].
    rewrite models_flat_map. intros j Hj. apply zrange_In in Hj.
    destruct (negb (j =? Z.of_nat k) && in_dom v j) eqn:C; [|apply models_nil; exact I].
    apply andb_true_iff in C. destruct C as [C1 C2]. apply negb_true_iff in C1. apply Z.eqb_neq in C1.
    apply in_dom_iff in C2.
    destruct (Hpos k Hk) as [[Hbi Hei] [Hli Hui]].
    assert (Hjn : (Z.to_nat j < length vs)%nat) by lia.
    destruct (Hpos _ Hjn) as [[Hbj Hej] [Hlj Huj]].
    rewrite models_flat_map. intros [x1 l1] H1. apply bool_vars_In in H1. destruct H1 as [H1 ->].
    rewrite models_flat_map. intros [x2 l2] H2. apply bool_vars_In in H2. destruct H2 as [H2 ->].
    cbn [fst snd]. destruct (x2 <=? x1) eqn:L; [|apply models_nil; exact I]. apply Z.leb_le in L.
    rewrite models_one, ct_nnn by (apply vlit_pos; lia).
    rewrite (EO_lit_b b v j He C2), (EO_lit_b b _ x1 Hei H1), (EO_lit_b b _ x2 Hej H2).
    destruct (j =? bv b v) eqn:F1; [|reflexivity].
    destruct (x1 =? bv b (nth k T dummy_var)) eqn:F2; [|reflexivity].
    destruct (x2 =? bv b (nth (Z.to_nat j) T dummy_var)) eqn:F3; [|reflexivity].
    exfalso. apply Z.eqb_eq in F1. apply Z.eqb_eq in F2. apply Z.eqb_eq in F3.
    specialize (H k Hk). rewrite <- Ev, <- F1 in H. lia.
Qed.

Lemma circ_ord_below m n vs T : n = Z.of_nat (length vs) ->
  (forall v, In v vs -> 0 < vbase v /\ var_below m v) ->
  (forall k, (k < length vs)%nat -> 0 < vbase (nth k T dummy_var) /\ var_below m (nth k T dummy_var)) ->
  cnf_below m (circ_ord n vs T).
Proof.
  intros Hn H HT. unfold circ_ord. apply cnf_below_flat_map. intros [i v] Hin.
  apply (indexed_In dummy_var) in Hin. destruct Hin as [k [Hk [Ei Ev]]].
  assert (Ei' : i = Z.of_nat k) by lia. clear Ei. subst i.
  cbv beta zeta. cbn [fst snd]. rewrite Nat2Z.id.
  assert (Hv : In v vs) by (rewrite Ev; apply nth_In; exact Hk). destruct (H v Hv) as [Hb Hbel].
  apply cnf_below_flat_map. intros j Hj. apply zrange_In in Hj.
  destruct (negb (j =? Z.of_nat k) && in_dom v j) eqn:C; [|apply cnf_below_nil].
  apply andb_true_iff in C. destruct C as [_ C2]. apply in_dom_iff in C2.
  destruct (HT k Hk) as [Hbi Hvi].
  assert (Hjn : (Z.to_nat j < length vs)%nat) by lia. destruct (HT _ Hjn) as [Hbj Hvj].
  apply cnf_below_flat_map. intros [x1 l1] H1. apply bool_vars_In in H1. destruct H1 as [H1 ->].
  apply cnf_below_flat_map. intros [x2 l2] H2. apply bool_vars_In in H2. destruct H2 as [H2 ->].
  cbn [fst snd]. destruct (x2 <=? x1); [|apply cnf_below_nil].
  pose proof (vlit_below m v j Hb Hbel C2) as L0.
  pose proof (vlit_below m _ x1 Hbi Hvi H1) as L1. pose proof (vlit_below m _ x2 Hbj Hvj H2) as L2.
  intros c [<-|[]] l [<-|[<-|[<-|[]]]]; tauto.
Qed.

(* ------------------------------------------------------------------ framing of enc_circuit *)
Lemma enc_circuit_counter n vs : n <= snd (enc_circuit n vs).
Proof.
  destruct vs as [|v [|w tl]].
  - simpl. lia.
  - rewrite enc_circuit_one. simpl. lia.
  - rewrite enc_circuit_big by (simpl; lia). cbn [snd]. apply pos_cnt_ge.
Qed.

Lemma enc_circuit_below n vs : 0 < n -> (forall v, In v vs -> 0 < vbase v /\ var_below n v) ->
  cnf_below (snd (enc_circuit n vs)) (fst (enc_circuit n vs)).
Proof.
  intros Hn H. destruct vs as [|v [|w tl]].
  - simpl. apply cnf_below_nil.
  - rewrite enc_circuit_one. cbn [fst snd]. apply cnf_below_app. split.
    + apply circ_all_different_below. exact H.
    + apply circ_rng_below. exact H.
  - assert (HL : (2 <= length (v :: w :: tl))%nat) by (simpl; lia).
    rewrite enc_circuit_big by exact HL. cbn [fst snd].
    set (vs := v :: w :: tl) in *. set (N := Z.of_nat (length vs)) in *.
    assert (HN : 2 <= N) by (unfold N; lia).
    pose proof (pos_cnt_ge N n) as Hge.
    assert (H' : forall u, In u vs -> 0 < vbase u /\ var_below (pos_cnt N n) u).
    { intros u Hu. destruct (H u Hu) as [Hb Hbel]. split; [exact Hb|].
      apply (circ_var_below_mono n); assumption. }
    assert (HT : forall k, (k < length vs)%nat ->
               0 < vbase (nth k (pos_vars N n) dummy_var) /\ var_below (pos_cnt N n) (nth k (pos_vars N n) dummy_var)).
    { intros k Hk. assert (Hk' : (k < Z.to_nat N)%nat) by (unfold N; lia).
      destruct (pos_vars_nth N n k Hk') as (H1 & H2 & _). split; [lia|exact H2]. }
    apply cnf_below_app; split; [|apply cnf_below_app; split; [|apply cnf_below_app; split; [|apply cnf_below_app; split]]].
    + apply circ_all_different_below. exact H'.
    + apply circ_rng_below. exact H'.
    + apply mkp_below. exact Hn.
    + assert (H0 : (0 < Z.to_nat N)%nat) by lia.
      destruct (pos_vars_nth N n 0%nat H0) as (H1 & H2 & H3 & H4).
      assert (Hd : vlb (nth 0 (pos_vars N n) dummy_var) <= 0 <= vub (nth 0 (pos_vars N n) dummy_var))
        by (rewrite H3, H4; change (lbp (Z.of_nat 0)) with 0; lia).
      pose proof (vlit_below (pos_cnt N n) _ 0 (Z.lt_le_trans _ _ _ Hn H1) H2 Hd) as L.
      intros c [<-|[]] l [<-|[]]. tauto.
    + apply circ_ord_below; [reflexivity|exact H'|exact HT].
Qed.
