(* C06 - soundness of the Gallina model counter CpCheck.cnf_projection_ok, "nothing extra" half:
   if the check accepts a clause list f for the CP model M, then EVERY assignment satisfying f gives each
   variable of M exactly one value of its domain and these values satisfy every constraint of M (holdsb),
   i.e. they are one of the brute-force CP solutions.  (The enumeration `enum` is complete.) *)
From Coq Require Import List ZArith Bool Lia.
From SV Require Import C06.CpAst C06.CpEnc C06.CpCheck C06.EncBasics C06.EncFrame C06.EncModel.
Import ListNotations.
Open Scope Z_scope.

Definition lit_var_in (lo hi : Z) (c : clause) : Prop := forall l, In l c -> lo <= Z.abs l < hi.

(* ------------------------------------------------------------------ simp_clause / assign *)
Lemma simp_clause_some b v bval c c' : 0 < v -> b v = bval -> simp_clause v bval c = Some c' ->
  clause_true b c' = clause_true b c
  /\ (forall l, In l c' -> In l c /\ Z.abs l <> v).
Proof.
  intros Hv Hb. revert c'. induction c as [|l tl IH]; intros c' H; simpl in H.
  - inversion H; subst. split; [reflexivity|intros l []].
  - destruct (l =? (if bval then v else - v)) eqn:E1; [discriminate|].
    destruct (simp_clause v bval tl) as [tl'|] eqn:E2; [|discriminate].
    destruct (IH tl' eq_refl) as [IH1 IH2].
    apply Z.eqb_neq in E1.
    destruct (l =? (if bval then - v else v)) eqn:E3.
    + inversion H; subst c'. apply Z.eqb_eq in E3. split.
      * unfold clause_true in *. simpl. rewrite <- IH1.
        assert (lit_true b l = false).
        { subst l. destruct bval.
          - rewrite lit_true_neg by exact Hv. rewrite Hb. reflexivity.
          - rewrite lit_true_pos by exact Hv. exact Hb. }
        rewrite H0. reflexivity.
      * intros x Hx. destruct (IH2 x Hx) as [A B]. split; [right; exact A|exact B].
    + inversion H; subst c'. apply Z.eqb_neq in E3. split.
      * unfold clause_true in *. simpl. rewrite IH1. reflexivity.
      * intros x [<-|Hx].
        -- split; [left; reflexivity|]. destruct bval; lia.
        -- destruct (IH2 x Hx) as [A B]. split; [right; exact A|exact B].
Qed.

Lemma assign_complete b v bval f : 0 < v -> b v = bval -> models b f ->
  exists f', assign v bval f = Some f' /\ models b f'
             /\ forall c', In c' f' -> exists c, In c f /\ forall l, In l c' -> In l c /\ Z.abs l <> v.
Proof.
  intros Hv Hb. induction f as [|c tl IH]; intros Hm.
  - exists []. split; [reflexivity|]. split; [intros c []|intros c' []].
  - apply models_cons in Hm. destruct Hm as [Hc Htl]. destruct (IH Htl) as [tl' [E [Hm' Hsub]]].
    simpl. destruct (simp_clause v bval c) as [c'|] eqn:S.
    + destruct (simp_clause_some b v bval c c' Hv Hb S) as [S1 S2].
      destruct c' as [|x c''].
      * rewrite <- S1 in Hc. discriminate.
      * rewrite E. exists ((x :: c'') :: tl'). split; [reflexivity|]. split.
        -- apply models_cons. split; [rewrite S1; exact Hc|exact Hm'].
        -- intros d [<-|Hd]; [exists c; split; [left; reflexivity|exact S2]|].
           destruct (Hsub d Hd) as [c0 [A B]]. exists c0. split; [right; exact A|exact B].
    + exists tl'. split; [exact E|]. split; [exact Hm'|].
      intros d Hd. destruct (Hsub d Hd) as [c0 [A B]]. exists c0. split; [right; exact A|exact B].
Qed.

(* ------------------------------------------------------------------ the enumeration is complete *)
Lemma enum_complete b : forall k v f trues, 0 < v ->
  (forall c, In c f -> lit_var_in v (v + Z.of_nat k) c) -> models b f ->
  exists m, In m (enum k v f trues)
            /\ forall l, In l m <-> In l trues \/ (v <= l < v + Z.of_nat k /\ b l = true).
Proof.
  induction k as [|k IH]; intros v f trues Hv Hr Hm.
  - simpl. destruct f as [|c tl].
    + exists trues. split; [left; reflexivity|]. intros l. split; [auto|intros [H|[H _]]; [exact H|lia]].
    + exfalso. specialize (Hm c (or_introl eq_refl)). destruct c as [|l c']; [discriminate|].
      specialize (Hr (l :: c') (or_introl eq_refl) l (or_introl eq_refl)). lia.
  - destruct (assign_complete b v (b v) f Hv eq_refl Hm) as [f' [E [Hm' Hsub]]].
    assert (Hr' : forall c, In c f' -> lit_var_in (v + 1) (v + 1 + Z.of_nat k) c).
    { intros c' Hc' l Hl. destruct (Hsub c' Hc') as [c [Hc Hl']]. destruct (Hl' l Hl) as [A B].
      specialize (Hr c Hc l A). lia. }
    cbn [enum]. destruct (b v) eqn:Ebv.
    + rewrite E. destruct (IH (v + 1) f' (v :: trues) ltac:(lia) Hr' Hm') as [m [Hin Hchar]].
      exists m. split; [apply in_or_app; right; exact Hin|].
      intros l. rewrite Hchar. simpl. split.
      * intros [[<-|H]|[H1 H2]]; [right; split; [lia|exact Ebv]|left; exact H|right; split; [lia|exact H2]].
      * intros [H|[H1 H2]]; [left; right; exact H|].
        destruct (Z.eq_dec l v) as [->|Hne]; [left; left; reflexivity|right; split; [lia|exact H2]].
    + rewrite E. destruct (IH (v + 1) f' trues ltac:(lia) Hr' Hm') as [m [Hin Hchar]].
      exists m. split; [apply in_or_app; left; exact Hin|].
      intros l. rewrite Hchar. split.
      * intros [H|[H1 H2]]; [left; exact H|right; split; [lia|exact H2]].
      * intros [H|[H1 H2]]; [left; exact H|].
        destruct (Z.eq_dec l v) as [->|Hne]; [congruence|right; split; [lia|exact H2]].
Qed.

Lemma max_lit_ge f c l : In c f -> In l c -> Z.abs l <= max_lit f.
Proof.
  unfold max_lit. induction f as [|d tl IH]; intros Hc Hl; [destruct Hc|]. simpl.
  assert (Hmono : forall (cl : clause) a, a <= fold_right (fun l0 a' => Z.max (Z.abs l0) a') a cl).
  { induction cl as [|x xs IHx]; intros a; simpl; [lia|]. specialize (IHx a). lia. }
  destruct Hc as [->|Hc].
  - clear IH. induction c as [|x xs IHx]; [destruct Hl|]. simpl. destruct Hl as [->|Hl]; [lia|].
    specialize (IHx Hl). lia.
  - specialize (IH Hc Hl). specialize (Hmono d (fold_right (fun c0 a => fold_right (fun l0 a' => Z.max (Z.abs l0) a') a c0) 0 tl)). lia.
Qed.

Lemma zmem_In x l : zmem x l = true <-> In x l.
Proof.
  unfold zmem. rewrite existsb_exists. split.
  - intros [y [Hy E]]. apply Z.eqb_eq in E. subst. exact Hy.
  - intros H. exists x. split; [exact H|apply Z.eqb_refl].
Qed.

Lemma decode_all_spec trues vs xs : decode_all trues vs = Some xs ->
  Forall2 (fun v x => true_vals trues v = [x]) vs xs.
Proof.
  revert xs. induction vs as [|v tl IH]; intros xs H; simpl in H.
  - inversion H. constructor.
  - destruct (true_vals trues v) as [|x [|y r]] eqn:T; try discriminate.
    destruct (decode_all trues tl) as [xs'|] eqn:D; [|discriminate]. inversion H; subst.
    constructor; [exact T|apply IH; reflexivity].
Qed.

Lemma box_In vs xs : Forall2 (fun v x => In x (vdom v)) vs xs -> In xs (box vs).
Proof.
  induction 1 as [|v x vs' xs' Hx H IH]; simpl; [left; reflexivity|].
  apply in_flat_map. exists x. split; [exact Hx|]. apply in_map. exact IH.
Qed.

(* ------------------------------------------------------------------ the theorem *)
Theorem cnf_projection_ok_no_extra M f b :
  wf_model M = true -> cnf_projection_ok M (Some f) = true -> models b f ->
  exists xs,
    Forall2 (fun v x => filter (fun y => b (vlit v y)) (vdom v) = [x]) (m_vars M) xs
    /\ forallb (holdsb (asgn_of (m_vars M) xs)) (m_cons M) = true
    /\ In xs (cp_solutions M).
Proof.
  intros Hwf Hok Hm. pose proof (wf_model_props M Hwf) as W.
  unfold cnf_projection_ok in Hok. rewrite !andb_true_iff in Hok. destruct Hok as [[Hnz Hdec] _].
  set (nv := Z.max (max_lit f) (m_next M - 1)) in *.
  assert (Hne : has_empty f = false).
  { destruct (has_empty f) eqn:E; [|reflexivity]. unfold has_empty in E. apply existsb_exists in E.
    destruct E as [c [Hc Hc']]. destruct c; [|discriminate]. specialize (Hm [] Hc). discriminate. }
  assert (Hr : forall c, In c f -> lit_var_in 1 (1 + Z.of_nat (Z.to_nat nv)) c).
  { intros c Hc l Hl. pose proof (max_lit_ge f c l Hc Hl) as Hle.
    rewrite forallb_forall in Hnz. specialize (Hnz c Hc). rewrite forallb_forall in Hnz. specialize (Hnz l Hl).
    apply negb_true_iff in Hnz. apply Z.eqb_neq in Hnz. unfold nv. lia. }
  destruct (enum_complete b (Z.to_nat nv) 1 f [] ltac:(lia) Hr Hm) as [m [Hin Hchar]].
  assert (Hall : In m (all_models nv f)) by (unfold all_models; rewrite Hne; exact Hin).
  rewrite forallb_forall in Hdec.
  specialize (Hdec (decode_all m (m_vars M)) (in_map _ _ _ Hall)).
  destruct (decode_all m (m_vars M)) as [xs|] eqn:D; [|discriminate].
  apply andb_true_iff in Hdec. destruct Hdec as [Hh _].
  exists xs.
  assert (HF : Forall2 (fun v x => filter (fun y => b (vlit v y)) (vdom v) = [x]) (m_vars M) xs).
  { pose proof (decode_all_spec m (m_vars M) xs D) as HF0.
    assert (Hvars : forall v, In v (m_vars M) -> true_vals m v = filter (fun y => b (vlit v y)) (vdom v)).
    { intros v Hv. unfold true_vals. apply filter_ext_in. intros y Hy. apply vdom_In in Hy.
      destruct (wf_vars M W v Hv) as [A [B C]]. unfold var_below in C.
      assert (Hl : 1 <= vlit v y < 1 + Z.of_nat (Z.to_nat nv)) by (unfold vlit, nv; lia).
      destruct (b (vlit v y)) eqn:Eb.
      - apply zmem_In. apply Hchar. right. split; [exact Hl|exact Eb].
      - destruct (zmem (vlit v y) m) eqn:Ez; [|reflexivity]. apply zmem_In in Ez. apply Hchar in Ez.
        destruct Ez as [[]|[_ Ez]]. congruence. }
    clear - HF0 Hvars. induction HF0 as [|v x vs xs' Hx H IH]; constructor.
    - rewrite <- Hvars by (left; reflexivity). exact Hx.
    - apply IH. intros w Hw. apply Hvars. right. exact Hw. }
  split; [exact HF|]. split; [exact Hh|].
  unfold cp_solutions. apply filter_In. split; [|exact Hh].
  apply box_In. clear - HF. induction HF as [|v x vs xs' Hx H IH]; constructor; [|exact IH].
  assert (Hi : In x (filter (fun y => b (vlit v y)) (vdom v))) by (rewrite Hx; left; reflexivity).
  apply filter_In in Hi. apply Hi.
Qed.

(* INFEASIBLE reported by the encoder itself is accepted only if the box contains no CP solution *)
Theorem cnf_projection_ok_none M : cnf_projection_ok M None = true -> cp_solutions M = [].
Proof.
  unfold cnf_projection_ok. destruct (cp_solutions M) as [|x tl]; [reflexivity|]. simpl. discriminate.
Qed.
