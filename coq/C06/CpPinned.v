(* C06 - the circuit encoding as it was BEFORE fix 5a875d8 (the tree pinned by the property text), and the
   witness of the property text: on 4 nodes it admits s = [1;0;3;2] (two 2-cycles).
   Pinned code: _create_int_var emitted no exactly-one for the MTZ position variables, and the ordering
   loop ranged `ti` over the SUCCESSOR's domain and `tj` over t[j].lb..ti. *)
From Coq Require Import List ZArith Bool Lia.
From SV Require Import C06.CpAst C06.CpEnc.
Import ListNotations.
Open Scope Z_scope.

Fixpoint mk_positions_pinned (n : Z) (cnt : Z) (is : list Z) : list var * Z :=
  match is with
  | [] => ([], cnt)
  | i :: tl =>
      let lb := if i =? 0 then 0 else 1 in
      let v := mk_aux cnt lb (n - 1) in
      let '(vs, c2) := mk_positions_pinned n (cnt + aux_size lb (n - 1)) tl in
      (v :: vs, c2)
  end.

Definition enc_circuit_pinned (cnt : Z) (vs : list var) : cnf * Z :=
  let n := Z.of_nat (length vs) in
  match vs with
  | [] => ([], cnt)
  | _ :: _ =>
      let ad := enc_all_different vs in
      let noself := flat_map (fun iv => if in_dom (snd iv) (fst iv) then [[- vlit (snd iv) (fst iv)]] else []) (indexed 0 vs) in
      if n <=? 1 then (ad ++ noself, cnt) else
      let '(t, cnt1) := mk_positions_pinned n cnt (zrange 0 (n - 1)) in
      let t0 := nth 0 t dummy_var in
      let ord := flat_map (fun iv =>
                   let i := fst iv in let v := snd iv in
                   let ti_var := nth (Z.to_nat i) t dummy_var in
                   flat_map (fun j =>
                     if in_dom v j then
                       let tj_var := nth (Z.to_nat j) t dummy_var in
                       flat_map (fun ti =>
                         if in_dom ti_var ti then
                           flat_map (fun tj => if in_dom tj_var tj then [[- vlit v j; - vlit ti_var ti; - vlit tj_var tj]] else [])
                                    (zrange (vlb tj_var) ti)
                         else []) (vdom v)
                     else []) (zrange 1 (n - 1))) (indexed 0 vs) in
      (ad ++ noself ++ [[vlit t0 0]] ++ ord, cnt1)
  end.

Definition pinned_vars : list var :=
  [mkVar 0 0 3 true 1; mkVar 1 0 3 true 5; mkVar 2 0 3 true 9; mkVar 3 0 3 true 13].
Definition pinned_cnf : cnf := enc_vars pinned_vars ++ fst (enc_circuit_pinned 17 pinned_vars).
(* s0=1, s1=0, s2=3, s3=2, t0=0, every other position literal false *)
Definition pinned_asg : asg := fun l => zmem l [2; 5; 12; 15; 17].

Lemma circuit_pinned_refuted :
  exists b : asg,
    models b pinned_cnf
    /\ map (dec_var b) pinned_vars = [Some 1; Some 0; Some 3; Some 2]
    /\ (forall v, In v pinned_vars -> length (filter (fun x => b (vlit v x)) (vdom v)) = 1%nat)
    /\ ~ circuit_vals [1; 0; 3; 2].
Proof.
  exists pinned_asg. split; [|split; [|split]].
  - assert (H : models_b pinned_asg pinned_cnf = true) by (vm_compute; reflexivity).
    intros c Hc. unfold models_b in H. rewrite forallb_forall in H. exact (H c Hc).
  - vm_compute. reflexivity.
  - intros v Hv. simpl in Hv.
    destruct Hv as [<-|[<-|[<-|[<-|[]]]]]; vm_compute; reflexivity.
  - intros [_ [H _]]. apply (H 2%nat); [simpl; lia | reflexivity].
Qed.

(* the encoding of the current tree rejects the same assignment however the position literals are chosen:
   checked here for the decoded successor values by brute force over the 2^13 position assignments is
   left to CpCheck.cnf_projection_ok on the corpus case circuit4_two_2cycles (run by the harness). *)
