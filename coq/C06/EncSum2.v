(* C06 - soundness + completeness of _encode_sum_ge (continuation of EncSum.v, same method as sum <= t). *)
From Coq Require Import List ZArith Bool Lia.
From SV Require Import C06.CpAst C06.CpEnc C06.EncBasics C06.EncPairwise C06.EncFrame C06.EncSum.
Import ListNotations. Open Scope Z_scope.

(* ================================================================== sum >= t *)
Lemma sum_ge_go_nil n v1 t :
  sum_ge_go n v1 [] t = (flat_map (fun a => if a <? t then [[- vlit v1 a]] else []) (vdom v1), n).
Proof. reflexivity. Qed.

Lemma sum_ge_go_one n v1 v2 t : sum_ge_go n v1 [v2] t = (pair_forbid v1 v2 (fun s => s <? t), n).
Proof. reflexivity. Qed.

Lemma sum_ge_go_step0 n v1 v2 v3 r t :
  sum_ge_go n v1 (v2 :: v3 :: r) t =
    let '(cl, n2) := sum_ge_go (n + aux_size (Z.max (vlb v1 + vlb v2) (t - sum_ub (v3 :: r))) (vub v1 + vub v2))
                               (mk_aux n (Z.max (vlb v1 + vlb v2) (t - sum_ub (v3 :: r))) (vub v1 + vub v2)) (v3 :: r) t in
    (exactly_one (lits_of (mk_aux n (Z.max (vlb v1 + vlb v2) (t - sum_ub (v3 :: r))) (vub v1 + vub v2)))
     ++ partial_clauses v1 v2 (mk_aux n (Z.max (vlb v1 + vlb v2) (t - sum_ub (v3 :: r))) (vub v1 + vub v2)) true ++ cl, n2).
Proof. reflexivity. Qed.

Lemma sum_ge_go_step n v1 v2 v3 r t :
  sum_ge_go n v1 (v2 :: v3 :: r) t =
    let lb := Z.max (vlb v1 + vlb v2) (t - sum_ub (v3 :: r)) in let ub := vub v1 + vub v2 in
    let rr := sum_ge_go (n + aux_size lb ub) (mk_aux n lb ub) (v3 :: r) t in
    ((exactly_one (lits_of (mk_aux n lb ub)) ++ partial_clauses v1 v2 (mk_aux n lb ub) true) ++ fst rr, snd rr).
Proof.
  rewrite sum_ge_go_step0. cbv zeta.
  destruct (sum_ge_go _ _ (v3 :: r) t) as [cl n2]. cbn [fst snd]. rewrite <- app_assoc. reflexivity.
Qed.

Lemma sum_ge_go_counter t rest : forall n v1, n <= snd (sum_ge_go n v1 rest t).
Proof.
  induction rest as [|v2 rest' IH]; intros n v1.
  - rewrite sum_ge_go_nil. cbn [snd]. lia.
  - destruct rest' as [|v3 r].
    + rewrite sum_ge_go_one. cbn [snd]. lia.
    + rewrite sum_ge_go_step. cbv zeta. cbn [fst snd].
      pose proof (aux_size_nonneg (Z.max (vlb v1 + vlb v2) (t - sum_ub (v3 :: r))) (vub v1 + vub v2)) as Hs.
      eapply Z.le_trans; [|apply IH]. lia.
Qed.

Lemma sum_ge_go_below t rest : forall n v1, 0 < n ->
  (forall v, In v (v1 :: rest) -> 0 < vbase v /\ var_below n v) ->
  cnf_below (snd (sum_ge_go n v1 rest t)) (fst (sum_ge_go n v1 rest t)).
Proof.
  induction rest as [|v2 rest' IH]; intros n v1 Hn Hvs.
  - rewrite sum_ge_go_nil. cbn [fst snd]. apply (unit_forbid_below n v1 (fun a => a <? t)).
    apply Hvs. left. reflexivity.
  - pose proof (Hvs v1 (or_introl eq_refl)) as H1.
    pose proof (Hvs v2 (or_intror (or_introl eq_refl))) as H2.
    destruct rest' as [|v3 r].
    + rewrite sum_ge_go_one. cbn [fst snd]. apply pair_forbid_below; assumption.
    + rewrite sum_ge_go_step. cbv zeta. cbn [fst snd]. apply cnf_below_app. split.
      * eapply cnf_below_mono; [apply sum_ge_go_counter|]. apply chain_below; assumption.
      * apply IH.
        -- pose proof (aux_size_nonneg (Z.max (vlb v1 + vlb v2) (t - sum_ub (v3 :: r))) (vub v1 + vub v2)). lia.
        -- apply chain_vars_below; [exact Hn|]. intros v Hv. apply Hvs. right. right. exact Hv.
Qed.

Lemma sum_ge_go_sound b t rest : forall n v1, 0 < n -> (forall v, In v (v1 :: rest) -> VOK b v) ->
  models b (fst (sum_ge_go n v1 rest t)) -> bsum b (v1 :: rest) >= t.
Proof.
  induction rest as [|v2 rest' IH]; intros n v1 Hn Hok Hm.
  - rewrite sum_ge_go_nil in Hm. cbn [fst] in Hm.
    apply (unit_forbid_ok b v1 (fun a => a <? t)) in Hm; [|apply Hok; left; reflexivity].
    apply Z.ltb_ge in Hm. rewrite bsum_cons. unfold bsum. simpl. lia.
  - pose proof (Hok v1 (or_introl eq_refl)) as Hk1.
    pose proof (Hok v2 (or_intror (or_introl eq_refl))) as Hk2.
    destruct rest' as [|v3 r].
    + rewrite sum_ge_go_one in Hm. cbn [fst] in Hm. apply pair_forbid_ok in Hm; try assumption.
      apply Z.ltb_ge in Hm. rewrite !bsum_cons. unfold bsum. simpl. lia.
    + rewrite sum_ge_go_step in Hm. cbv zeta in Hm. cbn [fst] in Hm.
      apply models_app in Hm. destruct Hm as [Hm1 Hm2].
      destruct (chain_sound b n v1 v2 _ _ (v3 :: r) true Hn Hk1 Hk2 Hm1) as [Hps Hs]; [discriminate|].
      rewrite <- Hs. apply (IH _ _) in Hm2; [exact Hm2| |].
      * pose proof (aux_size_nonneg (Z.max (vlb v1 + vlb v2) (t - sum_ub (v3 :: r))) (vub v1 + vub v2)). lia.
      * intros v [<-|Hv]; [exact Hps|]. apply Hok. right. right. exact Hv.
Qed.

Lemma sum_ge_go_complete t rest : forall b n v1, 0 < n ->
  (forall v, In v (v1 :: rest) -> VOK b v /\ var_below n v) -> bsum b (v1 :: rest) >= t ->
  exists b', agree_below n b b' /\ models b' (fst (sum_ge_go n v1 rest t)).
Proof.
  induction rest as [|v2 rest' IH]; intros b n v1 Hn Hok Hr.
  - rewrite sum_ge_go_nil. cbn [fst]. exists b. split; [apply agree_below_refl|].
    apply (unit_forbid_ok b v1 (fun a => a <? t)); [apply Hok; left; reflexivity|].
    rewrite bsum_cons in Hr. unfold bsum in Hr. simpl in Hr. apply Z.ltb_ge. lia.
  - pose proof (proj1 (Hok v1 (or_introl eq_refl))) as Hk1.
    pose proof (proj1 (Hok v2 (or_intror (or_introl eq_refl)))) as Hk2.
    destruct rest' as [|v3 r].
    + rewrite sum_ge_go_one. cbn [fst]. exists b. split; [apply agree_below_refl|].
      apply pair_forbid_ok; try assumption.
      rewrite !bsum_cons in Hr. unfold bsum in Hr. simpl in Hr. apply Z.ltb_ge. lia.
    + rewrite sum_ge_go_step. cbv zeta. cbn [fst].
      destruct (chain_complete b n v1 v2 (Z.max (vlb v1 + vlb v2) (t - sum_ub (v3 :: r))) (vub v1 + vub v2)
                  (v3 :: r) Hn Hok) as [b1 [Hag [Hok1 [Hs Hcl]]]].
      { pose proof (EO_bv_dom b v1 (proj2 Hk1)). pose proof (EO_bv_dom b v2 (proj2 Hk2)).
        assert (Hb : sum_lb (v3 :: r) <= bsum b (v3 :: r) <= sum_ub (v3 :: r)).
        { apply bsum_bounds. intros v Hv. apply Hok. right. right. exact Hv. }
        rewrite (bsum_cons b v1), (bsum_cons b v2) in Hr. lia. }
      pose proof (aux_size_nonneg (Z.max (vlb v1 + vlb v2) (t - sum_ub (v3 :: r))) (vub v1 + vub v2)) as Hsz.
      assert (Hn1 : 0 < n + aux_size (Z.max (vlb v1 + vlb v2) (t - sum_ub (v3 :: r))) (vub v1 + vub v2)) by lia.
      destruct (IH b1 _ _ Hn1 Hok1) as [b' [Hag' Hm']].
      { rewrite Hs. exact Hr. }
      assert (Hle : n <= n + aux_size (Z.max (vlb v1 + vlb v2) (t - sum_ub (v3 :: r))) (vub v1 + vub v2)) by lia.
      exists b'. split; [exact (agree_below_trans _ _ b b1 b' Hle Hag Hag')|].
      apply models_app. split; [apply Hcl; exact Hag'|exact Hm'].
Qed.

Lemma enc_sum_ge_counter n vs t : n <= snd (enc_sum_ge n vs t).
Proof. destruct vs as [|v1 rest]; unfold enc_sum_ge; [cbn [snd]; lia|apply sum_ge_go_counter]. Qed.

Lemma enc_sum_ge_below n vs t : 0 < n -> (forall v, In v vs -> 0 < vbase v /\ var_below n v) ->
  cnf_below (snd (enc_sum_ge n vs t)) (fst (enc_sum_ge n vs t)).
Proof.
  intros Hn Hvs. destruct vs as [|v1 rest]; unfold enc_sum_ge.
  - cbn [fst snd]. destruct (0 <? t); [apply cnf_below_empty|apply cnf_below_nil].
  - apply sum_ge_go_below; assumption.
Qed.

Lemma enc_sum_ge_sound b n vs t : 0 < n -> (forall v, In v vs -> VOK b v) ->
  models b (fst (enc_sum_ge n vs t)) -> bsum b vs >= t.
Proof.
  intros Hn Hok Hm. destruct vs as [|v1 rest]; unfold enc_sum_ge in Hm.
  - cbn [fst] in Hm. change (bsum b []) with 0. destruct (0 <? t) eqn:E.
    + apply models_empty_clause in Hm. destruct Hm.
    + apply Z.ltb_ge in E. lia.
  - exact (sum_ge_go_sound b t rest n v1 Hn Hok Hm).
Qed.

Lemma enc_sum_ge_complete b n vs t : 0 < n -> (forall v, In v vs -> VOK b v /\ var_below n v) ->
  bsum b vs >= t -> exists b', agree_below n b b' /\ models b' (fst (enc_sum_ge n vs t)).
Proof.
  intros Hn Hok Hr. destruct vs as [|v1 rest]; unfold enc_sum_ge.
  - exists b. split; [apply agree_below_refl|]. cbn [fst]. change (bsum b []) with 0 in Hr.
    destruct (0 <? t) eqn:E; [apply Z.ltb_lt in E; lia|]. apply models_nil. exact I.
  - exact (sum_ge_go_complete t rest b n v1 Hn Hok Hr).
Qed.
