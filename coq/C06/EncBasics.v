(* C06 - basic facts: CNF semantics of small clauses, ranges, at-most-one / exactly-one, decoding. *)
From Coq Require Import List ZArith Bool Lia.
From SV Require Import C06.CpAst C06.CpEnc.
Import ListNotations.
Open Scope Z_scope.

(* ------------------------------------------------------------------ models of composed clause lists *)
Lemma models_app b f g : models b (f ++ g) <-> models b f /\ models b g.
Proof.
  unfold models. split.
  - intros H. split; intros c Hc; apply H; apply in_or_app; auto.
  - intros [H1 H2] c Hc. apply in_app_or in Hc. destruct Hc; auto.
Qed.

Lemma models_nil b : models b [] <-> True.
Proof. unfold models. split; [auto | intros _ c []]. Qed.

Lemma models_cons b c f : models b (c :: f) <-> clause_true b c = true /\ models b f.
Proof.
  unfold models. split.
  - intros H. split; [apply H; left; reflexivity | intros c' Hc; apply H; right; exact Hc].
  - intros [H1 H2] c' [<-|Hc]; auto.
Qed.

Lemma models_one b c : models b [c] <-> clause_true b c = true.
Proof. rewrite models_cons, models_nil. tauto. Qed.

Lemma models_flat_map {A} b (F : A -> cnf) xs :
  models b (flat_map F xs) <-> forall x, In x xs -> models b (F x).
Proof.
  induction xs as [|a tl IH]; simpl.
  - rewrite models_nil. split; [intros _ x []|auto].
  - rewrite models_app, IH. split.
    + intros [H1 H2] x [<-|Hx]; auto.
    + intros H. split; [apply H; auto | intros x Hx; apply H; auto].
Qed.

Lemma models_map {A} b (F : A -> clause) xs :
  models b (map F xs) <-> forall x, In x xs -> clause_true b (F x) = true.
Proof.
  induction xs as [|a tl IH]; simpl.
  - rewrite models_nil. split; [intros _ x []|auto].
  - rewrite models_cons, IH. split.
    + intros [H1 H2] x [<-|Hx]; auto.
    + intros H. split; [apply H; auto | intros x Hx; apply H; auto].
Qed.

Lemma models_empty_clause b : models b [[]] <-> False.
Proof. rewrite models_one. simpl. split; [discriminate|tauto]. Qed.

Lemma models_b_spec b f : models_b b f = true <-> models b f.
Proof. unfold models_b, models. apply forallb_forall. Qed.

(* ------------------------------------------------------------------ literals *)
Lemma lit_true_pos b l : 0 < l -> lit_true b l = b l.
Proof. intros H. unfold lit_true. destruct (0 <? l) eqn:E; [reflexivity|lia]. Qed.

Lemma lit_true_neg b l : 0 < l -> lit_true b (- l) = negb (b l).
Proof.
  intros H. unfold lit_true. destruct (0 <? - l) eqn:E; [lia|].
  replace (- - l) with l by lia. reflexivity.
Qed.

Lemma ct_p b a : 0 < a -> clause_true b [a] = b a.
Proof. intros H. unfold clause_true. simpl. rewrite lit_true_pos by exact H. apply orb_false_r. Qed.
Lemma ct_n b a : 0 < a -> clause_true b [- a] = negb (b a).
Proof. intros H. unfold clause_true. simpl. rewrite lit_true_neg by exact H. apply orb_false_r. Qed.
Lemma ct_nn b a c : 0 < a -> 0 < c -> clause_true b [- a; - c] = negb (b a) || negb (b c).
Proof. intros H1 H2. unfold clause_true. simpl. rewrite !lit_true_neg by assumption. rewrite orb_false_r. reflexivity. Qed.
Lemma ct_np b a c : 0 < a -> 0 < c -> clause_true b [- a; c] = negb (b a) || b c.
Proof. intros H1 H2. unfold clause_true. simpl. rewrite lit_true_neg, lit_true_pos by assumption. rewrite orb_false_r. reflexivity. Qed.
Lemma ct_pn b a c : 0 < a -> 0 < c -> clause_true b [a; - c] = b a || negb (b c).
Proof. intros H1 H2. unfold clause_true. simpl. rewrite lit_true_neg, lit_true_pos by assumption. rewrite orb_false_r. reflexivity. Qed.
Lemma ct_nnp b a c d : 0 < a -> 0 < c -> 0 < d -> clause_true b [- a; - c; d] = negb (b a) || (negb (b c) || b d).
Proof. intros H1 H2 H3. unfold clause_true. simpl. rewrite !lit_true_neg, lit_true_pos by assumption. rewrite orb_false_r. reflexivity. Qed.
Lemma ct_nnn b a c d : 0 < a -> 0 < c -> 0 < d -> clause_true b [- a; - c; - d] = negb (b a) || (negb (b c) || negb (b d)).
Proof. intros H1 H2 H3. unfold clause_true. simpl. rewrite !lit_true_neg by assumption. rewrite orb_false_r. reflexivity. Qed.

(* ------------------------------------------------------------------ ranges *)
Lemma zseq_In x s n : In x (zseq s n) <-> s <= x < s + Z.of_nat n.
Proof.
  revert s. induction n as [|n IH]; intros s; simpl.
  - split; [tauto|lia].
  - rewrite IH. lia.
Qed.

Lemma zrange_In x lo hi : In x (zrange lo hi) <-> lo <= x <= hi.
Proof. unfold zrange. rewrite zseq_In. lia. Qed.

Lemma zseq_NoDup s n : NoDup (zseq s n).
Proof.
  revert s. induction n as [|n IH]; intros s; simpl; constructor.
  - rewrite zseq_In. lia.
  - apply IH.
Qed.

Lemma zrange_NoDup lo hi : NoDup (zrange lo hi).
Proof. apply zseq_NoDup. Qed.

Lemma zseq_length s n : length (zseq s n) = n.
Proof. revert s. induction n as [|n IH]; intros s; simpl; [reflexivity|rewrite IH; reflexivity]. Qed.

Lemma in_dom_iff v x : in_dom v x = true <-> vlb v <= x <= vub v.
Proof. unfold in_dom. rewrite andb_true_iff, !Z.leb_le. tauto. Qed.

Lemma vdom_In v x : In x (vdom v) <-> vlb v <= x <= vub v.
Proof. apply zrange_In. Qed.

Lemma vlit_inj v x y : vlit v x = vlit v y -> x = y.
Proof. unfold vlit. lia. Qed.

Lemma vlit_pos v x : 0 < vbase v -> vlb v <= x -> 0 < vlit v x.
Proof. unfold vlit. lia. Qed.

Lemma lits_of_eq v : lits_of v = map (vlit v) (vdom v).
Proof. unfold lits_of, bool_vars. rewrite map_map. reflexivity. Qed.

Lemma bool_vars_In v x l : In (x, l) (bool_vars v) <-> (vlb v <= x <= vub v) /\ l = vlit v x.
Proof.
  unfold bool_vars. rewrite in_map_iff. split.
  - intros [y [E Hy]]. inversion E; subst. apply vdom_In in Hy. auto.
  - intros [Hx ->]. exists x. split; [reflexivity|apply vdom_In; exact Hx].
Qed.

(* ------------------------------------------------------------------ at most one / exactly one *)
Fixpoint amo_sem (b : asg) (ls : list lit) : Prop :=
  match ls with
  | [] => True
  | a :: tl => (b a = true -> forall c, In c tl -> b c = false) /\ amo_sem b tl
  end.

Lemma amo_models b ls : (forall l, In l ls -> 0 < l) -> (models b (amo ls) <-> amo_sem b ls).
Proof.
  induction ls as [|a tl IH]; intros Hpos; simpl.
  - apply models_nil.
  - rewrite models_app, models_map, IH by (intros l Hl; apply Hpos; right; exact Hl).
    assert (Ha : 0 < a) by (apply Hpos; left; reflexivity).
    split; intros [H1 H2]; split; auto.
    + intros Hb c Hc. specialize (H1 c Hc). rewrite ct_nn in H1 by (auto; apply Hpos; right; exact Hc).
      rewrite Hb in H1. simpl in H1. destruct (b c); [discriminate|reflexivity].
    + intros c Hc. rewrite ct_nn by (auto; apply Hpos; right; exact Hc).
      destruct (b a) eqn:Ea; [|reflexivity]. rewrite (H1 eq_refl c Hc). reflexivity.
Qed.

Lemma amo_sem_unique b ls : amo_sem b ls -> NoDup ls ->
  forall a c, In a ls -> In c ls -> b a = true -> b c = true -> a = c.
Proof.
  induction ls as [|x tl IH]; intros Hs Hnd a c Ha Hc Hba Hbc; [destruct Ha|].
  simpl in Hs. destruct Hs as [H1 H2]. inversion Hnd as [|? ? Hnx Hnd']; subst.
  destruct Ha as [<-|Ha]; destruct Hc as [<-|Hc]; auto.
  - rewrite (H1 Hba c Hc) in Hbc. discriminate.
  - rewrite (H1 Hbc a Ha) in Hba. discriminate.
Qed.

Lemma amo_sem_intro b ls : NoDup ls ->
  (forall a c, In a ls -> In c ls -> b a = true -> b c = true -> a = c) -> amo_sem b ls.
Proof.
  induction ls as [|x tl IH]; intros Hnd H; simpl; [exact I|].
  inversion Hnd as [|? ? Hnx Hnd']; subst. split.
  - intros Hbx c Hc. destruct (b c) eqn:E; [|reflexivity].
    assert (x = c) by (apply H; simpl; auto). subst. contradiction.
  - apply IH; [exact Hnd'|]. intros a c Ha Hc. apply H; simpl; auto.
Qed.

Lemma eo_models b ls : (forall l, In l ls -> 0 < l) -> ls <> [] ->
  (models b (exactly_one ls) <-> (exists l, In l ls /\ b l = true) /\ amo_sem b ls).
Proof.
  intros Hpos Hne. destruct ls as [|a tl]; [contradiction|].
  unfold exactly_one. rewrite models_cons, amo_models by exact Hpos.
  assert (E : clause_true b (a :: tl) = true <-> exists l, In l (a :: tl) /\ b l = true).
  { unfold clause_true. rewrite existsb_exists. split; intros [l [Hl Hb]]; exists l; split; auto.
    - rewrite lit_true_pos in Hb by (apply Hpos; exact Hl). exact Hb.
    - rewrite lit_true_pos by (apply Hpos; exact Hl). exact Hb. }
  rewrite E. tauto.
Qed.

(* ------------------------------------------------------------------ a variable has exactly one value *)
Definition hv (b : asg) (v : var) (x : Z) : bool := in_dom v x && b (vlit v x).
Definition EO (b : asg) (v : var) : Prop :=
  exists x, hv b v x = true /\ forall y, hv b v y = true -> y = x.
(* the value read off a SAT model (decode_sat_solution); 0 when no literal is true *)
Definition bv (b : asg) (v : var) : Z := match dec_var b v with Some x => x | None => 0 end.

Lemma lits_of_pos v : 0 < vbase v -> forall l, In l (lits_of v) -> 0 < l.
Proof.
  intros Hb l Hl. rewrite lits_of_eq in Hl. apply in_map_iff in Hl. destruct Hl as [x [<- Hx]].
  apply vdom_In in Hx. apply vlit_pos; lia.
Qed.

Lemma lits_of_NoDup v : NoDup (lits_of v).
Proof.
  rewrite lits_of_eq. assert (H : NoDup (vdom v)) by apply zrange_NoDup.
  induction H as [|x l Hx Hnd IH]; simpl; constructor; auto.
  rewrite in_map_iff. intros [y [E Hy]]. apply vlit_inj in E. subst. contradiction.
Qed.

Theorem exactly_one_ok b v : 0 < vbase v -> vlb v <= vub v ->
  (models b (exactly_one (lits_of v)) <-> EO b v).
Proof.
  intros Hb Hd.
  assert (Hne : lits_of v <> []).
  { rewrite lits_of_eq. intros E. apply map_eq_nil in E.
    assert (In (vlb v) (vdom v)) by (apply vdom_In; lia). rewrite E in H. destruct H. }
  rewrite eo_models by (try exact Hne; apply lits_of_pos; exact Hb). split.
  - intros [[l [Hl Hbl]] Hamo]. rewrite lits_of_eq in Hl. apply in_map_iff in Hl. destruct Hl as [x [<- Hx]].
    exists x. unfold hv. apply vdom_In in Hx. split.
    + rewrite Hbl. rewrite (proj2 (in_dom_iff v x) Hx). reflexivity.
    + intros y Hy. apply andb_true_iff in Hy. destruct Hy as [Hy1 Hy2]. apply in_dom_iff in Hy1.
      apply (vlit_inj v). apply (amo_sem_unique b (lits_of v) Hamo (lits_of_NoDup v)); auto;
        rewrite lits_of_eq; apply in_map; apply vdom_In; auto.
  - intros [x [Hx Hu]]. unfold hv in Hx. apply andb_true_iff in Hx. destruct Hx as [Hx1 Hx2].
    apply in_dom_iff in Hx1. split.
    + exists (vlit v x). split; [rewrite lits_of_eq; apply in_map; apply vdom_In; exact Hx1 | exact Hx2].
    + apply amo_sem_intro; [apply lits_of_NoDup|].
      intros a c Ha Hc Hba Hbc. rewrite lits_of_eq in Ha, Hc.
      apply in_map_iff in Ha. apply in_map_iff in Hc.
      destruct Ha as [ya [<- Hya]]. destruct Hc as [yc [<- Hyc]].
      apply vdom_In in Hya. apply vdom_In in Hyc.
      assert (ya = x) by (apply Hu; unfold hv; rewrite Hba, (proj2 (in_dom_iff v ya) Hya); reflexivity).
      assert (yc = x) by (apply Hu; unfold hv; rewrite Hbc, (proj2 (in_dom_iff v yc) Hyc); reflexivity).
      subst. reflexivity.
Qed.

Lemma EO_dec b v : EO b v -> exists x, dec_var b v = Some x /\ hv b v x = true /\ forall y, hv b v y = true -> y = x.
Proof.
  intros [x [Hx Hu]]. unfold dec_var.
  destruct (find (fun x0 => b (vlit v x0)) (vdom v)) as [x'|] eqn:F.
  - apply find_some in F. destruct F as [F1 F2]. apply vdom_In in F1.
    assert (x' = x) by (apply Hu; unfold hv; rewrite F2, (proj2 (in_dom_iff v x') F1); reflexivity).
    subst. exists x. auto.
  - exfalso. unfold hv in Hx. apply andb_true_iff in Hx. destruct Hx as [Hx1 Hx2].
    apply in_dom_iff in Hx1. pose proof (find_none _ _ F x (proj2 (vdom_In v x) Hx1)) as Hn.
    simpl in Hn. rewrite Hx2 in Hn. discriminate.
Qed.

Lemma EO_hv b v : EO b v -> forall x, hv b v x = true <-> x = bv b v.
Proof.
  intros H x. destruct (EO_dec b v H) as [x0 [Hd [Hx0 Hu]]]. unfold bv. rewrite Hd. split.
  - apply Hu.
  - intros ->. exact Hx0.
Qed.

Lemma EO_bv_dom b v : EO b v -> vlb v <= bv b v <= vub v.
Proof.
  intros H. pose proof (proj2 (EO_hv b v H (bv b v)) eq_refl) as Hh.
  unfold hv in Hh. apply andb_true_iff in Hh. apply in_dom_iff. tauto.
Qed.

(* the literal of value x is true iff x is THE value (for x in the domain) *)
Lemma EO_lit b v x : EO b v -> vlb v <= x <= vub v -> (b (vlit v x) = true <-> x = bv b v).
Proof.
  intros H Hx. rewrite <- (EO_hv b v H x). unfold hv. rewrite (proj2 (in_dom_iff v x) Hx). simpl. tauto.
Qed.

Lemma EO_lit_false b v x : EO b v -> vlb v <= x <= vub v -> x <> bv b v -> b (vlit v x) = false.
Proof.
  intros H Hx Hne. destruct (b (vlit v x)) eqn:E; [|reflexivity].
  exfalso. apply Hne. apply (EO_lit b v x H Hx). exact E.
Qed.

(* ------------------------------------------------------------------ _encode_vars *)
Definition var_ok (v : var) : Prop := 0 < vbase v /\ vlb v <= vub v.

Lemma enc_vars_models b vs : (forall v, In v vs -> var_ok v) ->
  (models b (enc_vars vs) <-> forall v, In v vs -> EO b v).
Proof.
  intros Hok. unfold enc_vars. rewrite models_flat_map. split; intros H v Hv.
  - apply exactly_one_ok; try apply (Hok v Hv). apply H. exact Hv.
  - apply exactly_one_ok; try apply (Hok v Hv). apply H. exact Hv.
Qed.

Theorem decode_in_domain b vs : (forall v, In v vs -> var_ok v) -> models b (enc_vars vs) ->
  forall v, In v vs ->
    exists x, dec_var b v = Some x /\ vlb v <= x <= vub v /\ b (vlit v x) = true
              /\ forall y, vlb v <= y <= vub v -> b (vlit v y) = true -> y = x.
Proof.
  intros Hok Hm v Hv. pose proof (proj1 (enc_vars_models b vs Hok) Hm v Hv) as He.
  destruct (EO_dec b v He) as [x [Hd [Hx Hu]]]. exists x. split; [exact Hd|].
  unfold hv in Hx. apply andb_true_iff in Hx. destruct Hx as [Hx1 Hx2]. apply in_dom_iff in Hx1.
  split; [exact Hx1|]. split; [exact Hx2|].
  intros y Hy Hby. apply Hu. unfold hv. rewrite Hby, (proj2 (in_dom_iff v y) Hy). reflexivity.
Qed.
