(* C06 - framing: clauses only mention literals below the counter, so extending an assignment on fresh
   literals keeps earlier clauses (and the values of earlier variables) unchanged. *)
From Coq Require Import List ZArith Bool Lia.
From SV Require Import C06.CpAst C06.CpEnc C06.EncBasics C06.EncPairwise.
Import ListNotations.
Open Scope Z_scope.

Definition clause_below (n : Z) (c : clause) : Prop := forall l, In l c -> Z.abs l < n.
Definition cnf_below (n : Z) (f : cnf) : Prop := forall c, In c f -> clause_below n c.
(* b' agrees with b on every literal number below n *)
Definition agree_below (n : Z) (b b' : asg) : Prop := forall l, l < n -> b' l = b l.
(* all literals of v are below n *)
Definition var_below (n : Z) (v : var) : Prop := vbase v + (vub v - vlb v) < n.

Lemma agree_below_refl n b : agree_below n b b.
Proof. intros l _. reflexivity. Qed.

Lemma agree_below_trans n m b1 b2 b3 : n <= m -> agree_below n b1 b2 -> agree_below m b2 b3 -> agree_below n b1 b3.
Proof. intros Hnm H12 H23 l Hl. rewrite H23 by lia. apply H12. exact Hl. Qed.

Lemma lit_true_agree n b b' l : Z.abs l < n -> agree_below n b b' -> lit_true b' l = lit_true b l.
Proof.
  intros Hl Ha. unfold lit_true. destruct (0 <? l) eqn:E.
  - rewrite Ha by lia. reflexivity.
  - rewrite Ha by lia. reflexivity.
Qed.

Lemma clause_true_agree n b b' c : clause_below n c -> agree_below n b b' -> clause_true b' c = clause_true b c.
Proof.
  intros Hc Ha. unfold clause_true. induction c as [|l tl IH]; [reflexivity|]. simpl.
  rewrite (lit_true_agree n b b' l) by (try exact Ha; apply Hc; left; reflexivity).
  rewrite IH; [reflexivity|]. intros l' Hl'. apply Hc. right. exact Hl'.
Qed.

Lemma models_agree n b b' f : cnf_below n f -> agree_below n b b' -> models b f -> models b' f.
Proof.
  intros Hf Ha Hm c Hc. rewrite (clause_true_agree n b b' c (Hf c Hc) Ha). apply Hm. exact Hc.
Qed.

Lemma cnf_below_app n f g : cnf_below n (f ++ g) <-> cnf_below n f /\ cnf_below n g.
Proof.
  unfold cnf_below. split.
  - intros H. split; intros c Hc; apply H; apply in_or_app; auto.
  - intros [H1 H2] c Hc. apply in_app_or in Hc. destruct Hc; auto.
Qed.

Lemma cnf_below_mono n m f : n <= m -> cnf_below n f -> cnf_below m f.
Proof. intros Hnm H c Hc l Hl. specialize (H c Hc l Hl). lia. Qed.

Lemma cnf_below_nil n : cnf_below n [].
Proof. intros c []. Qed.

Lemma cnf_below_flat_map {A} n (F : A -> cnf) xs : (forall x, In x xs -> cnf_below n (F x)) -> cnf_below n (flat_map F xs).
Proof.
  intros H c Hc. apply in_flat_map in Hc. destruct Hc as [x [Hx Hc]]. exact (H x Hx c Hc).
Qed.

Lemma cnf_below_map {A} n (F : A -> clause) xs : (forall x, In x xs -> clause_below n (F x)) -> cnf_below n (map F xs).
Proof.
  intros H c Hc. apply in_map_iff in Hc. destruct Hc as [x [<- Hx]]. exact (H x Hx).
Qed.

Lemma vlit_below n v x : 0 < vbase v -> var_below n v -> vlb v <= x <= vub v -> Z.abs (vlit v x) < n /\ Z.abs (- vlit v x) < n.
Proof. unfold var_below, vlit. lia. Qed.

Lemma hv_agree n b b' v x : 0 < vbase v -> var_below n v -> agree_below n b b' -> hv b' v x = hv b v x.
Proof.
  intros Hb Hv Ha. unfold hv. destruct (in_dom v x) eqn:D; [|reflexivity]. simpl.
  apply in_dom_iff in D. apply Ha. unfold var_below, vlit in *. lia.
Qed.

Lemma EO_agree n b b' v : 0 < vbase v -> var_below n v -> agree_below n b b' -> EO b v -> EO b' v.
Proof.
  intros Hb Hv Ha [x [Hx Hu]]. exists x. split.
  - rewrite (hv_agree n b b' v x Hb Hv Ha). exact Hx.
  - intros y Hy. apply Hu. rewrite <- (hv_agree n b b' v y Hb Hv Ha). exact Hy.
Qed.

Lemma bv_agree n b b' v : 0 < vbase v -> var_below n v -> agree_below n b b' -> EO b v -> bv b' v = bv b v.
Proof.
  intros Hb Hv Ha He. pose proof (EO_agree n b b' v Hb Hv Ha He) as He'.
  symmetry. apply (EO_hv b' v He'). rewrite (hv_agree n b b' v _ Hb Hv Ha).
  apply (EO_hv b v He). reflexivity.
Qed.

Lemma VOK_agree n b b' v : var_below n v -> agree_below n b b' -> VOK b v -> VOK b' v.
Proof. intros Hv Ha [Hb He]. split; [exact Hb|]. exact (EO_agree n b b' v Hb Hv Ha He). Qed.

(* overwrite the literals of an auxiliary variable so that it takes the value q *)
Definition set_var (b : asg) (v : var) (q : Z) : asg :=
  fun l => if (vbase v <=? l) && (l <=? vbase v + (vub v - vlb v)) then l =? vlit v q else b l.

Lemma set_var_agree b v q : agree_below (vbase v) b (set_var b v q).
Proof.
  intros l Hl. unfold set_var. destruct (vbase v <=? l) eqn:E; [apply Z.leb_le in E; lia|reflexivity].
Qed.

Lemma set_var_lit b v q x : vlb v <= x <= vub v -> set_var b v q (vlit v x) = (x =? q).
Proof.
  intros Hx. unfold set_var, vlit.
  destruct (vbase v <=? vbase v + (x - vlb v)) eqn:E1; [|apply Z.leb_gt in E1; lia].
  destruct (vbase v + (x - vlb v) <=? vbase v + (vub v - vlb v)) eqn:E2; [|apply Z.leb_gt in E2; lia].
  simpl. destruct (x =? q) eqn:E3.
  - apply Z.eqb_eq in E3. subst. apply Z.eqb_refl.
  - apply Z.eqb_neq in E3. apply Z.eqb_neq. lia.
Qed.

Lemma set_var_EO b v q : vlb v <= q <= vub v -> EO (set_var b v q) v /\ bv (set_var b v q) v = q.
Proof.
  intros Hq.
  assert (He : EO (set_var b v q) v).
  { exists q. unfold hv. split.
    - rewrite (proj2 (in_dom_iff v q) Hq), set_var_lit by exact Hq. rewrite Z.eqb_refl. reflexivity.
    - intros y Hy. apply andb_true_iff in Hy. destruct Hy as [Hy1 Hy2]. apply in_dom_iff in Hy1.
      rewrite set_var_lit in Hy2 by exact Hy1. apply Z.eqb_eq in Hy2. exact Hy2. }
  split; [exact He|]. symmetry. apply (EO_hv _ v He). unfold hv.
  rewrite (proj2 (in_dom_iff v q) Hq), set_var_lit by exact Hq. rewrite Z.eqb_refl. reflexivity.
Qed.
