(* C05 / C06 - the constraint language of solvor/cp.py as an inductive type, its readable semantics
   (`holds`) with a boolean twin (`holdsb`), domains, CP solutions.  DEFINITIONS ONLY (always compiles);
   the reflection lemmas are in CpAstProofs.v.

   Mirrors /repo/solvor/cp.py (after the fix: commits 8fe1d28 .. 1eb001c):
     IntVar(model, lb, ub, name)      -> `var`   (domain = range(lb, ub+1); `vbase` = bool_vars[lb], the
                                                  literals of one variable are consecutive: IntVar.__init__)
     Expr.data / operator results     -> `expr`  (IntVar | int | ("add",a,b) | ("sub",a,b) | ("rsub",a,b) | ("mul",a,k))
     _linearize(left, right)          -> `linearize` (terms in first-occurrence order, zero coefficients dropped)
     constraint tuples                -> `cstr`  (one constructor per tuple kind the Model / operators produce)

   Variables are identified by `vid` (a nat chosen by the harness: index in creation order; Python
   identifies them by `name`, `_linearize` merges terms by name - the two coincide when names are distinct,
   which `wf_model` demands of ids).  An assignment is `asgn = nat -> Z` (by vid).

   Semantics follow the CODE where the docstrings leave room (all noted at the definitions):
     * circuit: successors in 0..n-1, no self loop (so n = 1 is unsatisfiable; n = 0 is trivially true),
       one cycle through all nodes;
     * no_overlap: end_i <= start_j \/ end_j <= start_i for i < j (a zero-length task strictly inside
       another one counts as overlapping; durations may be any integer);
     * cumulative: for every time t the demands of the tasks with start <= t < start+duration sum to
       <= capacity (the code rejects negative demands; with capacity < 0 the code's clauses only forbid
       running tasks with positive demand whereas this definition is unsatisfiable: `wf_cons` asks 0 <= capacity).
   no_overlap / cumulative carry ZIPPED task lists (Model.no_overlap / Model.cumulative raise unless the
   tuples have equal length, so zipping loses nothing). *)
From Coq Require Import List ZArith Bool Lia.
Import ListNotations.
Open Scope Z_scope.

(* ------------------------------------------------------------------ variables *)
Record var := mkVar {
  vid    : nat;    (* identity (stands for the unique name) *)
  vlb    : Z;
  vub    : Z;
  vnamed : bool;   (* false = hidden: name starts with "_" (unnamed variables get "_v<k>") *)
  vbase  : Z       (* literal of value vlb; value x has literal vbase + (x - vlb) *)
}.

Fixpoint zseq (start : Z) (len : nat) : list Z :=
  match len with O => [] | S k => start :: zseq (start + 1) k end.
(* range(lo, hi + 1) *)
Definition zrange (lo hi : Z) : list Z := zseq lo (Z.to_nat (hi - lo + 1)).

Definition vdom (v : var) : list Z := zrange (vlb v) (vub v).
Definition in_dom (v : var) (x : Z) : bool := (vlb v <=? x) && (x <=? vub v).
Definition vlit (v : var) (x : Z) : Z := vbase v + (x - vlb v).
(* IntVar.bool_vars as an insertion-ordered association list value -> literal *)
Definition bool_vars (v : var) : list (Z * Z) := map (fun x => (x, vlit v x)) (vdom v).

Definition var_eqb (a b : var) : bool :=
  Nat.eqb (vid a) (vid b) && (vlb a =? vlb b) && (vub a =? vub b)
  && Bool.eqb (vnamed a) (vnamed b) && (vbase a =? vbase b).

Definition asgn := nat -> Z.
Definition aval (s : asgn) (v : var) : Z := s (vid v).

(* ------------------------------------------------------------------ expressions *)
Inductive expr :=
| EVar   (v : var)
| EConst (c : Z)
| EAdd   (a b : expr)      (* ("add", a, b):  a + b  (also x - 3, built as ("add", x, -3)) *)
| ESub   (a b : expr)      (* ("sub", a, b):  a - b *)
| ERsub  (a b : expr)      (* ("rsub", a, b): b - a  (operators build it only as ("rsub", var, int)) *)
| EMul   (a : expr) (k : Z). (* ("mul", a, k): k * a, k an int *)

Fixpoint eval (s : asgn) (e : expr) : Z :=
  match e with
  | EVar v => aval s v
  | EConst c => c
  | EAdd a b => eval s a + eval s b
  | ESub a b => eval s a - eval s b
  | ERsub a b => eval s b - eval s a
  | EMul a k => k * eval s a
  end.

(* normal form  sum(coef * var) + const ; terms in first-occurrence order (Python dict keyed by name) *)
Definition lin := (list (var * Z) * Z)%type.

Fixpoint lin_add (ts : list (var * Z)) (v : var) (m : Z) : list (var * Z) :=
  match ts with
  | [] => [(v, m)]
  | (w, c) :: tl => if Nat.eqb (vid w) (vid v) then (w, c + m) :: tl else (w, c) :: lin_add tl v m
  end.

(* _linearize.visit(e, mult) acting on the accumulator (terms, const) *)
Fixpoint visit (e : expr) (mult : Z) (acc : lin) : lin :=
  match e with
  | EVar v => (lin_add (fst acc) v mult, snd acc)
  | EConst c => (fst acc, snd acc + mult * c)
  | EAdd a b => visit b mult (visit a mult acc)
  | ESub a b => visit b (- mult) (visit a mult acc)
  | ERsub a b => visit a (- mult) (visit b mult acc)
  | EMul a k => visit a (mult * k) acc
  end.

(* _linearize(left, right): left - right *)
Definition linearize (l r : expr) : lin :=
  let acc := visit r (-1) (visit l 1 ([], 0)) in
  (filter (fun t => negb (snd t =? 0)) (fst acc), snd acc).

Definition terms_eval (s : asgn) (ts : list (var * Z)) : Z :=
  fold_right (fun t acc => snd t * aval s (fst t) + acc) 0 ts.
Definition lin_eval (s : asgn) (l : lin) : Z := terms_eval s (fst l) + snd l.

(* ------------------------------------------------------------------ constraints *)
Inductive cstr :=
| CAllDiff    (vs : list var)                     (* ("all_different", vars) *)
| CEqConst    (v : var) (c : Z)                   (* ("eq_const", var, int)      x == 3 *)
| CNeConst    (v : var) (c : Z)                   (* ("ne_const", var, int)      x != 3 *)
| CEqVar      (v w : var)                         (* ("eq_var", var, var)        x == y *)
| CNeVar      (v w : var)                         (* ("ne_var", var, var)        x != y *)
| CLin        (l r : expr) (is_ne : bool)         (* ("ne_expr", left, right, is_ne): any comparison with an Expr *)
| CSumEq      (vs : list var) (t : Z)             (* ("sum_eq", vars, target) *)
| CSumLe      (vs : list var) (t : Z)
| CSumGe      (vs : list var) (t : Z)
| CCircuit    (vs : list var)                     (* ("circuit", successor vars) *)
| CNoOverlap  (ts : list (var * Z))               (* ("no_overlap", starts, durations) zipped *)
| CCumulative (ts : list (var * Z * Z)) (cap : Z). (* ("cumulative", starts, durations, demands, capacity) zipped: ((start, dur), demand) *)

Definition vals (s : asgn) (vs : list var) : list Z := map (aval s) vs.
Definition zsum (l : list Z) : Z := fold_right Z.add 0 l.

(* --- circuit on the list of successor values *)
Definition nxt (ss : list Z) (i : Z) : Z := nth (Z.to_nat i) ss 0.
Fixpoint iter_nxt (ss : list Z) (k : nat) (i : Z) : Z :=
  match k with O => i | S k' => iter_nxt ss k' (nxt ss i) end.

Definition circuit_vals (ss : list Z) : Prop :=
  let n := length ss in
  (forall i, (i < n)%nat -> 0 <= nth i ss 0 < Z.of_nat n /\ nth i ss 0 <> Z.of_nat i)
  /\ (forall k, (0 < k < n)%nat -> iter_nxt ss k 0 <> 0)
  /\ iter_nxt ss n 0 = 0.

Fixpoint circuit_range_b (n : Z) (i : Z) (ss : list Z) : bool :=
  match ss with
  | [] => true
  | x :: tl => (0 <=? x) && (x <? n) && negb (x =? i) && circuit_range_b n (i + 1) tl
  end.
(* walk k more steps from cur; every intermediate node must differ from 0, the last one must be 0 *)
Fixpoint circuit_walk_b (ss : list Z) (k : nat) (cur : Z) : bool :=
  match k with
  | O => cur =? 0
  | S k' => let c := nxt ss cur in
            match k' with O => c =? 0 | S _ => negb (c =? 0) && circuit_walk_b ss k' c end
  end.
Definition circuit_valsb (ss : list Z) : bool :=
  circuit_range_b (Z.of_nat (length ss)) 0 ss && circuit_walk_b ss (length ss) 0.

(* --- no_overlap on (start, duration) pairs *)
Definition disjoint2 (a b : Z * Z) : Prop := fst a + snd a <= fst b \/ fst b + snd b <= fst a.
Definition disjoint2b (a b : Z * Z) : bool := (fst a + snd a <=? fst b) || (fst b + snd b <=? fst a).
Fixpoint no_overlap_vals (ts : list (Z * Z)) : Prop :=
  match ts with
  | [] => True
  | a :: tl => (forall b, In b tl -> disjoint2 a b) /\ no_overlap_vals tl
  end.
Fixpoint no_overlap_valsb (ts : list (Z * Z)) : bool :=
  match ts with
  | [] => true
  | a :: tl => forallb (disjoint2b a) tl && no_overlap_valsb tl
  end.

(* --- cumulative on ((start, duration), demand) triples *)
Definition running (t : Z) (task : Z * Z * Z) : bool :=
  (fst (fst task) <=? t) && (t <? fst (fst task) + snd (fst task)).
Definition load (ts : list (Z * Z * Z)) (t : Z) : Z :=
  zsum (map (fun task => if running t task then snd task else 0) ts).
Definition cumulative_vals (ts : list (Z * Z * Z)) (cap : Z) : Prop := forall t, load ts t <= cap.
(* enough to look at the time points where some task runs, and at one where none does (0 <= cap) *)
Definition cumulative_valsb (ts : list (Z * Z * Z)) (cap : Z) : bool :=
  (0 <=? cap)
  && forallb (fun task => forallb (fun t => load ts t <=? cap)
                                  (zrange (fst (fst task)) (fst (fst task) + snd (fst task) - 1))) ts.

Definition task_vals (s : asgn) (ts : list (var * Z)) : list (Z * Z) :=
  map (fun p => (aval s (fst p), snd p)) ts.
Definition ctask_vals (s : asgn) (ts : list (var * Z * Z)) : list (Z * Z * Z) :=
  map (fun p => (aval s (fst (fst p)), snd (fst p), snd p)) ts.

(* ------------------------------------------------------------------ semantics *)
Definition holds (s : asgn) (c : cstr) : Prop :=
  match c with
  | CAllDiff vs => NoDup (vals s vs)
  | CEqConst v c => aval s v = c
  | CNeConst v c => aval s v <> c
  | CEqVar v w => aval s v = aval s w
  | CNeVar v w => aval s v <> aval s w
  | CLin l r is_ne => if is_ne then eval s l <> eval s r else eval s l = eval s r
  | CSumEq vs t => zsum (vals s vs) = t
  | CSumLe vs t => zsum (vals s vs) <= t
  | CSumGe vs t => zsum (vals s vs) >= t
  | CCircuit vs => circuit_vals (vals s vs)
  | CNoOverlap ts => no_overlap_vals (task_vals s ts)
  | CCumulative ts cap => cumulative_vals (ctask_vals s ts) cap
  end.

Definition zmem (x : Z) (l : list Z) : bool := existsb (Z.eqb x) l.
Fixpoint nodupb (l : list Z) : bool :=
  match l with [] => true | x :: tl => negb (zmem x tl) && nodupb tl end.

Definition holdsb (s : asgn) (c : cstr) : bool :=
  match c with
  | CAllDiff vs => nodupb (vals s vs)
  | CEqConst v c => aval s v =? c
  | CNeConst v c => negb (aval s v =? c)
  | CEqVar v w => aval s v =? aval s w
  | CNeVar v w => negb (aval s v =? aval s w)
  | CLin l r is_ne => if is_ne then negb (eval s l =? eval s r) else eval s l =? eval s r
  | CSumEq vs t => zsum (vals s vs) =? t
  | CSumLe vs t => zsum (vals s vs) <=? t
  | CSumGe vs t => zsum (vals s vs) >=? t
  | CCircuit vs => circuit_valsb (vals s vs)
  | CNoOverlap ts => no_overlap_valsb (task_vals s ts)
  | CCumulative ts cap => cumulative_valsb (ctask_vals s ts) cap
  end.

(* ------------------------------------------------------------------ models *)
Record cpmodel := mkModel {
  m_vars : list var;    (* Model._vars.values() in creation order *)
  m_cons : list cstr;   (* Model._constraints *)
  m_next : Z            (* Model._next_bool: first literal not used by a variable *)
}.

Definition in_domains (s : asgn) (vs : list var) : Prop :=
  forall v, In v vs -> vlb v <= aval s v <= vub v.
Definition in_domainsb (s : asgn) (vs : list var) : bool :=
  forallb (fun v => in_dom v (aval s v)) vs.

Definition cp_solution (M : cpmodel) (s : asgn) : Prop :=
  in_domains s (m_vars M) /\ forall c, In c (m_cons M) -> holds s c.
Definition cp_solutionb (M : cpmodel) (s : asgn) : bool :=
  in_domainsb s (m_vars M) && forallb (holdsb s) (m_cons M).

(* what Model.solve reports: the values of the named variables, in creation order *)
Definition named_vars (M : cpmodel) : list var := filter vnamed (m_vars M).
Definition project (M : cpmodel) (s : asgn) : list (nat * Z) :=
  map (fun v => (vid v, aval s v)) (named_vars M).

(* assignments from value lists; the domain box (cartesian product in variable order) *)
Fixpoint asgn_of (vs : list var) (xs : list Z) : asgn :=
  match vs, xs with
  | v :: vs', x :: xs' => fun i => if Nat.eqb i (vid v) then x else asgn_of vs' xs' i
  | _, _ => fun _ => 0
  end.
Fixpoint box (vs : list var) : list (list Z) :=
  match vs with
  | [] => [[]]
  | v :: tl => flat_map (fun x => map (cons x) (box tl)) (vdom v)
  end.
(* all CP solutions by brute force over the box (value lists in variable order) *)
Definition cp_solutions (M : cpmodel) : list (list Z) :=
  filter (fun xs => forallb (holdsb (asgn_of (m_vars M) xs)) (m_cons M)) (box (m_vars M)).

(* ------------------------------------------------------------------ well-formed inputs *)
Fixpoint expr_vars (e : expr) : list var :=
  match e with
  | EVar v => [v]
  | EConst _ => []
  | EAdd a b | ESub a b | ERsub a b => expr_vars a ++ expr_vars b
  | EMul a _ => expr_vars a
  end.

Definition cons_vars (c : cstr) : list var :=
  match c with
  | CAllDiff vs | CSumEq vs _ | CSumLe vs _ | CSumGe vs _ | CCircuit vs => vs
  | CEqConst v _ | CNeConst v _ => [v]
  | CEqVar v w | CNeVar v w => [v; w]
  | CLin l r _ => expr_vars l ++ expr_vars r
  | CNoOverlap ts => map fst ts
  | CCumulative ts _ => map (fun p => fst (fst p)) ts
  end.

Definition var_mem (v : var) (vs : list var) : bool := existsb (var_eqb v) vs.

(* side conditions the Model constructors enforce (or that the semantics above needs, see header) *)
Definition wf_cons (c : cstr) : bool :=
  match c with
  | CCumulative ts cap => forallb (fun p => 0 <=? snd p) ts && (0 <=? cap)
  | _ => true
  end.

Fixpoint nat_nodupb (l : list nat) : bool :=
  match l with [] => true | x :: tl => negb (existsb (Nat.eqb x) tl) && nat_nodupb tl end.

(* literal blocks laid out one after the other from `start` (IntVar.__init__ via Model._new_bool_var) *)
Fixpoint bases_ok (start : Z) (vs : list var) : option Z :=
  match vs with
  | [] => Some start
  | v :: tl => if (vbase v =? start) && (vlb v <=? vub v)
               then bases_ok (start + (vub v - vlb v + 1)) tl else None
  end.

(* distinct ids, non-empty domains, literals numbered consecutively from 1 up to m_next,
   every variable of a constraint is a variable of the model, constraint side conditions *)
Definition wf_model (M : cpmodel) : bool :=
  nat_nodupb (map vid (m_vars M))
  && match bases_ok 1 (m_vars M) with Some n => n =? m_next M | None => false end
  && forallb (fun c => forallb (fun v => var_mem v (m_vars M)) (cons_vars c) && wf_cons c) (m_cons M).
