(* C06 - soundness + completeness of the sum encodings (_encode_sum_eq / _encode_sum_le / _encode_sum_ge):
   chains of auxiliary partial-sum variables.  Soundness: a SAT model of the clauses decodes to values
   satisfying the relation.  Completeness: values satisfying the relation extend (on the fresh literals
   only) to a SAT model of the clauses. *)
From Coq Require Import List ZArith Bool Lia.
From SV Require Import C06.CpAst C06.CpEnc C06.EncBasics C06.EncPairwise C06.EncFrame.
Import ListNotations. Open Scope Z_scope.

Definition bsum (b : asg) (vs : list var) : Z := zsum (map (bv b) vs).

(* ------------------------------------------------------------------ sums of decoded values *)
Lemma bsum_cons b v vs : bsum b (v :: vs) = bv b v + bsum b vs.
Proof. reflexivity. Qed.
Lemma sum_lb_cons v vs : sum_lb (v :: vs) = vlb v + sum_lb vs.
Proof. reflexivity. Qed.
Lemma sum_ub_cons v vs : sum_ub (v :: vs) = vub v + sum_ub vs.
Proof. reflexivity. Qed.

Lemma bsum_bounds b vs : (forall v, In v vs -> VOK b v) -> sum_lb vs <= bsum b vs <= sum_ub vs.
Proof.
  induction vs as [|v tl IH]; intros Hok.
  - unfold sum_lb, sum_ub, bsum. simpl. lia.
  - rewrite bsum_cons, sum_lb_cons, sum_ub_cons.
    destruct (Hok v (or_introl eq_refl)) as [_ He]. pose proof (EO_bv_dom b v He) as Hd.
    assert (Ht : sum_lb tl <= bsum b tl <= sum_ub tl) by (apply IH; intros w Hw; apply Hok; right; exact Hw).
    lia.
Qed.

Lemma bsum_agree n b b' vs : agree_below n b b' -> (forall v, In v vs -> VOK b v /\ var_below n v) ->
  bsum b' vs = bsum b vs.
Proof.
  intros Ha. induction vs as [|v tl IH]; intros Hok; [reflexivity|].
  rewrite !bsum_cons. destruct (Hok v (or_introl eq_refl)) as [[Hb He] Hv].
  rewrite (bv_agree n b b' v Hb Hv Ha He), IH; [reflexivity|].
  intros w Hw. apply Hok. right. exact Hw.
Qed.

(* ------------------------------------------------------------------ counters and literal bounds *)
Lemma var_below_mono n m v : n <= m -> var_below n v -> var_below m v.
Proof. unfold var_below. lia. Qed.

Lemma aux_size_nonneg lb ub : 0 <= aux_size lb ub.
Proof. unfold aux_size. lia. Qed.

Lemma aux_below n lb ub : var_below (n + aux_size lb ub) (mk_aux n lb ub).
Proof. unfold var_below, aux_size, mk_aux. simpl. lia. Qed.

Lemma cnf_below_empty n : cnf_below n [[]].
Proof. intros c [<-|[]] l []. Qed.

Lemma amo_below n ls : (forall l, In l ls -> Z.abs l < n) -> cnf_below n (amo ls).
Proof.
  induction ls as [|a tl IH]; intros H; simpl; [apply cnf_below_nil|].
  apply cnf_below_app. split.
  - apply cnf_below_map. intros x Hx l Hl.
    pose proof (H a (or_introl eq_refl)) as Ha. pose proof (H x (or_intror Hx)) as Hx'.
    destruct Hl as [<-|[<-|[]]]; lia.
  - apply IH. intros l Hl. apply H. right. exact Hl.
Qed.

Lemma eo_below n v : 0 < vbase v -> var_below n v -> cnf_below n (exactly_one (lits_of v)).
Proof.
  intros Hb Hv.
  assert (H : forall l, In l (lits_of v) -> Z.abs l < n).
  { intros l Hl. rewrite lits_of_eq in Hl. apply in_map_iff in Hl. destruct Hl as [x [<- Hx]].
    apply vdom_In in Hx. apply (vlit_below n v x Hb Hv Hx). }
  unfold exactly_one. destruct (lits_of v) as [|a tl]; [apply cnf_below_nil|].
  intros c [<-|Hc]; [exact H|]. exact (amo_below n (a :: tl) H c Hc).
Qed.

Lemma partial_below n v1 v2 ps strict :
  0 < vbase v1 /\ var_below n v1 -> 0 < vbase v2 /\ var_below n v2 -> 0 < vbase ps /\ var_below n ps ->
  cnf_below n (partial_clauses v1 v2 ps strict).
Proof.
  intros [Hb1 Hv1] [Hb2 Hv2] [Hbp Hvp]. unfold partial_clauses.
  apply cnf_below_flat_map. intros a Ha. apply cnf_below_flat_map. intros c Hc.
  apply vdom_In in Ha. apply vdom_In in Hc.
  pose proof (vlit_below n v1 a Hb1 Hv1 Ha) as L1. pose proof (vlit_below n v2 c Hb2 Hv2 Hc) as L2.
  destruct (in_dom ps (a + c)) eqn:D.
  - apply in_dom_iff in D. pose proof (vlit_below n ps (a + c) Hbp Hvp D) as L3.
    intros cl [<-|[]] l [<-|[<-|[<-|[]]]]; tauto.
  - destruct strict; [|apply cnf_below_nil].
    intros cl [<-|[]] l [<-|[<-|[]]]; tauto.
Qed.

(* ------------------------------------------------------------------ unit / pair forbidding clauses *)
Lemma unit_forbid_ok b v (bad : Z -> bool) : VOK b v ->
  (models b (flat_map (fun a => if bad a then [[- vlit v a]] else []) (vdom v)) <-> bad (bv b v) = false).
Proof.
  intros [Hb He]. pose proof (EO_bv_dom b v He) as Hd. rewrite models_flat_map. split.
  - intros H. specialize (H _ (proj2 (vdom_In v _) Hd)). destruct (bad (bv b v)); [|reflexivity].
    rewrite models_one, ct_n in H by (apply vlit_pos; lia).
    rewrite (EO_lit_b b v _ He Hd), Z.eqb_refl in H. discriminate.
  - intros Hbad a Ha. apply vdom_In in Ha. destruct (bad a) eqn:E; [|apply models_nil; exact I].
    rewrite models_one, ct_n by (apply vlit_pos; lia). rewrite (EO_lit_b b v a He Ha).
    destruct (a =? bv b v) eqn:F; [|reflexivity]. apply Z.eqb_eq in F. subst a. congruence.
Qed.

Lemma unit_forbid_below n v (bad : Z -> bool) : 0 < vbase v /\ var_below n v ->
  cnf_below n (flat_map (fun a => if bad a then [[- vlit v a]] else []) (vdom v)).
Proof.
  intros [Hb Hv]. apply cnf_below_flat_map. intros a Ha. apply vdom_In in Ha.
  pose proof (vlit_below n v a Hb Hv Ha) as L. destruct (bad a); [|apply cnf_below_nil].
  intros cl [<-|[]] l [<-|[]]; tauto.
Qed.

Lemma pair_forbid_ok b v1 v2 bad : VOK b v1 -> VOK b v2 ->
  (models b (pair_forbid v1 v2 bad) <-> bad (bv b v1 + bv b v2) = false).
Proof.
  intros [Hb1 He1] [Hb2 He2].
  pose proof (EO_bv_dom b v1 He1) as Hd1. pose proof (EO_bv_dom b v2 He2) as Hd2.
  unfold pair_forbid. rewrite models_flat_map. split.
  - intros H. specialize (H _ (proj2 (vdom_In v1 _) Hd1)). rewrite models_flat_map in H.
    specialize (H _ (proj2 (vdom_In v2 _) Hd2)). destruct (bad (bv b v1 + bv b v2)); [|reflexivity].
    rewrite models_one, ct_nn in H by (apply vlit_pos; lia).
    rewrite (EO_lit_b b v1 _ He1 Hd1), (EO_lit_b b v2 _ He2 Hd2), !Z.eqb_refl in H. discriminate.
  - intros Hbad a Ha. rewrite models_flat_map. intros c Hc. apply vdom_In in Ha. apply vdom_In in Hc.
    destruct (bad (a + c)) eqn:E; [|apply models_nil; exact I].
    rewrite models_one, ct_nn by (apply vlit_pos; lia).
    rewrite (EO_lit_b b v1 a He1 Ha), (EO_lit_b b v2 c He2 Hc).
    destruct (a =? bv b v1) eqn:F1; destruct (c =? bv b v2) eqn:F2; auto.
    apply Z.eqb_eq in F1. apply Z.eqb_eq in F2. subst. congruence.
Qed.

Lemma pair_forbid_below n v1 v2 bad : 0 < vbase v1 /\ var_below n v1 -> 0 < vbase v2 /\ var_below n v2 ->
  cnf_below n (pair_forbid v1 v2 bad).
Proof.
  intros [Hb1 Hv1] [Hb2 Hv2]. unfold pair_forbid.
  apply cnf_below_flat_map. intros a Ha. apply cnf_below_flat_map. intros c Hc.
  apply vdom_In in Ha. apply vdom_In in Hc.
  pose proof (vlit_below n v1 a Hb1 Hv1 Ha) as L1. pose proof (vlit_below n v2 c Hb2 Hv2 Hc) as L2.
  destruct (bad (a + c)); [|apply cnf_below_nil].
  intros cl [<-|[]] l [<-|[<-|[]]]; tauto.
Qed.

(* ------------------------------------------------------------------ the partial-sum clauses *)
Lemma partial_sound b v1 v2 ps strict :
  VOK b v1 -> VOK b v2 -> 0 < vbase ps ->
  models b (exactly_one (lits_of ps)) -> models b (partial_clauses v1 v2 ps strict) ->
  (strict = false -> in_dom ps (bv b v1 + bv b v2) = true) ->
  VOK b ps /\ bv b ps = bv b v1 + bv b v2.
Proof.
  intros [Hb1 He1] [Hb2 He2] Hbp Heo Hpc Hdom.
  pose proof (EO_bv_dom b v1 He1) as Hd1. pose proof (EO_bv_dom b v2 He2) as Hd2.
  unfold partial_clauses in Hpc. rewrite models_flat_map in Hpc.
  specialize (Hpc _ (proj2 (vdom_In v1 _) Hd1)). rewrite models_flat_map in Hpc.
  specialize (Hpc _ (proj2 (vdom_In v2 _) Hd2)).
  destruct (in_dom ps (bv b v1 + bv b v2)) eqn:D.
  - apply in_dom_iff in D. rewrite models_one, ct_nnp in Hpc by (apply vlit_pos; lia).
    rewrite (EO_lit_b b v1 _ He1 Hd1), (EO_lit_b b v2 _ He2 Hd2), !Z.eqb_refl in Hpc. simpl in Hpc.
    assert (Hle : vlb ps <= vub ps) by lia.
    pose proof (proj1 (exactly_one_ok b ps Hbp Hle) Heo) as Hep.
    split; [split; assumption|]. symmetry. apply (proj1 (EO_lit b ps _ Hep D)). exact Hpc.
  - destruct strict; [|discriminate (Hdom eq_refl)].
    rewrite models_one, ct_nn in Hpc by (apply vlit_pos; lia).
    rewrite (EO_lit_b b v1 _ He1 Hd1), (EO_lit_b b v2 _ He2 Hd2), !Z.eqb_refl in Hpc. discriminate.
Qed.

Lemma partial_complete b v1 v2 ps strict :
  VOK b v1 -> VOK b v2 -> VOK b ps -> bv b ps = bv b v1 + bv b v2 ->
  models b (partial_clauses v1 v2 ps strict).
Proof.
  intros [Hb1 He1] [Hb2 He2] [Hbp Hep] Hs. pose proof (EO_bv_dom b ps Hep) as Hdp.
  unfold partial_clauses. rewrite models_flat_map. intros a Ha. rewrite models_flat_map. intros c Hc.
  apply vdom_In in Ha. apply vdom_In in Hc.
  destruct (in_dom ps (a + c)) eqn:D.
  - apply in_dom_iff in D. rewrite models_one, ct_nnp by (apply vlit_pos; lia).
    rewrite (EO_lit_b b v1 a He1 Ha), (EO_lit_b b v2 c He2 Hc), (EO_lit_b b ps _ Hep D).
    destruct (a =? bv b v1) eqn:F1; destruct (c =? bv b v2) eqn:F2; simpl; auto.
    apply Z.eqb_eq in F1. apply Z.eqb_eq in F2. apply Z.eqb_eq. lia.
  - apply not_in_dom in D. destruct strict; [|apply models_nil; exact I].
    rewrite models_one, ct_nn by (apply vlit_pos; lia).
    rewrite (EO_lit_b b v1 a He1 Ha), (EO_lit_b b v2 c He2 Hc).
    destruct (a =? bv b v1) eqn:F1; destruct (c =? bv b v2) eqn:F2; simpl; auto.
    apply Z.eqb_eq in F1. apply Z.eqb_eq in F2. exfalso. apply D. lia.
Qed.

(* ------------------------------------------------------------------ one link of the chain *)
Lemma chain_vars_below n lb ub (rest : list var) :
  0 < n -> (forall v, In v rest -> 0 < vbase v /\ var_below n v) ->
  forall v, In v (mk_aux n lb ub :: rest) -> 0 < vbase v /\ var_below (n + aux_size lb ub) v.
Proof.
  intros Hn H v [<-|Hv].
  - split; [exact Hn|apply aux_below].
  - destruct (H v Hv) as [Hb Hw]. split; [exact Hb|].
    apply (var_below_mono n); [pose proof (aux_size_nonneg lb ub); lia|exact Hw].
Qed.

Lemma chain_below n v1 v2 lb ub strict :
  0 < n -> 0 < vbase v1 /\ var_below n v1 -> 0 < vbase v2 /\ var_below n v2 ->
  cnf_below (n + aux_size lb ub)
    (exactly_one (lits_of (mk_aux n lb ub)) ++ partial_clauses v1 v2 (mk_aux n lb ub) strict).
Proof.
  intros Hn [Hb1 Hv1] [Hb2 Hv2]. pose proof (aux_size_nonneg lb ub) as Hs.
  pose proof (aux_below n lb ub) as Hp.
  apply cnf_below_app. split.
  - apply eo_below; [exact Hn|exact Hp].
  - apply partial_below; (split; [assumption|]); try exact Hp;
      (apply (var_below_mono n); [lia|assumption]).
Qed.

Lemma chain_sound b n v1 v2 lb ub rest strict :
  0 < n -> VOK b v1 -> VOK b v2 ->
  models b (exactly_one (lits_of (mk_aux n lb ub)) ++ partial_clauses v1 v2 (mk_aux n lb ub) strict) ->
  (strict = false -> lb <= bv b v1 + bv b v2 <= ub) ->
  VOK b (mk_aux n lb ub) /\ bsum b (mk_aux n lb ub :: rest) = bsum b (v1 :: v2 :: rest).
Proof.
  intros Hn H1 H2 Hm Hdom. apply models_app in Hm. destruct Hm as [Hm1 Hm2].
  assert (Hd : strict = false -> in_dom (mk_aux n lb ub) (bv b v1 + bv b v2) = true).
  { intros E. apply in_dom_iff. simpl. apply Hdom. exact E. }
  destruct (partial_sound b v1 v2 (mk_aux n lb ub) strict H1 H2 Hn Hm1 Hm2 Hd) as [Hok Hs].
  split; [exact Hok|]. rewrite !bsum_cons, Hs. lia.
Qed.

Lemma chain_complete b n v1 v2 lb ub rest :
  0 < n -> (forall v, In v (v1 :: v2 :: rest) -> VOK b v /\ var_below n v) ->
  lb <= bv b v1 + bv b v2 <= ub ->
  exists b1, agree_below n b b1
    /\ (forall v, In v (mk_aux n lb ub :: rest) -> VOK b1 v /\ var_below (n + aux_size lb ub) v)
    /\ bsum b1 (mk_aux n lb ub :: rest) = bsum b (v1 :: v2 :: rest)
    /\ forall strict b', agree_below (n + aux_size lb ub) b1 b' ->
         models b' (exactly_one (lits_of (mk_aux n lb ub)) ++ partial_clauses v1 v2 (mk_aux n lb ub) strict).
Proof.
  intros Hn Hok Hdom. set (ps := mk_aux n lb ub). set (q := bv b v1 + bv b v2).
  pose proof (aux_size_nonneg lb ub) as Hsz. pose proof (aux_below n lb ub) as Hpb. fold ps in Hpb.
  assert (Hag : agree_below n b (set_var b ps q)) by exact (set_var_agree b ps q).
  assert (Hq : vlb ps <= q <= vub ps) by exact Hdom.
  destruct (set_var_EO b ps q Hq) as [Hep Hbp].
  destruct (Hok v1 (or_introl eq_refl)) as [Hk1 Hw1].
  destruct (Hok v2 (or_intror (or_introl eq_refl))) as [Hk2 Hw2].
  assert (Hrest : forall v, In v rest -> VOK b v /\ var_below n v)
    by (intros v Hv; apply Hok; right; right; exact Hv).
  set (b1 := set_var b ps q) in *.
  assert (Hps : VOK b1 ps) by (split; [exact Hn|exact Hep]).
  pose proof (VOK_agree n b b1 v1 Hw1 Hag Hk1) as Hk1'. pose proof (VOK_agree n b b1 v2 Hw2 Hag Hk2) as Hk2'.
  assert (E1 : bv b1 v1 = bv b v1) by (destruct Hk1 as [? ?]; apply (bv_agree n); assumption).
  assert (E2 : bv b1 v2 = bv b v2) by (destruct Hk2 as [? ?]; apply (bv_agree n); assumption).
  exists b1. split; [exact Hag|]. split; [|split].
  - intros v [<-|Hv]; [split; assumption|]. destruct (Hrest v Hv) as [Hk Hw]. split.
    + exact (VOK_agree n b b1 v Hw Hag Hk).
    + apply (var_below_mono n); [lia|exact Hw].
  - rewrite !bsum_cons, Hbp, (bsum_agree n b b1 rest Hag Hrest). unfold q. lia.
  - intros strict b' Hb'. apply (models_agree (n + aux_size lb ub) b1 b'); [|exact Hb'|].
    + apply chain_below; [exact Hn| |]; split; try assumption; [apply Hk1|apply Hk2].
    + apply models_app. split.
      * apply (proj2 (exactly_one_ok b1 ps Hn (Z.le_trans _ _ _ (proj1 Hq) (proj2 Hq)))). exact Hep.
      * apply partial_complete; try assumption. rewrite Hbp, E1, E2. reflexivity.
Qed.

(* ================================================================== sum == t *)
Definition eq_exit (v1 : var) (rest : list var) (t : Z) : bool :=
  (t <? sum_lb (v1 :: rest)) || (sum_ub (v1 :: rest) <? t).

Lemma sum_eq_go_nil n v1 t :
  sum_eq_go n v1 [] t = if eq_exit v1 [] t then ([[]], n) else (enc_eq_const v1 t, n).
Proof. reflexivity. Qed.

Lemma sum_eq_go_one n v1 v2 t :
  sum_eq_go n v1 [v2] t = if eq_exit v1 [v2] t then ([[]], n) else
    (map (fun a => if in_dom v2 (t - a) then [- vlit v1 a; vlit v2 (t - a)] else [- vlit v1 a]) (vdom v1), n).
Proof. reflexivity. Qed.

Lemma sum_eq_go_step0 n v1 v2 v3 r t :
  sum_eq_go n v1 (v2 :: v3 :: r) t = if eq_exit v1 (v2 :: v3 :: r) t then ([[]], n) else
    let '(cl, n2) := sum_eq_go (n + aux_size (vlb v1 + vlb v2) (vub v1 + vub v2))
                               (mk_aux n (vlb v1 + vlb v2) (vub v1 + vub v2)) (v3 :: r) t in
    (exactly_one (lits_of (mk_aux n (vlb v1 + vlb v2) (vub v1 + vub v2)))
     ++ partial_clauses v1 v2 (mk_aux n (vlb v1 + vlb v2) (vub v1 + vub v2)) false ++ cl, n2).
Proof. reflexivity. Qed.

Lemma sum_eq_go_step n v1 v2 v3 r t :
  sum_eq_go n v1 (v2 :: v3 :: r) t = if eq_exit v1 (v2 :: v3 :: r) t then ([[]], n) else
    let lb := vlb v1 + vlb v2 in let ub := vub v1 + vub v2 in
    let rr := sum_eq_go (n + aux_size lb ub) (mk_aux n lb ub) (v3 :: r) t in
    ((exactly_one (lits_of (mk_aux n lb ub)) ++ partial_clauses v1 v2 (mk_aux n lb ub) false) ++ fst rr, snd rr).
Proof.
  rewrite sum_eq_go_step0. destruct (eq_exit v1 (v2 :: v3 :: r) t); [reflexivity|]. cbv zeta.
  destruct (sum_eq_go _ _ (v3 :: r) t) as [cl n2]. cbn [fst snd]. rewrite <- app_assoc. reflexivity.
Qed.

Lemma eq_exit_false b v1 rest t :
  (forall v, In v (v1 :: rest) -> VOK b v) -> bsum b (v1 :: rest) = t -> eq_exit v1 rest t = false.
Proof.
  intros Hok E. pose proof (bsum_bounds b (v1 :: rest) Hok) as Hb. unfold eq_exit.
  apply orb_false_iff. split; apply Z.ltb_ge; lia.
Qed.

Lemma enc_eq_const_below n v c : 0 < vbase v /\ var_below n v -> cnf_below n (enc_eq_const v c).
Proof.
  intros [Hb Hv]. unfold enc_eq_const. destruct (in_dom v c) eqn:D; [|apply cnf_below_empty].
  apply in_dom_iff in D. pose proof (vlit_below n v c Hb Hv D) as L.
  intros cl [<-|[]] l [<-|[]]; tauto.
Qed.

Lemma sum_eq_go_counter t rest : forall n v1, n <= snd (sum_eq_go n v1 rest t).
Proof.
  induction rest as [|v2 rest' IH]; intros n v1.
  - rewrite sum_eq_go_nil. destruct (eq_exit _ _ _); cbn [snd]; lia.
  - destruct rest' as [|v3 r].
    + rewrite sum_eq_go_one. destruct (eq_exit _ _ _); cbn [snd]; lia.
    + rewrite sum_eq_go_step. destruct (eq_exit _ _ _); [cbn [snd]; lia|]. cbv zeta. cbn [fst snd].
      pose proof (aux_size_nonneg (vlb v1 + vlb v2) (vub v1 + vub v2)) as Hs.
      eapply Z.le_trans; [|apply IH]. lia.
Qed.

Lemma sum_eq_go_below t rest : forall n v1, 0 < n ->
  (forall v, In v (v1 :: rest) -> 0 < vbase v /\ var_below n v) ->
  cnf_below (snd (sum_eq_go n v1 rest t)) (fst (sum_eq_go n v1 rest t)).
Proof.
  induction rest as [|v2 rest' IH]; intros n v1 Hn Hvs.
  - rewrite sum_eq_go_nil. destruct (eq_exit _ _ _); cbn [fst snd]; [apply cnf_below_empty|].
    apply enc_eq_const_below. apply Hvs. left. reflexivity.
  - destruct (Hvs v1 (or_introl eq_refl)) as [Hb1 Hw1].
    destruct (Hvs v2 (or_intror (or_introl eq_refl))) as [Hb2 Hw2].
    destruct rest' as [|v3 r].
    + rewrite sum_eq_go_one. destruct (eq_exit _ _ _); cbn [fst snd]; [apply cnf_below_empty|].
      apply cnf_below_map. intros a Ha. apply vdom_In in Ha.
      pose proof (vlit_below n v1 a Hb1 Hw1 Ha) as L1. destruct (in_dom v2 (t - a)) eqn:D.
      * apply in_dom_iff in D. pose proof (vlit_below n v2 (t - a) Hb2 Hw2 D) as L2.
        intros l [<-|[<-|[]]]; tauto.
      * intros l [<-|[]]; tauto.
    + rewrite sum_eq_go_step. destruct (eq_exit _ _ _); [cbn [fst snd]; apply cnf_below_empty|].
      cbv zeta. cbn [fst snd]. apply cnf_below_app. split.
      * eapply cnf_below_mono; [apply sum_eq_go_counter|]. apply chain_below; [exact Hn| |]; split; assumption.
      * apply IH.
        -- pose proof (aux_size_nonneg (vlb v1 + vlb v2) (vub v1 + vub v2)). lia.
        -- apply chain_vars_below; [exact Hn|]. intros v Hv. apply Hvs. right. right. exact Hv.
Qed.

Lemma sum_eq_go_sound b t rest : forall n v1, 0 < n -> (forall v, In v (v1 :: rest) -> VOK b v) ->
  models b (fst (sum_eq_go n v1 rest t)) -> bsum b (v1 :: rest) = t.
Proof.
  induction rest as [|v2 rest' IH]; intros n v1 Hn Hok Hm.
  - rewrite sum_eq_go_nil in Hm. destruct (eq_exit _ _ _); cbn [fst] in Hm.
    + apply models_empty_clause in Hm. destruct Hm.
    + apply enc_eq_const_ok in Hm; [|apply Hok; left; reflexivity].
      rewrite bsum_cons. unfold bsum. simpl. lia.
  - pose proof (Hok v1 (or_introl eq_refl)) as Hk1.
    pose proof (Hok v2 (or_intror (or_introl eq_refl))) as Hk2.
    destruct rest' as [|v3 r].
    + rewrite sum_eq_go_one in Hm. destruct (eq_exit _ _ _); cbn [fst] in Hm.
      * apply models_empty_clause in Hm. destruct Hm.
      * destruct Hk1 as [Hb1 He1]. destruct Hk2 as [Hb2 He2].
        pose proof (EO_bv_dom b v1 He1) as Hd1. rewrite models_map in Hm.
        specialize (Hm _ (proj2 (vdom_In v1 _) Hd1)).
        assert (E : bv b v2 = t - bv b v1).
        { destruct (in_dom v2 (t - bv b v1)) eqn:D.
          - apply in_dom_iff in D. rewrite ct_np in Hm by (apply vlit_pos; lia).
            rewrite (EO_lit_b b v1 _ He1 Hd1), Z.eqb_refl in Hm. simpl in Hm.
            symmetry. apply (proj1 (EO_lit b v2 _ He2 D)). exact Hm.
          - rewrite ct_n in Hm by (apply vlit_pos; lia).
            rewrite (EO_lit_b b v1 _ He1 Hd1), Z.eqb_refl in Hm. discriminate. }
        rewrite !bsum_cons, E. unfold bsum. simpl. lia.
    + rewrite sum_eq_go_step in Hm. destruct (eq_exit _ _ _); cbn [fst] in Hm.
      * apply models_empty_clause in Hm. destruct Hm.
      * cbv zeta in Hm. cbn [fst] in Hm. apply models_app in Hm. destruct Hm as [Hm1 Hm2].
        destruct (chain_sound b n v1 v2 _ _ (v3 :: r) false Hn Hk1 Hk2 Hm1) as [Hps Hs].
        { intros _. pose proof (EO_bv_dom b v1 (proj2 Hk1)). pose proof (EO_bv_dom b v2 (proj2 Hk2)). lia. }
        rewrite <- Hs. apply (IH _ _) in Hm2; [exact Hm2| |].
        -- pose proof (aux_size_nonneg (vlb v1 + vlb v2) (vub v1 + vub v2)). lia.
        -- intros v [<-|Hv]; [exact Hps|]. apply Hok. right. right. exact Hv.
Qed.

Lemma sum_eq_go_complete t rest : forall b n v1, 0 < n ->
  (forall v, In v (v1 :: rest) -> VOK b v /\ var_below n v) -> bsum b (v1 :: rest) = t ->
  exists b', agree_below n b b' /\ models b' (fst (sum_eq_go n v1 rest t)).
Proof.
  induction rest as [|v2 rest' IH]; intros b n v1 Hn Hok Hr.
  - rewrite sum_eq_go_nil, (eq_exit_false b) by (try exact Hr; intros v Hv; apply Hok; exact Hv).
    cbn [fst]. exists b. split; [apply agree_below_refl|].
    apply enc_eq_const_ok; [apply Hok; left; reflexivity|].
    rewrite bsum_cons in Hr. unfold bsum in Hr. simpl in Hr. lia.
  - pose proof (proj1 (Hok v1 (or_introl eq_refl))) as Hk1.
    pose proof (proj1 (Hok v2 (or_intror (or_introl eq_refl)))) as Hk2.
    destruct rest' as [|v3 r].
    + rewrite sum_eq_go_one, (eq_exit_false b) by (try exact Hr; intros v Hv; apply Hok; exact Hv).
      cbn [fst]. exists b. split; [apply agree_below_refl|].
      destruct Hk1 as [Hb1 He1]. destruct Hk2 as [Hb2 He2]. pose proof (EO_bv_dom b v2 He2) as Hd2.
      rewrite !bsum_cons in Hr. unfold bsum in Hr. simpl in Hr.
      rewrite models_map. intros a Ha. apply vdom_In in Ha. destruct (in_dom v2 (t - a)) eqn:D.
      * apply in_dom_iff in D. rewrite ct_np by (apply vlit_pos; lia).
        rewrite (EO_lit_b b v1 a He1 Ha), (EO_lit_b b v2 _ He2 D).
        destruct (a =? bv b v1) eqn:F; [|reflexivity]. apply Z.eqb_eq in F. simpl. apply Z.eqb_eq. lia.
      * apply not_in_dom in D. rewrite ct_n by (apply vlit_pos; lia). rewrite (EO_lit_b b v1 a He1 Ha).
        destruct (a =? bv b v1) eqn:F; [|reflexivity]. apply Z.eqb_eq in F. exfalso. apply D. lia.
    + rewrite sum_eq_go_step, (eq_exit_false b) by (try exact Hr; intros v Hv; apply Hok; exact Hv).
      cbv zeta. cbn [fst].
      destruct (chain_complete b n v1 v2 (vlb v1 + vlb v2) (vub v1 + vub v2) (v3 :: r) Hn Hok)
        as [b1 [Hag [Hok1 [Hs Hcl]]]].
      { pose proof (EO_bv_dom b v1 (proj2 Hk1)). pose proof (EO_bv_dom b v2 (proj2 Hk2)). lia. }
      pose proof (aux_size_nonneg (vlb v1 + vlb v2) (vub v1 + vub v2)) as Hsz.
      assert (Hn1 : 0 < n + aux_size (vlb v1 + vlb v2) (vub v1 + vub v2)) by lia.
      destruct (IH b1 _ _ Hn1 Hok1) as [b' [Hag' Hm']].
      { rewrite Hs. exact Hr. }
      assert (Hle : n <= n + aux_size (vlb v1 + vlb v2) (vub v1 + vub v2)) by lia.
      exists b'. split; [exact (agree_below_trans _ _ b b1 b' Hle Hag Hag')|].
      apply models_app. split; [apply Hcl; exact Hag'|exact Hm'].
Qed.

Lemma enc_sum_eq_counter n vs t : n <= snd (enc_sum_eq n vs t).
Proof. destruct vs as [|v1 rest]; unfold enc_sum_eq; [cbn [snd]; lia|apply sum_eq_go_counter]. Qed.

Lemma enc_sum_eq_below n vs t : 0 < n -> (forall v, In v vs -> 0 < vbase v /\ var_below n v) ->
  cnf_below (snd (enc_sum_eq n vs t)) (fst (enc_sum_eq n vs t)).
Proof.
  intros Hn Hvs. destruct vs as [|v1 rest]; unfold enc_sum_eq.
  - cbn [fst snd]. destruct (negb (t =? 0)); [apply cnf_below_empty|apply cnf_below_nil].
  - apply sum_eq_go_below; assumption.
Qed.

Lemma enc_sum_eq_sound b n vs t : 0 < n -> (forall v, In v vs -> VOK b v) ->
  models b (fst (enc_sum_eq n vs t)) -> bsum b vs = t.
Proof.
  intros Hn Hok Hm. destruct vs as [|v1 rest]; unfold enc_sum_eq in Hm.
  - cbn [fst] in Hm. destruct (t =? 0) eqn:E; cbn [negb] in Hm.
    + apply Z.eqb_eq in E. subst t. reflexivity.
    + apply models_empty_clause in Hm. destruct Hm.
  - exact (sum_eq_go_sound b t rest n v1 Hn Hok Hm).
Qed.

Lemma enc_sum_eq_complete b n vs t : 0 < n -> (forall v, In v vs -> VOK b v /\ var_below n v) ->
  bsum b vs = t -> exists b', agree_below n b b' /\ models b' (fst (enc_sum_eq n vs t)).
Proof.
  intros Hn Hok Hr. destruct vs as [|v1 rest]; unfold enc_sum_eq.
  - exists b. split; [apply agree_below_refl|]. cbn [fst]. change (bsum b []) with 0 in Hr. subst t.
    cbn. apply models_nil. exact I.
  - exact (sum_eq_go_complete t rest b n v1 Hn Hok Hr).
Qed.

(* ================================================================== sum <= t *)
Lemma sum_le_go_nil n v1 t :
  sum_le_go n v1 [] t = (flat_map (fun a => if t <? a then [[- vlit v1 a]] else []) (vdom v1), n).
Proof. reflexivity. Qed.

Lemma sum_le_go_one n v1 v2 t : sum_le_go n v1 [v2] t = (pair_forbid v1 v2 (fun s => t <? s), n).
Proof. reflexivity. Qed.

Lemma sum_le_go_step0 n v1 v2 v3 r t :
  sum_le_go n v1 (v2 :: v3 :: r) t =
    let '(cl, n2) := sum_le_go (n + aux_size (vlb v1 + vlb v2) (Z.min (vub v1 + vub v2) (t - sum_lb (v3 :: r))))
                               (mk_aux n (vlb v1 + vlb v2) (Z.min (vub v1 + vub v2) (t - sum_lb (v3 :: r)))) (v3 :: r) t in
    (exactly_one (lits_of (mk_aux n (vlb v1 + vlb v2) (Z.min (vub v1 + vub v2) (t - sum_lb (v3 :: r)))))
     ++ partial_clauses v1 v2 (mk_aux n (vlb v1 + vlb v2) (Z.min (vub v1 + vub v2) (t - sum_lb (v3 :: r)))) true ++ cl, n2).
Proof. reflexivity. Qed.

Lemma sum_le_go_step n v1 v2 v3 r t :
  sum_le_go n v1 (v2 :: v3 :: r) t =
    let lb := vlb v1 + vlb v2 in let ub := Z.min (vub v1 + vub v2) (t - sum_lb (v3 :: r)) in
    let rr := sum_le_go (n + aux_size lb ub) (mk_aux n lb ub) (v3 :: r) t in
    ((exactly_one (lits_of (mk_aux n lb ub)) ++ partial_clauses v1 v2 (mk_aux n lb ub) true) ++ fst rr, snd rr).
Proof.
  rewrite sum_le_go_step0. cbv zeta.
  destruct (sum_le_go _ _ (v3 :: r) t) as [cl n2]. cbn [fst snd]. rewrite <- app_assoc. reflexivity.
Qed.

Lemma sum_le_go_counter t rest : forall n v1, n <= snd (sum_le_go n v1 rest t).
Proof.
  induction rest as [|v2 rest' IH]; intros n v1.
  - rewrite sum_le_go_nil. cbn [snd]. lia.
  - destruct rest' as [|v3 r].
    + rewrite sum_le_go_one. cbn [snd]. lia.
    + rewrite sum_le_go_step. cbv zeta. cbn [fst snd].
      pose proof (aux_size_nonneg (vlb v1 + vlb v2) (Z.min (vub v1 + vub v2) (t - sum_lb (v3 :: r)))) as Hs.
      eapply Z.le_trans; [|apply IH]. lia.
Qed.

Lemma sum_le_go_below t rest : forall n v1, 0 < n ->
  (forall v, In v (v1 :: rest) -> 0 < vbase v /\ var_below n v) ->
  cnf_below (snd (sum_le_go n v1 rest t)) (fst (sum_le_go n v1 rest t)).
Proof.
  induction rest as [|v2 rest' IH]; intros n v1 Hn Hvs.
  - rewrite sum_le_go_nil. cbn [fst snd]. apply (unit_forbid_below n v1 (fun a => t <? a)).
    apply Hvs. left. reflexivity.
  - pose proof (Hvs v1 (or_introl eq_refl)) as H1.
    pose proof (Hvs v2 (or_intror (or_introl eq_refl))) as H2.
    destruct rest' as [|v3 r].
    + rewrite sum_le_go_one. cbn [fst snd]. apply pair_forbid_below; assumption.
    + rewrite sum_le_go_step. cbv zeta. cbn [fst snd]. apply cnf_below_app. split.
      * eapply cnf_below_mono; [apply sum_le_go_counter|]. apply chain_below; assumption.
      * apply IH.
        -- pose proof (aux_size_nonneg (vlb v1 + vlb v2) (Z.min (vub v1 + vub v2) (t - sum_lb (v3 :: r)))). lia.
        -- apply chain_vars_below; [exact Hn|]. intros v Hv. apply Hvs. right. right. exact Hv.
Qed.

Lemma sum_le_go_sound b t rest : forall n v1, 0 < n -> (forall v, In v (v1 :: rest) -> VOK b v) ->
  models b (fst (sum_le_go n v1 rest t)) -> bsum b (v1 :: rest) <= t.
Proof.
  induction rest as [|v2 rest' IH]; intros n v1 Hn Hok Hm.
  - rewrite sum_le_go_nil in Hm. cbn [fst] in Hm.
    apply (unit_forbid_ok b v1 (fun a => t <? a)) in Hm; [|apply Hok; left; reflexivity].
    apply Z.ltb_ge in Hm. rewrite bsum_cons. unfold bsum. simpl. lia.
  - pose proof (Hok v1 (or_introl eq_refl)) as Hk1.
    pose proof (Hok v2 (or_intror (or_introl eq_refl))) as Hk2.
    destruct rest' as [|v3 r].
    + rewrite sum_le_go_one in Hm. cbn [fst] in Hm. apply pair_forbid_ok in Hm; try assumption.
      apply Z.ltb_ge in Hm. rewrite !bsum_cons. unfold bsum. simpl. lia.
    + rewrite sum_le_go_step in Hm. cbv zeta in Hm. cbn [fst] in Hm.
      apply models_app in Hm. destruct Hm as [Hm1 Hm2].
      destruct (chain_sound b n v1 v2 _ _ (v3 :: r) true Hn Hk1 Hk2 Hm1) as [Hps Hs]; [discriminate|].
      rewrite <- Hs. apply (IH _ _) in Hm2; [exact Hm2| |].
      * pose proof (aux_size_nonneg (vlb v1 + vlb v2) (Z.min (vub v1 + vub v2) (t - sum_lb (v3 :: r)))). lia.
      * intros v [<-|Hv]; [exact Hps|]. apply Hok. right. right. exact Hv.
Qed.

Lemma sum_le_go_complete t rest : forall b n v1, 0 < n ->
  (forall v, In v (v1 :: rest) -> VOK b v /\ var_below n v) -> bsum b (v1 :: rest) <= t ->
  exists b', agree_below n b b' /\ models b' (fst (sum_le_go n v1 rest t)).
Proof.
  induction rest as [|v2 rest' IH]; intros b n v1 Hn Hok Hr.
  - rewrite sum_le_go_nil. cbn [fst]. exists b. split; [apply agree_below_refl|].
    apply (unit_forbid_ok b v1 (fun a => t <? a)); [apply Hok; left; reflexivity|].
    rewrite bsum_cons in Hr. unfold bsum in Hr. simpl in Hr. apply Z.ltb_ge. lia.
  - pose proof (proj1 (Hok v1 (or_introl eq_refl))) as Hk1.
    pose proof (proj1 (Hok v2 (or_intror (or_introl eq_refl)))) as Hk2.
    destruct rest' as [|v3 r].
    + rewrite sum_le_go_one. cbn [fst]. exists b. split; [apply agree_below_refl|].
      apply pair_forbid_ok; try assumption.
      rewrite !bsum_cons in Hr. unfold bsum in Hr. simpl in Hr. apply Z.ltb_ge. lia.
    + rewrite sum_le_go_step. cbv zeta. cbn [fst].
      destruct (chain_complete b n v1 v2 (vlb v1 + vlb v2) (Z.min (vub v1 + vub v2) (t - sum_lb (v3 :: r)))
                  (v3 :: r) Hn Hok) as [b1 [Hag [Hok1 [Hs Hcl]]]].
      { pose proof (EO_bv_dom b v1 (proj2 Hk1)). pose proof (EO_bv_dom b v2 (proj2 Hk2)).
        assert (Hb : sum_lb (v3 :: r) <= bsum b (v3 :: r) <= sum_ub (v3 :: r)).
        { apply bsum_bounds. intros v Hv. apply Hok. right. right. exact Hv. }
        rewrite (bsum_cons b v1), (bsum_cons b v2) in Hr. lia. }
      pose proof (aux_size_nonneg (vlb v1 + vlb v2) (Z.min (vub v1 + vub v2) (t - sum_lb (v3 :: r)))) as Hsz.
      assert (Hn1 : 0 < n + aux_size (vlb v1 + vlb v2) (Z.min (vub v1 + vub v2) (t - sum_lb (v3 :: r)))) by lia.
      destruct (IH b1 _ _ Hn1 Hok1) as [b' [Hag' Hm']].
      { rewrite Hs. exact Hr. }
      assert (Hle : n <= n + aux_size (vlb v1 + vlb v2) (Z.min (vub v1 + vub v2) (t - sum_lb (v3 :: r)))) by lia.
      exists b'. split; [exact (agree_below_trans _ _ b b1 b' Hle Hag Hag')|].
      apply models_app. split; [apply Hcl; exact Hag'|exact Hm'].
Qed.

Lemma enc_sum_le_counter n vs t : n <= snd (enc_sum_le n vs t).
Proof. destruct vs as [|v1 rest]; unfold enc_sum_le; [cbn [snd]; lia|apply sum_le_go_counter]. Qed.

Lemma enc_sum_le_below n vs t : 0 < n -> (forall v, In v vs -> 0 < vbase v /\ var_below n v) ->
  cnf_below (snd (enc_sum_le n vs t)) (fst (enc_sum_le n vs t)).
Proof.
  intros Hn Hvs. destruct vs as [|v1 rest]; unfold enc_sum_le.
  - cbn [fst snd]. destruct (t <? 0); [apply cnf_below_empty|apply cnf_below_nil].
  - apply sum_le_go_below; assumption.
Qed.

Lemma enc_sum_le_sound b n vs t : 0 < n -> (forall v, In v vs -> VOK b v) ->
  models b (fst (enc_sum_le n vs t)) -> bsum b vs <= t.
Proof.
  intros Hn Hok Hm. destruct vs as [|v1 rest]; unfold enc_sum_le in Hm.
  - cbn [fst] in Hm. change (bsum b []) with 0. destruct (t <? 0) eqn:E.
    + apply models_empty_clause in Hm. destruct Hm.
    + apply Z.ltb_ge in E. exact E.
  - exact (sum_le_go_sound b t rest n v1 Hn Hok Hm).
Qed.

Lemma enc_sum_le_complete b n vs t : 0 < n -> (forall v, In v vs -> VOK b v /\ var_below n v) ->
  bsum b vs <= t -> exists b', agree_below n b b' /\ models b' (fst (enc_sum_le n vs t)).
Proof.
  intros Hn Hok Hr. destruct vs as [|v1 rest]; unfold enc_sum_le.
  - exists b. split; [apply agree_below_refl|]. cbn [fst]. change (bsum b []) with 0 in Hr.
    destruct (t <? 0) eqn:E; [apply Z.ltb_lt in E; lia|]. apply models_nil. exact I.
  - exact (sum_le_go_complete t rest b n v1 Hn Hok Hr).
Qed.
