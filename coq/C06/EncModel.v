(* C06 - composition: per-constraint soundness / completeness / framing for the kinds with a proved encoding,
   then whole models (encode = _encode_vars + every constraint with the counter threaded). *)
From Coq Require Import List ZArith Bool Lia.
From SV Require Import C06.CpAst C06.CpAstProofs C06.CpEnc C06.EncBasics C06.EncPairwise C06.EncFrame
                       C06.EncLinear C06.EncLinear2 C06.EncSum C06.EncSum2 C06.EncCircuit C06.EncCircuit2 C06.EncCumul.
Import ListNotations.
Open Scope Z_scope.

(* the constraint kinds whose encoding is proved sound and complete here: by now every kind the encoder accepts
   (the predicate is kept so that the statements say explicitly what they cover) *)
Definition enc_proved (c : cstr) : bool :=
  match c with
  | CAllDiff _ | CEqConst _ _ | CNeConst _ _ | CEqVar _ _ | CNeVar _ _ | CLin _ _ _
  | CSumEq _ _ | CSumLe _ _ | CSumGe _ _ | CCircuit _ | CNoOverlap _ | CCumulative _ _ => true
  end.

(* ------------------------------------------------------------------ framing of the encodings without auxiliaries *)
Lemma cb1 n a : Z.abs a < n -> clause_below n [a].
Proof. intros H l [<-|[]]; exact H. Qed.
Lemma cb2 n a c : Z.abs a < n -> Z.abs c < n -> clause_below n [a; c].
Proof. intros H1 H2 l [<-|[<-|[]]]; assumption. Qed.
Lemma cnf_below_one n c : clause_below n c -> cnf_below n [c].
Proof. intros H c' [<-|[]]. exact H. Qed.

Definition vfit (n : Z) (v : var) : Prop := 0 < vbase v /\ var_below n v.

Lemma vl n v x : vfit n v -> vlb v <= x <= vub v -> Z.abs (vlit v x) < n /\ Z.abs (- vlit v x) < n.
Proof. intros [H1 H2] Hx. apply vlit_below; assumption. Qed.

Lemma enc_eq_const_below n v c : vfit n v -> cnf_below n (enc_eq_const v c).
Proof.
  intros Hv. unfold enc_eq_const. destruct (in_dom v c) eqn:D.
  - apply in_dom_iff in D. apply cnf_below_one, cb1. apply (vl n v c Hv D).
  - apply cnf_below_one. intros l [].
Qed.
Lemma enc_ne_const_below n v c : vfit n v -> cnf_below n (enc_ne_const v c).
Proof.
  intros Hv. unfold enc_ne_const. destruct (in_dom v c) eqn:D; [|apply cnf_below_nil].
  apply in_dom_iff in D. apply cnf_below_one, cb1. apply (vl n v c Hv D).
Qed.
Lemma enc_eq_var_below n v w : vfit n v -> vfit n w -> cnf_below n (enc_eq_var v w).
Proof.
  intros Hv Hw. unfold enc_eq_var. repeat (apply cnf_below_app; split).
  - apply cnf_below_flat_map. intros x Hx. apply common_In in Hx. destruct Hx as [Hx1 Hx2].
    intros c [<-|[<-|[]]]; apply cb2; first [apply (vl n v x Hv Hx1) | apply (vl n w x Hw Hx2)].
  - apply cnf_below_map. intros x Hx. apply filter_In in Hx. destruct Hx as [Hx _]. apply vdom_In in Hx.
    apply cb1. apply (vl n v x Hv Hx).
  - apply cnf_below_map. intros x Hx. apply filter_In in Hx. destruct Hx as [Hx _]. apply vdom_In in Hx.
    apply cb1. apply (vl n w x Hw Hx).
Qed.
Lemma enc_ne_var_below n v w : vfit n v -> vfit n w -> cnf_below n (enc_ne_var v w).
Proof.
  intros Hv Hw. unfold enc_ne_var. apply cnf_below_map. intros x Hx. apply common_In in Hx. destruct Hx as [Hx1 Hx2].
  apply cb2; [apply (vl n v x Hv Hx1) | apply (vl n w x Hw Hx2)].
Qed.

Lemma amo_below n ls : (forall l, In l ls -> 0 < l < n) -> cnf_below n (amo ls).
Proof.
  induction ls as [|a tl IH]; intros H; simpl; [apply cnf_below_nil|]. apply cnf_below_app. split.
  - apply cnf_below_map. intros c Hc. pose proof (H a (or_introl eq_refl)). pose proof (H c (or_intror Hc)). apply cb2; lia.
  - apply IH. intros l Hl. apply H. right. exact Hl.
Qed.

Lemma enc_all_different_below n vs : (forall v, In v vs -> vfit n v) -> cnf_below n (enc_all_different vs).
Proof.
  intros H. unfold enc_all_different. apply cnf_below_flat_map. intros x _.
  match goal with |- cnf_below n (if ?c then _ else _) => destruct c end; [|apply cnf_below_nil].
  unfold at_most_one. apply amo_below. intros l Hl. apply in_map_iff in Hl. destruct Hl as [v [<- Hv]].
  apply filter_In in Hv. destruct Hv as [Hv D]. apply in_dom_iff in D.
  destruct (H v Hv) as [Hb Hbel]. unfold var_below, vlit in *. lia.
Qed.

Lemma enc_disjunctive_below n p q : vfit n (fst p) -> vfit n (fst q) -> cnf_below n (enc_disjunctive p q).
Proof.
  intros Hp Hq. unfold enc_disjunctive. apply cnf_below_flat_map. intros s1 Hs1. apply cnf_below_flat_map. intros s2 Hs2.
  apply vdom_In in Hs1. apply vdom_In in Hs2.
  match goal with |- cnf_below n (if ?c then _ else _) => destruct c end; [|apply cnf_below_nil].
  apply cnf_below_one, cb2; [apply (vl n _ s1 Hp Hs1) | apply (vl n _ s2 Hq Hs2)].
Qed.
Lemma enc_no_overlap_below n ts : (forall p, In p ts -> vfit n (fst p)) -> cnf_below n (enc_no_overlap ts).
Proof.
  induction ts as [|p tl IH]; intros H; simpl; [apply cnf_below_nil|]. apply cnf_below_app. split.
  - apply cnf_below_flat_map. intros q Hq. apply enc_disjunctive_below; apply H; simpl; auto.
  - apply IH. intros q Hq. apply H. right. exact Hq.
Qed.

(* ------------------------------------------------------------------ one constraint *)
Lemma map_aval_bv b s vs : (forall v, In v vs -> aval s v = bv b v) -> vals s vs = map (bv b) vs.
Proof. intros H. unfold vals. apply map_ext_in. exact H. Qed.

Lemma cons_below n c : enc_proved c = true -> 0 < n -> (forall v, In v (cons_vars c) -> vfit n v) ->
  n <= snd (enc_constraint n c) /\ cnf_below (snd (enc_constraint n c)) (fst (enc_constraint n c)).
Proof.
  intros Hp Hn Hv. destruct c as [vs|v k|v k|v w|v w|l r ne|vs t|vs t|vs t|vs|ts|ts cap]; try discriminate Hp;
    cbn [enc_constraint fst snd cons_vars] in *.
  - split; [lia|]. apply enc_all_different_below. exact Hv.
  - split; [lia|]. apply enc_eq_const_below. apply Hv. left. reflexivity.
  - split; [lia|]. apply enc_ne_const_below. apply Hv. left. reflexivity.
  - split; [lia|]. apply enc_eq_var_below; apply Hv; simpl; auto.
  - split; [lia|]. apply enc_ne_var_below; apply Hv; simpl; auto.
  - unfold enc_ne_expr. destruct (linearize l r) as [tsl k] eqn:EL. apply enc_lin_terms_below; [exact Hn|].
    intros [v c] Ht. simpl. apply Hv. apply (linearize_terms l r v c). rewrite EL. exact Ht.
  - split; [apply enc_sum_eq_counter|]. apply enc_sum_eq_below; [exact Hn|exact Hv].
  - split; [apply enc_sum_le_counter|]. apply enc_sum_le_below; [exact Hn|exact Hv].
  - split; [apply enc_sum_ge_counter|]. apply enc_sum_ge_below; [exact Hn|exact Hv].
  - split; [apply enc_circuit_counter|]. apply enc_circuit_below; [exact Hn|exact Hv].
  - split; [lia|]. apply enc_no_overlap_below. intros p Hp'. apply Hv. apply in_map. exact Hp'.
  - split; [apply enc_cumulative_counter|]. apply enc_cumulative_below; [exact Hn|].
    intros p Hp'. apply Hv. apply (in_map (fun q : var * Z * Z => fst (fst q))). exact Hp'.
Qed.

Lemma task_vals_bv b s ts : (forall v, In v (map fst ts) -> aval s v = bv b v) ->
  task_vals s ts = map (fun p : var * Z => (bv b (fst p), snd p)) ts.
Proof.
  intros H. unfold task_vals. apply map_ext_in. intros p Hp. rewrite H; [reflexivity|]. apply in_map. exact Hp.
Qed.

Lemma ctask_vals_bv b s ts : (forall v, In v (map (fun p : var * Z * Z => fst (fst p)) ts) -> aval s v = bv b v) ->
  ctask_vals s ts = cvals b ts.
Proof.
  intros H. unfold ctask_vals, cvals. apply map_ext_in. intros p Hp. rewrite H; [reflexivity|].
  apply (in_map (fun q : var * Z * Z => fst (fst q))). exact Hp.
Qed.

Lemma wf_cons_cumulative ts cap : wf_cons (CCumulative ts cap) = true -> (forall p, In p ts -> 0 <= snd p) /\ 0 <= cap.
Proof.
  cbn [wf_cons]. rewrite andb_true_iff, forallb_forall. intros [H1 H2]. split; [|apply Z.leb_le; exact H2].
  intros p Hp. apply Z.leb_le. apply H1. exact Hp.
Qed.

(* what the clauses of a constraint mean, read on an integer assignment that agrees with the decoded values *)
Lemma cons_sound b s n c : enc_proved c = true -> wf_cons c = true -> 0 < n ->
  (forall v, In v (cons_vars c) -> VOK b v) -> (forall v, In v (cons_vars c) -> aval s v = bv b v) ->
  models b (fst (enc_constraint n c)) -> holds s c.
Proof.
  intros Hp Hw Hn Hv Hs Hm. destruct c as [vs|v k|v k|v w|v w|l r ne|vs t|vs t|vs t|vs|ts|ts cap]; try discriminate Hp;
    cbn [enc_constraint fst cons_vars holds] in *.
  - rewrite (map_aval_bv b s vs Hs). apply (enc_all_different_ok b vs Hv). exact Hm.
  - rewrite Hs by (left; reflexivity). apply (enc_eq_const_ok b v k); [apply Hv; left; reflexivity|exact Hm].
  - rewrite Hs by (left; reflexivity). apply (enc_ne_const_ok b v k); [apply Hv; left; reflexivity|exact Hm].
  - rewrite !Hs by (simpl; auto). apply (enc_eq_var_ok b v w); [apply Hv; simpl; auto|apply Hv; simpl; auto|exact Hm].
  - rewrite !Hs by (simpl; auto). apply (enc_ne_var_ok b v w); [apply Hv; simpl; auto|apply Hv; simpl; auto|exact Hm].
  - apply (lin_rel_holds b s l r ne Hs). unfold enc_ne_expr in Hm. destruct (linearize l r) as [tsl k] eqn:EL.
    cbn [fst snd]. apply (enc_lin_terms_sound b n tsl k ne Hn); [|exact Hm].
    intros [v c] Ht. simpl. destruct (linearize_terms l r v c) as [Hc Hin]; [rewrite EL; exact Ht|].
    split; [apply Hv; exact Hin|exact Hc].
  - rewrite (map_aval_bv b s vs Hs). apply (enc_sum_eq_sound b n vs t Hn Hv Hm).
  - rewrite (map_aval_bv b s vs Hs). apply (enc_sum_le_sound b n vs t Hn Hv Hm).
  - rewrite (map_aval_bv b s vs Hs). apply (enc_sum_ge_sound b n vs t Hn Hv Hm).
  - rewrite (map_aval_bv b s vs Hs). apply (enc_circuit_sound b n vs Hn Hv Hm).
  - rewrite (task_vals_bv b s ts Hs). apply (enc_no_overlap_ok b ts); [|exact Hm].
    intros p Hp'. apply Hv. apply in_map. exact Hp'.
  - rewrite (ctask_vals_bv b s ts Hs). destruct (wf_cons_cumulative ts cap Hw) as [Hd Hc].
    apply (enc_cumulative_sound b n ts cap Hn); try assumption.
    intros p Hp'. apply Hv. apply (in_map (fun q : var * Z * Z => fst (fst q))). exact Hp'.
Qed.

Lemma cons_complete b s n c : enc_proved c = true -> wf_cons c = true -> 0 < n ->
  (forall v, In v (cons_vars c) -> VOK b v /\ var_below n v) -> (forall v, In v (cons_vars c) -> aval s v = bv b v) ->
  holds s c -> exists b', agree_below n b b' /\ models b' (fst (enc_constraint n c)).
Proof.
  intros Hp Hw Hn Hv Hs Hh.
  assert (Hv1 : forall v, In v (cons_vars c) -> VOK b v) by (intros v Hin; apply (Hv v Hin)).
  destruct c as [vs|v k|v k|v w|v w|l r ne|vs t|vs t|vs t|vs|ts|ts cap]; try discriminate Hp;
    cbn [enc_constraint fst cons_vars holds] in *.
  - exists b. split; [apply agree_below_refl|]. apply (enc_all_different_ok b vs Hv1).
    rewrite <- (map_aval_bv b s vs Hs). exact Hh.
  - exists b. split; [apply agree_below_refl|]. apply (enc_eq_const_ok b v k); [apply Hv1; left; reflexivity|].
    rewrite <- Hs by (left; reflexivity). exact Hh.
  - exists b. split; [apply agree_below_refl|]. apply (enc_ne_const_ok b v k); [apply Hv1; left; reflexivity|].
    rewrite <- Hs by (left; reflexivity). exact Hh.
  - exists b. split; [apply agree_below_refl|]. apply (enc_eq_var_ok b v w); [apply Hv1; simpl; auto|apply Hv1; simpl; auto|].
    rewrite <- !Hs by (simpl; auto). exact Hh.
  - exists b. split; [apply agree_below_refl|]. apply (enc_ne_var_ok b v w); [apply Hv1; simpl; auto|apply Hv1; simpl; auto|].
    rewrite <- !Hs by (simpl; auto). exact Hh.
  - apply (lin_rel_holds b s l r ne Hs) in Hh. unfold enc_ne_expr. destruct (linearize l r) as [tsl k] eqn:EL.
    cbn [fst snd] in Hh. apply (enc_lin_terms_complete b n tsl k ne Hn); [| |exact Hh].
    + intros [v c] Ht. simpl. destruct (linearize_terms l r v c) as [Hc Hin]; [rewrite EL; exact Ht|].
      split; [apply Hv1; exact Hin|exact Hc].
    + intros [v c] Ht. simpl. destruct (linearize_terms l r v c) as [Hc Hin]; [rewrite EL; exact Ht|]. apply (Hv v Hin).
  - apply (enc_sum_eq_complete b n vs t Hn Hv). unfold bsum. rewrite <- (map_aval_bv b s vs Hs). exact Hh.
  - apply (enc_sum_le_complete b n vs t Hn Hv). unfold bsum. rewrite <- (map_aval_bv b s vs Hs). exact Hh.
  - apply (enc_sum_ge_complete b n vs t Hn Hv). unfold bsum. rewrite <- (map_aval_bv b s vs Hs). exact Hh.
  - apply (enc_circuit_complete b n vs Hn Hv). rewrite <- (map_aval_bv b s vs Hs). exact Hh.
  - exists b. split; [apply agree_below_refl|]. apply (enc_no_overlap_ok b ts).
    + intros p Hp'. apply Hv1. apply in_map. exact Hp'.
    + rewrite <- (task_vals_bv b s ts Hs). exact Hh.
  - destruct (wf_cons_cumulative ts cap Hw) as [Hd Hc].
    apply (enc_cumulative_complete b n ts cap Hn); try assumption.
    + intros p Hp'. apply Hv. apply (in_map (fun q : var * Z * Z => fst (fst q))). exact Hp'.
    + rewrite <- (ctask_vals_bv b s ts Hs). exact Hh.
Qed.

(* ------------------------------------------------------------------ a list of constraints *)
Lemma enc_constraints_cons n c cs :
  enc_constraints n (c :: cs) =
  (fst (enc_constraint n c) ++ fst (enc_constraints (snd (enc_constraint n c)) cs),
   snd (enc_constraints (snd (enc_constraint n c)) cs)).
Proof.
  cbn [enc_constraints]. destruct (enc_constraint n c) as [cl n1]. cbn [fst snd].
  destruct (enc_constraints n1 cs) as [cl2 n2]. reflexivity.
Qed.

Definition cs_ok (vars : list var) (cs : list cstr) : Prop :=
  forall c, In c cs -> (enc_proved c = true /\ wf_cons c = true) /\ forall v, In v (cons_vars c) -> In v vars.

Lemma vfit_mono n n' v : n <= n' -> vfit n v -> vfit n' v.
Proof. unfold vfit, var_below. intros H [H1 H2]. split; lia. Qed.

Lemma enc_constraints_sound b s vars cs : forall n, 0 < n -> cs_ok vars cs ->
  (forall v, In v vars -> VOK b v /\ var_below n v) -> (forall v, In v vars -> aval s v = bv b v) ->
  models b (fst (enc_constraints n cs)) -> forall c, In c cs -> holds s c.
Proof.
  induction cs as [|c0 tl IH]; intros n Hn Hok Hv Hs Hm c Hc; [destruct Hc|].
  rewrite enc_constraints_cons in Hm. cbn [fst] in Hm. apply models_app in Hm. destruct Hm as [Hm1 Hm2].
  destruct (Hok c0 (or_introl eq_refl)) as [[Hp Hw] Hin].
  assert (Hfit : forall v, In v (cons_vars c0) -> vfit n v).
  { intros v Hv0. destruct (Hv v (Hin v Hv0)) as [[Hb _] Hbel]. split; assumption. }
  destruct (cons_below n c0 Hp Hn Hfit) as [Hle _].
  destruct Hc as [<-|Hc].
  - apply (cons_sound b s n c0 Hp Hw Hn); [|intros v Hv0; apply Hs; apply Hin; exact Hv0|exact Hm1].
    intros v Hv0. apply (Hv v (Hin v Hv0)).
  - apply (IH (snd (enc_constraint n c0))); try assumption; [lia| |].
    + intros c' Hc'. apply Hok. right. exact Hc'.
    + intros v Hv0. destruct (Hv v Hv0) as [H1 H2]. split; [exact H1|]. unfold var_below in *. lia.
Qed.

Lemma enc_constraints_complete s vars cs : forall b n, 0 < n -> cs_ok vars cs ->
  (forall v, In v vars -> VOK b v /\ var_below n v) -> (forall v, In v vars -> aval s v = bv b v) ->
  (forall c, In c cs -> holds s c) ->
  exists b', agree_below n b b' /\ models b' (fst (enc_constraints n cs)).
Proof.
  induction cs as [|c0 tl IH]; intros b n Hn Hok Hv Hs Hh.
  - exists b. split; [apply agree_below_refl|]. cbn [enc_constraints fst]. apply models_nil. exact I.
  - destruct (Hok c0 (or_introl eq_refl)) as [[Hp Hw] Hin].
    assert (Hfit : forall v, In v (cons_vars c0) -> vfit n v).
    { intros v Hv0. destruct (Hv v (Hin v Hv0)) as [[Hb _] Hbel]. split; assumption. }
    destruct (cons_below n c0 Hp Hn Hfit) as [Hle Hbelow].
    destruct (cons_complete b s n c0 Hp Hw Hn) as [b1 [Hag1 Hm1]].
    + intros v Hv0. apply (Hv v (Hin v Hv0)).
    + intros v Hv0. apply Hs. apply Hin. exact Hv0.
    + apply Hh. left. reflexivity.
    + set (n1 := snd (enc_constraint n c0)) in *.
      destruct (IH b1 n1) as [b' [Hag' Hm2]].
      * lia.
      * intros c' Hc'. apply Hok. right. exact Hc'.
      * intros v Hv0. destruct (Hv v Hv0) as [H1 H2]. split; [apply (VOK_agree n b b1 v H2 Hag1 H1)|].
        unfold var_below in *. lia.
      * intros v Hv0. destruct (Hv v Hv0) as [[Hb He] H2]. rewrite (bv_agree n b b1 v Hb H2 Hag1 He). apply Hs. exact Hv0.
      * intros c' Hc'. apply Hh. right. exact Hc'.
      * exists b'. split; [apply (agree_below_trans n n1 b b1 b'); assumption|].
        rewrite enc_constraints_cons. cbn [fst]. apply models_app. split; [|exact Hm2].
        apply (models_agree n1 b1 b'); assumption.
Qed.

(* ------------------------------------------------------------------ what wf_model gives *)
Lemma var_eqb_eq a c : var_eqb a c = true -> a = c.
Proof.
  destruct a as [i1 l1 u1 n1 b1]. destruct c as [i2 l2 u2 n2 b2]. unfold var_eqb. simpl.
  rewrite !andb_true_iff. intros [[[[H1 H2] H3] H4] H5].
  apply Nat.eqb_eq in H1. apply Z.eqb_eq in H2. apply Z.eqb_eq in H3. apply eqb_prop in H4. apply Z.eqb_eq in H5.
  subst. reflexivity.
Qed.

Lemma var_mem_In v vs : var_mem v vs = true -> In v vs.
Proof.
  unfold var_mem. rewrite existsb_exists. intros [w [Hw E]]. apply var_eqb_eq in E. subst. exact Hw.
Qed.

Lemma bases_ok_props vs : forall start n, bases_ok start vs = Some n ->
  start <= n /\ forall v, In v vs -> start <= vbase v /\ vlb v <= vub v /\ vbase v + (vub v - vlb v) < n.
Proof.
  induction vs as [|v tl IH]; intros start n H; simpl in H.
  - inversion H. split; [lia|intros v []].
  - destruct ((vbase v =? start) && (vlb v <=? vub v)) eqn:E; [|discriminate].
    apply andb_true_iff in E. destruct E as [E1 E2]. apply Z.eqb_eq in E1. apply Z.leb_le in E2.
    destruct (IH _ _ H) as [H1 H2]. split; [lia|]. intros w [<-|Hw]; [lia|].
    destruct (H2 w Hw) as [A [B C]]. lia.
Qed.

Lemma nat_nodupb_NoDup l : nat_nodupb l = true -> NoDup l.
Proof.
  induction l as [|x tl IH]; simpl; intros H; constructor.
  - apply andb_true_iff in H. destruct H as [H _]. apply negb_true_iff in H.
    intros Hin. assert (existsb (Nat.eqb x) tl = true) by (apply existsb_exists; exists x; split; [exact Hin|apply Nat.eqb_refl]).
    congruence.
  - apply IH. apply andb_true_iff in H. apply H.
Qed.

Record wf_props (M : cpmodel) : Prop := {
  wf_next : 0 < m_next M;
  wf_vars : forall v, In v (m_vars M) -> 0 < vbase v /\ vlb v <= vub v /\ var_below (m_next M) v;
  wf_ids : NoDup (map vid (m_vars M));
  wf_bases : bases_ok 1 (m_vars M) = Some (m_next M);
  wf_cvars : forall c, In c (m_cons M) -> forall v, In v (cons_vars c) -> In v (m_vars M);
  wf_wfc : forall c, In c (m_cons M) -> wf_cons c = true
}.

Lemma wf_model_props M : wf_model M = true -> wf_props M.
Proof.
  unfold wf_model. rewrite !andb_true_iff. intros [[H1 H2] H3].
  destruct (bases_ok 1 (m_vars M)) as [n|] eqn:EB; [|discriminate]. apply Z.eqb_eq in H2. subst n.
  destruct (bases_ok_props _ _ _ EB) as [Hn Hv]. constructor.
  - lia.
  - intros v Hin. destruct (Hv v Hin) as [A [B C]]. unfold var_below. lia.
  - apply nat_nodupb_NoDup. exact H1.
  - exact EB.
  - intros c Hc v Hvc. rewrite forallb_forall in H3. specialize (H3 c Hc). apply andb_true_iff in H3.
    destruct H3 as [H3 _]. rewrite forallb_forall in H3. apply var_mem_In. apply H3. exact Hvc.
  - intros c Hc. rewrite forallb_forall in H3. specialize (H3 c Hc). apply andb_true_iff in H3. apply H3.
Qed.

(* ------------------------------------------------------------------ decoded assignment *)
Lemma find_vid vs v : NoDup (map vid vs) -> In v vs -> find (fun w => Nat.eqb (vid w) (vid v)) vs = Some v.
Proof.
  induction vs as [|w tl IH]; intros Hnd Hin; [destruct Hin|]. simpl in *.
  inversion Hnd as [|? ? Hn Hnd']; subst. destruct Hin as [->|Hin].
  - rewrite Nat.eqb_refl. reflexivity.
  - destruct (Nat.eqb (vid w) (vid v)) eqn:E; [|apply IH; assumption].
    apply Nat.eqb_eq in E. exfalso. apply Hn. rewrite E. apply in_map. exact Hin.
Qed.

Lemma dec_asgn_bv vs b v : NoDup (map vid vs) -> In v vs -> aval (dec_asgn vs b) v = bv b v.
Proof. intros Hnd Hin. unfold aval, dec_asgn. rewrite (find_vid vs v Hnd Hin). reflexivity. Qed.

(* ------------------------------------------------------------------ the initial assignment of a CP solution *)
Definition init_asg (vs : list var) (s : asgn) (b : asg) : asg :=
  fold_left (fun b' v => set_var b' v (aval s v)) vs b.

Lemma init_asg_ok s vs : forall start n b, bases_ok start vs = Some n -> 0 < start ->
  (forall v, In v vs -> vlb v <= aval s v <= vub v) ->
  agree_below start b (init_asg vs s b)
  /\ forall v, In v vs -> EO (init_asg vs s b) v /\ bv (init_asg vs s b) v = aval s v.
Proof.
  induction vs as [|v tl IH]; intros start n b HB Hs Hd; simpl in *.
  - split; [apply agree_below_refl|intros v []].
  - destruct ((vbase v =? start) && (vlb v <=? vub v)) eqn:E; [|discriminate].
    apply andb_true_iff in E. destruct E as [E1 E2]. apply Z.eqb_eq in E1. apply Z.leb_le in E2.
    set (b1 := set_var b v (aval s v)).
    set (start' := start + (vub v - vlb v + 1)) in *.
    destruct (IH start' n b1 HB) as [Hag Hall]; [unfold start'; lia|intros w Hw; apply Hd; right; exact Hw|].
    fold (init_asg tl s b1) in *.
    split.
    + apply (agree_below_trans start start' b b1 _); [unfold start'; lia| |exact Hag].
      rewrite <- E1. apply set_var_agree.
    + intros w [<-|Hw]; [|apply Hall; exact Hw].
      destruct (set_var_EO b v (aval s v) (Hd v (or_introl eq_refl))) as [He Hbv]. fold b1 in He, Hbv.
      assert (Hbel : var_below start' v) by (unfold var_below, start'; lia).
      split; [apply (EO_agree start' b1 _ v); try assumption; lia|].
      rewrite (bv_agree start' b1 _ v); try assumption; lia.
Qed.

(* ------------------------------------------------------------------ whole models *)
Definition model_proved (M : cpmodel) : bool := forallb enc_proved (m_cons M).

Lemma cs_ok_of M : wf_props M -> model_proved M = true -> cs_ok (m_vars M) (m_cons M).
Proof.
  intros W Hp c Hc. unfold model_proved in Hp. rewrite forallb_forall in Hp.
  split; [split; [apply Hp; exact Hc|apply (wf_wfc M W c Hc)]|].
  apply (wf_cvars M W c Hc).
Qed.

Lemma encode_eq M : fst (encode M) = enc_vars (m_vars M) ++ fst (enc_constraints (m_next M) (m_cons M)).
Proof. unfold encode. destruct (enc_constraints (m_next M) (m_cons M)) as [cl n]. reflexivity. Qed.

Theorem encode_sound M b : wf_model M = true -> model_proved M = true -> models b (fst (encode M)) ->
  cp_solution M (dec_asgn (m_vars M) b)
  /\ forall v, In v (m_vars M) ->
       exists x, dec_var b v = Some x /\ aval (dec_asgn (m_vars M) b) v = x /\ vlb v <= x <= vub v
                 /\ forall y, vlb v <= y <= vub v -> (b (vlit v y) = true <-> y = x).
Proof.
  intros Hwf Hp Hm. pose proof (wf_model_props M Hwf) as W. rewrite encode_eq in Hm.
  apply models_app in Hm. destruct Hm as [Hmv Hmc].
  assert (Hok : forall v, In v (m_vars M) -> var_ok v).
  { intros v Hv. destruct (wf_vars M W v Hv) as [A [B _]]. split; assumption. }
  pose proof (proj1 (enc_vars_models b (m_vars M) Hok) Hmv) as HEO.
  set (s := dec_asgn (m_vars M) b).
  assert (Hs : forall v, In v (m_vars M) -> aval s v = bv b v) by (intros v Hv; apply dec_asgn_bv; [apply (wf_ids M W)|exact Hv]).
  split; [split|].
  - intros v Hv. rewrite (Hs v Hv). apply EO_bv_dom. apply HEO. exact Hv.
  - apply (enc_constraints_sound b s (m_vars M) (m_cons M) (m_next M) (wf_next M W) (cs_ok_of M W Hp)); try assumption.
    intros v Hv. destruct (wf_vars M W v Hv) as [A [_ C]]. split; [split; [exact A|apply HEO; exact Hv]|exact C].
  - intros v Hv. pose proof (HEO v Hv) as He. destruct (EO_dec b v He) as [x [Hd [Hx Hu]]].
    exists x. assert (Ex : bv b v = x) by (unfold bv; rewrite Hd; reflexivity).
    split; [exact Hd|]. split; [rewrite (Hs v Hv); exact Ex|]. split; [rewrite <- Ex; apply EO_bv_dom; exact He|].
    intros y Hy. rewrite (EO_lit b v y He Hy), Ex. tauto.
Qed.

Theorem encode_complete M s : wf_model M = true -> model_proved M = true -> cp_solution M s ->
  exists b, models b (fst (encode M)) /\ forall v, In v (m_vars M) -> dec_var b v = Some (aval s v).
Proof.
  intros Hwf Hp [Hdom Hh]. pose proof (wf_model_props M Hwf) as W.
  destruct (init_asg_ok s (m_vars M) 1 (m_next M) (fun _ => false) (wf_bases M W)) as [_ H0]; [lia|exact Hdom|].
  set (b0 := init_asg (m_vars M) s (fun _ => false)) in *.
  destruct (enc_constraints_complete s (m_vars M) (m_cons M) b0 (m_next M) (wf_next M W) (cs_ok_of M W Hp)) as [b [Hag Hm]].
  - intros v Hv. destruct (wf_vars M W v Hv) as [A [_ C]]. split; [split; [exact A|apply (H0 v Hv)]|exact C].
  - intros v Hv. symmetry. apply (H0 v Hv).
  - exact Hh.
  - exists b. assert (HEO : forall v, In v (m_vars M) -> EO b v /\ bv b v = aval s v).
    { intros v Hv. destruct (wf_vars M W v Hv) as [A [_ C]]. destruct (H0 v Hv) as [He Hbv].
      split; [apply (EO_agree (m_next M) b0 b v A C Hag He)|]. rewrite (bv_agree (m_next M) b0 b v A C Hag He). exact Hbv. }
    split.
    + rewrite encode_eq. apply models_app. split; [|exact Hm].
      apply enc_vars_models; [|intros v Hv; apply (HEO v Hv)].
      intros v Hv. destruct (wf_vars M W v Hv) as [A [B _]]. split; assumption.
    + intros v Hv. destruct (HEO v Hv) as [He Hbv]. destruct (EO_dec b v He) as [x [Hd _]].
      rewrite Hd. unfold bv in Hbv. rewrite Hd in Hbv. rewrite Hbv. reflexivity.
Qed.

Theorem encode_equisat M : wf_model M = true -> model_proved M = true ->
  ((exists b, models b (fst (encode M))) <-> exists s, cp_solution M s).
Proof.
  intros Hwf Hp. split.
  - intros [b Hb]. exists (dec_asgn (m_vars M) b). apply (encode_sound M b Hwf Hp Hb).
  - intros [s Hs]. destruct (encode_complete M s Hwf Hp Hs) as [b [Hb _]]. exists b. exact Hb.
Qed.

(* the projections on the named variables coincide: decode of the CNF models = project of the CP solutions *)
Theorem encode_projection M : wf_model M = true -> model_proved M = true ->
  forall p : list (nat * option Z),
    (exists b, models b (fst (encode M)) /\ decode M b = p)
    <-> (exists s, cp_solution M s /\ map (fun q => (fst q, Some (snd q))) (project M s) = p).
Proof.
  intros Hwf Hp p. unfold decode, project. split.
  - intros [b [Hb <-]]. destruct (encode_sound M b Hwf Hp Hb) as [Hs Hd].
    exists (dec_asgn (m_vars M) b). split; [exact Hs|]. rewrite map_map. apply map_ext_in.
    intros v Hv. cbn [fst snd]. unfold named_vars in Hv. apply filter_In in Hv. destruct Hv as [Hv _].
    destruct (Hd v Hv) as [x [Hx [Hax _]]]. rewrite Hx, Hax. reflexivity.
  - intros [s [Hs <-]]. destruct (encode_complete M s Hwf Hp Hs) as [b [Hb Hd]].
    exists b. split; [exact Hb|]. rewrite map_map. apply map_ext_in.
    intros v Hv. cbn [fst snd]. unfold named_vars in Hv. apply filter_In in Hv. destruct Hv as [Hv _].
    rewrite (Hd v Hv). reflexivity.
Qed.

(* an empty clause in the encoding (INFEASIBLE reported by the encoder itself) means there is no CP solution *)
Corollary empty_clause_infeasible M : wf_model M = true -> model_proved M = true ->
  has_empty (fst (encode M)) = true -> forall s, ~ cp_solution M s.
Proof.
  intros Hwf Hp He s Hs. destruct (encode_complete M s Hwf Hp Hs) as [b [Hb _]].
  unfold has_empty in He. apply existsb_exists in He. destruct He as [c [Hc Hc']].
  destruct c; [|discriminate]. specialize (Hb [] Hc). discriminate.
Qed.

(* every kind is covered: the side condition model_proved is always true *)
Lemma model_proved_all M : model_proved M = true.
Proof. unfold model_proved. apply forallb_forall. intros c _. destruct c; reflexivity. Qed.
