(* C05 / C06 - reflection lemmas for CpAst.v: linearize is sound, the boolean twins decide the
   readable semantics. *)
From Coq Require Import List ZArith Bool Lia.
From SV Require Import C06.CpAst.
Import ListNotations. Open Scope Z_scope.

(* ------------------------------------------------------------------ linearize *)
Lemma lin_add_eval s ts v m : terms_eval s (lin_add ts v m) = terms_eval s ts + m * aval s v.
Proof.
  induction ts as [|[w c] tl IH]; simpl.
  - ring.
  - destruct (Nat.eqb (vid w) (vid v)) eqn:E; simpl.
    + apply Nat.eqb_eq in E. unfold aval. rewrite E. ring.
    + rewrite IH. ring.
Qed.

Lemma visit_eval s e : forall mult acc,
  terms_eval s (fst (visit e mult acc)) + snd (visit e mult acc)
  = terms_eval s (fst acc) + snd acc + mult * eval s e.
Proof.
  induction e as [v|c|a IHa b IHb|a IHa b IHb|a IHa b IHb|a IHa k]; intros mult acc; simpl.
  - rewrite lin_add_eval. ring.
  - ring.
  - rewrite IHb, IHa. ring.
  - rewrite IHb, IHa. ring.
  - rewrite IHa, IHb. ring.
  - rewrite IHa. ring.
Qed.

Lemma filter_nz_eval s ts :
  terms_eval s (filter (fun t => negb (snd t =? 0)) ts) = terms_eval s ts.
Proof.
  induction ts as [|[w c] tl IH]; simpl; [reflexivity|].
  destruct (c =? 0) eqn:E; simpl.
  - apply Z.eqb_eq in E. subst c. rewrite IH. ring.
  - rewrite IH. reflexivity.
Qed.

Lemma linearize_eval s l r : lin_eval s (linearize l r) = eval s l - eval s r.
Proof.
  unfold linearize, lin_eval. cbv zeta. simpl fst. simpl snd.
  rewrite filter_nz_eval, visit_eval, visit_eval. unfold terms_eval. simpl fst. simpl snd. simpl fold_right. ring.
Qed.

(* ------------------------------------------------------------------ domains *)
Lemma in_domainsb_spec s vs : in_domainsb s vs = true <-> in_domains s vs.
Proof.
  unfold in_domainsb, in_domains. rewrite forallb_forall.
  split; intros H v Hv; specialize (H v Hv); unfold in_dom in *;
    rewrite andb_true_iff, !Z.leb_le in *; lia.
Qed.

(* ------------------------------------------------------------------ all_different *)
Lemma zmem_spec x l : zmem x l = true <-> In x l.
Proof.
  unfold zmem. rewrite existsb_exists. split.
  - intros [y [Hy E]]. apply Z.eqb_eq in E. subst y. exact Hy.
  - intros H. exists x. split; [exact H|apply Z.eqb_refl].
Qed.

Lemma nodupb_spec l : nodupb l = true <-> NoDup l.
Proof.
  induction l as [|a l IH]; simpl.
  - split; intros _; [constructor|reflexivity].
  - rewrite andb_true_iff, negb_true_iff, IH. split.
    + intros [H1 H2]. constructor; [|exact H2].
      intro Hin. apply zmem_spec in Hin. congruence.
    + intros H. inversion H as [|a' l' Hn Hd]; subst. split; [|exact Hd].
      destruct (zmem a l) eqn:E; [|reflexivity]. apply zmem_spec in E. contradiction.
Qed.

(* ------------------------------------------------------------------ no_overlap *)
Lemma disjoint2b_spec a b : disjoint2b a b = true <-> disjoint2 a b.
Proof. unfold disjoint2b, disjoint2. rewrite orb_true_iff, !Z.leb_le. reflexivity. Qed.

Lemma no_overlap_valsb_spec ts : no_overlap_valsb ts = true <-> no_overlap_vals ts.
Proof.
  induction ts as [|a tl IH]; simpl.
  - split; intros _; [exact I|reflexivity].
  - rewrite andb_true_iff, forallb_forall, IH.
    split; intros [H1 H2]; (split; [|exact H2]); intros b Hb; apply disjoint2b_spec; auto.
Qed.

(* ------------------------------------------------------------------ cumulative *)
Lemma In_zseq len : forall start x, In x (zseq start len) <-> start <= x < start + Z.of_nat len.
Proof.
  induction len as [|len IH]; intros start x; simpl zseq; simpl In.
  - lia.
  - rewrite IH. lia.
Qed.

Lemma In_zrange lo hi x : In x (zrange lo hi) <-> lo <= x <= hi.
Proof. unfold zrange. rewrite In_zseq. lia. Qed.

Lemma load_cons a ts t : load (a :: ts) t = (if running t a then snd a else 0) + load ts t.
Proof. reflexivity. Qed.

Lemma load_idle ts t : (forall a, In a ts -> running t a = false) -> load ts t = 0.
Proof.
  induction ts as [|a tl IH]; intros H; [reflexivity|].
  rewrite load_cons, (H a (or_introl eq_refl)), IH; [reflexivity|].
  intros b Hb. apply H. right. exact Hb.
Qed.

Lemma load_early ts : exists t0, forall t, t <= t0 -> load ts t = 0.
Proof.
  induction ts as [|a tl [t0 IH]].
  - exists 0. intros t _. reflexivity.
  - exists (Z.min t0 (fst (fst a) - 1)). intros t Ht.
    rewrite load_cons, IH by lia.
    unfold running. replace (fst (fst a) <=? t) with false; [reflexivity|].
    symmetry. apply Z.leb_gt. lia.
Qed.

Lemma cumulative_valsb_spec ts cap : cumulative_valsb ts cap = true <-> cumulative_vals ts cap.
Proof.
  unfold cumulative_valsb, cumulative_vals.
  rewrite andb_true_iff, Z.leb_le, forallb_forall. split.
  - intros [Hc H] t. destruct (existsb (running t) ts) eqn:E.
    + apply existsb_exists in E. destruct E as [a [Ha Hr]].
      specialize (H a Ha). rewrite forallb_forall in H.
      apply Z.leb_le. apply H. apply In_zrange.
      unfold running in Hr. rewrite andb_true_iff, Z.leb_le, Z.ltb_lt in Hr. lia.
    + rewrite load_idle; [exact Hc|].
      intros a Ha. destruct (running t a) eqn:R; [|reflexivity].
      assert (existsb (running t) ts = true) as E'
        by (apply existsb_exists; exists a; split; assumption).
      congruence.
  - intros H. split.
    + destruct (load_early ts) as [t0 H0]. specialize (H t0). rewrite H0 in H by lia. exact H.
    + intros a _. apply forallb_forall. intros t _. apply Z.leb_le. apply H.
Qed.

(* ------------------------------------------------------------------ circuit *)
Lemma circuit_range_b_spec ss : forall n k,
  circuit_range_b n (Z.of_nat k) ss = true
  <-> forall j, (j < length ss)%nat -> 0 <= nth j ss 0 < n /\ nth j ss 0 <> Z.of_nat (k + j).
Proof.
  induction ss as [|x tl IH]; intros n k.
  - simpl. split; [intros _ j Hj; lia|reflexivity].
  - simpl circuit_range_b. replace (Z.of_nat k + 1) with (Z.of_nat (S k)) by lia.
    rewrite !andb_true_iff, IH, Z.leb_le, Z.ltb_lt, negb_true_iff, Z.eqb_neq. split.
    + intros [[[H1 H2] H3] H4] j Hj. destruct j as [|j]; simpl nth.
      * replace (k + 0)%nat with k by lia. lia.
      * replace (k + S j)%nat with (S k + j)%nat by lia. apply H4. simpl in Hj. lia.
    + intros H. split.
      * pose proof (H 0%nat) as H0. simpl in H0. replace (k + 0)%nat with k in H0 by lia.
        assert (0 <= x < n /\ x <> Z.of_nat k) as H0' by (apply H0; lia). lia.
      * intros j Hj. pose proof (H (S j)) as HS. simpl in HS.
        replace (k + S j)%nat with (S (k + j)) in HS by lia. apply HS. lia.
Qed.

Lemma circuit_walk_b_spec ss k : forall cur,
  circuit_walk_b ss k cur = true
  <-> (forall j, (0 < j < k)%nat -> iter_nxt ss j cur <> 0) /\ iter_nxt ss k cur = 0.
Proof.
  induction k as [|k IH]; intros cur.
  - simpl. rewrite Z.eqb_eq. split; [intros H; split; [intros j Hj; lia|exact H]|intros [_ H]; exact H].
  - destruct k as [|k].
    + simpl. rewrite Z.eqb_eq.
      split; [intros H; split; [intros j Hj; lia|exact H]|intros [_ H]; exact H].
    + change (circuit_walk_b ss (S (S k)) cur)
        with (negb (nxt ss cur =? 0) && circuit_walk_b ss (S k) (nxt ss cur)).
      rewrite andb_true_iff, negb_true_iff, Z.eqb_neq, IH.
      change (iter_nxt ss (S (S k)) cur) with (iter_nxt ss (S k) (nxt ss cur)). split.
      * intros [H1 [H2 H3]]. split; [|exact H3].
        intros j Hj. destruct j as [|j]; [lia|].
        change (iter_nxt ss (S j) cur) with (iter_nxt ss j (nxt ss cur)).
        destruct j as [|j]; [exact H1|apply H2; lia].
      * intros [H1 H2]. split; [apply (H1 1%nat); lia|]. split; [|exact H2].
        intros j Hj. apply (H1 (S j)). lia.
Qed.

Lemma circuit_valsb_spec ss : circuit_valsb ss = true <-> circuit_vals ss.
Proof.
  unfold circuit_valsb, circuit_vals. cbv zeta.
  pose proof (circuit_range_b_spec ss (Z.of_nat (length ss)) 0%nat) as HR.
  change (Z.of_nat 0) with 0 in HR.
  rewrite andb_true_iff, HR, circuit_walk_b_spec. simpl Nat.add. reflexivity.
Qed.

(* ------------------------------------------------------------------ constraints, models *)
Lemma holdsb_spec s c : holdsb s c = true <-> holds s c.
Proof.
  destruct c as [vs|v c|v c|v w|v w|l r is_ne|vs t|vs t|vs t|vs|ts|ts cap]; simpl.
  - apply nodupb_spec.
  - apply Z.eqb_eq.
  - rewrite negb_true_iff. apply Z.eqb_neq.
  - apply Z.eqb_eq.
  - rewrite negb_true_iff. apply Z.eqb_neq.
  - destruct is_ne; [rewrite negb_true_iff; apply Z.eqb_neq|apply Z.eqb_eq].
  - apply Z.eqb_eq.
  - apply Z.leb_le.
  - rewrite Z.geb_le. lia.
  - apply circuit_valsb_spec.
  - apply no_overlap_valsb_spec.
  - apply cumulative_valsb_spec.
Qed.

Lemma cp_solutionb_spec M s : cp_solutionb M s = true <-> cp_solution M s.
Proof.
  unfold cp_solutionb, cp_solution. rewrite andb_true_iff, in_domainsb_spec, forallb_forall.
  split; intros [H1 H2]; (split; [exact H1|]); intros c Hc; apply holdsb_spec; auto.
Qed.
