(* C06 - soundness + completeness of the encodings WITHOUT auxiliaries: ==/!= constant, ==/!= variable,
   all_different, no_overlap.  Each is an equivalence on SAT assignments under which the variables involved
   have exactly one value (EO, guaranteed by _encode_vars): models b (enc c) <-> the constraint on the decoded values. *)
From Coq Require Import List ZArith Bool Lia.
From SV Require Import C06.CpAst C06.CpEnc C06.EncBasics.
Import ListNotations.
Open Scope Z_scope.

Definition VOK (b : asg) (v : var) : Prop := 0 < vbase v /\ EO b v.

Lemma EO_lit_b b v x : EO b v -> vlb v <= x <= vub v -> b (vlit v x) = (x =? bv b v).
Proof.
  intros H Hx. destruct (x =? bv b v) eqn:E.
  - apply Z.eqb_eq in E. apply (EO_lit b v x H Hx). exact E.
  - apply Z.eqb_neq in E. apply EO_lit_false; assumption.
Qed.

Lemma not_in_dom v x : in_dom v x = false -> ~ (vlb v <= x <= vub v).
Proof. intros H Hx. apply in_dom_iff in Hx. congruence. Qed.

(* ------------------------------------------------------------------ constants *)
Lemma enc_eq_const_ok b v c : VOK b v -> (models b (enc_eq_const v c) <-> bv b v = c).
Proof.
  intros [Hb He]. unfold enc_eq_const. pose proof (EO_bv_dom b v He) as Hd.
  destruct (in_dom v c) eqn:D.
  - apply in_dom_iff in D. rewrite models_one, ct_p by (apply vlit_pos; lia).
    rewrite (EO_lit_b b v c He D). rewrite Z.eqb_eq. split; auto.
  - apply not_in_dom in D. rewrite models_empty_clause. split; [tauto|]. intros <-. tauto.
Qed.

Lemma enc_ne_const_ok b v c : VOK b v -> (models b (enc_ne_const v c) <-> bv b v <> c).
Proof.
  intros [Hb He]. unfold enc_ne_const. pose proof (EO_bv_dom b v He) as Hd.
  destruct (in_dom v c) eqn:D.
  - apply in_dom_iff in D. rewrite models_one, ct_n by (apply vlit_pos; lia).
    rewrite (EO_lit_b b v c He D). rewrite negb_true_iff, Z.eqb_neq. split; auto.
  - apply not_in_dom in D. rewrite models_nil. split; [|tauto]. intros _ E. subst. tauto.
Qed.

(* ------------------------------------------------------------------ two variables *)
Lemma common_In v w x : In x (common v w) <-> (vlb v <= x <= vub v) /\ (vlb w <= x <= vub w).
Proof. unfold common. rewrite filter_In, vdom_In, in_dom_iff. tauto. Qed.

Lemma enc_eq_var_ok b v w : VOK b v -> VOK b w -> (models b (enc_eq_var v w) <-> bv b v = bv b w).
Proof.
  intros [Hbv Hev] [Hbw Hew]. unfold enc_eq_var.
  pose proof (EO_bv_dom b v Hev) as Hdv. pose proof (EO_bv_dom b w Hew) as Hdw.
  rewrite !models_app, models_flat_map, !models_map. split.
  - intros [H1 [H2 H3]].
    destruct (in_dom w (bv b v)) eqn:D.
    + apply in_dom_iff in D. specialize (H1 (bv b v) (proj2 (common_In v w _) (conj Hdv D))).
      rewrite models_cons in H1. destruct H1 as [H1 _].
      rewrite ct_np in H1 by (apply vlit_pos; lia).
      rewrite (EO_lit_b b v _ Hev Hdv), (EO_lit_b b w _ Hew D), Z.eqb_refl in H1. simpl in H1.
      apply Z.eqb_eq in H1. exact H1.
    + exfalso. assert (Hin : In (bv b v) (filter (fun x => negb (in_dom w x)) (vdom v))).
      { apply filter_In. split; [apply vdom_In; exact Hdv | rewrite D; reflexivity]. }
      specialize (H2 _ Hin). rewrite ct_n in H2 by (apply vlit_pos; lia).
      rewrite (EO_lit_b b v _ Hev Hdv), Z.eqb_refl in H2. discriminate.
  - intros E. split; [|split].
    + intros x Hx. apply common_In in Hx. destruct Hx as [Hxv Hxw].
      rewrite models_cons, models_one, ct_np, ct_pn by (apply vlit_pos; lia).
      rewrite (EO_lit_b b v x Hev Hxv), (EO_lit_b b w x Hew Hxw), <- E.
      destruct (x =? bv b v); auto.
    + intros x Hx. apply filter_In in Hx. destruct Hx as [Hx1 Hx2]. apply vdom_In in Hx1.
      rewrite ct_n by (apply vlit_pos; lia). rewrite (EO_lit_b b v x Hev Hx1).
      apply negb_true_iff in Hx2. apply not_in_dom in Hx2.
      destruct (x =? bv b v) eqn:E2; [|reflexivity]. apply Z.eqb_eq in E2. subst x. rewrite E in Hx2. tauto.
    + intros x Hx. apply filter_In in Hx. destruct Hx as [Hx1 Hx2]. apply vdom_In in Hx1.
      rewrite ct_n by (apply vlit_pos; lia). rewrite (EO_lit_b b w x Hew Hx1).
      apply negb_true_iff in Hx2. apply not_in_dom in Hx2.
      destruct (x =? bv b w) eqn:E2; [|reflexivity]. apply Z.eqb_eq in E2. subst x. rewrite <- E in Hx2. tauto.
Qed.

Lemma enc_ne_var_ok b v w : VOK b v -> VOK b w -> (models b (enc_ne_var v w) <-> bv b v <> bv b w).
Proof.
  intros [Hbv Hev] [Hbw Hew]. unfold enc_ne_var.
  pose proof (EO_bv_dom b v Hev) as Hdv. pose proof (EO_bv_dom b w Hew) as Hdw.
  rewrite models_map. split.
  - intros H E. rewrite <- E in Hdw.
    specialize (H (bv b v) (proj2 (common_In v w _) (conj Hdv Hdw))).
    rewrite ct_nn in H by (apply vlit_pos; lia).
    rewrite (EO_lit_b b v _ Hev Hdv), (EO_lit_b b w _ Hew Hdw), <- E, Z.eqb_refl in H. discriminate.
  - intros Hne x Hx. apply common_In in Hx. destruct Hx as [Hxv Hxw].
    rewrite ct_nn by (apply vlit_pos; lia).
    rewrite (EO_lit_b b v x Hev Hxv), (EO_lit_b b w x Hew Hxw).
    destruct (x =? bv b v) eqn:E1; destruct (x =? bv b w) eqn:E2; auto.
    apply Z.eqb_eq in E1. apply Z.eqb_eq in E2. exfalso. apply Hne. congruence.
Qed.

(* ------------------------------------------------------------------ all_different *)
(* at most one position of l carries x *)
Fixpoint amo_vals (x : Z) (l : list Z) : Prop :=
  match l with
  | [] => True
  | a :: tl => (a = x -> ~ In x tl) /\ amo_vals x tl
  end.

Lemma NoDup_amo_vals l : NoDup l <-> forall x, amo_vals x l.
Proof.
  induction l as [|a tl IH]; simpl.
  - split; [auto|constructor].
  - split.
    + intros H x. inversion H as [|? ? Hn Hnd]; subst. split.
      * intros ->. exact Hn.
      * apply IH. exact Hnd.
    + intros H. constructor.
      * apply (proj1 (H a)). reflexivity.
      * apply IH. intros x. apply (H x).
Qed.

Lemma amo_vals_notin x l : ~ In x l -> amo_vals x l.
Proof.
  induction l as [|a tl IH]; simpl; intros H; [exact I|]. split.
  - intros _ Hin. apply H. right. exact Hin.
  - apply IH. intros Hin. apply H. right. exact Hin.
Qed.

Definition lits_at (vs : list var) (x : Z) : list lit :=
  map (fun v => vlit v x) (filter (fun v => in_dom v x) vs).

Lemma amo_short ls : (length ls <= 1)%nat -> amo ls = [].
Proof. destruct ls as [|a [|c tl]]; simpl; intros H; try reflexivity. lia. Qed.

Lemma lits_at_pos vs x : (forall v, In v vs -> 0 < vbase v) -> forall l, In l (lits_at vs x) -> 0 < l.
Proof.
  intros Hb l Hl. unfold lits_at in Hl. apply in_map_iff in Hl. destruct Hl as [v [<- Hv]].
  apply filter_In in Hv. destruct Hv as [Hv D]. apply in_dom_iff in D. apply vlit_pos; [apply Hb; exact Hv|lia].
Qed.

Lemma lits_at_true b vs x : (forall v, In v vs -> VOK b v) ->
  ((exists l, In l (lits_at vs x) /\ b l = true) <-> In x (map (bv b) vs)).
Proof.
  intros Hok. unfold lits_at. split.
  - intros [l [Hl Hbl]]. apply in_map_iff in Hl. destruct Hl as [v [<- Hv]]. apply filter_In in Hv.
    destruct Hv as [Hv D]. apply in_dom_iff in D. destruct (Hok v Hv) as [_ He].
    rewrite (EO_lit_b b v x He D) in Hbl. apply Z.eqb_eq in Hbl. apply in_map_iff. exists v. auto.
  - intros H. apply in_map_iff in H. destruct H as [v [E Hv]]. destruct (Hok v Hv) as [_ He].
    pose proof (EO_bv_dom b v He) as Hd. rewrite E in Hd.
    exists (vlit v x). split.
    + apply in_map_iff. exists v. split; [reflexivity|]. apply filter_In. split; [exact Hv|apply in_dom_iff; exact Hd].
    + rewrite (EO_lit_b b v x He Hd), E. apply Z.eqb_refl.
Qed.

Lemma amo_sem_lits_at b vs x : (forall v, In v vs -> VOK b v) ->
  (amo_sem b (lits_at vs x) <-> amo_vals x (map (bv b) vs)).
Proof.
  induction vs as [|v tl IH]; intros Hok; [simpl; tauto|].
  assert (Hok' : forall w, In w tl -> VOK b w) by (intros w Hw; apply Hok; right; exact Hw).
  destruct (Hok v (or_introl eq_refl)) as [Hb He].
  pose proof (EO_bv_dom b v He) as Hd.
  unfold lits_at in *. simpl. destruct (in_dom v x) eqn:D; simpl.
  - apply in_dom_iff in D. rewrite IH by exact Hok'. rewrite (EO_lit_b b v x He D), Z.eqb_eq.
    pose proof (lits_at_true b tl x Hok') as HT. unfold lits_at in HT.
    split; intros [H1 H2]; split; auto.
    + intros E Hin. apply HT in Hin. destruct Hin as [l [Hl Hbl]].
      rewrite (H1 (eq_sym E) l Hl) in Hbl. discriminate.
    + intros E c Hc. destruct (b c) eqn:Ec; [|reflexivity]. exfalso.
      apply (H1 (eq_sym E)). apply HT. exists c. auto.
  - apply not_in_dom in D. rewrite IH by exact Hok'. split.
    + intros H. split; [|exact H]. intros E. rewrite E in Hd. tauto.
    + intros [_ H]. exact H.
Qed.

Lemma fold_min_le (vs : list var) (d : Z) w : In w vs -> fold_right (fun u a => Z.min (vlb u) a) d vs <= vlb w.
Proof.
  induction vs as [|u tl IH]; intros H; [destruct H|]. simpl. destruct H as [<-|H]; [lia|].
  specialize (IH H). lia.
Qed.
Lemma fold_min_le_d (vs : list var) (d : Z) : fold_right (fun u a => Z.min (vlb u) a) d vs <= d.
Proof. induction vs as [|u tl IH]; simpl; lia. Qed.
Lemma fold_max_ge (vs : list var) (d : Z) w : In w vs -> vub w <= fold_right (fun u a => Z.max (vub u) a) d vs.
Proof.
  induction vs as [|u tl IH]; intros H; [destruct H|]. simpl. destruct H as [<-|H]; [lia|].
  specialize (IH H). lia.
Qed.
Lemma fold_max_ge_d (vs : list var) (d : Z) : d <= fold_right (fun u a => Z.max (vub u) a) d vs.
Proof. induction vs as [|u tl IH]; simpl; lia. Qed.

Lemma all_vals_In vs x : In x (all_vals vs) <-> exists w, In w vs /\ vlb w <= x <= vub w.
Proof.
  unfold all_vals. destruct vs as [|v tl]; [simpl; split; [tauto|intros [w [[] _]]]|].
  rewrite filter_In, zrange_In, existsb_exists. split.
  - intros [_ [w [Hw D]]]. exists w. split; [exact Hw|apply in_dom_iff; exact D].
  - intros [w [Hw D]]. split; [|exists w; split; [exact Hw|apply in_dom_iff; exact D]].
    destruct Hw as [<-|Hw].
    + pose proof (fold_min_le_d tl (vlb v)). pose proof (fold_max_ge_d tl (vub v)). lia.
    + pose proof (fold_min_le tl (vlb v) w Hw). pose proof (fold_max_ge tl (vub v) w Hw). lia.
Qed.

Lemma enc_all_different_ok b vs : (forall v, In v vs -> VOK b v) ->
  (models b (enc_all_different vs) <-> NoDup (map (bv b) vs)).
Proof.
  intros Hok. unfold enc_all_different. rewrite models_flat_map, NoDup_amo_vals.
  assert (Hpos : forall v, In v vs -> 0 < vbase v) by (intros v Hv; apply (Hok v Hv)).
  assert (Hcl : forall x, models b (if 1 <? Z.of_nat (length (lits_at vs x)) then at_most_one (lits_at vs x) else [])
                          <-> amo_vals x (map (bv b) vs)).
  { intros x. rewrite <- amo_sem_lits_at by exact Hok.
    rewrite <- (amo_models b (lits_at vs x)) by (apply lits_at_pos; exact Hpos).
    unfold at_most_one. destruct (1 <? Z.of_nat (length (lits_at vs x))) eqn:E; [tauto|].
    rewrite amo_short by (apply Z.ltb_ge in E; lia). tauto. }
  split.
  - intros H x. destruct (in_dec Z.eq_dec x (map (bv b) vs)) as [Hin|Hn]; [|apply amo_vals_notin; exact Hn].
    apply Hcl. apply (H x). apply all_vals_In. apply in_map_iff in Hin. destruct Hin as [w [E Hw]].
    exists w. split; [exact Hw|]. rewrite <- E. apply EO_bv_dom. apply (Hok w Hw).
  - intros H x _. apply Hcl. apply H.
Qed.

(* ------------------------------------------------------------------ no_overlap *)
Lemma enc_disjunctive_ok b p q : VOK b (fst p) -> VOK b (fst q) ->
  (models b (enc_disjunctive p q) <-> disjoint2 (bv b (fst p), snd p) (bv b (fst q), snd q)).
Proof.
  destruct p as [v d1]. destruct q as [w d2]. simpl. intros [Hbv Hev] [Hbw Hew].
  pose proof (EO_bv_dom b v Hev) as Hdv. pose proof (EO_bv_dom b w Hew) as Hdw.
  unfold enc_disjunctive, disjoint2. simpl. rewrite models_flat_map. split.
  - intros H. specialize (H (bv b v) (proj2 (vdom_In v _) Hdv)). rewrite models_flat_map in H.
    specialize (H (bv b w) (proj2 (vdom_In w _) Hdw)).
    destruct (bv b v + d1 <=? bv b w) eqn:E1; [apply Z.leb_le in E1; lia|].
    destruct (bv b w + d2 <=? bv b v) eqn:E2; [apply Z.leb_le in E2; lia|].
    simpl in H. rewrite models_one, ct_nn in H by (apply vlit_pos; lia).
    rewrite (EO_lit_b b v _ Hev Hdv), (EO_lit_b b w _ Hew Hdw), !Z.eqb_refl in H. discriminate.
  - intros Hdis s1 Hs1. rewrite models_flat_map. intros s2 Hs2.
    apply vdom_In in Hs1. apply vdom_In in Hs2.
    destruct (negb (s1 + d1 <=? s2) && negb (s2 + d2 <=? s1)) eqn:E; [|apply models_nil; exact I].
    rewrite models_one, ct_nn by (apply vlit_pos; lia).
    rewrite (EO_lit_b b v _ Hev Hs1), (EO_lit_b b w _ Hew Hs2).
    apply andb_true_iff in E. destruct E as [E1 E2]. apply negb_true_iff in E1, E2.
    apply Z.leb_gt in E1. apply Z.leb_gt in E2.
    destruct (s1 =? bv b v) eqn:F1; destruct (s2 =? bv b w) eqn:F2; auto.
    apply Z.eqb_eq in F1. apply Z.eqb_eq in F2. subst. lia.
Qed.

Lemma enc_no_overlap_ok b ts : (forall p, In p ts -> VOK b (fst p)) ->
  (models b (enc_no_overlap ts) <-> no_overlap_vals (map (fun p => (bv b (fst p), snd p)) ts)).
Proof.
  induction ts as [|p tl IH]; intros Hok; simpl; [apply models_nil|].
  assert (Hok' : forall q, In q tl -> VOK b (fst q)) by (intros q Hq; apply Hok; right; exact Hq).
  rewrite models_app, models_flat_map, IH by exact Hok'.
  split; intros [H1 H2]; split; auto.
  - intros q' Hq'. apply in_map_iff in Hq'. destruct Hq' as [q [<- Hq]].
    apply (enc_disjunctive_ok b p q); [apply Hok; left; reflexivity | apply Hok'; exact Hq | apply H1; exact Hq].
  - intros q Hq. apply (enc_disjunctive_ok b p q); [apply Hok; left; reflexivity | apply Hok'; exact Hq |].
    apply (H1 (bv b (fst q), snd q)). apply in_map_iff. exists q. auto.
Qed.
