(* C06 - executable model of /repo/solvor/cp_encoder.py (SATEncoder): one Gallina function per
   `_encode_*` method, the fresh-literal counter (`self._next_bool`) threaded explicitly.
   DEFINITIONS ONLY.

   Literal numbering is exactly the code's: value x of variable v is literal vbase v + (x - vlb v)
   (IntVar.__init__), auxiliaries are numbered from Model._next_bool upwards in creation order.
   Clause ORDER follows the code wherever the code's order is deterministic; `_encode_all_different`,
   `_encode_eq_var`, `_encode_ne_var` iterate Python sets of ints (hash order) - here they are visited
   in ascending order, and the harness compares `canon (encode M)` with `canon captured`
   (literals sorted inside each clause, clauses sorted: equality of multisets of clauses-as-multisets). *)
From Coq Require Import List ZArith Bool Lia Mergesort Orders.
From SV Require Import C06.CpAst.
Import ListNotations.
Open Scope Z_scope.

(* ------------------------------------------------------------------ CNF semantics
   (verbatim the definitions of DESIGN.md appendix A / SV.C01.SatSpec, repeated to keep C06 self-contained) *)
Definition lit := Z.
Definition clause := list lit.
Definition cnf := list clause.
Definition asg := Z -> bool.
Definition lit_true (m : asg) (l : lit) : bool := if 0 <? l then m l else negb (m (- l)).
Definition clause_true (m : asg) (c : clause) : bool := existsb (lit_true m) c.
Definition models (m : asg) (f : cnf) : Prop := forall c, In c f -> clause_true m c = true.
Definition models_b (m : asg) (f : cnf) : bool := forallb (clause_true m) f.

(* ------------------------------------------------------------------ helpers *)
(* itertools.combinations(lits, 2) -> [-a, -b] *)
Fixpoint amo (ls : list lit) : cnf :=
  match ls with
  | [] => []
  | a :: tl => map (fun b => [- a; - b]) tl ++ amo tl
  end.

(* _encode_exactly_one *)
Definition exactly_one (ls : list lit) : cnf :=
  match ls with [] => [] | _ :: _ => ls :: amo ls end.

(* _encode_at_most_one *)
Definition at_most_one (ls : list lit) : cnf := amo ls.

Definition lits_of (v : var) : list lit := map snd (bool_vars v).

(* _encode_vars *)
Definition enc_vars (vs : list var) : cnf := flat_map (fun v => exactly_one (lits_of v)) vs.

(* the auxiliary IntVar of _create_int_var(lb, ub) when the counter is n; its literals n, n+1, ... *)
Definition mk_aux (n lb ub : Z) : var := mkVar 0 lb ub false n.
Definition aux_size (lb ub : Z) : Z := Z.max 0 (ub - lb + 1).
(* _create_int_var: (variable, its exactly-one clauses, new counter) *)
Definition create_int_var (n lb ub : Z) : var * cnf * Z :=
  let v := mk_aux n lb ub in (v, exactly_one (lits_of v), n + aux_size lb ub).

(* ------------------------------------------------------------------ simple constraints *)
Definition all_vals (vs : list var) : list Z :=
  match vs with
  | [] => []
  | v :: tl =>
      let lo := fold_right (fun w a => Z.min (vlb w) a) (vlb v) tl in
      let hi := fold_right (fun w a => Z.max (vub w) a) (vub v) tl in
      filter (fun x => existsb (fun w => in_dom w x) vs) (zrange lo hi)
  end.

(* _encode_all_different *)
Definition enc_all_different (vs : list var) : cnf :=
  flat_map (fun x =>
    let lits := map (fun v => vlit v x) (filter (fun v => in_dom v x) vs) in
    if (1 <? Z.of_nat (length lits)) then at_most_one lits else []) (all_vals vs).

(* _encode_eq_const / _encode_ne_const *)
Definition enc_eq_const (v : var) (c : Z) : cnf := if in_dom v c then [[vlit v c]] else [[]].
Definition enc_ne_const (v : var) (c : Z) : cnf := if in_dom v c then [[- vlit v c]] else [].

(* _encode_eq_var / _encode_ne_var *)
Definition common (v w : var) : list Z := filter (in_dom w) (vdom v).
Definition enc_eq_var (v w : var) : cnf :=
  flat_map (fun x => [[- vlit v x; vlit w x]; [vlit v x; - vlit w x]]) (common v w)
  ++ map (fun x => [- vlit v x]) (filter (fun x => negb (in_dom w x)) (vdom v))
  ++ map (fun x => [- vlit w x]) (filter (fun x => negb (in_dom v x)) (vdom w)).
Definition enc_ne_var (v w : var) : cnf :=
  map (fun x => [- vlit v x; - vlit w x]) (common v w).

(* ------------------------------------------------------------------ linear ==/!= (_encode_ne_expr) *)
(* a term coef*var (or a partial sum) as an insertion-ordered dict  value -> literal *)
Definition vmap := list (Z * lit).
Fixpoint mget (m : vmap) (k : Z) : option lit :=
  match m with
  | [] => None
  | (k', l) :: tl => if k' =? k then Some l else mget tl k
  end.
Definition term_map (t : var * Z) : vmap :=
  map (fun p => (snd t * fst p, snd p)) (bool_vars (fst t)).

(* sorted({...}) : ascending, duplicates removed *)
Fixpoint zinsert (x : Z) (l : list Z) : list Z :=
  match l with
  | [] => [x]
  | y :: tl => if x <? y then x :: l else if x =? y then l else y :: zinsert x tl
  end.
Definition sorted_set (l : list Z) : list Z := fold_right zinsert [] l.

Definition pair_sums (a b : vmap) : list Z :=
  sorted_set (flat_map (fun pa => map (fun pb => fst pa + fst pb) b) a).
Definition oget (o : option lit) : lit := match o with Some l => l | None => 0 end.

(* one round of the `while len(maps) > 2` loop: a = maps.pop(), b = maps.pop() *)
Definition fold_step (n : Z) (a b : vmap) : vmap * cnf * Z :=
  let sums := pair_sums a b in
  let total := combine sums (zseq n (length sums)) in
  (total,
   exactly_one (map snd total)
   ++ flat_map (fun pa => map (fun pb => [- snd pa; - snd pb; oget (mget total (fst pa + fst pb))]) b) a,
   n + Z.of_nat (length sums)).

Definition lin_final0 (target : Z) (is_ne : bool) : cnf :=
  if xorb (negb (target =? 0)) is_ne then [[]] else [].
Definition lin_final1 (m : vmap) (target : Z) (is_ne : bool) : cnf :=
  match mget m target with
  | Some l => if is_ne then [[- l]] else [[l]]
  | None => if is_ne then [] else [[]]
  end.
(* a, b = maps *)
Definition lin_final2 (a b : vmap) (target : Z) (is_ne : bool) : cnf :=
  flat_map (fun pa =>
    match mget b (target - fst pa) with
    | Some lb => if is_ne then [[- snd pa; - lb]] else [[- snd pa; lb]]
    | None => if is_ne then [] else [[- snd pa]]
    end) a.

(* the stack `maps` with its top first: a = top, b = next, rest = what is below (top first) *)
Fixpoint lin_fold (n : Z) (a b : vmap) (rest : list vmap) (target : Z) (is_ne : bool) : cnf * Z :=
  match rest with
  | [] => (lin_final2 b a target is_ne, n)            (* maps = [b; a] *)
  | c :: rest' =>
      let '(total, cl, n1) := fold_step n a b in
      let '(cl2, n2) := lin_fold n1 total c rest' target is_ne in
      (cl ++ cl2, n2)
  end.

Definition enc_lin_terms (n : Z) (ts : list (var * Z)) (const : Z) (is_ne : bool) : cnf * Z :=
  let target := - const in
  match rev (map term_map ts) with
  | [] => (lin_final0 target is_ne, n)
  | [a] => (lin_final1 a target is_ne, n)
  | a :: b :: rest => lin_fold n a b rest target is_ne
  end.

Definition enc_ne_expr (n : Z) (l r : expr) (is_ne : bool) : cnf * Z :=
  let '(ts, const) := linearize l r in enc_lin_terms n ts const is_ne.

(* ------------------------------------------------------------------ sums *)
Definition sum_lb (vs : list var) : Z := zsum (map vlb vs).
Definition sum_ub (vs : list var) : Z := zsum (map vub vs).

(* clauses [-v1[a], -v2[b], ps[a+b]] (or [-v1[a], -v2[b]] when a+b is not a value of ps and `strict`) *)
Definition partial_clauses (v1 v2 ps : var) (strict : bool) : cnf :=
  flat_map (fun a => flat_map (fun b =>
    if in_dom ps (a + b) then [[- vlit v1 a; - vlit v2 b; vlit ps (a + b)]]
    else if strict then [[- vlit v1 a; - vlit v2 b]] else []) (vdom v2)) (vdom v1).

(* _encode_sum_eq on the list v1 :: rest *)
Fixpoint sum_eq_go (n : Z) (v1 : var) (rest : list var) (t : Z) : cnf * Z :=
  if (t <? sum_lb (v1 :: rest)) || (sum_ub (v1 :: rest) <? t) then ([[]], n) else
  match rest with
  | [] => (enc_eq_const v1 t, n)
  | v2 :: rest' =>
      match rest' with
      | [] => (map (fun a => if in_dom v2 (t - a) then [- vlit v1 a; vlit v2 (t - a)] else [- vlit v1 a]) (vdom v1), n)
      | _ :: _ =>
          let '(ps, eo, n1) := create_int_var n (vlb v1 + vlb v2) (vub v1 + vub v2) in
          let '(cl, n2) := sum_eq_go n1 ps rest' t in
          (eo ++ partial_clauses v1 v2 ps false ++ cl, n2)
      end
  end.
Definition enc_sum_eq (n : Z) (vs : list var) (t : Z) : cnf * Z :=
  match vs with
  | [] => (if negb (t =? 0) then [[]] else [], n)
  | v1 :: rest => sum_eq_go n v1 rest t
  end.

Definition pair_forbid (v1 v2 : var) (bad : Z -> bool) : cnf :=
  flat_map (fun a => flat_map (fun b => if bad (a + b) then [[- vlit v1 a; - vlit v2 b]] else []) (vdom v2)) (vdom v1).

(* _encode_sum_le *)
Fixpoint sum_le_go (n : Z) (v1 : var) (rest : list var) (t : Z) : cnf * Z :=
  match rest with
  | [] => (flat_map (fun a => if t <? a then [[- vlit v1 a]] else []) (vdom v1), n)
  | v2 :: rest' =>
      match rest' with
      | [] => (pair_forbid v1 v2 (fun s => t <? s), n)
      | _ :: _ =>
          let '(ps, eo, n1) := create_int_var n (vlb v1 + vlb v2) (Z.min (vub v1 + vub v2) (t - sum_lb rest')) in
          let '(cl, n2) := sum_le_go n1 ps rest' t in
          (eo ++ partial_clauses v1 v2 ps true ++ cl, n2)
      end
  end.
Definition enc_sum_le (n : Z) (vs : list var) (t : Z) : cnf * Z :=
  match vs with
  | [] => (if t <? 0 then [[]] else [], n)
  | v1 :: rest => sum_le_go n v1 rest t
  end.

(* _encode_sum_ge *)
Fixpoint sum_ge_go (n : Z) (v1 : var) (rest : list var) (t : Z) : cnf * Z :=
  match rest with
  | [] => (flat_map (fun a => if a <? t then [[- vlit v1 a]] else []) (vdom v1), n)
  | v2 :: rest' =>
      match rest' with
      | [] => (pair_forbid v1 v2 (fun s => s <? t), n)
      | _ :: _ =>
          let '(ps, eo, n1) := create_int_var n (Z.max (vlb v1 + vlb v2) (t - sum_ub rest')) (vub v1 + vub v2) in
          let '(cl, n2) := sum_ge_go n1 ps rest' t in
          (eo ++ partial_clauses v1 v2 ps true ++ cl, n2)
      end
  end.
Definition enc_sum_ge (n : Z) (vs : list var) (t : Z) : cnf * Z :=
  match vs with
  | [] => (if 0 <? t then [[]] else [], n)
  | v1 :: rest => sum_ge_go n v1 rest t
  end.

(* ------------------------------------------------------------------ circuit *)
Fixpoint indexed {A} (i : Z) (l : list A) : list (Z * A) :=
  match l with [] => [] | x :: tl => (i, x) :: indexed (i + 1) tl end.

(* t = [_create_int_var(0 if i == 0 else 1, n - 1) for i in range(n)] *)
Fixpoint mk_positions (n : Z) (cnt : Z) (is : list Z) : list var * cnf * Z :=
  match is with
  | [] => ([], [], cnt)
  | i :: tl =>
      let '(v, eo, c1) := create_int_var cnt (if i =? 0 then 0 else 1) (n - 1) in
      let '(vs, cl, c2) := mk_positions n c1 tl in
      (v :: vs, eo ++ cl, c2)
  end.

Definition dummy_var : var := mkVar 0 0 (-1) false 0.

Definition enc_circuit (cnt : Z) (vs : list var) : cnf * Z :=
  let n := Z.of_nat (length vs) in
  match vs with
  | [] => ([], cnt)
  | _ :: _ =>
      let ad := enc_all_different vs in
      let rng := flat_map (fun iv =>
                   flat_map (fun p => if (fst p =? fst iv) || negb ((0 <=? fst p) && (fst p <? n)) then [[- snd p]] else [])
                            (bool_vars (snd iv))) (indexed 0 vs) in
      if n <=? 1 then (ad ++ rng, cnt) else
      let '(t, eos, cnt1) := mk_positions n cnt (zrange 0 (n - 1)) in
      let t0 := nth 0 t dummy_var in
      let ord := flat_map (fun iv =>
                   let i := fst iv in let v := snd iv in
                   let ti := nth (Z.to_nat i) t dummy_var in
                   flat_map (fun j =>
                     if negb (j =? i) && in_dom v j then
                       let tj := nth (Z.to_nat j) t dummy_var in
                       flat_map (fun pi => flat_map (fun pj =>
                         if fst pj <=? fst pi then [[- vlit v j; - snd pi; - snd pj]] else []) (bool_vars tj)) (bool_vars ti)
                     else []) (zrange 1 (n - 1))) (indexed 0 vs) in
      (ad ++ rng ++ eos ++ [[vlit t0 0]] ++ ord, cnt1)
  end.

(* ------------------------------------------------------------------ no_overlap *)
(* _encode_disjunctive_le *)
Definition enc_disjunctive (a b : var * Z) : cnf :=
  flat_map (fun s1 => flat_map (fun s2 =>
    if negb (s1 + snd a <=? s2) && negb (s2 + snd b <=? s1) then [[- vlit (fst a) s1; - vlit (fst b) s2]] else [])
    (vdom (fst b))) (vdom (fst a)).
Fixpoint enc_no_overlap (ts : list (var * Z)) : cnf :=
  match ts with
  | [] => []
  | a :: tl => flat_map (enc_disjunctive a) tl ++ enc_no_overlap tl
  end.

(* ------------------------------------------------------------------ cumulative *)
(* stable sort by decreasing demand: sorted(range(len), key=lambda i: -demands[i]) *)
Fixpoint insert_dem (x : lit * Z) (l : list (lit * Z)) : list (lit * Z) :=
  match l with
  | [] => [x]
  | y :: tl => if snd y <? snd x then x :: l else y :: insert_dem x tl
  end.
Definition sort_dem (l : list (lit * Z)) : list (lit * Z) :=
  fold_left (fun acc x => insert_dem x acc) l [].

(* extend(start, chosen, load) over order[start:] = rest *)
Fixpoint cap_extend (cap : Z) (rest : list (lit * Z)) (chosen : list lit) (ld : Z) : cnf :=
  match rest with
  | [] => []
  | (l, d) :: tl =>
      (if cap <? ld + d then [map Z.opp chosen ++ [- l]]
       else cap_extend cap tl (chosen ++ [l]) (ld + d))
      ++ cap_extend cap tl chosen ld
  end.
(* _encode_capacity_constraint *)
Definition enc_capacity (act : list (lit * Z)) (cap : Z) : cnf := cap_extend cap (sort_dem act) [] 0.

(* the tasks at one time point t: (definition clauses, active (literal, demand) list, counter) *)
Fixpoint cum_tasks (cnt : Z) (t : Z) (ts : list (var * Z * Z)) : cnf * list (lit * Z) * Z :=
  match ts with
  | [] => ([], [], cnt)
  | (v, d, dem) :: tl =>
      let lits := map (vlit v) (zrange (Z.max (vlb v) (t - d + 1)) (Z.min (vub v) t)) in
      match lits with
      | [] => cum_tasks cnt t tl
      | l0 :: more =>
          if dem <=? 0 then cum_tasks cnt t tl else
          match more with
          | [] => let '(cl, act, c2) := cum_tasks cnt t tl in (cl, (l0, dem) :: act, c2)
          | _ :: _ =>
              let r := cnt in
              let '(cl, act, c2) := cum_tasks (cnt + 1) t tl in
              (((- r) :: lits) :: map (fun l => [- l; r]) lits ++ cl, (r, dem) :: act, c2)
          end
      end
  end.

Fixpoint cum_times (cnt : Z) (times : list Z) (ts : list (var * Z * Z)) (cap : Z) : cnf * Z :=
  match times with
  | [] => ([], cnt)
  | t :: tl =>
      let '(cl, act, c1) := cum_tasks cnt t ts in
      let '(cl2, c2) := cum_times c1 tl ts cap in
      (cl ++ enc_capacity act cap ++ cl2, c2)
  end.

Definition enc_cumulative (cnt : Z) (ts : list (var * Z * Z)) (cap : Z) : cnf * Z :=
  match ts with
  | [] => ([], cnt)
  | (v, d, _) :: tl =>
      let min_start := fold_right (fun p a => Z.min (vlb (fst (fst p))) a) (vlb v) tl in
      let max_end := fold_right (fun p a => Z.max (vub (fst (fst p)) + snd (fst p)) a) (vub v + d) tl in
      cum_times cnt (zrange min_start (max_end - 1)) ts cap
  end.

(* ------------------------------------------------------------------ dispatcher and whole model *)
Definition enc_constraint (n : Z) (c : cstr) : cnf * Z :=
  match c with
  | CAllDiff vs => (enc_all_different vs, n)
  | CEqConst v k => (enc_eq_const v k, n)
  | CNeConst v k => (enc_ne_const v k, n)
  | CEqVar v w => (enc_eq_var v w, n)
  | CNeVar v w => (enc_ne_var v w, n)
  | CLin l r is_ne => enc_ne_expr n l r is_ne
  | CSumEq vs t => enc_sum_eq n vs t
  | CSumLe vs t => enc_sum_le n vs t
  | CSumGe vs t => enc_sum_ge n vs t
  | CCircuit vs => enc_circuit n vs
  | CNoOverlap ts => (enc_no_overlap ts, n)
  | CCumulative ts cap => enc_cumulative n ts cap
  end.

Fixpoint enc_constraints (n : Z) (cs : list cstr) : cnf * Z :=
  match cs with
  | [] => ([], n)
  | c :: tl =>
      let '(cl, n1) := enc_constraint n c in
      let '(cl2, n2) := enc_constraints n1 tl in
      (cl ++ cl2, n2)
  end.

(* SATEncoder.solve up to the call of solve_sat: the clause list and the final counter *)
Definition encode (M : cpmodel) : cnf * Z :=
  let '(cl, n) := enc_constraints (m_next M) (m_cons M) in (enc_vars (m_vars M) ++ cl, n).

(* `if any(len(c) == 0 ...)`: INFEASIBLE is reported without calling solve_sat *)
Definition has_empty (f : cnf) : bool := existsb (fun c => match c with [] => true | _ => false end) f.

(* decode_sat_solution: first value (in bool_vars order) whose literal is true *)
Definition dec_var (b : asg) (v : var) : option Z := find (fun x => b (vlit v x)) (vdom v).
Definition decode (M : cpmodel) (b : asg) : list (nat * option Z) :=
  map (fun v => (vid v, dec_var b v)) (named_vars M).
(* the assignment read off a SAT model (0 where no literal is true) *)
Definition dec_asgn (vs : list var) (b : asg) : asgn :=
  fun i => match find (fun v => Nat.eqb (vid v) i) vs with
           | Some v => match dec_var b v with Some x => x | None => 0 end
           | None => 0
           end.

(* ------------------------------------------------------------------ canonical form of a clause list *)
Fixpoint lex_leb (a b : list Z) : bool :=
  match a, b with
  | [], _ => true
  | _ :: _, [] => false
  | x :: xs, y :: ys => if x <? y then true else if y <? x then false else lex_leb xs ys
  end.
Module ZOrder <: TotalLeBool.
  Definition t := Z.
  Definition leb := Z.leb.
  Theorem leb_total : forall a1 a2, leb a1 a2 = true \/ leb a2 a1 = true.
  Proof. intros a b. unfold leb. destruct (Z.leb_spec a b); [left; reflexivity|right]. apply Z.leb_le. lia. Qed.
End ZOrder.
Module ZSort := Sort ZOrder.
Module ClauseOrder <: TotalLeBool.
  Definition t := list Z.
  Definition leb := lex_leb.
  Theorem leb_total : forall a1 a2, leb a1 a2 = true \/ leb a2 a1 = true.
  Proof.
    unfold leb. induction a1 as [|x xs IH]; intros [|y ys]; simpl; auto.
    destruct (x <? y) eqn:E1; auto. destruct (y <? x) eqn:E2; auto.
  Qed.
End ClauseOrder.
Module ClauseSort := Sort ClauseOrder.
Definition canon (f : cnf) : cnf := ClauseSort.sort (map ZSort.sort f).

Fixpoint clause_eqb (a b : list Z) : bool :=
  match a, b with
  | [], [] => true
  | x :: xs, y :: ys => (x =? y) && clause_eqb xs ys
  | _, _ => false
  end.
Fixpoint cnf_eqb (a b : cnf) : bool :=
  match a, b with
  | [], [] => true
  | x :: xs, y :: ys => clause_eqb x y && cnf_eqb xs ys
  | _, _ => false
  end.

(* the observable of one captured run: None = INFEASIBLE reported by the encoder itself (empty clause),
   Some clauses = the list handed to solve_sat *)
Definition obs_ok (M : cpmodel) (captured : option cnf) : bool :=
  let f := fst (encode M) in
  match captured with
  | None => has_empty f
  | Some cl => negb (has_empty f) && cnf_eqb (canon f) (canon cl)
  end.
(* literal comparison (same clause order, same literal order) - reported as a statistic only *)
Definition obs_literal (M : cpmodel) (captured : option cnf) : bool :=
  match captured with None => true | Some cl => cnf_eqb (fst (encode M)) cl end.
