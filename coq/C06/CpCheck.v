(* C06 - a brute-force model counter in Gallina, independent of the encoder model (CpEnc.encode is NOT used):
   `cnf_projection_ok M captured` enumerates ALL models of the captured clause list (branching on the
   variables 1..k in order, pruning as soon as a clause is falsified), decodes each onto the variables of M
   and compares the set of named projections with the brute-force CP solutions over the domain box (`holdsb`).
   Evaluated by vm_compute inside coqc on every explored case.  DEFINITIONS ONLY. *)
From Coq Require Import List ZArith Bool Lia.
From SV Require Import C06.CpAst C06.CpEnc.
Import ListNotations.
Open Scope Z_scope.

(* set variable v to b in one clause: None = clause satisfied, Some c' = the remaining literals *)
Fixpoint simp_clause (v : Z) (b : bool) (c : clause) : option clause :=
  match c with
  | [] => Some []
  | l :: tl =>
      if l =? (if b then v else - v) then None
      else match simp_clause v b tl with
           | None => None
           | Some tl' => if l =? (if b then - v else v) then Some tl' else Some (l :: tl')
           end
  end.

(* set variable v to b in a clause set: None = some clause became empty *)
Fixpoint assign (v : Z) (b : bool) (f : cnf) : option cnf :=
  match f with
  | [] => Some []
  | c :: tl =>
      match simp_clause v b c with
      | None => assign v b tl
      | Some [] => None
      | Some c' => match assign v b tl with None => None | Some tl' => Some (c' :: tl') end
      end
  end.

(* all total assignments of the variables v, v+1, ..., v+k-1 extending `trues` that satisfy f;
   a model is the list of its true variables *)
Fixpoint enum (k : nat) (v : Z) (f : cnf) (trues : list Z) : list (list Z) :=
  match k with
  | O => match f with [] => [trues] | _ => [] end
  | S k' =>
      (match assign v false f with Some f' => enum k' (v + 1) f' trues | None => [] end)
      ++ (match assign v true f with Some f' => enum k' (v + 1) f' (v :: trues) | None => [] end)
  end.

Definition max_lit (f : cnf) : Z :=
  fold_right (fun c a => fold_right (fun l a' => Z.max (Z.abs l) a') a c) 0 f.

Definition all_models (nv : Z) (f : cnf) : list (list Z) :=
  if has_empty f then [] else enum (Z.to_nat nv) 1 f [].

(* the values of v whose literal is true *)
Definition true_vals (trues : list Z) (v : var) : list Z := filter (fun x => zmem (vlit v x) trues) (vdom v).
(* every variable exactly one value: Some (values in variable order) *)
Fixpoint decode_all (trues : list Z) (vs : list var) : option (list Z) :=
  match vs with
  | [] => Some []
  | v :: tl => match true_vals trues v, decode_all trues tl with
               | [x], Some xs => Some (x :: xs)
               | _, _ => None
               end
  end.

Fixpoint named_only (vs : list var) (xs : list Z) : list Z :=
  match vs, xs with
  | v :: vs', x :: xs' => if vnamed v then x :: named_only vs' xs' else named_only vs' xs'
  | _, _ => []
  end.

Definition zl_mem (x : list Z) (l : list (list Z)) : bool := existsb (clause_eqb x) l.

Definition cnf_projection_ok (M : cpmodel) (captured : option cnf) : bool :=
  let sols := map (named_only (m_vars M)) (cp_solutions M) in
  match captured with
  | None => match sols with [] => true | _ => false end
  | Some f =>
      let nv := Z.max (max_lit f) (m_next M - 1) in
      let decs := map (fun m => decode_all m (m_vars M)) (all_models nv f) in
      forallb (forallb (fun l => negb (l =? 0))) f
      && forallb (fun d => match d with
                        | Some xs => forallb (holdsb (asgn_of (m_vars M) xs)) (m_cons M)
                                     && zl_mem (named_only (m_vars M) xs) sols
                        | None => false end) decs
      && forallb (fun s => existsb (fun d => match d with Some xs => clause_eqb (named_only (m_vars M) xs) s | None => false end) decs) sols
  end.

(* number of CNF models (statistics) *)
Definition cnf_model_count (captured : option cnf) (nv : Z) : nat :=
  match captured with None => 0%nat | Some f => length (all_models nv f) end.
