(* C06 - linear ==/!= (_encode_ne_expr), part 1: value->literal maps, sorted sets, one folding step. *)
From Coq Require Import List ZArith Bool Lia.
From SV Require Import C06.CpAst C06.CpEnc C06.EncBasics C06.EncPairwise C06.EncFrame.
Import ListNotations.
Open Scope Z_scope.

Definition mpos (m : vmap) : Prop := forall k l, In (k, l) m -> 0 < l.
Definition mbelow (n : Z) (m : vmap) : Prop := forall k l, In (k, l) m -> 0 < l < n.
(* under b the map m denotes the integer q: q is a key, and a literal of m is true iff its key is q *)
Definition repr (b : asg) (m : vmap) (q : Z) : Prop :=
  In q (map fst m) /\ forall k l, In (k, l) m -> (b l = true <-> k = q).

Lemma mbelow_mpos n m : mbelow n m -> mpos m.
Proof. intros H k l Hkl. apply (H k l Hkl). Qed.

Lemma mbelow_mono n n' m : n <= n' -> mbelow n m -> mbelow n' m.
Proof. intros Hn H k l Hkl. specialize (H k l Hkl). lia. Qed.

Lemma mget_Some m k l : mget m k = Some l -> In (k, l) m.
Proof.
  induction m as [|[k' l'] tl IH]; simpl; [discriminate|].
  destruct (k' =? k) eqn:E.
  - intros H. inversion H; subst. apply Z.eqb_eq in E. subst. left. reflexivity.
  - intros H. right. apply IH. exact H.
Qed.

Lemma mget_None m k : mget m k = None -> ~ In k (map fst m).
Proof.
  induction m as [|[k' l'] tl IH]; simpl; [tauto|].
  destruct (k' =? k) eqn:E; [discriminate|].
  intros H [E'|Hin]; [apply Z.eqb_neq in E; contradiction|]. apply (IH H Hin).
Qed.

Lemma mget_In m k : In k (map fst m) -> exists l, mget m k = Some l.
Proof.
  intros H. destruct (mget m k) as [l|] eqn:E; [exists l; reflexivity|].
  exfalso. apply (mget_None m k E H).
Qed.

Lemma repr_get b m q : repr b m q -> exists l, mget m q = Some l /\ In (q, l) m /\ b l = true.
Proof.
  intros [Hin H]. destruct (mget_In m q Hin) as [l Hl]. exists l. split; [exact Hl|].
  pose proof (mget_Some m q l Hl) as Hm. split; [exact Hm|]. apply (H q l Hm). reflexivity.
Qed.

Lemma repr_agree n b b' m q : mbelow n m -> agree_below n b b' -> repr b m q -> repr b' m q.
Proof.
  intros Hm Ha [Hin H]. split; [exact Hin|]. intros k l Hkl.
  rewrite (Ha l) by (specialize (Hm k l Hkl); lia). apply H. exact Hkl.
Qed.

(* ------------------------------------------------------------------ term maps *)
Lemma term_map_In v c k l :
  In (k, l) (term_map (v, c)) <-> exists x, vlb v <= x <= vub v /\ k = c * x /\ l = vlit v x.
Proof.
  unfold term_map. simpl. rewrite in_map_iff. split.
  - intros [[x l'] [E Hp]]. simpl in E. inversion E; subst. apply bool_vars_In in Hp.
    destruct Hp as [Hx ->]. exists x. auto.
  - intros [x [Hx [-> ->]]]. exists (x, vlit v x). split; [reflexivity|]. apply bool_vars_In. auto.
Qed.

Lemma term_map_repr b v c : VOK b v -> c <> 0 -> repr b (term_map (v, c)) (c * bv b v).
Proof.
  intros [Hb He] Hc. pose proof (EO_bv_dom b v He) as Hd. split.
  - apply in_map_iff. exists (c * bv b v, vlit v (bv b v)). split; [reflexivity|].
    apply term_map_In. exists (bv b v). auto.
  - intros k l Hkl. apply term_map_In in Hkl. destruct Hkl as [x [Hx [-> ->]]].
    rewrite (EO_lit b v x He Hx). split; [intros ->; reflexivity|]. intros E. nia.
Qed.

Lemma term_map_below n v c : 0 < vbase v -> var_below n v -> mbelow n (term_map (v, c)).
Proof.
  intros Hb Hv k l Hkl. apply term_map_In in Hkl. destruct Hkl as [x [Hx [_ ->]]].
  unfold var_below, vlit in *. lia.
Qed.

(* ------------------------------------------------------------------ sorted sets *)
Fixpoint ssorted (l : list Z) : Prop :=
  match l with [] => True | x :: tl => (forall y, In y tl -> x < y) /\ ssorted tl end.

Lemma zinsert_In x y l : In y (zinsert x l) <-> y = x \/ In y l.
Proof.
  induction l as [|z tl IH]; simpl; [intuition|].
  destruct (x <? z) eqn:E1; simpl; [intuition|].
  destruct (x =? z) eqn:E2; simpl.
  - apply Z.eqb_eq in E2. subst. intuition.
  - rewrite IH. intuition.
Qed.

Lemma zinsert_ssorted x l : ssorted l -> ssorted (zinsert x l).
Proof.
  induction l as [|z tl IH]; simpl; intros H; [split; [intros y []|exact I]|].
  destruct H as [H1 H2].
  destruct (x <? z) eqn:E1.
  - apply Z.ltb_lt in E1. simpl. split; [|split; assumption].
    intros y [<-|Hy]; [exact E1|]. specialize (H1 y Hy). lia.
  - destruct (x =? z) eqn:E2; [simpl; split; assumption|].
    apply Z.ltb_ge in E1. apply Z.eqb_neq in E2. simpl. split; [|apply IH; exact H2].
    intros y Hy. apply zinsert_In in Hy. destruct Hy as [->|Hy]; [lia|apply H1; exact Hy].
Qed.

Lemma sorted_set_In x l : In x (sorted_set l) <-> In x l.
Proof.
  unfold sorted_set. induction l as [|y tl IH]; simpl; [tauto|].
  rewrite zinsert_In, IH. intuition.
Qed.

Lemma sorted_set_ssorted l : ssorted (sorted_set l).
Proof. unfold sorted_set. induction l as [|y tl IH]; simpl; [exact I|]. apply zinsert_ssorted. exact IH. Qed.

Lemma ssorted_NoDup l : ssorted l -> NoDup l.
Proof.
  induction l as [|x tl IH]; simpl; intros H; constructor.
  - intros Hin. destruct H as [H _]. specialize (H x Hin). lia.
  - apply IH. apply H.
Qed.

Lemma pair_sums_In a m2 s :
  In s (pair_sums a m2) <-> exists ka la kb lb, In (ka, la) a /\ In (kb, lb) m2 /\ s = ka + kb.
Proof.
  unfold pair_sums. rewrite sorted_set_In, in_flat_map. split.
  - intros [[ka la] [Ha Hs]]. apply in_map_iff in Hs. destruct Hs as [[kb lb] [E Hb]]. simpl in E.
    exists ka, la, kb, lb. auto.
  - intros [ka [la [kb [lb [Ha [Hb ->]]]]]]. exists (ka, la). split; [exact Ha|].
    apply in_map_iff. exists (kb, lb). auto.
Qed.

Lemma pair_sums_NoDup a m2 : NoDup (pair_sums a m2).
Proof. apply ssorted_NoDup. apply sorted_set_ssorted. Qed.

(* ------------------------------------------------------------------ combine *)
Lemma map_fst_combine {A B} (a : list A) (c : list B) : length a = length c -> map fst (combine a c) = a.
Proof.
  revert c. induction a as [|x tl IH]; intros [|y c'] H; simpl in *; try reflexivity; try discriminate.
  rewrite IH by lia. reflexivity.
Qed.
Lemma map_snd_combine {A B} (a : list A) (c : list B) : length a = length c -> map snd (combine a c) = c.
Proof.
  revert c. induction a as [|x tl IH]; intros [|y c'] H; simpl in *; try reflexivity; try discriminate.
  rewrite IH by lia. reflexivity.
Qed.

Lemma combine_inj_l {A B} (a : list A) (c : list B) k k' l :
  NoDup c -> In (k, l) (combine a c) -> In (k', l) (combine a c) -> k = k'.
Proof.
  revert c. induction a as [|x tl IH]; intros [|y c'] Hnd H1 H2; simpl in *; try contradiction.
  inversion Hnd as [|? ? Hn Hnd']; subst.
  destruct H1 as [E1|H1]; destruct H2 as [E2|H2].
  - congruence.
  - inversion E1; subst. apply in_combine_r in H2. contradiction.
  - inversion E2; subst. apply in_combine_r in H1. contradiction.
  - apply (IH c' Hnd' H1 H2).
Qed.
Lemma combine_inj_r {A B} (a : list A) (c : list B) k l l' :
  NoDup a -> In (k, l) (combine a c) -> In (k, l') (combine a c) -> l = l'.
Proof.
  revert c. induction a as [|x tl IH]; intros [|y c'] Hnd H1 H2; simpl in *; try contradiction.
  inversion Hnd as [|? ? Hn Hnd']; subst.
  destruct H1 as [E1|H1]; destruct H2 as [E2|H2].
  - congruence.
  - inversion E1; subst. apply in_combine_l in H2. contradiction.
  - inversion E2; subst. apply in_combine_l in H1. contradiction.
  - apply (IH c' Hnd' H1 H2).
Qed.

(* ------------------------------------------------------------------ the map of a partial sum *)
Definition total_of (n : Z) (a m2 : vmap) : vmap :=
  combine (pair_sums a m2) (zseq n (length (pair_sums a m2))).

Lemma fold_step_eq n a m2 :
  fold_step n a m2 =
  (total_of n a m2,
   exactly_one (map snd (total_of n a m2))
   ++ flat_map (fun pa => map (fun pb => [- snd pa; - snd pb; oget (mget (total_of n a m2) (fst pa + fst pb))]) m2) a,
   n + Z.of_nat (length (pair_sums a m2))).
Proof. reflexivity. Qed.

Lemma total_keys n a m2 : map fst (total_of n a m2) = pair_sums a m2.
Proof. apply map_fst_combine. rewrite zseq_length. reflexivity. Qed.
Lemma total_lits n a m2 : map snd (total_of n a m2) = zseq n (length (pair_sums a m2)).
Proof. apply map_snd_combine. rewrite zseq_length. reflexivity. Qed.

Lemma total_In n a m2 k l : In (k, l) (total_of n a m2) ->
  In k (pair_sums a m2) /\ n <= l < n + Z.of_nat (length (pair_sums a m2)).
Proof.
  intros H. split.
  - apply in_combine_l in H. exact H.
  - apply in_combine_r in H. apply zseq_In in H. exact H.
Qed.

Lemma total_key_inj n a m2 k k' l : In (k, l) (total_of n a m2) -> In (k', l) (total_of n a m2) -> k = k'.
Proof. apply combine_inj_l. apply zseq_NoDup. Qed.
Lemma total_lit_inj n a m2 k l l' : In (k, l) (total_of n a m2) -> In (k, l') (total_of n a m2) -> l = l'.
Proof. apply combine_inj_r. apply pair_sums_NoDup. Qed.

Lemma total_below n a m2 : 0 < n -> mbelow (n + Z.of_nat (length (pair_sums a m2))) (total_of n a m2).
Proof. intros Hn k l H. apply total_In in H. lia. Qed.

Lemma total_has n a m2 ka la kb lb : In (ka, la) a -> In (kb, lb) m2 ->
  exists l, mget (total_of n a m2) (ka + kb) = Some l /\ In (ka + kb, l) (total_of n a m2).
Proof.
  intros Ha Hb. assert (Hin : In (ka + kb) (map fst (total_of n a m2))).
  { rewrite total_keys. apply pair_sums_In. exists ka, la, kb, lb. auto. }
  destruct (mget_In _ _ Hin) as [l Hl]. exists l. split; [exact Hl|apply mget_Some; exact Hl].
Qed.

Definition step_clauses (n : Z) (a m2 : vmap) : cnf := snd (fst (fold_step n a m2)).

(* soundness of one step: the new map denotes the sum *)
Lemma fold_step_sound b n a m2 qa qb : 0 < n -> mpos a -> mpos m2 ->
  repr b a qa -> repr b m2 qb -> models b (step_clauses n a m2) -> repr b (total_of n a m2) (qa + qb).
Proof.
  intros Hn Hpa Hpb Ha Hb Hm. unfold step_clauses in Hm. rewrite fold_step_eq in Hm. simpl in Hm.
  apply models_app in Hm. destruct Hm as [Heo Ht].
  destruct (repr_get b a qa Ha) as [la [_ [Hla Hbla]]].
  destruct (repr_get b m2 qb Hb) as [lb [_ [Hlb Hblb]]].
  destruct (total_has n a m2 qa la qb lb Hla Hlb) as [lq [Hget Hlq]].
  assert (Hlqpos : 0 < lq) by (apply total_In in Hlq; lia).
  assert (Hblq : b lq = true).
  { rewrite models_flat_map in Ht. specialize (Ht (qa, la) Hla). rewrite models_map in Ht.
    specialize (Ht (qb, lb) Hlb). cbn [fst snd] in Ht. rewrite Hget in Ht. cbn [oget] in Ht.
    rewrite ct_nnp in Ht by (first [exact Hlqpos | apply (Hpa qa la Hla) | apply (Hpb qb lb Hlb)]).
    rewrite Hbla, Hblb in Ht. simpl in Ht. exact Ht. }
  assert (Hposl : forall l, In l (map snd (total_of n a m2)) -> 0 < l).
  { intros l Hl. rewrite total_lits in Hl. apply zseq_In in Hl. lia. }
  assert (Hne : map snd (total_of n a m2) <> []).
  { intros E. assert (Hi : In lq (map snd (total_of n a m2))) by (apply in_map_iff; exists (qa + qb, lq); auto).
    rewrite E in Hi. destruct Hi. }
  apply (eo_models b _ Hposl Hne) in Heo. destruct Heo as [_ Hamo].
  split.
  - apply in_map_iff. exists (qa + qb, lq). auto.
  - intros k l Hkl. split.
    + intros Hbl. assert (l = lq).
      { apply (amo_sem_unique b _ Hamo); auto.
        - rewrite total_lits. apply zseq_NoDup.
        - apply in_map_iff. exists (k, l). auto.
        - apply in_map_iff. exists (qa + qb, lq). auto. }
      subst l. apply (total_key_inj n a m2 k (qa + qb) lq Hkl Hlq).
    + intros ->. rewrite (total_lit_inj n a m2 (qa + qb) l lq Hkl Hlq). exact Hblq.
Qed.

(* every clause of a step mentions only literals of a, m2 and the fresh ones *)
Lemma fold_step_below n a m2 : 0 < n -> mbelow n a -> mbelow n m2 ->
  cnf_below (n + Z.of_nat (length (pair_sums a m2))) (step_clauses n a m2).
Proof.
  intros Hn Ha Hb. unfold step_clauses. rewrite fold_step_eq. simpl. apply cnf_below_app. split.
  - unfold exactly_one. destruct (map snd (total_of n a m2)) as [|x tl] eqn:E; [apply cnf_below_nil|].
    assert (Hl : forall l, In l (x :: tl) -> 0 < l < n + Z.of_nat (length (pair_sums a m2))).
    { intros l Hl. rewrite <- E, total_lits in Hl. apply zseq_In in Hl. lia. }
    intros c [<-|Hc].
    + intros l Hl'. specialize (Hl l Hl'). lia.
    + clear E. revert c Hc. generalize (x :: tl) Hl. clear. intros ls.
      induction ls as [|y tl IH]; intros Hl c Hc; [destruct Hc|]. simpl in Hc.
      apply in_app_or in Hc. destruct Hc as [Hc|Hc].
      * apply in_map_iff in Hc. destruct Hc as [z [<- Hz]].
        intros l [<-|[<-|[]]].
        -- specialize (Hl y (or_introl eq_refl)). lia.
        -- specialize (Hl z (or_intror Hz)). lia.
      * apply IH; [|exact Hc]. intros l Hl'. apply Hl. right. exact Hl'.
  - apply cnf_below_flat_map. intros [ka la] Hpa. apply cnf_below_map. intros [kb lb] Hpb. cbn [fst snd].
    destruct (total_has n a m2 ka la kb lb Hpa Hpb) as [lq [Hget Hlq]]. rewrite Hget. cbn [oget].
    apply total_In in Hlq. specialize (Ha ka la Hpa). specialize (Hb kb lb Hpb).
    intros l [<-|[<-|[<-|[]]]]; lia.
Qed.

(* completeness of one step: set the fresh literals according to the sum *)
Definition set_map (b : asg) (m : vmap) (q : Z) : asg :=
  fun l => match find (fun p => snd p =? l) m with Some p => fst p =? q | None => b l end.

Lemma set_map_total_agree b n a m2 q : agree_below n b (set_map b (total_of n a m2) q).
Proof.
  intros l Hl. unfold set_map. destruct (find (fun p => snd p =? l) (total_of n a m2)) as [[k l']|] eqn:F; [|reflexivity].
  apply find_some in F. destruct F as [F1 F2]. simpl in F2. apply Z.eqb_eq in F2. subst l'.
  apply total_In in F1. lia.
Qed.

Lemma set_map_total_lit b n a m2 q k l : In (k, l) (total_of n a m2) -> set_map b (total_of n a m2) q l = (k =? q).
Proof.
  intros H. unfold set_map. destruct (find (fun p => snd p =? l) (total_of n a m2)) as [[k' l']|] eqn:F.
  - apply find_some in F. destruct F as [F1 F2]. simpl in F2. apply Z.eqb_eq in F2. subst l'.
    simpl. rewrite (total_key_inj n a m2 k' k l F1 H). reflexivity.
  - pose proof (find_none _ _ F (k, l) H) as Hn. simpl in Hn. rewrite Z.eqb_refl in Hn. discriminate.
Qed.

Lemma fold_step_complete b n a m2 qa qb : 0 < n -> mbelow n a -> mbelow n m2 ->
  repr b a qa -> repr b m2 qb ->
  let b1 := set_map b (total_of n a m2) (qa + qb) in
  agree_below n b b1 /\ models b1 (step_clauses n a m2) /\ repr b1 (total_of n a m2) (qa + qb).
Proof.
  intros Hn Hma Hmb Ha Hb b1.
  assert (Hagree : agree_below n b b1) by apply set_map_total_agree.
  pose proof (repr_agree n b b1 a qa Hma Hagree Ha) as Ha1.
  pose proof (repr_agree n b b1 m2 qb Hmb Hagree Hb) as Hb1.
  destruct (repr_get b a qa Ha) as [la [_ [Hla _]]].
  destruct (repr_get b m2 qb Hb) as [lb [_ [Hlb _]]].
  destruct (total_has n a m2 qa la qb lb Hla Hlb) as [lq [Hget Hlq]].
  assert (Hrepr : repr b1 (total_of n a m2) (qa + qb)).
  { split.
    - apply in_map_iff. exists (qa + qb, lq). auto.
    - intros k l Hkl. unfold b1. rewrite (set_map_total_lit b n a m2 _ k l Hkl). apply Z.eqb_eq. }
  split; [exact Hagree|]. split; [|exact Hrepr].
  unfold step_clauses. rewrite fold_step_eq. simpl. apply models_app. split.
  - assert (Hposl : forall l, In l (map snd (total_of n a m2)) -> 0 < l).
    { intros l Hl. rewrite total_lits in Hl. apply zseq_In in Hl. lia. }
    assert (Hne : map snd (total_of n a m2) <> []).
    { intros E. assert (Hi : In lq (map snd (total_of n a m2))) by (apply in_map_iff; exists (qa + qb, lq); auto).
      rewrite E in Hi. destruct Hi. }
    apply (eo_models b1 _ Hposl Hne). split.
    + exists lq. split; [apply in_map_iff; exists (qa + qb, lq); auto|].
      apply (proj2 Hrepr _ _ Hlq). reflexivity.
    + apply amo_sem_intro; [rewrite total_lits; apply zseq_NoDup|].
      intros x y Hx Hy Hbx Hby. apply in_map_iff in Hx. apply in_map_iff in Hy.
      destruct Hx as [[kx lx] [Ex Hx]]. destruct Hy as [[ky ly] [Ey Hy]]. simpl in Ex, Ey. subst lx ly.
      apply (proj2 Hrepr _ _ Hx) in Hbx. apply (proj2 Hrepr _ _ Hy) in Hby. subst kx ky.
      apply (total_lit_inj n a m2 _ x y Hx Hy).
  - apply models_flat_map. intros [ka la'] Hpa. apply models_map. intros [kb lb'] Hpb. cbn [fst snd].
    destruct (total_has n a m2 ka la' kb lb' Hpa Hpb) as [l' [Hget' Hl']]. rewrite Hget'. cbn [oget].
    assert (Hl'pos : 0 < l') by (apply total_In in Hl'; lia).
    rewrite ct_nnp by (first [exact Hl'pos | apply (Hma ka la' Hpa) | apply (Hmb kb lb' Hpb)]).
    destruct (b1 la') eqn:E1; [|reflexivity]. destruct (b1 lb') eqn:E2; [|reflexivity]. simpl.
    apply (proj2 Ha1 _ _ Hpa) in E1. apply (proj2 Hb1 _ _ Hpb) in E2. subst ka kb.
    apply (proj2 Hrepr _ _ Hl'). reflexivity.
Qed.
