(* C06 - the circuit encoding, part 2: the graph argument (successor function + strictly increasing
   positions along every arc not entering node 0  <->  one cycle through all nodes), then soundness and
   completeness of enc_circuit. *)
From Coq Require Import List ZArith Bool Lia Arith.
From SV Require Import C06.CpAst C06.CpAstProofs C06.CpEnc C06.EncBasics C06.EncPairwise C06.EncFrame C06.EncCircuit.
Import ListNotations. Open Scope Z_scope.

(* ------------------------------------------------------------------ iterating the successor function *)
Lemma iter_nxt_S ss k i : iter_nxt ss (S k) i = nxt ss (iter_nxt ss k i).
Proof.
  revert i. induction k as [|k IH]; intros i; [reflexivity|].
  change (iter_nxt ss (S (S k)) i) with (iter_nxt ss (S k) (nxt ss i)). rewrite IH. reflexivity.
Qed.

Lemma iter_nxt_add ss a c i : iter_nxt ss (a + c) i = iter_nxt ss c (iter_nxt ss a i).
Proof. revert i. induction a as [|a IH]; intros i; [reflexivity|]. simpl. apply IH. Qed.

(* bounded search for the least witness *)
Lemma least_below (P : nat -> Prop) (Pdec : forall k, P k \/ ~ P k) m :
  (forall j, (j < m)%nat -> ~ P j)
  \/ (exists k, (k < m)%nat /\ P k /\ forall j, (j < k)%nat -> ~ P j).
Proof.
  induction m as [|m IH].
  - left. intros j Hj. lia.
  - destruct IH as [IH|[k [Hk [Pk Hl]]]].
    + destruct (Pdec m) as [Pm|Pm].
      * right. exists m. split; [lia|]. split; [exact Pm|exact IH].
      * left. intros j Hj. assert (Hc : (j < m)%nat \/ j = m) by lia. destruct Hc as [Hc| ->]; auto.
    + right. exists k. split; [lia|]. split; assumption.
Qed.

Lemma nth_map_seq {A} (f : nat -> A) d len i : (i < len)%nat -> nth i (map f (seq 0 len)) d = f i.
Proof.
  intros H. rewrite (nth_indep _ d (f 0%nat)) by (rewrite map_length, seq_length; exact H).
  rewrite map_nth. rewrite seq_nth by exact H. reflexivity.
Qed.

Section Graph.
  Variable ss : list Z.
  Variable n : Z.
  Hypothesis Hn : n = Z.of_nat (length ss).
  Hypothesis Hrng : forall i, (i < length ss)%nat -> 0 <= nth i ss 0 < n.

  Lemma nxt_range i : 0 <= i < n -> 0 <= nxt ss i < n.
  Proof. intros H. unfold nxt. apply Hrng. lia. Qed.

  Lemma iter_range k : forall i, 0 <= i < n -> 0 <= iter_nxt ss k i < n.
  Proof. induction k as [|k IH]; intros i H; [exact H|]. simpl. apply IH. apply nxt_range. exact H. Qed.

  Lemma nxt_nth i : (i < length ss)%nat -> nxt ss (Z.of_nat i) = nth i ss 0.
  Proof. intros _. unfold nxt. rewrite Nat2Z.id. reflexivity. Qed.

  (* ---------------------------------------------------------------- positions -> one cycle *)
  Section Sound.
    Variable p : Z -> Z.
    Hypothesis Hpos : 0 < n.
    Hypothesis Hnd : NoDup ss.
    Hypothesis Hp : forall j, 0 <= j < n -> 0 <= p j <= n - 1.
    Hypothesis Hord : forall i, 0 <= i < n -> nxt ss i <> 0 -> p i < p (nxt ss i).

    Lemma nxt_inj i j : 0 <= i < n -> 0 <= j < n -> nxt ss i = nxt ss j -> i = j.
    Proof.
      intros Hi Hj E. unfold nxt in E.
      assert (Hij : Z.to_nat i = Z.to_nat j).
      { apply (proj1 (NoDup_nth ss 0) Hnd); [lia|lia|exact E]. }
      lia.
    Qed.

    Lemma climb m : forall u, 0 <= u < n ->
      (forall k, (1 <= k <= m)%nat -> iter_nxt ss k u <> 0) -> p u + Z.of_nat m <= p (iter_nxt ss m u).
    Proof.
      induction m as [|m IH]; intros u Hu H; [simpl; lia|].
      change (iter_nxt ss (S m) u) with (iter_nxt ss m (nxt ss u)).
      assert (H1 : nxt ss u <> 0) by (apply (H 1%nat); lia).
      pose proof (Hord u Hu H1) as H2. pose proof (nxt_range u Hu) as H3.
      assert (H4 : forall k, (1 <= k <= m)%nat -> iter_nxt ss k (nxt ss u) <> 0).
      { intros k Hk. apply (H (S k)). lia. }
      specialize (IH (nxt ss u) H3 H4). lia.
    Qed.

    (* from every node the walk reaches node 0 within n steps; k is least *)
    Lemma reach0 u : 0 <= u < n ->
      exists k, (k < length ss)%nat /\ iter_nxt ss (S k) u = 0
                /\ forall j, (j < k)%nat -> iter_nxt ss (S j) u <> 0.
    Proof.
      intros Hu.
      destruct (least_below (fun k => iter_nxt ss (S k) u = 0)
                  (fun k => Z.eq_decidable (iter_nxt ss (S k) u) 0) (length ss)) as [H|H]; [|exact H].
      exfalso.
      assert (H1 : forall k, (1 <= k <= length ss)%nat -> iter_nxt ss k u <> 0).
      { intros k Hk. destruct k as [|k]; [lia|]. apply H. lia. }
      pose proof (climb (length ss) u Hu H1) as H2.
      pose proof (Hp _ (iter_range (length ss) u Hu)) as H3. pose proof (Hp u Hu) as H4. lia.
    Qed.

    Section Orbit.
      Variable k0 : nat.   (* first return time of node 0, minus one *)
      Hypothesis Hret : iter_nxt ss (S k0) 0 = 0.

      Definition inO (u : Z) : Prop := exists m, (m <= k0)%nat /\ iter_nxt ss m 0 = u.

      Lemma back_step v : 0 <= v < n -> inO (nxt ss v) -> inO v.
      Proof.
        intros Hv [m [Hm E]]. assert (H0 : 0 <= 0 < n) by lia. destruct m as [|m].
        - simpl in E. exists k0. split; [lia|].
          apply nxt_inj; [apply iter_range; exact H0|exact Hv|].
          rewrite <- iter_nxt_S, Hret. exact E.
        - exists m. split; [lia|].
          apply nxt_inj; [apply iter_range; exact H0|exact Hv|].
          rewrite <- iter_nxt_S. exact E.
      Qed.

      Lemma back_closure k : forall u, 0 <= u < n -> inO (iter_nxt ss k u) -> inO u.
      Proof.
        induction k as [|k IH]; intros u Hu H; [exact H|].
        apply back_step; [exact Hu|]. apply IH; [apply nxt_range; exact Hu|exact H].
      Qed.

      Lemma all_inO u : 0 <= u < n -> inO u.
      Proof.
        intros Hu. destruct (reach0 u Hu) as [k [_ [Hk _]]].
        apply (back_closure (S k) u Hu). rewrite Hk. exists 0%nat. split; [lia|reflexivity].
      Qed.

      Lemma orbit_long : (length ss <= S k0)%nat.
      Proof.
        pose proof (NoDup_incl_length (l := zseq 0 (length ss))
                      (l' := map (fun m => iter_nxt ss m 0) (seq 0 (S k0))) (zseq_NoDup 0 (length ss))) as H.
        rewrite zseq_length, map_length, seq_length in H. apply H.
        intros u Hu. apply zseq_In in Hu.
        destruct (all_inO u) as [m [Hm E]]; [lia|].
        apply in_map_iff. exists m. split; [exact E|]. apply in_seq. lia.
      Qed.
    End Orbit.

    Lemma positions_circuit : (forall i, (i < length ss)%nat -> nth i ss 0 <> Z.of_nat i) -> circuit_vals ss.
    Proof.
      intros Hself. assert (H0 : 0 <= 0 < n) by lia.
      destruct (reach0 0 H0) as [k [Hk [Hret Hmin]]].
      pose proof (orbit_long k Hret) as Hlong.
      assert (Ek : S k = length ss) by lia.
      unfold circuit_vals. cbv zeta. split; [|split].
      - intros i Hi. split; [rewrite <- Hn; apply Hrng; exact Hi|apply Hself; exact Hi].
      - intros j Hj. destruct j as [|j]; [lia|]. apply Hmin. lia.
      - rewrite <- Ek. exact Hret.
    Qed.
  End Sound.

  (* ---------------------------------------------------------------- one cycle -> positions *)
  Section Complete.
    Hypothesis Hfirst : forall k, (0 < k < length ss)%nat -> iter_nxt ss k 0 <> 0.
    Hypothesis Hback : iter_nxt ss (length ss) 0 = 0.
    Hypothesis Hpos : 0 < n.

    Lemma orbit_distinct a c : (a < c <= length ss)%nat -> iter_nxt ss a 0 = iter_nxt ss c 0 ->
      a = 0%nat /\ c = length ss.
    Proof.
      intros Hac E.
      assert (H : iter_nxt ss (a + (length ss - c)) 0 = 0).
      { rewrite iter_nxt_add, E, <- iter_nxt_add.
        replace (c + (length ss - c))%nat with (length ss) by lia. exact Hback. }
      assert (Hc : ~ (0 < a + (length ss - c) < length ss)%nat) by (intros Hc; exact (Hfirst _ Hc H)).
      lia.
    Qed.

    Lemma orbit_inj a c : (a < length ss)%nat -> (c < length ss)%nat ->
      iter_nxt ss a 0 = iter_nxt ss c 0 -> a = c.
    Proof.
      intros Ha Hc E. destruct (lt_eq_lt_dec a c) as [[H|H]|H]; [|exact H|].
      - destruct (orbit_distinct a c) as [_ H1]; [lia|exact E|lia].
      - destruct (orbit_distinct c a) as [_ H1]; [lia|symmetry; exact E|lia].
    Qed.

    Definition orbit : list Z := map (fun m => iter_nxt ss m 0) (seq 0 (length ss)).

    Lemma orbit_NoDup : NoDup orbit.
    Proof.
      apply (NoDup_nth orbit 0). unfold orbit. rewrite map_length, seq_length. intros i j Hi Hj.
      rewrite !nth_map_seq by assumption. apply orbit_inj; assumption.
    Qed.

    Lemma orbit_covers j : 0 <= j < n -> In j orbit.
    Proof.
      intros Hj.
      assert (Hincl : incl (zseq 0 (length ss)) orbit).
      { apply NoDup_length_incl.
        - exact orbit_NoDup.
        - unfold orbit. rewrite zseq_length, map_length, seq_length. lia.
        - intros u Hu. unfold orbit in Hu. apply in_map_iff in Hu. destruct Hu as [m [<- _]].
          apply zseq_In. pose proof (iter_range m 0) as Hir. lia. }
      apply Hincl. apply zseq_In. lia.
    Qed.

    Definition posn (j : Z) : nat :=
      match find (fun k => iter_nxt ss k 0 =? j) (seq 0 (length ss)) with Some k => k | None => 0%nat end.

    Lemma posn_spec j : 0 <= j < n -> (posn j < length ss)%nat /\ iter_nxt ss (posn j) 0 = j.
    Proof.
      intros Hj. unfold posn.
      destruct (find (fun k => iter_nxt ss k 0 =? j) (seq 0 (length ss))) as [k|] eqn:F.
      - apply find_some in F. destruct F as [F1 F2]. apply in_seq in F1. apply Z.eqb_eq in F2. split; [lia|exact F2].
      - exfalso. pose proof (orbit_covers j Hj) as Hin. unfold orbit in Hin. apply in_map_iff in Hin.
        destruct Hin as [m [E Hm]]. pose proof (find_none _ _ F m Hm) as Hnone. simpl in Hnone.
        rewrite E, Z.eqb_refl in Hnone. discriminate.
    Qed.

    Lemma posn_iter a : (a < length ss)%nat -> posn (iter_nxt ss a 0) = a.
    Proof.
      intros Ha. assert (H0 : 0 <= 0 < n) by lia.
      destruct (posn_spec (iter_nxt ss a 0) (iter_range a 0 H0)) as [H1 H2].
      apply orbit_inj; assumption.
    Qed.

    Lemma circuit_NoDup : NoDup ss.
    Proof.
      apply (NoDup_nth ss 0). intros i j Hi Hj E.
      destruct (posn_spec (Z.of_nat i)) as [Ha Ea]; [lia|].
      destruct (posn_spec (Z.of_nat j)) as [Hc Ec]; [lia|].
      rewrite <- (nxt_nth i Hi), <- (nxt_nth j Hj), <- Ea, <- Ec, <- !iter_nxt_S in E.
      assert (Hac : posn (Z.of_nat i) = posn (Z.of_nat j)).
      { destruct (lt_eq_lt_dec (posn (Z.of_nat i)) (posn (Z.of_nat j))) as [[H|H]|H]; [|exact H|].
        - destruct (orbit_distinct _ _ (conj (proj1 (Nat.succ_lt_mono _ _) H) Hc) E) as [H1 _]. lia.
        - symmetry in E. destruct (orbit_distinct _ _ (conj (proj1 (Nat.succ_lt_mono _ _) H) Ha) E) as [H1 _]. lia. }
      rewrite Hac in Ea. rewrite Ea in Ec. lia.
    Qed.

    Lemma posn_succ i : 0 <= i < n -> nxt ss i <> 0 -> posn (nxt ss i) = S (posn i).
    Proof.
      intros Hi Hne. destruct (posn_spec i Hi) as [Ha Ea].
      assert (E : nxt ss i = iter_nxt ss (S (posn i)) 0) by (rewrite iter_nxt_S, Ea; reflexivity).
      assert (Hlt : (S (posn i) < length ss)%nat).
      { assert (Hc : S (posn i) <> length ss) by (intros Hc; rewrite Hc, Hback in E; contradiction). lia. }
      rewrite E. apply posn_iter. exact Hlt.
    Qed.

    Lemma posn_zero : posn 0 = 0%nat.
    Proof. apply (posn_iter 0). lia. Qed.

    Lemma posn_nonzero j : 0 <= j < n -> j <> 0 -> (1 <= posn j < length ss)%nat.
    Proof.
      intros Hj Hne. destruct (posn_spec j Hj) as [Ha Ea].
      destruct (posn j) as [|k]; [simpl in Ea; congruence|lia].
    Qed.
  End Complete.
End Graph.

Lemma circuit_positions ss : (1 <= length ss)%nat -> circuit_vals ss ->
  NoDup ss
  /\ exists pos : Z -> Z,
       pos 0 = 0
       /\ (forall j, 1 <= j < Z.of_nat (length ss) -> 1 <= pos j <= Z.of_nat (length ss) - 1)
       /\ (forall i, 0 <= i < Z.of_nat (length ss) -> nxt ss i <> 0 -> pos i < pos (nxt ss i)).
Proof.
  intros HN [Hr [Hf Hb]].
  assert (Hrng : forall i, (i < length ss)%nat -> 0 <= nth i ss 0 < Z.of_nat (length ss))
    by (intros i Hi; apply Hr; exact Hi).
  assert (Hpos : 0 < Z.of_nat (length ss)) by lia.
  split; [exact (circuit_NoDup ss _ eq_refl Hrng Hf Hb Hpos)|].
  exists (fun j => Z.of_nat (posn ss j)). split; [|split].
  - rewrite (posn_zero ss _ eq_refl Hrng Hf Hb Hpos). reflexivity.
  - intros j Hj. pose proof (posn_nonzero ss _ eq_refl Hrng Hf Hb Hpos j) as Hpj. lia.
  - intros i Hi Hne. rewrite (posn_succ ss _ eq_refl Hrng Hf Hb Hpos i Hi Hne). lia.
Qed.

(* ------------------------------------------------------------------ soundness *)
Lemma enc_circuit_sound b n vs : 0 < n -> (forall v, In v vs -> VOK b v) ->
  models b (fst (enc_circuit n vs)) -> circuit_vals (map (bv b) vs).
Proof.
  intros Hn Hok Hm. destruct vs as [|v [|w tl]].
  - unfold circuit_vals. simpl. split; [intros i Hi; lia|]. split; [intros k Hk; lia|reflexivity].
  - exfalso. rewrite enc_circuit_one in Hm. cbn [fst] in Hm. apply models_app in Hm. destruct Hm as [_ Hm].
    pose proof (proj1 (circ_rng_ok b 1 [v] Hok) Hm) as Hm'. specialize (Hm' 0%nat). simpl in Hm'. lia.
  - assert (HL : (2 <= length (v :: w :: tl))%nat) by (simpl; lia).
    rewrite enc_circuit_big in Hm by exact HL. cbn [fst] in Hm.
    set (vs := v :: w :: tl) in *. set (N := Z.of_nat (length vs)) in *.
    assert (HN : 2 <= N) by (unfold N; lia).
    apply models_app in Hm. destruct Hm as [Had Hm]. apply models_app in Hm. destruct Hm as [Hrg Hm].
    apply models_app in Hm. destruct Hm as [Heo Hm]. apply models_app in Hm. destruct Hm as [Hun Hor].
    apply (proj1 (enc_all_different_ok b vs Hok)) in Had.
    pose proof (proj1 (circ_rng_ok b N vs Hok) Hrg) as Hrg'. clear Hrg. rename Hrg' into Hrg.
    pose proof (proj1 (pos_eos_ok b N n Hn HN) Heo) as Heo0. clear Heo. rename Heo0 into Heo.
    assert (Heo' : pos_ok b N (pos_vars N n) (length vs)).
    { intros k Hk. apply Heo. unfold N. lia. }
    pose proof (proj1 (circ_ord_ok b N vs _ eq_refl Hok Heo') Hor) as Hor'. clear Hor. rename Hor' into Hor.
    set (T := pos_vars N n) in *.
    assert (HlenN : Z.of_nat (length (map (bv b) vs)) = N) by (rewrite map_length; reflexivity).
    assert (Hlen : length (map (bv b) vs) = length vs) by apply map_length.
    apply (positions_circuit (map (bv b) vs) N (eq_sym HlenN))
      with (p := fun j => bv b (nth (Z.to_nat j) T dummy_var)).
    + intros i Hi. rewrite nth_map_bv. apply Hrg. lia.
    + lia.
    + exact Had.
    + intros j Hj. assert (Hk : (Z.to_nat j < length vs)%nat) by (unfold N in Hj; lia).
      destruct (Heo' _ Hk) as [[Hb He] [Hl Hu]]. pose proof (EO_bv_dom b _ He) as Hd.
      rewrite Hl, Hu in Hd. unfold lbp in Hd. destruct (Z.of_nat (Z.to_nat j) =? 0); lia.
    + intros i Hi Hne. assert (Hk : (Z.to_nat i < length vs)%nat) by (unfold N in Hi; lia).
      unfold nxt in *. rewrite nth_map_bv in *.
      destruct (Hrg _ Hk) as [H1 H2].
      apply (Hor _ Hk); lia.
    + intros i Hi. rewrite nth_map_bv. apply Hrg. lia.
Qed.

(* ------------------------------------------------------------------ completeness *)
Lemma enc_circuit_complete b n vs : 0 < n -> (forall v, In v vs -> VOK b v /\ var_below n v) ->
  circuit_vals (map (bv b) vs) -> exists b', agree_below n b b' /\ models b' (fst (enc_circuit n vs)).
Proof.
  intros Hn Hok Hc. destruct vs as [|v [|w tl]].
  - exists b. split; [apply agree_below_refl|]. simpl. apply models_nil. exact I.
  - exfalso. destruct Hc as [Hr _]. destruct (Hr 0%nat) as [H1 H2]; [simpl; lia|]. simpl in H1, H2. lia.
  - assert (HL : (2 <= length (v :: w :: tl))%nat) by (simpl; lia).
    rewrite enc_circuit_big by exact HL. cbn [fst].
    set (vs := v :: w :: tl) in *. set (N := Z.of_nat (length vs)) in *.
    assert (HN : 2 <= N) by (unfold N; lia).
    assert (Hlen : length (map (bv b) vs) = length vs) by apply map_length.
    assert (HL1 : (1 <= length (map (bv b) vs))%nat) by lia.
    destruct (circuit_positions (map (bv b) vs) HL1 Hc) as [Hnd [pos [P0 [P1 P2]]]].
    rewrite Hlen in P1, P2. fold N in P1, P2.
    destruct Hc as [Hr _]. rewrite Hlen in Hr. fold N in Hr.
    assert (Hdom : forall i, In i (zrange 0 (N - 1)) -> lbp i <= pos i <= N - 1).
    { intros i Hi. apply zrange_In in Hi. unfold lbp. destruct (i =? 0) eqn:E.
      - apply Z.eqb_eq in E. subst i. rewrite P0. lia.
      - apply Z.eqb_neq in E. apply P1. lia. }
    destruct (mkp_complete pos N (zrange 0 (N - 1)) Hdom n b Hn) as [b' [Hag Hk]].
    change (fst (fst (mk_positions N n (zrange 0 (N - 1))))) with (pos_vars N n) in Hk.
    rewrite zrange0_length in Hk by lia.
    set (T := pos_vars N n) in *.
    assert (HNl : Z.to_nat N = length vs) by (unfold N; lia).
    assert (Hok' : forall u, In u vs -> VOK b' u).
    { intros u Hu. destruct (Hok u Hu) as [H1 H2]. exact (VOK_agree n b b' u H2 Hag H1). }
    assert (Hbv : map (bv b') vs = map (bv b) vs).
    { apply map_ext_in. intros u Hu. destruct (Hok u Hu) as [[H1 H2] H3]. exact (bv_agree n b b' u H1 H3 Hag H2). }
    assert (Hpo : pos_ok b' N T (length vs)).
    { intros k Hk0. assert (Hk1 : (k < Z.to_nat N)%nat) by lia.
      destruct (pos_vars_nth N n k Hk1) as (_ & _ & H3 & H4). destruct (Hk k Hk1) as [H5 _].
      split; [exact H5|]. split; assumption. }
    assert (Hpv : forall k, (k < length vs)%nat -> bv b' (nth k T dummy_var) = pos (Z.of_nat k)).
    { intros k Hk0. assert (Hk1 : (k < Z.to_nat N)%nat) by lia.
      destruct (Hk k Hk1) as [_ H6]. rewrite zrange0_nth in H6 by exact Hk1. exact H6. }
    exists b'. split; [exact Hag|].
    apply models_app; split; [|apply models_app; split; [|apply models_app; split; [|apply models_app; split]]].
    + apply (enc_all_different_ok b' vs Hok'). rewrite Hbv. exact Hnd.
    + apply (circ_rng_ok b' N vs Hok'). intros i Hi. rewrite <- nth_map_bv, Hbv. apply Hr. exact Hi.
    + apply (pos_eos_ok b' N n Hn HN). rewrite HNl. exact Hpo.
    + assert (H0 : (0 < length vs)%nat) by lia.
      destruct (Hpo 0%nat H0) as [[Hb0 He0] [Hl0 Hu0]].
      assert (Hd0 : vlb (nth 0 T dummy_var) <= 0 <= vub (nth 0 T dummy_var))
        by (rewrite Hl0, Hu0; change (lbp (Z.of_nat 0)) with 0; lia).
      rewrite models_one, ct_p by (apply vlit_pos; lia).
      rewrite (EO_lit_b b' _ 0 He0 Hd0), (Hpv 0%nat H0). change (Z.of_nat 0) with 0. rewrite P0. reflexivity.
    + apply (circ_ord_ok b' N vs T eq_refl Hok' Hpo). intros i Hi Hj Hne.
      assert (Hjn : (Z.to_nat (bv b' (nth i vs dummy_var)) < length vs)%nat) by lia.
      rewrite (Hpv i Hi), (Hpv _ Hjn). rewrite Z2Nat.id by lia.
      assert (E : bv b' (nth i vs dummy_var) = nxt (map (bv b) vs) (Z.of_nat i)).
      { unfold nxt. rewrite Nat2Z.id, <- Hbv, nth_map_bv. reflexivity. }
      rewrite E in *. apply P2; lia.
Qed.
