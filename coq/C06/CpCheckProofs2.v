(* C06 - soundness of CpCheck.cnf_projection_ok, "nothing missing" half: if the check accepts f for M then every
   CP solution of M is the projection (on the named variables) of some assignment satisfying f, in which every
   variable of M has exactly one value.  (Every leaf of `enum` is a model; holdsb only reads the model's variables.) *)
From Coq Require Import List ZArith Bool Lia.
From SV Require Import C06.CpAst C06.CpAstProofs C06.CpEnc C06.CpCheck C06.EncBasics C06.EncFrame C06.EncModel C06.CpCheckProofs.
Import ListNotations.
Open Scope Z_scope.

(* ------------------------------------------------------------------ every leaf of enum is a model *)
Lemma simp_clause_none b v bval c : 0 < v -> b v = bval -> simp_clause v bval c = None -> clause_true b c = true.
Proof.
  intros Hv Hb. induction c as [|l tl IH]; intros H; simpl in H; [discriminate|].
  unfold clause_true. simpl.
  destruct (l =? (if bval then v else - v)) eqn:E1.
  - apply Z.eqb_eq in E1. subst l. destruct bval.
    + rewrite lit_true_pos by exact Hv. rewrite Hb. reflexivity.
    + rewrite lit_true_neg by exact Hv. rewrite Hb. reflexivity.
  - destruct (simp_clause v bval tl) as [tl'|] eqn:E2.
    + destruct (l =? (if bval then - v else v)); discriminate.
    + apply orb_true_iff. right. apply IH. reflexivity.
Qed.

Lemma assign_sound b v bval f f' : 0 < v -> b v = bval -> assign v bval f = Some f' -> models b f' -> models b f.
Proof.
  intros Hv Hb. revert f'. induction f as [|c tl IH]; intros f' H Hm; [intros c []|].
  simpl in H. destruct (simp_clause v bval c) as [c'|] eqn:S.
  - destruct c' as [|x c'']; [discriminate|].
    destruct (assign v bval tl) as [tl'|] eqn:A; [|discriminate]. inversion H; subst f'.
    apply models_cons in Hm. destruct Hm as [H1 H2]. apply models_cons. split.
    + destruct (simp_clause_some b v bval c (x :: c'') Hv Hb S) as [S1 _]. rewrite <- S1. exact H1.
    + apply (IH tl' eq_refl H2).
  - apply models_cons. split; [apply (simp_clause_none b v bval c Hv Hb S)|apply (IH f' H Hm)].
Qed.

Lemma enum_sound : forall k v f trues m, 0 < v -> In m (enum k v f trues) ->
  incl trues m /\ (forall l, In l m -> In l trues \/ v <= l < v + Z.of_nat k)
  /\ forall b, (forall l, In l trues -> l < v) -> (forall l, v <= l < v + Z.of_nat k -> b l = zmem l m) -> models b f.
Proof.
  induction k as [|k IH]; intros v f trues m Hv Hin.
  - simpl in Hin. destruct f as [|c tl]; [|destruct Hin]. destruct Hin as [<-|[]].
    split; [apply incl_refl|]. split; [intros l Hl; left; exact Hl|]. intros b _ _ c [].
  - cbn [enum] in Hin. apply in_app_or in Hin. destruct Hin as [Hin|Hin].
    + destruct (assign v false f) as [f'|] eqn:A; [|destruct Hin].
      destruct (IH (v + 1) f' trues m ltac:(lia) Hin) as [I1 [I2 I3]].
      split; [exact I1|]. split; [intros l Hl; destruct (I2 l Hl) as [H|H]; [left; exact H|right; lia]|].
      intros b Ht Hb. apply (assign_sound b v false f f' Hv); [|exact A|].
      * rewrite Hb by lia. destruct (zmem v m) eqn:Z; [|reflexivity]. apply zmem_In in Z.
        destruct (I2 v Z) as [H|H]; [specialize (Ht v H); lia|lia].
      * apply I3; [intros l Hl; specialize (Ht l Hl); lia|intros l Hl; apply Hb; lia].
    + destruct (assign v true f) as [f'|] eqn:A; [|destruct Hin].
      destruct (IH (v + 1) f' (v :: trues) m ltac:(lia) Hin) as [I1 [I2 I3]].
      split; [intros l Hl; apply I1; right; exact Hl|].
      split; [intros l Hl; destruct (I2 l Hl) as [[<-|H]|H]; [right; lia|left; exact H|right; lia]|].
      intros b Ht Hb. apply (assign_sound b v true f f' Hv); [|exact A|].
      * rewrite Hb by lia. apply zmem_In. apply I1. left. reflexivity.
      * apply I3; [intros l [<-|Hl]; [lia|specialize (Ht l Hl); lia]|intros l Hl; apply Hb; lia].
Qed.

(* ------------------------------------------------------------------ holdsb only reads the constraint's variables *)
Lemma eval_ext s s' e : (forall v, In v (expr_vars e) -> aval s v = aval s' v) -> eval s e = eval s' e.
Proof.
  induction e as [v|k|a IHa c IHc|a IHa c IHc|a IHa c IHc|a IHa k]; intros H; simpl in *;
    try reflexivity.
  - apply H. left. reflexivity.
  - rewrite IHa, IHc; [reflexivity| |]; intros v Hv; apply H; apply in_or_app; auto.
  - rewrite IHa, IHc; [reflexivity| |]; intros v Hv; apply H; apply in_or_app; auto.
  - rewrite IHa, IHc; [reflexivity| |]; intros v Hv; apply H; apply in_or_app; auto.
  - rewrite IHa; [reflexivity|exact H].
Qed.

Lemma holdsb_ext s s' c : (forall v, In v (cons_vars c) -> aval s v = aval s' v) -> holdsb s c = holdsb s' c.
Proof.
  intros H. destruct c as [vs|v k|v k|v w|v w|l r ne|vs t|vs t|vs t|vs|ts|ts cap]; cbn [holdsb cons_vars] in *.
  - unfold vals. rewrite (map_ext_in _ _ vs H). reflexivity.
  - rewrite H by (left; reflexivity). reflexivity.
  - rewrite H by (left; reflexivity). reflexivity.
  - rewrite !(H v), !(H w) by (simpl; auto). reflexivity.
  - rewrite !(H v), !(H w) by (simpl; auto). reflexivity.
  - rewrite (eval_ext s s' l), (eval_ext s s' r); [reflexivity| |]; intros v Hv; apply H; apply in_or_app; auto.
  - unfold vals. rewrite (map_ext_in _ _ vs H). reflexivity.
  - unfold vals. rewrite (map_ext_in _ _ vs H). reflexivity.
  - unfold vals. rewrite (map_ext_in _ _ vs H). reflexivity.
  - unfold vals. rewrite (map_ext_in _ _ vs H). reflexivity.
  - unfold task_vals. replace (map (fun p : var * Z => (aval s (fst p), snd p)) ts) with (map (fun p : var * Z => (aval s' (fst p), snd p)) ts); [reflexivity|].
    apply map_ext_in. intros p Hp. rewrite H; [reflexivity|]. apply in_map. exact Hp.
  - unfold ctask_vals. replace (map (fun p : var * Z * Z => (aval s (fst (fst p)), snd (fst p), snd p)) ts)
      with (map (fun p : var * Z * Z => (aval s' (fst (fst p)), snd (fst p), snd p)) ts); [reflexivity|].
    apply map_ext_in. intros p Hp. rewrite H; [reflexivity|]. apply (in_map (fun q : var * Z * Z => fst (fst q))). exact Hp.
Qed.

Lemma asgn_of_map s vs v : NoDup (map vid vs) -> In v vs -> aval (asgn_of vs (map (aval s) vs)) v = aval s v.
Proof.
  induction vs as [|w tl IH]; intros Hnd Hin; [destruct Hin|]. simpl in *. unfold aval at 1. simpl.
  inversion Hnd as [|? ? Hn Hnd']; subst. destruct Hin as [->|Hin].
  - rewrite Nat.eqb_refl. reflexivity.
  - destruct (Nat.eqb (vid v) (vid w)) eqn:E.
    + apply Nat.eqb_eq in E. exfalso. apply Hn. rewrite <- E. apply in_map. exact Hin.
    + apply (IH Hnd' Hin).
Qed.

Lemma clause_eqb_eq a c : clause_eqb a c = true -> a = c.
Proof.
  revert c. induction a as [|x xs IH]; intros [|y ys] H; simpl in H; try discriminate; [reflexivity|].
  apply andb_true_iff in H. destruct H as [H1 H2]. apply Z.eqb_eq in H1. rewrite (IH ys H2). subst. reflexivity.
Qed.

Lemma named_only_agree (P : var -> Z -> Prop) vs : forall xs ys, Forall2 P vs xs -> length ys = length vs ->
  named_only vs xs = named_only vs ys ->
  forall i v, nth_error vs i = Some v -> vnamed v = true -> nth_error xs i = nth_error ys i.
Proof.
  induction vs as [|w tl IH]; intros xs ys HF Hlen Heq i v Hi Hn.
  - destruct i; discriminate.
  - inversion HF as [|? x ? xs' Hx HF']; subst. destruct ys as [|y ys']; [discriminate|].
    simpl in Heq. destruct i as [|i]; simpl in *.
    + inversion Hi; subst. rewrite Hn in Heq. inversion Heq. reflexivity.
    + destruct (vnamed w); [inversion Heq|]; apply (IH xs' ys' HF' ltac:(lia) ltac:(assumption) i v Hi Hn).
Qed.

(* ------------------------------------------------------------------ the theorem *)
Theorem cnf_projection_ok_no_missing M f s :
  wf_model M = true -> cnf_projection_ok M (Some f) = true -> cp_solution M s ->
  exists b xs,
    models b f
    /\ Forall2 (fun v x => filter (fun y => b (vlit v y)) (vdom v) = [x]) (m_vars M) xs
    /\ forall i v, nth_error (m_vars M) i = Some v -> vnamed v = true -> nth_error xs i = Some (aval s v).
Proof.
  intros Hwf Hok [Hdom Hh]. pose proof (wf_model_props M Hwf) as W.
  unfold cnf_projection_ok in Hok. rewrite !andb_true_iff in Hok. destruct Hok as [[_ _] Hmiss].
  set (nv := Z.max (max_lit f) (m_next M - 1)) in *.
  set (xs0 := map (aval s) (m_vars M)).
  assert (Hsol : In xs0 (cp_solutions M)).
  { unfold cp_solutions. apply filter_In. split.
    - apply box_In. unfold xs0. clear - Hdom. induction (m_vars M) as [|v tl IH]; simpl; constructor.
      + apply vdom_In. apply Hdom. left. reflexivity.
      + apply IH. intros w Hw. apply Hdom. right. exact Hw.
    - apply forallb_forall. intros c Hc.
      rewrite (holdsb_ext _ s c).
      + apply holdsb_spec. apply Hh. exact Hc.
      + intros v Hv. apply asgn_of_map; [apply (wf_ids M W)|apply (wf_cvars M W c Hc v Hv)]. }
  rewrite forallb_forall in Hmiss.
  specialize (Hmiss (named_only (m_vars M) xs0) (in_map _ _ _ Hsol)).
  apply existsb_exists in Hmiss. destruct Hmiss as [d [Hd Heq]].
  apply in_map_iff in Hd. destruct Hd as [m [<- Hm]].
  destruct (decode_all m (m_vars M)) as [xs|] eqn:D; [|discriminate]. apply clause_eqb_eq in Heq.
  unfold all_models in Hm. destruct (has_empty f); [destruct Hm|].
  destruct (enum_sound (Z.to_nat nv) 1 f [] m ltac:(lia) Hm) as [_ [_ Hmod]].
  exists (fun l => zmem l m), xs. split; [apply Hmod; [intros l []|reflexivity]|].
  pose proof (decode_all_spec m (m_vars M) xs D) as HF. split; [exact HF|].
  intros i v Hi Hn.
  rewrite (named_only_agree _ (m_vars M) xs xs0 HF ltac:(unfold xs0; apply map_length) Heq i v Hi Hn).
  unfold xs0. rewrite nth_error_map, Hi. reflexivity.
Qed.
