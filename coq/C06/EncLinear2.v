(* C06 - linear ==/!= (_encode_ne_expr), part 2: the final comparison, the folding loop, the whole method. *)
From Coq Require Import List ZArith Bool Lia.
From SV Require Import C06.CpAst C06.CpAstProofs C06.CpEnc C06.EncBasics C06.EncPairwise C06.EncFrame C06.EncLinear.
Import ListNotations.
Open Scope Z_scope.

Definition rel (is_ne : bool) (x t : Z) : Prop := if is_ne then x <> t else x = t.

(* ------------------------------------------------------------------ final comparisons *)
Lemma lin_final0_ok b t is_ne : models b (lin_final0 t is_ne) <-> rel is_ne 0 t.
Proof.
  unfold lin_final0, rel. destruct is_ne; destruct (t =? 0) eqn:E; simpl.
  - apply Z.eqb_eq in E. rewrite models_empty_clause. lia.
  - apply Z.eqb_neq in E. rewrite models_nil. lia.
  - apply Z.eqb_eq in E. rewrite models_nil. lia.
  - apply Z.eqb_neq in E. rewrite models_empty_clause. lia.
Qed.

Lemma lin_final1_ok b m q t is_ne : mpos m -> repr b m q -> (models b (lin_final1 m t is_ne) <-> rel is_ne q t).
Proof.
  intros Hp Hr. unfold lin_final1, rel. destruct (mget m t) as [l|] eqn:G.
  - pose proof (mget_Some m t l G) as Hin. pose proof (Hp t l Hin) as Hl.
    pose proof (proj2 Hr t l Hin) as Hbl.
    destruct is_ne; rewrite models_one.
    + rewrite ct_n by exact Hl. rewrite negb_true_iff. split.
      * intros Hf E. subst. assert (b l = true) by (apply Hbl; reflexivity). congruence.
      * intros Hne. destruct (b l) eqn:E; [|reflexivity]. exfalso. apply Hne. symmetry. apply Hbl. reflexivity.
    + rewrite ct_p by exact Hl. rewrite Hbl. split; auto.
  - pose proof (mget_None m t G) as Hn. destruct Hr as [Hq _].
    destruct is_ne.
    + rewrite models_nil. split; [|tauto]. intros _ E. subst. contradiction.
    + rewrite models_empty_clause. split; [tauto|]. intros E. subst. contradiction.
Qed.

Lemma lin_final2_ok b m1 m2 q1 q2 t is_ne : mpos m1 -> mpos m2 -> repr b m1 q1 -> repr b m2 q2 ->
  (models b (lin_final2 m1 m2 t is_ne) <-> rel is_ne (q1 + q2) t).
Proof.
  intros Hp1 Hp2 Hr1 Hr2. unfold lin_final2. rewrite models_flat_map.
  destruct (repr_get b m1 q1 Hr1) as [l1 [_ [Hl1 Hb1]]].
  split.
  - intros H. specialize (H (q1, l1) Hl1). cbn [fst snd] in H.
    destruct (mget m2 (t - q1)) as [l2|] eqn:G.
    + pose proof (mget_Some _ _ _ G) as Hin2. pose proof (Hp2 _ _ Hin2) as Hl2pos.
      pose proof (proj2 Hr2 _ _ Hin2) as Hb2. pose proof (Hp1 _ _ Hl1) as Hl1pos.
      unfold rel. destruct is_ne; rewrite models_one in H.
      * rewrite ct_nn in H by assumption. rewrite Hb1 in H. simpl in H. apply negb_true_iff in H.
        intros E. assert (b l2 = true) by (apply Hb2; lia). congruence.
      * rewrite ct_np in H by assumption. rewrite Hb1 in H. simpl in H. apply Hb2 in H. lia.
    + pose proof (mget_None _ _ G) as Hn. destruct Hr2 as [Hq2 _]. unfold rel. destruct is_ne.
      * intros E. apply Hn. replace (t - q1) with q2 by lia. exact Hq2.
      * rewrite models_one, ct_n in H by (apply (Hp1 _ _ Hl1)). rewrite Hb1 in H. discriminate.
  - intros Hrel [k1 l] Hin. cbn [fst snd]. pose proof (Hp1 _ _ Hin) as Hlpos.
    pose proof (proj2 Hr1 _ _ Hin) as Hbl.
    destruct (mget m2 (t - k1)) as [l2|] eqn:G.
    + pose proof (mget_Some _ _ _ G) as Hin2. pose proof (Hp2 _ _ Hin2) as Hl2pos.
      pose proof (proj2 Hr2 _ _ Hin2) as Hb2. unfold rel in Hrel.
      destruct is_ne; rewrite models_one.
      * rewrite ct_nn by assumption. destruct (b l) eqn:E1; [|reflexivity]. destruct (b l2) eqn:E2; [|reflexivity].
        exfalso. apply Hrel. assert (k1 = q1) by (apply Hbl; reflexivity). assert (t - k1 = q2) by (apply Hb2; reflexivity). lia.
      * rewrite ct_np by assumption. destruct (b l) eqn:E1; [|reflexivity]. simpl.
        assert (k1 = q1) by (apply Hbl; reflexivity). apply Hb2. lia.
    + unfold rel in Hrel. destruct is_ne; [apply models_nil; exact I|].
      rewrite models_one, ct_n by exact Hlpos. destruct (b l) eqn:E1; [|reflexivity]. exfalso.
      assert (k1 = q1) by (apply Hbl; reflexivity). apply (mget_None _ _ G).
      destruct Hr2 as [Hq2 _]. replace (t - k1) with q2 by lia. exact Hq2.
Qed.

Lemma lin_final2_below n m1 m2 t is_ne : mbelow n m1 -> mbelow n m2 -> cnf_below n (lin_final2 m1 m2 t is_ne).
Proof.
  intros H1 H2. unfold lin_final2. apply cnf_below_flat_map. intros [k l] Hin. cbn [fst snd].
  specialize (H1 _ _ Hin).
  destruct (mget m2 (t - k)) as [l2|] eqn:G.
  - pose proof (H2 _ _ (mget_Some _ _ _ G)) as Hl2.
    destruct is_ne; intros c [<-|[]] x [<-|[<-|[]]]; lia.
  - destruct is_ne; [apply cnf_below_nil|]. intros c [<-|[]] x [<-|[]]. lia.
Qed.

Lemma lin_final1_below n m t is_ne : mbelow n m -> cnf_below n (lin_final1 m t is_ne).
Proof.
  intros H. unfold lin_final1. destruct (mget m t) as [l|] eqn:G.
  - pose proof (H _ _ (mget_Some _ _ _ G)) as Hl. destruct is_ne; intros c [<-|[]] x [<-|[]]; lia.
  - destruct is_ne; [apply cnf_below_nil|]. intros c [<-|[]] x [].
Qed.

Lemma lin_final0_below n t is_ne : cnf_below n (lin_final0 t is_ne).
Proof.
  unfold lin_final0. destruct (xorb (negb (t =? 0)) is_ne); [|apply cnf_below_nil]. intros c [<-|[]] x [].
Qed.

(* ------------------------------------------------------------------ the loop *)
Lemma lin_fold_step n a m2 c rest t is_ne :
  lin_fold n a m2 (c :: rest) t is_ne =
  (step_clauses n a m2 ++ fst (lin_fold (n + Z.of_nat (length (pair_sums a m2))) (total_of n a m2) c rest t is_ne),
   snd (lin_fold (n + Z.of_nat (length (pair_sums a m2))) (total_of n a m2) c rest t is_ne)).
Proof.
  cbn [lin_fold]. unfold step_clauses. rewrite fold_step_eq. cbn [fst snd].
  destruct (lin_fold (n + Z.of_nat (length (pair_sums a m2))) (total_of n a m2) c rest t is_ne). reflexivity.
Qed.

Lemma lin_fold_sound b rest : forall n a m2 qs qa qb t is_ne,
  0 < n -> mpos a -> mpos m2 -> Forall mpos rest ->
  repr b a qa -> repr b m2 qb -> Forall2 (repr b) rest qs ->
  models b (fst (lin_fold n a m2 rest t is_ne)) -> rel is_ne (qa + qb + zsum qs) t.
Proof.
  induction rest as [|c rest' IH]; intros n a m2 qs qa qb t is_ne Hn Hpa Hpb Hpr Ha Hb Hqs Hm.
  - inversion Hqs; subst. cbn [lin_fold fst] in Hm.
    apply (lin_final2_ok b m2 a qb qa t is_ne Hpb Hpa Hb Ha) in Hm.
    unfold zsum. simpl. replace (qa + qb + 0) with (qb + qa) by lia. exact Hm.
  - inversion Hqs as [|? qc ? qs' Hc Hqs']; subst. inversion Hpr as [|? ? Hpc Hpr']; subst.
    rewrite lin_fold_step in Hm. cbn [fst] in Hm. apply models_app in Hm. destruct Hm as [Hm1 Hm2].
    pose proof (fold_step_sound b n a m2 qa qb Hn Hpa Hpb Ha Hb Hm1) as Ht.
    assert (Hpt : mpos (total_of n a m2)) by (apply (mbelow_mpos _ _ (total_below n a m2 Hn))).
    assert (Hn1 : 0 < n + Z.of_nat (length (pair_sums a m2))) by lia.
    specialize (IH _ _ _ qs' (qa + qb) qc t is_ne Hn1 Hpt Hpc Hpr' Ht Hc Hqs' Hm2).
    unfold zsum in *. simpl. replace (qa + qb + (qc + fold_right Z.add 0 qs')) with (qa + qb + qc + fold_right Z.add 0 qs') by lia.
    exact IH.
Qed.

Lemma lin_fold_below rest : forall n a m2 t is_ne,
  0 < n -> mbelow n a -> mbelow n m2 -> Forall (mbelow n) rest ->
  n <= snd (lin_fold n a m2 rest t is_ne)
  /\ cnf_below (snd (lin_fold n a m2 rest t is_ne)) (fst (lin_fold n a m2 rest t is_ne)).
Proof.
  induction rest as [|c rest' IH]; intros n a m2 t is_ne Hn Ha Hb Hr.
  - cbn [lin_fold fst snd]. split; [lia|]. apply lin_final2_below; assumption.
  - inversion Hr as [|? ? Hc Hr']; subst. rewrite lin_fold_step. cbn [fst snd].
    set (n1 := n + Z.of_nat (length (pair_sums a m2))).
    assert (Hn1 : n <= n1) by (unfold n1; lia).
    destruct (IH n1 (total_of n a m2) c t is_ne) as [H1 H2].
    + lia.
    + apply total_below. exact Hn.
    + apply (mbelow_mono n n1); assumption.
    + apply Forall_forall. intros m Hm. apply (mbelow_mono n n1); [exact Hn1|].
      rewrite Forall_forall in Hr'. apply Hr'. exact Hm.
    + split; [lia|]. apply cnf_below_app. split; [|exact H2].
      apply (cnf_below_mono n1); [exact H1|]. apply fold_step_below; assumption.
Qed.

Lemma lin_fold_complete rest : forall b n a m2 qs qa qb t is_ne,
  0 < n -> mbelow n a -> mbelow n m2 -> Forall (mbelow n) rest ->
  repr b a qa -> repr b m2 qb -> Forall2 (repr b) rest qs ->
  rel is_ne (qa + qb + zsum qs) t ->
  exists b', agree_below n b b' /\ models b' (fst (lin_fold n a m2 rest t is_ne)).
Proof.
  induction rest as [|c rest' IH]; intros b n a m2 qs qa qb t is_ne Hn Hma Hmb Hmr Ha Hb Hqs Hrel.
  - inversion Hqs; subst. exists b. split; [apply agree_below_refl|]. cbn [lin_fold fst].
    apply (lin_final2_ok b m2 a qb qa t is_ne (mbelow_mpos _ _ Hmb) (mbelow_mpos _ _ Hma) Hb Ha).
    unfold zsum in Hrel. simpl in Hrel. replace (qb + qa) with (qa + qb + 0) by lia. exact Hrel.
  - inversion Hqs as [|? qc ? qs' Hc Hqs']; subst. inversion Hmr as [|? ? Hmc Hmr']; subst.
    destruct (fold_step_complete b n a m2 qa qb Hn Hma Hmb Ha Hb) as [Hag [Hm1 Hrt]].
    set (b1 := set_map b (total_of n a m2) (qa + qb)) in *.
    set (n1 := n + Z.of_nat (length (pair_sums a m2))).
    assert (Hn1 : n <= n1) by (unfold n1; lia).
    assert (Hmr1 : Forall (mbelow n1) rest').
    { apply Forall_forall. intros m Hm. apply (mbelow_mono n n1); [exact Hn1|].
      rewrite Forall_forall in Hmr'. apply Hmr'. exact Hm. }
    assert (Hqs1 : Forall2 (repr b1) rest' qs').
    { clear - Hqs' Hmr' Hag. induction Hqs' as [|m q ms qs0 Hmq Hrest IH2]; constructor.
      - inversion Hmr'; subst. apply (repr_agree n b b1); assumption.
      - inversion Hmr'; subst. apply IH2. assumption. }
    destruct (IH b1 n1 (total_of n a m2) c qs' (qa + qb) qc t is_ne) as [b' [Hag' Hm2]].
    + lia.
    + apply total_below. exact Hn.
    + apply (mbelow_mono n n1); assumption.
    + exact Hmr1.
    + exact Hrt.
    + apply (repr_agree n b b1); assumption.
    + exact Hqs1.
    + unfold zsum in *. simpl in Hrel. replace (qa + qb + qc + fold_right Z.add 0 qs') with (qa + qb + (qc + fold_right Z.add 0 qs')) by lia.
      exact Hrel.
    + exists b'. split; [apply (agree_below_trans n n1 b b1 b'); assumption|].
      rewrite lin_fold_step. cbn [fst]. apply models_app. split; [|exact Hm2].
      apply (models_agree n1 b1 b'); [apply fold_step_below; assumption|exact Hag'|exact Hm1].
Qed.

(* ------------------------------------------------------------------ the stack of term maps *)
Definition enc_stack (n : Z) (st : list vmap) (target : Z) (is_ne : bool) : cnf * Z :=
  match st with
  | [] => (lin_final0 target is_ne, n)
  | [a] => (lin_final1 a target is_ne, n)
  | a :: m2 :: rest => lin_fold n a m2 rest target is_ne
  end.

Lemma enc_lin_terms_eq n ts const is_ne :
  enc_lin_terms n ts const is_ne = enc_stack n (rev (map term_map ts)) (- const) is_ne.
Proof. reflexivity. Qed.

Lemma enc_stack_sound b n st qs t is_ne : 0 < n -> Forall mpos st -> Forall2 (repr b) st qs ->
  models b (fst (enc_stack n st t is_ne)) -> rel is_ne (zsum qs) t.
Proof.
  intros Hn Hp Hq Hm. destruct Hq as [|a qa st' qs' Ha Hq'].
  - apply lin_final0_ok in Hm. exact Hm.
  - inversion Hp as [|? ? Hpa Hp']; subst. destruct Hq' as [|m2 qb st'' qs'' Hb Hq''].
    + cbn [enc_stack fst] in Hm. apply (lin_final1_ok b a qa t is_ne Hpa Ha) in Hm.
      unfold zsum. simpl. replace (qa + 0) with qa by lia. exact Hm.
    + inversion Hp' as [|? ? Hpb Hp'']; subst. cbn [enc_stack] in Hm.
      pose proof (lin_fold_sound b st'' n a m2 qs'' qa qb t is_ne Hn Hpa Hpb Hp'' Ha Hb Hq'' Hm) as H.
      unfold zsum in *. simpl. replace (qa + (qb + fold_right Z.add 0 qs'')) with (qa + qb + fold_right Z.add 0 qs'') by lia.
      exact H.
Qed.

Lemma enc_stack_below n st t is_ne : 0 < n -> Forall (mbelow n) st ->
  n <= snd (enc_stack n st t is_ne) /\ cnf_below (snd (enc_stack n st t is_ne)) (fst (enc_stack n st t is_ne)).
Proof.
  intros Hn Hs. destruct st as [|a [|m2 rest]].
  - cbn [enc_stack fst snd]. split; [lia|apply lin_final0_below].
  - inversion Hs; subst. cbn [enc_stack fst snd]. split; [lia|apply lin_final1_below; assumption].
  - inversion Hs as [|? ? Ha Hs']; subst. inversion Hs' as [|? ? Hb Hs'']; subst.
    cbn [enc_stack]. apply lin_fold_below; assumption.
Qed.

Lemma enc_stack_complete b n st qs t is_ne : 0 < n -> Forall (mbelow n) st -> Forall2 (repr b) st qs ->
  rel is_ne (zsum qs) t -> exists b', agree_below n b b' /\ models b' (fst (enc_stack n st t is_ne)).
Proof.
  intros Hn Hs Hq Hrel. destruct Hq as [|a qa st' qs' Ha Hq'].
  - exists b. split; [apply agree_below_refl|]. apply lin_final0_ok. exact Hrel.
  - inversion Hs as [|? ? Hma Hs']; subst. destruct Hq' as [|m2 qb st'' qs'' Hb Hq''].
    + exists b. split; [apply agree_below_refl|]. cbn [enc_stack fst].
      apply (lin_final1_ok b a qa t is_ne (mbelow_mpos _ _ Hma) Ha).
      unfold zsum in Hrel. simpl in Hrel. replace qa with (qa + 0) by lia. exact Hrel.
    + inversion Hs' as [|? ? Hmb Hs'']; subst. cbn [enc_stack].
      apply (lin_fold_complete st'' b n a m2 qs'' qa qb t is_ne Hn Hma Hmb Hs'' Ha Hb Hq'').
      unfold zsum in *. simpl in Hrel. replace (qa + qb + fold_right Z.add 0 qs'') with (qa + (qb + fold_right Z.add 0 qs'')) by lia.
      exact Hrel.
Qed.

(* ------------------------------------------------------------------ terms *)
Definition tsum (b : asg) (ts : list (var * Z)) : Z := zsum (map (fun t => snd t * bv b (fst t)) ts).

Lemma zsum_app l1 l2 : zsum (l1 ++ l2) = zsum l1 + zsum l2.
Proof. unfold zsum. induction l1 as [|x tl IH]; simpl; [reflexivity|]. rewrite IH. lia. Qed.
Lemma zsum_rev l : zsum (rev l) = zsum l.
Proof. induction l as [|x tl IH]; simpl; [reflexivity|]. rewrite zsum_app, IH. unfold zsum. simpl. lia. Qed.

Lemma Forall2_rev {A B} (R : A -> B -> Prop) l1 l2 : Forall2 R l1 l2 -> Forall2 R (rev l1) (rev l2).
Proof.
  induction 1 as [|x y l1 l2 Hxy H IH]; simpl; [constructor|].
  apply Forall2_app; [exact IH|]. constructor; [exact Hxy|constructor].
Qed.

Definition terms_ok (b : asg) (ts : list (var * Z)) : Prop :=
  forall t, In t ts -> VOK b (fst t) /\ snd t <> 0.

Lemma terms_repr b ts : terms_ok b ts ->
  Forall2 (repr b) (map term_map ts) (map (fun t => snd t * bv b (fst t)) ts).
Proof.
  induction ts as [|[v c] tl IH]; intros H; simpl; constructor.
  - destruct (H (v, c) (or_introl eq_refl)) as [H1 H2]. simpl in *. apply term_map_repr; assumption.
  - apply IH. intros t Ht. apply H. right. exact Ht.
Qed.

Lemma terms_below n ts : (forall t, In t ts -> 0 < vbase (fst t) /\ var_below n (fst t)) ->
  Forall (mbelow n) (rev (map term_map ts)).
Proof.
  intros H. apply Forall_forall. intros m Hm. apply in_rev in Hm. apply in_map_iff in Hm.
  destruct Hm as [[v c] [<- Ht]]. destruct (H _ Ht) as [H1 H2]. simpl in *. apply term_map_below; assumption.
Qed.

Theorem enc_lin_terms_sound b n ts const is_ne : 0 < n -> terms_ok b ts ->
  models b (fst (enc_lin_terms n ts const is_ne)) -> rel is_ne (tsum b ts) (- const).
Proof.
  intros Hn Hok Hm. rewrite enc_lin_terms_eq in Hm.
  pose proof (Forall2_rev _ _ _ (terms_repr b ts Hok)) as Hq.
  assert (Hp : Forall mpos (rev (map term_map ts))).
  { apply Forall_forall. intros m Hmm. apply in_rev in Hmm. apply in_map_iff in Hmm.
    destruct Hmm as [[v c] [<- Ht]]. destruct (Hok _ Ht) as [[Hb _] _]. simpl in Hb.
    intros k l Hkl. apply term_map_In in Hkl. destruct Hkl as [x [Hx [_ ->]]]. apply vlit_pos; lia. }
  pose proof (enc_stack_sound b n _ _ _ is_ne Hn Hp Hq Hm) as H. rewrite zsum_rev in H. exact H.
Qed.

Theorem enc_lin_terms_complete b n ts const is_ne : 0 < n -> terms_ok b ts ->
  (forall t, In t ts -> var_below n (fst t)) -> rel is_ne (tsum b ts) (- const) ->
  exists b', agree_below n b b' /\ models b' (fst (enc_lin_terms n ts const is_ne)).
Proof.
  intros Hn Hok Hbel Hrel. rewrite enc_lin_terms_eq.
  apply (enc_stack_complete b n _ (rev (map (fun t => snd t * bv b (fst t)) ts))); try exact Hn.
  - apply terms_below. intros t Ht. split; [apply (Hok t Ht)|apply Hbel; exact Ht].
  - apply Forall2_rev. apply terms_repr. exact Hok.
  - rewrite zsum_rev. exact Hrel.
Qed.

Lemma enc_lin_terms_below n ts const is_ne : 0 < n ->
  (forall t, In t ts -> 0 < vbase (fst t) /\ var_below n (fst t)) ->
  n <= snd (enc_lin_terms n ts const is_ne)
  /\ cnf_below (snd (enc_lin_terms n ts const is_ne)) (fst (enc_lin_terms n ts const is_ne)).
Proof. intros Hn H. rewrite enc_lin_terms_eq. apply enc_stack_below; [exact Hn|apply terms_below; exact H]. Qed.

(* ------------------------------------------------------------------ _linearize: what the terms are *)
Lemma lin_add_vars ts v m w c : In (w, c) (lin_add ts v m) -> w = v \/ exists c', In (w, c') ts.
Proof.
  induction ts as [|[u cu] tl IH]; simpl.
  - intros [E|[]]. inversion E. left. reflexivity.
  - destruct (Nat.eqb (vid u) (vid v)).
    + intros [E|H]; [inversion E; subst; right; exists cu; left; reflexivity|right; exists c; right; exact H].
    + intros [E|H]; [inversion E; subst; right; exists c; left; reflexivity|].
      destruct (IH H) as [->|[c' Hc']]; [left; reflexivity|right; exists c'; right; exact Hc'].
Qed.

Lemma visit_vars e : forall mult acc w c, In (w, c) (fst (visit e mult acc)) ->
  In w (expr_vars e) \/ exists c', In (w, c') (fst acc).
Proof.
  induction e as [v|k|a IHa b0 IHb|a IHa b0 IHb|a IHa b0 IHb|a IHa k]; intros mult acc w c H; simpl in *.
  - apply lin_add_vars in H. destruct H as [->|H]; [left; left; reflexivity|right; exact H].
  - right. exists c. exact H.
  - apply IHb in H. destruct H as [H|[c' H]]; [left; apply in_or_app; right; exact H|].
    apply IHa in H. destruct H as [H|H]; [left; apply in_or_app; left; exact H|right; exact H].
  - apply IHb in H. destruct H as [H|[c' H]]; [left; apply in_or_app; right; exact H|].
    apply IHa in H. destruct H as [H|H]; [left; apply in_or_app; left; exact H|right; exact H].
  - apply IHa in H. destruct H as [H|[c' H]]; [left; apply in_or_app; left; exact H|].
    apply IHb in H. destruct H as [H|H]; [left; apply in_or_app; right; exact H|right; exact H].
  - apply IHa in H. exact H.
Qed.

Lemma linearize_terms l r v c : In (v, c) (fst (linearize l r)) ->
  c <> 0 /\ In v (expr_vars l ++ expr_vars r).
Proof.
  unfold linearize. cbn [fst]. intros H. apply filter_In in H. destruct H as [H Hc]. simpl in Hc.
  split; [apply negb_true_iff in Hc; apply Z.eqb_neq in Hc; exact Hc|].
  apply visit_vars in H. destruct H as [H|[c' H]]; [apply in_or_app; right; exact H|].
  apply visit_vars in H. destruct H as [H|[c'' H]]; [apply in_or_app; left; exact H|]. destruct H.
Qed.

Lemma tsum_terms_eval b s ts : (forall t, In t ts -> aval s (fst t) = bv b (fst t)) -> terms_eval s ts = tsum b ts.
Proof.
  unfold terms_eval, tsum, zsum. induction ts as [|t tl IH]; intros H; simpl; [reflexivity|].
  rewrite IH by (intros t' Ht'; apply H; right; exact Ht'). rewrite (H t (or_introl eq_refl)). reflexivity.
Qed.

(* the constraint, read on an integer assignment s that agrees with the decoded values *)
Lemma lin_rel_holds b s l r is_ne :
  (forall v, In v (expr_vars l ++ expr_vars r) -> aval s v = bv b v) ->
  (rel is_ne (tsum b (fst (linearize l r))) (- snd (linearize l r)) <-> holds s (CLin l r is_ne)).
Proof.
  intros Hs. pose proof (linearize_eval s l r) as He. unfold lin_eval in He.
  rewrite (tsum_terms_eval b s) in He.
  2:{ intros [v c] Ht. simpl. apply Hs. apply (linearize_terms l r v c Ht). }
  unfold rel. cbn [holds].
  set (T := tsum b (fst (linearize l r))) in *. set (K := snd (linearize l r)) in *.
  destruct is_ne; lia.
Qed.
