(* C06 - cumulative: _encode_cumulative + _encode_capacity_constraint.  Counter, framing, soundness and
   completeness of `enc_cumulative` against `cumulative_vals` on the decoded start values. *)
From Coq Require Import List ZArith Bool Lia.
From SV Require Import C06.CpAst C06.CpAstProofs C06.CpEnc C06.EncBasics C06.EncPairwise C06.EncFrame.
From Coq Require Import Permutation.
Import ListNotations. Open Scope Z_scope.

Definition cvals (b : asg) (ts : list (var * Z * Z)) : list (Z * Z * Z) :=
  map (fun p => (bv b (fst (fst p)), snd (fst p), snd p)) ts.

(* ================================================================== capacity constraint *)
(* total demand of the active entries whose literal is true *)
Fixpoint tsum (b : asg) (l : list (lit * Z)) : Z :=
  match l with [] => 0 | p :: tl => (if b (fst p) then snd p else 0) + tsum b tl end.

Lemma tsum_nonneg b l : (forall p, In p l -> 0 <= snd p) -> 0 <= tsum b l.
Proof.
  induction l as [|p tl IH]; intros H; simpl; [lia|].
  assert (H1 : 0 <= snd p) by (apply H; left; reflexivity).
  assert (H2 : 0 <= tsum b tl) by (apply IH; intros q Hq; apply H; right; exact Hq).
  destruct (b (fst p)); lia.
Qed.

Lemma tsum_perm b l l' : Permutation l l' -> tsum b l = tsum b l'.
Proof. intros H. induction H; simpl; lia. Qed.

Lemma insert_dem_perm x l : Permutation (insert_dem x l) (x :: l).
Proof.
  induction l as [|y tl IH]; simpl; [apply Permutation_refl|].
  destruct (snd y <? snd x); [apply Permutation_refl|].
  apply perm_trans with (y :: x :: tl); [apply perm_skip; exact IH|apply perm_swap].
Qed.

Lemma sort_dem_perm_acc l : forall acc,
  Permutation (fold_left (fun acc x => insert_dem x acc) l acc) (l ++ acc).
Proof.
  induction l as [|a tl IH]; intros acc; simpl; [apply Permutation_refl|].
  apply perm_trans with (tl ++ insert_dem a acc); [apply IH|].
  apply perm_trans with (tl ++ a :: acc).
  - apply Permutation_app_head. apply insert_dem_perm.
  - apply Permutation_sym. apply Permutation_middle.
Qed.

Lemma sort_dem_perm l : Permutation (sort_dem l) l.
Proof.
  pose proof (sort_dem_perm_acc l []) as H. rewrite app_nil_r in H. exact H.
Qed.

Lemma ct_negs b ls : (forall l, In l ls -> 0 < l) ->
  (clause_true b (map Z.opp ls) = true <-> exists l, In l ls /\ b l = false).
Proof.
  intros Hpos. unfold clause_true. rewrite existsb_exists. split.
  - intros [x [Hx Hb]]. apply in_map_iff in Hx. destruct Hx as [l [<- Hl]].
    rewrite lit_true_neg in Hb by (apply Hpos; exact Hl).
    exists l. split; [exact Hl|]. apply negb_true_iff. exact Hb.
  - intros [l [Hl Hb]]. exists (- l). split; [apply in_map_iff; exists l; auto|].
    rewrite lit_true_neg by (apply Hpos; exact Hl). rewrite Hb. reflexivity.
Qed.

Lemma all_or_false (b : asg) ls :
  (forall l, In l ls -> b l = true) \/ exists l, In l ls /\ b l = false.
Proof.
  induction ls as [|a tl [IH|[l [Hl Hb]]]].
  - left. intros l [].
  - destruct (b a) eqn:E.
    + left. intros l [<-|Hl]; auto.
    + right. exists a. split; [left; reflexivity|exact E].
  - right. exists l. split; [right; exact Hl|exact Hb].
Qed.

Lemma cap_extend_sound b cap rest : forall chosen ld,
  (forall p, In p rest -> 0 < fst p) ->
  (forall l, In l chosen -> 0 < l /\ b l = true) -> ld <= cap ->
  models b (cap_extend cap rest chosen ld) -> ld + tsum b rest <= cap.
Proof.
  induction rest as [|[l d] tl IH]; intros chosen ld Hpos Hch Hld Hm; simpl; [lia|].
  simpl in Hm. apply models_app in Hm. destruct Hm as [Hm1 Hm2].
  assert (Hpos' : forall p, In p tl -> 0 < fst p) by (intros p Hp; apply Hpos; right; exact Hp).
  assert (Hl : 0 < l) by (apply (Hpos (l, d)); left; reflexivity).
  pose proof (IH chosen ld Hpos' Hch Hld Hm2) as H2.
  destruct (b l) eqn:Bl; [|lia].
  assert (Hch' : forall x, In x (chosen ++ [l]) -> 0 < x /\ b x = true).
  { intros x Hx. apply in_app_or in Hx. destruct Hx as [Hx|[<-|[]]]; auto. }
  destruct (cap <? ld + d) eqn:E.
  - exfalso. apply models_one in Hm1. change [- l] with (map Z.opp [l]) in Hm1.
    rewrite <- map_app in Hm1. apply ct_negs in Hm1.
    + destruct Hm1 as [x [Hx Hb]]. destruct (Hch' x Hx) as [_ Hb']. congruence.
    + intros x Hx. apply Hch'. exact Hx.
  - apply Z.ltb_ge in E. pose proof (IH (chosen ++ [l]) (ld + d) Hpos' Hch' E Hm1). lia.
Qed.

Lemma cap_extend_complete b cap rest : forall chosen ld,
  (forall p, In p rest -> 0 < fst p /\ 0 <= snd p) ->
  (forall l, In l chosen -> 0 < l) ->
  ((forall l, In l chosen -> b l = true) -> ld + tsum b rest <= cap) ->
  models b (cap_extend cap rest chosen ld).
Proof.
  induction rest as [|[l d] tl IH]; intros chosen ld Hpos Hch Hsum; simpl; [apply models_nil; exact I|].
  assert (Hpos' : forall p, In p tl -> 0 < fst p /\ 0 <= snd p) by (intros p Hp; apply Hpos; right; exact Hp).
  destruct (Hpos (l, d) (or_introl eq_refl)) as [Hl Hd]. simpl in Hl, Hd.
  assert (Hnn : 0 <= tsum b tl) by (apply tsum_nonneg; intros p Hp; apply Hpos'; exact Hp).
  simpl in Hsum.
  assert (Hch' : forall x, In x (chosen ++ [l]) -> 0 < x).
  { intros x Hx. apply in_app_or in Hx. destruct Hx as [Hx|[<-|[]]]; auto. }
  assert (Hadd : (forall x, In x (chosen ++ [l]) -> b x = true) -> ld + d + tsum b tl <= cap).
  { intros Hall.
    assert (Bl : b l = true) by (apply Hall; apply in_or_app; right; left; reflexivity).
    rewrite Bl in Hsum.
    assert (ld + (d + tsum b tl) <= cap)
      by (apply Hsum; intros x Hx; apply Hall; apply in_or_app; left; exact Hx).
    lia. }
  apply models_app. split.
  - destruct (cap <? ld + d) eqn:E.
    + apply Z.ltb_lt in E. apply models_one. change [- l] with (map Z.opp [l]). rewrite <- map_app.
      apply ct_negs; [exact Hch'|].
      destruct (all_or_false b (chosen ++ [l])) as [Hall|Hex]; [|exact Hex].
      exfalso. specialize (Hadd Hall). lia.
    + apply IH; [exact Hpos'|exact Hch'|exact Hadd].
  - apply IH; [exact Hpos'|exact Hch|]. intros Hall. specialize (Hsum Hall). destruct (b l); lia.
Qed.

Lemma cap_extend_below n cap rest : forall chosen ld,
  (forall p, In p rest -> Z.abs (fst p) < n) -> (forall l, In l chosen -> Z.abs l < n) ->
  cnf_below n (cap_extend cap rest chosen ld).
Proof.
  induction rest as [|[l d] tl IH]; intros chosen ld Hr Hc; simpl; [apply cnf_below_nil|].
  assert (Hr' : forall p, In p tl -> Z.abs (fst p) < n) by (intros p Hp; apply Hr; right; exact Hp).
  assert (Hl : Z.abs l < n) by (apply (Hr (l, d)); left; reflexivity).
  assert (Hc' : forall x, In x (chosen ++ [l]) -> Z.abs x < n).
  { intros x Hx. apply in_app_or in Hx. destruct Hx as [Hx|[<-|[]]]; auto. }
  apply cnf_below_app. split; [|apply IH; assumption].
  destruct (cap <? ld + d).
  - intros c [<-|[]] x Hx. apply in_app_or in Hx. destruct Hx as [Hx|[<-|[]]].
    + apply in_map_iff in Hx. destruct Hx as [y [<- Hy]]. specialize (Hc y Hy). lia.
    + lia.
  - apply IH; assumption.
Qed.

Lemma enc_capacity_sound b act cap : (forall p, In p act -> 0 < fst p) -> 0 <= cap ->
  models b (enc_capacity act cap) -> tsum b act <= cap.
Proof.
  intros Hpos Hcap Hm. unfold enc_capacity in Hm.
  rewrite <- (tsum_perm b _ _ (sort_dem_perm act)).
  assert (H : 0 + tsum b (sort_dem act) <= cap); [|lia].
  apply (cap_extend_sound b cap (sort_dem act) [] 0); [| |exact Hcap|exact Hm].
  - intros p Hp. apply Hpos. apply (Permutation_in _ (sort_dem_perm act)). exact Hp.
  - intros l [].
Qed.

Lemma enc_capacity_complete b act cap : (forall p, In p act -> 0 < fst p /\ 0 <= snd p) ->
  tsum b act <= cap -> models b (enc_capacity act cap).
Proof.
  intros Hpos Hs. unfold enc_capacity. apply cap_extend_complete.
  - intros p Hp. apply Hpos. apply (Permutation_in _ (sort_dem_perm act)). exact Hp.
  - intros l [].
  - intros _. rewrite (tsum_perm b _ _ (sort_dem_perm act)). lia.
Qed.

Lemma enc_capacity_below n act cap : (forall p, In p act -> Z.abs (fst p) < n) ->
  cnf_below n (enc_capacity act cap).
Proof.
  intros H. unfold enc_capacity. apply cap_extend_below.
  - intros p Hp. apply H. apply (Permutation_in _ (sort_dem_perm act)). exact Hp.
  - intros l [].
Qed.

(* ================================================================== the tasks at one time point *)
(* literals of the start values at which the task (v, d) runs at time t *)
Definition wl (v : var) (d t : Z) : list lit :=
  map (vlit v) (zrange (Z.max (vlb v) (t - d + 1)) (Z.min (vub v) t)).
(* r <-> OR lits *)
Definition def_cl (r : lit) (lits : list lit) : cnf := ((- r) :: lits) :: map (fun l => [- l; r]) lits.
Arguments def_cl : simpl never.

Lemma cu_var_below_mono n m v : n <= m -> var_below n v -> var_below m v.
Proof. unfold var_below. lia. Qed.

Lemma cum_tasks_cons cnt t v d dem tl :
  cum_tasks cnt t ((v, d, dem) :: tl) =
  match wl v d t with
  | [] => cum_tasks cnt t tl
  | l0 :: more =>
      if dem <=? 0 then cum_tasks cnt t tl else
      match more with
      | [] => let '(cl, act, c2) := cum_tasks cnt t tl in (cl, (l0, dem) :: act, c2)
      | _ :: _ =>
          let '(cl, act, c2) := cum_tasks (cnt + 1) t tl in
          (def_cl cnt (wl v d t) ++ cl, (cnt, dem) :: act, c2)
      end
  end.
Proof. reflexivity. Qed.

Lemma wl_In v d t l : In l (wl v d t) <->
  exists x, l = vlit v x /\ vlb v <= x <= vub v /\ t - d + 1 <= x <= t.
Proof.
  unfold wl. rewrite in_map_iff. split.
  - intros [x [E Hx]]. apply zrange_In in Hx. exists x. split; [auto|lia].
  - intros [x [E Hx]]. exists x. split; [auto|]. apply zrange_In. lia.
Qed.

Lemma wl_pos v d t : 0 < vbase v -> forall l, In l (wl v d t) -> 0 < l.
Proof. intros Hb l Hl. apply wl_In in Hl. destruct Hl as [x [-> Hx]]. apply vlit_pos; lia. Qed.

Lemma wl_below n v d t : 0 < vbase v -> var_below n v -> forall l, In l (wl v d t) -> 0 < l < n.
Proof.
  intros Hb Hv l Hl. apply wl_In in Hl. destruct Hl as [x [-> Hx]].
  unfold var_below, vlit in *. lia.
Qed.

(* some window literal is true iff the task runs at t *)
Lemma wl_true b v d dem t : VOK b v -> existsb b (wl v d t) = running t (bv b v, d, dem).
Proof.
  intros [Hb He]. pose proof (EO_bv_dom b v He) as Hd. apply eq_true_iff_eq.
  rewrite existsb_exists. unfold running. simpl. rewrite andb_true_iff, Z.leb_le, Z.ltb_lt. split.
  - intros [l [Hl Hbl]]. apply wl_In in Hl. destruct Hl as [x [-> [Hx1 Hx2]]].
    rewrite (EO_lit_b b v x He Hx1) in Hbl. apply Z.eqb_eq in Hbl. lia.
  - intros H. exists (vlit v (bv b v)). split.
    + apply wl_In. exists (bv b v). split; [reflexivity|lia].
    + rewrite (EO_lit_b b v _ He Hd). apply Z.eqb_refl.
Qed.

Lemma ct_poslist b ls : (forall l, In l ls -> 0 < l) -> existsb (lit_true b) ls = existsb b ls.
Proof.
  induction ls as [|a tl IH]; intros H; simpl; [reflexivity|].
  rewrite lit_true_pos by (apply H; left; reflexivity).
  rewrite IH by (intros l Hl; apply H; right; exact Hl). reflexivity.
Qed.

Lemma def_cl_ok b r lits : 0 < r -> (forall l, In l lits -> 0 < l) ->
  (models b (def_cl r lits) <-> b r = existsb b lits).
Proof.
  intros Hr Hpos. unfold def_cl. rewrite models_cons, models_map.
  assert (E1 : clause_true b (- r :: lits) = negb (b r) || existsb b lits).
  { unfold clause_true. simpl. rewrite lit_true_neg by exact Hr. rewrite ct_poslist by exact Hpos. reflexivity. }
  rewrite E1. split.
  - intros [H1 H2]. destruct (b r) eqn:Br; destruct (existsb b lits) eqn:Ex; try reflexivity.
    + simpl in H1. discriminate.
    + apply existsb_exists in Ex. destruct Ex as [l [Hl Hbl]]. specialize (H2 l Hl).
      rewrite ct_np in H2 by (try exact Hr; apply Hpos; exact Hl). rewrite Hbl, Br in H2. discriminate.
  - intros E. split.
    + rewrite E. destruct (existsb b lits); reflexivity.
    + intros l Hl. rewrite ct_np by (try exact Hr; apply Hpos; exact Hl).
      destruct (b l) eqn:Bl; [|reflexivity]. simpl. rewrite E. apply existsb_exists. exists l. auto.
Qed.

Lemma def_cl_below n r lits : 0 < r < n -> (forall l, In l lits -> 0 < l < n) -> cnf_below n (def_cl r lits).
Proof.
  intros Hr Hl c [<-|Hc].
  - intros x [<-|Hx]; [lia|]. specialize (Hl x Hx). lia.
  - apply in_map_iff in Hc. destruct Hc as [l [<- Hin]]. specialize (Hl l Hin).
    intros x [<-|[<-|[]]]; lia.
Qed.

Lemma existsb_agree n (b b' : asg) ls : (forall l, In l ls -> l < n) -> agree_below n b b' ->
  existsb b' ls = existsb b ls.
Proof.
  intros H Ha. induction ls as [|a tl IH]; simpl; [reflexivity|].
  rewrite (Ha a) by (apply H; left; reflexivity).
  rewrite IH by (intros l Hl; apply H; right; exact Hl). reflexivity.
Qed.

(* --- counter *)
Lemma cum_tasks_counter t ts : forall cnt, cnt <= snd (cum_tasks cnt t ts).
Proof.
  induction ts as [|[[v d] dem] tl IH]; intros cnt; [simpl; lia|].
  rewrite cum_tasks_cons. destruct (wl v d t) as [|l0 more]; [apply IH|].
  destruct (dem <=? 0); [apply IH|]. destruct more as [|l1 more'].
  - specialize (IH cnt). destruct (cum_tasks cnt t tl) as [[cl act] c2]. exact IH.
  - specialize (IH (cnt + 1)). destruct (cum_tasks (cnt + 1) t tl) as [[cl act] c2]. simpl in *. lia.
Qed.

(* --- the active list: positive literals, positive demands *)
Lemma cum_tasks_pos t ts : forall cnt, 0 < cnt -> (forall p, In p ts -> 0 < vbase (fst (fst p))) ->
  forall q, In q (snd (fst (cum_tasks cnt t ts))) -> 0 < fst q /\ 0 < snd q.
Proof.
  induction ts as [|[[v d] dem] tl IH]; intros cnt Hc Hb q Hq; [destruct Hq|].
  assert (Hb' : forall p, In p tl -> 0 < vbase (fst (fst p))) by (intros p Hp; apply Hb; right; exact Hp).
  pose proof (Hb _ (or_introl eq_refl)) as Hv. simpl in Hv.
  rewrite cum_tasks_cons in Hq. destruct (wl v d t) as [|l0 more] eqn:W; [exact (IH cnt Hc Hb' q Hq)|].
  destruct (dem <=? 0) eqn:D; [exact (IH cnt Hc Hb' q Hq)|]. apply Z.leb_gt in D.
  destruct more as [|l1 more'].
  - specialize (IH cnt Hc Hb' q). destruct (cum_tasks cnt t tl) as [[cl act] c2]. simpl in *.
    destruct Hq as [<-|Hq]; [|exact (IH Hq)]. simpl. split; [|exact D].
    apply (wl_pos v d t Hv). rewrite W. left. reflexivity.
  - assert (Hc1 : 0 < cnt + 1) by lia.
    specialize (IH (cnt + 1) Hc1 Hb' q). destruct (cum_tasks (cnt + 1) t tl) as [[cl act] c2]. simpl in *.
    destruct Hq as [<-|Hq]; [|exact (IH Hq)]. simpl. split; [exact Hc|exact D].
Qed.

(* --- framing *)
Lemma cum_tasks_below t ts : forall cnt, 0 < cnt ->
  (forall p, In p ts -> 0 < vbase (fst (fst p)) /\ var_below cnt (fst (fst p))) ->
  cnf_below (snd (cum_tasks cnt t ts)) (fst (fst (cum_tasks cnt t ts)))
  /\ forall q, In q (snd (fst (cum_tasks cnt t ts))) -> fst q < snd (cum_tasks cnt t ts).
Proof.
  induction ts as [|[[v d] dem] tl IH]; intros cnt Hc Hb.
  - simpl. split; [apply cnf_below_nil|intros q []].
  - assert (Hb' : forall p, In p tl -> 0 < vbase (fst (fst p)) /\ var_below cnt (fst (fst p)))
      by (intros p Hp; apply Hb; right; exact Hp).
    destruct (Hb _ (or_introl eq_refl)) as [Hv Hvb]. simpl in Hv, Hvb.
    rewrite cum_tasks_cons. destruct (wl v d t) as [|l0 more] eqn:W; [exact (IH cnt Hc Hb')|].
    destruct (dem <=? 0) eqn:D; [exact (IH cnt Hc Hb')|].
    destruct more as [|l1 more'].
    + pose proof (cum_tasks_counter t tl cnt) as Hcn. specialize (IH cnt Hc Hb').
      destruct (cum_tasks cnt t tl) as [[cl act] c2]. simpl in *. destruct IH as [IH1 IH2].
      split; [exact IH1|]. intros q [<-|Hq]; [|exact (IH2 q Hq)]. simpl.
      assert (Hl : 0 < l0 < cnt) by (apply (wl_below cnt v d t Hv Hvb); rewrite W; left; reflexivity). lia.
    + pose proof (cum_tasks_counter t tl (cnt + 1)) as Hcn.
      assert (Hc1 : 0 < cnt + 1) by lia.
      assert (Hb1 : forall p, In p tl -> 0 < vbase (fst (fst p)) /\ var_below (cnt + 1) (fst (fst p))).
      { intros p Hp. destruct (Hb' p Hp) as [H1 H2]. split; [exact H1|].
        apply (cu_var_below_mono cnt); [lia|exact H2]. }
      specialize (IH (cnt + 1) Hc1 Hb1).
      destruct (cum_tasks (cnt + 1) t tl) as [[cl act] c2]. cbn [fst snd] in *.
      destruct IH as [IH1 IH2]. split.
      * apply cnf_below_app. split; [|exact IH1]. apply def_cl_below; [lia|].
        intros l Hl. rewrite <- W in Hl. pose proof (wl_below cnt v d t Hv Hvb l Hl). lia.
      * intros q [<-|Hq]; [simpl; lia|exact (IH2 q Hq)].
Qed.

(* ================================================================== all time points: counter, framing *)
Lemma cum_times_cons cnt t tl ts cap :
  cum_times cnt (t :: tl) ts cap =
  let '(cl, act, c1) := cum_tasks cnt t ts in
  let '(cl2, c2) := cum_times c1 tl ts cap in (cl ++ enc_capacity act cap ++ cl2, c2).
Proof. reflexivity. Qed.

Lemma enc_cumulative_cons n v d dem tl cap :
  enc_cumulative n ((v, d, dem) :: tl) cap =
  cum_times n (zrange (fold_right (fun p a => Z.min (vlb (fst (fst p))) a) (vlb v) tl)
                      (fold_right (fun p a => Z.max (vub (fst (fst p)) + snd (fst p)) a) (vub v + d) tl - 1))
            ((v, d, dem) :: tl) cap.
Proof. reflexivity. Qed.

Lemma cum_times_counter ts cap times : forall cnt, cnt <= snd (cum_times cnt times ts cap).
Proof.
  induction times as [|t tl IH]; intros cnt; [simpl; lia|].
  rewrite cum_times_cons. pose proof (cum_tasks_counter t ts cnt) as H1.
  destruct (cum_tasks cnt t ts) as [[cl act] c1]. specialize (IH c1).
  destruct (cum_times c1 tl ts cap) as [cl2 c2]. cbn [fst snd] in *. lia.
Qed.

Lemma enc_cumulative_counter n ts cap : n <= snd (enc_cumulative n ts cap).
Proof.
  destruct ts as [|[[v d] dem] tl]; [simpl; lia|].
  rewrite enc_cumulative_cons. apply cum_times_counter.
Qed.

Lemma tasks_below_mono n m (ts : list (var * Z * Z)) : n <= m ->
  (forall p, In p ts -> 0 < vbase (fst (fst p)) /\ var_below n (fst (fst p))) ->
  forall p, In p ts -> 0 < vbase (fst (fst p)) /\ var_below m (fst (fst p)).
Proof.
  intros Hnm H p Hp. destruct (H p Hp) as [H1 H2]. split; [exact H1|].
  apply (cu_var_below_mono n); assumption.
Qed.

Lemma cum_times_below ts cap times : forall cnt, 0 < cnt ->
  (forall p, In p ts -> 0 < vbase (fst (fst p)) /\ var_below cnt (fst (fst p))) ->
  cnf_below (snd (cum_times cnt times ts cap)) (fst (cum_times cnt times ts cap)).
Proof.
  induction times as [|t tl IH]; intros cnt Hc Hb; [simpl; apply cnf_below_nil|].
  rewrite cum_times_cons.
  pose proof (cum_tasks_counter t ts cnt) as H1.
  destruct (cum_tasks_below t ts cnt Hc Hb) as [H2 H3].
  pose proof (cum_tasks_pos t ts cnt Hc (fun p Hp => proj1 (Hb p Hp))) as H4.
  destruct (cum_tasks cnt t ts) as [[cl act] c1]. cbn [fst snd] in *.
  pose proof (cum_times_counter ts cap tl c1) as H5.
  assert (Hc1 : 0 < c1) by lia.
  specialize (IH c1 Hc1 (tasks_below_mono cnt c1 ts H1 Hb)).
  destruct (cum_times c1 tl ts cap) as [cl2 c2]. cbn [fst snd] in *.
  apply cnf_below_app. split; [apply (cnf_below_mono c1); assumption|].
  apply cnf_below_app. split; [|exact IH].
  apply (cnf_below_mono c1); [exact H5|]. apply enc_capacity_below.
  intros p Hp. specialize (H3 p Hp). destruct (H4 p Hp). unfold lit in *. lia.
Qed.

Lemma enc_cumulative_below n ts cap : 0 < n ->
  (forall p, In p ts -> 0 < vbase (fst (fst p)) /\ var_below n (fst (fst p))) ->
  cnf_below (snd (enc_cumulative n ts cap)) (fst (enc_cumulative n ts cap)).
Proof.
  intros Hn Hb. destruct ts as [|[[v d] dem] tl]; [simpl; apply cnf_below_nil|].
  rewrite enc_cumulative_cons. apply cum_times_below; assumption.
Qed.

(* ================================================================== soundness *)
Lemma cum_tasks_sound b t ts : forall cnt, 0 < cnt ->
  (forall p, In p ts -> VOK b (fst (fst p))) -> (forall p, In p ts -> 0 <= snd p) ->
  models b (fst (fst (cum_tasks cnt t ts))) ->
  tsum b (snd (fst (cum_tasks cnt t ts))) = load (cvals b ts) t.
Proof.
  induction ts as [|[[v d] dem] tl IH]; intros cnt Hc Hok Hdem Hm; [reflexivity|].
  assert (Hok' : forall p, In p tl -> VOK b (fst (fst p))) by (intros p Hp; apply Hok; right; exact Hp).
  assert (Hdem' : forall p, In p tl -> 0 <= snd p) by (intros p Hp; apply Hdem; right; exact Hp).
  pose proof (Hok _ (or_introl eq_refl)) as Hv. simpl in Hv.
  pose proof (Hdem _ (or_introl eq_refl)) as Hd0. simpl in Hd0.
  pose proof (wl_true b v d dem t Hv) as Hrun.
  change (cvals b ((v, d, dem) :: tl)) with ((bv b v, d, dem) :: cvals b tl).
  rewrite load_cons. cbn [snd].
  rewrite cum_tasks_cons. rewrite cum_tasks_cons in Hm.
  destruct (wl v d t) as [|l0 more] eqn:W.
  - simpl in Hrun. rewrite <- Hrun, (IH cnt Hc Hok' Hdem' Hm). reflexivity.
  - destruct (dem <=? 0) eqn:D.
    + apply Z.leb_le in D. rewrite (IH cnt Hc Hok' Hdem' Hm).
      destruct (running t (bv b v, d, dem)); lia.
    + destruct more as [|l1 more'].
      * specialize (IH cnt Hc Hok' Hdem'). destruct (cum_tasks cnt t tl) as [[cl act] c2].
        cbn [fst snd tsum] in *. rewrite (IH Hm). simpl in Hrun. rewrite orb_false_r in Hrun.
        rewrite Hrun. reflexivity.
      * assert (Hc1 : 0 < cnt + 1) by lia. specialize (IH (cnt + 1) Hc1 Hok' Hdem').
        destruct (cum_tasks (cnt + 1) t tl) as [[cl act] c2]. cbn [fst snd tsum] in *.
        apply models_app in Hm. destruct Hm as [Hm1 Hm2].
        apply def_cl_ok in Hm1; [|exact Hc|rewrite <- W; apply wl_pos; apply Hv].
        rewrite (IH Hm2), Hm1, Hrun. reflexivity.
Qed.

Lemma cum_times_sound b ts cap times : forall cnt, 0 < cnt ->
  (forall p, In p ts -> VOK b (fst (fst p))) -> (forall p, In p ts -> 0 <= snd p) -> 0 <= cap ->
  models b (fst (cum_times cnt times ts cap)) -> forall t, In t times -> load (cvals b ts) t <= cap.
Proof.
  induction times as [|t0 tl IH]; intros cnt Hc Hok Hdem Hcap Hm t Ht; [destruct Ht|].
  rewrite cum_times_cons in Hm.
  pose proof (cum_tasks_counter t0 ts cnt) as H1.
  pose proof (cum_tasks_sound b t0 ts cnt Hc Hok Hdem) as H2.
  pose proof (cum_tasks_pos t0 ts cnt Hc (fun p Hp => proj1 (Hok p Hp))) as H4.
  destruct (cum_tasks cnt t0 ts) as [[cl act] c1]. cbn [fst snd] in *.
  assert (Hc1 : 0 < c1) by lia. specialize (IH c1 Hc1 Hok Hdem Hcap).
  destruct (cum_times c1 tl ts cap) as [cl2 c2]. cbn [fst snd] in *.
  apply models_app in Hm. destruct Hm as [Hm1 Hm]. apply models_app in Hm. destruct Hm as [Hm2 Hm3].
  destruct Ht as [<-|Ht]; [|exact (IH Hm3 t Ht)].
  rewrite <- (H2 Hm1). apply enc_capacity_sound; [|exact Hcap|exact Hm2].
  intros p Hp. apply H4. exact Hp.
Qed.

Lemma cu_min_le (tl : list (var * Z * Z)) d0 :
  fold_right (fun p a => Z.min (vlb (fst (fst p))) a) d0 tl <= d0 /\
  forall p, In p tl -> fold_right (fun p a => Z.min (vlb (fst (fst p))) a) d0 tl <= vlb (fst (fst p)).
Proof.
  induction tl as [|q tl [IH1 IH2]]; simpl.
  - split; [lia|intros p []].
  - split; [lia|]. intros p [<-|Hp]; [lia|]. specialize (IH2 p Hp). lia.
Qed.

Lemma cu_max_ge (tl : list (var * Z * Z)) d0 :
  d0 <= fold_right (fun p a => Z.max (vub (fst (fst p)) + snd (fst p)) a) d0 tl /\
  forall p, In p tl -> vub (fst (fst p)) + snd (fst p)
                       <= fold_right (fun p a => Z.max (vub (fst (fst p)) + snd (fst p)) a) d0 tl.
Proof.
  induction tl as [|q tl [IH1 IH2]]; simpl.
  - split; [lia|intros p []].
  - split; [lia|]. intros p [<-|Hp]; [lia|]. specialize (IH2 p Hp). lia.
Qed.

(* outside lo..hi no task runs *)
Lemma cum_range_idle b ts lo hi t : (forall p, In p ts -> EO b (fst (fst p))) ->
  (forall p, In p ts -> lo <= vlb (fst (fst p)) /\ vub (fst (fst p)) + snd (fst p) - 1 <= hi) ->
  ~ (lo <= t <= hi) -> load (cvals b ts) t = 0.
Proof.
  intros He Hr Ht. apply load_idle. intros a Ha. unfold cvals in Ha. apply in_map_iff in Ha.
  destruct Ha as [p [<- Hp]]. pose proof (EO_bv_dom b _ (He p Hp)) as Hd. destruct (Hr p Hp) as [H1 H2].
  unfold running. cbn [fst snd].
  destruct (bv b (fst (fst p)) <=? t) eqn:E1; [|reflexivity]. apply Z.leb_le in E1.
  destruct (t <? bv b (fst (fst p)) + snd (fst p)) eqn:E2; [|reflexivity]. apply Z.ltb_lt in E2.
  exfalso. apply Ht. lia.
Qed.

Lemma enc_cumulative_sound b n ts cap : 0 < n -> (forall p, In p ts -> VOK b (fst (fst p))) ->
  (forall p, In p ts -> 0 <= snd p) -> 0 <= cap ->
  models b (fst (enc_cumulative n ts cap)) -> cumulative_vals (cvals b ts) cap.
Proof.
  intros Hn Hok Hdem Hcap Hm t. destruct ts as [|[[v d] dem] tl]; [simpl; exact Hcap|].
  rewrite enc_cumulative_cons in Hm.
  destruct (cu_min_le tl (vlb v)) as [Hlo1 Hlo2]. destruct (cu_max_ge tl (vub v + d)) as [Hhi1 Hhi2].
  set (lo := fold_right (fun p a => Z.min (vlb (fst (fst p))) a) (vlb v) tl) in *.
  set (hi := fold_right (fun p a => Z.max (vub (fst (fst p)) + snd (fst p)) a) (vub v + d) tl) in *.
  destruct (Z_le_dec lo t) as [L1|L1]; [destruct (Z_le_dec t (hi - 1)) as [L2|L2]|].
  - apply (cum_times_sound b _ cap (zrange lo (hi - 1)) n Hn Hok Hdem Hcap Hm). apply zrange_In. lia.
  - rewrite (cum_range_idle b _ lo (hi - 1) t); [exact Hcap| | |lia].
    + intros p Hp. apply (Hok p Hp).
    + intros p [<-|Hp]; cbn [fst snd]; [lia|]. specialize (Hlo2 p Hp). specialize (Hhi2 p Hp). lia.
  - rewrite (cum_range_idle b _ lo (hi - 1) t); [exact Hcap| | |lia].
    + intros p Hp. apply (Hok p Hp).
    + intros p [<-|Hp]; cbn [fst snd]; [lia|]. specialize (Hlo2 p Hp). specialize (Hhi2 p Hp). lia.
Qed.

(* ================================================================== completeness *)
Lemma cvals_agree n b b' ts : agree_below n b b' ->
  (forall p, In p ts -> VOK b (fst (fst p)) /\ var_below n (fst (fst p))) -> cvals b' ts = cvals b ts.
Proof.
  intros Ha H. unfold cvals. apply map_ext_in. intros p Hp. destruct (H p Hp) as [[Hb He] Hv].
  rewrite (bv_agree n b b' _ Hb Hv Ha He). reflexivity.
Qed.

(* each fresh literal is set to "the task runs at t" *)
Lemma cum_tasks_complete t ts : forall b cnt, 0 < cnt ->
  (forall p, In p ts -> VOK b (fst (fst p)) /\ var_below cnt (fst (fst p))) ->
  exists b', agree_below cnt b b' /\ models b' (fst (fst (cum_tasks cnt t ts))).
Proof.
  induction ts as [|[[v d] dem] tl IH]; intros b cnt Hc Hok.
  - exists b. split; [apply agree_below_refl|simpl; apply models_nil; exact I].
  - assert (Hok' : forall p, In p tl -> VOK b (fst (fst p)) /\ var_below cnt (fst (fst p)))
      by (intros p Hp; apply Hok; right; exact Hp).
    destruct (Hok _ (or_introl eq_refl)) as [Hv Hvb]. simpl in Hv, Hvb.
    rewrite cum_tasks_cons. destruct (wl v d t) as [|l0 more] eqn:W; [exact (IH b cnt Hc Hok')|].
    destruct (dem <=? 0); [exact (IH b cnt Hc Hok')|].
    destruct more as [|l1 more'].
    + destruct (IH b cnt Hc Hok') as [b' [Ha Hm]]. exists b'. split; [exact Ha|].
      destruct (cum_tasks cnt t tl) as [[cl act] c2]. exact Hm.
    + set (b1 := fun l : Z => if l =? cnt then existsb b (wl v d t) else b l).
      assert (Ha1 : agree_below cnt b b1).
      { intros l Hl. unfold b1. destruct (l =? cnt) eqn:E; [apply Z.eqb_eq in E; lia|reflexivity]. }
      assert (Hok1 : forall p, In p tl -> VOK b1 (fst (fst p)) /\ var_below (cnt + 1) (fst (fst p))).
      { intros p Hp. destruct (Hok' p Hp) as [H1 H2]. split.
        - exact (VOK_agree cnt b b1 _ H2 Ha1 H1).
        - apply (cu_var_below_mono cnt); [lia|exact H2]. }
      assert (Hc1 : 0 < cnt + 1) by lia.
      destruct (IH b1 (cnt + 1) Hc1 Hok1) as [b' [Ha Hm]].
      assert (Hab : agree_below cnt b b').
      { apply (agree_below_trans cnt (cnt + 1) b b1 b'); [lia|exact Ha1|exact Ha]. }
      exists b'. split; [exact Hab|].
      destruct (cum_tasks (cnt + 1) t tl) as [[cl act] c2]. cbn [fst snd] in *.
      apply models_app. split; [|exact Hm].
      rewrite <- W. apply def_cl_ok; [exact Hc|apply wl_pos; apply Hv|].
      rewrite (Ha cnt) by lia. unfold b1. rewrite Z.eqb_refl.
      symmetry. apply (existsb_agree cnt); [|exact Hab].
      intros l Hl. destruct (wl_below cnt v d t (proj1 Hv) Hvb l Hl). lia.
Qed.

Lemma cum_times_complete ts cap times : forall b cnt, 0 < cnt ->
  (forall p, In p ts -> VOK b (fst (fst p)) /\ var_below cnt (fst (fst p))) ->
  (forall p, In p ts -> 0 <= snd p) ->
  cumulative_vals (cvals b ts) cap ->
  exists b', agree_below cnt b b' /\ models b' (fst (cum_times cnt times ts cap)).
Proof.
  induction times as [|t tl IH]; intros b cnt Hc Hok Hdem Hcum.
  - exists b. split; [apply agree_below_refl|simpl; apply models_nil; exact I].
  - destruct (cum_tasks_complete t ts b cnt Hc Hok) as [b1 [Ha1 Hm1]].
    assert (Hbel : forall p, In p ts -> 0 < vbase (fst (fst p)) /\ var_below cnt (fst (fst p))).
    { intros p Hp. destruct (Hok p Hp) as [[H1 _] H2]. auto. }
    assert (Hok1 : forall p, In p ts -> VOK b1 (fst (fst p))).
    { intros p Hp. destruct (Hok p Hp) as [H1 H2]. exact (VOK_agree cnt b b1 _ H2 Ha1 H1). }
    pose proof (cum_tasks_counter t ts cnt) as H1.
    destruct (cum_tasks_below t ts cnt Hc Hbel) as [H2 H3].
    pose proof (cum_tasks_pos t ts cnt Hc (fun p Hp => proj1 (Hbel p Hp))) as H4.
    pose proof (cum_tasks_sound b1 t ts cnt Hc Hok1 Hdem Hm1) as H5.
    rewrite (cvals_agree cnt b b1 ts Ha1 Hok) in H5.
    rewrite cum_times_cons.
    destruct (cum_tasks cnt t ts) as [[cl act] c1]. cbn [fst snd] in *.
    assert (Hm2 : models b1 (enc_capacity act cap)).
    { apply enc_capacity_complete; [|rewrite H5; apply Hcum].
      intros p Hp. destruct (H4 p Hp). unfold lit in *. lia. }
    assert (Hok2 : forall p, In p ts -> VOK b1 (fst (fst p)) /\ var_below c1 (fst (fst p))).
    { intros p Hp. split; [apply Hok1; exact Hp|].
      apply (cu_var_below_mono cnt); [exact H1|apply Hok; exact Hp]. }
    assert (Hcum1 : cumulative_vals (cvals b1 ts) cap)
      by (rewrite (cvals_agree cnt b b1 ts Ha1 Hok); exact Hcum).
    assert (Hc1 : 0 < c1) by lia.
    destruct (IH b1 c1 Hc1 Hok2 Hdem Hcum1) as [b2 [Ha2 Hm3]].
    exists b2. split; [apply (agree_below_trans cnt c1 b b1 b2); assumption|].
    destruct (cum_times c1 tl ts cap) as [cl2 c2]. cbn [fst snd] in *.
    apply models_app. split; [apply (models_agree c1 b1 b2); assumption|].
    apply models_app. split; [|exact Hm3].
    apply (models_agree c1 b1 b2); [|exact Ha2|exact Hm2].
    apply enc_capacity_below. intros p Hp. specialize (H3 p Hp). destruct (H4 p Hp).
    unfold lit in *. lia.
Qed.

Lemma enc_cumulative_complete b n ts cap : 0 < n ->
  (forall p, In p ts -> VOK b (fst (fst p)) /\ var_below n (fst (fst p))) ->
  (forall p, In p ts -> 0 <= snd p) -> 0 <= cap ->
  cumulative_vals (cvals b ts) cap ->
  exists b', agree_below n b b' /\ models b' (fst (enc_cumulative n ts cap)).
Proof.
  intros Hn Hok Hdem Hcap Hcum. destruct ts as [|[[v d] dem] tl].
  - exists b. split; [apply agree_below_refl|simpl; apply models_nil; exact I].
  - rewrite enc_cumulative_cons. apply cum_times_complete; assumption.
Qed.
