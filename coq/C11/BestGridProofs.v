(* C11 part B - the built-in grid heuristics are consistent on the exact grid graph (terrain costs >= 1):
   manhattan for 4 directions, octile and chebyshev for 4 and 8 directions; hence astar_grid (weight 1) over
   Z[sqrt 2] returns the shortest distance. *)
From Coq Require Import List ZArith Bool Arith Lia.
From SV Require Import C11.BestFirst C11.BestGrid C11.BestSpec C11.BestGraph C11.BestOrder C11.BestHyps C11.BestZr2
  C11.BestProofs1 C11.BestProofs4 C11.BestProofs5 C11.BestProofsInst.
Import ListNotations.
Open Scope Z_scope.

Lemma lookup_In_Z : forall (k : Z) (l : list (Z * Z)) v, lookup Z.eqb k l = Some v -> In (k, v) l.
Proof.
  intros k l v. induction l as [|[k' v'] l IH]; simpl; [discriminate|].
  destruct (k =? k') eqn:E.
  - apply Z.eqb_eq in E. intros H. inversion H; subst. left. reflexivity.
  - intros H. right. apply IH. assumption.
Qed.

Lemma grid_edge_inv : forall g directions blocked cost_map r c v w,
  costs_ge1 cost_map = true ->
  In (v, w) (zr_grid_nbrs g directions blocked cost_map (r, c)) ->
  exists dr dc base, In (dr, dc) (dirs_of directions) /\ v = (r + dr, c + dc) /\ 1 <= base /\
    w = (if negb (dr =? 0) && negb (dc =? 0) then (0, base) else (base, 0)).
Proof.
  intros g directions blocked cost_map r c v w Hc Hin. unfold zr_grid_nbrs, grid_nbrs in Hin.
  apply in_flat_map in Hin. destruct Hin as [[dr dc] [Hd Hin]].
  destruct ((0 <=? r + dr) && (r + dr <? grid_rows g) && (0 <=? c + dc) && (c + dc <? grid_cols g)); [|destruct Hin].
  destruct (zmem (grid_at g (r + dr) (c + dc)) blocked); [destruct Hin|].
  destruct Hin as [E|[]]. inversion E; subst v w. clear E.
  destruct (lookup Z.eqb (grid_at g (r + dr) (c + dc)) cost_map) as [k|] eqn:El.
  - exists dr, dc, k. split; [assumption|]. split; [reflexivity|]. split.
    + apply lookup_In_Z in El. unfold costs_ge1 in Hc. rewrite forallb_forall in Hc. specialize (Hc _ El).
      simpl in Hc. apply Z.leb_le. assumption.
    + destruct (negb (dr =? 0) && negb (dc =? 0)); unfold zr_mul_sqrt2, zr_of_Z; simpl; reflexivity.
  - exists dr, dc, 1. split; [assumption|]. split; [reflexivity|]. split; [lia|].
    destruct (negb (dr =? 0) && negb (dc =? 0)); unfold zr_mul_sqrt2; simpl; reflexivity.
Qed.

Ltac red_w :=
  match goal with
  | |- context [negb (?a =? 0) && negb (?b =? 0)] =>
      let v := eval vm_compute in (negb (a =? 0) && negb (b =? 0)) in
      change (negb (a =? 0) && negb (b =? 0)) with v
  end; cbv iota; unfold zr_add; cbn [fst snd].

Ltac dirs_cases H :=
  repeat (destruct H as [H|H]; [inversion H; subst; clear H|]); try destruct H.

Lemma grid_nonneg : forall g directions blocked cost_map,
  costs_ge1 cost_map = true ->
  forall u v w, In (v, w) (zr_grid_nbrs g directions blocked cost_map u) -> cle zr_ltb zr_zero w.
Proof.
  intros g directions blocked cost_map Hc [r c] v w Hin.
  destruct (grid_edge_inv _ _ _ _ _ _ _ _ Hc Hin) as [dr [dc [base [Hd [Hv [Hb Hw]]]]]]. subst w.
  apply zr_le_suff. left. destruct (negb (dr =? 0) && negb (dc =? 0)); simpl; lia.
Qed.

Lemma grid_consistent : forall g directions blocked cost_map goal hn x,
  costs_ge1 cost_map = true -> heur_ok directions hn = true ->
  forall u v w, In (v, w) (zr_grid_nbrs g directions blocked cost_map u) ->
    zr_heur hn goal u = Some x ->
    exists y, zr_heur hn goal v = Some y /\ cle zr_ltb x (zr_add w y).
Proof.
  intros g directions blocked cost_map [gr gc] hn x Hc Hok [r c] v w Hin Hx.
  destruct (grid_edge_inv _ _ _ _ _ _ _ _ Hc Hin) as [dr [dc [base [Hd [Hv [Hb Hw]]]]]]. subst v w.
  unfold dirs_of in Hd. unfold heur_ok in Hok.
  destruct hn; try discriminate; unfold zr_heur in *; simpl fst in *; simpl snd in *;
    inversion Hx; subst x; clear Hx; eexists; (split; [reflexivity|]).
  - (* manhattan, 4 directions *)
    destruct (directions =? 8); [discriminate|].
    unfold DIRS_4, DIRS_8 in Hd. simpl in Hd. dirs_cases Hd; apply zr_le_suff; left; red_w; lia.
  - (* octile *)
    destruct (directions =? 8); unfold DIRS_4, DIRS_8 in Hd; simpl in Hd; dirs_cases Hd;
      apply zr_le_suff; red_w; lia.
  - (* chebyshev *)
    destruct (directions =? 8); unfold DIRS_4, DIRS_8 in Hd; simpl in Hd; dirs_cases Hd;
      apply zr_le_suff; red_w; lia.
Qed.

Lemma zr_scale_1 : forall x, zr_scale 1 x = x.
Proof. intros [a b]. unfold zr_scale. cbn [fst snd]. f_equal; lia. Qed.

Theorem astar_grid_optimal : forall g start goal directions h blocked cost_map max_iter r,
  costs_ge1 cost_map = true -> heur_ok directions (resolve_h directions h) = true ->
  astar_grid_zr g start goal directions h blocked cost_map 1 max_iter = Some r ->
  opt_res zr_zero zr_add zr_ltb (zr_grid_nbrs g directions blocked cost_map) (cell_eqb goal) None start r.
Proof.
  intros g start goal directions h blocked cost_map max_iter r Hc Hok H.
  unfold astar_grid_zr in H.
  set (hn := resolve_h directions h) in *.
  assert (Hsome : forall u, exists x, zr_heur hn goal u = Some x).
  { intros u. unfold heur_ok in Hok. destruct hn; try discriminate; eexists; reflexivity. }
  assert (G : astar_c cell_eqb zr_zero zr_add zr_ltb
                (fun v => match zr_heur hn goal v with Some x => zr_scale 1 x | None => zr_zero end)
                OPTIMAL (zr_grid_nbrs g directions blocked cost_map) (cell_eqb goal) max_iter None (grid_fuel g) start = Some r).
  { unfold heur_ok in Hok. destruct hn; try discriminate; exact H. }
  clear H.
  set (wh := fun v => match zr_heur hn goal v with Some x => zr_scale 1 x | None => zr_zero end) in *.
  assert (Hcons : forall u v w, In (v, w) (zr_grid_nbrs g directions blocked cost_map u) ->
                    cle zr_ltb (wh u) (zr_add w (wh v))).
  { intros u v w Hin. destruct (Hsome u) as [x Hx].
    destruct (grid_consistent g directions blocked cost_map goal hn x Hc Hok u v w Hin Hx) as [y [Hy Hle]].
    unfold wh. rewrite Hx, Hy, !zr_scale_1. assumption. }
  assert (Hgoal : forall t, cell_eqb goal t = true -> wh t = zr_zero).
  { intros t Ht. apply cell_eqb_spec in Ht. subst t. destruct (Hsome goal) as [x Hx]. unfold wh. rewrite Hx, zr_scale_1.
    unfold heur_ok in Hok. destruct goal as [gr gc]. unfold zr_heur in Hx. simpl fst in Hx. simpl snd in Hx.
    destruct hn; try discriminate; inversion Hx; unfold zr_zero; f_equal; lia. }
  assert (Hne : OPTIMAL <> INFEASIBLE) by discriminate.
  exact (astar_c_optimal cell_eqb cell_eqb_spec zr_zero zr_add zr_ltb zr2_ordered_costs
           (zr_grid_nbrs g directions blocked cost_map) (cell_eqb goal) max_iter None start
           (grid_nonneg g directions blocked cost_map Hc) wh Hcons Hgoal OPTIMAL (grid_fuel g) r Hne G).
Qed.
