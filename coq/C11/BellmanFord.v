(* C11 model of solvor/bellman_ford.py: bellman_ford() (pure Python back-end) and _reconstruct_indexed().
   Definitions only.  dist list of floats -> list (option Z) (None = inf; the harness feeds integer
   weights, the code only adds and compares: exact below 2^53).  parent list with -1 -> list (option nat).
   Inputs the code rejects with ValueError (n_nodes <= 0, start / target / edge endpoint out of range) are
   mapped to Error; node indices are nat (negative indices are only sent in the harness' malformed stream). *)
From Coq Require Import List ZArith Bool Arith.
From SV Require Import C11.Paths.
Import ListNotations.
Open Scope Z_scope.

Module BF.

Definition dvec := list (option Z).
Definition pvec := list (option nat).

Inductive result :=
| Error                              (* ValueError from the input checks *)
| Unbounded                          (* None, -inf, UNBOUNDED *)
| Infeasible                         (* target given, dist[target] = inf *)
| Path (p : list nat) (d : Z)        (* target given: path, dist[target] *)
| Dists (d : dvec)                   (* no target: {i: dist[i] if dist[i] < inf}; objective 0 *)
| Hang.                              (* _reconstruct_indexed would not terminate *)

Fixpoint set_nth {A} (i : nat) (x : A) (l : list A) : list A :=
  match l, i with
  | [], _ => []
  | _ :: t, O => x :: t
  | h :: t, S k => h :: set_nth k x t
  end.

Definition getd (d : dvec) (i : nat) : option Z := nth i d None.

(* a < b where b may be inf *)
Definition lt_inf (a : Z) (b : option Z) : bool :=
  match b with None => true | Some y => a <? y end.

(* dist[u] != inf and dist[u] + w < dist[v] *)
Definition relaxable (d : dvec) (e : nat * nat * Z) : bool :=
  let '(u, v, w) := e in
  match getd d u with
  | None => false
  | Some du => lt_inf (du + w) (getd d v)
  end.

Definition relax (st : dvec * pvec * bool) (e : nat * nat * Z) : dvec * pvec * bool :=
  let '(d, p, upd) := st in
  let '(u, v, w) := e in
  match getd d u with
  | None => st
  | Some du => if lt_inf (du + w) (getd d v)
               then (set_nth v (Some (du + w)) d, set_nth v (Some u) p, true)
               else st
  end.

(* one pass over the edge list, in order, in place *)
Definition round (edges : wgraph) (d : dvec) (p : pvec) : dvec * pvec * bool :=
  fold_left relax edges (d, p, false).

(* for _ in range(n_nodes - 1): ...; if not updated: break *)
Fixpoint rounds (k : nat) (edges : wgraph) (d : dvec) (p : pvec) : dvec * pvec :=
  match k with
  | O => (d, p)
  | S k' => let '(d', p', upd) := round edges d p in
            if upd then rounds k' edges d' p' else (d', p')
  end.

Definition detect (edges : wgraph) (d : dvec) : bool := existsb (relaxable d) edges.

(* path = [target]; while parent[path[-1]] != -1: path.append(parent[path[-1]]); path.reverse() *)
Fixpoint recon (fuel : nat) (p : pvec) (cur : nat) (acc : list nat) : option (list nat) :=
  match fuel with
  | O => None
  | S f => match nth cur p None with
           | None => Some acc
           | Some u => recon f p u (u :: acc)
           end
  end.

(* a parent chain of more than n nodes repeats a node, and then the Python loop never ends *)
Definition reconstruct_indexed (p : pvec) (target : nat) : option (list nat) :=
  recon (S (length p)) p target [target].

Definition edge_ok (n : nat) (e : nat * nat * Z) : bool :=
  let '(u, v, _) := e in Nat.ltb u n && Nat.ltb v n.

Definition valid_input (start : nat) (edges : wgraph) (n : nat) (target : option nat) : bool :=
  Nat.ltb 0 n && Nat.ltb start n && forallb (edge_ok n) edges &&
  match target with None => true | Some t => Nat.ltb t n end.

Definition init_dist (n start : nat) : dvec := set_nth start (Some 0) (repeat None n).
Definition init_parent (n : nat) : pvec := repeat None n.

Definition final_state (start : nat) (edges : wgraph) (n : nat) : dvec * pvec :=
  rounds (n - 1) edges (init_dist n start) (init_parent n).

Definition bellman_ford (start : nat) (edges : wgraph) (n : nat) (target : option nat) : result :=
  if negb (valid_input start edges n target) then Error else
  let '(d, p) := final_state start edges n in
  if detect edges d then Unbounded else
  match target with
  | Some t =>
      match getd d t with
      | None => Infeasible
      | Some dt => match reconstruct_indexed p t with
                   | Some path => Path path dt
                   | None => Hang
                   end
      end
  | None => Dists d
  end.

(* ---- observable comparison ---- *)
Definition oz_eqb (a b : option Z) : bool :=
  match a, b with None, None => true | Some x, Some y => Z.eqb x y | _, _ => false end.
Fixpoint dvec_eqb (a b : dvec) : bool :=
  match a, b with [], [] => true | x :: xs, y :: ys => oz_eqb x y && dvec_eqb xs ys | _, _ => false end.
Fixpoint nats_eqb (a b : list nat) : bool :=
  match a, b with [], [] => true | x :: xs, y :: ys => Nat.eqb x y && nats_eqb xs ys | _, _ => false end.

Definition result_eqb (a b : result) : bool :=
  match a, b with
  | Error, Error | Unbounded, Unbounded | Infeasible, Infeasible | Hang, Hang => true
  | Path p d, Path p' d' => nats_eqb p p' && Z.eqb d d'
  | Dists d, Dists d' => dvec_eqb d d'
  | _, _ => false
  end.

End BF.
