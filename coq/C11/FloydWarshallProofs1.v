(* C11 floyd_warshall proofs, part 1: matrices, monotone in-place steps, the k-outermost invariant.
   Up K m: m[i][j] bounds every walk i ~> j whose inner vertices are pairwise distinct and < K.
   The in-place update is handled by monotonicity: entries only decrease, so the values read during round K are
   at most the values at the start of round K. *)
From Coq Require Import List ZArith Bool Arith Lia.
From SV Require Import C11.Paths C11.PathsLemmas C11.FloydWarshall.
Import ListNotations.
Import FW.
Local Open Scope Z_scope.

Lemma set_nth_length {A} (x : A) : forall l i, length (set_nth i x l) = length l.
Proof. induction l as [|h t IH]; intros [|i]; simpl; auto. Qed.

Lemma nth_set_nth_eq {A} (x d : A) : forall l i, (i < length l)%nat -> nth i (set_nth i x l) d = x.
Proof. induction l as [|h t IH]; intros [|i] H; simpl in *; try lia; auto. apply IH. lia. Qed.

Lemma nth_set_nth_neq {A} (x d : A) : forall l i j, i <> j -> nth j (set_nth i x l) d = nth j l d.
Proof. induction l as [|h t IH]; intros [|i] [|j] H; simpl; auto; try congruence. Qed.

Section Mat.
Variable n : nat.

Definition wf (m : mat) : Prop := length m = n /\ forall i, (i < n)%nat -> length (nth i m []) = n.

Lemma wf_set m i j x : wf m -> wf (set m i j x).
Proof.
  intros [Hl Hr]. unfold set. split; [now rewrite set_nth_length|].
  intros i' Hi'. destruct (Nat.eq_dec i i') as [<-|Hne].
  - rewrite nth_set_nth_eq by lia. rewrite set_nth_length. now apply Hr.
  - rewrite nth_set_nth_neq by exact Hne. now apply Hr.
Qed.

Lemma get_set_eq m i j x : wf m -> (i < n)%nat -> (j < n)%nat -> get (set m i j x) i j = x.
Proof.
  intros [Hl Hr] Hi Hj. unfold get, set. rewrite nth_set_nth_eq by lia. apply nth_set_nth_eq. rewrite Hr; lia.
Qed.

Lemma get_set_neq m i j x i' j' : (i', j') <> (i, j) -> get (set m i j x) i' j' = get m i' j'.
Proof.
  intros Hne. unfold get, set. destruct (Nat.eq_dec i i') as [<-|Hi].
  - destruct (lt_dec i (length m)) as [Hlt|Hge].
    + rewrite nth_set_nth_eq by exact Hlt. apply nth_set_nth_neq. congruence.
    + replace (set_nth i (set_nth j x (nth i m [])) m) with m; [reflexivity|].
      clear -Hge. revert i Hge. induction m as [|h t IH]; intros [|i] H; simpl in *; try reflexivity; try lia.
      f_equal. apply IH. lia.
  - now rewrite nth_set_nth_neq by exact Hi.
Qed.

Lemma wf_init : wf (init n).
Proof.
  unfold init. split; [now rewrite map_length, seq_length|]. intros i Hi.
  rewrite nth_indep with (d' := map (fun j => if Nat.eqb 0 j then Some 0 else None) (seq 0 n))
    by now rewrite map_length, seq_length.
  rewrite (map_nth (fun i => map (fun j => if Nat.eqb i j then Some 0 else None) (seq 0 n)) (seq 0 n) 0%nat i).
  now rewrite map_length, seq_length.
Qed.

Lemma get_init i j : (i < n)%nat -> (j < n)%nat -> get (init n) i j = if Nat.eqb i j then Some 0 else None.
Proof.
  intros Hi Hj. unfold get, init.
  rewrite nth_indep with (d' := map (fun j => if Nat.eqb 0 j then Some 0 else None) (seq 0 n))
    by now rewrite map_length, seq_length.
  rewrite (map_nth (fun i => map (fun j => if Nat.eqb i j then Some 0 else None) (seq 0 n)) (seq 0 n) 0%nat i).
  rewrite seq_nth by exact Hi. simpl.
  rewrite nth_indep with (d' := if Nat.eqb i 0 then Some 0 else None) by now rewrite map_length, seq_length.
  rewrite (map_nth (fun j => if Nat.eqb i j then Some 0 else None) (seq 0 n) 0%nat j).
  now rewrite seq_nth by exact Hj.
Qed.

(* entries stay finite and do not grow *)
Definition mat_le (m' m : mat) : Prop :=
  forall i j x, get m i j = Some x -> exists y, get m' i j = Some y /\ y <= x.

Lemma mat_le_refl m : mat_le m m.
Proof. intros i j x H. exists x. split; [exact H|lia]. Qed.

Lemma mat_le_trans a b c : mat_le a b -> mat_le b c -> mat_le a c.
Proof.
  intros H1 H2 i j x Hx. destruct (H2 _ _ _ Hx) as (y & Hy & Hle). destruct (H1 _ _ _ Hy) as (z & Hz & Hle').
  exists z. split; [exact Hz|lia].
Qed.

Lemma mat_le_set m i j x : wf m -> (i < n)%nat -> (j < n)%nat ->
  (forall y, get m i j = Some y -> x <= y) -> mat_le (set m i j (Some x)) m.
Proof.
  intros Hwf Hi Hj Hx i' j' y Hy. destruct (Nat.eq_dec i' i) as [->|Hne1].
  - destruct (Nat.eq_dec j' j) as [->|Hne2].
    + exists x. rewrite get_set_eq by assumption. split; [reflexivity|now apply Hx].
    + exists y. rewrite get_set_neq by congruence. split; [exact Hy|lia].
  - exists y. rewrite get_set_neq by congruence. split; [exact Hy|lia].
Qed.

(* generic: a fold of monotone steps; what one step establishes (and monotonicity keeps) holds at the end *)
Lemma fold_mono {X} (f : mat -> X -> mat) (I : mat -> Prop) (l : list X) :
  (forall m x, In x l -> I m -> I (f m x) /\ mat_le (f m x) m) ->
  forall m, I m -> I (fold_left f l m) /\ mat_le (fold_left f l m) m.
Proof.
  induction l as [|x l IH]; intros Hf m Hm; [split; [exact Hm|apply mat_le_refl]|].
  simpl. destruct (Hf m x (or_introl eq_refl) Hm) as [H1 H2].
  destruct (IH (fun m y Hy => Hf m y (or_intror Hy)) _ H1) as [H3 H4].
  split; [exact H3|eapply mat_le_trans; eauto].
Qed.

Lemma fold_hit {X} (f : mat -> X -> mat) (I Pre Post : mat -> Prop) (l : list X) (x0 : X) :
  (forall m x, In x l -> I m -> I (f m x) /\ mat_le (f m x) m) ->
  (forall m m', mat_le m' m -> Pre m -> Pre m') ->
  (forall m m', mat_le m' m -> Post m -> Post m') ->
  (forall m, I m -> Pre m -> Post (f m x0)) ->
  In x0 l -> forall m, I m -> Pre m -> Post (fold_left f l m).
Proof.
  intros Hf Hpre Hpost Hstep. induction l as [|x l IH]; intros Hin m HI HP; [destruct Hin|].
  simpl. destruct (Hf m x (or_introl eq_refl) HI) as [HI1 Hle1].
  destruct Hin as [->|Hin].
  - destruct (fold_mono f I l (fun m y Hy => Hf m y (or_intror Hy)) _ HI1) as [_ Hle2].
    eapply Hpost; [exact Hle2|]. now apply Hstep.
  - apply IH; auto.
    + intros m0 y Hy. apply Hf. now right.
    + eapply Hpre; eauto.
Qed.

End Mat.

(* ---- invariants relative to a graph ---- *)
Section Inv.
Variable g : wgraph.
Variable n : nat.
Hypothesis Hg : forall u v w, In (u, v, w) g -> (u < n)%nat /\ (v < n)%nat.

Definition att (m : mat) : Prop := forall i j x, get m i j = Some x -> exists p, walk g i j p x.
Definition diag (m : mat) : Prop := forall i, (i < n)%nat -> exists x, get m i i = Some x /\ x <= 0.
Definition up (K : nat) (m : mat) : Prop :=
  forall i j q c, (i < n)%nat -> (j < n)%nat -> walk g i j (i :: q ++ [j]) c -> NoDup q ->
    (forall x, In x q -> (x < K)%nat) -> exists x, get m i j = Some x /\ x <= c.

Lemma diag_mono m m' : mat_le m' m -> diag m -> diag m'.
Proof.
  intros Hle Hd i Hi. destruct (Hd i Hi) as (x & Hx & Hx0). destruct (Hle _ _ _ Hx) as (y & Hy & Hyx).
  exists y. split; [exact Hy|lia].
Qed.

Lemma up_mono K m m' : mat_le m' m -> up K m -> up K m'.
Proof.
  intros Hle Hu i j q c Hi Hj Hw Hnd Hq. destruct (Hu i j q c Hi Hj Hw Hnd Hq) as (x & Hx & Hxc).
  destruct (Hle _ _ _ Hx) as (y & Hy & Hyx). exists y. split; [exact Hy|lia].
Qed.

Definition I (m : mat) : Prop := wf n m /\ att m.

Lemma step_I k i j m : (i < n)%nat -> (j < n)%nat -> I m -> I (step k i j m) /\ mat_le (step k i j m) m.
Proof.
  intros Hi Hj [Hwf Hatt]. unfold step.
  destruct (get m i k) as [a|] eqn:Ea; [|split; [split; assumption|apply mat_le_refl]].
  destruct (get m k j) as [b|] eqn:Eb; [|split; [split; assumption|apply mat_le_refl]].
  destruct (lt_inf (a + b) (get m i j)) eqn:Elt; [|split; [split; assumption|apply mat_le_refl]].
  split; [split|].
  - now apply wf_set.
  - intros i' j' x Hx. destruct (Nat.eq_dec i' i) as [->|Hne1]; [destruct (Nat.eq_dec j' j) as [->|Hne2]|].
    + rewrite (get_set_eq n) in Hx by assumption. injection Hx as <-.
      destruct (Hatt _ _ _ Ea) as (p1 & Hp1). destruct (Hatt _ _ _ Eb) as (p2 & Hp2).
      destruct (walk_hd _ _ _ _ _ Hp2) as [q2 ->]. exists (p1 ++ q2). eapply walk_app; eauto.
    + rewrite get_set_neq in Hx by congruence. now apply Hatt.
    + rewrite get_set_neq in Hx by congruence. now apply Hatt.
  - apply (mat_le_set n); auto. intros y Hy. rewrite Hy in Elt. simpl in Elt. apply Z.ltb_lt in Elt. lia.
Qed.

Lemma step_bound k i j m a b : (i < n)%nat -> (j < n)%nat -> I m ->
  (exists a', get m i k = Some a' /\ a' <= a) -> (exists b', get m k j = Some b' /\ b' <= b) ->
  exists x, get (step k i j m) i j = Some x /\ x <= a + b.
Proof.
  intros Hi Hj [Hwf _] (a' & Ha & Hale) (b' & Hb & Hble). unfold step. rewrite Ha, Hb.
  destruct (lt_inf (a' + b') (get m i j)) eqn:Elt.
  - exists (a' + b'). rewrite (get_set_eq n) by assumption. split; [reflexivity|lia].
  - destruct (get m i j) as [y|]; [|discriminate]. simpl in Elt. apply Z.ltb_ge in Elt. exists y. split; [reflexivity|lia].
Qed.

Lemma loop_j_I k i m : (i < n)%nat -> I m -> I (loop_j n k i m) /\ mat_le (loop_j n k i m) m.
Proof.
  intros Hi. unfold loop_j. apply fold_mono. intros m0 j Hj HI. apply in_seq in Hj. apply step_I; auto; lia.
Qed.

Lemma loop_i_I k m : I m -> I (loop_i n k m) /\ mat_le (loop_i n k m) m.
Proof.
  unfold loop_i. apply fold_mono. intros m0 i Hi HI. apply in_seq in Hi. apply loop_j_I; auto; lia.
Qed.

Lemma loop_k_I m : I m -> I (loop_k n m) /\ mat_le (loop_k n m) m.
Proof. unfold loop_k. apply fold_mono. intros m0 k _ HI. now apply loop_i_I. Qed.

(* the entry (i,j) after round k is at most (start value of [i][k]) + (start value of [k][j]) *)
Lemma loop_i_bound k i j m a b : (i < n)%nat -> (j < n)%nat -> I m ->
  (exists a', get m i k = Some a' /\ a' <= a) -> (exists b', get m k j = Some b' /\ b' <= b) ->
  exists x, get (loop_i n k m) i j = Some x /\ x <= a + b.
Proof.
  intros Hi Hj HI Ha Hb.
  set (Pre := fun m : mat => (exists a', get m i k = Some a' /\ a' <= a) /\ (exists b', get m k j = Some b' /\ b' <= b)).
  set (Post := fun m : mat => exists x, get m i j = Some x /\ x <= a + b).
  assert (Hpre : forall m m', mat_le m' m -> Pre m -> Pre m').
  { intros m0 m' Hle [(a' & Ha' & Hale) (b' & Hb' & Hble)].
    destruct (Hle _ _ _ Ha') as (a2 & Ha2 & Ha2le). destruct (Hle _ _ _ Hb') as (b2 & Hb2 & Hb2le).
    split; [exists a2|exists b2]; split; auto; lia. }
  assert (Hpost : forall m m', mat_le m' m -> Post m -> Post m').
  { intros m0 m' Hle (x & Hx & Hxle). destruct (Hle _ _ _ Hx) as (y & Hy & Hyle). exists y. split; [exact Hy|lia]. }
  unfold loop_i.
  apply (fold_hit (fun m i => loop_j n k i m) I Pre Post (seq 0 n) i); auto.
  - intros m0 i0 Hi0 HI0. apply in_seq in Hi0. apply loop_j_I; auto; lia.
  - intros m0 HI0 HP0. unfold loop_j.
    apply (fold_hit (fun m j => step k i j m) I Pre Post (seq 0 n) j); auto.
    + intros m1 j1 Hj1 HI1. apply in_seq in Hj1. apply step_I; auto; lia.
    + intros m1 HI1 [Ha1 Hb1]. now apply step_bound.
    + apply in_seq. lia.
  - apply in_seq. lia.
  - split; assumption.
Qed.

(* one round of the outer loop extends the set of allowed inner vertices by k *)
Lemma loop_i_up k m : I m -> up k m -> up (S k) (loop_i n k m).
Proof.
  intros HI Hu i j q c Hi Hj Hw Hnd Hq.
  destruct (loop_i_I k m HI) as [_ Hle].
  destruct (in_dec Nat.eq_dec k q) as [Hin|Hnin].
  - apply in_split in Hin as (q1 & q2 & ->).
    assert (Hk1 : ~ In k q1 /\ ~ In k q2).
    { apply NoDup_remove_2 in Hnd. rewrite in_app_iff in Hnd. tauto. }
    assert (Hnd12 : NoDup q1 /\ NoDup q2).
    { apply NoDup_remove_1 in Hnd. split; [eapply NoDup_app_l|eapply NoDup_app_r]; eauto. }
    assert (Hlt : forall x, In x q1 \/ In x q2 -> (x < k)%nat).
    { intros x Hx. assert (x <> k) by (intros ->; tauto).
      assert (x < S k)%nat by (apply Hq; rewrite in_app_iff; simpl; tauto). lia. }
    replace (i :: (q1 ++ k :: q2) ++ [j]) with ((i :: q1) ++ k :: (q2 ++ [j])) in Hw
      by (simpl; rewrite <- app_assoc; reflexivity).
    apply walk_split in Hw as (c1 & c2 & Hw1 & Hw2 & ->).
    assert (Hkn : (k < n)%nat).
    { destruct (walk_last_edge _ _ _ _ _ Hw1) as (a & w & Hin). now apply Hg in Hin. }
    destruct (Hu i k q1 c1 Hi Hkn Hw1 (proj1 Hnd12) (fun x Hx => Hlt x (or_introl Hx))) as (a' & Ha' & Hale).
    destruct (Hu k j q2 c2 Hkn Hj Hw2 (proj2 Hnd12) (fun x Hx => Hlt x (or_intror Hx))) as (b' & Hb' & Hble).
    apply loop_i_bound; eauto.
  - apply (up_mono k m _ Hle Hu i j q c); auto.
    intros x Hx. assert (x <> k) by (intros ->; contradiction). specialize (Hq x Hx). lia.
Qed.

Lemma loop_k_up_gen : forall ks k0 m, ks = seq k0 (length ks) -> I m -> up k0 m ->
  up (k0 + length ks) (fold_left (fun m k => loop_i n k m) ks m).
Proof.
  induction ks as [|k ks IH]; intros k0 m Hks HI Hu; [simpl; now rewrite Nat.add_0_r|].
  simpl in Hks. injection Hks as -> Hks. simpl.
  replace (k0 + S (length ks))%nat with (S k0 + length ks)%nat by lia.
  apply IH; [exact Hks|apply loop_i_I, HI|apply loop_i_up; assumption].
Qed.

Lemma loop_k_up m : I m -> up 0 m -> up n (loop_k n m).
Proof.
  intros HI Hu. unfold loop_k. pose proof (loop_k_up_gen (seq 0 n) 0 m) as H.
  rewrite seq_length in H. apply H; auto.
Qed.

End Inv.
