(* C11 part B - case types and boolean checks used by the generated correspondence files
   (coq/Cases/C11/best_*.v).  Definitions only. *)
From Coq Require Import List ZArith Bool Arith Floats.
From SV Require Import Common.Corr C11.BestFirst C11.BestGrid C11.BestGridF C11.BestSpec C11.BestHyps.
Import ListNotations.
Open Scope Z_scope.

(* graph mode: algo false = dijkstra, true = astar *)
Inductive gcase :=
  GCase (algo : bool) (adj : adjacency) (start : nat) (goals : list nat) (htab : list Z)
        (weight : Z) (max_iter : Z) (max_cost : option Z).

Definition run_gcase (c : gcase) : option (obs nat Z) :=
  match c with
  | GCase false adj s gs _ _ mi mc => obs_of (dijkstra adj s gs mi mc)
  | GCase true adj s gs ht w mi mc => obs_of (astar adj s gs ht w mi mc)
  end.

(* model = implementation on (status, path, objective) *)
Definition gcase_ok (c : gcase * obs nat Z) : bool := obs_eqb Nat.eqb Z.eqb (run_gcase (fst c)) (snd c).

(* the implementation's output obeys the specification (independent of the model) *)
Definition gcase_spec_ok (c : gcase * obs nat Z) : bool :=
  match fst c with
  | GCase _ adj s gs _ _ _ _ => result_check Nat.eqb Z.add (adj_nbrs adj) Z.eqb 0 s (goal_in gs) (snd c)
  end.

(* grid mode *)
Inductive grcase :=
  GrCase (g : grid) (start goal : cell) (directions : Z) (h : hname) (blocked : list Z)
         (cost_map : list (Z * Z)) (weight : Z) (max_iter : Z).

Definition run_grcase_f (c : grcase) : option (obs cell float) :=
  match c with
  | GrCase g s t d h b cm w mi => obs_of (astar_grid_f g s t d h b cm (f_of_Z w) mi)
  end.
Definition run_grcase_zr (c : grcase) : option (obs cell zr2) :=
  match c with
  | GrCase g s t d h b cm w mi => obs_of (astar_grid_zr g s t d h b cm w mi)
  end.

(* float twin = implementation, bit for bit *)
Definition grcase_f_ok (c : grcase * obs cell float) : bool :=
  obs_eqb cell_eqb PrimFloat.eqb (run_grcase_f (fst c)) (snd c).

Definition path_eqb (a b : option (list cell)) : bool :=
  match a, b with
  | None, None => true
  | Some x, Some y => list_eqb cell_eqb x y
  | _, _ => false
  end.

(* exact Z[sqrt 2] model vs implementation: same status, objective within 1e-9 (path: see grcase_zr_path) *)
Definition grcase_zr_ok (c : grcase * obs cell float) : bool :=
  match run_grcase_zr (fst c), snd c with
  | Some (s, p, o), (s', p', o') =>
      status_eqb s s'
      && match p, p' with None, None => true | Some _, Some _ => true | _, _ => false end
      && match o, o' with
         | None, None => true
         | Some x, Some y => f_close (zr_to_f x) y
         | _, _ => false
         end
  | None, _ => false
  end.
Definition grcase_zr_path (c : grcase * obs cell float) : bool :=
  match run_grcase_zr (fst c), snd c with
  | Some (_, p, _), (_, p', _) => path_eqb p p'
  | None, _ => false
  end.

(* the implementation's grid path is a walk in the exact grid graph whose Z[sqrt 2] weight is (within 1e-9)
   the reported objective *)
Definition grcase_spec_ok (c : grcase * obs cell float) : bool :=
  match fst c with
  | GrCase g s t d h b cm w mi =>
      result_check cell_eqb zr_add (grid_nbrs (1, 0) zr_of_Z zr_mul_sqrt2 g (dirs_of d) b cm)
        (fun y x => f_close (zr_to_f x) y) zr_zero s (cell_eqb t) (snd c)
  end.

(* the boolean hypotheses of the optimality theorems (BestHyps.v) agree with the harness's own notion of
   "non-negative weights / consistent heuristic" on this input: (case, harness verdict) *)
Definition gcase_hyp_ok (c : gcase * bool) : bool :=
  match fst c with
  | GCase false adj _ _ _ _ _ _ => Bool.eqb (nonneg_adj adj) (snd c)
  | GCase true adj _ gs ht w _ _ => Bool.eqb (nonneg_adj adj && consistent_adj adj gs ht && (w =? 1)) (snd c)
  end.
Definition grcase_hyp_ok (c : grcase * bool) : bool :=
  match fst c with
  | GrCase g s t d h b cm w mi => Bool.eqb (costs_ge1 cm && heur_ok d (resolve_h d h) && (w =? 1)) (snd c)
  end.
