(* C11 deepening (3) - "all solvers agree" for the best-first family: on every graph with non-negative weights
   the objective reported by dijkstra (and by astar with weight 1 and a consistent heuristic) for a single goal
   node t equals floyd_warshall's matrix entry [s][t], bellman_ford's distance vector entry [t] and
   bellman_ford's single-target answer - including "no path" (inf / None / INFEASIBLE).
   Through uniqueness of C11.Paths.is_dist; completeness (DeepBestComplete) gives the "no path" half. *)
From Coq Require Import List ZArith Bool Arith Lia.
From SV Require Import C11.Paths C11.PathsLemmas C11.PathsSimple C11.DistCert C11.BellmanFord C11.FloydWarshall
  C11.BellmanFordProofs1 C11.BellmanFordProofs2 C11.BellmanFordProofs3 C11.FloydWarshallProofs2
  C11.BestFirst C11.BestSpec C11.BestGraph C11.BestOrder C11.BestHyps C11.BestProofs1 C11.BestProofsInst
  C11.BestProofs5 C11.DeepBestComplete.
Import ListNotations.
Open Scope Z_scope.

(* the answer to "distance from s to t": Some d = shortest-walk weight, None = unreachable *)
Definition dist_spec (g : wgraph) (s t : nat) (o : option Z) : Prop :=
  match o with Some x => is_dist g s t x | None => ~ reachable g s t end.

Lemma dist_spec_unique : forall g s t o1 o2, dist_spec g s t o1 -> dist_spec g s t o2 -> o1 = o2.
Proof.
  intros g s t [x|] [y|] H1 H2; simpl in *.
  - f_equal. eapply is_dist_unique; eassumption.
  - exfalso. apply H2. eapply is_dist_reachable; eassumption.
  - exfalso. apply H1. eapply is_dist_reachable; eassumption.
  - reflexivity.
Qed.

Lemma goal_in_single : forall t t', goal_in [t] t' = true -> t' = t.
Proof.
  intros t t' H. unfold goal_in in H. simpl in H. destruct (Nat.eqb t' t) eqn:E; [|discriminate].
  apply Nat.eqb_eq. assumption.
Qed.

Lemma goal_in_single_refl : forall t, goal_in [t] t = true.
Proof. intros t. unfold goal_in. simpl. rewrite Nat.eqb_refl. reflexivity. Qed.

(* what a best-first result for the goal set {t} says about the distance s -> t *)
Lemma best_dist_spec : forall adj s t found (r : result nat Z),
  graph_res_ok adj s [t] found r -> graph_opt_ok adj s [t] None r ->
  (r_status r = INFEASIBLE -> no_goal_reachable adj s [t]) -> r_status r <> MAX_ITER ->
  dist_spec (adj_edges adj) s t (r_obj r).
Proof.
  intros adj s t found r Hok Hopt Hinf Hm. unfold dist_spec. destruct (r_obj r) as [d|] eqn:Ed.
  - destruct (best_is_dist adj s [t] r found Hok Hopt d Ed) as [t' [p [_ [Hg [Hd _]]]]].
    apply goal_in_single in Hg. subst t'. exact Hd.
  - unfold graph_res_ok in Hok. destruct (r_path r) as [p|].
    + destruct Hok as [d [t' [Hd _]]]. congruence.
    + destruct Hok as [_ [E|E]]; [|contradiction]. apply (Hinf E t). apply goal_in_single_refl.
Qed.

(* ---- non-negative weights: no negative closed walk ---- *)
Lemma walk_nonneg : forall adj, nonneg_adj adj = true ->
  forall u t p d, walk (adj_edges adj) u t p d -> 0 <= d.
Proof.
  intros adj Hn u t p d H. induction H as [u|u v t p w d Hin Hw IH]; [lia|].
  apply In_adj_edges in Hin. pose proof (nonneg_adj_spec adj Hn u v w Hin) as Hw0.
  unfold cle in Hw0. apply Z.ltb_ge in Hw0. lia.
Qed.

Lemma nonneg_no_neg_from : forall adj s, nonneg_adj adj = true -> no_neg_from (adj_edges adj) s.
Proof. intros adj s Hn v p c _ Hw. eapply walk_nonneg; eassumption. Qed.

Lemma nonneg_no_neg_cycle : forall adj, nonneg_adj adj = true -> ~ neg_cycle (adj_edges adj).
Proof. intros adj Hn [v [p [c [Hw [Hc _]]]]]. pose proof (walk_nonneg adj Hn _ _ _ _ Hw). lia. Qed.

(* ---- validity of the size argument n for the part A models ---- *)
Lemma bf_valid_fw : forall s g n tgt, BF.valid_input s g n tgt = true -> FW.valid_input n g = true.
Proof.
  intros s g n tgt H. unfold BF.valid_input in H. unfold FW.valid_input.
  apply andb_true_iff in H. destruct H as [H _]. apply andb_true_iff in H. destruct H as [H He].
  apply andb_true_iff in H. destruct H as [H0 _]. rewrite H0. simpl.
  rewrite forallb_forall in *. intros e Hin. specialize (He e Hin). destruct e as [[u v] w]. exact He.
Qed.

Lemma bf_valid_none : forall s g n t, BF.valid_input s g n (Some t) = true -> BF.valid_input s g n None = true.
Proof.
  intros s g n t H. unfold BF.valid_input in *. apply andb_true_iff in H. destruct H as [H _]. rewrite H. reflexivity.
Qed.

Lemma bf_valid_s : forall s g n tgt, BF.valid_input s g n tgt = true -> (s < n)%nat.
Proof. intros s g n tgt H. apply valid_input_facts in H. tauto. Qed.

Lemma bf_not_error : forall s g n tgt, BF.valid_input s g n tgt = true -> BF.bellman_ford s g n tgt <> BF.Error.
Proof.
  intros s g n tgt Hv E. unfold BF.bellman_ford in E. rewrite Hv in E. simpl in E.
  destruct (BF.final_state s g n) as [d p]. destruct (BF.detect g d); [discriminate|].
  destruct tgt as [t|]; [|discriminate]. destruct (BF.getd d t); [|discriminate].
  destruct (BF.reconstruct_indexed p t); discriminate.
Qed.

Lemma fw_not_error : forall n g, FW.valid_input n g = true -> FW.floyd_warshall n g true <> FW.Error.
Proof.
  intros n g Hv E. unfold FW.floyd_warshall in E. rewrite Hv in E. simpl in E.
  destruct (FW.neg_diag n (FW.final n g true)); discriminate.
Qed.

(* the agreement statement for an answer o of the best-first family *)
Definition agree_with_part_a (adj : adjacency) (s t n : nat) (o : option Z) : Prop :=
  (exists m, FW.floyd_warshall n (adj_edges adj) true = FW.Dist m /\ FW.get m s t = o)
  /\ (exists dv, BF.bellman_ford s (adj_edges adj) n None = BF.Dists dv /\ nth t dv None = o)
  /\ match o with
     | Some d => exists p, BF.bellman_ford s (adj_edges adj) n (Some t) = BF.Path p d
     | None => BF.bellman_ford s (adj_edges adj) n (Some t) = BF.Infeasible
     end.

Lemma agree_of_dist_spec : forall adj s t n o,
  nonneg_adj adj = true -> BF.valid_input s (adj_edges adj) n (Some t) = true ->
  dist_spec (adj_edges adj) s t o -> agree_with_part_a adj s t n o.
Proof.
  intros adj s t n o Hn Hv Ho. unfold agree_with_part_a. set (g := adj_edges adj) in *.
  pose proof (nonneg_no_neg_from adj s Hn) as Hnn. fold g in Hnn.
  split; [|split].
  - pose proof (bf_valid_fw _ _ _ _ Hv) as Hvf.
    destruct (FW.floyd_warshall n g true) as [| |m] eqn:E.
    + exfalso. eapply fw_not_error; eassumption.
    + exfalso. apply (fw_unbounded_iff n g true Hvf) in E. simpl in E. eapply nonneg_no_neg_cycle; eassumption.
    + exists m. split; [reflexivity|].
      pose proof (fw_dist n g true m E s t (bf_valid_s _ _ _ _ Hv)) as Hf. simpl FW.graph_of in Hf.
      eapply dist_spec_unique; [|exact Ho]. unfold dist_spec. exact Hf.
  - pose proof (bf_valid_none _ _ _ _ Hv) as Hv0.
    pose proof (bellman_ford_sound s g n None) as Hs.
    destruct (BF.bellman_ford s g n None) as [| | |p x|dv|] eqn:E; simpl in Hs.
    + exfalso. eapply bf_not_error; eassumption.
    + exfalso. eapply bf_unbounded_not_no_neg; eassumption.
    + destruct Hs as [_ [t' [Ht' _]]]. discriminate.
    + destruct Hs as [_ [t' [Ht' _]]]. discriminate.
    + exists dv. split; [reflexivity|]. destruct Hs as [_ [_ Hd]]. specialize (Hd t). unfold dget in Hd.
      eapply dist_spec_unique; [|exact Ho]. unfold dist_spec. exact Hd.
    + exfalso. eapply bellman_ford_no_hang; eassumption.
  - pose proof (bellman_ford_sound s g n (Some t)) as Hs.
    destruct (BF.bellman_ford s g n (Some t)) as [| | |p x|dv|] eqn:E; simpl in Hs.
    + exfalso. eapply bf_not_error; eassumption.
    + exfalso. eapply bf_unbounded_not_no_neg; eassumption.
    + destruct Hs as [_ [t' [Ht' Hr]]]. inversion Ht'; subst t'.
      assert (Eo : o = None) by (eapply dist_spec_unique; [exact Ho|exact Hr]). subst o. reflexivity.
    + destruct Hs as [_ [t' [Ht' [_ Hd]]]]. inversion Ht'; subst t'.
      assert (Eo : o = Some x) by (eapply dist_spec_unique; [exact Ho|exact Hd]). subst o. exists p. reflexivity.
    + destruct Hs as [_ [Ht' _]]. discriminate.
    + exfalso. eapply bellman_ford_no_hang; eassumption.
Qed.

(* ---- dijkstra / astar agree with floyd_warshall and bellman_ford ---- *)
Theorem dijkstra_all_pairs_agree : forall fuel adj s t max_iter r n,
  nonneg_adj adj = true -> BF.valid_input s (adj_edges adj) n (Some t) = true ->
  dijkstra_gen fuel adj s [t] max_iter None = Some r -> r_status r <> MAX_ITER ->
  dist_spec (adj_edges adj) s t (r_obj r) /\ agree_with_part_a adj s t n (r_obj r).
Proof.
  intros fuel adj s t max_iter r n Hn Hv H Hm.
  assert (Hd : dist_spec (adj_edges adj) s t (r_obj r)).
  { eapply best_dist_spec.
    - eapply dijkstra_path_valid. eassumption.
    - eapply dijkstra_optimal; eassumption.
    - eapply dijkstra_infeasible_sound. eassumption.
    - assumption. }
  split; [assumption|]. apply agree_of_dist_spec; assumption.
Qed.

Theorem astar_all_pairs_agree : forall fuel adj s t htab max_iter r n,
  nonneg_adj adj = true -> consistent_adj adj [t] htab = true ->
  BF.valid_input s (adj_edges adj) n (Some t) = true ->
  astar_gen fuel adj s [t] htab 1 max_iter None = Some r -> r_status r <> MAX_ITER ->
  dist_spec (adj_edges adj) s t (r_obj r) /\ agree_with_part_a adj s t n (r_obj r).
Proof.
  intros fuel adj s t htab max_iter r n Hn Hc Hv H Hm.
  assert (Hd : dist_spec (adj_edges adj) s t (r_obj r)).
  { eapply best_dist_spec.
    - eapply astar_path_valid. eassumption.
    - eapply astar_optimal; eassumption.
    - eapply astar_infeasible_sound. eassumption.
    - assumption. }
  split; [assumption|]. apply agree_of_dist_spec; assumption.
Qed.

(* hence dijkstra and astar (weight 1, consistent heuristic) agree with each other *)
Theorem dijkstra_astar_agree : forall fuel fuel' adj s t htab max_iter max_iter' r r',
  nonneg_adj adj = true -> consistent_adj adj [t] htab = true ->
  dijkstra_gen fuel adj s [t] max_iter None = Some r -> r_status r <> MAX_ITER ->
  astar_gen fuel' adj s [t] htab 1 max_iter' None = Some r' -> r_status r' <> MAX_ITER ->
  r_obj r = r_obj r'.
Proof.
  intros fuel fuel' adj s t htab max_iter max_iter' r r' Hn Hc H Hm H' Hm'.
  eapply dist_spec_unique.
  - eapply best_dist_spec; [eapply dijkstra_path_valid; eassumption|eapply dijkstra_optimal; eassumption
                           |eapply dijkstra_infeasible_sound; eassumption|assumption].
  - eapply best_dist_spec; [eapply astar_path_valid; eassumption|eapply astar_optimal; eassumption
                           |eapply astar_infeasible_sound; eassumption|assumption].
Qed.

(* unconditional form: built-in fuel, max_iter above the node count *)
Theorem dijkstra_all_pairs_agree_total : forall adj s t max_iter n,
  nonneg_adj adj = true -> BF.valid_input s (adj_edges adj) n (Some t) = true ->
  iter_limit_free adj s max_iter = true ->
  exists r, dijkstra adj s [t] max_iter None = Some r /\ agree_with_part_a adj s t n (r_obj r).
Proof.
  intros adj s t max_iter n Hn Hv Hl.
  destruct (dijkstra_decides adj s [t] max_iter Hl) as [r [Hr [Hm _]]].
  exists r. split; [assumption|]. eapply dijkstra_all_pairs_agree; eassumption.
Qed.
