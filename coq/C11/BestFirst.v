(* C11 part B - generic "closed-set best-first" model shared by
     solvor/dijkstra.py : dijkstra()            (lines 51-100)
     solvor/a_star.py   : astar()               (lines 59-115)
     solvor/utils/helpers.py : reconstruct_path (lines 83-90)
   Definitions only (always compiles).

   The two Python functions are the same loop; they differ in
     * the heap key          dijkstra: (tentative_g, counter, node)
                             astar   : (tentative_g + weight*h(node), -tentative_g, counter, node)
     * the value compared with max_cost   dijkstra: the popped key `cost`;  astar: g[current]
     * the status on success              dijkstra: OPTIMAL;  astar: OPTIMAL if weight == 1.0 else FEASIBLE
   so the model is one loop parametrised by (K, mkkey, kltb, limit_of, found_status).

   Modelling decisions (each is observationally equivalent to the Python data structure):
     * heapq binary heap with keys made unique by `counter`  =  list kept sorted by the (total) tuple order:
       heappush = ordered insertion, heappop = head.  Tuple comparison never reaches the node component.
     * dict g / dict parent: only `d[k] = v`, `k in d`, `d[k]`, `d.get(k, inf)` are used (no iteration),
       so a shadowing association list (newest binding first) is used.
     * set closed: membership only -> list.
     * `g[current]` is read once before the neighbour loop: current is in `closed`, the loop never
       writes g[x] for a closed x, so the value is constant during the loop.
     * `while heap and iterations < max_iter` - explicit fuel, exhaustion = None (never a result).
     * numbers: the cost type C is a parameter: Z (integer-valued float weights, exact below 2^53),
       Z[sqrt 2] pairs and binary64 floats (grid mode, BestGrid*.v). *)
From Coq Require Import List ZArith Bool Arith.
Import ListNotations.

Inductive status := OPTIMAL | FEASIBLE | INFEASIBLE | UNBOUNDED | MAX_ITER.

Definition status_eqb (a b : status) : bool :=
  match a, b with
  | OPTIMAL, OPTIMAL | FEASIBLE, FEASIBLE | INFEASIBLE, INFEASIBLE
  | UNBOUNDED, UNBOUNDED | MAX_ITER, MAX_ITER => true
  | _, _ => false
  end.

(* Result(solution, objective, iterations, evaluations, status); objective None = float("inf") *)
Record result (N C : Type) := mkResult {
  r_status : status;
  r_path : option (list N);
  r_obj : option C;
  r_iters : Z;
  r_evals : Z }.
Arguments mkResult {N C}.
Arguments r_status {N C}.
Arguments r_path {N C}.
Arguments r_obj {N C}.
Arguments r_iters {N C}.
Arguments r_evals {N C}.

Section Assoc.
  Context {A B : Type}.
  Variable eqb : A -> A -> bool.
  Fixpoint lookup (k : A) (l : list (A * B)) : option B :=
    match l with
    | [] => None
    | (k', v) :: r => if eqb k k' then Some v else lookup k r
    end.
  Fixpoint memb (k : A) (l : list A) : bool :=
    match l with
    | [] => false
    | x :: r => if eqb k x then true else memb k r
    end.
End Assoc.

Section BestFirst.
  Context {N C K : Type}.
  Variable neqb : N -> N -> bool.
  Variable czero : C.
  Variable cadd : C -> C -> C.
  Variable cltb : C -> C -> bool.          (* Python `<` on costs *)
  Variable kltb : K -> K -> bool.          (* Python `<` on the heap tuple without (counter, node) *)
  Variable mkkey : C -> N -> K.            (* tuple prefix pushed for a node with tentative g *)
  Variable limit_of : K -> C -> C.         (* popped key, g[current]  |->  value compared with max_cost *)
  Variable found_status : status.
  Variable nbrs : N -> list (N * C).       (* neighbors(current), in the order the callback yields *)
  Variable is_goal : N -> bool.
  Variable max_iter : Z.
  Variable max_cost : option C.

  Definition entry := (K * nat * N)%type.

  (* tuple comparison (k1, c1, n1) < (k2, c2, n2); counters are distinct, the node is never compared *)
  Definition entry_ltb (a b : entry) : bool :=
    let '(ka, ca, _) := a in
    let '(kb, cb, _) := b in
    if kltb ka kb then true else if kltb kb ka then false else Nat.ltb ca cb.

  (* heappush into the sorted-list representation *)
  Fixpoint hinsert (e : entry) (h : list entry) : list entry :=
    match h with
    | [] => [e]
    | x :: xs => if entry_ltb e x then e :: h else x :: hinsert e xs
    end.

  Record st := mkSt {
    s_g : list (N * C);
    s_parent : list (N * N);
    s_closed : list N;
    s_counter : nat;
    s_heap : list entry;
    s_evals : Z }.

  (* body of `for neighbor, edge_cost in neighbors(current):` *)
  Definition relax (cur : N) (gcur : C) (s : st) (nb : N * C) : st :=
    let '(v, w) := nb in
    if memb neqb v (s_closed s) then s
    else
      let t := cadd gcur w in
      if match lookup neqb v (s_g s) with None => true | Some gv => cltb t gv end
      then mkSt ((v, t) :: s_g s) ((v, cur) :: s_parent s) (s_closed s) (S (s_counter s))
                (hinsert (mkkey t v, s_counter s, v) (s_heap s)) (s_evals s + 1)
      else s.

  Definition expand (cur : N) (gcur : C) (s : st) : st := fold_left (relax cur gcur) (nbrs cur) s.

  (* reconstruct_path: path = [current]; while current in parent: current = parent[current]; append; reverse *)
  Fixpoint recon (fuel : nat) (par : list (N * N)) (cur : N) (acc : list N) : option (list N) :=
    match fuel with
    | O => None
    | S f =>
        match lookup neqb cur par with
        | None => Some (cur :: acc)
        | Some p => recon f par p (cur :: acc)
        end
    end.
  Definition reconstruct_path (par : list (N * N)) (cur : N) : option (list N) :=
    recon (S (length par)) par cur [].

  Definition finish (iters : Z) (s : st) : result N C :=
    mkResult (if (max_iter <=? iters)%Z then MAX_ITER else INFEASIBLE) None None iters (s_evals s).

  Definition over_limit (k : K) (gcur : C) : bool :=
    match max_cost with
    | Some mc => cltb mc (limit_of k gcur)
    | None => false
    end.

  (* the `while heap and iterations < max_iter:` loop *)
  Fixpoint loop (fuel : nat) (s : st) (iters : Z) : option (result N C) :=
    match fuel with
    | O => None
    | S f =>
        match s_heap s with
        | [] => Some (finish iters s)
        | (k, _, cur) :: h' =>
            if negb (iters <? max_iter)%Z then Some (finish iters s)
            else
              let s1 := mkSt (s_g s) (s_parent s) (s_closed s) (s_counter s) h' (s_evals s) in
              if memb neqb cur (s_closed s) then loop f s1 iters
              else
                let iters' := (iters + 1)%Z in
                let s2 := mkSt (s_g s) (s_parent s) (cur :: s_closed s) (s_counter s) h' (s_evals s) in
                match lookup neqb cur (s_g s) with
                | None => None                      (* KeyError: does not happen *)
                | Some gcur =>
                    if is_goal cur then
                      match reconstruct_path (s_parent s) cur with
                      | None => None
                      | Some p => Some (mkResult found_status (Some p) (Some gcur) iters' (s_evals s))
                      end
                    else if over_limit k gcur then loop f s2 iters'
                    else loop f (expand cur gcur s2) iters'
                end
        end
    end.

  Definition init_st (start : N) : st :=
    mkSt [(start, czero)] [] [] 1 [(mkkey czero start, O, start)] 1.

  Definition best_first (fuel : nat) (start : N) : option (result N C) :=
    loop fuel (init_st start) 0.
End BestFirst.

(* ------------------------------------------------------------------------------------------------
   Instance 1: integer costs, nodes = nat (first-occurrence numbering by the harness),
   neighbours as adjacency lists in callback order. *)
Definition adjacency := list (list (nat * Z)).
Definition adj_nbrs (adj : adjacency) (u : nat) : list (nat * Z) := nth u adj [].

(* pops <= pushes <= 1 + (edges out of expanded nodes), one more round to see the empty heap *)
Definition graph_fuel (adj : adjacency) : nat := S (S (length (concat adj))).

Definition goal_in (goals : list nat) (v : nat) : bool := memb Nat.eqb v goals.

(* astar heap key (f, -g): compare f, then -g, i.e. larger g first *)
Definition akey_ltb {C} (cltb : C -> C -> bool) (a b : C * C) : bool :=
  if cltb (fst a) (fst b) then true
  else if cltb (fst b) (fst a) then false
  else cltb (snd b) (snd a).

(* astar over any cost type: wh v = weight * heuristic(v) *)
Definition astar_c {N C : Type} (neqb : N -> N -> bool) (czero : C) (cadd : C -> C -> C) (cltb : C -> C -> bool)
           (wh : N -> C) (found : status) (nbrs : N -> list (N * C)) (is_goal : N -> bool)
           (max_iter : Z) (max_cost : option C) (fuel : nat) (start : N) : option (result N C) :=
  best_first (K := C * C) neqb czero cadd cltb (akey_ltb cltb)
             (fun t v => (cadd t (wh v), t)) (fun _ gc => gc) found
             nbrs is_goal max_iter max_cost fuel start.

Definition dijkstra_c {N C : Type} (neqb : N -> N -> bool) (czero : C) (cadd : C -> C -> C) (cltb : C -> C -> bool)
           (nbrs : N -> list (N * C)) (is_goal : N -> bool)
           (max_iter : Z) (max_cost : option C) (fuel : nat) (start : N) : option (result N C) :=
  best_first (K := C) neqb czero cadd cltb cltb (fun t _ => t) (fun k _ => k) OPTIMAL
             nbrs is_goal max_iter max_cost fuel start.

(* dijkstra(start, goal, neighbors, max_iter=, max_cost=) *)
Definition dijkstra_gen (fuel : nat) (adj : adjacency) (start : nat) (goals : list nat)
           (max_iter : Z) (max_cost : option Z) : option (result nat Z) :=
  dijkstra_c Nat.eqb 0%Z Z.add Z.ltb (adj_nbrs adj) (goal_in goals) max_iter max_cost fuel start.
Definition dijkstra (adj : adjacency) := dijkstra_gen (graph_fuel adj) adj.

(* astar(start, goal, neighbors, heuristic, weight=, max_iter=, max_cost=); htab v = heuristic(v),
   weight an integer-valued float *)
Definition astar_gen (fuel : nat) (adj : adjacency) (start : nat) (goals : list nat) (htab : list Z)
           (weight : Z) (max_iter : Z) (max_cost : option Z) : option (result nat Z) :=
  astar_c Nat.eqb 0%Z Z.add Z.ltb (fun v => (weight * nth v htab 0)%Z)
          (if (weight =? 1)%Z then OPTIMAL else FEASIBLE)
          (adj_nbrs adj) (goal_in goals) max_iter max_cost fuel start.
Definition astar (adj : adjacency) := astar_gen (graph_fuel adj) adj.

(* observable compared with the implementation: (status, path, objective) *)
Definition obs (N C : Type) := (status * option (list N) * option C)%type.
Definition obs_of {N C} (r : option (result N C)) : option (obs N C) :=
  match r with
  | None => None
  | Some r => Some (r_status r, r_path r, r_obj r)
  end.
Definition obs_eqb {N C} (neqb : N -> N -> bool) (ceqb : C -> C -> bool) (a : option (obs N C)) (b : obs N C) : bool :=
  match a with
  | None => false
  | Some (s, p, o) =>
      let '(s', p', o') := b in
      status_eqb s s'
      && match p, p' with
         | None, None => true
         | Some x, Some y => (fix eq (x y : list N) := match x, y with
                                | [], [] => true
                                | a :: x', b :: y' => neqb a b && eq x' y'
                                | _, _ => false end) x y
         | _, _ => false
         end
      && match o, o' with
         | None, None => true
         | Some x, Some y => ceqb x y
         | _, _ => false
         end
  end.
