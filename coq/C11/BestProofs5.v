(* C11 part B - optimality instantiated: dijkstra_c / astar_c over any ordered cost type, then dijkstra_gen /
   astar_gen over Z in the vocabulary of C11.Paths (walk, is_dist), with boolean input conditions. *)
From Coq Require Import List ZArith Bool Arith Lia.
From SV Require Import C11.Paths C11.BestFirst C11.BestSpec C11.BestGraph C11.BestOrder C11.BestHyps
  C11.BestProofs1 C11.BestProofs3 C11.BestProofs4 C11.BestProofsInst.
Import ListNotations.

(* ---- lexicographic product of two strict weak orders (ties of the first = incomparable) ---- *)
Section Lex.
  Context {A B : Type}.
  Variable k1 : A -> A -> bool.
  Variable k2 : B -> B -> bool.
  Hypothesis KO1 : key_order k1.
  Hypothesis KO2 : key_order k2.

  Definition lex (a b : A * B) : bool :=
    if k1 (fst a) (fst b) then true else if k1 (fst b) (fst a) then false else k2 (snd a) (snd b).

  Ltac kill :=
    match goal with
    | H1 : k1 ?x ?y = true, H2 : k1 ?y ?x = true |- _ => rewrite (ko_asym _ KO1 _ _ H1) in H2; discriminate
    | H1 : k1 ?x ?y = true, H2 : k1 ?y ?z = true, H3 : k1 ?x ?z = false |- _ =>
        rewrite (ko_trans _ KO1 _ _ _ H1 H2) in H3; discriminate
    | H1 : k1 ?x ?y = false, H2 : k1 ?y ?z = false, H3 : k1 ?x ?z = true |- _ =>
        rewrite (ko_negtrans _ KO1 _ _ _ H1 H2) in H3; discriminate
    end.

  Lemma lex_key_order : key_order lex.
  Proof.
    constructor.
    - intros [a1 a2] [b1 b2]. unfold lex. simpl.
      destruct (k1 a1 b1) eqn:Eab, (k1 b1 a1) eqn:Eba; intros H; try discriminate; try reflexivity; try kill.
      apply (ko_asym _ KO2). assumption.
    - intros [a1 a2] [b1 b2] [c1 c2]. unfold lex. simpl.
      destruct (k1 a1 b1) eqn:Eab, (k1 b1 a1) eqn:Eba, (k1 b1 c1) eqn:Ebc, (k1 c1 b1) eqn:Ecb,
               (k1 a1 c1) eqn:Eac, (k1 c1 a1) eqn:Eca; intros H1 H2; try discriminate; try reflexivity; try kill.
      eapply (ko_trans _ KO2); eassumption.
    - intros [a1 a2] [b1 b2] [c1 c2]. unfold lex. simpl.
      destruct (k1 a1 b1) eqn:Eab, (k1 b1 a1) eqn:Eba, (k1 b1 c1) eqn:Ebc, (k1 c1 b1) eqn:Ecb,
               (k1 a1 c1) eqn:Eac, (k1 c1 a1) eqn:Eca; intros H1 H2; try discriminate; try reflexivity; try kill.
      eapply (ko_negtrans _ KO2); eassumption.
  Qed.
End Lex.

Section CostInstances.
  Context {N C : Type}.
  Variable neqb : N -> N -> bool.
  Hypothesis neqb_spec : forall a b, neqb a b = true <-> a = b.
  Variable czero : C.
  Variable cadd : C -> C -> C.
  Variable cltb : C -> C -> bool.
  Hypothesis OC : ordered_costs czero cadd cltb.
  Variable nbrs : N -> list (N * C).
  Variable is_goal : N -> bool.
  Variable max_iter : Z.
  Variable max_cost : option C.
  Variable start : N.
  Notation le := (cle cltb).
  Hypothesis nonneg : forall u v w, In (v, w) (nbrs u) -> le czero w.

  Lemma flip_key_order : key_order (fun x y : C => cltb y x).
  Proof.
    pose proof (ordered_costs_key_order czero cadd cltb OC) as KO. constructor.
    - intros a b H. apply (ko_asym _ KO). assumption.
    - intros a b c H1 H2. eapply (ko_trans _ KO); eassumption.
    - intros a b c H1 H2. eapply (ko_negtrans _ KO); eassumption.
  Qed.

  Theorem dijkstra_c_optimal : forall fuel r,
    dijkstra_c neqb czero cadd cltb nbrs is_goal max_iter max_cost fuel start = Some r ->
    opt_res czero cadd cltb nbrs is_goal max_cost start r.
  Proof.
    intros fuel r H. unfold dijkstra_c in H.
    eapply (best_first_optimal neqb neqb_spec czero cadd cltb OC cltb (ordered_costs_key_order czero cadd cltb OC)
              (fun t _ => t) (fun k _ => k) OPTIMAL) with (wh := fun _ => czero) (fv := fun k => k); try eassumption.
    - discriminate.
    - intros a b Hab. exact Hab.
    - intros t v. symmetry. apply (oc_zero _ _ _ OC).
    - intros k gcur v Hk. rewrite (oc_zero _ _ _ OC) in Hk. assumption.
    - intros u v w Hin. rewrite (oc_zero _ _ _ OC). eapply nonneg; eassumption.
    - reflexivity.
  Qed.

  Variable wh : N -> C.
  Hypothesis consistent : forall u v w, In (v, w) (nbrs u) -> le (wh u) (cadd w (wh v)).
  Hypothesis goal_h : forall t, is_goal t = true -> wh t = czero.

  Theorem astar_c_optimal : forall found fuel r, found <> INFEASIBLE ->
    astar_c neqb czero cadd cltb wh found nbrs is_goal max_iter max_cost fuel start = Some r ->
    opt_res czero cadd cltb nbrs is_goal max_cost start r.
  Proof.
    intros found fuel r Hf H. unfold astar_c in H.
    eapply (best_first_optimal neqb neqb_spec czero cadd cltb OC (akey_ltb cltb)
              (lex_key_order cltb (fun x y => cltb y x) (ordered_costs_key_order czero cadd cltb OC) flip_key_order)
              (fun t v => (cadd t (wh v), t)) (fun _ gc => gc) found) with (wh := wh) (fv := fst); try eassumption.
    - intros a b Hab. unfold akey_ltb in Hab. unfold cle. destruct (cltb (fst a) (fst b)); [discriminate|reflexivity].
    - reflexivity.
    - intros k gcur v _. apply (cle_refl czero cadd cltb OC).
  Qed.
End CostInstances.

(* ---- graphs over Z ---- *)
Open Scope Z_scope.

Definition within_opt (max_cost : option Z) (d : Z) : Prop :=
  match max_cost with None => True | Some mc => d <= mc end.

(* the reported objective is a lower bound for every walk to any goal node within the budget;
   INFEASIBLE: there is no such walk *)
Definition graph_opt_ok (adj : adjacency) (start : nat) (goals : list nat) (max_cost : option Z) (r : result nat Z) : Prop :=
  (forall d0, r_obj r = Some d0 ->
     forall t p d, goal_in goals t = true -> walk (adj_edges adj) start t p d -> within_opt max_cost d -> d0 <= d)
  /\ (r_status r = INFEASIBLE ->
     forall t p d, goal_in goals t = true -> walk (adj_edges adj) start t p d -> within_opt max_cost d -> False).

Lemma nonneg_adj_spec : forall adj, nonneg_adj adj = true ->
  forall u v w, In (v, w) (adj_nbrs adj u) -> cle Z.ltb 0 w.
Proof.
  intros adj H u v w Hin. unfold nonneg_adj in H. rewrite forallb_forall in H. unfold adj_nbrs in Hin.
  destruct (Nat.lt_ge_cases u (length adj)) as [Hu|Hu].
  - specialize (H (nth u adj []) (nth_In _ _ Hu)). rewrite forallb_forall in H. specialize (H _ Hin). simpl in H.
    unfold cle. apply Z.ltb_ge. apply Z.leb_le. assumption.
  - rewrite nth_overflow in Hin by assumption. destruct Hin.
Qed.

Lemma consistent_adj_spec : forall adj goals htab, consistent_adj adj goals htab = true ->
  (forall u v w, In (v, w) (adj_nbrs adj u) -> cle Z.ltb (1 * nth u htab 0) (w + 1 * nth v htab 0))
  /\ (forall t, goal_in goals t = true -> 1 * nth t htab 0 = 0).
Proof.
  intros adj goals htab H. unfold consistent_adj in H. apply andb_true_iff in H. destruct H as [H1 H2]. split.
  - intros u v w Hin. unfold adj_nbrs in Hin. rewrite forallb_forall in H1.
    destruct (Nat.lt_ge_cases u (length adj)) as [Hu|Hu].
    + assert (Hc : In (u, nth u adj []) (combine (seq 0 (length adj)) adj)).
      { replace (u, nth u adj []) with (nth u (combine (seq 0 (length adj)) adj) (O, [])).
        - apply nth_In. rewrite combine_length, seq_length. lia.
        - rewrite combine_nth by (rewrite seq_length; reflexivity). rewrite seq_nth by assumption. reflexivity. }
      specialize (H1 _ Hc). simpl in H1. rewrite forallb_forall in H1. specialize (H1 _ Hin). simpl in H1.
      unfold cle. apply Z.ltb_ge. apply Z.leb_le in H1. lia.
    + rewrite nth_overflow in Hin by assumption. destruct Hin.
  - intros t Ht. unfold goal_in in Ht. apply (memb_In Nat.eqb nat_eqb_spec) in Ht.
    rewrite forallb_forall in H2. specialize (H2 _ Ht). apply Z.eqb_eq in H2. lia.
Qed.

Lemma graph_opt_ok_of : forall adj start goals max_cost r,
  opt_res 0 Z.add Z.ltb (adj_nbrs adj) (goal_in goals) max_cost start r -> graph_opt_ok adj start goals max_cost r.
Proof.
  intros adj start goals max_cost r [H1 H2]. split.
  - intros d0 Hd t p d Ht Hw W. destruct (walk_lwalk _ _ _ _ _ Hw 0) as [q [_ Hq]]. simpl in Hq.
    assert (Hle : cle Z.ltb d0 d).
    { eapply H1; try eassumption. unfold within, within_opt in *. destruct max_cost; [|exact I].
      unfold cle. apply Z.ltb_ge. assumption. }
    unfold cle in Hle. apply Z.ltb_ge in Hle. assumption.
  - intros Hs t p d Ht Hw W. destruct (walk_lwalk _ _ _ _ _ Hw 0) as [q [_ Hq]]. simpl in Hq.
    eapply H2; try eassumption. unfold within, within_opt in *. destruct max_cost; [|exact I].
    unfold cle. apply Z.ltb_ge. assumption.
Qed.

Theorem dijkstra_optimal : forall fuel adj start goals max_iter max_cost r,
  nonneg_adj adj = true ->
  dijkstra_gen fuel adj start goals max_iter max_cost = Some r ->
  graph_opt_ok adj start goals max_cost r.
Proof.
  intros fuel adj start goals max_iter max_cost r Hn H. apply graph_opt_ok_of. unfold dijkstra_gen in H.
  eapply (dijkstra_c_optimal Nat.eqb nat_eqb_spec 0 Z.add Z.ltb Z_ordered_costs); [|exact H].
  apply nonneg_adj_spec. assumption.
Qed.

Theorem astar_optimal : forall fuel adj start goals htab max_iter max_cost r,
  nonneg_adj adj = true -> consistent_adj adj goals htab = true ->
  astar_gen fuel adj start goals htab 1 max_iter max_cost = Some r ->
  graph_opt_ok adj start goals max_cost r.
Proof.
  intros fuel adj start goals htab max_iter max_cost r Hn Hc H. apply graph_opt_ok_of. unfold astar_gen in H.
  destruct (consistent_adj_spec _ _ _ Hc) as [Hc1 Hc2].
  eapply (astar_c_optimal Nat.eqb nat_eqb_spec 0 Z.add Z.ltb Z_ordered_costs (adj_nbrs adj) (goal_in goals)
            max_iter max_cost start (nonneg_adj_spec adj Hn) (fun v => 1 * nth v htab 0) Hc1 Hc2 _ fuel r);
    [|exact H].
  discriminate.
Qed.

(* without max_cost the objective is the shortest-walk distance (C11.Paths.is_dist) to the goal node the path
   ends in, and no goal node is nearer *)
Theorem best_is_dist : forall adj start goals (r : result nat Z) found,
  graph_res_ok adj start goals found r -> graph_opt_ok adj start goals None r ->
  forall d0, r_obj r = Some d0 ->
  exists t p, r_path r = Some p /\ goal_in goals t = true /\ is_dist (adj_edges adj) start t d0
              /\ forall t' d', goal_in goals t' = true -> is_dist (adj_edges adj) start t' d' -> d0 <= d'.
Proof.
  intros adj start goals r found Hv [Ho _] d0 Hd. unfold graph_res_ok in Hv.
  destruct (r_path r) as [p|] eqn:Ep.
  - destruct Hv as [d [t [Hd' [Hw [Hg Hs]]]]]. rewrite Hd in Hd'. inversion Hd'; subst d.
    exists t, p. repeat split; try assumption.
    + exists p. assumption.
    + intros p' d' Hw'. eapply Ho; try eassumption. exact I.
    + intros t' d' Ht' [[p' Hw'] _]. eapply Ho; try eassumption. exact I.
  - destruct Hv as [Hn _]. congruence.
Qed.
