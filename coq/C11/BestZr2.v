(* C11 part B - Z[sqrt 2] with the exact order of BestGrid.v (zr_ltb) is a totally ordered commutative monoid
   (ordered_costs): the optimality theorem applies to the exact grid model. *)
From Coq Require Import List ZArith Bool Arith Lia.
From SV Require Import C11.BestFirst C11.BestGrid C11.BestOrder.
Import ListNotations.
Open Scope Z_scope.

Lemma sq_le : forall x y, 0 <= x <= y -> x * x <= y * y.
Proof. intros. nia. Qed.

Lemma sq_lt_inv : forall x y, 0 <= x -> 0 <= y -> x * x < y * y -> x < y.
Proof. intros. nia. Qed.

(* sqrt 2 is irrational *)
Lemma sqrt2_irrational_nat : forall n : nat, forall a b : Z, Z.abs_nat a = n -> a * a = 2 * (b * b) -> a = 0.
Proof.
  induction n as [n IH] using lt_wf_ind. intros a b Hn H.
  destruct (Z.eq_dec a 0) as [E|E]; [assumption|exfalso].
  destruct (Z.Even_or_Odd a) as [[k Hk]|[k Hk]].
  - subst a. assert (Hb : b * b = 2 * (k * k)) by nia.
    assert (Hlt : (Z.abs_nat b < Z.abs_nat (2 * k))%nat).
    { apply Nat2Z.inj_lt. rewrite !Zabs2Nat.id_abs. apply sq_lt_inv; try apply Z.abs_nonneg.
      rewrite <- !Z.abs_mul, !Z.abs_eq by nia. nia. }
    rewrite Hn in Hlt. pose proof (IH _ Hlt b k eq_refl Hb) as Hb0. subst b. nia.
  - subst a. nia.
Qed.

Lemma sqrt2_irrational : forall a b : Z, a * a = 2 * (b * b) -> a = 0 /\ b = 0.
Proof.
  intros a b H. assert (Ha : a = 0) by (eapply sqrt2_irrational_nat; [reflexivity|exact H]).
  split; [assumption|]. subst. nia.
Qed.

(* products of comparisons with sqrt 2 *)
Lemma mix1 : forall A B r s, 0 <= A -> 0 < B -> 0 <= r -> 0 <= s ->
  A * A <= 2 * (B * B) -> r * r < 2 * (s * s) -> A * r < 2 * (B * s).
Proof.
  intros A B r s HA HB Hr Hs H1 H2.
  destruct (Z_lt_le_dec (A * r) (2 * (B * s))) as [L|L]; [assumption|exfalso].
  assert (S1 : (2 * (B * s)) * (2 * (B * s)) <= (A * r) * (A * r)) by (apply sq_le; nia).
  assert (S2 : (A * A) * (r * r) <= (2 * (B * B)) * (r * r)) by (apply Z.mul_le_mono_nonneg_r; nia).
  assert (S3 : (2 * (B * B)) * (r * r) < (2 * (B * B)) * (2 * (s * s))) by (apply Z.mul_lt_mono_pos_l; nia).
  replace ((A * r) * (A * r)) with ((A * A) * (r * r)) in S1 by ring.
  replace ((2 * (B * s)) * (2 * (B * s))) with ((2 * (B * B)) * (2 * (s * s))) in S1 by ring.
  lia.
Qed.

Lemma mix2 : forall A B p q, 0 < A -> 0 <= B -> 0 < p -> 0 <= q ->
  2 * (B * B) <= A * A -> 2 * (q * q) < p * p -> 2 * (B * q) < A * p.
Proof.
  intros A B p q HA HB Hp Hq H1 H2.
  destruct (Z_lt_le_dec (2 * (B * q)) (A * p)) as [L|L]; [assumption|exfalso].
  assert (S1 : (A * p) * (A * p) <= (2 * (B * q)) * (2 * (B * q))) by (apply sq_le; nia).
  assert (S2 : (2 * (B * B)) * (2 * (q * q)) <= (A * A) * (2 * (q * q))) by (apply Z.mul_le_mono_nonneg_r; nia).
  assert (S3 : (A * A) * (2 * (q * q)) < (A * A) * (p * p)) by (apply Z.mul_lt_mono_pos_l; nia).
  replace ((A * p) * (A * p)) with ((A * A) * (p * p)) in S1 by ring.
  replace ((2 * (B * q)) * (2 * (B * q))) with ((2 * (B * B)) * (2 * (q * q))) in S1 by ring.
  lia.
Qed.

(* zr_pos as a proposition *)
Definition Pos (a b : Z) : Prop :=
  (0 <= a /\ 0 <= b /\ (a <> 0 \/ b <> 0)) \/ (0 < a /\ b < 0 /\ 2 * (b * b) < a * a) \/ (a < 0 /\ 0 < b /\ a * a < 2 * (b * b)).

Lemma zr_pos_spec : forall a b, zr_pos (a, b) = true <-> Pos a b.
Proof.
  intros a b. unfold zr_pos, Pos.
  destruct (0 <=? a) eqn:E1, (0 <=? b) eqn:E2; cbn [andb negb];
    try apply Z.leb_le in E1; try apply Z.leb_le in E2; try apply Z.leb_gt in E1; try apply Z.leb_gt in E2.
  - rewrite negb_true_iff, andb_false_iff, !Z.eqb_neq. split; [intros H; left; auto|intros [H|[H|H]]; [tauto|lia|lia]].
  - destruct (a <=? 0) eqn:E3; cbn [andb negb]; [apply Z.leb_le in E3|apply Z.leb_gt in E3].
    + destruct (b <=? 0) eqn:E4; [|apply Z.leb_gt in E4; lia]. split; [discriminate|]. intros [H|[H|H]]; lia.
    + destruct (0 <? a) eqn:E5; [|apply Z.ltb_ge in E5; lia]. rewrite Z.ltb_lt.
      split; [intros H; right; left; nia|intros [H|[H|H]]; nia].
  - destruct (a <=? 0) eqn:E3; [|apply Z.leb_gt in E3; lia]. cbn [andb negb].
    destruct (b <=? 0) eqn:E4; [apply Z.leb_le in E4|apply Z.leb_gt in E4].
    + split; [discriminate|]. intros [H|[H|H]]; lia.
    + destruct (0 <? a) eqn:E5; [apply Z.ltb_lt in E5; lia|]. rewrite Z.ltb_lt.
      split; [intros H; right; right; nia|intros [H|[H|H]]; nia].
  - destruct (a <=? 0) eqn:E3; [|apply Z.leb_gt in E3; lia].
    destruct (b <=? 0) eqn:E4; [|apply Z.leb_gt in E4; lia]. cbn [andb negb].
    split; [discriminate|]. intros [H|[H|H]]; lia.
Qed.

Lemma Pos_add : forall a1 b1 a2 b2, Pos a1 b1 -> Pos a2 b2 -> Pos (a1 + a2) (b1 + b2).
Proof.
  intros a1 b1 a2 b2 H1 H2. unfold Pos in *.
  destruct H1 as [[Ha1 [Hb1 Hn1]]|[[Ha1 [Hb1 Hn1]]|[Ha1 [Hb1 Hn1]]]];
  destruct H2 as [[Ha2 [Hb2 Hn2]]|[[Ha2 [Hb2 Hn2]]|[Ha2 [Hb2 Hn2]]]].
  - left. lia.
  - (* I + IV *)
    destruct (Z_le_gt_dec 0 (b1 + b2)) as [L|L]; [left; lia|right; left].
    split; [lia|split; [lia|]].
    assert (S1 : (-(b1 + b2)) * (-(b1 + b2)) <= (-b2) * (-b2)) by (apply sq_le; lia).
    assert (S2 : a2 * a2 <= (a1 + a2) * (a1 + a2)) by (apply sq_le; lia).
    nia.
  - (* I + II *)
    destruct (Z_le_gt_dec 0 (a1 + a2)) as [L|L]; [left; lia|right; right].
    split; [lia|split; [lia|]].
    assert (S1 : (-(a1 + a2)) * (-(a1 + a2)) <= (-a2) * (-a2)) by (apply sq_le; lia).
    assert (S2 : b2 * b2 <= (b1 + b2) * (b1 + b2)) by (apply sq_le; lia).
    nia.
  - (* IV + I *)
    destruct (Z_le_gt_dec 0 (b1 + b2)) as [L|L]; [left; lia|right; left].
    split; [lia|split; [lia|]].
    assert (S1 : (-(b1 + b2)) * (-(b1 + b2)) <= (-b1) * (-b1)) by (apply sq_le; lia).
    assert (S2 : a1 * a1 <= (a1 + a2) * (a1 + a2)) by (apply sq_le; lia).
    nia.
  - (* IV + IV *)
    right; left. split; [lia|split; [lia|]].
    assert (M : 2 * ((-b1) * (-b2)) < a1 * a2) by (apply mix2; nia).
    nia.
  - (* IV + II : (p, -q) + (-r, s) *)
    destruct (Z_le_gt_dec 0 (a1 + a2)) as [LA|LA]; destruct (Z_le_gt_dec 0 (b1 + b2)) as [LB|LB].
    + left. split; [lia|split; [lia|]].
      destruct (Z.eq_dec (a1 + a2) 0) as [EA|EA]; [|left; assumption]. right. intros EB.
      assert (a2 = - a1) by lia. assert (b2 = - b1) by lia. subst. nia.
    + right; left. split; [|split; [lia|]].
      * destruct (Z.eq_dec (a1 + a2) 0) as [EA|EA]; [|lia]. exfalso.
        assert (a2 = - a1) by lia. subst a2.
        assert (S1 : b2 * b2 <= (-b1) * (-b1)) by (apply sq_le; lia). nia.
      * (* A = a1 + a2 > 0, B = -(b1+b2) > 0, want 2B^2 < A^2 *)
        destruct (Z_lt_le_dec (2 * ((b1 + b2) * (b1 + b2))) ((a1 + a2) * (a1 + a2))) as [L|L]; [assumption|exfalso].
        assert (EA : a1 + a2 <> 0).
        { intros EA. assert (a2 = - a1) by lia. subst a2.
          assert (S1 : b2 * b2 <= (-b1) * (-b1)) by (apply sq_le; lia). nia. }
        assert (M : (a1 + a2) * (-a2) < 2 * ((-(b1 + b2)) * b2)) by (apply mix1; nia).
        nia.
    + right; right. split; [lia|split; [|]].
      * destruct (Z.eq_dec (b1 + b2) 0) as [EB|EB]; [|lia]. exfalso.
        assert (b2 = - b1) by lia. subst b2.
        assert (S1 : a1 * a1 <= (-a2) * (-a2)) by (apply sq_le; lia). nia.
      * destruct (Z_lt_le_dec ((a1 + a2) * (a1 + a2)) (2 * ((b1 + b2) * (b1 + b2)))) as [L|L]; [assumption|exfalso].
        assert (EB : b1 + b2 <> 0).
        { intros EB. assert (b2 = - b1) by lia. subst b2.
          assert (S1 : a1 * a1 <= (-a2) * (-a2)) by (apply sq_le; lia). nia. }
        assert (M : 2 * ((b1 + b2) * (-b1)) < (-(a1 + a2)) * a1) by (apply mix2; nia).
        nia.
    + exfalso.
      assert (S1 : a1 * a1 <= (-a2) * (-a2)) by (apply sq_le; lia).
      assert (S2 : b2 * b2 <= (-b1) * (-b1)) by (apply sq_le; lia).
      nia.
  - (* II + I *)
    destruct (Z_le_gt_dec 0 (a1 + a2)) as [L|L]; [left; lia|right; right].
    split; [lia|split; [lia|]].
    assert (S1 : (-(a1 + a2)) * (-(a1 + a2)) <= (-a1) * (-a1)) by (apply sq_le; lia).
    assert (S2 : b1 * b1 <= (b1 + b2) * (b1 + b2)) by (apply sq_le; lia).
    nia.
  - (* II + IV : symmetric to IV + II *)
    destruct (Z_le_gt_dec 0 (a1 + a2)) as [LA|LA]; destruct (Z_le_gt_dec 0 (b1 + b2)) as [LB|LB].
    + left. split; [lia|split; [lia|]].
      destruct (Z.eq_dec (a1 + a2) 0) as [EA|EA]; [|left; assumption]. right. intros EB.
      assert (a2 = - a1) by lia. assert (b2 = - b1) by lia. subst. nia.
    + right; left. split; [|split; [lia|]].
      * destruct (Z.eq_dec (a1 + a2) 0) as [EA|EA]; [|lia]. exfalso.
        assert (a2 = - a1) by lia. subst a2.
        assert (S1 : b1 * b1 <= (-b2) * (-b2)) by (apply sq_le; lia). nia.
      * destruct (Z_lt_le_dec (2 * ((b1 + b2) * (b1 + b2))) ((a1 + a2) * (a1 + a2))) as [L|L]; [assumption|exfalso].
        assert (EA : a1 + a2 <> 0).
        { intros EA. assert (a2 = - a1) by lia. subst a2.
          assert (S1 : b1 * b1 <= (-b2) * (-b2)) by (apply sq_le; lia). nia. }
        assert (M : (a1 + a2) * (-a1) < 2 * ((-(b1 + b2)) * b1)) by (apply mix1; nia).
        nia.
    + right; right. split; [lia|split; [|]].
      * destruct (Z.eq_dec (b1 + b2) 0) as [EB|EB]; [|lia]. exfalso.
        assert (b2 = - b1) by lia. subst b2.
        assert (S1 : a2 * a2 <= (-a1) * (-a1)) by (apply sq_le; lia). nia.
      * destruct (Z_lt_le_dec ((a1 + a2) * (a1 + a2)) (2 * ((b1 + b2) * (b1 + b2)))) as [L|L]; [assumption|exfalso].
        assert (EB : b1 + b2 <> 0).
        { intros EB. assert (b2 = - b1) by lia. subst b2.
          assert (S1 : a2 * a2 <= (-a1) * (-a1)) by (apply sq_le; lia). nia. }
        assert (M : 2 * ((b1 + b2) * (-b2)) < (-(a1 + a2)) * a2) by (apply mix2; nia).
        nia.
    + exfalso.
      assert (S1 : a2 * a2 <= (-a1) * (-a1)) by (apply sq_le; lia).
      assert (S2 : b1 * b1 <= (-b2) * (-b2)) by (apply sq_le; lia).
      nia.
  - (* II + II *)
    right; right. split; [lia|split; [lia|]].
    assert (M : (-a1) * (-a2) < 2 * (b1 * b2)) by (apply mix1; nia).
    nia.
Qed.
