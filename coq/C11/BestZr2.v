(* C11 part B - Z[sqrt 2] with the exact order of BestGrid.v (zr_ltb) is a totally ordered commutative monoid
   (ordered_costs): the optimality theorem applies to the exact grid model. *)
From Coq Require Import List ZArith Bool Arith Lia.
From SV Require Import C11.BestFirst C11.BestGrid C11.BestOrder.
Import ListNotations.
Open Scope Z_scope.

Lemma sq_le : forall x y, 0 <= x <= y -> x * x <= y * y.
Proof. intros. nia. Qed.

Lemma sq_lt_inv : forall x y, 0 <= x -> 0 <= y -> x * x < y * y -> x < y.
Proof. intros. nia. Qed.

(* sqrt 2 is irrational *)
Lemma sqrt2_irrational_nat : forall n : nat, forall a b : Z, Z.abs_nat a = n -> a * a = 2 * (b * b) -> a = 0.
Proof.
  induction n as [n IH] using lt_wf_ind. intros a b Hn H.
  destruct (Z.eq_dec a 0) as [E|E]; [assumption|exfalso].
  destruct (Z.Even_or_Odd a) as [[k Hk]|[k Hk]].
  - subst a. assert (Hb : b * b = 2 * (k * k)) by nia.
    assert (Hlt : (Z.abs_nat b < Z.abs_nat (2 * k))%nat).
    { apply Nat2Z.inj_lt. rewrite !Zabs2Nat.id_abs. apply sq_lt_inv; try apply Z.abs_nonneg.
      rewrite <- !Z.abs_mul, !Z.abs_eq by nia. nia. }
    rewrite Hn in Hlt. pose proof (IH _ Hlt b k eq_refl Hb) as Hb0. subst b. nia.
  - subst a. nia.
Qed.

Lemma sqrt2_irrational : forall a b : Z, a * a = 2 * (b * b) -> a = 0 /\ b = 0.
Proof.
  intros a b H. assert (Ha : a = 0) by (eapply sqrt2_irrational_nat; [reflexivity|exact H]).
  split; [assumption|]. subst. nia.
Qed.

(* products of comparisons with sqrt 2 *)
Lemma mix1 : forall A B r s, 0 <= A -> 0 < B -> 0 <= r -> 0 <= s ->
  A * A <= 2 * (B * B) -> r * r < 2 * (s * s) -> A * r < 2 * (B * s).
Proof.
  intros A B r s HA HB Hr Hs H1 H2.
  destruct (Z_lt_le_dec (A * r) (2 * (B * s))) as [L|L]; [assumption|exfalso].
  assert (S1 : (2 * (B * s)) * (2 * (B * s)) <= (A * r) * (A * r)) by (apply sq_le; nia).
  assert (S2 : (A * A) * (r * r) <= (2 * (B * B)) * (r * r)) by (apply Z.mul_le_mono_nonneg_r; nia).
  assert (S3 : (2 * (B * B)) * (r * r) < (2 * (B * B)) * (2 * (s * s))) by (apply Z.mul_lt_mono_pos_l; nia).
  replace ((A * r) * (A * r)) with ((A * A) * (r * r)) in S1 by ring.
  replace ((2 * (B * s)) * (2 * (B * s))) with ((2 * (B * B)) * (2 * (s * s))) in S1 by ring.
  lia.
Qed.

Lemma mix2 : forall A B p q, 0 < A -> 0 <= B -> 0 < p -> 0 <= q ->
  2 * (B * B) <= A * A -> 2 * (q * q) < p * p -> 2 * (B * q) < A * p.
Proof.
  intros A B p q HA HB Hp Hq H1 H2.
  destruct (Z_lt_le_dec (2 * (B * q)) (A * p)) as [L|L]; [assumption|exfalso].
  assert (S1 : (A * p) * (A * p) <= (2 * (B * q)) * (2 * (B * q))) by (apply sq_le; nia).
  assert (S2 : (2 * (B * B)) * (2 * (q * q)) <= (A * A) * (2 * (q * q))) by (apply Z.mul_le_mono_nonneg_r; nia).
  assert (S3 : (A * A) * (2 * (q * q)) < (A * A) * (p * p)) by (apply Z.mul_lt_mono_pos_l; nia).
  replace ((A * p) * (A * p)) with ((A * A) * (p * p)) in S1 by ring.
  replace ((2 * (B * q)) * (2 * (B * q))) with ((2 * (B * B)) * (2 * (q * q))) in S1 by ring.
  lia.
Qed.

(* zr_pos as a proposition *)
Definition Pos (a b : Z) : Prop :=
  (0 <= a /\ 0 <= b /\ (a <> 0 \/ b <> 0)) \/ (0 < a /\ b < 0 /\ 2 * (b * b) < a * a) \/ (a < 0 /\ 0 < b /\ a * a < 2 * (b * b)).

Lemma zr_pos_spec : forall a b, zr_pos (a, b) = true <-> Pos a b.
Proof.
  intros a b. unfold zr_pos, Pos.
  destruct (0 <=? a) eqn:E1, (0 <=? b) eqn:E2; cbn [andb negb];
    try apply Z.leb_le in E1; try apply Z.leb_le in E2; try apply Z.leb_gt in E1; try apply Z.leb_gt in E2.
  - rewrite negb_true_iff, andb_false_iff, !Z.eqb_neq. split; [intros H; left; auto|intros [H|[H|H]]; [tauto|lia|lia]].
  - destruct (a <=? 0) eqn:E3; cbn [andb negb]; [apply Z.leb_le in E3|apply Z.leb_gt in E3].
    + destruct (b <=? 0) eqn:E4; [|apply Z.leb_gt in E4; lia]. split; [discriminate|]. intros [H|[H|H]]; lia.
    + destruct (0 <? a) eqn:E5; [|apply Z.ltb_ge in E5; lia]. rewrite Z.ltb_lt.
      split; [intros H; right; left; nia|intros [H|[H|H]]; nia].
  - destruct (a <=? 0) eqn:E3; [|apply Z.leb_gt in E3; lia]. cbn [andb negb].
    destruct (b <=? 0) eqn:E4; [apply Z.leb_le in E4|apply Z.leb_gt in E4].
    + split; [discriminate|]. intros [H|[H|H]]; lia.
    + destruct (0 <? a) eqn:E5; [apply Z.ltb_lt in E5; lia|]. rewrite Z.ltb_lt.
      split; [intros H; right; right; nia|intros [H|[H|H]]; nia].
  - destruct (a <=? 0) eqn:E3; [|apply Z.leb_gt in E3; lia].
    destruct (b <=? 0) eqn:E4; [|apply Z.leb_gt in E4; lia]. cbn [andb negb].
    split; [discriminate|]. intros [H|[H|H]]; lia.
Qed.

Lemma Pos_add : forall a1 b1 a2 b2, Pos a1 b1 -> Pos a2 b2 -> Pos (a1 + a2) (b1 + b2).
Proof.
  intros a1 b1 a2 b2 H1 H2. unfold Pos in *.
  destruct H1 as [[Ha1 [Hb1 Hn1]]|[[Ha1 [Hb1 Hn1]]|[Ha1 [Hb1 Hn1]]]];
  destruct H2 as [[Ha2 [Hb2 Hn2]]|[[Ha2 [Hb2 Hn2]]|[Ha2 [Hb2 Hn2]]]].
  - left. lia.
  - (* I + IV *)
    destruct (Z_le_gt_dec 0 (b1 + b2)) as [L|L]; [left; lia|right; left].
    split; [lia|split; [lia|]].
    assert (S1 : (-(b1 + b2)) * (-(b1 + b2)) <= (-b2) * (-b2)) by (apply sq_le; lia).
    assert (S2 : a2 * a2 <= (a1 + a2) * (a1 + a2)) by (apply sq_le; lia).
    nia.
  - (* I + II *)
    destruct (Z_le_gt_dec 0 (a1 + a2)) as [L|L]; [left; lia|right; right].
    split; [lia|split; [lia|]].
    assert (S1 : (-(a1 + a2)) * (-(a1 + a2)) <= (-a2) * (-a2)) by (apply sq_le; lia).
    assert (S2 : b2 * b2 <= (b1 + b2) * (b1 + b2)) by (apply sq_le; lia).
    nia.
  - (* IV + I *)
    destruct (Z_le_gt_dec 0 (b1 + b2)) as [L|L]; [left; lia|right; left].
    split; [lia|split; [lia|]].
    assert (S1 : (-(b1 + b2)) * (-(b1 + b2)) <= (-b1) * (-b1)) by (apply sq_le; lia).
    assert (S2 : a1 * a1 <= (a1 + a2) * (a1 + a2)) by (apply sq_le; lia).
    nia.
  - (* IV + IV *)
    right; left. split; [lia|split; [lia|]].
    assert (M : 2 * ((-b1) * (-b2)) < a1 * a2) by (apply mix2; nia).
    nia.
  - (* IV + II : (p, -q) + (-r, s) *)
    destruct (Z_le_gt_dec 0 (a1 + a2)) as [LA|LA]; destruct (Z_le_gt_dec 0 (b1 + b2)) as [LB|LB].
    + left. split; [lia|split; [lia|]].
      destruct (Z.eq_dec (a1 + a2) 0) as [EA|EA]; [|left; assumption]. right. intros EB.
      assert (a2 = - a1) by lia. assert (b2 = - b1) by lia. subst. nia.
    + right; left. split; [|split; [lia|]].
      * destruct (Z.eq_dec (a1 + a2) 0) as [EA|EA]; [|lia]. exfalso.
        assert (a2 = - a1) by lia. subst a2.
        assert (S1 : b2 * b2 <= (-b1) * (-b1)) by (apply sq_le; lia). nia.
      * (* A = a1 + a2 > 0, B = -(b1+b2) > 0, want 2B^2 < A^2 *)
        destruct (Z_lt_le_dec (2 * ((b1 + b2) * (b1 + b2))) ((a1 + a2) * (a1 + a2))) as [L|L]; [assumption|exfalso].
        assert (EA : a1 + a2 <> 0).
        { intros EA. assert (a2 = - a1) by lia. subst a2.
          assert (S1 : b2 * b2 <= (-b1) * (-b1)) by (apply sq_le; lia). nia. }
        assert (M : (a1 + a2) * (-a2) < 2 * ((-(b1 + b2)) * b2)) by (apply mix1; nia).
        nia.
    + right; right. split; [lia|split; [|]].
      * destruct (Z.eq_dec (b1 + b2) 0) as [EB|EB]; [|lia]. exfalso.
        assert (b2 = - b1) by lia. subst b2.
        assert (S1 : a1 * a1 <= (-a2) * (-a2)) by (apply sq_le; lia). nia.
      * destruct (Z_lt_le_dec ((a1 + a2) * (a1 + a2)) (2 * ((b1 + b2) * (b1 + b2)))) as [L|L]; [assumption|exfalso].
        assert (EB : b1 + b2 <> 0).
        { intros EB. assert (b2 = - b1) by lia. subst b2.
          assert (S1 : a1 * a1 <= (-a2) * (-a2)) by (apply sq_le; lia). nia. }
        assert (M : 2 * ((b1 + b2) * (-b1)) < (-(a1 + a2)) * a1) by (apply mix2; nia).
        nia.
    + exfalso.
      assert (S1 : a1 * a1 <= (-a2) * (-a2)) by (apply sq_le; lia).
      assert (S2 : b2 * b2 <= (-b1) * (-b1)) by (apply sq_le; lia).
      nia.
  - (* II + I *)
    destruct (Z_le_gt_dec 0 (a1 + a2)) as [L|L]; [left; lia|right; right].
    split; [lia|split; [lia|]].
    assert (S1 : (-(a1 + a2)) * (-(a1 + a2)) <= (-a1) * (-a1)) by (apply sq_le; lia).
    assert (S2 : b1 * b1 <= (b1 + b2) * (b1 + b2)) by (apply sq_le; lia).
    nia.
  - (* II + IV : symmetric to IV + II *)
    destruct (Z_le_gt_dec 0 (a1 + a2)) as [LA|LA]; destruct (Z_le_gt_dec 0 (b1 + b2)) as [LB|LB].
    + left. split; [lia|split; [lia|]].
      destruct (Z.eq_dec (a1 + a2) 0) as [EA|EA]; [|left; assumption]. right. intros EB.
      assert (a2 = - a1) by lia. assert (b2 = - b1) by lia. subst. nia.
    + right; left. split; [|split; [lia|]].
      * destruct (Z.eq_dec (a1 + a2) 0) as [EA|EA]; [|lia]. exfalso.
        assert (a2 = - a1) by lia. subst a2.
        assert (S1 : b1 * b1 <= (-b2) * (-b2)) by (apply sq_le; lia). nia.
      * destruct (Z_lt_le_dec (2 * ((b1 + b2) * (b1 + b2))) ((a1 + a2) * (a1 + a2))) as [L|L]; [assumption|exfalso].
        assert (EA : a1 + a2 <> 0).
        { intros EA. assert (a2 = - a1) by lia. subst a2.
          assert (S1 : b1 * b1 <= (-b2) * (-b2)) by (apply sq_le; lia). nia. }
        assert (M : (a1 + a2) * (-a1) < 2 * ((-(b1 + b2)) * b1)) by (apply mix1; nia).
        nia.
    + right; right. split; [lia|split; [|]].
      * destruct (Z.eq_dec (b1 + b2) 0) as [EB|EB]; [|lia]. exfalso.
        assert (b2 = - b1) by lia. subst b2.
        assert (S1 : a2 * a2 <= (-a1) * (-a1)) by (apply sq_le; lia). nia.
      * destruct (Z_lt_le_dec ((a1 + a2) * (a1 + a2)) (2 * ((b1 + b2) * (b1 + b2)))) as [L|L]; [assumption|exfalso].
        assert (EB : b1 + b2 <> 0).
        { intros EB. assert (b2 = - b1) by lia. subst b2.
          assert (S1 : a2 * a2 <= (-a1) * (-a1)) by (apply sq_le; lia). nia. }
        assert (M : 2 * ((b1 + b2) * (-b2)) < (-(a1 + a2)) * a2) by (apply mix2; nia).
        nia.
    + exfalso.
      assert (S1 : a2 * a2 <= (-a1) * (-a1)) by (apply sq_le; lia).
      assert (S2 : b1 * b1 <= (-b2) * (-b2)) by (apply sq_le; lia).
      nia.
  - (* II + II *)
    right; right. split; [lia|split; [lia|]].
    assert (M : (-a1) * (-a2) < 2 * (b1 * b2)) by (apply mix1; nia).
    nia.
Qed.

Lemma Pos_total : forall a b, ~ Pos a b -> ~ Pos (- a) (- b) -> a = 0 /\ b = 0.
Proof.
  intros a b H1 H2. unfold Pos in *.
  destruct (Z_lt_le_dec a 0) as [La|La]; destruct (Z_lt_le_dec b 0) as [Lb|Lb].
  - exfalso. apply H2. left. lia.
  - destruct (Z.eq_dec b 0) as [Eb|Eb]; [exfalso; apply H2; left; lia|].
    destruct (Z_lt_le_dec (a * a) (2 * (b * b))) as [L|L]; [exfalso; apply H1; right; right; lia|].
    destruct (Z_lt_le_dec (2 * (b * b)) (a * a)) as [L'|L']; [exfalso; apply H2; right; left; nia|].
    assert (E : a * a = 2 * (b * b)) by lia. apply sqrt2_irrational in E. lia.
  - destruct (Z.eq_dec a 0) as [Ea|Ea]; [exfalso; apply H2; left; lia|].
    destruct (Z_lt_le_dec (2 * (b * b)) (a * a)) as [L|L]; [exfalso; apply H1; right; left; lia|].
    destruct (Z_lt_le_dec (a * a) (2 * (b * b))) as [L'|L']; [exfalso; apply H2; right; right; nia|].
    assert (E : a * a = 2 * (b * b)) by lia. apply sqrt2_irrational in E. lia.
  - destruct (Z.eq_dec a 0) as [Ea|Ea]; [|exfalso; apply H1; left; lia].
    destruct (Z.eq_dec b 0) as [Eb|Eb]; [|exfalso; apply H1; left; lia]. auto.
Qed.

Lemma zr_ltb_spec : forall x y, zr_ltb x y = true <-> Pos (fst y - fst x) (snd y - snd x).
Proof. intros [a b] [c d]. unfold zr_ltb, zr_sub. simpl fst. simpl snd. apply zr_pos_spec. Qed.

Lemma zr_ltb_false : forall x y, zr_ltb x y = false <-> ~ Pos (fst y - fst x) (snd y - snd x).
Proof.
  intros x y. rewrite <- zr_ltb_spec. destruct (zr_ltb x y); split; intros H; try congruence; try discriminate.
Qed.

Lemma zr2_ordered_costs : ordered_costs zr_zero zr_add zr_ltb.
Proof.
  constructor.
  - intros [a b]. apply zr_ltb_false. simpl. replace (a - a) with 0 by lia. replace (b - b) with 0 by lia.
    unfold Pos. lia.
  - intros [a1 a2] [b1 b2] [c1 c2]. rewrite !zr_ltb_spec. simpl. intros H1 H2.
    pose proof (Pos_add _ _ _ _ H1 H2) as H.
    replace (b1 - a1 + (c1 - b1)) with (c1 - a1) in H by lia.
    replace (b2 - a2 + (c2 - b2)) with (c2 - a2) in H by lia. assumption.
  - intros [a1 a2] [b1 b2]. rewrite !zr_ltb_false. simpl. intros H1 H2.
    replace (a1 - b1) with (- (b1 - a1)) in H2 by lia. replace (a2 - b2) with (- (b2 - a2)) in H2 by lia.
    destruct (Pos_total _ _ H1 H2). f_equal; lia.
  - intros [a1 a2] [b1 b2] [c1 c2]. unfold zr_add. simpl. f_equal; lia.
  - intros [a1 a2] [b1 b2]. unfold zr_add. simpl. f_equal; lia.
  - intros [a1 a2]. unfold zr_add, zr_zero. simpl. f_equal; lia.
  - intros [a1 a2] [b1 b2] [c1 c2]. unfold zr_ltb, zr_sub, zr_add. simpl fst. simpl snd.
    replace (b1 + c1 - (a1 + c1)) with (b1 - a1) by lia.
    replace (b2 + c2 - (a2 + c2)) with (b2 - a2) by lia. reflexivity.
Qed.

(* a sufficient linear condition for a + b sqrt 2 <= 0 (enough for all grid heuristics) *)
Lemma zr_pos_false_suff : forall a b,
  (a <= 0 /\ b <= 0) \/ (0 < b /\ a <= - 2 * b) \/ (b < 0 /\ a <= - b) -> zr_pos (a, b) = false.
Proof.
  intros a b H. destruct (zr_pos (a, b)) eqn:E; [|reflexivity]. exfalso.
  apply zr_pos_spec in E. unfold Pos in E.
  destruct H as [H|[H|H]]; destruct E as [E|[E|E]]; try lia; nia.
Qed.

Lemma zr_le_suff : forall x y : zr2,
  (fst x - fst y <= 0 /\ snd x - snd y <= 0) \/ (0 < snd x - snd y /\ fst x - fst y <= - 2 * (snd x - snd y))
  \/ (snd x - snd y < 0 /\ fst x - fst y <= - (snd x - snd y)) ->
  cle zr_ltb x y.
Proof. intros [a b] [c d] H. unfold cle, zr_ltb, zr_sub. simpl in *. apply zr_pos_false_suff. assumption. Qed.
