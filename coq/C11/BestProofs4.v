(* C11 part B - optimality of the generic closed-set best-first loop (Dijkstra / A* with a consistent heuristic):
   for non-negative weights and a consistent heuristic (h(u) <= w(u,v) + h(v), h(goal) = 0) the reported
   objective is <= the weight of every walk from the start to any goal node (within max_cost, if given),
   and INFEASIBLE means there is no such walk.  Generic in the cost type (ordered_costs) and the heap key. *)
From Coq Require Import List ZArith Bool Arith Lia Sorted.
From SV Require Import C11.BestFirst C11.BestSpec C11.BestOrder C11.BestProofs1 C11.BestProofs3.
Import ListNotations.

Section Opt.
  Context {N C K : Type}.
  Variable neqb : N -> N -> bool.
  Hypothesis neqb_spec : forall a b, neqb a b = true <-> a = b.
  Variable czero : C.
  Variable cadd : C -> C -> C.
  Variable cltb : C -> C -> bool.
  Hypothesis OC : ordered_costs czero cadd cltb.
  Variable kltb : K -> K -> bool.
  Hypothesis KO : key_order kltb.
  Variable mkkey : C -> N -> K.
  Variable limit_of : K -> C -> C.
  Variable found_status : status.
  Hypothesis found_not_infeasible : found_status <> INFEASIBLE.
  Variable nbrs : N -> list (N * C).
  Variable is_goal : N -> bool.
  Variable max_iter : Z.
  Variable max_cost : option C.
  Variable start : N.

  Notation le := (cle cltb).
  Variable wh : N -> C.                 (* weight * heuristic *)
  Variable fv : K -> C.                 (* the f-value stored in a key *)
  Hypothesis K_fv : forall a b, kltb a b = false -> le (fv b) (fv a).
  Hypothesis K_mk : forall t v, fv (mkkey t v) = cadd t (wh v).
  Hypothesis H_lim : forall k gcur v, le (fv k) (cadd gcur (wh v)) -> le (limit_of k gcur) gcur.
  Hypothesis nonneg : forall u v w, In (v, w) (nbrs u) -> le czero w.
  Hypothesis consistent : forall u v w, In (v, w) (nbrs u) -> le (wh u) (cadd w (wh v)).
  Hypothesis goal_h : forall t, is_goal t = true -> wh t = czero.

  Notation lw := (lwalk cadd nbrs).
  Notation st := (@st N C K).
  Notation relax := (relax neqb cadd cltb kltb mkkey).
  Notation expand := (expand neqb cadd cltb kltb mkkey nbrs).
  Notation loop := (loop neqb cadd cltb kltb mkkey limit_of found_status nbrs is_goal max_iter max_cost).
  Notation lk := (lookup neqb).
  Notation mem := (memb neqb).
  Notation hins := (hinsert kltb).
  Notation sorted := (StronglySorted (@ele N K kltb)).

  Ltac ssimpl := cbn [s_g s_parent s_closed s_counter s_heap s_evals].
  Tactic Notation "ssimpl" "in" hyp(H) := cbn [s_g s_parent s_closed s_counter s_heap s_evals] in H.

  Let le_refl := cle_refl czero cadd cltb OC.
  Let le_trans := cle_trans czero cadd cltb OC.

  Definition within (d : C) : Prop := match max_cost with None => True | Some mc => le d mc end.

  Lemma within_le : forall a d, le a d -> within d -> within a.
  Proof. unfold within. intros a d H W. destruct max_cost; [eapply le_trans; eassumption|exact I]. Qed.

  Lemma lw_mono : forall u a q t d, lw u a q t d -> le a d.
  Proof.
    intros u a q t d H. induction H as [u a|u a v w q t d Hin Hw IH]; [apply le_refl|].
    eapply le_trans; [|exact IH]. apply (cle_add_nonneg czero cadd cltb OC). eapply nonneg; eassumption.
  Qed.

  Lemma lw_consistent : forall u a q t d, lw u a q t d -> le (cadd a (wh u)) (cadd d (wh t)).
  Proof.
    intros u a q t d H. induction H as [u a|u a v w q t d Hin Hw IH]; [apply le_refl|].
    eapply le_trans; [|exact IH]. rewrite (oc_assoc _ _ _ OC).
    apply (cle_add_l czero cadd cltb OC). eapply consistent; eassumption.
  Qed.

  (* ---- the invariant; [ex]: the node being expanded, whose neighbours are not all relaxed yet ---- *)
  Record inv3 (ex : option N) (s : st) : Prop := {
    o_start : exists g0, lk start (s_g s) = Some g0 /\ le g0 czero;
    o_opt : forall u gu, mem u (s_closed s) = true -> lk u (s_g s) = Some gu ->
              forall q d, lw start czero q u d -> within d -> le gu d;
    o_cg : forall u, mem u (s_closed s) = true -> exists gu, lk u (s_g s) = Some gu;
    o_goal : forall u, mem u (s_closed s) = true -> is_goal u = false;
    o_exp : forall u gu, mem u (s_closed s) = true -> Some u <> ex -> lk u (s_g s) = Some gu -> within gu ->
              forall v w, In (v, w) (nbrs u) ->
                mem v (s_closed s) = true \/ exists gv, lk v (s_g s) = Some gv /\ le gv (cadd gu w);
    o_heap : forall k c v, In (k, c, v) (s_heap s) ->
              exists t gv, k = mkkey t v /\ lk v (s_g s) = Some gv /\ le gv t;
    o_cur : forall v gv, mem v (s_closed s) = false -> lk v (s_g s) = Some gv ->
              exists c, In (mkkey gv v, c, v) (s_heap s);
    o_sorted : sorted (s_heap s)
  }.

  (* every walk (within the budget) to an unclosed node passes an unclosed node y whose g is at most the weight
     of the walk's prefix up to y *)
  Lemma frontier : forall s, inv3 None s ->
    forall u a q t d, lw u a q t d ->
    forall q0, lw start czero q0 u a -> (exists gu, lk u (s_g s) = Some gu /\ le gu a) ->
    within d -> mem t (s_closed s) = false ->
    exists y gy a' q', mem y (s_closed s) = false /\ lk y (s_g s) = Some gy /\ le gy a' /\ lw y a' q' t d.
  Proof.
    intros s I u a q t d H. induction H as [u a|u a v w q t d Hin Hw IH]; intros q0 Hpre [gu [Hgu Hle]] W Ht.
    - exists u, gu, a, []. repeat split; try assumption. constructor.
    - destruct (mem u (s_closed s)) eqn:Eu.
      + pose proof (lw_mono _ _ _ _ _ Hw) as Hawd.
        assert (Haw : le a (cadd a w)) by (apply (cle_add_nonneg czero cadd cltb OC); eapply nonneg; eassumption).
        assert (Wgu : within gu) by (eapply within_le; [|exact W]; eapply le_trans; [exact Hle|]; eapply le_trans; eassumption).
        assert (Hpre' : lw start czero (q0 ++ [v]) v (cadd a w)) by (eapply lw_app; eassumption).
        apply (IH (q0 ++ [v]) Hpre'); try assumption.
        assert (Hnone : Some u <> None) by discriminate.
        destruct (o_exp _ _ I u gu Eu Hnone Hgu Wgu v w Hin) as [Hvc|[gv [Hgv Hlev]]].
        * destruct (o_cg _ _ I v Hvc) as [gv Hgv]. exists gv. split; [assumption|].
          eapply (o_opt _ _ I v gv Hvc Hgv); [exact Hpre'|]. eapply within_le; eassumption.
        * exists gv. split; [assumption|]. eapply le_trans; [exact Hlev|].
          apply (cle_add_r czero cadd cltb OC). assumption.
      + exists u, gu, a, (v :: q). repeat split; try assumption. econstructor; eassumption.
  Qed.

  Lemma frontier_start : forall s, inv3 None s ->
    forall q t d, lw start czero q t d -> within d -> mem t (s_closed s) = false ->
    exists y gy a' q', mem y (s_closed s) = false /\ lk y (s_g s) = Some gy /\ le gy a' /\ lw y a' q' t d.
  Proof.
    intros s I q t d Hw W Ht. eapply (frontier s I _ _ _ _ _ Hw []); try assumption.
    - constructor.
    - apply (o_start _ _ I).
  Qed.

  (* ---- facts at a pop ---- *)
  Section Pop.
    Variable s : st.
    Hypothesis I : inv3 None s.
    Variables (k : K) (c : nat) (cur : N) (h' : list (@entry N K)).
    Hypothesis Eh : s_heap s = (k, c, cur) :: h'.

    Lemma pop_min : forall y gy, mem y (s_closed s) = false -> lk y (s_g s) = Some gy -> le (fv k) (cadd gy (wh y)).
    Proof.
      intros y gy Hy Hgy. destruct (o_cur _ _ I y gy Hy Hgy) as [c' Hin].
      rewrite <- K_mk. apply K_fv. rewrite Eh in Hin.
      eapply (sorted_head_min kltb KO); [|exact Hin]. rewrite <- Eh. apply (o_sorted _ _ I).
    Qed.

    Lemma pop_walk : forall q t d, lw start czero q t d -> within d -> mem t (s_closed s) = false ->
      le (fv k) (cadd d (wh t)).
    Proof.
      intros q t d Hw W Ht.
      destruct (frontier_start s I q t d Hw W Ht) as [y [gy [a' [q' [Hy [Hgy [Hle Hw']]]]]]].
      eapply le_trans; [apply (pop_min y gy Hy Hgy)|].
      eapply le_trans; [|apply (lw_consistent _ _ _ _ _ Hw')].
      apply (cle_add_r czero cadd cltb OC). assumption.
    Qed.

    Lemma pop_key : forall gcur, lk cur (s_g s) = Some gcur -> le (cadd gcur (wh cur)) (fv k).
    Proof.
      intros gcur Hg. destruct (o_heap _ _ I k c cur) as [t [gv [Hk [Hgv Hle]]]]; [rewrite Eh; left; reflexivity|].
      rewrite Hg in Hgv. inversion Hgv; subst gv. rewrite Hk, K_mk.
      apply (cle_add_r czero cadd cltb OC). assumption.
    Qed.

    Lemma pop_opt : forall gcur, lk cur (s_g s) = Some gcur -> mem cur (s_closed s) = false ->
      forall q d, lw start czero q cur d -> within d -> le gcur d.
    Proof.
      intros gcur Hg Hc q d Hw W. apply (cle_cancel_r czero cadd cltb OC _ _ (wh cur)).
      eapply le_trans; [apply pop_key; assumption|]. eapply pop_walk; eassumption.
    Qed.

    Lemma pop_goal_opt : forall gcur, lk cur (s_g s) = Some gcur -> is_goal cur = true ->
      forall t q d, is_goal t = true -> lw start czero q t d -> within d -> le gcur d.
    Proof.
      intros gcur Hg Hgoal t q d Ht Hw W.
      assert (Htc : mem t (s_closed s) = false).
      { destruct (mem t (s_closed s)) eqn:E; [|reflexivity]. rewrite (o_goal _ _ I t E) in Ht. discriminate. }
      pose proof (pop_key gcur Hg) as H1. pose proof (pop_walk q t d Hw W Htc) as H2.
      rewrite (goal_h _ Hgoal), (oc_zero _ _ _ OC) in H1. rewrite (goal_h _ Ht), (oc_zero _ _ _ OC) in H2.
      eapply le_trans; eassumption.
    Qed.

    Lemma pop_limit : forall gcur, lk cur (s_g s) = Some gcur -> mem cur (s_closed s) = false ->
      over_limit cltb limit_of max_cost k gcur = true -> within gcur -> False.
    Proof.
      intros gcur Hg Hc Ho W. unfold over_limit in Ho. unfold within in W. destruct max_cost as [mc|]; [|discriminate].
      assert (H1 : le (limit_of k gcur) gcur) by (eapply H_lim; apply pop_min; eassumption).
      pose proof (clt_cle_trans czero cadd cltb OC _ _ _ Ho H1) as H2. unfold cle in W. congruence.
    Qed.

    (* popping an entry of an already closed node *)
    Lemma pop_skip : mem cur (s_closed s) = true ->
      inv3 None (mkSt (s_g s) (s_parent s) (s_closed s) (s_counter s) h' (s_evals s)).
    Proof.
      intros Hc. destruct I as [O0 O1 Oc Og O3 Hh Hcu Hs]. constructor; ssimpl; try assumption.
      - intros k' c' v Hin. apply (Hh k' c' v). rewrite Eh. right. assumption.
      - intros v gv Hv Hgv. destruct (Hcu v gv Hv Hgv) as [c' Hin]. rewrite Eh in Hin.
        destruct Hin as [E|Hin]; [inversion E; subst; congruence|]. exists c'. assumption.
      - rewrite Eh in Hs. eapply sorted_tail. eassumption.
    Qed.

    (* popping and closing a non-goal node *)
    Lemma pop_close : forall gcur, mem cur (s_closed s) = false -> lk cur (s_g s) = Some gcur -> is_goal cur = false ->
      inv3 (Some cur) (mkSt (s_g s) (s_parent s) (cur :: s_closed s) (s_counter s) h' (s_evals s)).
    Proof.
      intros gcur Hc Hg Hgoal. pose proof (pop_opt gcur Hg Hc) as Hopt.
      destruct I as [O0 O1 Oc Og O3 Hh Hcu Hs]. constructor; ssimpl.
      - assumption.
      - intros u gu Hu Hgu. simpl in Hu. destruct (neqb u cur) eqn:E.
        + apply neqb_spec in E. subst u. rewrite Hg in Hgu. inversion Hgu; subst. assumption.
        + apply O1; assumption.
      - intros u Hu. simpl in Hu. destruct (neqb u cur) eqn:E.
        + apply neqb_spec in E. subst u. eauto.
        + apply Oc; assumption.
      - intros u Hu. simpl in Hu. destruct (neqb u cur) eqn:E.
        + apply neqb_spec in E. subst u. assumption.
        + apply Og; assumption.
      - intros u gu Hu Hne Hgu W v w Hin. simpl in Hu. destruct (neqb u cur) eqn:E.
        + apply neqb_spec in E. subst u. congruence.
        + assert (Hnone : Some u <> None) by discriminate.
          destruct (O3 u gu Hu Hnone Hgu W v w Hin) as [Hv|Hv]; [left; apply memb_cons; assumption|right; assumption].
      - intros k' c' v Hin. apply (Hh k' c' v). rewrite Eh. right. assumption.
      - intros v gv Hv Hgv. simpl in Hv. destruct (neqb v cur) eqn:E; [discriminate|].
        destruct (Hcu v gv Hv Hgv) as [c' Hin]. rewrite Eh in Hin.
        destruct Hin as [E'|Hin]; [inversion E'; subst; rewrite (eqb_refl neqb neqb_spec) in E; discriminate|].
        exists c'. assumption.
      - rewrite Eh in Hs. eapply sorted_tail. eassumption.
    Qed.
  End Pop.

  (* a closed node over the budget needs no expansion *)
  Lemma unexpanded_ok : forall s cur gcur,
    inv3 (Some cur) s -> lk cur (s_g s) = Some gcur -> (within gcur -> False) -> inv3 None s.
  Proof.
    intros s cur gcur [O0 O1 Oc Og O3 Hh Hcu Hs] Hg Hw. constructor; try assumption.
    intros u gu Hu _ Hgu W v w Hin. destruct (eqb_dec neqb neqb_spec u cur) as [E|E].
    - subst u. rewrite Hg in Hgu. inversion Hgu; subst. contradiction.
    - apply (O3 u gu); try assumption. congruence.
  Qed.

  (* ---- one relaxation ---- *)
  Lemma relax_inv3 : forall cur gcur s v w,
    inv3 (Some cur) s -> mem cur (s_closed s) = true -> lk cur (s_g s) = Some gcur ->
    let s' := relax cur gcur s (v, w) in
    inv3 (Some cur) s' /\ s_closed s' = s_closed s /\ lk cur (s_g s') = Some gcur /\
    (forall x gx, lk x (s_g s) = Some gx -> exists gx', lk x (s_g s') = Some gx' /\ le gx' gx) /\
    (mem v (s_closed s) = true \/ exists gv, lk v (s_g s') = Some gv /\ le gv (cadd gcur w)).
  Proof.
    intros cur gcur s v w I Hc Hg. unfold BestFirst.relax.
    assert (Hsame : forall x gx, lk x (s_g s) = Some gx -> exists gx', lk x (s_g s) = Some gx' /\ le gx' gx)
      by (intros x gx Hx; exists gx; split; [assumption|apply le_refl]).
    destruct (mem v (s_closed s)) eqn:Ev.
    { split; [assumption|]. split; [reflexivity|]. split; [assumption|]. split; [assumption|]. left; reflexivity. }
    set (t := cadd gcur w).
    assert (Hvc : v <> cur) by (intros E; subst; congruence).
    assert (Hnc : forall x, mem x (s_closed s) = true -> x <> v) by (intros x Hx E; subst; congruence).
    destruct (match lk v (s_g s) with Some gv => cltb t gv | None => true end) eqn:Econd.
    2:{ destruct (lk v (s_g s)) as [gv|] eqn:Egv; [|discriminate].
        split; [assumption|]. split; [reflexivity|]. split; [assumption|]. split; [assumption|].
        right. exists gv. split; [reflexivity|exact Econd]. }
    assert (Hold : forall gv, lk v (s_g s) = Some gv -> le t gv).
    { intros gv Hgv. rewrite Hgv in Econd. apply (clt_cle czero cadd cltb OC). assumption. }
    assert (Hdecr : forall x gx, lk x (s_g s) = Some gx -> exists gx', lk x ((v, t) :: s_g s) = Some gx' /\ le gx' gx).
    { intros x gx Hx. destruct (eqb_dec neqb neqb_spec x v) as [E|E].
      - subst x. exists t. rewrite (lookup_cons_eq neqb neqb_spec). split; [reflexivity|apply Hold; assumption].
      - exists gx. rewrite (lookup_cons_neq neqb neqb_spec) by assumption. split; [assumption|apply le_refl]. }
    split; [|split; [reflexivity|split; [ssimpl; rewrite (lookup_cons_neq neqb neqb_spec); auto|split; [exact Hdecr|]]]].
    2:{ right. exists t. ssimpl. rewrite (lookup_cons_eq neqb neqb_spec). split; [reflexivity|apply le_refl]. }
    destruct I as [O0 O1 Oc Og O3 Hh Hcu Hs]. constructor; ssimpl.
    - destruct O0 as [g0 [Hg0 Hle0]]. destruct (Hdecr _ _ Hg0) as [g0' [H1 H2]].
      exists g0'. split; [assumption|eapply le_trans; eassumption].
    - intros u gu Hu Hgu. rewrite (lookup_cons_neq neqb neqb_spec) in Hgu by (apply Hnc; assumption).
      apply O1; assumption.
    - intros u Hu. rewrite (lookup_cons_neq neqb neqb_spec) by (apply Hnc; assumption). apply Oc; assumption.
    - assumption.
    - intros u gu Hu Hne Hgu W v0 w0 Hin.
      rewrite (lookup_cons_neq neqb neqb_spec) in Hgu by (apply Hnc; assumption).
      destruct (O3 u gu Hu Hne Hgu W v0 w0 Hin) as [Hv0|[gv0 [Hgv0 Hle0]]]; [left; assumption|].
      right. destruct (Hdecr _ _ Hgv0) as [g' [H1 H2]]. exists g'. split; [assumption|eapply le_trans; eassumption].
    - intros k' c' x Hin. apply (hinsert_In' kltb) in Hin. destruct Hin as [E|Hin].
      + inversion E; subst. exists t, t. rewrite (lookup_cons_eq neqb neqb_spec). repeat split. apply le_refl.
      + destruct (Hh _ _ _ Hin) as [t' [gx [Hk [Hgx Hle]]]].
        destruct (Hdecr _ _ Hgx) as [g' [H1 H2]]. exists t', g'. repeat split; try assumption.
        eapply le_trans; eassumption.
    - intros x gx Hx Hgx. destruct (eqb_dec neqb neqb_spec x v) as [E|E].
      + subst x. rewrite (lookup_cons_eq neqb neqb_spec) in Hgx. inversion Hgx; subst gx.
        exists (s_counter s). apply (hinsert_In' kltb). left. reflexivity.
      + rewrite (lookup_cons_neq neqb neqb_spec) in Hgx by assumption.
        destruct (Hcu x gx Hx Hgx) as [c' Hin]. exists c'. apply (hinsert_In' kltb). right. assumption.
    - apply (hinsert_sorted kltb KO). assumption.
  Qed.

  Lemma fold_relax_inv3 : forall cur gcur l s,
    inv3 (Some cur) s -> mem cur (s_closed s) = true -> lk cur (s_g s) = Some gcur ->
    let s' := fold_left (relax cur gcur) l s in
    inv3 (Some cur) s' /\ s_closed s' = s_closed s /\ lk cur (s_g s') = Some gcur /\
    (forall x gx, lk x (s_g s) = Some gx -> exists gx', lk x (s_g s') = Some gx' /\ le gx' gx) /\
    (forall v w, In (v, w) l -> mem v (s_closed s) = true \/ exists gv, lk v (s_g s') = Some gv /\ le gv (cadd gcur w)).
  Proof.
    intros cur gcur l. induction l as [|[v w] l IH]; intros s I Hc Hg; simpl.
    - split; [assumption|]. split; [reflexivity|]. split; [assumption|]. split.
      + intros x gx Hx. exists gx. split; [assumption|apply le_refl].
      + intros v w [].
    - destruct (relax_inv3 cur gcur s v w I Hc Hg) as [I1 [Hc1 [Hg1 [Hd1 Hv1]]]].
      assert (Hc1' : mem cur (s_closed (relax cur gcur s (v, w))) = true) by (rewrite Hc1; assumption).
      destruct (IH _ I1 Hc1' Hg1) as [I2 [Hc2 [Hg2 [Hd2 Hl2]]]].
      split; [assumption|]. split; [etransitivity; [exact Hc2|exact Hc1]|]. split; [assumption|]. split.
      + intros x gx Hx. destruct (Hd1 _ _ Hx) as [g1 [H1 H1']]. destruct (Hd2 _ _ H1) as [g2 [H2 H2']].
        exists g2. split; [assumption|eapply le_trans; eassumption].
      + intros v' w' [E|Hin].
        * inversion E; subst v' w'. destruct Hv1 as [Hv1|[gv [Hgv Hle]]]; [left; assumption|].
          right. destruct (Hd2 _ _ Hgv) as [g2 [H2 H2']]. exists g2. split; [assumption|eapply le_trans; eassumption].
        * destruct (Hl2 _ _ Hin) as [H|H]; [left; rewrite <- Hc1; assumption|right; assumption].
  Qed.

  Lemma expand_inv3 : forall cur gcur s,
    inv3 (Some cur) s -> mem cur (s_closed s) = true -> lk cur (s_g s) = Some gcur ->
    inv3 None (expand cur gcur s).
  Proof.
    intros cur gcur s I Hc Hg. unfold BestFirst.expand.
    destruct (fold_relax_inv3 cur gcur (nbrs cur) s I Hc Hg) as [[O0 O1 Oc Og O3 Hh Hcu Hs] [Hc' [Hg' [Hd Hl]]]].
    constructor; try assumption.
    intros u gu Hu _ Hgu W v w Hin. destruct (eqb_dec neqb neqb_spec u cur) as [E|E].
    - subst u. rewrite Hg' in Hgu. inversion Hgu; subst gu.
      destruct (Hl _ _ Hin) as [H|H]; [left; rewrite Hc'; assumption|right; assumption].
    - apply (O3 u gu); try assumption. congruence.
  Qed.

  (* ---- the loop ---- *)
  Definition opt_res (r : result N C) : Prop :=
    (forall d0, r_obj r = Some d0 ->
       forall t q d, is_goal t = true -> lw start czero q t d -> within d -> le d0 d)
    /\ (r_status r = INFEASIBLE ->
       forall t q d, is_goal t = true -> lw start czero q t d -> within d -> False).

  Lemma loop_inv3 : forall fuel s iters r, inv3 None s -> loop fuel s iters = Some r -> opt_res r.
  Proof.
    induction fuel as [|f IH]; intros s iters r I H; [discriminate|].
    simpl in H.
    destruct (s_heap s) as [|[[k c] cur] h'] eqn:Eh.
    { inversion H; subst. clear H. split; [intros d0 Hd; discriminate|].
      intros _ t q d Ht Hw W.
      assert (Htc : mem t (s_closed s) = false).
      { destruct (mem t (s_closed s)) eqn:E; [|reflexivity]. rewrite (o_goal _ _ I t E) in Ht. discriminate. }
      destruct (frontier_start s I q t d Hw W Htc) as [y [gy [a' [q' [Hy [Hgy _]]]]]].
      destruct (o_cur _ _ I y gy Hy Hgy) as [c' Hin]. rewrite Eh in Hin. destruct Hin. }
    destruct (iters <? max_iter)%Z eqn:Elt; simpl in H.
    2:{ inversion H; subst. split; [intros d0 Hd; discriminate|]. simpl.
        destruct (max_iter <=? iters)%Z eqn:E; [discriminate|]. lia. }
    destruct (mem cur (s_closed s)) eqn:Ec.
    { eapply IH; [|exact H]. eapply pop_skip; eassumption. }
    destruct (lk cur (s_g s)) as [gcur|] eqn:Eg; [|discriminate].
    destruct (is_goal cur) eqn:Egoal.
    { destruct (reconstruct_path neqb (s_parent s) cur); [|discriminate].
      inversion H; subst. clear H. split; simpl.
      - intros d0 Hd. inversion Hd; subst d0. eapply pop_goal_opt; eassumption.
      - intros; contradiction. }
    pose proof (pop_close s I k c cur h' Eh gcur Ec Eg Egoal) as I2.
    set (s2 := mkSt (s_g s) (s_parent s) (cur :: s_closed s) (s_counter s) h' (s_evals s)) in *.
    assert (Hc2 : mem cur (s_closed s2) = true) by (simpl; rewrite (eqb_refl neqb neqb_spec); reflexivity).
    destruct (over_limit cltb limit_of max_cost k gcur) eqn:Eo.
    - eapply IH; [|exact H]. eapply unexpanded_ok; [exact I2|exact Eg|].
      eapply pop_limit; eassumption.
    - eapply IH; [|exact H]. apply expand_inv3; assumption.
  Qed.

  Theorem best_first_optimal : forall fuel r,
    best_first neqb czero cadd cltb kltb mkkey limit_of found_status nbrs is_goal max_iter max_cost fuel start = Some r ->
    opt_res r.
  Proof.
    intros fuel r H. unfold best_first in H. eapply loop_inv3; [|exact H].
    unfold init_st. constructor; ssimpl.
    - exists czero. rewrite (lookup_cons_eq neqb neqb_spec). split; [reflexivity|apply le_refl].
    - intros; discriminate.
    - intros; discriminate.
    - intros; discriminate.
    - intros; discriminate.
    - intros k c v [E|[]]. inversion E; subst. exists czero, czero.
      rewrite (lookup_cons_eq neqb neqb_spec). repeat split. apply le_refl.
    - intros v gv _ Hgv. simpl in Hgv. destruct (neqb v start) eqn:E; [|discriminate].
      apply neqb_spec in E. subst. inversion Hgv; subst. exists O. left. reflexivity.
    - constructor; constructor.
  Qed.
End Opt.
