(* C11 shared specification: weighted multigraphs as edge lists, walks, weights, distances.
   Definitions only (always compiles); basic lemmas are in PathsLemmas.v.
   Imported by part A (BellmanFord, FloydWarshall, Bfs) and part B (best-first solvers). *)
From Coq Require Import List ZArith Bool Arith.
Import ListNotations.
Open Scope Z_scope.

(* A weighted directed multigraph: list of (source, target, weight); duplicates, self loops,
   zero and negative weights allowed. *)
Definition wgraph := list (nat * nat * Z).

(* [walk g u t p d]: p is the vertex sequence of a walk u ~> t in g (p starts with u, ends with t),
   for SOME choice of parallel edges along it the weights sum to d. *)
Inductive walk (g : wgraph) : nat -> nat -> list nat -> Z -> Prop :=
| walk_nil  : forall u, walk g u u [u] 0
| walk_cons : forall u v t p w d,
    In (u, v, w) g -> walk g v t p d -> walk g u t (u :: p) (w + d).

Definition reachable (g : wgraph) (s t : nat) : Prop := exists p d, walk g s t p d.

(* d is the shortest-walk weight s ~> t: attained and minimal *)
Definition is_dist (g : wgraph) (s t : nat) (d : Z) : Prop :=
  (exists p, walk g s t p d) /\ forall p' d', walk g s t p' d' -> d <= d'.

(* a closed walk of negative weight through a vertex reachable from s *)
Definition neg_cycle_reachable (g : wgraph) (s : nat) : Prop :=
  exists v p d, reachable g s v /\ walk g v v p d /\ d < 0 /\ (1 < length p)%nat.

(* a negative closed walk anywhere *)
Definition neg_cycle (g : wgraph) : Prop :=
  exists v p d, walk g v v p d /\ d < 0 /\ (1 < length p)%nat.

(* ---- unweighted view (bfs / dfs): successor function, paths by hop count ---- *)
(* [path_in succ p]: consecutive vertices of p are linked by succ *)
Fixpoint path_in (succ : nat -> list nat) (p : list nat) : Prop :=
  match p with
  | [] => False
  | [u] => True
  | u :: ((v :: _) as q) => In v (succ u) /\ path_in succ q
  end.

(* p is a succ-path from s to t *)
Definition is_path (succ : nat -> list nat) (s t : nat) (p : list nat) : Prop :=
  path_in succ p /\ hd_error p = Some s /\ last p s = t /\ p <> [].

Definition reach (succ : nat -> list nat) (s t : nat) : Prop := exists p, is_path succ s t p.

(* unit-weight graph of a successor function restricted to a finite vertex list *)
Definition unit_graph (nodes : list nat) (succ : nat -> list nat) : wgraph :=
  flat_map (fun u => map (fun v => (u, v, 1)) (succ u)) nodes.

(* ---- boolean twins, usable on implementation outputs inside coqc ---- *)
Definition edge_eqb (e f : nat * nat * Z) : bool :=
  Nat.eqb (fst (fst e)) (fst (fst f)) && Nat.eqb (snd (fst e)) (snd (fst f)) && Z.eqb (snd e) (snd f).

(* weights of all parallel edges u -> v, in edge-list order *)
Definition edge_weights (g : wgraph) (u v : nat) : list Z :=
  map snd (filter (fun e => Nat.eqb (fst (fst e)) u && Nat.eqb (snd (fst e)) v) g).

(* minimum weight among parallel edges u -> v (None: no such edge) *)
Definition min_edge (g : wgraph) (u v : nat) : option Z :=
  match edge_weights g u v with
  | [] => None
  | w :: ws => Some (fold_left Z.min ws w)
  end.

(* [walk_sums g p]: all weights d such that walk g (hd p) (last p) p d, as a duplicate-carrying list;
   exponential only in the number of parallel edges, fine for checking. *)
Fixpoint walk_sums (g : wgraph) (p : list nat) : list Z :=
  match p with
  | [] => []
  | [u] => [0]
  | u :: ((v :: _) as q) =>
      flat_map (fun w => map (fun d => w + d) (walk_sums g q)) (edge_weights g u v)
  end.

(* p is a walk s ~> t of weight d for some choice of parallel edges *)
Definition walk_check (g : wgraph) (s t : nat) (p : list nat) (d : Z) : bool :=
  match p with
  | [] => false
  | u :: _ => Nat.eqb u s && Nat.eqb (last p s) t && existsb (Z.eqb d) (walk_sums g p)
  end.

(* minimal walk weight along a fixed vertex sequence (None if some step is not an edge) *)
Fixpoint walk_min (g : wgraph) (p : list nat) : option Z :=
  match p with
  | [] => None
  | [u] => Some 0
  | u :: ((v :: _) as q) =>
      match min_edge g u v, walk_min g q with
      | Some w, Some d => Some (w + d)
      | _, _ => None
      end
  end.
