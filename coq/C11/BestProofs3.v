(* C11 part B - the sorted-list heap: ordered insertion keeps the list sorted, so the head (heappop) is a minimum
   of the key order.  Generic in the key type (strict weak order on keys, ties broken by the unique counter). *)
From Coq Require Import List ZArith Bool Arith Lia Sorted.
From SV Require Import C11.BestFirst C11.BestOrder.
Import ListNotations.

Section Heap.
  Context {N K : Type}.
  Variable kltb : K -> K -> bool.
  Hypothesis KO : key_order kltb.

  Notation entry := (@entry N K).
  Notation eltb := (@entry_ltb N K kltb).

  Definition ele (a b : entry) : Prop := eltb b a = false.

  Lemma eltb_asym : forall a b : entry, eltb a b = true -> eltb b a = false.
  Proof.
    intros [[ka ca] na] [[kb cb] nb] H. unfold entry_ltb in *.
    destruct (kltb ka kb) eqn:E1.
    - rewrite (ko_asym _ KO _ _ E1). reflexivity.
    - destruct (kltb kb ka) eqn:E2; [discriminate|].
      apply Nat.ltb_lt in H. apply Nat.ltb_ge. lia.
  Qed.

  Lemma eltb_trans : forall a b c : entry, eltb a b = true -> eltb b c = true -> eltb a c = true.
  Proof.
    intros [[ka ca] na] [[kb cb] nb] [[kc cc] nc] H1 H2. unfold entry_ltb in *.
    destruct (kltb ka kb) eqn:Eab.
    - destruct (kltb kb kc) eqn:Ebc.
      + rewrite (ko_trans _ KO _ _ _ Eab Ebc). reflexivity.
      + destruct (kltb kc kb) eqn:Ecb; [discriminate|].
        destruct (kltb ka kc) eqn:Eac; [reflexivity|].
        rewrite (ko_negtrans _ KO _ _ _ Eac Ecb) in Eab. discriminate.
    - destruct (kltb kb ka) eqn:Eba; [discriminate|].
      destruct (kltb kb kc) eqn:Ebc.
      + destruct (kltb ka kc) eqn:Eac; [reflexivity|].
        rewrite (ko_negtrans _ KO _ _ _ Eba Eac) in Ebc. discriminate.
      + destruct (kltb kc kb) eqn:Ecb; [discriminate|].
        rewrite (ko_negtrans _ KO _ _ _ Eab Ebc).
        rewrite (ko_negtrans _ KO _ _ _ Ecb Eba).
        apply Nat.ltb_lt in H1, H2. apply Nat.ltb_lt. lia.
  Qed.

  Lemma hinsert_In' : forall (e e' : entry) h, In e' (hinsert kltb e h) <-> e' = e \/ In e' h.
  Proof.
    intros e e' h. induction h as [|x h IH]; simpl.
    - intuition.
    - destruct (eltb e x); simpl; [intuition|]. rewrite IH. intuition.
  Qed.

  Lemma hinsert_sorted : forall (e : entry) h, StronglySorted ele h -> StronglySorted ele (hinsert kltb e h).
  Proof.
    intros e h H. induction H as [|x h Hs IH Hf]; simpl.
    - constructor; constructor.
    - destruct (eltb e x) eqn:E.
      + constructor; [constructor; assumption|].
        constructor.
        * unfold ele. apply eltb_asym. assumption.
        * rewrite Forall_forall in *. intros y Hy. unfold ele.
          destruct (eltb y e) eqn:Ey; [|reflexivity].
          pose proof (eltb_trans _ _ _ Ey E) as Hyx. specialize (Hf _ Hy). unfold ele in Hf. congruence.
      + constructor; [assumption|].
        rewrite Forall_forall in *. intros y Hy. apply hinsert_In' in Hy. destruct Hy as [Hy|Hy].
        * subst. exact E.
        * apply Hf. assumption.
  Qed.

  Lemma sorted_tail : forall (x : entry) h, StronglySorted ele (x :: h) -> StronglySorted ele h.
  Proof. intros x h H. inversion H; assumption. Qed.

  (* the popped entry has a minimal key *)
  Lemma sorted_head_min : forall k c v h k' c' v',
    StronglySorted ele ((k, c, v) :: h) -> In (k', c', v') ((k, c, v) :: h) -> kltb k' k = false.
  Proof.
    intros k c v h k' c' v' H Hin. inversion H as [|x l Hs Hf]; subst.
    destruct Hin as [E|Hin].
    - inversion E; subst. destruct (kltb k' k') eqn:E1; [|reflexivity].
      rewrite (ko_asym _ KO _ _ E1) in E1. discriminate.
    - rewrite Forall_forall in Hf. specialize (Hf _ Hin). unfold ele, entry_ltb in Hf.
      destruct (kltb k' k); [discriminate|reflexivity].
  Qed.
End Heap.
