(* C11 bfs/dfs: the statements about Bfs.search / Bfs.bfs / Bfs.dfs themselves. *)
From Coq Require Import List ZArith Bool Arith Lia.
From SV Require Import C11.Paths C11.PathsLemmas C11.Bfs C11.BfsProofs1 C11.BfsProofs2 C11.BfsProofs3.
Import ListNotations.
Import Bfs.
Local Open Scope nat_scope.

Lemma succ_of_in adj u x : In x (succ_of adj u) -> In x (flat_map snd adj).
Proof.
  unfold succ_of. induction adj as [|[k l] adj IH]; simpl; [intros []|].
  destruct (Nat.eqb k u); intros H; apply in_app_iff; [now left|right; now apply IH].
Qed.

Lemma init_invABN start goal (succ : nat -> list nat) : invABN succ start goal 0%Z (init start).
Proof.
  split; [split; [apply invA_init|apply invB_init]|apply invN_init].
Qed.

(* ---- the fuel given by search always suffices ---- *)
Section Fuel.
Variable adj : adjl.
Variable start : nat.
Let U := start :: flat_map snd adj.

Lemma loop_fuel_ok m goal max_iter : forall fuel it st,
  invN it st -> incl (visited st) U -> (Z.of_nat (length U) - it < Z.of_nat fuel)%Z ->
  loop fuel m (succ_of adj) goal max_iter it st <> None.
Proof.
  induction fuel as [|f IH]; intros it st HN Hin Hf.
  - exfalso. destruct HN as (Hnd & _ & _ & Hc).
    pose proof (NoDup_incl_length Hnd Hin). simpl Z.of_nat in Hf at 2. lia.
  - simpl. destruct (frontier st) as [|cur rest] eqn:Ef; [discriminate|].
    destruct (it <? max_iter)%Z; [|discriminate].
    destruct (match goal with Some isg => isg cur | None => false end).
    + destruct (reconstruct_path (parent st) cur); discriminate.
    + apply IH.
      * apply (invN_step (succ_of adj) m it st cur rest HN Ef).
      * unfold pop_expand. rewrite expand_char. cbn [visited].
        intros x Hx. apply in_app_iff in Hx as [Hx|Hx]; [|now apply Hin].
        apply in_rev in Hx. apply fresh_spec in Hx as [Hx _]. right. eapply succ_of_in; eauto.
      * lia.
Qed.

Lemma search_some m goal max_iter : exists r, search m adj start goal max_iter = Some r.
Proof.
  destruct (search m adj start goal max_iter) as [r|] eqn:E; [eauto|]. exfalso. revert E.
  apply loop_fuel_ok.
  - apply invN_init.
  - intros x [<-|[]]. now left.
  - unfold fuel_of. fold U. change (length U) with (S (length (flat_map snd adj))). lia.
Qed.

End Fuel.

(* ---- results ---- *)
Theorem search_spec m adj start goal max_iter r :
  search m adj start goal max_iter = Some r -> result_spec (succ_of adj) start goal m max_iter r.
Proof. apply loop_spec. apply init_invABN. Qed.

Theorem bfs_shortest adj start goal max_iter s p obj :
  bfs adj start goal max_iter = Some (Found s p obj) ->
  forall t q, is_path (succ_of adj) start t q -> goal_test goal t = true -> (obj <= Z.of_nat (length q) - 1)%Z.
Proof.
  intros H. eapply bfs_loop_shortest; [| |exact H|reflexivity].
  - split; [split; [apply invA_init|apply invB_init]|apply invC_init].
  - apply invN_init.
Qed.

(* readable corollaries *)
Definition goal_reachable (succ : nat -> list nat) (start : nat) (isg : nat -> bool) : Prop :=
  exists t, reach succ start t /\ isg t = true.

Theorem search_path_valid m adj start goal max_iter s p obj :
  search m adj start goal max_iter = Some (Found s p obj) ->
  exists t, is_path (succ_of adj) start t p /\ goal_test goal t = true /\ obj = (Z.of_nat (length p) - 1)%Z.
Proof. intros H. apply search_spec in H. exact (proj2 H). Qed.

(* unless the iteration limit was hit: INFEASIBLE iff no goal node is reachable, a path is found iff one is *)
Theorem search_infeasible_iff m adj start isg max_iter r :
  search m adj start (Some isg) max_iter = Some r -> r <> NotFound MAX_ITER ->
  (r = NotFound INFEASIBLE <-> ~ goal_reachable (succ_of adj) start isg).
Proof.
  intros H Hm. apply search_spec in H. split.
  - intros ->. destruct H as [_ H]. intros (t & Ht & Hg). specialize (H t Ht). simpl in H. congruence.
  - intros Hn. destruct r as [s p obj|[]|vs obj|]; simpl in H; try tauto; try congruence.
    + exfalso. apply Hn. destruct H as (_ & t & Hp & Hg & _). exists t. split; [now exists p|exact Hg].
    + destruct H as [H _]. discriminate.
Qed.

Theorem search_finds_iff_reachable m adj start isg max_iter r :
  search m adj start (Some isg) max_iter = Some r -> r <> NotFound MAX_ITER ->
  ((exists p obj, r = Found (found_status m) p obj) <-> goal_reachable (succ_of adj) start isg).
Proof.
  intros H Hm. pose proof (search_infeasible_iff _ _ _ _ _ _ H Hm) as Hi.
  apply search_spec in H. split.
  - intros (p & obj & ->). destruct H as (_ & t & Hp & Hg & _). exists t. split; [now exists p|exact Hg].
  - intros Hr. destruct r as [s p obj|[]|vs obj|]; simpl in H; try tauto; try congruence.
    + destruct H as [-> _]. eauto.
    + destruct H as [H _]. discriminate.
Qed.

(* the limit is only reported when it was really reached *)
Theorem search_max_iter_real m adj start goal max_iter :
  search m adj start goal max_iter = Some (NotFound MAX_ITER) ->
  exists vs, NoDup vs /\ (forall v, In v vs -> reach (succ_of adj) start v) /\ (max_iter <= Z.of_nat (length vs))%Z.
Proof. intros H. apply search_spec in H. exact (proj2 H). Qed.

(* goal None: the visited set is sound, and complete unless the limit stopped the search *)
Theorem search_visited m adj start max_iter vs obj :
  search m adj start None max_iter = Some (Visited vs obj) ->
  obj = Z.of_nat (length vs) /\ NoDup vs /\ (forall v, In v vs -> reach (succ_of adj) start v) /\
  ((Z.of_nat (length vs) < max_iter)%Z -> forall t, reach (succ_of adj) start t <-> In t vs).
Proof.
  intros H. apply search_spec in H. destruct H as (_ & Ho & Hs & Hnd & Hsound & Hcomp).
  repeat split; auto.
Qed.
