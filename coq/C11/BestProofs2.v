(* C11 part B - INFEASIBLE is sound: without a max_cost limit, if the generic best-first loop ends with status
   INFEASIBLE (heap exhausted before max_iter) then no goal node is reachable from the start.
   No assumption on weights, heuristic or cost type. *)
From Coq Require Import List ZArith Bool Arith Lia.
From SV Require Import C11.BestFirst C11.BestSpec C11.BestProofs1.
Import ListNotations.

Section Proofs2.
  Context {N C K : Type}.
  Variable neqb : N -> N -> bool.
  Hypothesis neqb_spec : forall a b, neqb a b = true <-> a = b.
  Variable czero : C.
  Variable cadd : C -> C -> C.
  Variable cltb : C -> C -> bool.
  Variable kltb : K -> K -> bool.
  Variable mkkey : C -> N -> K.
  Variable limit_of : K -> C -> C.
  Variable found_status : status.
  Hypothesis found_not_infeasible : found_status <> INFEASIBLE.
  Variable nbrs : N -> list (N * C).
  Variable is_goal : N -> bool.
  Variable max_iter : Z.
  Variable start : N.

  Notation lw := (lwalk cadd nbrs).
  Notation st := (@st N C K).
  Notation relax := (relax neqb cadd cltb kltb mkkey).
  Notation expand := (expand neqb cadd cltb kltb mkkey nbrs).
  Notation loop := (loop neqb cadd cltb kltb mkkey limit_of found_status nbrs is_goal max_iter None).
  Notation lk := (lookup neqb).
  Notation mem := (memb neqb).
  Notation hins := (hinsert kltb).

  Ltac ssimpl := cbn [s_g s_parent s_closed s_counter s_heap s_evals].
  Tactic Notation "ssimpl" "in" hyp(H) := cbn [s_g s_parent s_closed s_counter s_heap s_evals] in H.

  Lemma hinsert_In : forall (e e' : @entry N K) h, In e' (hins e h) <-> e' = e \/ In e' h.
  Proof.
    intros e e' h. induction h as [|x h IH]; simpl.
    - intuition.
    - destruct (entry_ltb kltb e x); simpl; [intuition|]. rewrite IH. intuition.
  Qed.

  Definition has_g (s : st) (v : N) : Prop := exists gv, lk v (s_g s) = Some gv.
  Definition in_heap (s : st) (v : N) : Prop := exists k c, In (k, c, v) (s_heap s).

  (* discovered nodes are closed or wait in the heap; closed nodes are discovered *)
  Definition P (s : st) : Prop :=
    (forall v, has_g s v -> mem v (s_closed s) = true \/ in_heap s v) /\
    (forall u, mem u (s_closed s) = true -> has_g s u).

  Lemma relax_P : forall cur gcur s v w,
    P s ->
    let s' := relax cur gcur s (v, w) in
    P s' /\ s_closed s' = s_closed s /\ (forall x, has_g s x -> has_g s' x) /\ has_g s' v.
  Proof.
    intros cur gcur s v w [Pa Pc]. unfold BestFirst.relax.
    destruct (mem v (s_closed s)) eqn:Ev.
    { repeat split; auto. }
    destruct (lk v (s_g s)) as [gv|] eqn:Eg.
    - destruct (cltb (cadd gcur w) gv).
      + assert (Hmono : forall x, has_g s x ->
                  has_g (mkSt ((v, cadd gcur w) :: s_g s) ((v, cur) :: s_parent s) (s_closed s) (S (s_counter s))
                              (hins (mkkey (cadd gcur w) v, s_counter s, v) (s_heap s)) (s_evals s + 1)) x).
        { intros x [gx Hx]. unfold has_g. ssimpl. destruct (eqb_dec neqb neqb_spec x v) as [E|E].
          - subst. rewrite (lookup_cons_eq neqb neqb_spec). eauto.
          - rewrite (lookup_cons_neq neqb neqb_spec) by assumption. eauto. }
        repeat split; ssimpl.
        * intros x [gx Hx]. ssimpl in Hx. destruct (eqb_dec neqb neqb_spec x v) as [E|E].
          -- subst. right. exists (mkkey (cadd gcur w) v), (s_counter s). ssimpl. apply hinsert_In. left. reflexivity.
          -- rewrite (lookup_cons_neq neqb neqb_spec) in Hx by assumption.
             destruct (Pa x (ex_intro _ gx Hx)) as [H|[k [c H]]]; [left; assumption|].
             right. exists k, c. ssimpl. apply hinsert_In. right. assumption.
        * intros u Hu. apply Hmono. apply Pc. assumption.
        * exact Hmono.
        * unfold has_g. ssimpl. rewrite (lookup_cons_eq neqb neqb_spec). eauto.
      + repeat split; auto. exists gv. assumption.
    - assert (Hmono : forall x, has_g s x ->
                  has_g (mkSt ((v, cadd gcur w) :: s_g s) ((v, cur) :: s_parent s) (s_closed s) (S (s_counter s))
                              (hins (mkkey (cadd gcur w) v, s_counter s, v) (s_heap s)) (s_evals s + 1)) x).
      { intros x [gx Hx]. unfold has_g. ssimpl. destruct (eqb_dec neqb neqb_spec x v) as [E|E].
        - subst. rewrite (lookup_cons_eq neqb neqb_spec). eauto.
        - rewrite (lookup_cons_neq neqb neqb_spec) by assumption. eauto. }
      repeat split; ssimpl.
      * intros x [gx Hx]. ssimpl in Hx. destruct (eqb_dec neqb neqb_spec x v) as [E|E].
        -- subst. right. exists (mkkey (cadd gcur w) v), (s_counter s). ssimpl. apply hinsert_In. left. reflexivity.
        -- rewrite (lookup_cons_neq neqb neqb_spec) in Hx by assumption.
           destruct (Pa x (ex_intro _ gx Hx)) as [H|[k [c H]]]; [left; assumption|].
           right. exists k, c. ssimpl. apply hinsert_In. right. assumption.
      * intros u Hu. apply Hmono. apply Pc. assumption.
      * exact Hmono.
      * unfold has_g. ssimpl. rewrite (lookup_cons_eq neqb neqb_spec). eauto.
  Qed.

  Lemma fold_relax_P : forall cur gcur l s,
    P s ->
    let s' := fold_left (relax cur gcur) l s in
    P s' /\ s_closed s' = s_closed s /\ (forall x, has_g s x -> has_g s' x) /\
    (forall v w, In (v, w) l -> has_g s' v).
  Proof.
    intros cur gcur l. induction l as [|[v w] l IH]; intros s HP; simpl.
    - split; [assumption|]. split; [reflexivity|]. split; [auto|]. intros v w [].
    - destruct (relax_P cur gcur s v w HP) as [HP1 [Hc1 [Hm1 Hv1]]].
      destruct (IH _ HP1) as [HP2 [Hc2 [Hm2 Hl2]]].
      split; [assumption|]. split; [|split].
      + etransitivity; [exact Hc2|exact Hc1].
      + intros x Hx. apply Hm2, Hm1. assumption.
      + intros v' w' [E|Hin].
        * inversion E; subst. apply Hm2. assumption.
        * eapply Hl2. eassumption.
  Qed.

  Record inv2 (s : st) : Prop := {
    j_P : P s;
    j_closed : forall u, mem u (s_closed s) = true ->
                 is_goal u = false /\ forall v w, In (v, w) (nbrs u) -> has_g s v;
    j_start : has_g s start
  }.

  Definition unreachable_goal : Prop :=
    forall a q t d, lw start a q t d -> is_goal t = false.

  Lemma closed_all : forall (s : st), inv2 s -> s_heap s = [] ->
    forall u a q t d, lw u a q t d -> mem u (s_closed s) = true -> mem t (s_closed s) = true.
  Proof.
    intros s I Hh u a q t d H. induction H as [u a|u a v w q t d Hin Hw IH]; intros Hu; [assumption|].
    apply IH. destruct (j_closed _ I _ Hu) as [_ Hn].
    destruct (proj1 (j_P _ I) v (Hn _ _ Hin)) as [H|[k [c H]]]; [assumption|].
    rewrite Hh in H. destruct H.
  Qed.

  Lemma loop_inv2 : forall fuel s iters r,
    inv2 s -> loop fuel s iters = Some r -> r_status r = INFEASIBLE -> unreachable_goal.
  Proof.
    induction fuel as [|f IH]; intros s iters r I H Hst; [discriminate|].
    simpl in H.
    destruct (s_heap s) as [|[[k c] cur] h'] eqn:Eh.
    { inversion H; subst. clear H. intros a q t d Hw.
      assert (Hs : mem start (s_closed s) = true).
      { destruct (proj1 (j_P _ I) start (j_start _ I)) as [Hc|[k [c Hc]]]; [assumption|]. rewrite Eh in Hc. destruct Hc. }
      apply (j_closed _ I). eapply closed_all; eassumption. }
    destruct (iters <? max_iter)%Z eqn:Elt; simpl in H.
    2:{ inversion H; subst. simpl in Hst. destruct (max_iter <=? iters)%Z eqn:E; [discriminate|]. lia. }
    destruct (mem cur (s_closed s)) eqn:Ec.
    { eapply IH; [|exact H|exact Hst]. destruct I as [[Pa Pc] Jc Js]. constructor; ssimpl.
      - split; ssimpl.
        + intros v Hv. destruct (Pa v Hv) as [Hc|[k' [c' Hc]]]; [left; assumption|].
          rewrite Eh in Hc. destruct Hc as [E|Hc].
          * inversion E; subst. left. assumption.
          * right. exists k', c'. assumption.
        + exact Pc.
      - exact Jc.
      - exact Js. }
    destruct (lk cur (s_g s)) as [gcur|] eqn:Eg; [|discriminate].
    destruct (is_goal cur) eqn:Egoal.
    { destruct (reconstruct_path neqb (s_parent s) cur); [|discriminate].
      inversion H; subst. simpl in Hst. congruence. }
    unfold over_limit in H.
    set (s2 := mkSt (s_g s) (s_parent s) (cur :: s_closed s) (s_counter s) h' (s_evals s)) in *.
    assert (P2 : P s2).
    { destruct I as [[Pa Pc] Jc Js]. split; unfold s2; ssimpl.
      - intros v Hv. destruct (Pa v Hv) as [Hc|[k' [c' Hc]]].
        + left. apply memb_cons. assumption.
        + rewrite Eh in Hc. destruct Hc as [E|Hc].
          * inversion E; subst. left. simpl. rewrite (eqb_refl neqb neqb_spec). reflexivity.
          * right. exists k', c'. assumption.
      - intros u Hu. simpl in Hu. destruct (neqb u cur) eqn:E.
        + apply neqb_spec in E. subst. exists gcur. assumption.
        + apply Pc. assumption. }
    destruct (fold_relax_P cur gcur (nbrs cur) s2 P2) as [P3 [Hc3 [Hm3 Hn3]]].
    eapply IH; [|exact H|exact Hst].
    constructor.
    - exact P3.
    - intros u Hu. unfold BestFirst.expand in Hu. rewrite Hc3 in Hu. unfold s2 in Hu. simpl in Hu.
      destruct (neqb u cur) eqn:E.
      + apply neqb_spec in E. subst u. split; [assumption|]. intros v w Hin. eapply Hn3. eassumption.
      + destruct (j_closed _ I _ Hu) as [Hg Hn]. split; [assumption|].
        intros v w Hin. apply Hm3. apply (Hn _ _ Hin).
    - apply Hm3. apply (j_start _ I).
  Qed.

  Theorem best_first_infeasible_sound : forall fuel r,
    best_first neqb czero cadd cltb kltb mkkey limit_of found_status nbrs is_goal max_iter None fuel start = Some r ->
    r_status r = INFEASIBLE -> unreachable_goal.
  Proof.
    intros fuel r H Hst. unfold best_first in H. eapply loop_inv2; [|exact H|exact Hst].
    constructor.
    - split; unfold init_st; ssimpl.
      + intros v [gv Hv]. ssimpl in Hv. right. simpl in Hv. destruct (neqb v start) eqn:E; [|discriminate].
        apply neqb_spec in E. subst. exists (mkkey czero start), O. left. reflexivity.
      + intros u Hu. discriminate.
    - intros u Hu. discriminate.
    - exists czero. unfold init_st. ssimpl. apply (lookup_cons_eq neqb neqb_spec).
  Qed.
End Proofs2.
