(* C11 part B - soundness of the boolean checkers of BestSpec.v. *)
From Coq Require Import List ZArith Bool Arith Lia.
From SV Require Import C11.BestFirst C11.BestSpec.
Import ListNotations.

Section SpecProofs.
  Context {N C : Type}.
  Variable neqb : N -> N -> bool.
  Hypothesis neqb_eq : forall a b, neqb a b = true -> a = b.
  Variable cadd : C -> C -> C.
  Variable nbrs : N -> list (N * C).

  Lemma lsums_sound : forall q u acc sums t,
    lsums neqb cadd nbrs u acc q = (sums, t) ->
    forall d, In d sums -> exists a, In a acc /\ lwalk cadd nbrs u a q t d.
  Proof.
    induction q as [|v q IH]; intros u acc sums t H d Hd; simpl in H.
    - inversion H; subst. exists d. split; [assumption|constructor].
    - destruct (IH _ _ _ _ H d Hd) as [a' [Ha' Hw]].
      apply in_flat_map in Ha'. destruct Ha' as [a [Ha Hm]].
      apply in_map_iff in Hm. destruct Hm as [[v' w] [He Hf]].
      apply filter_In in Hf. destruct Hf as [Hin Hv]. simpl in *.
      apply neqb_eq in Hv. subst v' a'.
      exists a. split; [assumption|]. econstructor; eauto.
  Qed.

  Lemma path_check_sound : forall czero start is_goal p dok,
    path_check neqb cadd nbrs czero start is_goal p dok = true ->
    exists d, dok d = true /\ path_spec cadd nbrs czero start is_goal p d.
  Proof.
    intros czero start is_goal p dok H. unfold path_check in H.
    destruct p as [|s q]; [discriminate|].
    apply andb_true_iff in H. destruct H as [Hs H].
    apply neqb_eq in Hs. subst s.
    destruct (lsums neqb cadd nbrs start [czero] q) as [sums t] eqn:E.
    apply andb_true_iff in H. destruct H as [Hg Hex].
    apply existsb_exists in Hex. destruct Hex as [d [Hin Hd]].
    destruct (lsums_sound _ _ _ _ _ E d Hin) as [a [Ha Hw]].
    destruct Ha as [Ha|[]]. subst a.
    exists d. split; [assumption|]. exists q, t. auto.
  Qed.

  Theorem result_check_sound : forall (D : Type) (dok : D -> C -> bool) czero start is_goal (o : obs N D),
    result_check neqb cadd nbrs dok czero start is_goal o = true ->
    result_spec_gen cadd nbrs dok czero start is_goal o.
  Proof.
    intros D dok czero start is_goal [[s p] d] H. unfold result_check in H. unfold result_spec_gen.
    destruct s; try discriminate.
    - destruct p as [p'|]; [|discriminate]. destruct d as [d'|]; [|discriminate].
      apply path_check_sound in H. destruct H as [x [Hx Hp]]. exists p', d', x. auto.
    - destruct p as [p'|]; [|discriminate]. destruct d as [d'|]; [|discriminate].
      apply path_check_sound in H. destruct H as [x [Hx Hp]]. exists p', d', x. auto.
    - destruct p; [discriminate|]. destruct d; [discriminate|]. auto.
    - destruct p; [discriminate|]. destruct d; [discriminate|]. auto.
  Qed.
End SpecProofs.
